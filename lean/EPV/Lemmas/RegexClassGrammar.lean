/-
C12 helper lemmas: the transcribed class scanner (`parseClassM`: group scan, hyphen checks,
`_re_char_set.split`, `CharacterClass.add`, `^`, `-[...]`) against the XSD group grammar, for every
bracket expression whose groups are literal runs of that grammar and single-character escapes.
The literal runs go through C13's theorem on `iterparse_character_subset` (Props/C13Str.lean,
imported read-only): the parser accepts exactly the grammar's set where the grammar speaks.
-/
import EPV.Lemmas.RegexScanner
import EPV.Lemmas.RegexTranslate
import EPV.Props.C13Str
namespace EPV.Regex
open EPV.USet (CP memL strictGroup GroupRes)

/-! ### the split of a group text into literal parts and single-character escapes -/

/-- the single-character escapes `_re_char_set` cuts out: `\n \r \t \| \. \- \^ \? \* \+ \{ \} \( \) \]` -/
def singleEscs : List Ch := [110, 114, 116, 124, 46, 45, 94, 63, 42, 43, 123, 125, 40, 41, 93]

/-- the character a single-character escape stands for (XSD [83] SingleCharEsc) -/
def escChar (e : Ch) : Ch := if e == 110 then 10 else if e == 114 then 13 else if e == 116 then 9 else e

/-- a segment of a group text: a literal run with its reading by the XSD group grammar, or `\e` -/
inductive Seg where
  | lit (l : List Ch) (S : List CP)
  | tok (e : Ch)

def Seg.text : Seg → List Ch
  | .lit l _ => l
  | .tok e => [92, e]

def renderSegs (segs : List Seg) : List Ch := segs.flatMap Seg.text

/-- the two characters before the position after reading `l` -/
def adv (p2 p1 : Option Ch) : List Ch → Option Ch × Option Ch
  | [] => (p2, p1)
  | c :: l => adv p1 (some c) l

theorem adv_snd (p2 p1 : Option Ch) (l : List Ch) :
    (adv p2 p1 l).2 = match l.getLast? with | some c => some c | none => p1 := by
  induction l generalizing p2 p1 with
  | nil => rfl
  | cons c l ih =>
    rw [adv, ih]
    cases l with
    | nil => rfl
    | cons d r =>
      cases h : (d :: r).getLast? with
      | none => simp at h
      | some e => simp [List.getLast?_cons_cons, h]

theorem reSplit_lit (l : List Ch) (h : ∀ c ∈ l, c ≠ 92) (fuel : Nat) (rest : List Ch) (p2 p1 : Option Ch) (cur : List Ch) :
    reSplit (fuel + l.length) (l ++ rest) p2 p1 cur =
      reSplit fuel rest (adv p2 p1 l).1 (adv p2 p1 l).2 (l.reverse ++ cur) := by
  induction l generalizing p2 p1 cur with
  | nil => simp [adv]
  | cons c l ih =>
    have hc := h c List.mem_cons_self
    rw [List.length_cons, ← Nat.add_assoc, List.cons_append]
    simp only [reSplit, escTokenLen_none c _ hc, ite_self]
    rw [ih (fun d hd => h d (List.mem_cons_of_mem _ hd))]
    simp [adv]

theorem escTokenLen_single (e : Ch) (rest : List Ch) (he : e ∈ singleEscs) : escTokenLen (92 :: e :: rest) = some 2 := by
  simp only [singleEscs, List.mem_cons, List.not_mem_nil, or_false] at he
  rcases he with h|h|h|h|h|h|h|h|h|h|h|h|h|h|h <;> subst h <;> simp [escTokenLen, chIn]

theorem reSplit_tok (e : Ch) (he : e ∈ singleEscs) (fuel : Nat) (rest : List Ch) (p2 p1 : Option Ch) (cur : List Ch)
    (hp : p1 ≠ some 45) :
    reSplit (fuel + 1) (92 :: e :: rest) p2 p1 cur =
      (false, cur.reverse) :: (true, [92, e]) :: reSplit fuel rest (some 92) (some e) [] := by
  have hb : (p1 == some 45) = false := by
    cases p1 with
    | none => rfl
    | some c => simp at hp ⊢; exact hp
  simp [reSplit, hb, escTokenLen_single e rest he]


/-- no backslash, no bracket (hyphens allowed) -/
def NoBr (c : Ch) : Prop := c ≠ 92 ∧ c ≠ 91 ∧ c ≠ 93

/-- what `_re_char_set.split` must produce for a segmented text (`pend` = the literal text read so far) -/
def partsOf (pend : List Ch) : List Seg → List (Bool × List Ch)
  | [] => [(false, pend)]
  | .lit l _ :: r => partsOf (pend ++ l) r
  | .tok e :: r => (false, pend) :: (true, [92, e]) :: partsOf [] r

/-- A segmentation the split and the grammar agree on.  Literal runs are non-empty, backslash- and
bracket-free, read by the XSD group grammar as `S`, and never adjacent; escapes are single-character
escapes; an escape is not directly preceded by `-` (the lookbehind of `_re_char_set` would keep it in
the literal part) and the run after an escape does not begin with `-` (it would be a range starting at the
escape — known finding F12s).  `afterTok`: the previous segment was an escape; `prev`: the character before. -/
def SegsOK : Bool → Option Ch → List Seg → Prop
  | _, _, [] => True
  | afterTok, _, .lit l S :: r =>
    l ≠ [] ∧ (∀ c ∈ l, NoBr c) ∧ strictGroup l = .ok S ∧ (afterTok = true → l.head? ≠ some 45) ∧
    (match r with | .lit _ _ :: _ => False | _ => True) ∧ SegsOK false l.getLast? r
  | _, prev, .tok e :: r => e ∈ singleEscs ∧ prev ≠ some 45 ∧ SegsOK true (some e) r

theorem reSplit_segs : ∀ (segs : List Seg) (fuel : Nat) (p2 p1 : Option Ch) (cur : List Ch) (afterTok : Bool),
    SegsOK afterTok p1 segs →
    reSplit (fuel + (renderSegs segs).length) (renderSegs segs) p2 p1 cur = partsOf cur.reverse segs := by
  intro segs
  induction segs with
  | nil => intro fuel p2 p1 cur _ _; cases fuel <;> simp [renderSegs, reSplit, partsOf]
  | cons sg r ih =>
    intro fuel p2 p1 cur afterTok hok
    cases sg with
    | lit l S =>
      obtain ⟨hne, hnb, _, _, _, hr⟩ := hok
      have h92 : ∀ c ∈ l, c ≠ 92 := fun c hc => (hnb c hc).1
      have hlen : (renderSegs (.lit l S :: r)).length = (renderSegs r).length + l.length := by
        simp [renderSegs, Seg.text]; omega
      have htxt : renderSegs (.lit l S :: r) = l ++ renderSegs r := by simp [renderSegs, Seg.text]
      rw [hlen, htxt, ← Nat.add_assoc, reSplit_lit l h92]
      have hp1 : (adv p2 p1 l).2 = l.getLast? := by
        rw [adv_snd]
        cases hl : l.getLast? with
        | none => simp at hl; exact absurd hl hne
        | some c => rfl
      rw [ih fuel _ _ _ false (by rw [hp1]; exact hr)]
      simp [partsOf]
    | tok e =>
      obtain ⟨he, hp, hr⟩ := hok
      have hlen : (renderSegs (.tok e :: r)).length = (renderSegs r).length + 2 := by
        simp [renderSegs, Seg.text]
      have htxt : renderSegs (.tok e :: r) = 92 :: e :: renderSegs r := by simp [renderSegs, Seg.text]
      rw [hlen, htxt, show fuel + ((renderSegs r).length + 2) = (fuel + 1 + (renderSegs r).length) + 1 by omega,
        reSplit_tok e he _ _ p2 p1 cur hp, ih (fuel + 1) _ _ _ true hr]
      simp [partsOf]


/-! ### what `CharacterClass.add` builds from the parts -/

theorem cpSet_mem (l : List CP) (x : Nat) : (cpSet l).mem x = true ↔ memL x l := by
  induction l with
  | nil => simp [cpSet, SetE.mem, memR, memL]
  | cons c l ih =>
    simp only [cpSet, SetE.mem, memR, List.map_cons, List.any_cons, Bool.or_eq_true] at ih ⊢
    rw [ih]
    cases c with
    | one n => simp [memL, EPV.USet.CP.mem, EPV.USet.CP.lo, EPV.USet.CP.hi]
    | rng a b => simp [memL, EPV.USet.CP.mem, EPV.USet.CP.lo, EPV.USet.CP.hi]

/-- a text the XSD group grammar reads as `S` is accepted by `UnicodeSubset.update(str)` and denotes `S` -/
theorem parseSubset_strict (body : List Ch) (S : List CP) (h : strictGroup body = .ok S) :
    ∃ s, parseSubset body = some s ∧ ∀ x, s.mem x = true ↔ memL x S := by
  obtain ⟨l, hl, _, hm⟩ := EPV.C13.subset_string_accepted body.toArray S (by simpa using h)
  refine ⟨cpSet l, by simp [parseSubset, hl], fun x => ?_⟩
  rw [cpSet_mem]
  exact hm x

theorem single_mem (c x : Nat) : (SetE.single c).mem x = true ↔ x = c := by
  simp only [SetE.single, SetE.mem, memR, List.any_cons, List.any_nil, Bool.or_false, Bool.and_eq_true, decide_eq_true_eq]
  constructor
  · rintro ⟨h1, h2⟩
    have h3 : @LE.le Nat _ c x := h1
    have h4 : @LT.lt Nat _ x (c + 1) := h2
    omega
  · rintro rfl; exact ⟨Nat.le_refl _, Nat.lt_succ_self _⟩

/-- the pending literal part: empty, or a backslash-free run the group grammar reads as `Sp` -/
def PendOK (pend : List Ch) (Sp : List CP) : Prop :=
  (pend = [] ∧ Sp = []) ∨ (pend ≠ [] ∧ (∀ c ∈ pend, c ≠ 92) ∧ strictGroup pend = .ok Sp)

theorem addPart_lit (T : MTables) (c : CC) (pend : List Ch) (Sp : List CP) (h : PendOK pend Sp) :
    ∃ s, addPart T c pend = some (c.addItem ⟨false, s⟩) ∧ ∀ x, s.mem x = true ↔ memL x Sp := by
  rcases h with ⟨rfl, rfl⟩ | ⟨hne, h92, hg⟩
  · refine ⟨cpSet [], ?_, fun x => by rw [cpSet_mem]⟩
    have : EPV.USet.iterparse #[] = some [] := by decide
    simp [addPart, parseSubset, this]
  · obtain ⟨s, hs, hm⟩ := parseSubset_strict pend Sp hg
    have hhead : pend.head? ≠ some 92 := by
      cases pend with
      | nil => simp
      | cons c r => simpa using h92 c List.mem_cons_self
    exact ⟨s, by rw [addPart_plain T c pend hhead, hs]; rfl, hm⟩

theorem addPart_tok (T : MTables) (c : CC) (e : Ch) (he : e ∈ singleEscs) :
    addPart T c [92, e] = some (c.addItem ⟨false, .single (escChar e)⟩) := by
  simp only [singleEscs, List.mem_cons, List.not_mem_nil, or_false] at he
  rcases he with h|h|h|h|h|h|h|h|h|h|h|h|h|h|h <;> subst h <;> simp [addPart, chIn, escChar]

theorem addItem_pos (c : CC) (s : SetE) (x : Nat) :
    (c.addItem ⟨false, s⟩).pos.mem x = (c.pos.mem x || s.mem x) ∧ (c.addItem ⟨false, s⟩).neg = c.neg := by
  simp [CC.addItem, SetE.mem]

/-- the union a segmented group denotes (XSD [77]: a positive group is the union of its parts) -/
def SegsDen (segs : List Seg) (x : Nat) : Prop :=
  ∃ sg ∈ segs, match sg with | .lit _ S => memL x S | .tok e => x = escChar e

theorem SegsDen_cons (sg : Seg) (r : List Seg) (x : Nat) :
    SegsDen (sg :: r) x ↔ ((match sg with | .lit _ S => memL x S | .tok e => x = escChar e) ∨ SegsDen r x) := by
  simp [SegsDen]

theorem fold_parts (T : MTables) : ∀ (segs : List Seg) (pend : List Ch) (Sp : List CP) (c : CC) (afterTok : Bool)
    (prev : Option Ch), SegsOK afterTok prev segs → PendOK pend Sp →
    (pend ≠ [] → match segs with | .lit _ _ :: _ => False | _ => True) →
    ∃ c', (partsOf pend segs).foldlM (fun c p => addPart T c p.2) c = some c' ∧ c'.neg = c.neg ∧
      ∀ x, c'.pos.mem x = true ↔ (c.pos.mem x = true ∨ memL x Sp ∨ SegsDen segs x) := by
  intro segs
  induction segs with
  | nil =>
    intro pend Sp c _ _ _ hpend _
    obtain ⟨s, hs, hm⟩ := addPart_lit T c pend Sp hpend
    refine ⟨c.addItem ⟨false, s⟩, by simp [partsOf, List.foldlM, hs], (addItem_pos c s 0).2, fun x => ?_⟩
    rw [(addItem_pos c s x).1, Bool.or_eq_true, hm x]
    simp [SegsDen]
  | cons sg r ih =>
    intro pend Sp c afterTok prev hok hpend hadj
    cases sg with
    | lit l S =>
      obtain ⟨hne, hnb, hg, _, hnext, hr⟩ := hok
      have hp0 : pend = [] := by
        cases pend with
        | nil => rfl
        | cons a b => exact absurd (hadj (by simp)) id
      subst hp0
      have hSp : Sp = [] := by
        rcases hpend with ⟨_, h⟩ | ⟨h, _⟩
        · exact h
        · exact absurd rfl h
      subst hSp
      have hpend' : PendOK l S := .inr ⟨hne, fun c hc => (hnb c hc).1, hg⟩
      obtain ⟨c', hf, hn, hm⟩ := ih l S c false l.getLast? hr hpend' (fun _ => hnext)
      refine ⟨c', by simpa [partsOf] using hf, hn, fun x => ?_⟩
      rw [hm x, SegsDen_cons]
      simp only [memL]
      constructor
      · rintro (h | h | h)
        · exact .inl h
        · exact .inr (.inr (.inl h))
        · exact .inr (.inr (.inr h))
      · rintro (h | h | h | h)
        · exact .inl h
        · exact h.elim
        · exact .inr (.inl h)
        · exact .inr (.inr h)
    | tok e =>
      obtain ⟨he, _, hr⟩ := hok
      obtain ⟨s, hs, hms⟩ := addPart_lit T c pend Sp hpend
      have ht := addPart_tok T (c.addItem ⟨false, s⟩) e he
      obtain ⟨c', hf, hn, hm⟩ := ih [] [] ((c.addItem ⟨false, s⟩).addItem ⟨false, .single (escChar e)⟩) true (some e) hr
        (.inl ⟨rfl, rfl⟩) (fun h => absurd rfl h)
      refine ⟨c', ?_, ?_, fun x => ?_⟩
      · simp [partsOf, List.foldlM, hs, ht, hf]
      · rw [hn, (addItem_pos _ _ 0).2, (addItem_pos c s 0).2]
      · rw [hm x, (addItem_pos _ _ x).1, (addItem_pos c s x).1]
        rw [SegsDen_cons]
        simp only [Bool.or_eq_true, hms x, single_mem, memL]
        constructor
        · rintro (((h | h) | h) | h | h)
          · exact .inl h
          · exact .inr (.inl h)
          · exact .inr (.inr (.inl h))
          · exact h.elim
          · exact .inr (.inr (.inr h))
        · rintro (h | h | h | h)
          · exact .inl (.inl (.inl h))
          · exact .inl (.inl (.inr h))
          · exact .inl (.inr h)
          · exact .inr (.inr h)


/-! ### the translator's own scan of the group text -/

theorem scanGroup_step' (c : Nat) (l acc : List Ch) (h : NoBr c) (hn : c = 45 → l.head? ≠ some 91) :
    scanGroup (c :: l) acc = scanGroup l (c :: acc) := by
  obtain ⟨h1, h3, h4⟩ := h
  rw [scanGroup.eq_def]
  split
  all_goals (first
    | (rename_i heq; simp only [List.cons.injEq, reduceCtorEq] at heq; obtain ⟨hh, _⟩ := heq
       first | exact absurd hh h3 | exact absurd hh h1 | exact absurd hh h4)
    | skip)
  · rename_i heq; cases heq
  · rename_i heq
    simp only [List.cons.injEq] at heq
    obtain ⟨rfl, rfl⟩ := heq
    exact absurd (by simp) (hn rfl)
  · rename_i heq
    simp only [List.cons.injEq] at heq
    obtain ⟨rfl, rfl⟩ := heq
    rfl

theorem scanGroup_lit (l rest : List Ch) (h : ∀ c ∈ l, NoBr c) (hr : rest.head? ≠ some 91) (acc : List Ch) :
    scanGroup (l ++ rest) acc = scanGroup rest (l.reverse ++ acc) := by
  induction l generalizing acc with
  | nil => simp
  | cons c l ih =>
    have hc := h c List.mem_cons_self
    have hn : c = 45 → (l ++ rest).head? ≠ some 91 := by
      intro _
      cases l with
      | nil => simpa using hr
      | cons d r => simpa using (h d (by simp)).2.1
    rw [List.cons_append, scanGroup_step' c _ acc hc hn, ih (fun d hd => h d (List.mem_cons_of_mem _ hd))]
    simp

theorem scanGroup_tok (e : Ch) (he : e ∈ singleEscs) (rest acc : List Ch) :
    scanGroup (92 :: e :: rest) acc = scanGroup rest (e :: 92 :: acc) := by
  simp only [singleEscs, List.mem_cons, List.not_mem_nil, or_false] at he
  rcases he with h|h|h|h|h|h|h|h|h|h|h|h|h|h|h <;> subst h <;> simp [scanGroup]

/-- the two ways a group ends: `]`, or `-[` (class subtraction) -/
def IsTerm (t : List Ch) : Prop := (∃ tail, t = 93 :: tail) ∨ (∃ tail, t = 45 :: 91 :: tail)

theorem term_head (t : List Ch) (ht : IsTerm t) : t.head? ≠ some 91 := by
  rcases ht with ⟨tail, rfl⟩ | ⟨tail, rfl⟩ <;> simp

theorem renderSegs_head (segs : List Seg) (rest : List Ch) (afterTok : Bool) (prev : Option Ch)
    (h : SegsOK afterTok prev segs) (hr : rest.head? ≠ some 91) : (renderSegs segs ++ rest).head? ≠ some 91 := by
  cases segs with
  | nil => simpa [renderSegs] using hr
  | cons sg r =>
    cases sg with
    | lit l S =>
      obtain ⟨hne, hnb, _⟩ := h
      cases l with
      | nil => exact absurd rfl hne
      | cons c l' => simpa [renderSegs, Seg.text] using (hnb c List.mem_cons_self).2.1
    | tok e => simp [renderSegs, Seg.text]

theorem scanGroup_segs : ∀ (segs : List Seg) (term : List Ch) (afterTok : Bool) (prev : Option Ch) (acc : List Ch),
    SegsOK afterTok prev segs → IsTerm term →
    scanGroup (renderSegs segs ++ term) acc = some (acc.reverse ++ renderSegs segs, term) := by
  intro segs
  induction segs with
  | nil =>
    intro term _ _ acc _ ht
    rcases ht with ⟨tail, rfl⟩ | ⟨tail, rfl⟩ <;> simp [renderSegs, scanGroup]
  | cons sg r ih =>
    intro term afterTok prev acc hok ht
    cases sg with
    | lit l S =>
      obtain ⟨_, hnb, _, _, _, hr⟩ := hok
      have htxt : renderSegs (.lit l S :: r) = l ++ renderSegs r := by simp [renderSegs, Seg.text]
      rw [htxt, List.append_assoc, scanGroup_lit l _ hnb (renderSegs_head r term _ _ hr (term_head term ht)),
        ih term _ _ _ hr ht]
      simp
    | tok e =>
      obtain ⟨he, _, hr⟩ := hok
      have htxt : renderSegs (.tok e :: r) = 92 :: e :: renderSegs r := by simp [renderSegs, Seg.text]
      rw [htxt, List.cons_append, List.cons_append, scanGroup_tok e he, ih term _ _ _ hr ht]
      simp

/-! ### a group: what `CharacterClass(charset)` builds -/

theorem mkClass_segs (T : MTables) (segs : List Seg) (h : SegsOK false none segs) :
    ∃ c, mkClass T (renderSegs segs) = some c ∧ c.neg = SetE.none ∧ ∀ x, c.pos.mem x = true ↔ SegsDen segs x := by
  obtain ⟨c, hf, hn, hm⟩ := fold_parts T segs [] [] CC.new false none h (.inl ⟨rfl, rfl⟩) (fun h => absurd rfl h)
  refine ⟨c, ?_, by rw [hn]; rfl, fun x => ?_⟩
  · unfold mkClass
    rw [show (renderSegs segs).length + 1 = 1 + (renderSegs segs).length by omega, reSplit_segs segs 1 none none [] false h]
    exact hf
  · rw [hm x]
    simp [CC.new, none_mem, memL]

/-- a class with an empty negative part: pure, and its members are those of the positive part -/
theorem posonly_class (c : CC) (hn : c.neg = SetE.none) : c.Pure ∧ ∀ x, c.contains x = c.pos.mem x := by
  refine ⟨.inl (by rw [hn]; exact none_isEmpty), fun x => ?_⟩
  simp [CC.contains, hn, none_isEmpty]

/-- the translator's own checks on the group text (patterns.py:84-95): no `--` in a text longer than two
characters, and under XSD 1.0 no `x-y-z` -/
def translatorChecks (v10 : Bool) (body : List Ch) : Bool :=
  !(hasDoubleHyphen none body && decide (body.length > 2)) && !(v10 && hasInvalidHyphen body)

/-! ### bracket expressions in the XSD group grammar, with negation and subtraction -/

/-- `[` `^`? group `]`  or  `[` `^`? group `-[` sub `]` `]`, the group given by its segments -/
inductive GClass where
  | plain (ng : Bool) (segs : List Seg)
  | minus (ng : Bool) (segs : List Seg) (sub : GClass)

def caret (ng : Bool) : List Ch := if ng then [94] else []

/-- the text after the opening `[`, up to and including the closing `]` -/
def GClass.render : GClass → List Ch
  | .plain ng segs => caret ng ++ renderSegs segs ++ [93]
  | .minus ng segs sub => caret ng ++ renderSegs segs ++ 45 :: 91 :: (sub.render ++ [93])

/-- the group is a non-empty well-formed segmentation (`SegsOK`), passes the translator's hyphen checks,
and does not start with `^` unless the class is negated -/
def GroupWF (v10 ng : Bool) (segs : List Seg) : Prop :=
  segs ≠ [] ∧ SegsOK false none segs ∧ (ng = false → (renderSegs segs).head? ≠ some 94) ∧
  translatorChecks v10 (renderSegs segs) = true

def GClass.WF (v10 : Bool) : GClass → Prop
  | .plain ng segs => GroupWF v10 ng segs
  | .minus ng segs sub => GroupWF v10 ng segs ∧ sub.WF v10

/-- XSD 1.1 part 2, G.4.1: the group's set, complemented under `^`, minus the subtracted class -/
def GClass.Den : GClass → Nat → Prop
  | .plain ng segs, x => if ng then ¬ SegsDen segs x else SegsDen segs x
  | .minus ng segs sub, x => (if ng then ¬ SegsDen segs x else SegsDen segs x) ∧ ¬ sub.Den x

def GClass.depth : GClass → Nat
  | .plain _ _ => 1
  | .minus _ _ sub => sub.depth + 1

theorem GClass.depth_le_render (g : GClass) : g.depth ≤ g.render.length := by
  induction g with
  | plain ng segs => simp [GClass.depth, GClass.render]; omega
  | minus ng segs sub ih => simp [GClass.depth, GClass.render]; omega

theorem renderSegs_ne_nil (segs : List Seg) (hne : segs ≠ []) (h : SegsOK false none segs) : renderSegs segs ≠ [] := by
  cases segs with
  | nil => exact absurd rfl hne
  | cons sg r =>
    cases sg with
    | lit l S =>
      obtain ⟨hl, _⟩ := h
      cases l with
      | nil => exact absurd rfl hl
      | cons c l' => simp [renderSegs, Seg.text]
    | tok e => simp [renderSegs, Seg.text]

/-- one level of `parse_character_class`: the group is scanned, checked and built; `^` complements it;
then either `]` closes the class or `-[` starts the class to subtract -/
theorem parse_group (T : MTables) (v10 ng : Bool) (segs : List Seg) (hwf : GroupWF v10 ng segs) :
    ∃ c, c.Pure ∧ (∀ x, x < maxCP1 → (c.contains x = true ↔ if ng then ¬ SegsDen segs x else SegsDen segs x)) ∧
      (∀ fuel tail, parseClassM T v10 (fuel + 1) (caret ng ++ renderSegs segs ++ 93 :: tail) = some (c, tail)) ∧
      (∀ fuel tail sub r, parseClassM T v10 fuel tail = some (sub, 93 :: r) →
        parseClassM T v10 (fuel + 1) (caret ng ++ renderSegs segs ++ 45 :: 91 :: tail) = some (c.isub sub, r)) := by
  obtain ⟨hne, hok, h0, hchk⟩ := hwf
  obtain ⟨c0, hmk, hneg, hm⟩ := mkClass_segs T segs hok
  have ⟨hp0, hc0⟩ := posonly_class c0 hneg
  have hbody := renderSegs_ne_nil segs hne hok
  generalize hb : renderSegs segs = body at *
  have hscan1 := fun tail => scanGroup_segs segs (93 :: tail) false none [] hok (.inl ⟨tail, rfl⟩)
  have hscan2 := fun tail => scanGroup_segs segs (45 :: 91 :: tail) false none [] hok (.inr ⟨tail, rfl⟩)
  simp only [List.reverse_nil, List.nil_append, hb] at hscan1 hscan2
  have hchk1 : (hasDoubleHyphen none body && decide (body.length > 2)) = false := by
    simp only [translatorChecks, Bool.and_eq_true, Bool.not_eq_true'] at hchk; exact hchk.1
  have hchk2 : (v10 && hasInvalidHyphen body) = false := by
    simp only [translatorChecks, Bool.and_eq_true, Bool.not_eq_true'] at hchk; exact hchk.2
  have hemp : body.isEmpty = false := by
    cases body with
    | nil => exact absurd rfl hbody
    | cons _ _ => rfl
  cases ng with
  | true =>
    have ⟨hp1, hc1⟩ := complement_pure _ hp0
    refine ⟨_, hp1, fun x hx => ?_, fun fuel tail => ?_, fun fuel tail sub r hsub => ?_⟩
    · rw [hc1 x hx, hc0 x]
      simp only [if_true]
      rw [← hm x]
      cases c0.pos.mem x <;> simp
    · simp only [caret, if_true, List.cons_append, List.nil_append]
      rw [parseClassM]
      simp only [hscan1, hemp, hchk1, hchk2, hmk, Bool.false_eq_true, if_false, if_true]
    · simp only [caret, if_true, List.cons_append, List.nil_append]
      rw [parseClassM]
      simp only [hscan2, hemp, hchk1, hchk2, hmk, hsub, Bool.false_eq_true, if_false, if_true]
  | false =>
    have hc94 : ∀ term rest, body ++ term ≠ 94 :: rest := by
      intro term rest heq
      cases body with
      | nil => exact absurd rfl hbody
      | cons c r =>
        simp only [List.cons_append, List.cons.injEq] at heq
        exact (h0 rfl) (by simp [heq.1])
    refine ⟨_, hp0, fun x _ => ?_, fun fuel tail => ?_, fun fuel tail sub r hsub => ?_⟩
    · rw [hc0 x]; simp only [Bool.false_eq_true, if_false]; exact hm x
    · simp only [caret, Bool.false_eq_true, if_false, List.nil_append]
      rw [parseClassM]
      case x_3 => intro rest heq; exact hc94 _ rest heq
      simp only [hscan1, hemp, hchk1, hchk2, hmk, Bool.false_eq_true, if_false]
    · simp only [caret, Bool.false_eq_true, if_false, List.nil_append]
      rw [parseClassM]
      case x_3 => intro rest heq; exact hc94 _ rest heq
      simp only [hscan2, hemp, hchk1, hchk2, hmk, hsub, Bool.false_eq_true, if_false]

/-- **The class scanner on the XSD group grammar.**  For every bracket expression whose groups are made
of literal runs in the XSD group grammar (characters, ranges `a-b`, a hyphen first or last) and
single-character escapes, with `^` and any depth of `-[...]` subtraction, `parse_character_class` accepts
the text, leaves what follows the closing `]`, and builds a pure class whose members are exactly the
grammar's set. -/
theorem parseClassM_grammar (T : MTables) (v10 : Bool) : ∀ (g : GClass), g.WF v10 →
    ∀ (fuel : Nat) (tail : List Ch), g.depth ≤ fuel →
    ∃ c, parseClassM T v10 fuel (g.render ++ tail) = some (c, tail) ∧ c.Pure ∧
      ∀ x, x < maxCP1 → (c.contains x = true ↔ g.Den x) := by
  intro g
  induction g with
  | plain ng segs =>
    intro hwf fuel tail hf
    obtain ⟨c, hp, hc, h1, _⟩ := parse_group T v10 ng segs hwf
    obtain ⟨f, rfl⟩ : ∃ f, fuel = f + 1 := ⟨fuel - 1, by simp [GClass.depth] at hf; omega⟩
    refine ⟨c, ?_, hp, fun x hx => by simpa [GClass.Den] using hc x hx⟩
    simpa [GClass.render] using h1 f tail
  | minus ng segs sub ih =>
    intro hwf fuel tail hf
    obtain ⟨hw1, hw2⟩ := hwf
    obtain ⟨c, hp, hc, _, h2⟩ := parse_group T v10 ng segs hw1
    obtain ⟨f, rfl⟩ : ∃ f, fuel = f + 1 := ⟨fuel - 1, by simp [GClass.depth] at hf; omega⟩
    obtain ⟨cs, hsub, hps, hcs⟩ := ih hw2 f (93 :: tail) (by simp [GClass.depth] at hf; omega)
    have ⟨hpi, hci⟩ := isub_pure c cs hp hps
    refine ⟨c.isub cs, ?_, hpi, fun x hx => ?_⟩
    · have := h2 f (sub.render ++ 93 :: tail) cs tail hsub
      simpa [GClass.render, List.append_assoc] using this
    · rw [hci x]
      simp only [Bool.and_eq_true, Bool.not_eq_true', GClass.Den]
      rw [hc x hx]
      have := hcs x hx
      constructor
      · rintro ⟨h1, h2'⟩
        exact ⟨h1, fun hd => by rw [this.2 hd] at h2'; cases h2'⟩
      · rintro ⟨h1, h2'⟩
        refine ⟨h1, ?_⟩
        cases hcc : cs.contains x with
        | false => rfl
        | true => exact absurd (this.1 hcc) h2'


/-! ### plain bodies are in the group grammar -/

open EPV.USet (charOrEsc afterChar strictGoF strictGo) in
theorem charOrEsc_plain (c : Nat) (rest : List Ch) (h : Plain c) : charOrEsc (c :: rest) = .ok (c, rest) := by
  obtain ⟨h1, h2, h3, h4⟩ := h
  unfold charOrEsc
  split
  · rename_i heq; simp only [List.cons.injEq] at heq; exact absurd heq.1 h1
  · rename_i heq
    simp only [List.cons.injEq] at heq
    obtain ⟨rfl, rfl⟩ := heq
    have e1 : (c == 91 || c == 93) = false := by simp [h3, h4]
    have e2 : (c == 92 || c == 45) = false := by simp [h1, h2]
    simp [e1, e2]
  · rename_i heq; cases heq

open EPV.USet (charOrEsc afterChar strictGoF strictGo) in
theorem strictGoF_plain : ∀ (body : List Ch) (fuel : Nat), (∀ c ∈ body, Plain c) → body.length < fuel →
    strictGoF fuel body = .ok (body.map CP.one) := by
  intro body
  induction body with
  | nil => intro fuel _ hf; obtain ⟨f, rfl⟩ : ∃ f, fuel = f + 1 := ⟨fuel - 1, by omega⟩; simp [strictGoF]
  | cons c rest ih =>
    intro fuel hp hf
    obtain ⟨f, rfl⟩ : ∃ f, fuel = f + 1 := ⟨fuel - 1, by omega⟩
    have hc := hp c List.mem_cons_self
    have ih' := ih f (fun d hd => hp d (List.mem_cons_of_mem _ hd)) (by simp at hf; omega)
    rw [strictGoF]
    · simp only [charOrEsc_plain c rest hc]
      unfold afterChar
      split
      · exact absurd rfl (hp 45 (by simp)).2.1
      · rw [ih']; rfl
    · intro heq; cases heq
    · intro heq
      simp only [List.cons.injEq] at heq
      exact hc.2.1 heq.1

open EPV.USet (charOrEsc afterChar strictGoF strictGo) in
theorem strictGroup_plain (body : List Ch) (hne : body ≠ []) (hp : ∀ c ∈ body, Plain c) :
    strictGroup body = .ok (body.map CP.one) := by
  cases body with
  | nil => exact absurd rfl hne
  | cons c rest =>
    have hc := hp c List.mem_cons_self
    cases rest with
    | nil => simp [strictGroup, charOrEsc_plain c [] hc]
    | cons d r =>
      rw [strictGroup]
      · exact strictGoF_plain (c :: d :: r) _ hp (Nat.lt_succ_self _)
      · intro x heq; cases heq
      · intro rest heq
        simp only [List.cons.injEq] at heq
        exact hc.2.1 heq.1

theorem memL_ones (body : List Ch) (x : Nat) : memL x (body.map CP.one) ↔ x ∈ body := by
  induction body with
  | nil => simp [memL]
  | cons c r ih =>
    simp only [List.map_cons, memL, ih, List.mem_cons, EPV.USet.CP.mem, EPV.USet.CP.lo, EPV.USet.CP.hi]
    constructor
    · rintro (⟨h1, h2⟩ | h)
      · left; omega
      · right; exact h
    · rintro (rfl | h)
      · left; exact ⟨Nat.le_refl _, Nat.lt_succ_self _⟩
      · right; exact h

end EPV.Regex

/-
Lemmas about the timezone lexical reader/printer (`EPV.TzLex`, model of `Timezone.fromstring` / `__str__`) and the
XSD grammar (`EPV.TzLexSpec`): kernel evaluation over the 1681 offsets and the 1683 strings of production [43].
-/
import EPV.Model.TzLexFinding
set_option linter.unusedVariables false
namespace EPV.TzLex
open EPV.TzLexSpec (parse canon timezoneFrag fragValue parseWs collapse isXmlSpace hourFrag minuteFrag digit)

/-- offset `n − 840`: printing gives the XSD canonical form, and the printed text is read back -/
def offsetRound (n : Nat) : Bool :=
  let v : Int := (n : Int) - 840
  fromString (toStr v) == .ok v && toStr v == canon v

theorem offsetRound_all : (List.range 1681).all offsetRound = true := by decide +kernel

theorem offset_facts (v : Int) (h1 : -840 ≤ v) (h2 : v ≤ 840) :
    fromString (toStr v) = .ok v ∧ toStr v = canon v := by
  have := List.all_eq_true.mp offsetRound_all (v + 840).toNat (List.mem_range.mpr (by omega))
  have e : (((v + 840).toNat : Nat) : Int) - 840 = v := by omega
  simp only [offsetRound, e, Bool.and_eq_true, beq_iff_eq] at this
  exact this

/-- every string of production [43] is read with the value of ·timezoneFragValue· -/
theorem frag_all : timezoneFrag.all (fun s => fromLiteral s == .ok (fragValue s) && xmlStrip s == s) = true := by decide +kernel

theorem parse_mem (s : Str) (m : Int) (h : parse s = some m) : s ∈ timezoneFrag ∧ fragValue s = m := by
  unfold parse at h
  split at h
  · rename_i hc
    cases h
    exact ⟨List.contains_iff_mem.mp hc, rfl⟩
  · cases h

theorem frag_literal (s : Str) (hm : s ∈ timezoneFrag) : fromLiteral s = .ok (fragValue s) ∧ xmlStrip s = s := by
  have := List.all_eq_true.mp frag_all s hm
  simpa only [Bool.and_eq_true, beq_iff_eq] using this

theorem parse_accepted (s : Str) (m : Int) (h : parse s = some m) : fromString s = .ok m := by
  obtain ⟨hm, hv⟩ := parse_mem s m h
  have := frag_literal s hm
  unfold fromString
  rw [this.2, this.1, hv]

/-- the values of the 1683 strings of [43], in the order of the production: `Z`, `+00:00 … +14:00`, `-00:00 … -14:00` -/
theorem frag_values : timezoneFrag.map fragValue =
    0 :: ((List.range 841).map (fun (n : Nat) => (n : Int)) ++ (List.range 841).map (fun (n : Nat) => -(n : Int))) := by
  decide +kernel

/-- the canonical mapping returns each string of [43] from its value (except the two non-canonical zeros) -/
theorem frag_canon : timezoneFrag.all (fun s => canon (fragValue s) == s || fragValue s == 0) = true := by
  decide +kernel

theorem parse_canon (v : Int) (h1 : -840 ≤ v) (h2 : v ≤ 840) : parse (canon v) = some v := by
  by_cases h0 : v = 0
  · subst h0; decide +kernel
  · have hv : v ∈ timezoneFrag.map fragValue := by
      rw [frag_values]
      refine List.mem_cons_of_mem _ (List.mem_append.mpr ?_)
      by_cases hp : 0 ≤ v
      · left; exact List.mem_map.mpr ⟨v.toNat, List.mem_range.mpr (by omega), by show ((v.toNat : Nat) : Int) = v; omega⟩
      · right; exact List.mem_map.mpr ⟨v.natAbs, List.mem_range.mpr (by omega), by show -((v.natAbs : Nat) : Int) = v; omega⟩
    obtain ⟨s, hs, hsv⟩ := List.mem_map.mp hv
    have hc := List.all_eq_true.mp frag_canon s hs
    simp only [Bool.or_eq_true, beq_iff_eq] at hc
    have hcs : canon v = s := by
      rcases hc with hc | hc
      · rw [← hsv]; exact hc
      · omega
    unfold parse
    rw [hcs, if_pos (List.contains_iff_mem.mpr hs), hsv]

theorem ctor_ok (t m : Int) (h : ctor t = .ok m) : m = t ∧ -840 ≤ t ∧ t ≤ 840 := by
  unfold ctor at h
  split at h
  · cases h
  · split at h
    · cases h
    · rename_i h2
      cases h
      simp only [Bool.or_eq_true, decide_eq_true_eq, not_or, Int.not_lt] at h2
      exact ⟨rfl, h2.1, h2.2⟩

theorem tryBody_ok (t : Str) (m : Int) (h : tryBody t = .ok m) : -840 ≤ m ∧ m ≤ 840 := by
  unfold tryBody at h
  split at h
  · split at h
    · obtain ⟨e, h1, h2⟩ := ctor_ok _ _ h
      subst e; exact ⟨h1, h2⟩
    · cases h
  · cases h

theorem fromLiteral_range (t : Str) (m : Int) (h : fromLiteral t = .ok m) : -840 ≤ m ∧ m ≤ 840 := by
  unfold fromLiteral at h
  split at h
  · cases h; omega
  · split at h
    · cases h
    · exact tryBody_ok _ _ h

/-- an accepted text denotes an offset of the value space -/
theorem accepted_range (text : Str) (m : Int) (h : fromString text = .ok m) : -840 ≤ m ∧ m ≤ 840 :=
  fromLiteral_range _ m h

theorem isStripChar_eq (c : Char) : isStripChar c = isXmlSpace c := by
  unfold isStripChar isXmlSpace stripChars
  simp only [List.contains_cons, List.contains_nil, Bool.or_false, Bool.or_assoc]

/-- `text.strip(' \\t\\n\\r')` is the white-space collapse of the specification -/
theorem xmlStrip_eq_collapse (text : Str) : xmlStrip text = collapse text := by
  have : isStripChar = isXmlSpace := funext isStripChar_eq
  unfold xmlStrip collapse
  rw [this]

/-- a full match of `_TIMEZONE_PATTERN` is a string of production [43] (structural, every string) -/
theorem match_mem (s : Str) (h : matchPattern s = true) : s ∈ timezoneFrag := by
  unfold matchPattern at h
  split at h
  · rename_i sg a b c d e
    simp only [Bool.and_eq_true, Bool.or_eq_true, beq_iff_eq, List.contains_iff_mem] at h
    obtain ⟨hsg, hrest⟩ := h
    unfold timezoneFrag
    refine List.mem_cons_of_mem _ (List.mem_flatMap.mpr ⟨sg, ?_, ?_⟩)
    · rcases hsg with rfl | rfl <;> simp
    · rcases hrest with ⟨⟨⟨hab, hc⟩, hd⟩, he⟩ | ⟨⟨⟨⟨ha, hb⟩, hc⟩, hd⟩, he⟩
      · subst hc
        refine List.mem_append_left _ (List.mem_flatMap.mpr ⟨[a, b], ?_, List.mem_map.mpr ⟨[d, e], ?_, rfl⟩⟩)
        · unfold hourFrag
          rcases hab with ⟨rfl, hb⟩ | ⟨rfl, hb⟩
          · exact List.mem_append_left _ (List.mem_map.mpr ⟨b, hb, rfl⟩)
          · exact List.mem_append_right _ (List.mem_map.mpr ⟨b, hb, rfl⟩)
        · unfold minuteFrag
          exact List.mem_flatMap.mpr ⟨d, hd, List.mem_map.mpr ⟨e, he, rfl⟩⟩
      · subst ha hb hc hd he
        exact List.mem_append_right _ (List.mem_singleton.mpr rfl)
  · cases h

/-- everything `fromLiteral` accepts: a string of [43] with its XSD value, or one of the two pinned zero forms -/
theorem fromLiteral_ok (lit : Str) (m : Int) (h : fromLiteral lit = .ok m) :
    (lit ∈ timezoneFrag ∧ fragValue lit = m) ∨
    ((lit = ['0', '0', ':', '0', '0'] ∨ lit = ['-', '0', ':', '0']) ∧ m = 0) := by
  by_cases hz : zeroForms.contains lit = true
  · have hm : m = 0 := by
      unfold fromLiteral at h; rw [if_pos hz] at h; cases h; rfl
    have := List.contains_iff_mem.mp hz
    unfold zeroForms at this
    simp only [List.mem_cons, List.not_mem_nil, or_false] at this
    rcases this with rfl | rfl | rfl
    · left; subst hm; exact ⟨List.mem_cons_self, by decide⟩
    · right; exact ⟨Or.inl rfl, hm⟩
    · right; exact ⟨Or.inr rfl, hm⟩
  · by_cases hp : matchPattern lit = true
    · have hmem := match_mem lit hp
      have := (frag_literal lit hmem).1
      rw [this] at h
      cases h
      left; exact ⟨hmem, rfl⟩
    · unfold fromLiteral at h
      rw [if_neg hz] at h
      simp only [hp, Bool.not_false, if_true] at h
      simp at hp
      simp at h

/-- a literal of [43] surrounded by XML white space is accepted with its XSD value -/
theorem parseWs_accepted (text : Str) (m : Int) (h : parseWs text = some m) : fromString text = .ok m := by
  unfold parseWs at h
  obtain ⟨hm, hv⟩ := parse_mem _ _ h
  unfold fromString
  rw [xmlStrip_eq_collapse, (frag_literal _ hm).1, hv]

/-- **exact characterisation of acceptance** -/
theorem fromString_ok_iff (text : Str) (m : Int) :
    fromString text = .ok m ↔ (parseWs text = some m ∨ (pinnedZero text = true ∧ m = 0)) := by
  constructor
  · intro h
    unfold fromString at h
    rw [xmlStrip_eq_collapse] at h
    rcases fromLiteral_ok _ m h with ⟨hm, hv⟩ | ⟨hp, h0⟩
    · left
      unfold parseWs parse
      rw [if_pos (List.contains_iff_mem.mpr hm), hv]
    · right
      refine ⟨?_, h0⟩
      unfold pinnedZero
      rcases hp with hp | hp <;> rw [hp] <;> decide
  · rintro (h | ⟨hp, h0⟩)
    · exact parseWs_accepted text m h
    · unfold pinnedZero at hp
      have := List.contains_iff_mem.mp hp
      simp only [List.mem_cons, List.not_mem_nil, or_false] at this
      unfold fromString
      rw [xmlStrip_eq_collapse, h0]
      rcases this with e | e <;> rw [e] <;> decide

/-- a rejection is always a ValueError: the OverflowError of `timedelta` is unreachable behind the pattern -/
theorem fromString_not_overflow (text : Str) : fromString text ≠ .overflowError := by
  intro h
  unfold fromString fromLiteral at h
  split at h
  · cases h
  · split at h
    · cases h
    · rename_i hz hp
      have hp' : matchPattern (xmlStrip text) = true := by simpa using hp
      have := (frag_literal _ (match_mem _ hp')).1
      unfold fromLiteral at this
      rw [if_neg hz] at this
      simp only [hp', Bool.not_true, Bool.false_eq_true, if_false] at this
      rw [this] at h
      cases h

theorem lenient_iff_pinned (text : Str) : lenient text = pinnedZero text := by
  unfold lenient
  cases hp : parseWs text with
  | some m =>
    have hpz : pinnedZero text = false := by
      cases hz : pinnedZero text with
      | false => rfl
      | true =>
        exfalso
        unfold pinnedZero at hz
        have := List.contains_iff_mem.mp hz
        simp only [List.mem_cons, List.not_mem_nil, or_false] at this
        unfold parseWs at hp
        have n1 : parse ['0', '0', ':', '0', '0'] = none := by decide +kernel
        have n2 : parse ['-', '0', ':', '0'] = none := by decide +kernel
        rcases this with e | e <;> rw [e] at hp
        · rw [n1] at hp; cases hp
        · rw [n2] at hp; cases hp
    simp [hpz]
  | none =>
    cases hz : pinnedZero text with
    | true =>
      have := (fromString_ok_iff text 0).mpr (Or.inr ⟨hz, rfl⟩)
      simp [this, Res.isOk]
    | false =>
      cases hf : fromString text with
      | ok m =>
        have := (fromString_ok_iff text m).mp hf
        rw [hp, hz] at this
        simp at this
      | valueError => simp [Res.isOk]
      | overflowError => simp [Res.isOk]

end EPV.TzLex

/-
C10 helper lemmas: hex / base64 codecs — decode ∘ encode = id over all octet lists.
-/
import EPV.Model.Lexical
import EPV.Spec.XSDLexical
namespace EPV.LexLemmas
open EPV Lex

theorem ofNat_val (a : Byte) (n : Nat) (h : n = a.val) : Fin.ofNat 256 n = a := by
  apply Fin.ext; simp [Fin.ofNat, h]

theorem hexVal_lower : ∀ n : Fin 16, hexVal (hexDigitLower n.val) = some n.val := by decide
theorem hexVal_upper : ∀ n : Fin 16, hexVal (hexDigitUpper n.val) = some n.val := by decide

theorem hexVal_lower' (n : Nat) (h : n < 16) : hexVal (hexDigitLower n) = some n := hexVal_lower ⟨n, h⟩
theorem hexVal_upper' (n : Nat) (h : n < 16) : hexVal (hexDigitUpper n) = some n := hexVal_upper ⟨n, h⟩

/-- `codecs.decode(codecs.encode(b, 'hex'), 'hex') = b` -/
theorem hexDecode_hexEncode (bs : List Byte) : hexDecode (hexEncode bs) = some bs := by
  induction bs with
  | nil => rfl
  | cons b r ih =>
    have h1 : b.val / 16 < 16 := by have := b.isLt; omega
    have h2 : b.val % 16 < 16 := by omega
    simp only [hexEncode, hexDecode, hexVal_lower' _ h1, hexVal_lower' _ h2, ih]
    congr 2
    exact ofNat_val b _ (by omega)

/-- the upper-case rendering (`HexBinary.__str__`) decodes to the same octets -/
theorem hexDecode_hexEncodeUpper (bs : List Byte) : hexDecode (hexEncodeUpper bs) = some bs := by
  induction bs with
  | nil => rfl
  | cons b r ih =>
    have h1 : b.val / 16 < 16 := by have := b.isLt; omega
    have h2 : b.val % 16 < 16 := by omega
    simp only [hexEncodeUpper, hexDecode, hexVal_upper' _ h1, hexVal_upper' _ h2, ih]
    congr 2
    exact ofNat_val b _ (by omega)

theorem b64Val_char : ∀ n : Fin 64, b64Val (b64Char n.val) = some n.val := by decide
theorem b64Char_ne_pad : ∀ n : Fin 64, (b64Char n.val == '=') = false := by decide

theorem b64Val_char' (n : Nat) (h : n < 64) : b64Val (b64Char n) = some n := b64Val_char ⟨n, h⟩
theorem b64Char_ne_pad' (n : Nat) (h : n < 64) : (b64Char n == '=') = false := b64Char_ne_pad ⟨n, h⟩

theorem b64Encode_eq_nil (r : List Byte) (h : b64Encode r = []) : r = [] := by
  match r with
  | [] => rfl
  | [_] => simp [b64Encode] at h
  | [_, _] => simp [b64Encode] at h
  | _ :: _ :: _ :: _ => simp [b64Encode] at h

/-- `codecs.decode(codecs.encode(b, 'base64'), 'base64') = b` (RFC 4648 §4, with padding) -/
theorem b64Decode_b64Encode (bs : List Byte) : b64Decode (b64Encode bs) = some bs := by
  induction bs using b64Encode.induct with
  | case1 => rfl
  | case2 a =>
    have ha := a.isLt
    simp only [b64Encode, b64Decode, b64Val_char' (a.val / 4) (by omega),
      b64Val_char' (a.val % 4 * 16) (by omega), beq_self_eq_true, Bool.and_self, ↓reduceIte]
    congr 2
    exact ofNat_val a _ (by omega)
  | case3 a b =>
    have ha := a.isLt
    have hb := b.isLt
    simp only [b64Encode, b64Decode, b64Val_char' (a.val / 4) (by omega),
      b64Val_char' (a.val % 4 * 16 + b.val / 16) (by omega),
      b64Val_char' (b.val % 16 * 4) (by omega), b64Char_ne_pad' (b.val % 16 * 4) (by omega),
      Bool.false_and, beq_self_eq_true, Bool.false_eq_true, ↓reduceIte]
    congr 2
    · exact ofNat_val a _ (by omega)
    · congr 1; exact ofNat_val b _ (by omega)
  | case4 a b c r ih =>
    have ha := a.isLt
    have hb := b.isLt
    have hc := c.isLt
    have e1 := b64Val_char' (a.val / 4) (by omega)
    have e2 := b64Val_char' (a.val % 4 * 16 + b.val / 16) (by omega)
    have e3 := b64Val_char' (b.val % 16 * 4 + c.val / 64) (by omega)
    have e4 := b64Val_char' (c.val % 64) (by omega)
    have p3 := b64Char_ne_pad' (b.val % 16 * 4 + c.val / 64) (by omega)
    have p4 := b64Char_ne_pad' (c.val % 64) (by omega)
    have o1 : Fin.ofNat 256 (a.val / 4 * 4 + (a.val % 4 * 16 + b.val / 16) / 16) = a := ofNat_val a _ (by omega)
    have o2 : Fin.ofNat 256 ((a.val % 4 * 16 + b.val / 16) % 16 * 16 + (b.val % 16 * 4 + c.val / 64) / 4) = b :=
      ofNat_val b _ (by omega)
    have o3 : Fin.ofNat 256 ((b.val % 16 * 4 + c.val / 64) % 4 * 64 + c.val % 64) = c := ofNat_val c _ (by omega)
    simp only [b64Encode]
    cases hr : b64Encode r with
    | nil =>
      have := b64Encode_eq_nil r hr
      subst this
      simp only [b64Decode, e1, e2, e3, e4, p3, p4, Bool.false_and, Bool.false_eq_true, ↓reduceIte, o1, o2, o3]
    | cons x xs =>
      rw [hr] at ih
      simp only [b64Decode, e1, e2, e3, e4, ih, o1, o2, o3]

end EPV.LexLemmas

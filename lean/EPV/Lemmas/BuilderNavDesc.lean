/-
C02 (phase 5) — descendants read through `children` (`navDescLoop`) = the pre-order listing of the
subtree, which is a contiguous block of the tree's listing.
-/
import EPV.Lemmas.BuilderNav
namespace EPV.Builder

/-- listing is strictly increasing in position -/
def NavStrict (l : List Nav) : Prop := (l.map (·.pos)).Pairwise (· < ·)

theorem eq_of_pos_eq : ∀ {l : List Nav}, NavStrict l → ∀ x ∈ l, ∀ y ∈ l, x.pos = y.pos → x = y
  | [], _, x, hx, _, _, _ => by cases hx
  | c :: l, h, x, hx, y, hy, e => by
    simp only [NavStrict, List.map_cons, List.pairwise_cons, List.mem_map, forall_exists_index, and_imp,
      forall_apply_eq_imp_iff₂] at h
    rcases List.mem_cons.1 hx with hx | hx <;> rcases List.mem_cons.1 hy with hy | hy
    · rw [hx, hy]
    · have := h.1 y hy; subst hx; omega
    · have := h.1 x hx; subst hy; omega
    · exact eq_of_pos_eq h.2 x hx y hy e

/-- dereferencing the link to a node of the tree gives that very node -/
theorem navGet_mem {l : List Nav} (hs : NavStrict l) {x : Nav} (hx : x ∈ l) : navGet l x.pos = some x := by
  unfold navGet
  cases hf : l.find? (·.pos == x.pos) with
  | none =>
    rw [List.find?_eq_none] at hf
    have := hf x hx
    simp at this
  | some y =>
    have hy := List.mem_of_find?_eq_some hf
    have hp := List.find?_some hf
    simp only [beq_iff_eq] at hp
    rw [eq_of_pos_eq hs y hy x hx hp]

mutual
/-- the eager (non namespace/attribute) nodes of a subtree in pre-order -/
def descNode : PNode → List Nat
  | .doc p kids => p :: descKids kids
  | .elem p _ _ _ _ kids => p :: descKids kids
  | .text p _ => [p]
  | .comment p _ => [p]
  | .pi p _ _ => [p]
def descKids : List PNode → List Nat
  | [] => []
  | n :: ns => descNode n ++ descKids ns
end

theorem navNode_length_pos (par : Option Nat) (n : PNode) : 0 < (navNode par n).length := by
  obtain ⟨tl, e⟩ := navNode_head par n; rw [e]; simp

theorem navHead_mem (par : Option Nat) (n : PNode) : navHead par n ∈ navNode par n := by
  obtain ⟨tl, e⟩ := navNode_head par n; rw [e]; exact List.mem_cons_self

theorem navChildren_head {navs : List Nav} (hs : NavStrict navs) (par : Option Nat) (n : PNode)
    (h : navHead par n ∈ navs) : navChildren navs n.pos = (navHead par n).children := by
  have := navGet_mem hs h
  rw [navHead_pos] at this
  simp [navChildren, this]

mutual
/-- descending through `children` from a node whose subtree listing sits inside `navs` lists the eager
nodes of the subtree in pre-order -/
theorem descLoop_node {navs : List Nav} (hs : NavStrict navs) : ∀ (n : PNode) (par : Option Nat) (fuel : Nat),
    navNode par n <:+: navs → (navNode par n).length < fuel + 1 → navDescLoop navs (fuel + 1) n.pos = descNode n
  | .doc p kids, par, fuel, hin, hf => by
    have hk : navKids (some p) kids <:+: navs :=
      (List.IsSuffix.isInfix (by simp only [navNode]; exact List.suffix_cons _ _)).trans hin
    have hc := navChildren_head hs par (.doc p kids) (hin.subset (navHead_mem _ _))
    simp only [navNode, List.length_cons] at hf
    simp only [navDescLoop, descNode, PNode.pos] at hc ⊢
    rw [hc]; simp only [navHead]
    rw [descLoop_kids hs kids (some p) fuel hk (by omega)]
  | .elem p name m att sv kids, par, fuel, hin, hf => by
    have hk : navKids (some p) kids <:+: navs :=
      (List.IsSuffix.isInfix (by
        simp only [navNode]
        exact (List.suffix_append _ _).trans (List.suffix_cons _ _))).trans hin
    have hc := navChildren_head hs par (.elem p name m att sv kids) (hin.subset (navHead_mem _ _))
    simp only [navNode, List.length_cons, List.length_append] at hf
    simp only [navDescLoop, descNode, PNode.pos] at hc ⊢
    rw [hc]; simp only [navHead]
    rw [descLoop_kids hs kids (some p) fuel hk (by omega)]
  | .text p s, par, fuel, hin, hf => by
    have hc := navChildren_head hs par (.text p s) (hin.subset (navHead_mem _ _))
    simp only [navDescLoop, descNode, PNode.pos] at hc ⊢
    rw [hc]; simp [navHead]
  | .comment p s, par, fuel, hin, hf => by
    have hc := navChildren_head hs par (.comment p s) (hin.subset (navHead_mem _ _))
    simp only [navDescLoop, descNode, PNode.pos] at hc ⊢
    rw [hc]; simp [navHead]
  | .pi p t s, par, fuel, hin, hf => by
    have hc := navChildren_head hs par (.pi p t s) (hin.subset (navHead_mem _ _))
    simp only [navDescLoop, descNode, PNode.pos] at hc ⊢
    rw [hc]; simp [navHead]
theorem descLoop_kids {navs : List Nav} (hs : NavStrict navs) : ∀ (ns : List PNode) (par : Option Nat) (fuel : Nat),
    navKids par ns <:+: navs → (navKids par ns).length < fuel →
    (ns.map PNode.pos).flatMap (navDescLoop navs fuel) = descKids ns
  | [], par, fuel, _, _ => by simp [descKids]
  | n :: ns, par, fuel, hin, hf => by
    have h1 : navNode par n <:+: navs :=
      (List.IsPrefix.isInfix (by simp only [navKids]; exact List.prefix_append _ _)).trans hin
    have h2 : navKids par ns <:+: navs :=
      (List.IsSuffix.isInfix (by simp only [navKids]; exact List.suffix_append _ _)).trans hin
    simp only [navKids, List.length_append] at hf
    have hpos := navNode_length_pos par n
    cases fuel with
    | zero => omega
    | succ fuel =>
      simp only [List.map_cons, List.flatMap_cons, descKids]
      rw [descLoop_node hs n par fuel h1 (by omega), descLoop_kids hs ns par (fuel + 1) h2 (by omega)]
end

/-! ### the eager nodes of a subtree are its listing minus the namespace/attribute nodes -/
mutual
theorem descNode_filter : ∀ (n : PNode) (par : Option Nat),
    descNode n = ((navNode par n).filter (·.isChild)).map (·.pos)
  | .doc p kids, par => by
    simp [descNode, navNode, Nav.isChild, descKids_filter kids (some p)]
  | .elem p name m att sv kids, par => by
    have hl : ((namespaceNodes p m ++ attributeNodes p m att).map Nav.ofRec).filter (·.isChild) = [] := by
      rw [List.filter_eq_nil_iff]
      intro x hx
      obtain ⟨r, hr, rfl⟩ := List.mem_map.1 hx
      simp [(lazy_fields p m att r hr).2.1]
    simp only [descNode, navNode, List.filter_cons, List.filter_append, hl, descKids_filter kids (some p)]
    simp [Nav.isChild]
  | .text p s, par => by simp [descNode, navNode, Nav.isChild]
  | .comment p s, par => by simp [descNode, navNode, Nav.isChild]
  | .pi p t s, par => by simp [descNode, navNode, Nav.isChild]
theorem descKids_filter : ∀ (ns : List PNode) (par : Option Nat),
    descKids ns = ((navKids par ns).filter (·.isChild)).map (·.pos)
  | [], par => by simp [descKids, navKids]
  | n :: ns, par => by
    simp [descKids, navKids, List.filter_append, descNode_filter n par, descKids_filter ns par]
end

/-! ### every eager node of the listing heads the listing of its own subtree, a contiguous block -/
mutual
theorem navNode_block : ∀ (n : PNode) (par : Option Nat), ∀ b ∈ navNode par n,
    (∃ m par', b = navHead par' m ∧ navNode par' m <:+: navNode par n) ∨ (b.isChild = false ∧ b.children = [])
  | .doc p kids, par => by
    intro b hb
    simp only [navNode, List.mem_cons] at hb
    rcases hb with rfl | hb
    · left; exact ⟨.doc p kids, par, rfl, List.infix_refl _⟩
    · rcases navKids_block kids (some p) b hb with ⟨m, par', e, hin⟩ | h
      · left; exact ⟨m, par', e, hin.trans (List.IsSuffix.isInfix (by simp only [navNode]; exact List.suffix_cons _ _))⟩
      · right; exact h
  | .elem p name m att sv kids, par => by
    intro b hb
    simp only [navNode, List.mem_cons, List.mem_append, List.mem_map] at hb
    rcases hb with rfl | ⟨r, hr, rfl⟩ | hb
    · left; exact ⟨.elem p name m att sv kids, par, rfl, List.infix_refl _⟩
    · right; have := lazy_fields p m att r (List.mem_append.2 hr); exact ⟨this.2.1, this.2.2⟩
    · rcases navKids_block kids (some p) b hb with ⟨m', par', e, hin⟩ | h
      · left
        exact ⟨m', par', e, hin.trans (List.IsSuffix.isInfix (by
          simp only [navNode]; exact (List.suffix_append _ _).trans (List.suffix_cons _ _)))⟩
      · right; exact h
  | .text p s, par => by
    intro b hb; simp [navNode] at hb; left; exact ⟨.text p s, par, by simp [hb, navHead], List.infix_refl _⟩
  | .comment p s, par => by
    intro b hb; simp [navNode] at hb; left; exact ⟨.comment p s, par, by simp [hb, navHead], List.infix_refl _⟩
  | .pi p t s, par => by
    intro b hb; simp [navNode] at hb; left; exact ⟨.pi p t s, par, by simp [hb, navHead], List.infix_refl _⟩
theorem navKids_block : ∀ (ns : List PNode) (par : Option Nat), ∀ b ∈ navKids par ns,
    (∃ m par', b = navHead par' m ∧ navNode par' m <:+: navKids par ns) ∨ (b.isChild = false ∧ b.children = [])
  | [], par => by intro b hb; simp [navKids] at hb
  | n :: ns, par => by
    intro b hb
    simp only [navKids, List.mem_append] at hb
    rcases hb with hb | hb
    · rcases navNode_block n par b hb with ⟨m, par', e, hin⟩ | h
      · left; exact ⟨m, par', e, hin.trans (List.IsPrefix.isInfix (by simp only [navKids]; exact List.prefix_append _ _))⟩
      · right; exact h
    · rcases navKids_block ns par b hb with ⟨m, par', e, hin⟩ | h
      · left; exact ⟨m, par', e, hin.trans (List.IsSuffix.isInfix (by simp only [navKids]; exact List.suffix_append _ _))⟩
      · right; exact h
end

end EPV.Builder

/-
C10 helper lemmas: the duration pattern of the model (`Lex.durParse`) against the XSD lexical space
written as rendering of fragments (`XSD.durationRender`, `XSD.durationWF`).
-/
import EPV.Lemmas.LexicalDec
namespace EPV.LexLemmas
open EPV

/-- a non-empty string of digits -/
def Digits1 (ds : List Char) : Prop := ds ≠ [] ∧ ∀ c ∈ ds, Lex.isDigit c = true

theorem digits1_iff (ds : List Char) : XSD.unsignedNoDecimalPt ds = true ↔ Digits1 ds := by
  unfold XSD.unsignedNoDecimalPt Digits1
  simp only [Bool.and_eq_true, Bool.not_eq_eq_eq_not, Bool.not_true, List.isEmpty_eq_false_iff]
  rw [allDigits_iff]

theorem fracFrag_iff (ds : List Char) : XSD.fracFrag ds = true ↔ Digits1 ds := by
  unfold XSD.fracFrag Digits1
  simp only [Bool.and_eq_true, Bool.not_eq_eq_eq_not, Bool.not_true, List.isEmpty_eq_false_iff]
  rw [allDigits_iff]

/-- the character that follows the leading run of digits, when that run is not empty -/
def firstDes (s : List Char) : Option Char :=
  if (s.takeWhile Lex.isDigit).isEmpty then none else (s.dropWhile Lex.isDigit).head?

theorem split_digits (ds : List Char) (c : Char) (r : List Char) (h : ∀ x ∈ ds, Lex.isDigit x = true)
    (hc : Lex.isDigit c = false) :
    (ds ++ c :: r).takeWhile Lex.isDigit = ds ∧ (ds ++ c :: r).dropWhile Lex.isDigit = c :: r :=
  takeWhile_digits_append ds (c :: r) h (Or.inr ⟨c, r, rfl, hc⟩)

theorem readItem_some (des : Char) (hd : Lex.isDigit des = false) (ds r : List Char) (h : Digits1 ds) :
    Lex.readItem des (ds ++ des :: r) = (some ds, r) := by
  obtain ⟨h1, h2⟩ := split_digits ds des r h.2 hd
  unfold Lex.readItem
  simp only [h1, h2]
  have : ds.isEmpty = false := by simpa using h.1
  simp [this]

theorem readItem_eq (des : Char) (s : List Char) :
    Lex.readItem des s = if firstDes s = some des then
        (some (s.takeWhile Lex.isDigit), (s.dropWhile Lex.isDigit).tail) else (none, s) := by
  unfold Lex.readItem firstDes
  cases hr : s.dropWhile Lex.isDigit with
  | nil => simp
  | cons c r =>
    by_cases he : (s.takeWhile Lex.isDigit).isEmpty = true
    · simp [he]
    · by_cases hc : c = des
      · subst hc; simp [he]
      · have : (c == des) = false := by simpa using hc
        simp [he, this, hc]

theorem readItem_sound (des : Char) (s r : List Char) (v : Option (List Char)) (h : Lex.readItem des s = (v, r)) :
    s = XSD.renderItem des v ++ r ∧ XSD.numeralOk v = true := by
  rw [readItem_eq] at h
  split at h
  · rename_i hf
    simp only [Prod.mk.injEq] at h
    obtain ⟨hv, hr⟩ := h
    subst hv; subst hr
    unfold firstDes at hf
    split at hf
    · cases hf
    · rename_i hne
      have hsplit : s.takeWhile Lex.isDigit ++ s.dropWhile Lex.isDigit = s := List.takeWhile_append_dropWhile
      cases hd : s.dropWhile Lex.isDigit with
      | nil => rw [hd] at hf; cases hf
      | cons c t =>
        rw [hd] at hf
        simp only [List.head?_cons, Option.some.injEq] at hf
        subst hf
        constructor
        · conv => lhs; rw [← hsplit, hd]
          simp [XSD.renderItem]
        · unfold XSD.numeralOk
          rw [digits1_iff]
          exact ⟨by simpa using hne, takeWhile_all s⟩
  · simp only [Prod.mk.injEq] at h
    obtain ⟨hv, hr⟩ := h
    subst hv; subst hr
    simp [XSD.renderItem, XSD.numeralOk]

theorem firstDes_digits_cons (ds : List Char) (c : Char) (r : List Char) (h : Digits1 ds)
    (hc : Lex.isDigit c = false) : firstDes (ds ++ c :: r) = some c := by
  obtain ⟨h1, h2⟩ := split_digits ds c r h.2 hc
  unfold firstDes
  have : ds.isEmpty = false := by simpa using h.1
  simp [h1, h2, this]

theorem firstDes_nondigit (c : Char) (r : List Char) (hc : Lex.isDigit c = false) : firstDes (c :: r) = none := by
  unfold firstDes
  rw [List.takeWhile_cons_of_neg (by simp [hc])]
  rfl

theorem firstDes_nil : firstDes [] = none := rfl

/-- designators: not digits -/
def DesOk (des : List Char) : Prop := ∀ d ∈ des, Lex.isDigit d = false

theorem firstDes_renderItems (des : List Char) (hd : DesOk des) (vals : List (Option (List Char)))
    (hv : vals.all XSD.numeralOk = true) (rest : List Char) :
    firstDes (XSD.renderItems des vals ++ rest) = firstDes rest ∨
    ∃ d ∈ des, firstDes (XSD.renderItems des vals ++ rest) = some d := by
  induction des generalizing vals with
  | nil => left; simp [XSD.renderItems]
  | cons d more ih =>
    cases vals with
    | nil => left; simp [XSD.renderItems]
    | cons v vs =>
      simp only [List.all_cons, Bool.and_eq_true] at hv
      have hdm : DesOk more := fun x hx => hd x (List.mem_cons_of_mem _ hx)
      cases v with
      | none =>
        simp only [XSD.renderItems, XSD.renderItem, List.nil_append]
        rcases ih hdm vs hv.2 with h | ⟨x, hx, h⟩
        · exact Or.inl h
        · exact Or.inr ⟨x, List.mem_cons_of_mem _ hx, h⟩
      | some ds =>
        right
        refine ⟨d, List.mem_cons_self, ?_⟩
        have hds : Digits1 ds := (digits1_iff ds).mp hv.1
        simp only [XSD.renderItems, XSD.renderItem, List.append_assoc, List.singleton_append]
        exact firstDes_digits_cons ds d _ hds (hd d List.mem_cons_self)

/-- completeness of the item reader on rendered fragments -/
theorem readItems_complete (des : List Char) (hd : DesOk des) (hnd : des.Nodup)
    (vals : List (Option (List Char))) (hl : vals.length = des.length) (hv : vals.all XSD.numeralOk = true)
    (rest : List Char) (hrest : ∀ d ∈ des, firstDes rest ≠ some d) :
    Lex.readItems des (XSD.renderItems des vals ++ rest) = (vals, rest) := by
  induction des generalizing vals with
  | nil =>
    cases vals with
    | nil => simp [Lex.readItems, XSD.renderItems]
    | cons _ _ => simp at hl
  | cons d more ih =>
    cases vals with
    | nil => simp at hl
    | cons v vs =>
      simp only [List.all_cons, Bool.and_eq_true] at hv
      simp only [List.length_cons, Nat.add_right_cancel_iff] at hl
      have hdm : DesOk more := fun x hx => hd x (List.mem_cons_of_mem _ hx)
      have hnd' := (List.nodup_cons.mp hnd)
      have hrest' : ∀ x ∈ more, firstDes rest ≠ some x := fun x hx => hrest x (List.mem_cons_of_mem _ hx)
      have ihh := ih hdm hnd'.2 vs hl hv.2 hrest'
      cases v with
      | some ds =>
        have hds : Digits1 ds := (digits1_iff ds).mp hv.1
        have e : XSD.renderItems (d :: more) (some ds :: vs) ++ rest =
            ds ++ d :: (XSD.renderItems more vs ++ rest) := by
          simp [XSD.renderItems, XSD.renderItem]
        rw [e]
        simp only [Lex.readItems]
        rw [readItem_some d (hd d List.mem_cons_self) ds _ hds]
        simp only [ihh]
      | none =>
        simp only [XSD.renderItems, XSD.renderItem, List.nil_append, Lex.readItems]
        have hno : firstDes (XSD.renderItems more vs ++ rest) ≠ some d := by
          rcases firstDes_renderItems more hdm vs hv.2 rest with h | ⟨x, hx, h⟩
          · rw [h]; exact hrest d List.mem_cons_self
          · rw [h]; intro e; cases e; exact hnd'.1 hx
        rw [readItem_eq, if_neg hno]
        simp only [ihh]

/-- soundness of the item reader -/
theorem readItems_sound (des : List Char) (s r : List Char) (vals : List (Option (List Char)))
    (h : Lex.readItems des s = (vals, r)) :
    s = XSD.renderItems des vals ++ r ∧ vals.length = des.length ∧ vals.all XSD.numeralOk = true := by
  induction des generalizing s vals with
  | nil =>
    simp only [Lex.readItems, Prod.mk.injEq] at h
    obtain ⟨h1, h2⟩ := h; subst h1; subst h2
    simp [XSD.renderItems]
  | cons d more ih =>
    simp only [Lex.readItems] at h
    cases hri : Lex.readItem d s with
    | mk v r1 =>
      cases hrs : Lex.readItems more r1 with
      | mk vs r2 =>
        rw [hri, hrs] at h
        simp only [Prod.mk.injEq] at h
        obtain ⟨h1, h2⟩ := h; subst h1; subst h2
        obtain ⟨e1, ok1⟩ := readItem_sound d s r1 v hri
        obtain ⟨e2, l2, ok2⟩ := ih r1 vs hrs
        refine ⟨?_, by simp [l2], by simp [ok1, ok2]⟩
        rw [e1, e2]; simp [XSD.renderItems]

/-! ### seconds -/

theorem readSec_sound (s r : List Char) (sv : Option (List Char × Option (List Char)))
    (h : Lex.readSec s = (sv, r)) : s = XSD.renderSec sv ++ r ∧ XSD.secOk sv = true := by
  unfold Lex.readSec at h
  have hsplit : s.takeWhile Lex.isDigit ++ s.dropWhile Lex.isDigit = s := List.takeWhile_append_dropWhile
  simp only at h
  split at h
  · simp only [Prod.mk.injEq] at h; obtain ⟨h1, h2⟩ := h; subst h1; subst h2
    simp [XSD.renderSec, XSD.secOk]
  · rename_i hne
    have hd1 : Digits1 (s.takeWhile Lex.isDigit) := ⟨by simpa using hne, takeWhile_all s⟩
    split at h
    · rename_i r' hr
      simp only [Prod.mk.injEq] at h; obtain ⟨h1, h2⟩ := h; subst h1; subst h2
      refine ⟨?_, by simp [XSD.secOk, (digits1_iff _).mpr hd1]⟩
      conv => lhs; rw [← hsplit, hr]
      simp [XSD.renderSec]
    · rename_i f hr
      have hfs : f.takeWhile Lex.isDigit ++ f.dropWhile Lex.isDigit = f := List.takeWhile_append_dropWhile
      split at h
      · rename_i r' hr2
        split at h
        · simp only [Prod.mk.injEq] at h; obtain ⟨h1, h2⟩ := h; subst h1; subst h2
          simp [XSD.renderSec, XSD.secOk]
        · rename_i hfne
          simp only [Prod.mk.injEq] at h; obtain ⟨h1, h2⟩ := h; subst h1; subst h2
          have hd2 : Digits1 (f.takeWhile Lex.isDigit) := ⟨by simpa using hfne, takeWhile_all f⟩
          refine ⟨?_, by simp [XSD.secOk, (digits1_iff _).mpr hd1, (fracFrag_iff _).mpr hd2]⟩
          conv => lhs; rw [← hsplit, hr, ← hfs, hr2]
          simp [XSD.renderSec]
      · simp only [Prod.mk.injEq] at h; obtain ⟨h1, h2⟩ := h; subst h1; subst h2
        simp [XSD.renderSec, XSD.secOk]
    · simp only [Prod.mk.injEq] at h; obtain ⟨h1, h2⟩ := h; subst h1; subst h2
      simp [XSD.renderSec, XSD.secOk]

theorem readSec_complete (sv : Option (List Char × Option (List Char))) (h : XSD.secOk sv = true) :
    Lex.readSec (XSD.renderSec sv) = (sv, []) := by
  cases sv with
  | none => simp [XSD.renderSec, Lex.readSec]
  | some p =>
    obtain ⟨a, fo⟩ := p
    cases fo with
    | none =>
      have ha : Digits1 a := (digits1_iff a).mp (by simpa [XSD.secOk] using h)
      obtain ⟨h1, h2⟩ := split_digits a 'S' [] ha.2 (by decide)
      have : a.isEmpty = false := by simpa using ha.1
      simp [XSD.renderSec, Lex.readSec, h1, h2, this]
    | some f =>
      simp only [XSD.secOk, Bool.and_eq_true] at h
      have ha : Digits1 a := (digits1_iff a).mp h.1
      have hf : Digits1 f := (fracFrag_iff f).mp h.2
      obtain ⟨h1, h2⟩ := split_digits a '.' (f ++ ['S']) ha.2 (by decide)
      obtain ⟨h3, h4⟩ := split_digits f 'S' [] hf.2 (by decide)
      have e1 : a.isEmpty = false := by simpa using ha.1
      have e2 : f.isEmpty = false := by simpa using hf.1
      simp [XSD.renderSec, Lex.readSec, h1, h2, h3, h4, e1, e2]

theorem firstDes_renderSec (sv : Option (List Char × Option (List Char))) (h : XSD.secOk sv = true) :
    firstDes (XSD.renderSec sv) ≠ some 'H' ∧ firstDes (XSD.renderSec sv) ≠ some 'M' := by
  cases sv with
  | none => simp [XSD.renderSec, firstDes_nil]
  | some p =>
    obtain ⟨a, fo⟩ := p
    cases fo with
    | none =>
      have ha : Digits1 a := (digits1_iff a).mp (by simpa [XSD.secOk] using h)
      have := firstDes_digits_cons a 'S' [] ha (by decide)
      simp only [XSD.renderSec]
      rw [this]; exact ⟨by decide, by decide⟩
    | some f =>
      simp only [XSD.secOk, Bool.and_eq_true] at h
      have ha : Digits1 a := (digits1_iff a).mp h.1
      have := firstDes_digits_cons a '.' (f ++ ['S']) ha (by decide)
      simp only [XSD.renderSec]
      rw [this]; exact ⟨by decide, by decide⟩

/-! ### what starts with a digit -/

theorem startsDigit_renderItems (des : List Char) (vals : List (Option (List Char)))
    (hl : vals.length = des.length) (hv : vals.all XSD.numeralOk = true) (hany : vals.any Option.isSome = true)
    (rest : List Char) : Lex.startsDigit (XSD.renderItems des vals ++ rest) = true := by
  induction des generalizing vals with
  | nil => cases vals <;> simp_all
  | cons d more ih =>
    cases vals with
    | nil => simp at hany
    | cons v vs =>
      simp only [List.all_cons, Bool.and_eq_true] at hv
      cases v with
      | some ds =>
        have hds : Digits1 ds := (digits1_iff ds).mp hv.1
        cases ds with
        | nil => exact absurd rfl hds.1
        | cons c t =>
          simp only [XSD.renderItems, XSD.renderItem, List.cons_append, Lex.startsDigit]
          exact hds.2 c List.mem_cons_self
      | none =>
        simp only [XSD.renderItems, XSD.renderItem, List.nil_append]
        simp only [List.any_cons, Option.isSome_none, Bool.false_or] at hany
        exact ih vs (by simpa using hl) hv.2 hany

theorem renderItems_all_none (des : List Char) (vals : List (Option (List Char)))
    (hany : vals.any Option.isSome = false) : XSD.renderItems des vals = [] := by
  induction des generalizing vals with
  | nil => simp [XSD.renderItems]
  | cons d more ih =>
    cases vals with
    | nil => simp [XSD.renderItems]
    | cons v vs =>
      simp only [List.any_cons, Bool.or_eq_false_iff] at hany
      cases v with
      | some _ => simp at hany
      | none => simp [XSD.renderItems, XSD.renderItem, ih vs hany.2]

theorem startsDigit_renderSec (sv : Option (List Char × Option (List Char))) (h : XSD.secOk sv = true)
    (hs : sv.isSome = true) : Lex.startsDigit (XSD.renderSec sv) = true := by
  cases sv with
  | none => simp at hs
  | some p =>
    obtain ⟨a, fo⟩ := p
    have ha : Digits1 a := by
      cases fo with
      | none => exact (digits1_iff a).mp (by simpa [XSD.secOk] using h)
      | some f => simp only [XSD.secOk, Bool.and_eq_true] at h; exact (digits1_iff a).mp h.1
    cases a with
    | nil => exact absurd rfl ha.1
    | cons c t =>
      cases fo <;> simp only [XSD.renderSec, List.cons_append, Lex.startsDigit] <;> exact ha.2 c List.mem_cons_self

/-! ### the whole pattern -/

/-- the body after 'P' of a rendered literal -/
def bodyOf (date time : List (Option (List Char))) (sec : Option (List Char × Option (List Char))) : List Char :=
  XSD.renderItems ['Y', 'M', 'D'] date ++
    (if XSD.hasTime time sec then 'T' :: (XSD.renderItems ['H', 'M'] time ++ XSD.renderSec sec) else [])

theorem desOk_date : DesOk ['Y', 'M', 'D'] := by intro d hd; simp at hd; rcases hd with h | h | h <;> subst h <;> decide
theorem desOk_time : DesOk ['H', 'M'] := by intro d hd; simp at hd; rcases hd with h | h <;> subst h <;> decide

theorem durBody_sound (neg : Bool) (b : List Char) (p : Lex.DurParts) (h : Lex.durBody neg b = some p) :
    p.neg = neg ∧ XSD.durationWF p.date p.time p.sec = true ∧ bodyOf p.date p.time p.sec = b := by
  unfold Lex.durBody at h
  split at h
  · cases h
  · rename_i hla
    simp only [Bool.not_eq_true', Bool.not_eq_false'] at hla
    split at h
    · -- no time part
      rename_i dv hr
      cases h
      obtain ⟨e, l, ok⟩ := readItems_sound _ _ _ _ hr
      simp only [List.append_nil] at e
      have hany : dv.any Option.isSome = true := by
        cases ha : dv.any Option.isSome with
        | true => rfl
        | false =>
          rw [renderItems_all_none _ _ ha] at e
          subst e; simp [Lex.startsDigit] at hla
      refine ⟨rfl, ?_, ?_⟩
      · simp [XSD.durationWF, l, ok, hany, XSD.numeralOk, XSD.secOk]
      · simp [bodyOf, XSD.hasTime, e]
    · rename_i dv t hr
      split at h
      · cases h
      · rename_i hsd
        simp only [Bool.not_eq_true', Bool.not_eq_false'] at hsd
        obtain ⟨e, l, ok⟩ := readItems_sound _ _ _ _ hr
        cases hrt : Lex.readItems ['H', 'M'] t with
        | mk tv r2 =>
          cases hrs : Lex.readSec r2 with
          | mk sv r3 =>
            simp only [hrt, hrs] at h
            split at h
            · rename_i hemp
              cases h
              have hr3 : r3 = [] := by simpa using hemp
              subst hr3
              obtain ⟨e2, l2, ok2⟩ := readItems_sound _ _ _ _ hrt
              obtain ⟨e3, ok3⟩ := readSec_sound _ _ _ hrs
              simp only [List.append_nil] at e3
              have ht : XSD.hasTime tv sv = true := by
                cases hh : XSD.hasTime tv sv with
                | true => rfl
                | false =>
                  simp only [XSD.hasTime, Bool.or_eq_false_iff] at hh
                  have hsn : sv = none := by cases sv <;> simp_all
                  rw [renderItems_all_none _ _ hh.1] at e2
                  rw [e3, hsn] at e2
                  simp only [XSD.renderSec, List.append_nil] at e2
                  subst e2; simp [Lex.startsDigit] at hsd
              refine ⟨rfl, ?_, ?_⟩
              · simp [XSD.durationWF, l, l2, ok, ok2, ok3, ht]
              · simp only [bodyOf, ht, ↓reduceIte]
                rw [e, e2, e3]
            · cases h
    · cases h

theorem durBody_complete (neg : Bool) (date time : List (Option (List Char)))
    (sec : Option (List Char × Option (List Char))) (hwf : XSD.durationWF date time sec = true) :
    Lex.durBody neg (bodyOf date time sec) = some ⟨neg, date, time, sec⟩ := by
  simp only [XSD.durationWF, Bool.and_eq_true, beq_iff_eq] at hwf
  obtain ⟨⟨⟨⟨⟨hl3, hl2⟩, hdok⟩, htok⟩, hsok⟩, hany⟩ := hwf
  have hndd : (['Y', 'M', 'D'] : List Char).Nodup := by decide
  have hndt : (['H', 'M'] : List Char).Nodup := by decide
  unfold Lex.durBody
  by_cases ht : XSD.hasTime time sec = true
  · -- with a time part
    have hb : bodyOf date time sec =
        XSD.renderItems ['Y', 'M', 'D'] date ++ 'T' :: (XSD.renderItems ['H', 'M'] time ++ XSD.renderSec sec) := by
      simp [bodyOf, ht]
    have hstart : Lex.startsDigit (XSD.renderItems ['H', 'M'] time ++ XSD.renderSec sec) = true := by
      simp only [XSD.hasTime, Bool.or_eq_true] at ht
      by_cases hta : time.any Option.isSome = true
      · exact startsDigit_renderItems _ _ (by simpa using hl2) htok hta _
      · have hta' : time.any Option.isSome = false := by simpa using hta
        rw [renderItems_all_none _ _ hta']
        simp only [List.nil_append]
        rcases ht with h | h
        · exact absurd h hta
        · exact startsDigit_renderSec sec hsok h
    have hla : (Lex.startsDigit (bodyOf date time sec) || (bodyOf date time sec).head? == some 'T') = true := by
      by_cases hda : date.any Option.isSome = true
      · rw [hb, startsDigit_renderItems _ _ (by simpa using hl3) hdok hda]; rfl
      · have hda' : date.any Option.isSome = false := by simpa using hda
        rw [hb, renderItems_all_none _ _ hda']; simp
    rw [hla]
    simp only [Bool.not_true, Bool.false_eq_true, ↓reduceIte]
    have hrd := readItems_complete ['Y', 'M', 'D'] desOk_date hndd date (by simpa using hl3) hdok
      ('T' :: (XSD.renderItems ['H', 'M'] time ++ XSD.renderSec sec))
      (by intro d _; rw [firstDes_nondigit 'T' _ (by decide)]; simp)
    rw [hb, hrd]
    simp only [hstart, Bool.not_true, Bool.false_eq_true, ↓reduceIte]
    have hfs := firstDes_renderSec sec hsok
    have hrt := readItems_complete ['H', 'M'] desOk_time hndt time (by simpa using hl2) htok (XSD.renderSec sec)
      (by intro d hd; simp at hd; rcases hd with h | h <;> subst h; exact hfs.1; exact hfs.2)
    rw [hrt]
    simp only [readSec_complete sec hsok, List.isEmpty_nil, ↓reduceIte]
  · -- no time part: every time slot is empty
    have ht' : XSD.hasTime time sec = false := by simpa using ht
    have hda : date.any Option.isSome = true := by
      rcases Bool.or_eq_true _ _ |>.mp hany with h | h
      · exact h
      · rw [ht'] at h; cases h
    have hb : bodyOf date time sec = XSD.renderItems ['Y', 'M', 'D'] date := by simp [bodyOf, ht']
    simp only [XSD.hasTime, Bool.or_eq_false_iff] at ht'
    have hsec : sec = none := by cases sec <;> simp_all
    have htime : time = [none, none] := by
      match time, hl2, ht'.1 with
      | [a, b], _, h =>
        simp only [List.any_cons, List.any_nil, Bool.or_false, Bool.or_eq_false_iff] at h
        cases a <;> cases b <;> simp_all
    have hla : Lex.startsDigit (bodyOf date time sec) = true := by
      rw [hb]
      have := startsDigit_renderItems ['Y', 'M', 'D'] date (by simpa using hl3) hdok hda []
      simpa using this
    rw [hla]
    simp only [Bool.true_or, Bool.not_true, Bool.false_eq_true, ↓reduceIte]
    have hrd := readItems_complete ['Y', 'M', 'D'] desOk_date hndd date (by simpa using hl3) hdok []
      (by intro d _; rw [firstDes_nil]; simp)
    simp only [List.append_nil] at hrd
    rw [hb, hrd, hsec, htime]

/-- **the duration pattern matches exactly the XSD lexical space**, and captures the fragments:
`durParse s = some p` iff `p` is a well-formed choice of fragments that renders to `s`. -/
theorem durParse_iff (s : List Char) (p : Lex.DurParts) :
    Lex.durParse s = some p ↔
      XSD.durationWF p.date p.time p.sec = true ∧ XSD.durationRender p.neg p.date p.time p.sec = s := by
  have hrender : ∀ neg, XSD.durationRender neg p.date p.time p.sec =
      (if neg then ['-'] else []) ++ 'P' :: bodyOf p.date p.time p.sec := fun _ => rfl
  constructor
  · intro h
    unfold Lex.durParse at h
    split at h
    · rename_i b
      obtain ⟨hn, hwf, hb⟩ := durBody_sound true b p h
      exact ⟨hwf, by rw [hrender, hn, hb]; rfl⟩
    · rename_i b
      obtain ⟨hn, hwf, hb⟩ := durBody_sound false b p h
      exact ⟨hwf, by rw [hrender, hn, hb]; rfl⟩
    · cases h
  · rintro ⟨hwf, hr⟩
    rw [hrender] at hr
    obtain ⟨neg, date, time, sec⟩ := p
    simp only at hr hwf
    subst hr
    cases neg
    · simp only [Bool.false_eq_true, ↓reduceIte, List.nil_append]
      have := durBody_complete false date time sec hwf
      -- the literal starts with 'P': second arm of the match
      show Lex.durParse ('P' :: bodyOf date time sec) = _
      unfold Lex.durParse
      exact this
    · simp only [↓reduceIte, List.singleton_append]
      have := durBody_complete true date time sec hwf
      show Lex.durParse ('-' :: 'P' :: bodyOf date time sec) = _
      unfold Lex.durParse
      exact this

end EPV.LexLemmas

/-
C05 helper lemmas: the frame property (caller's dict and caller's objects are returned unchanged)
for the helpers of `EPV.Scope.eval`, given the frame property of the evaluator one level down.
-/
import EPV.Model.Scope
namespace EPV.Scope

theorem Quirks.heapSafe_iff (q : Quirks) : q.heapSafe = true ↔ q.operandCopied = true ∧ q.adjustCopied = true := by
  simp [Quirks.heapSafe]

/-- `ev` hands back the caller's dict (when calls copy) and the caller's objects (when operands are copied) -/
def Frame (c : Cfg) (ev : Expr → Env → Heap → Res) : Prop :=
  ∀ e ρ h v ρ' h', ev e ρ h = .ok (v, ρ', h') →
    (c.q.callCopies = true → ρ' = ρ) ∧ (c.q.heapSafe = true → h' = h)

theorem subItems_heap (c : Cfg) (h : Heap) (x y : Item) (r : Item) (h' : Heap)
    (hq : c.q.heapSafe = true) (he : subItems c h x y = some (r, h')) : h' = h := by
  unfold subItems at he
  split at he
  · cases he
  · rw [((Quirks.heapSafe_iff _).1 hq).1] at he
    simp at he
    exact he.2.symm

theorem adjustItem_heap (c : Cfg) (h : Heap) (x : Item) (t : Option Int) (r : Item) (h' : Heap)
    (hq : c.q.heapSafe = true) (he : adjustItem c h x t = some (r, h')) : h' = h := by
  unfold adjustItem at he
  split at he
  · cases he
  · rw [((Quirks.heapSafe_iff _).1 hq).2] at he
    simp at he
    exact he.2.symm

variable {c : Cfg} {ev : Expr → Env → Heap → Res}

theorem operands_frame (hf : Frame c ev) {a b : Expr} {ρ : Env} {h : Heap}
    {o : Option (Item × Item)} {ρ' : Env} {h' : Heap}
    (he : operands ev a b ρ h = .ok (o, ρ', h')) :
    (c.q.callCopies = true → ρ' = ρ) ∧ (c.q.heapSafe = true → h' = h) := by
  unfold operands at he
  split at he
  · cases he
  · rename_i va ρ1 h1 ha
    have fa := hf _ _ _ _ _ _ ha
    split at he
    · cases he; exact fa
    · split at he
      · cases he
      · rename_i vb ρ2 h2 hb
        have fb := hf _ _ _ _ _ _ hb
        split at he
        · cases he
          exact ⟨fun q => (fb.1 q).trans (fa.1 q), fun q => (fb.2 q).trans (fa.2 q)⟩
        · cases he
          exact ⟨fun q => (fb.1 q).trans (fa.1 q), fun q => (fb.2 q).trans (fa.2 q)⟩
        · cases he
    · cases he

theorem forLoop_heap (hf : Frame c ev) (hq : c.q.heapSafe = true) (x : Name) (body : Expr) :
    ∀ (items : List Item) (ρc : Env) (h : Heap) (v : Val) (ρ' : Env) (h' : Heap),
      forLoop ev x body items ρc h = .ok (v, ρ', h') → h' = h := by
  intro items
  induction items with
  | nil => intro ρc h v ρ' h' he; simp [forLoop] at he; exact he.2.2.symm
  | cons it rest ih =>
    intro ρc h v ρ' h' he
    unfold forLoop at he
    split at he
    · cases he
    · rename_i v1 ρ1 h1 hb
      have fb := (hf _ _ _ _ _ _ hb).2 hq
      split at he
      · cases he
      · rename_i vs ρ2 h2 hr
        have := ih _ _ _ _ _ hr
        cases he
        exact this.trans fb

theorem quantLoop_heap (hf : Frame c ev) (hq : c.q.heapSafe = true) (s : Bool) (x : Name) (body : Expr) :
    ∀ (items : List Item) (ρc : Env) (h : Heap) (b : Bool) (ρ' : Env) (h' : Heap),
      quantLoop ev s x body items ρc h = .ok (b, ρ', h') → h' = h := by
  intro items
  induction items with
  | nil => intro ρc h v ρ' h' he; simp [quantLoop] at he; exact he.2.2.symm
  | cons it rest ih =>
    intro ρc h v ρ' h' he
    unfold quantLoop at he
    split at he
    · cases he
    · rename_i v1 ρ1 h1 hb
      have fb := (hf _ _ _ _ _ _ hb).2 hq
      split at he
      · cases he
      · split at he
        · cases he; exact fb
        · exact (ih _ _ _ _ _ he).trans fb

theorem evalArgs_frame (hf : Frame c ev) :
    ∀ (as : List Expr) (ρ : Env) (h : Heap) (vs : List Val) (ρ' : Env) (h' : Heap),
      evalArgs ev as ρ h = .ok (vs, ρ', h') →
      (c.q.callCopies = true → ρ' = ρ) ∧ (c.q.heapSafe = true → h' = h) := by
  intro as
  induction as with
  | nil => intro ρ h vs ρ' h' he; simp [evalArgs] at he; exact ⟨fun _ => he.2.1.symm, fun _ => he.2.2.symm⟩
  | cons a rest ih =>
    intro ρ h vs ρ' h' he
    unfold evalArgs at he
    split at he
    · cases he
    · rename_i v1 ρ1 h1 ha
      have fa := hf _ _ _ _ _ _ ha
      split at he
      · cases he
      · rename_i vs2 ρ2 h2 hr
        have fr := ih _ _ _ _ _ hr
        cases he
        exact ⟨fun q => (fr.1 q).trans (fa.1 q), fun q => (fr.2 q).trans (fa.2 q)⟩

theorem applyFn_frame (hf : Frame c ev) {ps : List Name} {body : Expr} {cap : Env} {args : List Val}
    {ρ : Env} {h : Heap} {v : Val} {ρ' : Env} {h' : Heap}
    (he : applyFn ev c ps body cap args ρ h = .ok (v, ρ', h')) :
    (c.q.callCopies = true → ρ' = ρ) ∧ (c.q.heapSafe = true → h' = h) := by
  unfold applyFn at he
  split at he
  · cases he
  · split at he
    · cases he
    · rename_i v1 ρ1 h1 hb
      have fb := hf _ _ _ _ _ _ hb
      cases he
      exact ⟨fun q => by simp [q], fb.2⟩


/-- the evaluator at every depth has the frame property -/
theorem eval_frame (c : Cfg) : ∀ n, Frame c (eval c n) := by
  intro n
  induction n with
  | zero => intro e ρ h v ρ' h' he; simp [eval] at he
  | succ n ih =>
    intro e ρ h v ρ' h' he
    unfold eval at he
    split at he
    · cases he; exact ⟨fun _ => rfl, fun _ => rfl⟩
    · split at he
      · cases he; exact ⟨fun _ => rfl, fun _ => rfl⟩
      · cases he
    · cases he; exact ⟨fun _ => rfl, fun _ => rfl⟩
    · exact ih _ _ _ _ _ _ he
    · -- seq
      split at he
      · cases he
      · rename_i va ρ1 h1 ha
        have fa := ih _ _ _ _ _ _ ha
        split at he
        · cases he
        · rename_i vb ρ2 h2 hb
          have fb := ih _ _ _ _ _ _ hb
          cases he
          exact ⟨fun q => (fb.1 q).trans (fa.1 q), fun q => (fb.2 q).trans (fa.2 q)⟩
    · -- add
      split at he
      · cases he
      · rename_i ρ2 h2 ho
        have fo := operands_frame ih ho
        cases he; exact fo
      · rename_i x y ρ2 h2 ho
        have fo := operands_frame ih ho
        split at he
        · cases he; exact fo
        · cases he
    · -- sub
      split at he
      · cases he
      · rename_i ρ2 h2 ho
        have fo := operands_frame ih ho
        cases he; exact fo
      · rename_i x y ρ2 h2 ho
        have fo := operands_frame ih ho
        split at he
        · rename_i r h3 hs
          cases he
          exact ⟨fo.1, fun q => (subItems_heap c _ _ _ _ _ q hs).trans (fo.2 q)⟩
        · cases he
    · -- eq
      split at he
      · cases he
      · rename_i va ρ1 h1 ha
        have fa := ih _ _ _ _ _ _ ha
        split at he
        · cases he
        · rename_i vb ρ2 h2 hb
          have fb := ih _ _ _ _ _ _ hb
          split at he
          · cases he
          · cases he
            exact ⟨fun q => (fb.1 q).trans (fa.1 q), fun q => (fb.2 q).trans (fa.2 q)⟩
    · cases he; exact ⟨fun _ => rfl, fun _ => rfl⟩
    · -- tzOf
      split at he
      · cases he
      · rename_i v1 ρ1 h1 ha
        have fa := ih _ _ _ _ _ _ ha
        split at he
        · cases he
        · cases he; exact fa
    · -- let
      split at he
      · cases he
      · rename_i v1 ρ1 h1 ha
        have fa := ih _ _ _ _ _ _ ha
        split at he
        · cases he
        · rename_i r ρ2 h2 hb
          have fb := ih _ _ _ _ _ _ hb
          cases he
          exact ⟨fun _ => rfl, fun q => (fb.2 q).trans (fa.2 q)⟩
    · -- for
      split at he
      · cases he
      · rename_i v1 ρ1 h1 ha
        have fa := ih _ _ _ _ _ _ ha
        split at he
        · cases he
        · rename_i r ρ2 h2 hb
          cases he
          exact ⟨fun _ => rfl, fun q => (forLoop_heap ih q _ _ _ _ _ _ _ _ hb).trans (fa.2 q)⟩
    · -- some
      split at he
      · cases he
      · rename_i v1 ρ1 h1 ha
        have fa := ih _ _ _ _ _ _ ha
        split at he
        · cases he
        · rename_i r ρ2 h2 hb
          cases he
          exact ⟨fun _ => rfl, fun q => (quantLoop_heap ih q _ _ _ _ _ _ _ _ _ hb).trans (fa.2 q)⟩
    · -- every
      split at he
      · cases he
      · rename_i v1 ρ1 h1 ha
        have fa := ih _ _ _ _ _ _ ha
        split at he
        · cases he
        · rename_i r ρ2 h2 hb
          cases he
          exact ⟨fun _ => rfl, fun q => (quantLoop_heap ih q _ _ _ _ _ _ _ _ _ hb).trans (fa.2 q)⟩
    · cases he; exact ⟨fun _ => rfl, fun _ => rfl⟩
    · -- call0
      split at he
      · cases he
      · rename_i ps body cap ρ1 h1 hfv
        have ff := ih _ _ _ _ _ _ hfv
        have fa := applyFn_frame ih he
        exact ⟨fun q => (fa.1 q).trans (ff.1 q), fun q => (fa.2 q).trans (ff.2 q)⟩
      · cases he
    · -- call
      split at he
      · cases he
      · rename_i ps body cap ρ1 h1 hfv
        have ff := ih _ _ _ _ _ _ hfv
        split at he
        · cases he
        · rename_i vs ρ2 h2 hargs
          have fr := evalArgs_frame ih _ _ _ _ _ _ hargs
          have fa := applyFn_frame ih he
          exact ⟨fun q => ((fa.1 q).trans (fr.1 q)).trans (ff.1 q),
                 fun q => ((fa.2 q).trans (fr.2 q)).trans (ff.2 q)⟩
      · cases he
    · cases he; exact ⟨fun _ => rfl, fun _ => rfl⟩
    · -- adjust1
      split at he
      · cases he
      · rename_i ρ1 h1 ha
        have fa := ih _ _ _ _ _ _ ha
        cases he; exact fa
      · rename_i x ρ1 h1 ha
        have fa := ih _ _ _ _ _ _ ha
        split at he
        · rename_i r h2 hs
          cases he
          exact ⟨fa.1, fun q => (adjustItem_heap c _ _ _ _ _ q hs).trans (fa.2 q)⟩
        · cases he
      · cases he
    · -- adjust2
      split at he
      · cases he
      · rename_i v ρ1 h1 ha
        have fa := ih _ _ _ _ _ _ ha
        split at he
        · cases he
        · split at he
          · cases he
          · rename_i vz ρ2 h2 hz
            have fz := ih _ _ _ _ _ _ hz
            split at he
            · cases he
            · split at he
              · split at he
                · rename_i r h3 hs
                  cases he
                  exact ⟨fun q => (fz.1 q).trans (fa.1 q),
                         fun q => ((adjustItem_heap c _ _ _ _ _ q hs).trans (fz.2 q)).trans (fa.2 q)⟩
                · cases he
              · cases he
                exact ⟨fun q => (fz.1 q).trans (fa.1 q), fun q => (fz.2 q).trans (fa.2 q)⟩

/-! ### the same for evaluations that RAISE: the state carried by the failure is the caller's -/

/-- a failing `ev` leaves the caller's dict and objects as they were -/
def FrameE (c : Cfg) (ev : Expr → Env → Heap → Res) : Prop :=
  ∀ e ρ h er ρ' h', ev e ρ h = .error (er, ρ', h') →
    (c.q.callCopies = true → ρ' = ρ) ∧ (c.q.heapSafe = true → h' = h)

section
variable {c : Cfg} {ev : Expr → Env → Heap → Res}

theorem operands_frameE (hf : Frame c ev) (hfe : FrameE c ev) {a b : Expr} {ρ : Env} {h : Heap}
    {er : Err} {ρ' : Env} {h' : Heap} (he : operands ev a b ρ h = .error (er, ρ', h')) :
    (c.q.callCopies = true → ρ' = ρ) ∧ (c.q.heapSafe = true → h' = h) := by
  unfold operands at he
  split at he
  · rename_i e ha
    cases he; exact hfe _ _ _ _ _ _ ha
  · rename_i va ρ1 h1 ha
    have fa := hf _ _ _ _ _ _ ha
    split at he
    · cases he
    · split at he
      · rename_i e hb
        cases he
        have fb := hfe _ _ _ _ _ _ hb
        exact ⟨fun q => (fb.1 q).trans (fa.1 q), fun q => (fb.2 q).trans (fa.2 q)⟩
      · rename_i vb ρ2 h2 hb
        have fb := hf _ _ _ _ _ _ hb
        split at he
        · cases he
        · cases he
        · cases he
          exact ⟨fun q => (fb.1 q).trans (fa.1 q), fun q => (fb.2 q).trans (fa.2 q)⟩
    · cases he; exact fa

theorem forLoop_heapE (hf : Frame c ev) (hfe : FrameE c ev) (hq : c.q.heapSafe = true) (x : Name) (body : Expr) :
    ∀ (items : List Item) (ρc : Env) (h : Heap) (er : Err) (ρ' : Env) (h' : Heap),
      forLoop ev x body items ρc h = .error (er, ρ', h') → h' = h := by
  intro items
  induction items with
  | nil => intro ρc h er ρ' h' he; simp [forLoop] at he
  | cons it rest ih =>
    intro ρc h er ρ' h' he
    unfold forLoop at he
    split at he
    · rename_i e hb
      cases he; exact (hfe _ _ _ _ _ _ hb).2 hq
    · rename_i v1 ρ1 h1 hb
      have fb := (hf _ _ _ _ _ _ hb).2 hq
      split at he
      · rename_i e hr
        cases he; exact (ih _ _ _ _ _ hr).trans fb
      · cases he

theorem quantLoop_heapE (hf : Frame c ev) (hfe : FrameE c ev) (hq : c.q.heapSafe = true) (s : Bool) (x : Name)
    (body : Expr) :
    ∀ (items : List Item) (ρc : Env) (h : Heap) (er : Err) (ρ' : Env) (h' : Heap),
      quantLoop ev s x body items ρc h = .error (er, ρ', h') → h' = h := by
  intro items
  induction items with
  | nil => intro ρc h er ρ' h' he; simp [quantLoop] at he
  | cons it rest ih =>
    intro ρc h er ρ' h' he
    unfold quantLoop at he
    split at he
    · rename_i e hb
      cases he; exact (hfe _ _ _ _ _ _ hb).2 hq
    · rename_i v1 ρ1 h1 hb
      have fb := (hf _ _ _ _ _ _ hb).2 hq
      split at he
      · cases he; exact fb
      · split at he
        · cases he
        · exact (ih _ _ _ _ _ he).trans fb

theorem evalArgs_frameE (hf : Frame c ev) (hfe : FrameE c ev) :
    ∀ (as : List Expr) (ρ : Env) (h : Heap) (er : Err) (ρ' : Env) (h' : Heap),
      evalArgs ev as ρ h = .error (er, ρ', h') →
      (c.q.callCopies = true → ρ' = ρ) ∧ (c.q.heapSafe = true → h' = h) := by
  intro as
  induction as with
  | nil => intro ρ h er ρ' h' he; simp [evalArgs] at he
  | cons a rest ih =>
    intro ρ h er ρ' h' he
    unfold evalArgs at he
    split at he
    · rename_i e ha
      cases he; exact hfe _ _ _ _ _ _ ha
    · rename_i v1 ρ1 h1 ha
      have fa := hf _ _ _ _ _ _ ha
      split at he
      · rename_i e hr
        cases he
        have fr := ih _ _ _ _ _ hr
        exact ⟨fun q => (fr.1 q).trans (fa.1 q), fun q => (fr.2 q).trans (fa.2 q)⟩
      · cases he

theorem applyFn_frameE (hfe : FrameE c ev) {ps : List Name} {body : Expr} {cap : Env} {args : List Val}
    {ρ : Env} {h : Heap} {er : Err} {ρ' : Env} {h' : Heap}
    (he : applyFn ev c ps body cap args ρ h = .error (er, ρ', h')) :
    (c.q.callCopies = true → ρ' = ρ) ∧ (c.q.heapSafe = true → h' = h) := by
  unfold applyFn at he
  split at he
  · cases he; exact ⟨fun _ => rfl, fun _ => rfl⟩
  · split at he
    · rename_i e ρ1 h1 hb
      have fb := hfe _ _ _ _ _ _ hb
      cases he
      exact ⟨fun q => by simp [q], fb.2⟩
    · cases he

end

/-- a failing evaluation at any depth leaves the caller's dict and objects as they were -/
theorem eval_frameE (c : Cfg) : ∀ n, FrameE c (eval c n) := by
  intro n
  induction n with
  | zero => intro e ρ h er ρ' h' he; simp only [eval] at he; cases he; exact ⟨fun _ => rfl, fun _ => rfl⟩
  | succ n ihe =>
    have ih := eval_frame c n
    have both : ∀ {ρa ρb ρc : Env} {ha hb hc : Heap},
        ((c.q.callCopies = true → ρb = ρa) ∧ (c.q.heapSafe = true → hb = ha)) →
        ((c.q.callCopies = true → ρc = ρb) ∧ (c.q.heapSafe = true → hc = hb)) →
        ((c.q.callCopies = true → ρc = ρa) ∧ (c.q.heapSafe = true → hc = ha)) :=
      fun f g => ⟨fun q => (g.1 q).trans (f.1 q), fun q => (g.2 q).trans (f.2 q)⟩
    intro e ρ h er ρ' h' he
    cases e with
    | int k => rw [eval] at he; cases he
    | var x =>
      rw [eval] at he
      split at he
      · cases he
      · cases he; exact ⟨fun _ => rfl, fun _ => rfl⟩
    | empty => rw [eval] at he; cases he
    | dt l z => rw [eval] at he; cases he
    | fn ps body => rw [eval] at he; cases he
    | durLit s => rw [eval] at he; cases he
    | paren e => rw [eval] at he; exact ihe _ _ _ _ _ _ he
    | seq a b =>
      rw [eval] at he
      split at he
      · rename_i e ha; cases he; exact ihe _ _ _ _ _ _ ha
      · rename_i va ρ1 h1 ha
        split at he
        · rename_i e hb; cases he; exact both (ih _ _ _ _ _ _ ha) (ihe _ _ _ _ _ _ hb)
        · cases he
    | add a b =>
      rw [eval] at he
      split at he
      · rename_i e ho; cases he; exact operands_frameE ih ihe ho
      · cases he
      · rename_i x y ρ2 h2 ho
        split at he
        · cases he
        · cases he; exact operands_frame ih ho
    | sub a b =>
      rw [eval] at he
      split at he
      · rename_i e ho; cases he; exact operands_frameE ih ihe ho
      · cases he
      · rename_i x y ρ2 h2 ho
        split at he
        · cases he
        · cases he; exact operands_frame ih ho
    | eq a b =>
      rw [eval] at he
      split at he
      · rename_i e ha; cases he; exact ihe _ _ _ _ _ _ ha
      · rename_i va ρ1 h1 ha
        split at he
        · rename_i e hb; cases he; exact both (ih _ _ _ _ _ _ ha) (ihe _ _ _ _ _ _ hb)
        · rename_i vb ρ2 h2 hb
          split at he
          · cases he; exact both (ih _ _ _ _ _ _ ha) (ih _ _ _ _ _ _ hb)
          · cases he
    | tzOf e =>
      rw [eval] at he
      split at he
      · rename_i e ha; cases he; exact ihe _ _ _ _ _ _ ha
      · rename_i v1 ρ1 h1 ha
        split at he
        · cases he; exact ih _ _ _ _ _ _ ha
        · cases he
    | letE x e body =>
      rw [eval] at he
      split at he
      · rename_i er1 ρ1 h1 ha
        cases he
        exact ⟨fun _ => rfl, (ihe _ _ _ _ _ _ ha).2⟩
      · rename_i v1 ρ1 h1 ha
        split at he
        · rename_i er2 ρ2 h2 hb
          cases he
          exact ⟨fun _ => rfl, fun q => ((ihe _ _ _ _ _ _ hb).2 q).trans ((ih _ _ _ _ _ _ ha).2 q)⟩
        · cases he
    | forE x r body =>
      rw [eval] at he
      split at he
      · rename_i er1 ρ1 h1 ha
        cases he
        exact ⟨fun _ => rfl, (ihe _ _ _ _ _ _ ha).2⟩
      · rename_i v1 ρ1 h1 ha
        split at he
        · rename_i er2 ρ2 h2 hb
          cases he
          exact ⟨fun _ => rfl, fun q => (forLoop_heapE ih ihe q _ _ _ _ _ _ _ _ hb).trans ((ih _ _ _ _ _ _ ha).2 q)⟩
        · cases he
    | someE x r body =>
      rw [eval] at he
      split at he
      · rename_i er1 ρ1 h1 ha
        cases he
        exact ⟨fun _ => rfl, (ihe _ _ _ _ _ _ ha).2⟩
      · rename_i v1 ρ1 h1 ha
        split at he
        · rename_i er2 ρ2 h2 hb
          cases he
          exact ⟨fun _ => rfl, fun q => (quantLoop_heapE ih ihe q _ _ _ _ _ _ _ _ _ hb).trans ((ih _ _ _ _ _ _ ha).2 q)⟩
        · cases he
    | everyE x r body =>
      rw [eval] at he
      split at he
      · rename_i er1 ρ1 h1 ha
        cases he
        exact ⟨fun _ => rfl, (ihe _ _ _ _ _ _ ha).2⟩
      · rename_i v1 ρ1 h1 ha
        split at he
        · rename_i er2 ρ2 h2 hb
          cases he
          exact ⟨fun _ => rfl, fun q => (quantLoop_heapE ih ihe q _ _ _ _ _ _ _ _ _ hb).trans ((ih _ _ _ _ _ _ ha).2 q)⟩
        · cases he
    | call0 f =>
      rw [eval] at he
      split at he
      · rename_i e hfv; cases he; exact ihe _ _ _ _ _ _ hfv
      · rename_i ps body cap ρ1 h1 hfv
        exact both (ih _ _ _ _ _ _ hfv) (applyFn_frameE ihe he)
      · rename_i v ρ1 h1 _ hfv
        cases he; exact ih _ _ _ _ _ _ hfv
    | call f a =>
      rw [eval] at he
      split at he
      · rename_i e hfv; cases he; exact ihe _ _ _ _ _ _ hfv
      · rename_i ps body cap ρ1 h1 hfv
        split at he
        · rename_i e hargs
          cases he
          exact both (ih _ _ _ _ _ _ hfv) (evalArgs_frameE ih ihe _ _ _ _ _ _ hargs)
        · rename_i vs ρ2 h2 hargs
          exact both (both (ih _ _ _ _ _ _ hfv) (evalArgs_frame ih _ _ _ _ _ _ hargs)) (applyFn_frameE ihe he)
      · rename_i v ρ1 h1 _ hfv
        cases he; exact ih _ _ _ _ _ _ hfv
    | adjust1 e =>
      rw [eval] at he
      split at he
      · rename_i e ha; cases he; exact ihe _ _ _ _ _ _ ha
      · cases he
      · rename_i x ρ1 h1 ha
        split at he
        · cases he
        · cases he; exact ih _ _ _ _ _ _ ha
      · rename_i v ρ1 h1 _ _ ha
        cases he; exact ih _ _ _ _ _ _ ha
    | adjust2 e z =>
      rw [eval] at he
      split at he
      · rename_i e ha; cases he; exact ihe _ _ _ _ _ _ ha
      · rename_i v ρ1 h1 ha
        split at he
        · cases he; exact ih _ _ _ _ _ _ ha
        · split at he
          · rename_i e hz; cases he; exact both (ih _ _ _ _ _ _ ha) (ihe _ _ _ _ _ _ hz)
          · rename_i vz ρ2 h2 hz
            split at he
            · cases he; exact both (ih _ _ _ _ _ _ ha) (ih _ _ _ _ _ _ hz)
            · split at he
              · split at he
                · cases he
                · cases he; exact both (ih _ _ _ _ _ _ ha) (ih _ _ _ _ _ _ hz)
              · cases he

end EPV.Scope

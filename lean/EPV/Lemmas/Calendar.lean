/-
C11 — lemmas tying the model (EPV/Model/Calendar.lean) to the specification's closed forms:
leap rule, `days_from_common_era`, the 400/100/4/1-year `divmod` cascade (shared by CPython's
`_ord2ymd` and the repository's `fromdelta`), CPython's ordinal <-> date conversion.
-/
import EPV.Lemmas.CalendarSpec
import EPV.Model.Calendar
set_option linter.unusedVariables false
set_option linter.unusedSimpArgs false
namespace EPV.Cal
open EPV.Timeline (isLeap yearLen monthLen daysBeforeYearC daysBeforeMonthC dayNumC)

theorem isleap_eq (a : Int) : isleap a = isLeap a := by
  unfold isleap isLeap
  rw [Bool.eq_iff_iff]
  simp only [Bool.and_eq_true, Bool.or_eq_true, beq_iff_eq, bne_iff_ne, ne_eq]
  omega

theorem dfce_eq_C (y : Int) : dfce y = daysBeforeYearC (y + 1) := by
  unfold dfce daysBeforeYearC
  split
  · omega
  · split
    · have : y = 0 ∨ y = -1 := by omega
      rcases this with rfl | rfl <;> decide
    · simp only []; omega

/-- arithmetic core: closed-form year start of the year assembled from the four quotients -/
theorem casc_dby (b c d e : Int) (hc : 0 ≤ c ∧ c ≤ 3) (hd : 0 ≤ d ∧ d ≤ 24) (he : 0 ≤ e ∧ e ≤ 3) :
    daysBeforeYearC (b * 400 + c * 100 + d * 4 + e + 1) = 146097 * b + 36524 * c + 1461 * d + 365 * e := by
  unfold daysBeforeYearC
  have q4 : (b * 400 + c * 100 + d * 4 + e + 1 - 1) / 4 = 100 * b + 25 * c + d := by omega
  have q100 : (b * 400 + c * 100 + d * 4 + e + 1 - 1) / 100 = 4 * b + c := by omega
  have q400 : (b * 400 + c * 100 + d * 4 + e + 1 - 1) / 400 = b := by omega
  rw [q4, q100, q400]; omega

theorem casc_leap (b c d e : Int) (hc : 0 ≤ c ∧ c ≤ 3) (hd : 0 ≤ d ∧ d ≤ 24) (he : 0 ≤ e ∧ e ≤ 3) :
    isLeap (b * 400 + c * 100 + d * 4 + e + 1) = (e == 3 && (d != 24 || c == 3)) := by
  unfold isLeap
  rw [Bool.eq_iff_iff]
  simp only [Bool.and_eq_true, Bool.or_eq_true, beq_iff_eq, bne_iff_ne, ne_eq]
  have m4 : (b * 400 + c * 100 + d * 4 + e + 1) % 4 = (e + 1) % 4 := by omega
  have m100 : (b * 400 + c * 100 + d * 4 + e + 1) % 100 = (d * 4 + e + 1) % 100 := by omega
  have m400 : (b * 400 + c * 100 + d * 4 + e + 1) % 400 = (c * 100 + d * 4 + e + 1) % 400 := by omega
  rw [m4, m100, m400]
  omega
theorem cascade_last (n : Int) (hn : 0 ≤ n) (h : (cascade n).2.2.2.1 = 4 ∨ (cascade n).2.1 = 4) :
    daysBeforeYearC (cascYear (cascade n) - 1) + 365 = n ∧ isLeap (cascYear (cascade n) - 1) = true := by
  simp only [cascade, cascYear] at *
  generalize hb : n / 146097 = b at *
  generalize hc : n % 146097 / 36524 = c at *
  generalize hd : n % 146097 % 36524 / 1461 = d at *
  generalize he : n % 146097 % 36524 % 1461 / 365 = e at *
  rcases h with h | h
  · -- e = 4
    have hc3 : 0 ≤ c ∧ c ≤ 3 := by omega
    have hd3 : 0 ≤ d ∧ d ≤ 23 := by omega
    have e1 : b * 400 + c * 100 + d * 4 + e + 1 - 1 = b * 400 + c * 100 + d * 4 + 3 + 1 := by omega
    rw [e1, casc_dby b c d 3 hc3 (by omega) (by omega), casc_leap b c d 3 hc3 (by omega) (by omega)]
    constructor
    · omega
    · have : d ≠ 24 := by omega
      simp [this]
  · -- c = 4
    have e1 : b * 400 + c * 100 + d * 4 + e + 1 - 1 = b * 400 + 3 * 100 + 24 * 4 + 3 + 1 := by omega
    rw [e1, casc_dby b 3 24 3 (by omega) (by omega) (by omega), casc_leap b 3 24 3 (by omega) (by omega) (by omega)]
    constructor
    · omega
    · decide

theorem cascade_main (n : Int) (hn : 0 ≤ n) (h : ¬ ((cascade n).2.2.2.1 = 4 ∨ (cascade n).2.1 = 4)) :
    daysBeforeYearC (cascYear (cascade n)) + (cascade n).2.2.2.2 = n ∧ 0 ≤ (cascade n).2.2.2.2 ∧
    (cascade n).2.2.2.2 < yearLen (cascYear (cascade n)) ∧
    ((cascade n).2.2.2.1 == 3 && ((cascade n).2.2.1 != 24 || (cascade n).2.1 == 3)) = isLeap (cascYear (cascade n)) := by
  simp only [cascade, cascYear] at *
  generalize hb : n / 146097 = b at *
  generalize hc : n % 146097 / 36524 = c at *
  generalize hd : n % 146097 % 36524 / 1461 = d at *
  generalize he : n % 146097 % 36524 % 1461 / 365 = e at *
  have hc3 : 0 ≤ c ∧ c ≤ 3 := by omega
  have hd3 : 0 ≤ d ∧ d ≤ 24 := by omega
  have he3 : 0 ≤ e ∧ e ≤ 3 := by omega
  have yl := Timeline.yearLen_pos (b * 400 + c * 100 + d * 4 + e + 1)
  rw [casc_dby b c d e hc3 hd3 he3, casc_leap b c d e hc3 hd3 he3]
  refine ⟨by omega, by omega, by omega, rfl⟩
theorem monthDayOfDoy_spec (leap : Bool) (n : Int) (h0 : 0 ≤ n) (h1 : n < (if leap then 366 else 365))
    (m d : Int) (h : monthDayOfDoy leap n = (m, d)) :
    1 ≤ m ∧ m ≤ 12 ∧ 1 ≤ d ∧ d ≤ monthDays leap m ∧ daysBeforeMonth leap m + d - 1 = n := by
  unfold monthDayOfDoy at h
  simp only [] at h
  have h1' : n < 366 := by split at h1 <;> omega
  generalize hk : (n + 50) / 32 = k at h
  have hr : 32 * k - 50 ≤ n ∧ n ≤ 32 * k - 19 := by omega
  have : k = 1 ∨ k = 2 ∨ k = 3 ∨ k = 4 ∨ k = 5 ∨ k = 6 ∨ k = 7 ∨ k = 8 ∨ k = 9 ∨ k = 10 ∨ k = 11 ∨ k = 12 := by omega
  rcases this with rfl | rfl | rfl | rfl | rfl | rfl | rfl | rfl | rfl | rfl | rfl | rfl <;>
    cases leap <;>
    simp (config := {decide := true}) only [daysBeforeMonth, monthDays, Int.reduceSub, Int.reduceAdd, Int.reduceLE, Int.reduceEq, ite_true, ite_false, if_true, if_false, Bool.false_eq_true, ↓reduceIte] at h h1 <;>
    split at h <;> simp only [Prod.mk.injEq] at h <;> obtain ⟨rfl, rfl⟩ := h <;>
    simp (config := {decide := true}) only [daysBeforeMonth, monthDays, Int.reduceSub, Int.reduceAdd, Int.reduceLE, Int.reduceEq, ↓reduceIte, Bool.false_eq_true] <;> refine ⟨?_, ?_, ?_, ?_, ?_⟩ <;> first | trivial | omega
theorem daysBeforeMonth_eq (a m : Int) : daysBeforeMonth (isLeap a) m = daysBeforeMonthC a m := rfl

theorem monthDays_eq (a m : Int) (h1 : 1 ≤ m) (h12 : m ≤ 12) : monthDays (isLeap a) m = monthLen a m := by
  have hm : m = 1 ∨ m = 2 ∨ m = 3 ∨ m = 4 ∨ m = 5 ∨ m = 6 ∨ m = 7 ∨ m = 8 ∨ m = 9 ∨ m = 10 ∨ m = 11 ∨ m = 12 := by omega
  rcases hm with rfl | rfl | rfl | rfl | rfl | rfl | rfl | rfl | rfl | rfl | rfl | rfl <;> simp [monthDays, monthLen]

/-- CPython's `_ord2ymd` returns the calendar date whose day number is `ord - 1` -/
theorem pyOrd2ymd_spec (ord : Int) (h : 1 ≤ ord) (y m d : Int) (he : pyOrd2ymd ord = (y, m, d)) :
    1 ≤ m ∧ m ≤ 12 ∧ 1 ≤ d ∧ d ≤ monthLen y m ∧ dayNumC y m d = ord - 1 := by
  unfold pyOrd2ymd at he
  have hn : 0 ≤ ord - 1 := by omega
  by_cases hc : (cascade (ord - 1)).2.2.2.1 = 4 ∨ (cascade (ord - 1)).2.1 = 4
  · have := cascade_last _ hn hc
    simp only [cascYear] at this
    simp only [hc, ↓reduceIte, Prod.mk.injEq] at he
    obtain ⟨rfl, rfl, rfl⟩ := he
    have e : (cascade (ord - 1)).1 * 400 + 1 + (cascade (ord - 1)).2.1 * 100 + (cascade (ord - 1)).2.2.1 * 4 +
        (cascade (ord - 1)).2.2.2.1 - 1 = (cascade (ord - 1)).1 * 400 + (cascade (ord - 1)).2.1 * 100 + (cascade (ord - 1)).2.2.1 * 4 + (cascade (ord - 1)).2.2.2.1 + 1 - 1 := by omega
    rw [e]
    generalize (cascade (ord - 1)).1 * 400 + (cascade (ord - 1)).2.1 * 100 + (cascade (ord - 1)).2.2.1 * 4 + (cascade (ord - 1)).2.2.2.1 + 1 - 1 = Y at *
    simp [dayNumC, daysBeforeMonthC, monthLen, this.2]
    omega
  · have := cascade_main _ hn hc
    simp only [cascYear] at this
    simp only [hc, ↓reduceIte] at he
    generalize hmd : monthDayOfDoy _ _ = md at he
    obtain ⟨m', d'⟩ := md
    simp only [Prod.mk.injEq] at he
    obtain ⟨rfl, rfl, rfl⟩ := he
    rw [this.2.2.2] at hmd
    have e : (cascade (ord - 1)).1 * 400 + 1 + (cascade (ord - 1)).2.1 * 100 + (cascade (ord - 1)).2.2.1 * 4 +
        (cascade (ord - 1)).2.2.2.1 = (cascade (ord - 1)).1 * 400 + (cascade (ord - 1)).2.1 * 100 + (cascade (ord - 1)).2.2.1 * 4 + (cascade (ord - 1)).2.2.2.1 + 1 := by omega
    rw [e]
    generalize (cascade (ord - 1)).1 * 400 + (cascade (ord - 1)).2.1 * 100 + (cascade (ord - 1)).2.2.1 * 4 + (cascade (ord - 1)).2.2.2.1 + 1 = Y at *
    have hlt : (cascade (ord - 1)).2.2.2.2 < (if isLeap Y then 366 else 365) := by
      have := this.2.2.1; unfold yearLen at this; exact this
    have s := monthDayOfDoy_spec (isLeap Y) _ this.2.1 hlt m' d' hmd
    rw [monthDays_eq Y m' s.1 s.2.1, daysBeforeMonth_eq] at s
    refine ⟨s.1, s.2.1, s.2.2.1, s.2.2.2.1, ?_⟩
    unfold dayNumC; omega

end EPV.Cal

/- C09 helper lemmas, part 13: compat_string_value (the XPath 1.0 conversion of numbers) = XPath 1.0 string(), no exception. -/
import EPV.Lemmas.StringsNumber
namespace EPV.Strings
open EPV.FOStrings (Str NumArg digitChars natDigits zeros stripLeadingZeros stripTrailingZeros canonNumber)

/-- `format(d, 'f')` followed by the two `rstrip` calls (when there is a point) is the canonical
text, for a non-zero coefficient -/
theorem decText_canon (neg : Bool) (ds : List Nat) (exp : Int) (hlt : ∀ d ∈ ds, d < 10)
    (hhead : ∃ d r, ds = d :: r ∧ d ≠ 0) :
    (if (pyDecimalF neg ds exp).contains 0x2E then pyRstrip 0x2E (pyRstrip 0x30 (pyDecimalF neg ds exp))
      else pyDecimalF neg ds exp) = canonNumber neg ds (ds.length + exp) := by
  have hnz : ds.all (· == 0) = false := by
    obtain ⟨d0, r0, hds, hd0⟩ := hhead
    subst hds; simp [hd0]
  unfold pyDecimalF
  simp only [hnz, Bool.false_eq_true, false_and, if_false]
  obtain ⟨hip, heq⟩ := positional_canon neg ds (ds.length + exp) hhead
  obtain ⟨hl1, hl2⟩ := positional_lt ds (ds.length + exp) hlt
  generalize positional ds (↑ds.length + exp) = p at hip heq hl1 hl2
  obtain ⟨ip, fp⟩ := p
  simp only at hip heq hl1 hl2 ⊢
  have hsign : (if neg = true then [0x2D] else ([] : Str)) = signStr neg := rfl
  simp only [hsign]
  by_cases hfp : fp = []
  · subst hfp
    have hst : stripTrailingZeros ([] : List Nat) = [] := rfl
    simp only [hst, if_true, List.append_nil] at heq
    simp only [List.isEmpty_nil, if_true, List.append_nil]
    have hc : (signStr neg ++ digitChars ip).contains 0x2E = false := by
      cases h : (signStr neg ++ digitChars ip).contains 0x2E
      · rfl
      · rw [List.contains_iff_mem, List.mem_append] at h
        rcases h with h | h
        · unfold signStr at h; cases neg <;> simp at h
        · unfold digitChars at h
          simp only [List.mem_map] at h
          obtain ⟨d, _, hd⟩ := h
          omega
    simp only [hc, Bool.false_eq_true, if_false]
    exact heq
  · have hfe : fp.isEmpty = false := by cases fp with
      | nil => exact absurd rfl hfp
      | cons _ _ => rfl
    simp only [hfe, Bool.false_eq_true, if_false]
    have hc : (signStr neg ++ digitChars ip ++ 0x2E :: digitChars fp).contains 0x2E = true := by
      rw [List.contains_iff_mem]; simp
    simp only [hc, if_true]
    rw [rstrip_positional (signStr neg) ip fp hip, heq]

theorem canon_append_zeros (neg : Bool) (ds : List Nat) (j : Nat) (dot : Int)
    (hhead : ∃ d r, ds = d :: r ∧ d ≠ 0) :
    canonNumber neg (ds ++ zeros j) dot = canonNumber neg ds dot := by
  obtain ⟨d0, r0, hds, hd0⟩ := hhead
  subst hds
  unfold canonNumber stripLeadingZeros
  simp only [List.cons_append, List.takeWhile_cons, List.dropWhile_cons, beq_iff_eq, hd0, if_false]
  rw [← List.cons_append, stz_append_zeros]

/-- `compat_string_value` with the XPath 1.0 parser is the XPath 1.0 `string()` of every boolean,
integer, decimal and float — no exception -/
theorem compatStringValue_eq_xp1 (a : NumArg) (hw : NumArgWf a) :
    compatStringValue true a = FOStrings.xp1String a := by
  cases a with
  | bool b => cases b <;> rfl
  | int v => rfl
  | dec neg ds exp => exact stringValue_dec neg ds exp hw
  | fnan => rfl
  | finf neg => cases neg <;> rfl
  | flt neg ds decpt =>
    obtain ⟨⟨hlt, hz | hhead⟩, hz1⟩ := hw
    · subst hz
      simp [compatStringValue, FOStrings.xp1String, canonNumber, stripLeadingZeros, stripTrailingZeros]
    · have hnz : ds.all (· == 0) = false := by
        obtain ⟨d0, r0, hds, hd0⟩ := hhead
        subst hds; simp [hd0]
      have hfinal : FOStrings.xp1String (.flt neg ds decpt) = canonNumber neg ds decpt := rfl
      rw [hfinal]
      unfold compatStringValue
      simp only [if_true, hnz, Bool.false_eq_true, if_false]
      unfold pyDecimalOfRepr
      by_cases h1 : decpt ≤ -4 ∨ decpt > 16
      · simp only [h1, if_true]
        rw [decText_canon neg ds _ hlt hhead]
        congr 1; omega
      · simp only [h1, if_false]
        by_cases h2 : decpt ≥ (ds.length : Int)
        · simp only [h2, if_true]
          have e : ds ++ zeros (decpt - ds.length).toNat ++ [0] = ds ++ zeros ((decpt - ds.length).toNat + 1) := by
            rw [List.append_assoc]; congr 1
            unfold zeros; rw [List.replicate_succ']
          rw [e]
          have hhead' : ∃ d r, ds ++ zeros ((decpt - ds.length).toNat + 1) = d :: r ∧ d ≠ 0 := by
            obtain ⟨d0, r0, hds, hd0⟩ := hhead
            exact ⟨d0, r0 ++ zeros ((decpt - ds.length).toNat + 1), by rw [hds]; simp, hd0⟩
          have hlt' : ∀ d ∈ ds ++ zeros ((decpt - ds.length).toNat + 1), d < 10 := by
            intro d hd
            simp only [List.mem_append] at hd
            rcases hd with hd | hd
            · exact hlt d hd
            · unfold zeros at hd; simp [List.mem_replicate] at hd; omega
          rw [decText_canon neg _ _ hlt' hhead', canon_append_zeros neg ds _ _ hhead]
          congr 1
          simp [zeros]
          omega
        · simp only [h2, if_false]
          rw [decText_canon neg ds _ hlt hhead]
          congr 1; omega
end EPV.Strings

/-
C11 — `fromdelta`: for every timeline offset that fits a `timedelta` the result is a valid value whose
local time on the timeline is that offset (so `fromdelta` inverts `todelta`).
-/
import EPV.Lemmas.CalendarDelta
set_option linter.unusedVariables false
set_option linter.unusedSimpArgs false
namespace EPV.Cal
open EPV.Timeline (isLeap yearLen monthLen daysBeforeYearC daysBeforeMonthC dayNumC Val)

theorem timeUs_split (us : Int) (h0 : 0 ≤ us) (h1 : us < US) :
    timeUs (us / 3600000000) (us / 60000000 % 60) (us / 1000000 % 60) (us % 1000000) = us := by
  unfold timeUs; simp only [US] at h1; omega

theorem mkCore_ok (year m d h mi s us : Int) (tz : Option Int) (hy : year ≠ 0) (hyb : year.natAbs ≤ 2 ^ 31)
    (hm : 1 ≤ m ∧ m ≤ 12) (hd : 1 ≤ d ∧ d ≤ monthDays (proxyLeap year) m)
    (hh : 0 ≤ h ∧ h ≤ 23) (hmi : 0 ≤ mi ∧ mi ≤ 59) (hs : 0 ≤ s ∧ s ≤ 59) (hus : 0 ≤ us ∧ us ≤ 999999) :
    mkCore year m d h mi s us false tz = .ok ⟨year, m, d, timeUs h mi s us, tz⟩ := by
  have hfields : ∀ lp, lp = proxyLeap year → pyFieldsOk lp m d h mi s us = true := by
    intro lp hlp; subst hlp; unfold pyFieldsOk; simp; omega
  unfold mkCore
  split
  · rename_i hr
    have : isleap year = proxyLeap year := by unfold proxyLeap; rw [if_neg (by omega)]
    rw [hfields _ this]; rfl
  · rename_i hr
    have : ¬ (year.natAbs > 2 ^ 31) := by omega
    rw [if_neg this]; simp only []; rw [hfields _ rfl]; rfl

theorem mk_ok (year m d h mi s us : Int) (tz : Option Int) (hy : year ≠ 0) (hyb : year.natAbs ≤ 2 ^ 31)
    (hm : 1 ≤ m ∧ m ≤ 12) (hd : 1 ≤ d ∧ d ≤ monthDays (proxyLeap year) m)
    (hh : 0 ≤ h ∧ h ≤ 23) (hmi : 0 ≤ mi ∧ mi ≤ 59) (hs : 0 ≤ s ∧ s ≤ 59) (hus : 0 ≤ us ∧ us ≤ 999999) :
    mk year m d h mi s us tz = .ok ⟨year, m, d, timeUs h mi s us, tz⟩ := by
  have h24 : (h == 24) = false := by simp; omega
  unfold mk
  simp only [h24, Bool.false_and, Bool.false_eq_true, ↓reduceIte]
  exact mkCore_ok year m d h mi s us tz hy hyb hm hd hh hmi hs hus

theorem mkUs_ok (year m d us : Int) (tz : Option Int) (hy : year ≠ 0) (hyb : year.natAbs ≤ 2 ^ 31)
    (hm : 1 ≤ m ∧ m ≤ 12) (hd : 1 ≤ d ∧ d ≤ monthDays (proxyLeap year) m) (hu : 0 ≤ us ∧ us < US) :
    mkUs year m d us tz = .ok ⟨year, m, d, us, tz⟩ := by
  unfold mkUs
  have hu' := hu; simp only [US] at hu'
  rw [mk_ok year m d _ _ _ _ tz hy hyb hm hd (by omega) (by omega) (by omega) (by omega), timeUs_split us hu.1 hu.2]

/-- a calendar date lies inside its year -/
theorem dayNumC_bounds (a m d : Int) (hm : 1 ≤ m ∧ m ≤ 12) (hd : 1 ≤ d ∧ d ≤ monthLen a m) :
    daysBeforeYearC a ≤ dayNumC a m d ∧ dayNumC a m d < daysBeforeYearC (a + 1) := by
  have b1 : daysBeforeMonthC a m + monthLen a m ≤ yearLen a := by
    by_cases h12 : m = 12
    · subst h12; exact Int.le_of_eq (Timeline.daysBeforeMonthC_13 a)
    · have := Timeline.daysBeforeMonthC_lt a m 12 hm.1 (by omega) (by omega)
      have := Timeline.daysBeforeMonthC_13 a; have := Timeline.monthLen_pos a 12; omega
  have n1 := Timeline.daysBeforeMonthC_nonneg a m
  have s1 := Timeline.daysBeforeYearC_succ a
  unfold dayNumC; omega

theorem year_unique (p a m d : Int) (hm : 1 ≤ m ∧ m ≤ 12) (hd : 1 ≤ d ∧ d ≤ monthLen a m)
    (h1 : daysBeforeYearC p ≤ dayNumC a m d) (h2 : dayNumC a m d < daysBeforeYearC (p + 1)) : a = p := by
  have b := dayNumC_bounds a m d hm hd
  rcases Int.lt_trichotomy a p with hlt | heq | hgt
  · have := Timeline.daysBeforeYearC_mono (show a + 1 ≤ p by omega); omega
  · exact heq
  · have := Timeline.daysBeforeYearC_mono (show p + 1 ≤ a by omega); omega

theorem pyOfOrdUs_ok (t : Int) (h : 1 ≤ t / US ∧ t / US ≤ MAXORD) :
    ∃ y m d, pyOfOrdUs t = .ok (y, m, d, t % US) ∧ 1 ≤ m ∧ m ≤ 12 ∧ 1 ≤ d ∧ d ≤ monthLen y m ∧
      dayNumC y m d = t / US - 1 := by
  unfold pyOfOrdUs
  have : ¬ (t / US < 1 ∨ t / US > MAXORD) := by omega
  simp only [this, ↓reduceIte]
  generalize hp : pyOrd2ymd (t / US) = p
  obtain ⟨y, m, d⟩ := p
  have s := pyOrd2ymd_spec (t / US) h.1 y m d hp
  exact ⟨y, m, d, rfl, s⟩

theorem pyOfOrdUs_err (t : Int) (h : ¬ (1 ≤ t / US ∧ t / US ≤ MAXORD)) : pyOfOrdUs t = .error .overflow := by
  unfold pyOfOrdUs
  have : (t / US < 1 ∨ t / US > MAXORD) := by omega
  simp only [this, ↓reduceIte]

/-- the common tail of every branch of `fromdelta`: a proxy datetime in year `p` (same leap status as
the target year `Y`), `r` days and `rem` µs after its 1st of January, is rebuilt in year `Y` -/
theorem build_spec (isDate : Bool) (Y p r rem x : Int) (hY : Y ≠ 0) (hYb : Y.natAbs ≤ 2 ^ 31)
    (hp : 1 ≤ p ∧ p ≤ 9998) (hleap : isLeap p = isLeap (astro Y))
    (hr : 0 ≤ r ∧ r < yearLen p) (hrem : 0 ≤ rem ∧ rem < US)
    (hx : x = (daysBeforeYearC p + 1 + r) * US + rem) :
    ∃ v, fromdeltaBuild isDate Y
        (match pyOfOrdUs x with | .ok (_, m, d, us) => .ok (m, d, us) | .error e => .error e) = .ok v ∧
      v.Valid ∧ v.tz = none ∧
      (absV v).localC = (daysBeforeYearC (astro Y) + r) * US + (if isDate then 0 else rem) := by
  have hq : x / US = daysBeforeYearC p + 1 + r ∧ x % US = rem := by
    subst hx; simp only [US] at *; omega
  have hlo := Timeline.daysBeforeYearC_mono (show (1 : Int) ≤ p by omega)
  have hhi := Timeline.daysBeforeYearC_mono (show p + 1 ≤ 9999 by omega)
  have hs := Timeline.daysBeforeYearC_succ p
  have e1 : daysBeforeYearC 1 = 0 := by decide
  have e2 : daysBeforeYearC 9999 = 3651694 := by decide
  have hord : 1 ≤ x / US ∧ x / US ≤ MAXORD := by unfold MAXORD; omega
  obtain ⟨y, m, d, hok, hm1, hm12, hd1, hd2, hday⟩ := pyOfOrdUs_ok x hord
  have hyp : y = p := year_unique p y m d ⟨hm1, hm12⟩ ⟨hd1, hd2⟩ (by omega) (by omega)
  subst hyp
  have hml : monthLen (astro Y) m = monthLen y m := by unfold monthLen; rw [hleap]
  have hdbm : daysBeforeMonthC (astro Y) m = daysBeforeMonthC y m := by unfold daysBeforeMonthC; rw [hleap]
  have hmd : 1 ≤ d ∧ d ≤ monthDays (proxyLeap Y) m := by
    rw [proxyLeap_eq Y hY, monthDays_eq _ _ hm1 hm12, hml]; exact ⟨hd1, hd2⟩
  have hdoy : daysBeforeMonthC y m + (d - 1) = r := by unfold dayNumC at hday; omega
  rw [hok]
  simp only [fromdeltaBuild]
  cases isDate with
  | true =>
    refine ⟨⟨Y, m, d, 0, none⟩, ?_, ?_, rfl, ?_⟩
    · have := mk_ok Y m d 0 0 0 0 none hY hYb ⟨hm1, hm12⟩ hmd (by omega) (by omega) (by omega) (by omega)
      simpa [timeUs] using this
    · refine ⟨hY, ⟨hm1, hm12, hd1, ?_, by simp [absV], by simp [absV, Timeline.US]⟩, by intro z h; cases h⟩
      simp only [absV]; rw [hml]; exact hd2
    · simp only [absV, Val.localC, dayNumC, hdbm, ↓reduceIte]; simp only [Timeline.US, US] at *; omega
  | false =>
    refine ⟨⟨Y, m, d, x % US, none⟩, ?_, ?_, rfl, ?_⟩
    · simp only [Bool.false_eq_true, ↓reduceIte]
      exact mkUs_ok Y m d (x % US) none hY hYb ⟨hm1, hm12⟩ hmd (by omega)
    · refine ⟨hY, ⟨hm1, hm12, hd1, ?_, ?_, ?_⟩, by intro z h; cases h⟩
      · simp only [absV]; rw [hml]; exact hd2
      · simp only [absV]; omega
      · simp only [absV, Timeline.US]; simp only [US] at hrem; omega
    · simp only [absV, Val.localC, dayNumC, hdbm, Bool.false_eq_true, ↓reduceIte]; simp only [Timeline.US, US] at *; omega
theorem cascLast_iff (c : Int × Int × Int × Int × Int) : cascLast c = true ↔ (c.2.2.2.1 = 4 ∨ c.2.1 = 4) := by
  unfold cascLast; simp

theorem proxy46 (b : Bool) : isLeap (if b then 4 else 6) = b ∧ (1 : Int) ≤ (if b then 4 else 6) ∧
    (if b then (4 : Int) else 6) ≤ 9998 ∧ daysBeforeYearC (if b then 4 else 6) = (if b then 1095 else 1826) := by
  cases b <;> decide

theorem year_bound (a : Int) (h1 : -1000001000 ≤ daysBeforeYearC a) (h2 : daysBeforeYearC a ≤ 1000001000) :
    -3000000 ≤ a ∧ a ≤ 3000000 := by
  constructor
  · by_cases h : a < -3000000
    · have := Timeline.daysBeforeYearC_mono (show a ≤ -3000001 by omega)
      have e : daysBeforeYearC (-3000001) = -1095728231 := by decide
      omega
    · omega
  · by_cases h : a > 3000000
    · have := Timeline.daysBeforeYearC_mono (show 3000001 ≤ a by omega)
      have e : daysBeforeYearC 3000001 = 1095727500 := by decide
      omega
    · omega

theorem pyOrdUs_jan1 (p : Int) : pyOrdUs p 1 1 0 = (daysBeforeYearC p + 1) * US := by
  unfold pyOrdUs; rw [pyYmd2ord_eq]; unfold dayNumC; simp [daysBeforeMonthC]

theorem yearLen_of_leap {a b : Int} (h : isLeap a = isLeap b) : yearLen a = yearLen b := by
  unfold yearLen; rw [h]

theorem fromdeltaOut_pos (isDate : Bool) (days rem : Int) (hpos : days > 0) (hout : days ≥ MAXORD)
    (hb : days ≤ 999999999) (hrem : 0 ≤ rem ∧ rem < US) :
    ∃ v, fromdeltaOut isDate days rem = .ok v ∧ v.Valid ∧ v.tz = none ∧
      (absV v).localC = days * US + (if isDate then 0 else rem) := by
  unfold fromdeltaOut
  rw [if_pos hpos]
  simp only []
  have hn : 0 ≤ days := by omega
  by_cases hl : cascLast (cascade days) = true
  · simp only [hl, ↓reduceIte]
    have cl := cascade_last days hn ((cascLast_iff _).1 hl)
    generalize cascYear (cascade days) - 1 = Y at *
    have yb := year_bound Y (by omega) (by omega)
    have hYpos : Y > 0 := by
      by_cases h : Y ≤ 0
      · have := Timeline.daysBeforeYearC_mono (show Y ≤ 1 by omega)
        have e1 : daysBeforeYearC 1 = 0 := by decide
        unfold MAXORD at hout; omega
      · omega
    have ha : astro Y = Y := by unfold astro; rw [if_pos hYpos]
    have p46 := proxy46 (isleap Y)
    unfold proxyPlus
    have := build_spec isDate Y (if isleap Y then 4 else 6) 365 rem
      (pyOrdUs (if isleap Y then 4 else 6) 1 1 0 + (365 * US + rem)) (by omega) (by omega)
      ⟨p46.2.1, p46.2.2.1⟩ (by rw [p46.1, ha, isleap_eq]) (by
        rw [yearLen_of_leap (show isLeap (if isleap Y then 4 else 6) = isLeap Y by rw [p46.1, isleap_eq])]
        unfold yearLen; rw [cl.2]; simp) hrem (by rw [pyOrdUs_jan1]; simp only [US]; omega)
    obtain ⟨v, h1, h2, h3, h4⟩ := this
    refine ⟨v, h1, h2, h3, ?_⟩
    rw [h4, ha]; simp only [US]; omega
  · have hl' : cascLast (cascade days) = false := by simpa using hl
    simp only [hl', Bool.false_eq_true, ↓reduceIte]
    have cm := cascade_main days hn (fun h => hl ((cascLast_iff _).2 h))
    generalize cascYear (cascade days) = Y at *
    generalize (cascade days).2.2.2.2 = r at *
    have ylp := Timeline.yearLen_pos Y
    have yb := year_bound Y (by omega) (by omega)
    have hYpos : Y > 0 := by
      by_cases h : Y ≤ 0
      · have := Timeline.daysBeforeYearC_mono (show Y + 1 ≤ 1 by omega)
        have e1 : daysBeforeYearC 1 = 0 := by decide
        have := Timeline.daysBeforeYearC_succ Y
        unfold MAXORD at hout; omega
      · omega
    have ha : astro Y = Y := by unfold astro; rw [if_pos hYpos]
    have p46 := proxy46 (isleap Y)
    unfold proxyPlus
    have := build_spec isDate Y (if isleap Y then 4 else 6) r rem
      (pyOrdUs (if isleap Y then 4 else 6) 1 1 0 + (r * US + rem)) (by omega) (by omega)
      ⟨p46.2.1, p46.2.2.1⟩ (by rw [p46.1, ha, isleap_eq]) (by
        rw [yearLen_of_leap (show isLeap (if isleap Y then 4 else 6) = isLeap Y by rw [p46.1, isleap_eq])]
        omega) hrem (by rw [pyOrdUs_jan1]; simp only [US]; omega)
    obtain ⟨v, h1, h2, h3, h4⟩ := this
    refine ⟨v, h1, h2, h3, ?_⟩
    rw [h4, ha]; simp only [US]; omega
theorem dby_neg (b : Int) : daysBeforeYearC (-b) = -366 - daysBeforeYearC (b + 1) := by
  unfold daysBeforeYearC; omega

theorem isLeap_neg (a : Int) : isLeap (-a) = isLeap a := by
  unfold isLeap
  rw [Bool.eq_iff_iff]
  simp only [Bool.and_eq_true, Bool.or_eq_true, beq_iff_eq, bne_iff_ne, ne_eq]
  omega

theorem proxy57 (b : Bool) : daysBeforeYearC (if b then 5 else 7) = (if b then 1461 else 2191) := by
  cases b <;> decide

theorem fromdeltaOut_mid (isDate : Bool) (days rem : Int) (hneg : days < 0) (hge : days ≥ -366)
    (hrem : 0 ≤ rem ∧ rem < US) :
    ∃ v, fromdeltaOut isDate days rem = .ok v ∧ v.Valid ∧ v.tz = none ∧
      (absV v).localC = days * US + (if isDate then 0 else rem) := by
  unfold fromdeltaOut
  rw [if_neg (by omega), if_pos hge]
  unfold proxyPlus
  have yl4 : yearLen 4 = 366 := by decide
  have := build_spec isDate (-1) 4 (366 + days) rem (pyOrdUs 5 1 1 0 + (days * US + rem)) (by decide) (by decide)
    (by decide) (by decide) (by omega) hrem (by
      rw [pyOrdUs_jan1]
      have e5 : daysBeforeYearC 5 = 1461 := by decide
      have e4 : daysBeforeYearC 4 = 1095 := by decide
      rw [e5, e4]; simp only [US]; omega)
  obtain ⟨v, h1, h2, h3, h4⟩ := this
  refine ⟨v, h1, h2, h3, ?_⟩
  rw [h4]
  have : daysBeforeYearC (astro (-1)) = -366 := by decide
  rw [this]; simp only [US]; omega

theorem fromdeltaOut_bce (isDate : Bool) (days rem : Int) (hlt : days < -366) (hb : -999999999 ≤ days)
    (hrem : 0 ≤ rem ∧ rem < US) :
    ∃ v, fromdeltaOut isDate days rem = .ok v ∧ v.Valid ∧ v.tz = none ∧
      (absV v).localC = days * US + (if isDate then 0 else rem) := by
  unfold fromdeltaOut
  rw [if_neg (by omega), if_neg (by omega)]
  simp only []
  have hn : 0 ≤ -days - 366 := by omega
  by_cases hl : cascLast (cascade (-days - 366)) = true
  · simp only [hl, ↓reduceIte]
    have cl := cascade_last _ hn ((cascLast_iff _).1 hl)
    rw [if_neg (by omega)]
    have hy0 : -(cascade (-days - 366)).1 * 400 - (cascade (-days - 366)).2.1 * 100 - (cascade (-days - 366)).2.2.1 * 4 -
        (cascade (-days - 366)).2.2.2.1 - 2 + 1 = -(cascYear (cascade (-days - 366)) - 1) - 1 := by
      unfold cascYear; omega
    rw [hy0]
    generalize cascYear (cascade (-days - 366)) - 1 = W at *
    -- W = Yc - 1 ≥ 1, internal year Y = -W - 1, astronomical year -W
    have hW : 1 ≤ W := by
      by_cases h : W ≤ 0
      · have := Timeline.daysBeforeYearC_mono (show W ≤ 1 by omega)
        have e1 : daysBeforeYearC 1 = 0 := by decide
        have := Timeline.daysBeforeYearC_mono (show W ≤ 0 by omega)
        have e0 : daysBeforeYearC 0 = -366 := by decide
        omega
      · omega
    have yb := year_bound W (by omega) (by omega)
    have ha : astro (-W - 1) = -W := by unfold astro; rw [if_neg (by omega)]; omega
    have hleapW : isleap (-W - 1 + 1) = true := by
      have : -W - 1 + 1 = -W := by omega
      rw [this, isleap_eq, isLeap_neg]; exact cl.2
    rw [hleapW]
    unfold proxyPlus
    have hsucc := Timeline.daysBeforeYearC_succ W
    have hylW : yearLen W = 366 := by unfold yearLen; rw [cl.2]; simp
    have yl4 : yearLen 4 = 366 := by decide
    have := build_spec isDate (-W - 1) 4 1 rem (pyOrdUs (if true = true then 5 else 7) 1 1 0 + (-365 * US + rem))
      (by omega) (by omega) (by decide) (by rw [ha, isLeap_neg, cl.2]; decide)
      (by omega) hrem (by
        rw [pyOrdUs_jan1]
        have e5 : daysBeforeYearC (if true = true then 5 else 7) = 1461 := by decide
        have e4 : daysBeforeYearC 4 = 1095 := by decide
        rw [e5, e4]; simp only [US]; omega)
    obtain ⟨v, h1, h2, h3, h4⟩ := this
    refine ⟨v, h1, h2, h3, ?_⟩
    rw [h4, ha, dby_neg W]; simp only [US]; omega
  · have hl' : cascLast (cascade (-days - 366)) = false := by simpa using hl
    simp only [hl', Bool.false_eq_true, ↓reduceIte]
    have cm := cascade_main _ hn (fun h => hl ((cascLast_iff _).2 h))
    have hy0 : -(cascade (-days - 366)).1 * 400 - (cascade (-days - 366)).2.1 * 100 - (cascade (-days - 366)).2.2.1 * 4 -
        (cascade (-days - 366)).2.2.2.1 - 2 = -cascYear (cascade (-days - 366)) - 1 := by
      unfold cascYear; omega
    rw [hy0]
    generalize cascYear (cascade (-days - 366)) = Yc at *
    generalize (cascade (-days - 366)).2.2.2.2 = r at *
    have ylp := Timeline.yearLen_pos Yc
    have hYc : 1 ≤ Yc := by
      by_cases h : Yc ≤ 0
      · have := Timeline.daysBeforeYearC_mono (show Yc ≤ 0 by omega)
        have e0 : daysBeforeYearC 0 = -366 := by decide
        omega
      · omega
    have yb := year_bound Yc (by omega) (by omega)
    have hsucc := Timeline.daysBeforeYearC_succ Yc
    unfold proxyPlus
    split
    · -- r = 0: the 1st of January of internal year -Yc (astronomical 1 - Yc)
      rename_i hr0
      have hY : -Yc - 1 + 1 = -Yc := by omega
      rw [hY]
      have ha : astro (-Yc) = 1 - Yc := by unfold astro; rw [if_neg (by omega)]; omega
      have p46 := proxy46 (isleap (-Yc + 1))
      have := build_spec isDate (-Yc) (if isleap (-Yc + 1) then 4 else 6) 0 rem
        (pyOrdUs (if isleap (-Yc + 1) then 4 else 6) 1 1 0 + rem) (by omega) (by omega)
        ⟨p46.2.1, p46.2.2.1⟩ (by rw [p46.1, ha, isleap_eq]; congr 1; omega)
        (by have := Timeline.yearLen_pos (if isleap (-Yc + 1) then 4 else 6); omega) hrem
        (by rw [pyOrdUs_jan1]; simp only [US]; omega)
      obtain ⟨v, h1, h2, h3, h4⟩ := this
      refine ⟨v, h1, h2, h3, ?_⟩
      have hd := dby_neg (Yc - 1)
      have e : -(Yc - 1) = 1 - Yc := by omega
      have e2 : Yc - 1 + 1 = Yc := by omega
      rw [e, e2] at hd
      rw [h4, ha, hd]; simp only [US]; omega
    · -- r ≠ 0: r days before the 1st of January of astronomical year 1 - Yc, i.e. inside year -Yc
      rename_i hr0
      have ha : astro (-Yc - 1) = -Yc := by unfold astro; rw [if_neg (by omega)]; omega
      have hY : -Yc - 1 + 1 = -Yc := by omega
      rw [hY]
      have p46 := proxy46 (isleap (-Yc))
      have p57 := proxy57 (isleap (-Yc))
      have hleapP : isLeap (if isleap (-Yc) then 4 else 6) = isLeap Yc := by rw [p46.1, isleap_eq, isLeap_neg]
      have hyl := yearLen_of_leap hleapP
      have hylv : yearLen (if isleap (-Yc) then (4 : Int) else 6) = (if isleap (-Yc) then 366 else 365) := by
        cases isleap (-Yc) <;> decide
      have := build_spec isDate (-Yc - 1) (if isleap (-Yc) then 4 else 6) (yearLen Yc - r) rem
        (pyOrdUs (if isleap (-Yc) then 5 else 7) 1 1 0 + (-r * US + rem)) (by omega) (by omega)
        ⟨p46.2.1, p46.2.2.1⟩ (by rw [hleapP, ha, isLeap_neg])
        (by omega) hrem
        (by rw [pyOrdUs_jan1, p57, p46.2.2.2, ← hyl, hylv]; simp only [US]; cases isleap (-Yc) <;> simp <;> omega)
      obtain ⟨v, h1, h2, h3, h4⟩ := this
      refine ⟨v, h1, h2, h3, ?_⟩
      have hd := dby_neg Yc
      have hyln : yearLen (-Yc) = yearLen Yc := yearLen_of_leap (isLeap_neg Yc)
      have hs2 := Timeline.daysBeforeYearC_succ (-Yc)
      rw [h4, ha]; simp only [US]; omega

/-- **`fromdelta` inverts the timeline offset**: for every offset `t` (µs from 0001-01-01T00:00:00) that
fits a `timedelta`, `fromdelta t` is a valid value without timezone whose local time on the timeline
is `t` (for `Date` classes: the day that contains `t`).  All four code paths: CPython's own date
arithmetic inside 1..9999, years ≥ 10000, the year 1 BCE, earlier BCE years. -/
theorem fromdelta_spec (isDate : Bool) (t : Int) (h : TdOk t) :
    ∃ v, fromdelta isDate t = .ok v ∧ v.Valid ∧ v.tz = none ∧
      (absV v).localC = (if isDate then t - t % US else t) := by
  have hrem : 0 ≤ t % US ∧ t % US < US := by simp only [US]; omega
  have hdiv : (US + t) / US = t / US + 1 ∧ (US + t) % US = t % US := by simp only [US]; omega
  have hfin : t / US * US + (if isDate then 0 else t % US) = (if isDate then t - t % US else t) := by
    cases isDate <;> simp only [US] <;> simp <;> omega
  unfold TdOk at h
  unfold fromdelta
  by_cases hin : 1 ≤ (US + t) / US ∧ (US + t) / US ≤ MAXORD
  · obtain ⟨y, m, d, hok, hm1, hm12, hd1, hd2, hday⟩ := pyOfOrdUs_ok (US + t) hin
    rw [hok]
    simp only []
    -- the year is inside 1..9999
    have b := dayNumC_bounds y m d ⟨hm1, hm12⟩ ⟨hd1, hd2⟩
    have hy : 1 ≤ y ∧ y ≤ 9999 := by
      constructor
      · by_cases hy0 : y ≤ 0
        · have := Timeline.daysBeforeYearC_mono (show y + 1 ≤ 1 by omega)
          have e1 : daysBeforeYearC 1 = 0 := by decide
          omega
        · omega
      · by_cases hy1 : y ≥ 10000
        · have := Timeline.daysBeforeYearC_mono (show 10000 ≤ y by omega)
          have e1 : daysBeforeYearC 10000 = 3652059 := by decide
          unfold MAXORD at hin; omega
        · omega
    have ha : astro y = y := by unfold astro; rw [if_pos (by omega)]
    have hmd : 1 ≤ d ∧ d ≤ monthDays (proxyLeap y) m := by
      rw [proxyLeap_eq y (by omega), monthDays_eq _ _ hm1 hm12, ha]; exact ⟨hd1, hd2⟩
    rw [hdiv.2]
    simp only [fromdeltaBuild]
    cases isDate with
    | true =>
      refine ⟨⟨y, m, d, 0, none⟩, ?_, ?_, rfl, ?_⟩
      · have := mk_ok y m d 0 0 0 0 none (by omega) (by omega) ⟨hm1, hm12⟩ hmd (by omega) (by omega) (by omega) (by omega)
        simpa [timeUs] using this
      · refine ⟨by show y ≠ 0; omega, ⟨hm1, hm12, hd1, ?_, by simp [absV], by simp [absV, Timeline.US]⟩, by intro z h; cases h⟩
        simp only [absV]; rw [ha]; exact hd2
      · simp only [absV, Val.localC, ha, hday, ↓reduceIte]; simp only [Timeline.US, US] at *; omega
    | false =>
      refine ⟨⟨y, m, d, t % US, none⟩, ?_, ?_, rfl, ?_⟩
      · simp only [Bool.false_eq_true, ↓reduceIte]
        exact mkUs_ok y m d (t % US) none (by omega) (by omega) ⟨hm1, hm12⟩ hmd hrem
      · refine ⟨by show y ≠ 0; omega, ⟨hm1, hm12, hd1, ?_, ?_, ?_⟩, by intro z h; cases h⟩
        · simp only [absV]; rw [ha]; exact hd2
        · simp only [absV]; exact hrem.1
        · simp only [absV, Timeline.US]; simp only [US] at hrem; exact hrem.2
      · simp only [absV, Val.localC, ha, hday, Bool.false_eq_true, ↓reduceIte]; simp only [Timeline.US, US] at *; omega
  · rw [pyOfOrdUs_err _ hin]
    simp only []
    rw [← hfin]
    by_cases hpos : t / US > 0
    · exact fromdeltaOut_pos isDate _ _ hpos (by unfold MAXORD at *; omega) h.2 hrem
    · by_cases hmid : t / US ≥ -366
      · exact fromdeltaOut_mid isDate _ _ (by unfold MAXORD at *; omega) hmid hrem
      · exact fromdeltaOut_bce isDate _ _ (by omega) h.1 hrem


end EPV.Cal

/-
C10 helper lemmas: the casting corner of the model against the F&O rules of the spec.
-/
import EPV.Lemmas.LexicalCanon
import EPV.Lemmas.LexicalHex
namespace EPV.LexLemmas
open EPV

/-- model operand ↦ spec operand (a Decimal by its exact value; the digits of a double are only
needed for the cast to xs:string, which `cast_eq_spec_partial` excludes) -/
def toSAtom : Lex.Atom → XSD.SAtom
  | .str s => .str s
  | .untyped s => .untyped s
  | .bool b => .bool b
  | .int v => .int v
  | .dec d => .dec (pyDecVal d)
  | .dbl x _ =>
    .dbl (match x with | .nan => .nan | .pinf => .pinf | .ninf => .ninf | .fin a n k => .fin a n k) [] 0

def toSType (ver : Lex.Ver) : Lex.Target → XSD.SType
  | .string => .string
  | .untypedAtomic => .untypedAtomic
  | .boolean => .boolean
  | .integer b => .integer b.lo (b.hi.map (· - 1))
  | .decimal => .decimal
  | .double => .double (ver != .v10)
  | .float => .double (ver != .v10)

def toSClass : Lex.DblClass → XSD.DClass
  | .nan => .nan | .pinf => .pinf | .ninf => .ninf | .num => .num

def toSVal : Lex.CVal → XSD.SVal
  | .str s => .str s
  | .untyped s => .untyped s
  | .bool b => .bool b
  | .int v => .int v
  | .dec neg c k => .dec ⟨if neg then -(c : Int) else c, k⟩
  | .dbl c => .dbl (toSClass c)

/-- error codes are forgotten: the property speaks about success and value -/
def toSRes : Except Lex.CErr Lex.CVal → Option XSD.SVal
  | .ok v => some (toSVal v)
  | .error _ => none

theorem truncQuot_eq (neg : Bool) (a b : Nat) :
    Lex.truncQuot neg a b = XSD.truncDiv (if neg then -(a : Int) else a) b := by
  unfold Lex.truncQuot XSD.truncDiv
  cases neg
  · simp [Int.ofNat_tdiv]
  · simp only [↓reduceIte, Int.neg_tdiv, Int.ofNat_tdiv]

theorem natAbs_signed (v : Int) : (if decide (v < 0) = true then -(v.natAbs : Int) else (v.natAbs : Int)) = v := by
  by_cases h : v < 0
  · simp only [h, decide_true, ↓reduceIte]; omega
  · simp only [h, decide_false, Bool.false_eq_true, ↓reduceIte]; omega

theorem specDblClass_eq (t : List Char) : toSClass (
    if t == "NaN".toList then Lex.DblClass.nan
    else if t == "INF".toList || t == "+INF".toList then .pinf
    else if t == "-INF".toList then .ninf
    else .num) = XSD.doubleClass t := by
  unfold XSD.doubleClass
  split <;> (try rfl)
  split <;> (try rfl)
  split <;> rfl

theorem toSRes_check (c : Bool) (v : Int) (e : Lex.CErr) :
    toSRes (if c = true then .ok (.int v) else .error e) = if c = true then some (.int v) else none := by
  cases c <;> rfl

theorem coef_ne_zero (neg : Bool) (c : Nat) :
    (c != 0) = ((if neg = true then -(c : Int) else (c : Int)) != 0) := by
  cases neg <;> cases c <;> simp [bne]
  all_goals omega

/-! ### `str(int)` has no leading zero -/

theorem digitChar_ne_zero : ∀ n : Fin 10, 0 < n.val → n.val.digitChar ≠ '0' := by decide

theorem toDigits_head (n : Nat) (h : 0 < n) : ∃ c r, Nat.toDigits 10 n = c :: r ∧ c ≠ '0' := by
  induction n using Nat.strongRecOn with
  | _ n ih =>
    rw [Nat.toDigits_eq_if (by decide : 1 < 10)]
    split
    · rename_i hlt
      exact ⟨n.digitChar, [], rfl, digitChar_ne_zero ⟨n, hlt⟩ h⟩
    · rename_i hge
      have hpos : 0 < n / 10 := by omega
      obtain ⟨c, r, hc, hne⟩ := ih (n / 10) (by omega) hpos
      exact ⟨c, r ++ [(n % 10).digitChar], by rw [hc]; rfl, hne⟩

theorem stripLead0_toDigits (n : Nat) :
    (if (Lex.stripLead0 (Nat.toDigits 10 n)).isEmpty then ['0'] else Lex.stripLead0 (Nat.toDigits 10 n))
      = Nat.toDigits 10 n := by
  by_cases h : n = 0
  · subst h; decide
  · obtain ⟨c, r, hc, hne⟩ := toDigits_head n (by omega)
    have : (c == '0') = false := by simpa using hne
    simp [Lex.stripLead0, hc, List.dropWhile_cons, this]

/-- the Decimal built from the canonical string of an integer: all digits before the point -/
theorem decOfLex_intCanon (v : Int) :
    Lex.decOfLex (Lex.intCanon v) = ⟨decide (v < 0), Nat.toDigits 10 v.natAbs, []⟩ := by
  have hds := toDigits_all_digit v.natAbs
  have h1 := takeWhile_digits_append (Nat.toDigits 10 v.natAbs) [] hds (Or.inl rfl)
  simp only [List.append_nil] at h1
  have hhead : ∃ c r, Nat.toDigits 10 v.natAbs = c :: r ∧ Lex.isDigit c = true := by
    cases hd : Nat.toDigits 10 v.natAbs with
    | nil => exact absurd hd Nat.toDigits_ne_nil
    | cons c r => exact ⟨c, r, rfl, hds c (by rw [hd]; simp)⟩
  unfold Lex.decOfLex Lex.intCanon
  split
  · rename_i hneg
    simp only [Lex.signSplit, Lex.decParts, h1.1, h1.2, hneg, decide_true]
  · rename_i hpos
    rw [(optSign_of_digit_head _ hhead).2]
    simp only [Lex.decParts, h1.1, h1.2, hpos, decide_false]

/-- printing that Decimal gives the canonical string of the integer back -/
theorem decCanon_of_int (v : Int) :
    Lex.decCanon ⟨decide (v < 0), Nat.toDigits 10 v.natAbs, []⟩ = Lex.intCanon v := by
  unfold Lex.decCanon Lex.intCanon
  have hs := stripLead0_toDigits v.natAbs
  simp only [Lex.stripTrail0, List.reverse_nil, List.dropWhile_nil, List.isEmpty_nil, ↓reduceIte]
  simp only [List.isEmpty_iff] at hs ⊢
  rw [hs]
  by_cases hneg : v < 0
  · have : Nat.toDigits 10 v.natAbs ≠ ['0'] := by
      intro e
      have := congrArg Lex.digitsVal e
      simp only [Lex.digitsVal, Nat.ofDigitChars_ten_toDigits] at this
      have h0 : Nat.ofDigitChars 10 ['0'] 0 = 0 := by decide
      omega
    simp [hneg, this]
  · simp [hneg]

end EPV.LexLemmas

/-
C04 helper: the loop invariant of the Pratt parser model (`EPV.Pratt.expr` / `loop`), for any
operator table.  `WFr T t` is what every tree returned by the parser satisfies, expressed with
binding powers only (no grammar yet): see `pratt_inv`.
-/
import EPV.Model.Pratt
namespace EPV.Pratt
open EPV.Syn

/-- `k < b` where `none` stands for "binds infinitely tight" -/
def gtO (k : Nat) : Option Nat → Prop
  | none => True
  | some b => k < b

def leO (k : Nat) : Option Nat → Prop
  | none => True
  | some b => k ≤ b

/-- binding power with which the loop admitted the top operator of a tree (none: not built by `led`) -/
def lbpTop (T : Tbl) : Tree → Option Nat
  | .bin o _ _ => some (T.lbp o)
  | .typed o _ _ => some (T.lbp o)
  | .post o _ _ _ => some (T.lbp o)
  | .arrow o _ _ _ => some (T.lbp o)
  | _ => none

def ledRbp (T : Tbl) (o : Nat) : Nat := match T.led o with | .infix r _ _ => r | .arrow _ ar _ _ => ar | _ => 0
def nudRbp (T : Tbl) (p : Nat) : Nat := match T.nud p with | .prefix r _ => r | _ => 0

/-- the `rbp` of the innermost `expression(rbp)` call that returned the right edge of the tree
(none: the right edge is a closed token: atom, type, closing bracket) -/
def rclose (T : Tbl) : Tree → Option Nat
  | .bin o _ _ => some (ledRbp T o)
  | .pre p _ => some (nudRbp T p)
  | .arrow o _ _ _ => some (ledRbp T o)
  | _ => none

/-- what the Pratt loop guarantees about every node, in terms of binding powers -/
def WFr (T : Tbl) : Tree → Prop
  | .nil => False
  | .atom _ _ => True
  | .group g c e =>
      match T.nud g with
      | .group c' eo => c = c' ∧ ((e = .nil ∧ eo = true) ∨ WFr T e)
      | _ => False
  | .pre p x =>
      match T.nud p with
      | .prefix r rhs => WFr T x ∧ gtO r (lbpTop T x) ∧ rhsOk rhs x.yield = true
      | _ => False
  | .bin o l r =>
      match T.led o with
      | .infix rb deny rhs =>
          WFr T l ∧ WFr T r ∧ leO (T.lbp o) (rclose T l) ∧ gtO rb (lbpTop T r) ∧
            deny.contains l.head = false ∧ rhsOk rhs r.yield = true
      | _ => False
  | .typed o l _ =>
      match T.led o with
      | .typed deny => WFr T l ∧ leO (T.lbp o) (rclose T l) ∧ deny.contains l.head = false
      | _ => False
  | .post o c l e =>
      match T.led o with
      | .bracket c' eo deny =>
          c = c' ∧ WFr T l ∧ leO (T.lbp o) (rclose T l) ∧ deny.contains l.head = false ∧
            ((e = .nil ∧ eo = true) ∨ WFr T e)
      | _ => False
  | .arrow o l f a =>
      match T.led o with
      | .arrow sr ar start g =>
          WFr T l ∧ WFr T f ∧ WFr T a ∧ leO (T.lbp o) (rclose T l) ∧ gtO sr (lbpTop T f) ∧ gtO ar (lbpTop T a) ∧
            rhsOk start f.yield = true ∧ a.head = 2 * g + 1
      | _ => False

/-- the next token, if an operator, has `lbp ≤ b` -/
def headLe (T : Tbl) (b : Option Nat) : List Tok → Prop
  | .op o :: _ => leO (T.lbp o) b
  | _ => True

theorem headLe_none (T : Tbl) (toks : List Tok) : headLe T none toks := by
  unfold headLe; split <;> simp [leO]

theorem wfr_yield_ne_nil (T : Tbl) : ∀ t, WFr T t → t.yield ≠ []
  | .nil, h => by simp [WFr] at h
  | .atom _ _, _ => by simp [Tree.yield]
  | .group _ _ _, _ => by simp [Tree.yield]
  | .pre _ _, _ => by simp [Tree.yield]
  | .bin _ l _, _ => by simp [Tree.yield]
  | .typed _ l _, _ => by simp [Tree.yield]
  | .post _ _ l _, _ => by simp [Tree.yield]
  | .arrow _ l _ _, _ => by simp [Tree.yield]

theorem tokCode_append (a b : List Tok) (h : a ≠ []) : tokCode (a ++ b) = tokCode a := by
  cases a with
  | nil => exact absurd rfl h
  | cons x xs => cases x <;> simp [tokCode]

theorem rhsOk_append (rhs : List Nat) (a b : List Tok) (h : a ≠ []) : rhsOk rhs (a ++ b) = rhsOk rhs a := by
  unfold rhsOk; rw [tokCode_append a b h]

/-- result record of the invariant -/
structure Inv (T : Tbl) (rbp : Nat) (t : Tree) (rest : List Tok) (input : List Tok) : Prop where
  wf : WFr T t
  top : gtO rbp (lbpTop T t)
  yld : t.yield ++ rest = input
  nxt : headLe T (some rbp) rest

theorem pratt_inv (T : Tbl) : ∀ f,
    (∀ rbp toks t rest, expr T f rbp toks = .ok (t, rest) → Inv T rbp t rest toks) ∧
    (∀ rbp left toks t rest, loop T f rbp left toks = .ok (t, rest) →
        WFr T left → gtO rbp (lbpTop T left) → headLe T (rclose T left) toks →
        Inv T rbp t rest (left.yield ++ toks)) := by
  intro f
  induction f with
  | zero => constructor <;> intros <;> simp [expr, loop] at *
  | succ f ih =>
    obtain ⟨ihe, ihl⟩ := ih
    constructor
    · intro rbp toks t rest h
      match toks with
      | [] => simp [expr] at h
      | .ty _ :: tl => simp [expr] at h
      | .close _ :: tl => simp [expr] at h
      | .atom k n :: tl =>
        simp only [expr] at h
        have := ihl rbp (.atom k n) tl t rest h (by simp [WFr]) (by simp [lbpTop, gtO])
          (by simpa [rclose] using headLe_none T tl)
        simpa [Tree.yield] using this
      | .op o :: tl =>
        simp only [expr] at h
        split at h
        · -- prefix
          rename_i r rhs hnud
          split at h
          · simp at h
          · rename_i hrhs
            split at h
            · rename_i x rest' hx
              have hx' := ihe r tl x rest' hx
              have hne := wfr_yield_ne_nil T x hx'.wf
              have hwf : WFr T (.pre o x) := by
                simp only [WFr, hnud]
                refine ⟨hx'.wf, hx'.top, ?_⟩
                have : rhsOk rhs tl = true := by simpa using hrhs
                rw [← hx'.yld, rhsOk_append _ _ _ hne] at this
                exact this
              have := ihl rbp (.pre o x) rest' t rest h hwf (by simp [lbpTop, gtO])
                (by
                  have := hx'.nxt
                  simp only [rclose, nudRbp, hnud]
                  exact this)
              refine ⟨this.wf, this.top, ?_, this.nxt⟩
              rw [this.yld, ← hx'.yld]; simp [Tree.yield]
            · simp at h
        · -- group
          rename_i c eo hnud
          split at h
          · rename_i c' rest'
            split at h
            · rename_i hc
              simp only [Bool.and_eq_true, beq_iff_eq] at hc
              obtain ⟨heo, rfl⟩ := hc
              have hwf : WFr T (.group o c' .nil) := by simp only [WFr, hnud]; exact ⟨trivial, Or.inl ⟨trivial, heo⟩⟩
              have := ihl rbp (.group o c' .nil) rest' t rest h hwf (by simp [lbpTop, gtO])
                (by simpa [rclose] using headLe_none T rest')
              refine ⟨this.wf, this.top, ?_, this.nxt⟩
              rw [this.yld]; simp [Tree.yield]
            · simp at h
          · split at h
            · rename_i e c' rest' he
              split at h
              · rename_i hc
                simp only [beq_iff_eq] at hc
                subst hc
                have he' := ihe 0 tl e (.close c' :: rest') he
                have hwf : WFr T (.group o c' e) := by simp only [WFr, hnud]; exact ⟨trivial, Or.inr he'.wf⟩
                have := ihl rbp (.group o c' e) rest' t rest h hwf (by simp [lbpTop, gtO])
                  (by simpa [rclose] using headLe_none T rest')
                refine ⟨this.wf, this.top, ?_, this.nxt⟩
                rw [this.yld, ← he'.yld]; simp [Tree.yield]
              · simp at h
            · simp at h
            · simp at h
        · simp at h
        · simp at h
    · intro rbp left toks t rest h hwf htop hclose
      match toks with
      | [] => simp [loop] at h; obtain ⟨rfl, rfl⟩ := h; exact ⟨hwf, htop, rfl, by simp [headLe]⟩
      | .atom _ _ :: tl => simp [loop] at h; obtain ⟨rfl, rfl⟩ := h; exact ⟨hwf, htop, rfl, by simp [headLe]⟩
      | .ty _ :: tl => simp [loop] at h; obtain ⟨rfl, rfl⟩ := h; exact ⟨hwf, htop, rfl, by simp [headLe]⟩
      | .close _ :: tl => simp [loop] at h; obtain ⟨rfl, rfl⟩ := h; exact ⟨hwf, htop, rfl, by simp [headLe]⟩
      | .op o :: tl =>
        simp only [loop] at h
        split at h
        · rename_i hlt
          have hcl : leO (T.lbp o) (rclose T left) := by simpa [headLe] using hclose
          split at h
          · -- infix
            rename_i r deny rhs hled
            split at h
            · simp at h
            · rename_i hdeny
              split at h
              · simp at h
              · rename_i hrhs
                split at h
                · rename_i x rest' hx
                  have hx' := ihe r tl x rest' hx
                  have hne := wfr_yield_ne_nil T x hx'.wf
                  have hwf' : WFr T (.bin o left x) := by
                    simp only [WFr, hled]
                    refine ⟨hwf, hx'.wf, hcl, hx'.top, by simpa using hdeny, ?_⟩
                    have : rhsOk rhs tl = true := by simpa using hrhs
                    rw [← hx'.yld, rhsOk_append _ _ _ hne] at this
                    exact this
                  have := ihl rbp (.bin o left x) rest' t rest h hwf' (by simpa [lbpTop, gtO] using hlt)
                    (by
                      have := hx'.nxt
                      simp only [rclose, ledRbp, hled]
                      exact this)
                  refine ⟨this.wf, this.top, ?_, this.nxt⟩
                  rw [this.yld, ← hx'.yld]; simp [Tree.yield]
                · simp at h
          · -- typed
            rename_i deny hled
            split at h
            · simp at h
            · rename_i hdeny
              split at h
              · rename_i n rest'
                have hwf' : WFr T (.typed o left n) := by
                  simp only [WFr, hled]; exact ⟨hwf, hcl, by simpa using hdeny⟩
                have := ihl rbp (.typed o left n) rest' t rest h hwf' (by simpa [lbpTop, gtO] using hlt)
                  (by simpa [rclose] using headLe_none T rest')
                refine ⟨this.wf, this.top, ?_, this.nxt⟩
                rw [this.yld]; simp [Tree.yield]
              · simp at h
          · -- bracket
            rename_i c eo deny hled
            split at h
            · simp at h
            · rename_i hdeny
              split at h
              · rename_i c' rest'
                split at h
                · rename_i hc
                  simp only [Bool.and_eq_true, beq_iff_eq] at hc
                  obtain ⟨heo, rfl⟩ := hc
                  have hwf' : WFr T (.post o c' left .nil) := by
                    simp only [WFr, hled]; exact ⟨trivial, hwf, hcl, by simpa using hdeny, Or.inl ⟨trivial, heo⟩⟩
                  have := ihl rbp (.post o c' left .nil) rest' t rest h hwf' (by simpa [lbpTop, gtO] using hlt)
                    (by simpa [rclose] using headLe_none T rest')
                  refine ⟨this.wf, this.top, ?_, this.nxt⟩
                  rw [this.yld]; simp [Tree.yield]
                · simp at h
              · split at h
                · rename_i e c' rest' he
                  split at h
                  · rename_i hc
                    simp only [beq_iff_eq] at hc
                    subst hc
                    have he' := ihe 0 tl e (.close c' :: rest') he
                    have hwf' : WFr T (.post o c' left e) := by
                      simp only [WFr, hled]; exact ⟨trivial, hwf, hcl, by simpa using hdeny, Or.inr he'.wf⟩
                    have := ihl rbp (.post o c' left e) rest' t rest h hwf' (by simpa [lbpTop, gtO] using hlt)
                      (by simpa [rclose] using headLe_none T rest')
                    refine ⟨this.wf, this.top, ?_, this.nxt⟩
                    rw [this.yld, ← he'.yld]; simp [Tree.yield]
                  · simp at h
                · simp at h
                · simp at h
          · -- arrow
            rename_i sr ar start g hled
            split at h
            · simp at h
            · rename_i hstart
              split at h
              · rename_i s rest1 hs
                split at h
                · rename_i a rest2 ha
                  split at h
                  · rename_i hhead
                    have hs' := ihe sr tl s rest1 hs
                    have ha' := ihe ar rest1 a rest2 ha
                    have hne := wfr_yield_ne_nil T s hs'.wf
                    have hwf' : WFr T (.arrow o left s a) := by
                      simp only [WFr, hled]
                      refine ⟨hwf, hs'.wf, ha'.wf, hcl, hs'.top, ha'.top, ?_, by simpa using hhead⟩
                      have : rhsOk start tl = true := by simpa using hstart
                      rw [← hs'.yld, rhsOk_append _ _ _ hne] at this
                      exact this
                    have := ihl rbp (.arrow o left s a) rest2 t rest h hwf' (by simpa [lbpTop, gtO] using hlt)
                      (by
                        have := ha'.nxt
                        simp only [rclose, ledRbp, hled]
                        exact this)
                    refine ⟨this.wf, this.top, ?_, this.nxt⟩
                    rw [this.yld, ← hs'.yld, ← ha'.yld]; simp [Tree.yield]
                  · simp at h
                · simp at h
              · simp at h
          · simp at h
          · simp at h
        · rename_i hge
          simp at h; obtain ⟨rfl, rfl⟩ := h
          exact ⟨hwf, htop, rfl, by simp [headLe, leO]; omega⟩

end EPV.Pratt

/-
Monotonicity of lazy building: a node that exists in the tree as it stands still exists (same index path, same
head) after any further walk.
-/
import EPV.Lemmas.LazyHist
namespace EPV.NodePath

theorem descend_reach_mono (is : List Nat) : ∀ (t : LNode) (w : List Nat) (n : Node),
    descend (view t) is = some n → ∃ n', descend (view (reach t w)) is = some n' ∧ hd n' = hd n := by
  induction is with
  | nil =>
    intro t w n h
    simp only [descend, Option.some.injEq] at h
    subst h
    exact ⟨view (reach t w), rfl, hd_view_reach t w⟩
  | cons i is ih =>
    intro t w n h
    cases w with
    | nil => exact ⟨n, h, rfl⟩
    | cons j w' =>
      cases t with
      | text => simp [descend, view, Node.kids] at h
      | comment => simp [descend, view, Node.kids] at h
      | pi t => simp [descend, view, Node.kids] at h
      | lazy src ch =>
        cases src with
        | comment tl => simp [descend, view, Node.kids] at h
        | pi tg tl => simp [descend, view, Node.kids] at h
        | elem nm nss attrs text tail kids =>
          have hvk : ∀ l, (view (.lazy (.elem nm nss attrs text tail kids) l)).kids = l.map view := by
            intro l; simp [view, Node.kids, viewKids_eq_map]
          simp only [descend, hvk, List.getElem?_map] at h
          cases hci : ch[i]? with
          | none => simp [hci] at h
          | some c =>
            simp only [hci, Option.map_some] at h
            cases ch with
            | nil => simp at hci
            | cons c0 cs =>
              simp only [reach, LNode.built]
              cases hcj : (c0 :: cs)[j]? with
              | none =>
                refine ⟨n, ?_, rfl⟩
                simp only [descend, hvk, List.getElem?_map, hci, Option.map_some, h]
              | some cj =>
                by_cases hji : j = i
                · subst hji
                  rw [hci] at hcj
                  cases hcj
                  obtain ⟨n', hn', hh⟩ := ih c w' n h
                  have hlt : j < (c0 :: cs).length := by
                    rcases Nat.lt_or_ge j (c0 :: cs).length with hl | hl
                    · exact hl
                    · rw [List.getElem?_eq_none hl] at hci; cases hci
                  refine ⟨n', ?_, hh⟩
                  simp only [descend, hvk, List.getElem?_map, List.getElem?_set, hlt, if_true, Option.map_some, hn']
                · refine ⟨n, ?_, rfl⟩
                  simp only [descend, hvk, List.getElem?_map, List.getElem?_set, hji, if_false, hci, Option.map_some, h]

theorem valid_reach_mono (t : LNode) (w : List Nat) (r : Ref) (h : Valid (view t) r) :
    Valid (view (reach t w)) r := by
  unfold Valid at h ⊢
  cases h1 : descend (view t) r.path with
  | none => rw [h1] at h; exact h.elim
  | some n =>
    rw [h1] at h
    obtain ⟨n', hn', hh⟩ := descend_reach_mono r.path t w n h1
    rw [hn']
    have ha : n'.attrs = n.attrs := by rw [← hd_attrs n', hh, hd_attrs]
    have hn : n'.nss = n.nss := by rw [← hd_nss n', hh, hd_nss]
    cases hs : r.sel <;> simp only [hs] at h ⊢
    · rw [ha]; exact h
    · rw [hn]; exact h

theorem valid_reachMany_mono (more : List (List Nat)) : ∀ (t : LNode) (r : Ref), Valid (view t) r →
    Valid (view (reachMany t more)) r := by
  induction more with
  | nil => intro t r h; exact h
  | cons w ws ih =>
    intro t r h
    simp only [reachMany, List.foldl_cons] at ih ⊢
    exact ih _ r (valid_reach_mono t w r h)

theorem reachMany_append (t : LNode) (ws more : List (List Nat)) :
    reachMany t (ws ++ more) = reachMany (reachMany t ws) more := by
  simp [reachMany, List.foldl_append]

end EPV.NodePath

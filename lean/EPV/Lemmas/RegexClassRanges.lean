/-
C12, phase 5.  The *rejection* side of the class scanner on range bodies, and the decision procedure.

Phase 4 (`RegexClassGrammar`, `RegexClassUnits`) proved: a well-formed bracket expression is accepted
and denotes the grammar's set.  Here: a body made of plain characters and ranges between plain
characters (`LUnit` without the order condition, `LUnit.Shape`) with at least one *reversed* range is
rejected by the transcribed scanner (`parseClassM`: the error comes from `iterparse_character_subset`,
through C13's `subset_string_rejected`) **and** by the specification's recogniser (`pClass`), for every
fuel; the translator's hyphen checks can never fire on such bodies (`units_translatorChecks`), so the
accepted side needs no side condition; and `rangeBody` (Spec/ClassRangeBody.lean) computes exactly
"every range is ordered" on the rendered text.
-/
import EPV.Lemmas.RegexClassUnits
import EPV.Spec.ClassRangeBody
namespace EPV.Regex
open EPV.USet (CP memL strictGroup GroupRes charOrEsc afterChar strictGoF strictGo)

/-- a unit of a range body: a plain character, or a range between plain characters (any order) -/
def LUnit.Shape : LUnit → Prop
  | .chr c => Plain c
  | .rng a b => Plain a ∧ Plain b

/-- XSD [81]: a range `s-e` needs `s ≤ e` -/
def LUnit.ordered : LUnit → Bool
  | .chr _ => true
  | .rng a b => decide (a ≤ b)

theorem unit_ok_of {u : LUnit} (hs : u.Shape) (ho : u.ordered = true) : u.OK := by
  cases u with
  | chr c => exact hs
  | rng a b => exact ⟨hs.1, hs.2, by simpa [LUnit.ordered] using ho⟩

theorem units_ok_of (us : List LUnit) (hs : ∀ u ∈ us, u.Shape) (ho : us.all LUnit.ordered = true) :
    ∀ u ∈ us, u.OK :=
  fun u hu => unit_ok_of (hs u hu) (List.all_eq_true.1 ho u hu)

theorem shape_head (us : List LUnit) (hs : ∀ u ∈ us, u.Shape) (rest : List Ch) (hr : rest.head? ≠ some 45) :
    (renderUnits us ++ rest).head? ≠ some 45 := by
  cases us with
  | nil => simpa [renderUnits] using hr
  | cons u r =>
    cases u with
    | chr c => simpa [renderUnits, LUnit.text] using (hs (.chr c) (by simp)).2.1
    | rng a b => simpa [renderUnits, LUnit.text] using (hs (.rng a b) (by simp)).1.2.1

theorem shape_head_ne (us : List LUnit) (hne : us ≠ []) (hs : ∀ u ∈ us, u.Shape) (rest : List Ch) :
    (renderUnits us ++ rest).head? ≠ some 45 := by
  cases us with
  | nil => exact absurd rfl hne
  | cons u r =>
    cases u with
    | chr c => simpa [renderUnits, LUnit.text] using (hs (.chr c) (by simp)).2.1
    | rng a b => simpa [renderUnits, LUnit.text] using (hs (.rng a b) (by simp)).1.2.1

theorem rev_ne_nil {us : List LUnit} (h : us.all LUnit.ordered = false) : us ≠ [] := by
  intro h'; subst h'; simp at h

/-! ### the specification's recogniser rejects a reversed range -/

theorem pParts_rng_rev (f : Nat) (ng : Bool) (a b : Nat) (rest : List Ch) (acc : List CItem) (st : PSt)
    (ha : Plain a) (hb : Plain b) (hab : b < a) :
    pParts xo (f + 2) ng (a :: 45 :: b :: rest) acc st = none := by
  obtain ⟨h1, h2, h3, h4⟩ := ha
  rw [pParts.eq_def]
  simp only
  split
  all_goals (first
    | (rename_i heq; simp only [List.cons.injEq, reduceCtorEq] at heq; obtain ⟨hh, _⟩ := heq
       first | exact absurd hh h4 | exact absurd hh h2 | exact absurd hh h1)
    | skip)
  · rename_i heq; cases heq
  · rw [pSingle.eq_def]
    simp only [pSingleChar_plain xo a _ ⟨h1, h2, h3, h4⟩]
    have e1 : (b == 93 || b == 91) = false := by simp [hb.2.2.1, hb.2.2.2]
    have e2 : (b == 45) = false := by simp [hb.2.1]
    simp [e1, e2, pSingleChar_plain xo b rest hb, Nat.not_le.2 hab]

theorem pParts_one_plain (ng : Bool) (c : Nat) (rest : List Ch) (acc : List CItem) (st : PSt) (hp : Plain c) :
    pParts xo (0 + 1) ng (c :: rest) acc st = none := by
  obtain ⟨h1, h2, h3, h4⟩ := hp
  rw [pParts.eq_def]
  simp only
  split
  all_goals (first
    | (rename_i heq; simp only [List.cons.injEq, reduceCtorEq] at heq; obtain ⟨hh, _⟩ := heq
       first | exact absurd hh h4 | exact absurd hh h2 | exact absurd hh h1)
    | skip)
  · rename_i heq; cases heq
  · rw [pSingle.eq_def]

/-- a body with a reversed range has no parse as a group, whatever the fuel -/
theorem pParts_units_rev (ng : Bool) : ∀ (us : List LUnit), (∀ u ∈ us, u.Shape) → us.all LUnit.ordered = false →
    ∀ (rest : List Ch) (acc : List CItem) (st : PSt) (F : Nat),
      pParts xo F ng (renderUnits us ++ rest) acc st = none := by
  intro us
  induction us with
  | nil => intro _ h; simp at h
  | cons u us ih =>
    intro hs hrev rest acc st F
    have hs' : ∀ d ∈ us, d.Shape := fun d hd => hs d (List.mem_cons_of_mem _ hd)
    rw [renderUnits_cons]
    match F with
    | 0 => rw [pParts.eq_def]
    | 1 =>
      cases u with
      | chr c => exact pParts_one_plain ng c _ acc st (hs (.chr c) (by simp))
      | rng a b => exact pParts_one_plain ng a _ acc st (hs (.rng a b) (by simp)).1
    | f + 2 =>
      cases u with
      | chr c =>
        have hc : Plain c := hs (.chr c) (by simp)
        have hrev' : us.all LUnit.ordered = false := by simpa [LUnit.ordered] using hrev
        have hcont : ContOK (renderUnits us ++ rest) := contOK_of_head (shape_head_ne us (rev_ne_nil hrev') hs' rest)
        simp only [LUnit.text, List.cons_append, List.nil_append]
        rw [pParts_chr_step f ng c _ acc st hc hcont]
        exact ih hs' hrev' rest _ st f
      | rng a b =>
        obtain ⟨ha, hb⟩ : Plain a ∧ Plain b := hs (.rng a b) (by simp)
        simp only [LUnit.text, List.cons_append, List.nil_append]
        by_cases hab : a ≤ b
        · have hrev' : us.all LUnit.ordered = false := by simpa [LUnit.ordered, hab] using hrev
          rw [pParts_rng_step f ng a b _ acc st ha hb hab]
          exact ih hs' hrev' rest _ st f
        · exact pParts_rng_rev f ng a b _ acc st ha hb (Nat.lt_of_not_le hab)

/-- the bracket expression `^`? body … with a reversed range in the body is no `charClassExpr` -/
theorem pClass_units_rev (ng : Bool) (us : List LUnit) (hs : ∀ u ∈ us, u.Shape) (hrev : us.all LUnit.ordered = false)
    (h0 : ng = false → (renderUnits us).head? ≠ some 94) (rest : List Ch) (st : PSt) (F : Nat) :
    pClass xo F (caret ng ++ renderUnits us ++ rest) st = none := by
  match F with
  | 0 => rw [pClass]
  | F + 1 =>
    cases ng with
    | true =>
      simp only [caret, if_true, List.cons_append, List.nil_append]
      rw [pClass]
      exact pParts_units_rev true us hs hrev rest [] st F
    | false =>
      simp only [caret, Bool.false_eq_true, if_false, List.nil_append]
      rw [pClass]
      · exact pParts_units_rev false us hs hrev rest [] st F
      · intro r heq
        have hh := h0 rfl
        cases hu : renderUnits us with
        | nil => exact absurd hu (renderUnits_ne_nil us (rev_ne_nil hrev))
        | cons a b =>
          rw [hu] at heq hh
          simp only [List.cons_append, List.cons.injEq] at heq
          simp at hh
          exact hh heq.1

/-! ### the XSD group grammar (C13's `strictGroup`) makes it an error -/

theorem strictGoF_units_rev : ∀ (us : List LUnit) (fuel : Nat), (∀ u ∈ us, u.Shape) → us.all LUnit.ordered = false →
    us.length < fuel → strictGoF fuel (renderUnits us) = .error := by
  intro us
  induction us with
  | nil => intro _ _ h; simp at h
  | cons u us ih =>
    intro fuel hs hrev hf
    obtain ⟨f, rfl⟩ : ∃ f, fuel = f + 1 := ⟨fuel - 1, by omega⟩
    have hs' : ∀ d ∈ us, d.Shape := fun d hd => hs d (List.mem_cons_of_mem _ hd)
    have hhead := shape_head us hs' [] (by simp)
    simp only [List.append_nil] at hhead
    cases u with
    | chr c =>
      have hc : Plain c := hs (.chr c) (by simp)
      have hrev' : us.all LUnit.ordered = false := by simpa [LUnit.ordered] using hrev
      have ih' := ih f hs' hrev' (by simp at hf; omega)
      rw [renderUnits_cons]
      simp only [LUnit.text, List.cons_append, List.nil_append]
      rw [strictGoF]
      · simp only [charOrEsc_plain c _ hc]
        unfold afterChar
        split
        · rename_i heq; rw [heq] at hhead; simp at hhead
        · rw [ih']; rfl
      · intro heq; cases heq
      · intro heq
        simp only [List.cons.injEq] at heq
        exact hc.2.1 heq.1
    | rng a b =>
      obtain ⟨ha, hb⟩ : Plain a ∧ Plain b := hs (.rng a b) (by simp)
      rw [renderUnits_cons]
      simp only [LUnit.text, List.cons_append, List.nil_append]
      rw [strictGoF]
      · simp only [charOrEsc_plain a _ ha]
        unfold afterChar
        simp only [charOrEsc_plain b _ hb]
        by_cases hab : a ≤ b
        · have hrev' : us.all LUnit.ordered = false := by simpa [LUnit.ordered, hab] using hrev
          have ih' := ih f hs' hrev' (by simp at hf; omega)
          have : ¬ a > b := Nat.not_lt.2 hab
          simp [this, ih', GroupRes.map]
        · have : a > b := Nat.lt_of_not_le hab
          simp [this]
      · intro heq; cases heq
      · intro heq
        simp only [List.cons.injEq] at heq
        exact ha.2.1 heq.1

theorem strictGroup_units_rev (us : List LUnit) (hs : ∀ u ∈ us, u.Shape) (hrev : us.all LUnit.ordered = false) :
    strictGroup (renderUnits us) = .error := by
  have hgo : strictGo (renderUnits us) = .error :=
    strictGoF_units_rev us _ hs hrev (Nat.lt_succ_of_le (units_len us))
  match us, hs, hrev, hgo with
  | [.chr c], _, hrev, _ => simp [LUnit.ordered] at hrev
  | .chr c :: u2 :: r, hs, _, hgo =>
    have hc : Plain c := hs (.chr c) (by simp)
    obtain ⟨d, t, ht⟩ : ∃ d t, renderUnits (u2 :: r) = d :: t := by
      cases u2 <;> simp [renderUnits, LUnit.text]
    have htxt : renderUnits (.chr c :: u2 :: r) = c :: d :: t := by
      rw [renderUnits_cons, ht]; rfl
    rw [htxt] at hgo ⊢
    rw [strictGroup]
    · exact hgo
    · intro x heq; cases heq
    · intro rest heq
      simp only [List.cons.injEq] at heq
      exact hc.2.1 heq.1
  | .rng a b :: r, hs, _, hgo =>
    have ha : Plain a := (hs (.rng a b) (by simp)).1
    have htxt : renderUnits (.rng a b :: r) = a :: 45 :: (b :: renderUnits r) := by
      rw [renderUnits_cons]; rfl
    rw [htxt] at hgo ⊢
    rw [strictGroup]
    · exact hgo
    · intro x heq; cases heq
    · intro rest heq
      simp only [List.cons.injEq] at heq
      exact ha.2.1 heq.1

/-! ### the transcribed scanner raises -/

theorem parseSubset_error (body : List Ch) (h : strictGroup body = .error) : parseSubset body = none := by
  have := EPV.C13.subset_string_rejected body.toArray (by simpa using h)
  simp [parseSubset, this]

/-- `CharacterClass(charset)` on one backslash-free literal part the grammar rejects: `RegexError` -/
theorem mkClass_lit_error (T : MTables) (body : List Ch) (hne : body ≠ []) (h92 : ∀ c ∈ body, c ≠ 92)
    (h : strictGroup body = .error) : mkClass T body = none := by
  have hhead : body.head? ≠ some 92 := by
    cases body with
    | nil => simp
    | cons c r => simpa using h92 c List.mem_cons_self
  unfold mkClass
  rw [reSplit_plain body h92 _ (Nat.le_succ _) none none []]
  simp [addPart_plain T CC.new body hhead, parseSubset_error body h]

theorem units_nobr (us : List LUnit) (hs : ∀ u ∈ us, u.Shape) : ∀ c ∈ renderUnits us, NoBr c := by
  induction us with
  | nil => intro c hc; simp [renderUnits] at hc
  | cons u r ih =>
    intro c hc
    rw [renderUnits_cons, List.mem_append] at hc
    rcases hc with hc | hc
    · cases u with
      | chr d =>
        have hd : Plain d := hs (.chr d) (by simp)
        simp only [LUnit.text, List.mem_cons, List.not_mem_nil, or_false] at hc
        subst hc; exact ⟨hd.1, hd.2.2.1, hd.2.2.2⟩
      | rng a b =>
        obtain ⟨ha, hb⟩ : Plain a ∧ Plain b := hs (.rng a b) (by simp)
        simp only [LUnit.text, List.mem_cons, List.not_mem_nil, or_false] at hc
        rcases hc with rfl | rfl | rfl
        · exact ⟨ha.1, ha.2.2.1, ha.2.2.2⟩
        · exact ⟨by decide, by decide, by decide⟩
        · exact ⟨hb.1, hb.2.2.1, hb.2.2.2⟩
    · exact ih (fun d hd => hs d (List.mem_cons_of_mem _ hd)) c hc

/-- `parse_character_class` on `^`? body `]` … with a reversed range in the body: `None` for every fuel
(whichever of the hyphen checks / `CharacterClass(charset)` raises first) -/
theorem parseClassM_units_rev (T : MTables) (v10 ng : Bool) (us : List LUnit) (hs : ∀ u ∈ us, u.Shape)
    (hrev : us.all LUnit.ordered = false) (h0 : ng = false → (renderUnits us).head? ≠ some 94)
    (tail : List Ch) (F : Nat) :
    parseClassM T v10 F (caret ng ++ renderUnits us ++ 93 :: tail) = none := by
  have hne := renderUnits_ne_nil us (rev_ne_nil hrev)
  have hnb := units_nobr us hs
  have hmk := mkClass_lit_error T (renderUnits us) hne (fun c hc => (hnb c hc).1) (strictGroup_units_rev us hs hrev)
  generalize renderUnits us = body at *
  have hscan : scanGroup (body ++ 93 :: tail) [] = some (body, 93 :: tail) := by
    rw [scanGroup_lit body _ hnb (by simp) []]
    simp [scanGroup]
  match F with
  | 0 => rw [parseClassM]
  | F + 1 =>
    cases ng with
    | true =>
      simp only [caret, if_true, List.cons_append, List.nil_append]
      rw [parseClassM]
      simp [hscan, hmk]
    | false =>
      have hc94 : ∀ rest, body ++ 93 :: tail ≠ 94 :: rest := by
        intro rest heq
        cases body with
        | nil => exact absurd rfl hne
        | cons c r =>
          simp only [List.cons_append, List.cons.injEq] at heq
          exact (h0 rfl) (by simp [heq.1])
      simp only [caret, Bool.false_eq_true, if_false, List.nil_append]
      rw [parseClassM]
      case x_3 => intro rest heq; exact hc94 rest heq
      simp [hscan, hmk]

/-! ### the translator's hyphen checks never fire on a range body -/

theorem hDH_step (p : Option Ch) (c : Ch) (R : List Ch) (hc : c ≠ 45) :
    hasDoubleHyphen p (c :: R) = hasDoubleHyphen (some c) R := by
  rw [hasDoubleHyphen.eq_def]
  split
  · rename_i heq; cases heq; exact absurd rfl hc
  · rename_i heq; cases heq; rfl
  · rename_i heq; cases heq

theorem hDH_hyphen (p : Option Ch) (b : Ch) (R : List Ch) (hb : b ≠ 45) :
    hasDoubleHyphen p (45 :: b :: R) = hasDoubleHyphen (some 45) (b :: R) := by
  rw [hasDoubleHyphen.eq_def]
  split
  · rename_i heq; cases heq; exact absurd rfl hb
  · rename_i heq; cases heq; rfl
  · rename_i heq; cases heq

theorem units_noDoubleHyphen (us : List LUnit) (hs : ∀ u ∈ us, u.Shape) (p : Option Ch) :
    hasDoubleHyphen p (renderUnits us) = false := by
  induction us generalizing p with
  | nil => rfl
  | cons u r ih =>
    have hs' : ∀ d ∈ r, d.Shape := fun d hd => hs d (List.mem_cons_of_mem _ hd)
    rw [renderUnits_cons]
    cases u with
    | chr c =>
      have hc : Plain c := hs (.chr c) (by simp)
      simp only [LUnit.text, List.cons_append, List.nil_append]
      rw [hDH_step p c _ hc.2.1]; exact ih hs' _
    | rng a b =>
      obtain ⟨ha, hb⟩ : Plain a ∧ Plain b := hs (.rng a b) (by simp)
      simp only [LUnit.text, List.cons_append, List.nil_append]
      rw [hDH_step p a _ ha.2.1, hDH_hyphen _ b _ hb.2.1, hDH_step _ b _ hb.2.1]; exact ih hs' _

theorem hIH_step (c : Ch) (R : List Ch) (hR : R.head? ≠ some 45) :
    hasInvalidHyphen (c :: R) = hasInvalidHyphen R := by
  rw [hasInvalidHyphen.eq_def]
  split
  · rename_i heq; cases heq; simp at hR
  · rename_i heq; cases heq; rfl
  · rename_i heq; cases heq

theorem hIH_rng (a b : Ch) (R : List Ch) (hR : R.head? ≠ some 45) :
    hasInvalidHyphen (a :: 45 :: b :: R) = hasInvalidHyphen (45 :: b :: R) := by
  rw [hasInvalidHyphen.eq_def]
  split
  · rename_i heq; cases heq; simp at hR
  · rename_i heq; cases heq; rfl
  · rename_i heq; cases heq

theorem units_noInvalidHyphen (us : List LUnit) (hs : ∀ u ∈ us, u.Shape) :
    hasInvalidHyphen (renderUnits us) = false := by
  induction us with
  | nil => rfl
  | cons u r ih =>
    have hs' : ∀ d ∈ r, d.Shape := fun d hd => hs d (List.mem_cons_of_mem _ hd)
    have hR := shape_head r hs' [] (by simp)
    simp only [List.append_nil] at hR
    rw [renderUnits_cons]
    cases u with
    | chr c =>
      simp only [LUnit.text, List.cons_append, List.nil_append]
      rw [hIH_step c _ hR]; exact ih hs'
    | rng a b =>
      obtain ⟨ha, hb⟩ : Plain a ∧ Plain b := hs (.rng a b) (by simp)
      simp only [LUnit.text, List.cons_append, List.nil_append]
      rw [hIH_rng a b _ hR, hIH_step 45 (b :: _) (by simpa using hb.2.1), hIH_step b _ hR]; exact ih hs'

/-- `--` and (XSD 1.0) `x-y-z` do not occur in a range body: the translator's own checks pass -/
theorem units_translatorChecks (v10 : Bool) (us : List LUnit) (hs : ∀ u ∈ us, u.Shape) :
    translatorChecks v10 (renderUnits us) = true := by
  simp [translatorChecks, units_noDoubleHyphen us hs none, units_noInvalidHyphen us hs]

/-! ### the decision procedure reads the rendered text back -/

theorem plainB_of {c : Ch} (h : Plain c) : plainB c = true := by
  obtain ⟨h1, h2, h3, h4⟩ := h
  simp [plainB, h1, h2, h3, h4]

theorem rangeBody_chr (c : Ch) (R : List Ch) (hc : Plain c) (hR : R.head? ≠ some 45) :
    rangeBody (c :: R) = rangeBody R := by
  match R, hR with
  | [], _ => simp [rangeBody, plainB_of hc]
  | [h], _ => simp [rangeBody, plainB_of hc]
  | h :: b :: rest, hR =>
    have : h ≠ 45 := by simpa using hR
    simp [rangeBody, plainB_of hc, this]

theorem rangeBody_rng (a b : Ch) (R : List Ch) (ha : Plain a) (hb : Plain b) :
    rangeBody (a :: 45 :: b :: R) = (rangeBody R).map (fun ok => decide (a ≤ b) && ok) := by
  simp [rangeBody, plainB_of ha, plainB_of hb]

theorem rangeBody_units (us : List LUnit) (hs : ∀ u ∈ us, u.Shape) :
    rangeBody (renderUnits us) = some (us.all LUnit.ordered) := by
  induction us with
  | nil => simp [renderUnits, rangeBody]
  | cons u r ih =>
    have hs' : ∀ d ∈ r, d.Shape := fun d hd => hs d (List.mem_cons_of_mem _ hd)
    have hR := shape_head r hs' [] (by simp)
    simp only [List.append_nil] at hR
    rw [renderUnits_cons]
    cases u with
    | chr c =>
      simp only [LUnit.text, List.cons_append, List.nil_append]
      rw [rangeBody_chr c _ (hs (.chr c) (by simp)) hR, ih hs']
      simp [LUnit.ordered]
    | rng a b =>
      obtain ⟨ha, hb⟩ : Plain a ∧ Plain b := hs (.rng a b) (by simp)
      simp only [LUnit.text, List.cons_append, List.nil_append]
      rw [rangeBody_rng a b _ ha hb, ih hs']
      simp [LUnit.ordered]

/-- the verdict the driver prints for `^`? body `]` is "every range is ordered", with the negation flag -/
theorem rangeClassVerdict_units (ng : Bool) (us : List LUnit) (hne : us ≠ []) (hs : ∀ u ∈ us, u.Shape)
    (h0 : ng = false → (renderUnits us).head? ≠ some 94) :
    rangeClassVerdict (caret ng ++ renderUnits us ++ [93]) =
      (if us.all LUnit.ordered then RBVerdict.ok else RBVerdict.reversed, ng) := by
  have hb := rangeBody_units us hs
  have hbne := renderUnits_ne_nil us hne
  generalize renderUnits us = body at *
  have hlast : (body ++ [93]).getLast? = some 93 := by simp
  have hdrop : (body ++ [93]).dropLast = body := by simp
  have hemp : body.isEmpty = false := by
    cases body with
    | nil => exact absurd rfl hbne
    | cons _ _ => rfl
  cases ng with
  | true =>
    simp only [caret, if_true, List.cons_append, List.nil_append]
    unfold rangeClassVerdict
    simp only [stripCaret, hlast, hdrop, hemp, hb]
    cases us.all LUnit.ordered <;> simp
  | false =>
    have hsc : stripCaret (body ++ [93]) = (false, body ++ [93]) := by
      unfold stripCaret
      split
      · rename_i rest heq
        cases body with
        | nil => exact absurd rfl hbne
        | cons c r =>
          simp only [List.cons_append, List.cons.injEq] at heq
          exact absurd (by simp [heq.1]) (h0 rfl)
      · rfl
    simp only [caret, Bool.false_eq_true, if_false, List.nil_append]
    unfold rangeClassVerdict
    simp only [hsc, hlast, hdrop, hemp, hb]
    cases us.all LUnit.ordered <;> simp

end EPV.Regex

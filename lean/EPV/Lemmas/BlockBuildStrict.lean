/-
C13 extension — a continuation-passing mirror of `EPV.BlockBuild.blocksFor` / `view` that forces every
intermediate list before it is used, proved EQUAL to the model for all inputs.  Its only purpose is to
let the kernel evaluate the derivation on the generated tables in linear instead of cubic time
(the kernel's evaluation is lazy; the model's `foldl`s build chains of suspended `dictSet`s).
-/
import EPV.Model.BlockBuild
namespace EPV.BlockBuild
open EPV.USet

def forceL {α β} : List α → (List α → β) → β
  | [], k => k []
  | x :: xs, k => forceL xs (fun t => k (x :: t))

theorem forceL_eq {α β} (l : List α) (k : List α → β) : forceL l k = k l := by
  induction l generalizing k with
  | nil => rfl
  | cons x xs ih => simp [forceL, ih]

def foldlS {α β γ} (f : List γ → α → List γ) : List γ → List α → (List γ → β) → β
  | acc, [], k => k acc
  | acc, x :: xs, k => forceL (f acc x) (fun acc' => foldlS f acc' xs k)

theorem foldlS_eq {α β γ} (f : List γ → α → List γ) (acc : List γ) (l : List α) (k : List γ → β) :
    foldlS f acc l k = k (l.foldl f acc) := by
  induction l generalizing acc with
  | nil => rfl
  | cons x xs ih => simp [foldlS, forceL_eq, ih]

def applyItemsS {β} (v : List Nat) : List Item → Dict (List CP) → List Nat → (Acc → β) → β
  | [], b, s, k => k ⟨b, s⟩
  | .upd ver u :: r, b, s, k =>
      if verLt v ver then k ⟨b, s⟩
      else foldlS (fun d kv => dictSet d kv.1 kv.2) b u (fun b' => applyItemsS v r b' s k)
  | .rem ver ns :: r, b, s, k =>
      if verLt v ver then k ⟨b, s⟩ else forceL (s ++ ns) (fun s' => applyItemsS v r b s' k)

theorem applyItemsS_eq {β} (v : List Nat) (items : List Item) (b : Dict (List CP)) (s : List Nat)
    (k : Acc → β) : applyItemsS v items b s k = k (applyItems v items ⟨b, s⟩) := by
  induction items generalizing b s with
  | nil => rfl
  | cons it r ih =>
    cases it with
    | upd ver u =>
      simp only [applyItemsS, applyItems]
      split
      · rfl
      · simp [foldlS_eq, ih, dictUpdate]
    | rem ver ns =>
      simp only [applyItemsS, applyItems]
      split
      · rfl
      · simp [forceL_eq, ih]

def viewS (K : Keys) (b : Dict (List CP)) (s : List Nat) : List (Nat × Option (List CP)) :=
  foldlS (fun d kv => dictSet d (K.strip kv.1) kv.2) [] b fun bl =>
  foldlS (fun d kv => if s.contains kv.1 then d else dictSet d (K.norm kv.1) kv.1) [] b fun ub =>
  forceL (ub.map (·.2)) fun ns =>
  foldlS (fun acc x => insertSorted x acc) [] ns fun srt =>
  srt.map fun n => (n, dictGet bl (K.strip n))

theorem viewS_eq (K : Keys) (a : Acc) : viewS K a.blocks a.superseded = view K a := by
  simp [viewS, view, foldlS_eq, forceL_eq, mkBlocks, mkUnicodeBlocks, sortNat]

/-- the strict evaluation path of `view K (blocksFor base items v)` -/
def derivedS (K : Keys) (base : Dict (List CP)) (items : List Item) (v : List Nat) :=
  applyItemsS v items base [] (fun a => viewS K a.blocks a.superseded)

theorem derivedS_eq (K : Keys) (base : Dict (List CP)) (items : List Item) (v : List Nat) :
    derivedS K base items v = view K (blocksFor base items v) := by
  simp [derivedS, applyItemsS_eq, viewS_eq, blocksFor]

end EPV.BlockBuild

/-
C07 — the parser's default collation: the code's operator wrapper (`collation_operator`) against the
specification's "string comparisons use the default collation" (XPath 3.1 §3.7.1, F&O §5.3).
Everything proved for the codepoint collation transfers: non-string pairs are untouched, string pairs
are compared on their collation keys.
-/
import EPV.Lemmas.CompareContext
set_option linter.unusedSimpArgs false
set_option linter.unusedVariables false
namespace EPV.Cmp
open EPV.CmpSpec EPV.CmpFind

theorem collFold_eq (c : Coll) (s : Str) : collFold c s = collKeyL c s := by
  cases c <;> simp [collFold, collKeyL, EPV.Seq.asciiLower]

/-! ### the codepoint collation: nothing changes -/

theorem pyOpC_codepoint (m : Mode) (op : Op) : pyOpC .codepoint m op = pyOp m op := by
  funext x y; simp [pyOpC]

theorem pairGeneralC_codepoint (itz : Option Int) (m : Mode) (op : Op) :
    pairGeneralC .codepoint itz m op = pairGeneralCtx itz m op := by
  funext a b; simp [pairGeneralC, pairGeneralCtx, pairGeneral, pyOpC_codepoint]

theorem generalCmpC_codepoint (itz : Option Int) (m : Mode) (op : Op) (L Rr : List Item) :
    generalCmpC .codepoint itz m op L Rr = generalCmpCtx itz m op L Rr := by
  simp [generalCmpC, generalCmpCtx, pairGeneralC_codepoint]

theorem valuePairC_codepoint (itz : Option Int) (m : Mode) (op : Op) :
    valuePairC .codepoint itz m op = valuePairCtx itz m op := by
  funext a b; simp [valuePairC, valuePairCtx, valuePair, pyOpC_codepoint]

theorem valueCmpC_codepoint (itz : Option Int) (m : Mode) (op : Op) (L Rr : List Item) :
    valueCmpC .codepoint itz m op L Rr = valueCmpCtx itz m op L Rr := by
  simp [valueCmpC, valueCmpCtx, valuePairC_codepoint]

theorem collLtS_codepoint : collLtS .codepoint = strLtS := by
  funext s t; rfl

theorem collEqS_codepoint : collEqS .codepoint = strEqS := by
  funext s t; rfl

theorem valueOpC_codepoint (bo : Bool) (op : Op) (a b : Atom) : valueOpC .codepoint bo op a b = valueOp bo op a b := by
  cases a <;> cases b <;> simp [valueOpC, valueOp, numRank, collLtS_codepoint, collEqS_codepoint]

theorem pairSpecC_codepoint (m : Mode) (op : Op) (a b : Atom) : pairSpecC .codepoint m op a b = pairSpec m op a b := by
  cases a <;> cases b <;> simp [pairSpecC, pairSpec, castThen, valueOpC_codepoint]

/-! ### non-string pairs are left to the operator -/

theorem pyOpC_nonstr (c : Coll) (m : Mode) (op : Op) (x y : Atom) (h : (isStrLike3 x && isStrLike3 y) = false) :
    pyOpC c m op x y = pyOp m op x y := by
  cases x <;> cases y <;> simp [isStrLike3] at h <;> simp [pyOpC, strVal]

theorem qnMake_isqn {m : Mode} {s : Str} {q : Atom} (h : qnMake m s = .ok q) : isStrLike3 q = false := by
  unfold qnMake at h
  split at h
  · split at h
    · cases h; rfl
    · cases h
  · cases h

/-- the conversions of iter_comparison_data keep string-like pairs string-like and the others not -/
def strlikeKept (m : Mode) (a b : Atom) : Bool :=
  match iterMatch m a b with
  | .ok (x, y) => (isStrLike3 x && isStrLike3 y) == (isStrLike3 a && isStrLike3 b)
  | .error _ => true

theorem strlikeKept_all (m : Mode) (a b : Atom) : strlikeKept m a b = true := by
  cases a <;> cases b <;>
    simp [strlikeKept, iterMatch, isStr, isQN, isUri, isBoolA, isInteger, isStrLike3]
  case uri.ua s t => cases strToUri t <;> simp
  case qn.ua ns pre loc t =>
    cases hq : qnMake m t with
    | error e => simp
    | ok q => simp [qnMake_isqn hq]
  case ua.qn t ns pre loc =>
    cases hq : qnMake m t with
    | error e => simp
    | ok q => simp [qnMake_isqn hq]

theorem iterCheck_ok {m : Mode} {op : Op} {a b : Atom} {p : Atom × Atom} (h : iterCheck m op a b = .ok p) :
    iterMatch m a b = .ok p := by
  unfold iterCheck at h
  split at h
  · cases h
  · split at h
    · cases h; assumption
    · cases h

theorem pgC_nonstr (c : Coll) (m : Mode) (op : Op) (a b : Atom) (hn : (isStrLike3 a && isStrLike3 b) = false) :
    pairGeneralWith (pyOpC c m op) m op a b = pairGeneral m op a b := by
  unfold pairGeneral pairGeneralWith
  cases h : iterCheck m op a b with
  | error e => rfl
  | ok p =>
    obtain ⟨x, y⟩ := p
    have hk := strlikeKept_all m a b
    simp only [strlikeKept, iterCheck_ok h, hn, beq_iff_eq] at hk
    simp only [pyOpC_nonstr c m op x y hk]

theorem valueOpC_nonstr_right (c : Coll) (bo : Bool) (op : Op) (a b : Atom) (hb : isStr b = false) (hu : isUri b = false) :
    valueOpC c bo op a b = valueOp bo op a b := by
  cases a <;> cases b <;> simp [isStr, isUri] at hb hu <;> simp [valueOpC]

theorem valueOpC_nonstr_left (c : Coll) (bo : Bool) (op : Op) (a b : Atom) (ha : isStr a = false) (hu : isUri a = false) :
    valueOpC c bo op a b = valueOp bo op a b := by
  cases a <;> cases b <;> simp [isStr, isUri] at ha hu <;> simp [valueOpC]

theorem pairSpecC_nonstr (c : Coll) (m : Mode) (op : Op) (a b : Atom) (hn : (isStrLike3 a && isStrLike3 b) = false) :
    pairSpecC c m op a b = pairSpec m op a b := by
  cases a <;> cases b <;> simp [isStrLike3] at hn <;>
    simp only [pairSpecC, pairSpec, castThen] <;>
    first
    | rfl
    | (rw [valueOpC_nonstr_right c _ op _ _ rfl rfl])
    | (rw [valueOpC_nonstr_left c _ op _ _ rfl rfl])
    | (split <;> first | rfl | (rw [valueOpC_nonstr_right c _ op _ _ rfl rfl]) | (rw [valueOpC_nonstr_left c _ op _ _ rfl rfl]))

/-! ### string pairs are compared on their collation keys -/

theorem sCmp_coll (c : Coll) (op : Op) (s t : Str) :
    sCmp op (collKeyL c s) (collKeyL c t) = six (collLtS c) (collEqS c) op s t := by
  cases op <;> simp [sCmp, cmpBy_eq_six, six, collLtS, collEqS, collFold_eq, strLt] <;> grind

/-- string-like pairs under any collation: the code compares what the specification compares -/
theorem pgC_str (c : Coll) (m : Mode) (op : Op) (a b : Atom) (hs : (isStrLike3 a && isStrLike3 b) = true)
    (h6 : pairGeneral m op a b ≠ .error .unsupported) :
    pairGeneralWith (pyOpC c m op) m op a b = pairSpecC c m op a b := by
  cases c with
  | codepoint =>
    rw [pyOpC_codepoint, pairSpecC_codepoint]
    show pairGeneral m op a b = pairSpec m op a b
    cases a <;> cases b <;> simp [isStrLike3] at hs
    case str.str s t => exact (pg_str_str m op s t).1
    case str.uri s t => exact (pg_str_str m op s t).2.1
    case uri.str s t => exact (pg_str_str m op s t).2.2.1
    case uri.uri s t => exact (pg_str_str m op s t).2.2.2.1
    case str.ua s t => exact (pg_str_str m op s t).2.2.2.2.1
    case ua.str s t => exact (pg_str_str m op s t).2.2.2.2.2
    case ua.ua s t => exact pg_ua_ua m op s t
    case ua.uri s t => exact pg_ua_uri m op s t h6
    case uri.ua s t => exact pg_uri_ua m op s t h6
  | asciiCI =>
    cases a <;> cases b <;> simp [isStrLike3] at hs
    case ua.uri s t =>
      rcases strToUri_cases s with h | ⟨h, hw⟩
      · exact absurd (by gp_simp; simp [h]) h6
      · simp [pairGeneralWith, iterCheck, iterMatch, categoryOK, pyOpC, strVal, liftPy, pairSpecC, castUntyped,
          valueOpC, h, hw, sCmp_coll]
    case uri.ua s t =>
      rcases strToUri_cases t with h | ⟨h, hw⟩
      · exact absurd (by gp_simp; simp [h]) h6
      · simp [pairGeneralWith, iterCheck, iterMatch, categoryOK, cmpCategory, kindName, Atom.isDur, pyOpC, strVal,
          liftPy, pairSpecC, castUntyped, valueOpC, h, hw, sCmp_coll]
    all_goals
      simp [pairGeneralWith, iterCheck, iterMatch, categoryOK, cmpCategory, kindName, Atom.isDur, isStrLike3, pyOpC, strVal,
        liftPy, pairSpecC, castUntyped, valueOpC, sCmp_coll]

/-- TRANSFER: if a pair conforms under the codepoint collation it conforms under every collation -/
theorem pairGeneralC_conforms (c : Coll) (m : Mode) (op : Op) (a b : Atom)
    (h : pairGeneral m op a b = pairSpec m op a b) (h6 : pairGeneral m op a b ≠ .error .unsupported) :
    pairGeneralWith (pyOpC c m op) m op a b = pairSpecC c m op a b := by
  by_cases hs : (isStrLike3 a && isStrLike3 b) = true
  · exact pgC_str c m op a b hs h6
  · have hn : (isStrLike3 a && isStrLike3 b) = false := by simpa using hs
    rw [pgC_nonstr c m op a b hn, pairSpecC_nonstr c m op a b hn, h]

/-- a pair inside the lexical fragment under the codepoint collation is inside it under every collation -/
theorem pgC_ne_unsupported (c : Coll) (m : Mode) (op : Op) (a b : Atom)
    (h6 : pairGeneral m op a b ≠ .error .unsupported) :
    pairGeneralWith (pyOpC c m op) m op a b ≠ .error .unsupported := by
  by_cases hs : (isStrLike3 a && isStrLike3 b) = true
  · cases c with
    | codepoint => rw [pyOpC_codepoint]; exact h6
    | asciiCI =>
      cases a <;> cases b <;> simp [isStrLike3] at hs
      case ua.uri s t =>
        rcases strToUri_cases s with h | ⟨h, hw⟩
        · exact absurd (by gp_simp; simp [h]) h6
        · simp [pairGeneralWith, iterCheck, iterMatch, categoryOK, pyOpC, strVal, liftPy, h]
      case uri.ua s t =>
        rcases strToUri_cases t with h | ⟨h, hw⟩
        · exact absurd (by gp_simp; simp [h]) h6
        · simp [pairGeneralWith, iterCheck, iterMatch, categoryOK, cmpCategory, kindName, Atom.isDur, pyOpC, strVal,
            liftPy, h]
      all_goals
        simp [pairGeneralWith, iterCheck, iterMatch, categoryOK, cmpCategory, kindName, Atom.isDur, isStrLike3, pyOpC,
          strVal, liftPy]
  · have hn : (isStrLike3 a && isStrLike3 b) = false := by simpa using hs
    rw [pgC_nonstr c m op a b hn]; exact h6

/-! ### value comparison -/

set_option maxHeartbeats 1000000 in
theorem vpC_nonstr (c : Coll) (m : Mode) (op : Op) (a b : Atom) (hn : (isStrLike3 a && isStrLike3 b) = false) :
    valuePairWith (pyOpC c m op) op a b = valuePair m op a b := by
  cases a <;> cases b <;> simp [isStrLike3] at hn <;>
    simp [valuePair, valuePairWith, Atom.cls, Atom.isFloatCls, isBoolA, isIntDec, isStrLike3, isNumCls, Atom.isDur,
      getDouble, pyOpC, strVal]

theorem valueOpC_nonstr (c : Coll) (bo : Bool) (op : Op) (a b : Atom) (hn : (isStrLike3 a && isStrLike3 b) = false) :
    valueOpC c bo op a b = valueOp bo op a b := by
  cases a <;> cases b <;> simp [isStrLike3] at hn <;> simp [valueOpC]

/-- TRANSFER for the value comparison of two atoms (untypedAtomic already a string) -/
theorem valuePairC_conforms (c : Coll) (m : Mode) (op : Op) (a b : Atom)
    (hua : isUA a = false) (hub : isUA b = false)
    (h : valuePair m op a b = valueOp (binOrdered m) op a b) :
    valuePairWith (pyOpC c m op) op a b = valueOpC c (binOrdered m) op a b := by
  by_cases hs : (isStrLike3 a && isStrLike3 b) = true
  · cases c with
    | codepoint =>
      rw [pyOpC_codepoint, valueOpC_codepoint]; exact h
    | asciiCI =>
      cases a <;> cases b <;> simp [isStrLike3] at hs <;> simp [isUA] at hua hub <;>
        simp [valuePairWith, Atom.cls, Atom.isFloatCls, isBoolA, isIntDec, isStrLike3, pyOpC, strVal, liftPy, valueOpC,
          sCmp_coll]
  · have hn : (isStrLike3 a && isStrLike3 b) = false := by simpa using hs
    rw [vpC_nonstr c m op a b hn, valueOpC_nonstr c _ op a b hn, h]

/-! ### implicit timezone and sequences -/

theorem isStrLike3_fillTz (itz : Option Int) (a : Atom) : isStrLike3 (a.fillTz itz) = isStrLike3 a := by
  cases a <;> rfl

theorem fillTz_strlike (itz : Option Int) (a : Atom) (h : isStrLike3 a = true) : a.fillTz itz = a := by
  cases a <;> simp [isStrLike3] at h <;> rfl

theorem fillPair_strlike (itz : Option Int) (a b : Atom) :
    (isStrLike3 (fillPair itz a b).1 && isStrLike3 (fillPair itz a b).2) = (isStrLike3 a && isStrLike3 b) := by
  unfold fillPair; split <;> simp [isStrLike3_fillTz]

/-- the pair-by-pair filling of the code and the all-values filling of the specification coincide under
every collation -/
theorem pairGeneralC_fill (c : Coll) (itz : Option Int) (m : Mode) (op : Op) (a b : Atom) :
    pairGeneralC c itz m op a b = pairGeneralWith (pyOpC c m op) m op (a.fillTz itz) (b.fillTz itz) := by
  unfold pairGeneralC
  by_cases hs : (isStrLike3 a && isStrLike3 b) = true
  · have ha : isStrLike3 a = true := by simp at hs; exact hs.1
    have hb : isStrLike3 b = true := by simp at hs; exact hs.2
    have hf : fillPair itz a b = (a, b) := by
      unfold fillPair
      cases a <;> simp [isStrLike3] at ha <;> simp [Atom.isDT]
    rw [hf, fillTz_strlike itz a ha, fillTz_strlike itz b hb]
  · have hn : (isStrLike3 a && isStrLike3 b) = false := by simpa using hs
    rw [pgC_nonstr c m op _ _ (by rw [fillPair_strlike]; exact hn),
      pgC_nonstr c m op _ _ (by rw [isStrLike3_fillTz, isStrLike3_fillTz]; exact hn)]
    exact pairGeneral_fill_insens itz m op a b

theorem valuePairC_fill (c : Coll) (itz : Option Int) (m : Mode) (op : Op) (a b : Atom) :
    valuePairC c itz m op a b = valuePairWith (pyOpC c m op) op (a.fillTz itz) (b.fillTz itz) := by
  unfold valuePairC
  by_cases hs : (isStrLike3 a && isStrLike3 b) = true
  · have ha : isStrLike3 a = true := by simp at hs; exact hs.1
    have hb : isStrLike3 b = true := by simp at hs; exact hs.2
    have hf : fillPair itz a b = (a, b) := by
      unfold fillPair
      cases a <;> simp [isStrLike3] at ha <;> simp [Atom.isDT]
    rw [hf, fillTz_strlike itz a ha, fillTz_strlike itz b hb]
  · have hn : (isStrLike3 a && isStrLike3 b) = false := by simpa using hs
    rw [vpC_nonstr c m op _ _ (by rw [fillPair_strlike]; exact hn),
      vpC_nonstr c m op _ _ (by rw [isStrLike3_fillTz, isStrLike3_fillTz]; exact hn)]
    exact valuePair_fill_insens itz m op a b

/-- general comparison under collation `c` and implicit timezone `itz`, without compatibility mode: the
`any` loop over the product of the filled operands -/
theorem generalCmpC_eq_any (c : Coll) (itz : Option Int) (m : Mode) (op : Op) (L Rr : List Item) (hm : m.compat = false) :
    generalCmpC c itz m op L Rr =
      anyPairs (pairGeneralWith (pyOpC c m op) m op)
        (product ((L.map (withImplicitTz itz)).map (atomize m)) ((Rr.map (withImplicitTz itz)).map (atomize m))) := by
  have hl : ∀ X : List Item, (X.map (withImplicitTz itz)).map (atomize m) = (X.map (atomize m)).map (Atom.fillTz itz) := by
    intro X
    simp only [List.map_map]
    apply List.map_congr_left
    intro x _
    simpa using atomize_withImplicitTz itz m x
  simp only [generalCmpC, generalCmpWith, hm, Bool.false_eq_true, if_false, hl]
  rw [product_map, anyPairs_map]
  congr 1
  funext a b
  exact pairGeneralC_fill c itz m op a b

end EPV.Cmp

/-
Helper lemmas for C06, rounding part: `Decimal.quantize` on sign/magnitude (`roundMag`, `quantMag`)
against the floor-based definitions of F&O (fn:round = ⌊x·10^p + 1/2⌋ / 10^p, round-half-to-even).
-/
import EPV.Lemmas.ArithDec
open EPV.FOArith
namespace EPV.Arith

theorem floor_intdiv (n : Int) (d : Nat) : ((n : Rat) / (d : Rat)).floor = n / (d : Int) :=
  Rat.floor_intCast_div_natCast n d

theorem floor_half_up (N D : Nat) (hD : 0 < D) :
    ((N : Rat) / (D : Rat) + 1 / 2).floor = (2 * (N : Int) + D) / (2 * (D : Int)) := by
  have hDq : (D : Rat) ≠ 0 := by exact_mod_cast (by omega : D ≠ 0)
  have : (N : Rat) / (D : Rat) + 1 / 2 = (((2 * (N : Int) + D : Int)) : Rat) / (((2 * D : Nat)) : Rat) := by
    push_cast; field_simp
  rw [this, floor_intdiv]; push_cast; rfl

theorem floor_half_down (N D : Nat) (hD : 0 < D) :
    (-((N : Rat) / (D : Rat)) + 1 / 2).floor = ((D : Int) - 2 * (N : Int)) / (2 * (D : Int)) := by
  have hDq : (D : Rat) ≠ 0 := by exact_mod_cast (by omega : D ≠ 0)
  have : -((N : Rat) / (D : Rat)) + 1 / 2 = ((((D : Int) - 2 * (N : Int) : Int)) : Rat) / (((2 * D : Nat)) : Rat) := by
    push_cast; field_simp; ring
  rw [this, floor_intdiv]; push_cast; rfl

theorem ediv_eq_of_bounds (a n k : Int) (hn : 0 < n) (h1 : k * n ≤ a) (h2 : a < (k + 1) * n) : a / n = k := by
  have l := (Int.le_ediv_iff_mul_le hn).2 h1
  have u := (Int.ediv_lt_iff_lt_mul hn).2 h2
  omega

theorem roundMag_halfUp (N D : Nat) (hD : 0 < D) :
    (roundMag .halfUp N D : Int) = (2 * (N : Int) + D) / (2 * (D : Int)) := by
  have hdm := Nat.div_add_mod N D
  have hlt := Nat.mod_lt N hD
  symm
  apply ediv_eq_of_bounds _ _ _ (by omega)
  all_goals
    unfold roundMag
    simp only []
    generalize hq : N / D = q at *
    generalize hr : N % D = r at *
    have e : ((D * q : Nat) : Int) = (D : Int) * q := by push_cast; rfl
    have hN : (N : Int) = (D : Int) * q + r := by rw [← e]; exact_mod_cast hdm.symm
    split
    · push_cast; nlinarith
    · split
      · push_cast; nlinarith
      · push_cast; nlinarith

theorem roundMag_halfDown (N D : Nat) (hD : 0 < D) :
    -(roundMag .halfDown N D : Int) = ((D : Int) - 2 * (N : Int)) / (2 * (D : Int)) := by
  have hdm := Nat.div_add_mod N D
  have hlt := Nat.mod_lt N hD
  symm
  apply ediv_eq_of_bounds _ _ _ (by omega)
  all_goals
    unfold roundMag
    simp only []
    generalize hq : N / D = q at *
    generalize hr : N % D = r at *
    have e : ((D * q : Nat) : Int) = (D : Int) * q := by push_cast; rfl
    have hN : (N : Int) = (D : Int) * q + r := by rw [← e]; exact_mod_cast hdm.symm
    split
    · push_cast; nlinarith
    · split
      · push_cast; nlinarith
      · push_cast; nlinarith

theorem roundMag_halfEven (N D : Nat) (hD : 0 < D) :
    (roundMag .halfEven N D : Int) = nearestEven ((N : Rat) / (D : Rat)) := by
  have hdm := Nat.div_add_mod N D
  have hlt := Nat.mod_lt N hD
  have hDq : (0 : Rat) < (D : Rat) := by exact_mod_cast hD
  unfold nearestEven roundMag
  have hf : ((N : Rat) / (D : Rat)).floor = ((N / D : Nat) : Int) := by
    have := floor_intdiv (N : Int) D
    simpa using this
  simp only [hf]
  have hr : (N : Rat) / (D : Rat) - (((N / D : Nat) : Int) : Rat) = ((N % D : Nat) : Rat) / (D : Rat) := by
    have e : (((N / D : Nat) : Int) : Rat) = ((N / D : Nat) : Rat) := Int.cast_natCast _
    rw [e]
    have : (N : Rat) = (D : Rat) * ((N / D : Nat) : Rat) + ((N % D : Nat) : Rat) := by exact_mod_cast hdm.symm
    generalize ((N / D : Nat) : Rat) = q at *
    generalize ((N % D : Nat) : Rat) = r at *
    rw [this]; field_simp; ring
  rw [hr]
  have c1 : ((N % D : Nat) : Rat) / (D : Rat) < 1 / 2 ↔ 2 * (N % D) < D := by
    rw [div_lt_div_iff₀ hDq (by norm_num)]
    constructor
    · intro h; have : ((2 * (N % D) : Nat) : Rat) < (D : Rat) := by push_cast; linarith
      exact_mod_cast this
    · intro h; have : ((2 * (N % D) : Nat) : Rat) < (D : Rat) := by exact_mod_cast h
      push_cast at this; linarith
  have c2 : 1 / 2 < ((N % D : Nat) : Rat) / (D : Rat) ↔ D < 2 * (N % D) := by
    rw [div_lt_div_iff₀ (by norm_num) hDq]
    constructor
    · intro h; have : (D : Rat) < ((2 * (N % D) : Nat) : Rat) := by push_cast; linarith
      exact_mod_cast this
    · intro h; have : (D : Rat) < ((2 * (N % D) : Nat) : Rat) := by exact_mod_cast h
      push_cast at this; linarith
  simp only [c1, c2]
  split
  · rfl
  · split
    · push_cast; rfl
    · have : (((N / D : Nat) : Int) % 2 = 0) ↔ ((N / D) % 2 = 0) := by omega
      simp only [this]
      split <;> simp


theorem pow10_nonneg_eq (p : Int) (hp : 0 ≤ p) : pow10 p = ((p10 p.toNat : Nat) : Rat) := by
  unfold pow10
  rw [p10_cast]
  conv => lhs; rw [← Int.toNat_of_nonneg hp]
  exact zpow_natCast 10 p.toNat

theorem pow10_neg_eq (p : Int) (hp : p < 0) : pow10 p = 1 / ((p10 (-p).toNat : Nat) : Rat) := by
  unfold pow10
  rw [p10_cast]
  have : p = -(((-p).toNat : Nat) : Int) := by omega
  conv => lhs; rw [this]
  rw [zpow_neg, zpow_natCast]; simp

theorem pow10_pos (p : Int) : 0 < pow10 p := by unfold pow10; exact zpow_pos (by norm_num) p

theorem absq_num_div (x : Rat) (hx : 0 ≤ x) : ((x.num.natAbs : Nat) : Rat) / (x.den : Rat) = x := by
  have h : (0 : Int) ≤ x.num := Rat.num_nonneg.2 hx
  obtain ⟨k, hk⟩ := Int.eq_ofNat_of_zero_le h
  have e : x.num.natAbs = k := by omega
  have : ((x.num.natAbs : Nat) : Rat) = (x.num : Rat) := by rw [e, hk]; simp
  rw [this]; exact Rat.num_div_den x

theorem quantMag_spec (m : Mode) (x : Rat) (p : Int) :
    ∃ N D : Nat, 0 < D ∧ quantMag m x p = roundMag m N D ∧
      (N : Rat) / (D : Rat) = (if x < 0 then -x else x) * pow10 p := by
  have ha : 0 ≤ (if x < 0 then -x else x) := by split <;> linarith
  unfold quantMag
  simp only []
  generalize (if x < 0 then -x else x) = a at *
  by_cases hp : 0 ≤ p
  · refine ⟨a.num.natAbs * p10 p.toNat, a.den, a.den_pos, ?_, ?_⟩
    · simp [hp]
    · rw [pow10_nonneg_eq p hp]; push_cast
      rw [mul_div_right_comm, absq_num_div a ha]
  · have hp' : p < 0 := by omega
    refine ⟨a.num.natAbs, a.den * p10 (-p).toNat, Nat.mul_pos a.den_pos (p10_pos _), ?_, ?_⟩
    · simp [hp]
    · rw [pow10_neg_eq p hp']; push_cast
      have h10 := p10_castR_pos (-p).toNat
      rw [p10_cast] at h10
      rw [← absq_num_div a ha]
      have hd : (a.den : Rat) ≠ 0 := by exact_mod_cast a.den_nz
      rw [absq_num_div a ha]
      conv => rhs; rw [← absq_num_div a ha]
      field_simp

theorem unscale_eq (neg : Bool) (c : Nat) (p : Int) :
    unscale neg c p = (if neg then -(c : Rat) else (c : Rat)) / pow10 p := by
  unfold unscale
  by_cases hp : 0 ≤ p
  · simp only [hp, if_true]
    rw [pow10_nonneg_eq p hp]
    cases neg <;> simp [neg_div]
  · simp only [hp, if_false]
    rw [pow10_neg_eq p (by omega)]
    cases neg <;> simp

/-- fn:round as the code computes it (quantize, ROUND_HALF_UP for positive numbers, ROUND_HALF_DOWN
otherwise, on sign and magnitude) is ⌊x·10^p + 1/2⌋ / 10^p -/
theorem quantize_round_eq (x : Rat) (p : Int) :
    unscale (decide (x < 0)) (quantMag (if x > 0 then .halfUp else .halfDown) x p) p = roundHalfUp x p := by
  rw [unscale_eq]
  unfold roundHalfUp
  congr 1
  obtain ⟨N, D, hD, hq, hv⟩ := quantMag_spec (if x > 0 then Mode.halfUp else Mode.halfDown) x p
  rw [hq]
  by_cases hx : x > 0
  · have hn : ¬ x < 0 := by linarith
    simp only [hx, hn, if_true, if_false, decide_false] at hv ⊢
    have h1 := roundMag_halfUp N D hD
    have h2 := floor_half_up N D hD
    rw [hv] at h2
    rw [h2, ← h1]; simp
  · simp only [hx, if_false] at hv ⊢
    have h1 := roundMag_halfDown N D hD
    have h2 := floor_half_down N D hD
    by_cases hn : x < 0
    · simp only [hn, if_true, decide_true] at hv ⊢
      rw [hv] at h2
      have : -(-x * pow10 p) = x * pow10 p := by ring
      rw [this] at h2
      rw [h2, ← h1]; simp
    · have h0 : x = 0 := by linarith
      subst h0
      simp at hv
      have hN : N = 0 := by
        rcases hv with h | h
        · exact_mod_cast h
        · omega
      subst hN
      simp [roundMag]
      have : ((2:Rat)⁻¹).floor = 0 := by decide +kernel
      rw [this]; simp


theorem nearestEven_lo (y : Rat) (f : Int) (hf : y.floor = f) (h : y - f < 1 / 2) : nearestEven y = f := by
  subst hf; unfold nearestEven; simp only []; rw [if_pos h]

theorem nearestEven_hi (y : Rat) (f : Int) (hf : y.floor = f) (h : 1 / 2 < y - f) : nearestEven y = f + 1 := by
  subst hf; unfold nearestEven; simp only []
  rw [if_neg (by linarith), if_pos h]

theorem nearestEven_tie (y : Rat) (f : Int) (hf : y.floor = f) (h : y - f = 1 / 2) :
    nearestEven y = if f % 2 = 0 then f else f + 1 := by
  subst hf; unfold nearestEven; simp only []
  rw [if_neg (by rw [h]; norm_num), if_neg (by rw [h]; norm_num)]

theorem nearestEven_neg (y : Rat) : nearestEven (-y) = -nearestEven y := by
  obtain ⟨f, hf⟩ : ∃ f, y.floor = f := ⟨_, rfl⟩
  have hf' : ⌊y⌋ = f := hf
  have hle : (f : Rat) ≤ y := by rw [← hf']; exact Int.floor_le y
  have hlt2 : y < (f : Rat) + 1 := by rw [← hf']; exact Int.lt_floor_add_one y
  by_cases hi : (f : Rat) = y
  · have h1 : (-y).floor = -f := by
      show ⌊-y⌋ = -f
      rw [← hi, ← Int.cast_neg, Int.floor_intCast]
    rw [nearestEven_lo (-y) _ h1 (by push_cast; rw [hi]; norm_num),
        nearestEven_lo y _ hf (by rw [hi]; norm_num)]
  · have hlt : (f : Rat) < y := lt_of_le_of_ne hle hi
    have h1 : (-y).floor = -f - 1 := by
      show ⌊-y⌋ = -f - 1
      rw [Int.floor_eq_iff]; push_cast; constructor <;> linarith
    rcases lt_trichotomy (y - (f : Rat)) (1 / 2) with c | c | c
    · rw [nearestEven_lo y _ hf c, nearestEven_hi (-y) _ h1 (by push_cast; linarith)]; ring
    · rw [nearestEven_tie y _ hf c, nearestEven_tie (-y) _ h1 (by push_cast; linarith)]
      by_cases he : f % 2 = 0
      · have : ¬ ((-f - 1) % 2 = 0) := by omega
        rw [if_pos he, if_neg this]; ring
      · have : ((-f - 1) % 2 = 0) := by omega
        rw [if_neg he, if_pos this]; ring
    · rw [nearestEven_hi y _ hf c, nearestEven_lo (-y) _ h1 (by push_cast; linarith)]; ring

/-- round-half-to-even as the code computes it (quantize ROUND_HALF_EVEN on sign and magnitude)
is the F&O definition -/
theorem quantize_rhe_eq (x : Rat) (p : Int) :
    unscale (decide (x < 0)) (quantMag .halfEven x p) p = roundHalfEven x p := by
  rw [unscale_eq]
  unfold roundHalfEven
  congr 1
  obtain ⟨N, D, hD, hq, hv⟩ := quantMag_spec .halfEven x p
  rw [hq]
  have h1 := roundMag_halfEven N D hD
  rw [hv] at h1
  by_cases hn : x < 0
  · simp only [hn, if_true, decide_true] at h1 ⊢
    have : x * pow10 p = -(-x * pow10 p) := by ring
    rw [this, nearestEven_neg, ← h1]; simp
  · simp only [hn, if_false, decide_false] at h1 ⊢
    rw [← h1]; simp


end EPV.Arith

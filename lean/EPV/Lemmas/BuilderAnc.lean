/-
C02 helper lemmas for fn:innermost / fn:outermost: on a faithfully built tree, following `.parent`
pointers (by position) in the node list is following `parent` indices in the XDM item list.
-/
import EPV.Lemmas.BuilderMain
import EPV.Lemmas.BuilderOps
import EPV.Lemmas.XDMParents
namespace EPV.Builder
open EPV.XDM

/-- what the faithful-image theorems provide about a node list and its XDM item list -/
structure Faithful (nodes : List Rec) (items : List Item) (s : Nat) : Prop where
  len : nodes.length = items.length
  pos : ∀ k (hk : k < nodes.length), (nodes[k]).pos = s + k
  parent : ∀ k (hk : k < nodes.length) (hk' : k < items.length), (nodes[k]).parent = (items[k]).parent.map (s + ·)
  parentLt : ∀ k (hk' : k < items.length) q, (items[k]).parent = some q → q < k

theorem Faithful.parentIdx {nodes : List Rec} {items : List Item} {s : Nat} (F : Faithful nodes items s)
    (k : Nat) (hk : k < nodes.length) :
    parentIdx nodes k = (items[k]'(F.len ▸ hk)).parent := by
  have hk' : k < items.length := F.len ▸ hk
  unfold Builder.parentIdx
  rw [List.getElem?_eq_getElem hk]
  simp only
  rw [F.parent k hk hk']
  cases hq : (items[k]).parent with
  | none => rfl
  | some q =>
    have hlt := F.parentLt k hk' q hq
    simp only [Option.map_some]
    rw [List.findIdx?_eq_some_iff_getElem]
    refine ⟨by omega, ?_, ?_⟩
    · simp [F.pos q (by omega)]
    · intro j hj
      simp [F.pos j (by omega)]
      omega

theorem Faithful.ancestors {nodes : List Rec} {items : List Item} {s : Nat} (F : Faithful nodes items s)
    (a : Nat) : ∀ (fuel k : Nat), k < nodes.length →
    (a ∈ ancestorsOf nodes k fuel ↔ isAncestor items a k fuel = true)
  | 0, k, _ => by simp [ancestorsOf, isAncestor]
  | fuel + 1, k, hk => by
    have hk' : k < items.length := F.len ▸ hk
    simp only [ancestorsOf, isAncestor, F.parentIdx k hk, List.getElem?_eq_getElem hk']
    cases hq : (items[k]).parent with
    | none => simp
    | some q =>
      have hlt := F.parentLt k hk' q hq
      have ih := F.ancestors a fuel q (by omega)
      simp only [List.mem_cons, Bool.or_eq_true, beq_iff_eq, ih]
      constructor
      · rintro (h | h)
        · exact Or.inl h.symm
        · exact Or.inr h
      · rintro (h | h)
        · exact Or.inl h.symm
        · exact Or.inr h

theorem select_congr (n : Nat) (p q : Nat → Bool) (h : ∀ i, i < n → p i = q i) : select n p = select n q := by
  unfold select
  exact List.filter_congr (fun x hx => h x (List.mem_range.1 hx))

/-- fn:innermost of the model is the spec's, for node sets inside the tree -/
theorem Faithful.innermost {nodes : List Rec} {items : List Item} {s : Nat} (F : Faithful nodes items s)
    (hs : Strict nodes) (xs : List Nat) (hx : ∀ a ∈ xs, a < nodes.length) :
    opInnermost nodes xs = specInnermost items xs := by
  unfold opInnermost specInnermost
  have hvalid : ∀ a ∈ toSet (xs.filter fun i => !(xs.flatMap fun i => ancestorsOf nodes i nodes.length).contains i),
      a < nodes.length := by
    intro a ha
    rw [mem_toSet, List.mem_filter] at ha
    exact hx a ha.1
  rw [sortByPos_eq nodes hs (select nodes.length (fun i => (toSet (xs.filter fun i =>
      !(xs.flatMap fun i => ancestorsOf nodes i nodes.length).contains i)).contains i)) _
    (select_pairwise _ _) (fun a ha => ((mem_select _ _ a).1 ha).1)
    (perm_of_nodup_mem (nodup_toSet _) (select_nodup _ _) (by
      intro a; rw [mem_select]; simp only [List.contains_iff_mem]
      exact ⟨fun h => ⟨hvalid a h, h⟩, fun h => h.2⟩))]
  rw [← F.len]
  apply select_congr
  intro i hi
  rw [Bool.eq_iff_iff]
  simp only [List.contains_iff_mem, mem_toSet, List.mem_filter, Bool.and_eq_true,
    Bool.not_eq_eq_eq_not, Bool.not_true, List.any_eq_false]
  constructor
  · rintro ⟨h1, h2⟩
    refine ⟨h1, ?_⟩
    intro j hj
    have := (F.ancestors i nodes.length j (hx j hj))
    cases hanc : isAncestor items i j nodes.length with
    | false => simp
    | true =>
      exfalso
      have hmem := this.2 hanc
      have hc : (xs.flatMap fun i => ancestorsOf nodes i nodes.length).contains i = true := by
        rw [List.contains_iff_mem, List.mem_flatMap]; exact ⟨j, hj, hmem⟩
      rw [hc] at h2; cases h2
  · rintro ⟨h1, h2⟩
    refine ⟨h1, ?_⟩
    cases hc : (xs.flatMap fun i => ancestorsOf nodes i nodes.length).contains i with
    | false => rfl
    | true =>
      exfalso
      rw [List.contains_iff_mem, List.mem_flatMap] at hc
      obtain ⟨j, hj, hm⟩ := hc
      have := (F.ancestors i nodes.length j (hx j hj)).1 hm
      have h2' := h2 j hj
      rw [this] at h2'; simp at h2'

/-- fn:outermost of the model is the spec's, for node sets inside the tree -/
theorem Faithful.outermost {nodes : List Rec} {items : List Item} {s : Nat} (F : Faithful nodes items s)
    (hs : Strict nodes) (xs : List Nat) (hx : ∀ a ∈ xs, a < nodes.length) :
    opOutermost nodes xs = specOutermost items xs := by
  unfold opOutermost specOutermost
  have hvalid : ∀ a ∈ toSet (xs.filter fun i => !(ancestorsOf nodes i nodes.length).any (xs.contains ·)),
      a < nodes.length := by
    intro a ha
    rw [mem_toSet, List.mem_filter] at ha
    exact hx a ha.1
  rw [sortByPos_eq nodes hs (select nodes.length (fun i => (toSet (xs.filter fun i =>
      !(ancestorsOf nodes i nodes.length).any (xs.contains ·))).contains i)) _
    (select_pairwise _ _) (fun a ha => ((mem_select _ _ a).1 ha).1)
    (perm_of_nodup_mem (nodup_toSet _) (select_nodup _ _) (by
      intro a; rw [mem_select]; simp only [List.contains_iff_mem]
      exact ⟨fun h => ⟨hvalid a h, h⟩, fun h => h.2⟩))]
  rw [← F.len]
  apply select_congr
  intro i hi
  rw [Bool.eq_iff_iff]
  simp only [List.contains_iff_mem, mem_toSet, List.mem_filter, Bool.and_eq_true, Bool.not_eq_eq_eq_not,
    Bool.not_true, List.any_eq_false]
  constructor
  · rintro ⟨h1, h2⟩
    refine ⟨h1, ?_⟩
    intro j hj hanc
    have hm := (F.ancestors j nodes.length i hi).2 hanc
    exact h2 j hm hj
  · rintro ⟨h1, h2⟩
    refine ⟨h1, ?_⟩
    intro a ha hax
    exact h2 a hax ((F.ancestors a nodes.length i hi).1 ha)

/-- a faithfully built tree satisfies `Faithful` -/
theorem faithful_of_image (nodes : List Rec) (items : List Item) (s : Nat)
    (he : nodes.map (blankIf true) = (items.map (place s)).map (blankIf true))
    (hidx : idxs items = List.range' 0 items.length)
    (hpar : ∀ it ∈ items, ParentOK items it) : Faithful nodes items s := by
  have hlen : nodes.length = items.length := by simpa using congrArg List.length he
  have hget : ∀ k (hk : k < nodes.length) (hk' : k < items.length),
      blankIf true nodes[k] = blankIf true (place s items[k]) := by
    intro k hk hk'
    have h1 : (nodes.map (blankIf true))[k]'(by simpa using hk) = blankIf true nodes[k] := by simp
    have h2 : ((items.map (place s)).map (blankIf true))[k]'(by simpa using hk') = blankIf true (place s items[k]) := by simp
    rw [← h1, ← h2]
    congr 1
  have hidxk : ∀ k (hk' : k < items.length), (items[k]).idx = k := by
    intro k hk'
    have : (idxs items)[k]'(by simpa using hk') = (items[k]).idx := by simp [idxs]
    rw [← this]
    simp [hidx]
  have fields : ∀ (b : Bool) (r : Rec), (blankIf b r).pos = r.pos ∧ (blankIf b r).parent = r.parent := by
    intro b r; unfold blankIf; split <;> exact ⟨rfl, rfl⟩
  refine ⟨hlen, ?_, ?_, ?_⟩
  · intro k hk
    have hk' : k < items.length := hlen ▸ hk
    have := hget k hk hk'
    have f1 := fields true nodes[k]
    have f2 := fields true (place s items[k])
    rw [← f1.1, this, f2.1]
    simp [place, hidxk k hk']
  · intro k hk hk'
    have := hget k hk hk'
    have f1 := fields true nodes[k]
    have f2 := fields true (place s items[k])
    rw [← f1.2, this, f2.2]
    rfl
  · intro k hk' q hq
    have hm : items[k] ∈ items := List.getElem_mem hk'
    rcases hpar _ hm with ⟨_, hn⟩ | ⟨q', hq', hlt, _⟩
    · rw [hn] at hq; cases hq
    · rw [hq'] at hq; injection hq with hq; subst hq
      rw [hidxk k hk'] at hlt; exact hlt

end EPV.Builder

/- C09 helper lemmas, part 7: str.lower() (CPython handle_capital_sigma loop) = positional Final_Sigma reading. -/
import EPV.Model.Strings
namespace EPV.Strings
open EPV.FOStrings (Str Num Err)

theorem find_not_eq_head_dropWhile (p : Nat → Bool) (l : Str) :
    l.find? (fun c => !p c) = (l.dropWhile p).head? := by
  induction l with
  | nil => rfl
  | cons x xs ih =>
    by_cases hx : p x = true
    · simp [hx, ih]
    · simp [hx]

theorem handleCapitalSigma_eq (cased ign : Nat → Bool) (rb after : Str) :
    handleCapitalSigma cased ign rb after =
      if FOStrings.finalSigma cased ign rb after then 0x3C2 else 0x3C3 := by
  unfold handleCapitalSigma FOStrings.finalSigma
  simp only [find_not_eq_head_dropWhile]
  cases h1 : rb.dropWhile ign with
  | nil => simp
  | cons c cs =>
    cases h2 : after.dropWhile ign with
    | nil => simp
    | cons d ds => simp

/-- the positional reading with an explicit left context -/
def specLowerAux (lo : Nat → Str) (cased ign : Nat → Bool) (rb s : Str) : Str :=
  (List.range s.length).flatMap fun i =>
    match s[i]? with
    | none => []
    | some c =>
      if c = 0x3A3 then
        [if FOStrings.finalSigma cased ign ((s.take i).reverse ++ rb) (s.drop (i + 1)) then 0x3C2 else 0x3C3]
      else lo c

theorem lowerAux_eq (lo : Nat → Str) (cased ign : Nat → Bool) (rb s : Str) :
    lowerAux lo cased ign rb s = specLowerAux lo cased ign rb s := by
  induction s generalizing rb with
  | nil => rfl
  | cons c cs ih =>
    unfold specLowerAux
    simp only [lowerAux, List.length_cons, List.range_succ_eq_map, List.flatMap_cons, List.flatMap_map,
      ih (c :: rb)]
    congr 1
    · simp [handleCapitalSigma_eq]
    · unfold specLowerAux
      congr 1
      funext i
      simp [List.take_succ_cons, List.reverse_cons, List.append_assoc]

theorem lowerCase_eq_spec (lo : Nat → Str) (cased ign : Nat → Bool) (s : Str) :
    lowerCase lo cased ign s = FOStrings.lowerCase lo cased ign s := by
  unfold lowerCase FOStrings.lowerCase
  rw [lowerAux_eq]
  unfold specLowerAux
  simp only [List.append_nil]
  rfl
end EPV.Strings

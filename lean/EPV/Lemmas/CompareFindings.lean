/-
C07 — trigger predicates of the recorded findings.  Each is a decidable function of the *input*
(parser mode, operator, operand items) only — never of the observed output.  They are the
hypotheses of the `_partial` theorems of EPV/Props/C07.lean and are printed by the driver
(`trig=`) so that the harness can tag a disagreement with the finding it falls under.

  F07            Float.__eq__ / __ne__ (xs:float): `math.isclose(rel_tol=1e-7)` tolerance
  F07-promotion  an integer / decimal facing an xs:float is promoted to binary64, not binary32
  F07-compat     XPath 1.0 / compatibility-mode rules (XPath 2.0 §3.5.2, XPath 1.0 §3.4) not followed
-/
import EPV.Spec.FOCompare
namespace EPV.CmpFind
open EPV.Cmp

def isUA : Atom → Bool | .ua _ => true | _ => false
def isNode : Item → Bool | .node _ => true | _ => false

/-- the two doubles are different values but `math.isclose` accepts them -/
def tolClose (x y : D) : Bool := !D.eq x y && isclose x y

/-- F07 on one pair (value or general comparison): two xs:float values under eq / ne / = / != -/
def trigTol (op : Op) (a b : Atom) : Bool :=
  match a, b with
  | .flt x, .flt y => op.isEqNe && tolClose x y
  | _, _ => false

/-- exact rational value of an xs:integer / xs:decimal atom -/
def exactVal : Atom → Option Rat | .int v => some v | .dec q => some q | _ => none

/-- F07-promotion: the pair mixes numeric types and the promotion the specification asks for
(`castNum` to the higher of decimal < float < double) is not the one the code performs: an integer or
decimal facing an xs:float is converted to binary64 (`get_double`), not binary32. -/
def trigPromotion (a b : Atom) : Bool :=
  match CmpSpec.numRank a, CmpSpec.numRank b with
  | some i, some j =>
    if i = j then false else
    let k := if i < j then j else i
    let lo := if i < j then a else b
    match exactVal lo with
    | some q => decide (CmpSpec.castNum k lo ≠ toD64 q)
    | none => false
  | _, _ => false

def isTemporal (a : Atom) : Bool := a.isDT || a.isDur

/-! ### date/time payloads: validity of the timezone, calendar consistency (not findings) -/

/-- the explicit timezone of a date/time atom, if any, lies within ±14:00 (true of every value the
library can construct); vacuous for the other atoms -/
def atomTzOK (a : Atom) : Bool := a.dt.tzOK

/-- two values whose local years differ by more than two are ordered by their instants as by their
years.  *Proved* from `atomTzOK` in EPV/Lemmas/CompareValue.lean (`dtFarOK_of_tzOK`): a year has at
least 365 days, a timezone offset at most 14 hours. -/
def dtFarOK (x y : DT) : Bool :=
  (!decide (x.year + 2 < y.year) || decide (x.inst < y.inst)) &&
  (!decide (y.year + 2 < x.year) || decide (y.inst < x.inst))

def dtConsistent (a b : Atom) : Bool := !(a.isDT && b.isDT) || dtFarOK a.dt b.dt

/-! ### compatibility mode -/

def floatFails (a : Atom) : Bool := match pyFloat a with | .ok _ => false | .error _ => true

/-- strings on which Python's float() and the XPath 1.0 number() function differ -/
def num1Differs (a : Atom) : Bool :=
  match a with
  | .str s =>
    (match lexNum s with
     | .lit _ _ => (strip s).head? == some 43
     | _ => true)
  | _ => false

def inexactDouble (a : Atom) : Bool :=
  match exactVal a with
  | some q => decide (toD64 q ≠ .fin q)
  | none => false

def singleBool : List Atom → Bool | [.bool _] => true | _ => false

/-- F07-compat, on the atomized operands -/
def trigCompat (m : Mode) (op : Op) (l r : List Atom) (lNode rNode : Bool) : Bool :=
  m.compat &&
  (-- an integer / decimal operand that is not exactly a double (number() rounds it, the code does not)
   (l ++ r).any inexactDouble ||
   -- (iii) the single-boolean rule: empty or multi-item other operand, a node in the other operand
   -- (atomized before its effective boolean value is taken), 1.0 ordering
   (singleBool l && (r.isEmpty || r.length ≥ 2 || rNode || (m = .v1 && op.isOrd))) ||
   (singleBool r && !singleBool l && (l.isEmpty || l.length ≥ 2 || lNode || (m = .v1 && op.isOrd))) ||
   (!singleBool l && !singleBool r &&
    (if op.isOrd then
       -- (ii) float() instead of fn:number / number()
       (l ++ r).any (fun a => floatFails a || (m = .v1 && num1Differs a))
     else
       -- (i) no conversion to number / string for = and !=
       (product l r).any (fun (a, b) =>
         (CmpSpec.isNumeric a != CmpSpec.isNumeric b) ||
         (CmpSpec.isNumeric a && CmpSpec.isNumeric b && (inexactDouble a || inexactDouble b)) ||
         (!CmpSpec.isNumeric a && !CmpSpec.isNumeric b && (isStr a != isStr b))))))

/-- all triggers of a general comparison (any pair of the product for the pair-level ones) -/
def trigGeneral (m : Mode) (op : Op) (L Rr : List Item) : List String :=
  let l := L.map (atomize m)
  let r := Rr.map (atomize m)
  let ps := product l r
  let pairLevel := !m.compat || (m = .v2c && !op.isOrd)
  (if ps.any (fun (a, b) => trigTol op a b) then ["F07"] else []) ++
  (if pairLevel && ps.any (fun (a, b) => trigPromotion a b) then ["F07-promotion"] else []) ++
  (if trigCompat m op l r (L.any isNode) (Rr.any isNode) then ["F07-compat"] else [])

def castUAStr : Atom → Atom | .ua s => .str s | a => a

/-- all triggers of a value comparison -/
def trigValue (m : Mode) (op : Op) (L Rr : List Item) : List String :=
  match L, Rr with
  | [x], [y] =>
    let a := atomize m x
    let b := atomize m y
    (if trigTol op a b then ["F07"] else []) ++
    (if trigPromotion a b then ["F07-promotion"] else [])
  | _, _ => []

end EPV.CmpFind

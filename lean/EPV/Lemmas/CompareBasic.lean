/-
C07 — helper lemmas: the `any`-over-pairs loop, the cartesian product, effective boolean value.
-/
import EPV.Spec.FOCompare
namespace EPV.Cmp

theorem mem_product {l r : List Atom} {a b : Atom} : (a, b) ∈ product l r ↔ a ∈ l ∧ b ∈ r := by
  simp [product, List.mem_flatMap, List.mem_map]

/-- the loop returns True only if some pair compares True -/
theorem anyPairs_true {f : Atom → Atom → R} {ps : List (Atom × Atom)} (h : anyPairs f ps = .ok true) :
    ∃ p ∈ ps, f p.1 p.2 = .ok true := by
  induction ps with
  | nil => simp [anyPairs] at h
  | cons p ps ih =>
    obtain ⟨a, b⟩ := p
    simp only [anyPairs] at h
    split at h
    · cases h
    · exact ⟨(a, b), by simp, by assumption⟩
    · obtain ⟨q, hq, hf⟩ := ih h
      exact ⟨q, by simp [hq], hf⟩

/-- the loop returns False exactly when every pair compares False -/
theorem anyPairs_false {f : Atom → Atom → R} {ps : List (Atom × Atom)} :
    anyPairs f ps = .ok false ↔ ∀ p ∈ ps, f p.1 p.2 = .ok false := by
  induction ps with
  | nil => simp [anyPairs]
  | cons p ps ih =>
    obtain ⟨a, b⟩ := p
    simp only [anyPairs, List.mem_cons, forall_eq_or_imp]
    split <;> rename_i hf <;> simp_all

/-- an error of the loop is the error of some pair -/
theorem anyPairs_error {f : Atom → Atom → R} {ps : List (Atom × Atom)} {e : Err}
    (h : anyPairs f ps = .error e) : ∃ p ∈ ps, f p.1 p.2 = .error e := by
  induction ps with
  | nil => simp [anyPairs] at h
  | cons p ps ih =>
    obtain ⟨a, b⟩ := p
    simp only [anyPairs] at h
    split at h
    · rename_i e' hf
      cases h
      exact ⟨(a, b), by simp, hf⟩
    · cases h
    · obtain ⟨q, hq, hf⟩ := ih h
      exact ⟨q, by simp [hq], hf⟩

/-- if some pair is True and no pair raises, the loop returns True -/
theorem anyPairs_complete {f : Atom → Atom → R} {ps : List (Atom × Atom)}
    (ht : ∃ p ∈ ps, f p.1 p.2 = .ok true) (hn : ∀ p ∈ ps, ∃ v, f p.1 p.2 = .ok v) :
    anyPairs f ps = .ok true := by
  induction ps with
  | nil => simp at ht
  | cons p ps ih =>
    obtain ⟨a, b⟩ := p
    simp only [anyPairs]
    obtain ⟨v, hv⟩ := hn (a, b) (by simp)
    simp only at hv
    cases v with
    | true => simp [hv]
    | false =>
      simp only [hv]
      apply ih
      · obtain ⟨q, hq, hf⟩ := ht
        simp only [List.mem_cons] at hq
        rcases hq with rfl | hq
        · simp_all
        · exact ⟨q, hq, hf⟩
      · intro q hq
        exact hn q (by simp [hq])

/-- the first pair (in the order of the nested loops) that is not False decides the outcome -/
theorem anyPairs_prefix {f : Atom → Atom → R} {pre post : List (Atom × Atom)} {p : Atom × Atom}
    (hpre : ∀ q ∈ pre, f q.1 q.2 = .ok false) (hp : f p.1 p.2 ≠ .ok false) :
    anyPairs f (pre ++ p :: post) = f p.1 p.2 := by
  induction pre with
  | nil =>
    obtain ⟨a, b⟩ := p
    simp only [List.nil_append, anyPairs]
    split <;> simp_all
  | cons q pre ih =>
    obtain ⟨a, b⟩ := q
    have h1 := hpre (a, b) (by simp)
    simp only at h1
    simp only [List.cons_append, anyPairs, h1]
    exact ih (fun q hq => hpre q (by simp [hq]))

/-! ### effective boolean value -/

theorem ebvIterLoop_succ (rest : List Item) (k : Nat) (it : Item) (hne : rest ≠ []) :
    ebvIterLoop rest (k + 1) (some it) = .error .FORG0006 := by
  cases rest with
  | nil => exact absurd rfl hne
  | cons x xs => simp [ebvIterLoop]

/-- the iterator variant of `boolean_value` computes the same as the list variant -/
theorem ebvIter_eq_ebvList (l : List Item) : ebvIter l = ebvList l := by
  unfold ebvIter
  match l with
  | [] => simp [ebvIterLoop, ebvList]
  | .node _ :: _ => simp [ebvIterLoop, ebvList]
  | [.atom a] => simp [ebvIterLoop, ebvList]
  | .atom a :: x :: xs => simp [ebvIterLoop, ebvList]

end EPV.Cmp

namespace EPV.CmpSpec
open EPV.Cmp

/-- outcome of the model as a spec outcome -/
def outOfR : R → Out
  | .ok true => .t | .ok false => .f | .error e => .err e

/-- the `any` loop always returns one of the outcomes that the "exists a pair" semantics with
errors permits (XPath 3.1 §3.7.2, §2.3.4), computed from the same pair function -/
theorem anyPairs_in_allowed (f : Atom → Atom → R) (ps : List (Atom × Atom))
    (hs : ∀ p ∈ ps, f p.1 p.2 ≠ .error .unsupported) :
    ∃ allowed, allowedOfPairs (ps.map fun p => f p.1 p.2) = some allowed ∧
      outOfR (anyPairs f ps) ∈ allowed := by
  unfold allowedOfPairs
  split
  · rename_i h
    exfalso
    rw [List.any_eq_true] at h
    obtain ⟨r, hr, hm⟩ := h
    obtain ⟨p, hp, rfl⟩ := List.mem_map.mp hr
    have := hs p hp
    unfold isUnsupportedR at hm
    split at hm <;> simp_all
  · refine ⟨_, rfl, ?_⟩
    show outOfR (anyPairs f ps) ∈ _
    cases hr : anyPairs f ps with
    | ok v =>
      cases v with
      | true =>
        obtain ⟨p, hp, hf⟩ := anyPairs_true hr
        have : (ps.map fun p => f p.1 p.2).any isTrueR = true := by
          rw [List.any_eq_true]
          exact ⟨f p.1 p.2, List.mem_map.mpr ⟨p, hp, rfl⟩, by simp [hf, isTrueR]⟩
        rw [if_pos this]
        simp [outOfR]
      | false =>
        have hall := anyPairs_false.mp hr
        have : (ps.map fun p => f p.1 p.2).all isFalseR = true := by
          rw [List.all_eq_true]
          intro r hr'
          obtain ⟨p, hp, rfl⟩ := List.mem_map.mp hr'
          simp [hall p hp, isFalseR]
        rw [if_pos this]
        simp [outOfR]
    | error e =>
      obtain ⟨p, hp, hf⟩ := anyPairs_error hr
      simp only [outOfR, List.mem_append, List.mem_filterMap]
      refine Or.inr ⟨f p.1 p.2, List.mem_map.mpr ⟨p, hp, rfl⟩, by simp [hf, errOutR]⟩

def outOfOR : Except Err (Option Bool) → Out
  | .ok (some true) => .t | .ok (some false) => .f | .ok none => .empty | .error e => .err e

end EPV.CmpSpec

/-
C08 helper lemma: the summation parameter of the specification matters only for expressions
that contain fn:sum or fn:avg.
-/
import EPV.Spec.FOSeq
namespace EPV.Seq.Spec
open EPV.Seq

mutual
/-- the expression contains a call of fn:sum or fn:avg -/
def usesSum : Expr → Bool
  | .lit _ | .empty | .var _ | .dot | .position | .last => false
  | .comma a b | .range a b | .filter a b | .map a b | .andE a b | .orE a b => usesSum a || usesSum b
  | .cmp _ a b | .arith _ a b => usesSum a || usesSum b
  | .forE bs r | .someE bs r | .everyE bs r => usesSumB bs || usesSum r
  | .fn1 f a => (f == .sum || f == .avg) || usesSum a
  | .fn2 f a b => (f == .sum) || usesSum a || usesSum b
  | .fn3 _ a b d => usesSum a || usesSum b || usesSum d
  | .ifE a b d => usesSum a || usesSum b || usesSum d
def usesSumB : Binds → Bool
  | .one _ e => usesSum e
  | .cons _ e rest => usesSum e || usesSumB rest
end

theorem applyFn1_congr (s1 s2 : Summation) (doc : List String) (f : Fn1) (v : Seq)
    (h : (f == .sum || f == .avg) = false) : applyFn1 s1 doc f v = applyFn1 s2 doc f v := by
  cases f <;> simp_all [applyFn1]

theorem applyFn2_congr (s1 s2 : Summation) (doc : List String) (f : Fn2) (va vb : Seq)
    (h : (f == .sum) = false) : applyFn2 s1 doc f va vb = applyFn2 s2 doc f va vb := by
  cases f <;> simp_all [applyFn2]

mutual
theorem sem_congr (s1 s2 : Summation) : ∀ (e : Expr) (c : Ctx), usesSum e = false → sem s1 e c = sem s2 e c
  | .lit _, c, _ => by simp [sem]
  | .empty, c, _ => by simp [sem]
  | .var _, c, _ => by simp only [sem]
  | .dot, c, _ => by simp only [sem]
  | .position, c, _ => by simp [sem]
  | .last, c, _ => by simp [sem]
  | .comma a b, c, h => by
    simp only [usesSum, Bool.or_eq_false_iff] at h
    simp only [sem, sem_congr s1 s2 a c h.1, sem_congr s1 s2 b c h.2]
  | .range a b, c, h => by
    simp only [usesSum, Bool.or_eq_false_iff] at h
    simp only [sem, sem_congr s1 s2 a c h.1, sem_congr s1 s2 b c h.2]
  | .filter a b, c, h => by
    simp only [usesSum, Bool.or_eq_false_iff] at h
    simp only [sem, sem_congr s1 s2 a c h.1]
    have : ∀ c', sem s1 b c' = sem s2 b c' := fun c' => sem_congr s1 s2 b c' h.2
    simp only [this]
  | .map a b, c, h => by
    simp only [usesSum, Bool.or_eq_false_iff] at h
    simp only [sem, sem_congr s1 s2 a c h.1]
    have : ∀ c', sem s1 b c' = sem s2 b c' := fun c' => sem_congr s1 s2 b c' h.2
    simp only [this]
  | .forE bs r, c, h => by
    simp only [usesSum, Bool.or_eq_false_iff] at h
    simp only [sem]
    have : (fun c' => sem s1 r c') = (fun c' => sem s2 r c') := by
      funext c'; exact sem_congr s1 s2 r c' h.2
    rw [this]
    exact semFor_congr s1 s2 bs c _ h.1
  | .someE bs t, c, h => by
    simp only [usesSum, Bool.or_eq_false_iff] at h
    simp only [sem]
    have : (fun c' => (sem s1 t c').bind ebv) = (fun c' => (sem s2 t c').bind ebv) := by
      funext c'; rw [sem_congr s1 s2 t c' h.2]
    rw [this, semSome_congr s1 s2 bs c _ h.1]
  | .everyE bs t, c, h => by
    simp only [usesSum, Bool.or_eq_false_iff] at h
    simp only [sem]
    have : (fun c' => (sem s1 t c').bind ebv) = (fun c' => (sem s2 t c').bind ebv) := by
      funext c'; rw [sem_congr s1 s2 t c' h.2]
    rw [this, semEvery_congr s1 s2 bs c _ h.1]
  | .fn1 f a, c, h => by
    simp only [usesSum, Bool.or_eq_false_iff] at h
    simp only [sem, sem_congr s1 s2 a c h.2]
    congr 1
    funext v
    exact applyFn1_congr s1 s2 c.doc f v (by simpa using h.1)
  | .fn2 f a b, c, h => by
    simp only [usesSum, Bool.or_eq_false_iff] at h
    have hf := h.1.1
    cases f <;> simp only [sem, sem_congr s1 s2 a c h.1.2, sem_congr s1 s2 b c h.2]
    case sum => simp at hf
    all_goals rfl
  | .fn3 f a b d, c, h => by
    simp only [usesSum, Bool.or_eq_false_iff] at h
    cases f <;> simp only [sem, sem_congr s1 s2 a c h.1.1, sem_congr s1 s2 b c h.1.2, sem_congr s1 s2 d c h.2]
  | .cmp op a b, c, h => by
    simp only [usesSum, Bool.or_eq_false_iff] at h
    simp only [sem, sem_congr s1 s2 a c h.1, sem_congr s1 s2 b c h.2]
  | .andE a b, c, h => by
    simp only [usesSum, Bool.or_eq_false_iff] at h
    simp only [sem, sem_congr s1 s2 a c h.1, sem_congr s1 s2 b c h.2]
  | .orE a b, c, h => by
    simp only [usesSum, Bool.or_eq_false_iff] at h
    simp only [sem, sem_congr s1 s2 a c h.1, sem_congr s1 s2 b c h.2]
  | .arith op a b, c, h => by
    simp only [usesSum, Bool.or_eq_false_iff] at h
    simp only [sem, sem_congr s1 s2 a c h.1, sem_congr s1 s2 b c h.2]
  | .ifE t a b, c, h => by
    simp only [usesSum, Bool.or_eq_false_iff] at h
    simp only [sem, sem_congr s1 s2 t c h.1.1, sem_congr s1 s2 a c h.1.2, sem_congr s1 s2 b c h.2]

theorem semFor_congr (s1 s2 : Summation) : ∀ (bs : Binds) (c : Ctx) (body : Ctx → R), usesSumB bs = false →
    semFor s1 bs c body = semFor s2 bs c body
  | .one x e, c, body, h => by
    simp only [usesSumB] at h
    simp only [semFor, sem_congr s1 s2 e c h]
  | .cons x e rest, c, body, h => by
    simp only [usesSumB, Bool.or_eq_false_iff] at h
    simp only [semFor, sem_congr s1 s2 e c h.1]
    have : (fun v => semFor s1 rest (bind1 c x v) body) = (fun v => semFor s2 rest (bind1 c x v) body) := by
      funext v; exact semFor_congr s1 s2 rest _ body h.2
    rw [this]

theorem semSome_congr (s1 s2 : Summation) : ∀ (bs : Binds) (c : Ctx) (test : Ctx → Except Err Bool),
    usesSumB bs = false → semSome s1 bs c test = semSome s2 bs c test
  | .one x e, c, test, h => by
    simp only [usesSumB] at h
    simp only [semSome, sem_congr s1 s2 e c h]
  | .cons x e rest, c, test, h => by
    simp only [usesSumB, Bool.or_eq_false_iff] at h
    simp only [semSome, sem_congr s1 s2 e c h.1]
    have : (fun v => semSome s1 rest (bind1 c x v) test) = (fun v => semSome s2 rest (bind1 c x v) test) := by
      funext v; exact semSome_congr s1 s2 rest _ test h.2
    rw [this]

theorem semEvery_congr (s1 s2 : Summation) : ∀ (bs : Binds) (c : Ctx) (test : Ctx → Except Err Bool),
    usesSumB bs = false → semEvery s1 bs c test = semEvery s2 bs c test
  | .one x e, c, test, h => by
    simp only [usesSumB] at h
    simp only [semEvery, sem_congr s1 s2 e c h]
  | .cons x e rest, c, test, h => by
    simp only [usesSumB, Bool.or_eq_false_iff] at h
    simp only [semEvery, sem_congr s1 s2 e c h.1]
    have : (fun v => semEvery s1 rest (bind1 c x v) test) = (fun v => semEvery s2 rest (bind1 c x v) test) := by
      funext v; exact semEvery_congr s1 s2 rest _ test h.2
    rw [this]
end

end EPV.Seq.Spec

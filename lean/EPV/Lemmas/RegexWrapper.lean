/-
C12, phase 5 (second item).  The XSD-flavour wrapper of `translate_pattern` (`anchors=False`):
`'^(' + body + r')$(?!\n\Z)'` (patterns.py:281-284; `translateM`'s last line).

Two facts about the shared token grammar `parseT` (fuel monotonicity, and "a parse is not disturbed by a
following `)`"), then: whatever Python reads the body as, it reads the wrapped token list as
`^ ( body ) $`-strict, and *searching* with that expression succeeds exactly on the strings the body
matches *entirely* — the XSD pattern-facet semantics.  `$(?!\n\Z)` enters through `PySem.eol`
(= the end of the string and nothing else); with Python's bare `$` (also before a final newline) the
statement is false, see the witness in Props/C12Wrapper.lean.
-/
import EPV.Lemmas.RegexTranslate
namespace EPV.Regex

/-! ### fuel monotonicity of the token grammar -/

/-- one unfolding of `tBranch` at a token that starts a piece -/
theorem tBranch_cons {α : Type} (f : Nat) (t : Tok α) (r : List (Tok α)) (h1 : t ≠ .bar) (h2 : t ≠ .rpar) :
    tBranch (f + 1) (t :: r) =
      match tPiece f (t :: r) with
      | none => none
      | some (p, rest) =>
        (tBranch f rest).map fun (b, rest') => (match b with | .eps => p | _ => .cat p b, rest') := by
  cases t <;> first | rfl | exact absurd rfl h1 | exact absurd rfl h2

theorem t_mono_step {α : Type} : ∀ f : Nat,
    (∀ (ts : List (Tok α)) res, tRegExp f ts = some res → tRegExp (f + 1) ts = some res) ∧
    (∀ (ts : List (Tok α)) res, tBranch f ts = some res → tBranch (f + 1) ts = some res) ∧
    (∀ (ts : List (Tok α)) res, tPiece f ts = some res → tPiece (f + 1) ts = some res) ∧
    (∀ (ts : List (Tok α)) res, tAtom f ts = some res → tAtom (f + 1) ts = some res) := by
  intro f
  induction f with
  | zero => refine ⟨?_, ?_, ?_, ?_⟩ <;> intro ts res h <;> simp [tRegExp, tBranch, tPiece, tAtom] at h
  | succ f ih =>
    obtain ⟨ihR, ihB, ihP, ihA⟩ := ih
    refine ⟨?_, ?_, ?_, ?_⟩
    · intro ts res h
      rw [tRegExp] at h ⊢
      cases hb : tBranch f ts with
      | none => simp [hb] at h
      | some br =>
        obtain ⟨b, rest⟩ := br
        rw [ihB ts _ hb]
        rw [hb] at h
        match rest, h with
        | [], h => simpa using h
        | .bar :: rest', h =>
          simp only at h ⊢
          cases hr : tRegExp f rest' with
          | none => simp [hr] at h
          | some x => rw [ihR rest' _ hr]; rw [hr] at h; exact h
        | .atom a :: rest', h => simpa using h
        | .lpar c :: rest', h => simpa using h
        | .rpar :: rest', h => simpa using h
        | .quant lo hi l :: rest', h => simpa using h
    · intro ts res h
      match ts, h with
      | [], h =>
        simp only [tBranch] at h ⊢
        simpa using h
      | .bar :: r, h =>
        simp only [tBranch] at h ⊢
        simpa using h
      | .rpar :: r, h =>
        simp only [tBranch] at h ⊢
        simpa using h
      | .atom a :: r, h =>
        rw [tBranch_cons _ _ _ (by simp) (by simp)] at h ⊢
        cases hp : tPiece f (.atom a :: r) with
        | none => simp [hp] at h
        | some pr =>
          obtain ⟨p, rest⟩ := pr
          rw [ihP _ _ hp]; rw [hp] at h
          simp only at h ⊢
          cases hb : tBranch f rest with
          | none => simp [hb] at h
          | some x => rw [ihB _ _ hb]; rw [hb] at h; exact h
      | .lpar c :: r, h =>
        rw [tBranch_cons _ _ _ (by simp) (by simp)] at h ⊢
        cases hp : tPiece f (.lpar c :: r) with
        | none => simp [hp] at h
        | some pr =>
          obtain ⟨p, rest⟩ := pr
          rw [ihP _ _ hp]; rw [hp] at h
          simp only at h ⊢
          cases hb : tBranch f rest with
          | none => simp [hb] at h
          | some x => rw [ihB _ _ hb]; rw [hb] at h; exact h
      | .quant lo hi l :: r, h =>
        rw [tBranch_cons _ _ _ (by simp) (by simp)] at h ⊢
        cases hp : tPiece f (.quant lo hi l :: r) with
        | none => simp [hp] at h
        | some pr =>
          obtain ⟨p, rest⟩ := pr
          rw [ihP _ _ hp]; rw [hp] at h
          simp only at h ⊢
          cases hb : tBranch f rest with
          | none => simp [hb] at h
          | some x => rw [ihB _ _ hb]; rw [hb] at h; exact h
    · intro ts res h
      rw [tPiece] at h ⊢
      cases ha : tAtom f ts with
      | none => simp [ha] at h
      | some ar => rw [ihA _ _ ha]; rw [ha] at h; exact h
    · intro ts res h
      match ts, h with
      | [], h =>
        simp only [tAtom] at h ⊢
        simp at h
      | .atom a :: r, h =>
        simp only [tAtom] at h ⊢
        simpa using h
      | .lpar c :: r, h =>
        simp only [tAtom] at h ⊢
        cases hr : tRegExp f r with
        | none => simp [hr] at h
        | some x => rw [ihR _ _ hr]; rw [hr] at h; exact h
      | .rpar :: r, h =>
        simp only [tAtom] at h ⊢
        simp at h
      | .bar :: r, h =>
        simp only [tAtom] at h ⊢
        simp at h
      | .quant lo hi l :: r, h =>
        simp only [tAtom] at h ⊢
        simp at h

theorem tRegExp_mono {α : Type} (f k : Nat) (ts : List (Tok α)) (res) (h : tRegExp f ts = some res) :
    tRegExp (f + k) ts = some res := by
  induction k with
  | zero => exact h
  | succ k ih => exact (t_mono_step (f + k)).1 ts res ih

/-! ### a parse is not disturbed by a following `)` -/

theorem t_suffix {α : Type} (s : List (Tok α)) : ∀ f : Nat,
    (∀ (ts : List (Tok α)) r rem, tRegExp f ts = some (r, rem) → tRegExp f (ts ++ .rpar :: s) = some (r, rem ++ .rpar :: s)) ∧
    (∀ (ts : List (Tok α)) r rem, tBranch f ts = some (r, rem) → tBranch f (ts ++ .rpar :: s) = some (r, rem ++ .rpar :: s)) ∧
    (∀ (ts : List (Tok α)) r rem, tPiece f ts = some (r, rem) → tPiece f (ts ++ .rpar :: s) = some (r, rem ++ .rpar :: s)) ∧
    (∀ (ts : List (Tok α)) r rem, tAtom f ts = some (r, rem) → tAtom f (ts ++ .rpar :: s) = some (r, rem ++ .rpar :: s)) := by
  intro f
  induction f with
  | zero => refine ⟨?_, ?_, ?_, ?_⟩ <;> intro ts r rem h <;> simp [tRegExp, tBranch, tPiece, tAtom] at h
  | succ f ih =>
    obtain ⟨ihR, ihB, ihP, ihA⟩ := ih
    refine ⟨?_, ?_, ?_, ?_⟩
    · intro ts r rem h
      rw [tRegExp] at h ⊢
      cases hb : tBranch f ts with
      | none => simp [hb] at h
      | some br =>
        obtain ⟨b, rest⟩ := br
        rw [ihB ts _ _ hb]
        rw [hb] at h
        match rest, h with
        | [], h =>
          simp only [Option.some.injEq, Prod.mk.injEq] at h
          obtain ⟨rfl, rfl⟩ := h
          simp
        | .bar :: rest', h =>
          simp only [List.cons_append] at h ⊢
          cases hr : tRegExp f rest' with
          | none => simp [hr] at h
          | some x =>
            obtain ⟨r2, rem2⟩ := x
            rw [ihR rest' _ _ hr]; rw [hr] at h
            simp only [Option.map_some, Option.some.injEq, Prod.mk.injEq] at h ⊢
            obtain ⟨rfl, rfl⟩ := h
            exact ⟨rfl, rfl⟩
        | .atom a :: rest', h =>
          simp only [Option.some.injEq, Prod.mk.injEq] at h; obtain ⟨rfl, rfl⟩ := h; simp
        | .lpar c :: rest', h =>
          simp only [Option.some.injEq, Prod.mk.injEq] at h; obtain ⟨rfl, rfl⟩ := h; simp
        | .rpar :: rest', h =>
          simp only [Option.some.injEq, Prod.mk.injEq] at h; obtain ⟨rfl, rfl⟩ := h; simp
        | .quant lo hi l :: rest', h =>
          simp only [Option.some.injEq, Prod.mk.injEq] at h; obtain ⟨rfl, rfl⟩ := h; simp
    · intro ts r rem h
      match ts, h with
      | [], h =>
        simp only [tBranch] at h ⊢
        simp only [Option.some.injEq, Prod.mk.injEq] at h; obtain ⟨rfl, rfl⟩ := h; simp
      | .bar :: r0, h =>
        simp only [tBranch] at h ⊢
        simp only [Option.some.injEq, Prod.mk.injEq] at h; obtain ⟨rfl, rfl⟩ := h; simp
      | .rpar :: r0, h =>
        simp only [tBranch] at h ⊢
        simp only [Option.some.injEq, Prod.mk.injEq] at h; obtain ⟨rfl, rfl⟩ := h; simp
      | .atom a :: r0, h =>
        simp only [List.cons_append]
        rw [tBranch_cons _ _ _ (by simp) (by simp)] at h ⊢
        cases hp : tPiece f (.atom a :: r0) with
        | none => simp [hp] at h
        | some pr =>
          obtain ⟨p, rest⟩ := pr
          have := ihP _ _ _ hp
          simp only [List.cons_append] at this
          rw [this]; rw [hp] at h
          simp only at h ⊢
          cases hb : tBranch f rest with
          | none => simp [hb] at h
          | some x =>
            obtain ⟨b2, rem2⟩ := x
            rw [ihB _ _ _ hb]; rw [hb] at h
            simp only [Option.map_some, Option.some.injEq, Prod.mk.injEq] at h ⊢
            obtain ⟨rfl, rfl⟩ := h
            exact ⟨rfl, rfl⟩
      | .lpar c :: r0, h =>
        simp only [List.cons_append]
        rw [tBranch_cons _ _ _ (by simp) (by simp)] at h ⊢
        cases hp : tPiece f (.lpar c :: r0) with
        | none => simp [hp] at h
        | some pr =>
          obtain ⟨p, rest⟩ := pr
          have := ihP _ _ _ hp
          simp only [List.cons_append] at this
          rw [this]; rw [hp] at h
          simp only at h ⊢
          cases hb : tBranch f rest with
          | none => simp [hb] at h
          | some x =>
            obtain ⟨b2, rem2⟩ := x
            rw [ihB _ _ _ hb]; rw [hb] at h
            simp only [Option.map_some, Option.some.injEq, Prod.mk.injEq] at h ⊢
            obtain ⟨rfl, rfl⟩ := h
            exact ⟨rfl, rfl⟩
      | .quant lo hi l :: r0, h =>
        simp only [List.cons_append]
        rw [tBranch_cons _ _ _ (by simp) (by simp)] at h ⊢
        cases hp : tPiece f (.quant lo hi l :: r0) with
        | none => simp [hp] at h
        | some pr =>
          obtain ⟨p, rest⟩ := pr
          have := ihP _ _ _ hp
          simp only [List.cons_append] at this
          rw [this]; rw [hp] at h
          simp only at h ⊢
          cases hb : tBranch f rest with
          | none => simp [hb] at h
          | some x =>
            obtain ⟨b2, rem2⟩ := x
            rw [ihB _ _ _ hb]; rw [hb] at h
            simp only [Option.map_some, Option.some.injEq, Prod.mk.injEq] at h ⊢
            obtain ⟨rfl, rfl⟩ := h
            exact ⟨rfl, rfl⟩
    · intro ts r rem h
      rw [tPiece] at h ⊢
      cases ha : tAtom f ts with
      | none => simp [ha] at h
      | some ar =>
        obtain ⟨a, rest⟩ := ar
        rw [ihA _ _ _ ha]; rw [ha] at h
        match rest, h with
        | [], h =>
          simp only [Option.some.injEq, Prod.mk.injEq] at h; obtain ⟨rfl, rfl⟩ := h; simp
        | .quant lo hi l :: rest', h =>
          simp only [Option.some.injEq, Prod.mk.injEq] at h; obtain ⟨rfl, rfl⟩ := h; simp
        | .atom a' :: rest', h =>
          simp only [Option.some.injEq, Prod.mk.injEq] at h; obtain ⟨rfl, rfl⟩ := h; simp
        | .lpar c :: rest', h =>
          simp only [Option.some.injEq, Prod.mk.injEq] at h; obtain ⟨rfl, rfl⟩ := h; simp
        | .rpar :: rest', h =>
          simp only [Option.some.injEq, Prod.mk.injEq] at h; obtain ⟨rfl, rfl⟩ := h; simp
        | .bar :: rest', h =>
          simp only [Option.some.injEq, Prod.mk.injEq] at h; obtain ⟨rfl, rfl⟩ := h; simp
    · intro ts r rem h
      match ts, h with
      | [], h =>
        simp only [tAtom] at h ⊢
        simp at h
      | .atom a :: r0, h =>
        simp only [tAtom] at h ⊢
        simp only [Option.some.injEq, Prod.mk.injEq] at h; obtain ⟨rfl, rfl⟩ := h; simp
      | .lpar c :: r0, h =>
        simp only [tAtom] at h ⊢
        simp only [List.cons_append] at h ⊢
        cases hr : tRegExp f r0 with
        | none => simp [hr] at h
        | some x =>
          obtain ⟨r2, rem2⟩ := x
          rw [ihR _ _ _ hr]; rw [hr] at h
          match rem2, h with
          | .rpar :: rest', h =>
            simp only [Option.some.injEq, Prod.mk.injEq] at h; obtain ⟨rfl, rfl⟩ := h; simp
          | [], h => simp at h
          | .atom a' :: rest', h => simp at h
          | .lpar c' :: rest', h => simp at h
          | .bar :: rest', h => simp at h
          | .quant lo hi l :: rest', h => simp at h
      | .rpar :: r0, h =>
        simp only [tAtom] at h ⊢
        simp at h
      | .bar :: r0, h =>
        simp only [tAtom] at h ⊢
        simp at h
      | .quant lo hi l :: r0, h =>
        simp only [tAtom] at h ⊢
        simp at h

/-! ### the wrapped token list parses as `a ( r ) b` -/

theorem parseT_some {α : Type} {ts : List (Tok α)} {r : Ast α} (h : parseT ts = some r) :
    tRegExp (4 * ts.length + 8) ts = some (r, []) := by
  unfold parseT at h
  split at h
  · rename_i r' heq; simp only [Option.some.injEq] at h; subst h; exact heq
  · cases h

theorem parseT_wrap {α : Type} (a b : α) (c : Bool) (ts : List (Tok α)) (r : Ast α) (h : parseT ts = some r) :
    parseT ([.atom a, .lpar c] ++ ts ++ [.rpar, .atom b]) =
      some (.cat (.atom a) (.cat (.group c r) (.atom b))) := by
  have h0 := parseT_some h
  have h1 : tRegExp (4 * ts.length + 18 + 1) (ts ++ [.rpar, .atom b]) = some (r, [.rpar, .atom b]) := by
    have := (t_suffix [.atom b] (4 * ts.length + 8 + 11)).1 ts r [] (tRegExp_mono _ 11 ts _ h0)
    simpa using this
  have hlen : 4 * (([Tok.atom a, Tok.lpar c] ++ ts ++ [Tok.rpar, Tok.atom b] : List (Tok α))).length + 8 = 4 * ts.length + 18 + 5 + 1 := by
    simp; omega
  unfold parseT
  rw [hlen]
  generalize 4 * ts.length + 18 = G at h1
  have hA1 : tPiece (G + 3 + 1) (.atom a :: .lpar c :: (ts ++ [.rpar, .atom b])) =
      some (.atom a, .lpar c :: (ts ++ [.rpar, .atom b])) := by simp [tPiece, tAtom]
  have hA2 : tPiece (G + 2 + 1) (.lpar c :: (ts ++ [.rpar, .atom b])) = some (.group c r, [.atom b]) := by
    simp [tPiece, tAtom, h1]
  have hA3 : tPiece (G + 1 + 1) [Tok.atom b] = some (.atom b, []) := by simp [tPiece, tAtom]
  have hB3 : tBranch (G + 2 + 1) [Tok.atom b] = some (.atom b, []) := by
    rw [tBranch_cons _ _ _ (by simp) (by simp), hA3]; simp [tBranch]
  have hB2 : tBranch (G + 3 + 1) (.lpar c :: (ts ++ [.rpar, .atom b])) =
      some (.cat (.group c r) (.atom b), []) := by
    rw [tBranch_cons _ _ _ (by simp) (by simp), hA2]; simp [hB3]
  have hB1 : tBranch (G + 4 + 1) (.atom a :: .lpar c :: (ts ++ [.rpar, .atom b])) =
      some (.cat (.atom a) (.cat (.group c r) (.atom b)), []) := by
    rw [tBranch_cons _ _ _ (by simp) (by simp), hA1]; simp [hB2]
  rw [tRegExp]
  simp only [List.cons_append, List.nil_append, List.append_assoc]
  rw [hB1]

end EPV.Regex

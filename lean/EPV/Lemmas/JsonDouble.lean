/-
C17 helper lemmas: the RFC 8259 number reader reads `float.__repr__`'s formatting (`reprDouble`) of a
decimal in normal form back to that decimal (both notations, all exponents).
-/
import EPV.Lemmas.JsonParse
namespace EPV.Json

/-! ### stripping zeros -/

theorem stripLeading_replicate (n : Nat) (l : List Nat) (pt : Int) :
    stripLeadingZeros (List.replicate n 0 ++ l) pt = stripLeadingZeros l (pt - n) := by
  induction n generalizing pt with
  | zero => simp
  | succ n ih =>
    simp only [List.replicate_succ, List.cons_append, stripLeadingZeros]
    rw [ih]; congr 1; omega

theorem stripLeading_noop (l : List Nat) (pt : Int) (h : l.head? ≠ some 0) : stripLeadingZeros l pt = (l, pt) := by
  cases l with
  | nil => rfl
  | cons a t =>
    have : a ≠ 0 := by simpa using h
    unfold stripLeadingZeros
    split
    · rename_i heq; simp at heq; exact absurd heq.1 this
    · rfl

theorem stripTrailing_noop (l : List Nat) (h : l.getLast? ≠ some 0) : stripTrailingZeros l = l := by
  unfold stripTrailingZeros
  cases hr : l.reverse with
  | nil => simp at hr; simp [hr]
  | cons a t =>
    have hl : l = (a :: t).reverse := by rw [← hr]; simp
    have ha : a ≠ 0 := by
      intro h0
      apply h
      rw [hl]; simp [h0]
    have hb : (a == 0) = false := by simp [ha]
    simp only [List.dropWhile, hb]
    rw [hl]

theorem stripTrailing_replicate (l : List Nat) (n : Nat) :
    stripTrailingZeros (l ++ List.replicate n 0) = stripTrailingZeros l := by
  unfold stripTrailingZeros
  rw [List.reverse_append, List.reverse_replicate]
  congr 1
  induction n with
  | zero => simp
  | succ n ih => simp [List.replicate_succ, ih]

theorem stripTrailing_all_zero (n : Nat) : stripTrailingZeros (List.replicate n 0) = [] := by
  have := stripTrailing_replicate [] n
  simp [stripTrailingZeros] at this ⊢

/-- a non-zero decimal in normal form is its own normal form -/
theorem normDec_noop (neg : Bool) (ds : List Nat) (pt : Int) (hne : ds ≠ [])
    (hh : ds.head? ≠ some 0) (hl : ds.getLast? ≠ some 0) : normDec neg ds pt = ⟨neg, ds, pt⟩ := by
  unfold normDec
  rw [stripLeading_noop ds pt hh]
  simp only [stripTrailing_noop ds hl, hne, if_false]

/-! ### pieces of the number reader -/

theorem digitChars_append (a b : List Nat) : digitChars (a ++ b) = digitChars a ++ digitChars b := by
  simp [digitChars]

theorem digitChars_replicate (n : Nat) : digitChars (List.replicate n 0) = List.replicate n 48 := by
  simp [digitChars]

theorem parseFrac_digits (fp : List Nat) (hne : fp ≠ []) (hd : ∀ x ∈ fp, x < 10) (r : Str)
    (hr : headNotDigit r) :
    parseFrac (46 :: (digitChars fp ++ r)) = some (some fp, r) := by
  cases fp with
  | nil => exact absurd rfl hne
  | cons a t => simp only [parseFrac, spanDigits_digitChars (a :: t) hd r hr]

theorem parseExp_digits (sg : Nat) (hsg : sg = 43 ∨ sg = 45) (ed : List Nat) (hne : ed ≠ [])
    (hd : ∀ x ∈ ed, x < 10) (r : Str) (hr : headNotDigit r) :
    parseExp (101 :: sg :: (digitChars ed ++ r)) =
      some (some (if sg = 45 then -(digitsVal ed : Int) else (digitsVal ed : Int)), r) := by
  have hs := spanDigits_digitChars ed hd r hr
  cases ed with
  | nil => exact absurd rfl hne
  | cons a t =>
    rcases hsg with h | h <;> subst h <;> simp [parseExp, hs]

/-- the part of `parseNum` after the optional minus sign -/
theorem parseNum_unsigned (neg : Bool) (body rest : Str) (ip : List Nat) (s2 : Str)
    (fp : Option (List Nat)) (s3 : Str) (ex : Option Int)
    (hhead : ∃ c t, body = c :: t ∧ c ≠ 45)
    (hspan : spanDigits (body ++ rest) = (ip, s2)) (hip : ip ≠ [])
    (hlz : ¬ (1 < ip.length ∧ ip.head? = some 0))
    (hfrac : parseFrac s2 = some (fp, s3)) (hexp : parseExp s3 = some (ex, rest))
    (hdbl : ¬ (fp = none ∧ ex = none)) :
    parseNum ((if neg then [45] else []) ++ body ++ rest) =
      some (.dbl (normDec neg (ip ++ fp.getD []) ((ip.length : Int) + ex.getD 0)), rest) := by
  obtain ⟨c, t, hb, hc⟩ := hhead
  have hsign : parseSign ((if neg then [45] else []) ++ body ++ rest) = (neg, body ++ rest) := by
    cases neg
    · simp only [Bool.false_eq_true, if_false, List.nil_append, hb, List.cons_append]
      unfold parseSign
      split
      · rename_i heq; simp at heq; exact absurd heq.1 hc
      · rfl
    · simp [parseSign]
  unfold parseNum
  rw [hsign]
  simp only [hspan, hip, if_false, hlz, hfrac, hexp]
  cases fp <;> cases ex <;> simp_all

/-! ### exponent notation -/

theorem digitsVal_zero_cons (l : List Nat) : digitsVal (0 :: l) = digitsVal l := by simp [digitsVal]

theorem expDigits_spec (e : Int) :
    expDigits e ≠ [] ∧ (∀ x ∈ expDigits e, x < 10) ∧ digitsVal (expDigits e) = e.natAbs := by
  unfold expDigits
  simp only
  split
  · refine ⟨by simp, ?_, ?_⟩
    · intro x hx
      simp only [List.mem_cons] at hx
      rcases hx with hx | hx
      · omega
      · exact natDigits_lt10 _ x hx
    · rw [digitsVal_zero_cons, natDigits_val]
  · exact ⟨natDigits_ne_nil _, natDigits_lt10 _, natDigits_val _⟩

theorem spanDigits_one (a : Nat) (ha : a < 10) (c : Nat) (r : Str) (hc : isDigit c = false) :
    spanDigits ((48 + a) :: c :: r) = ([a], c :: r) := by
  have hdig : isDigit (48 + a) = true := by simp [isDigit]; omega
  simp [spanDigits, hdig, hc]

theorem numOK_exp (neg : Bool) (ds : List Nat) (pt : Int) (hne : ds ≠ []) (hd : ∀ x ∈ ds, x < 10)
    (hh : ds.head? ≠ some 0) (hl : ds.getLast? ≠ some 0) (rest : Str) (hr : numEnd rest) :
    parseNum ((if neg then [45] else []) ++ reprExpForm ds pt ++ rest) = some (.dbl ⟨neg, ds, pt⟩, rest) := by
  obtain ⟨hene, hed, hev⟩ := expDigits_spec (pt - 1)
  have hrd := headNotDigit_of_numEnd rest hr
  have hsgv : (43 : Nat) = (if pt - 1 < 0 then 45 else 43) ∨ (45 : Nat) = (if pt - 1 < 0 then 45 else 43) := by
    split <;> simp
  have hex : (if (if pt - 1 < 0 then (45 : Nat) else 43) = 45 then -((digitsVal (expDigits (pt - 1)) : Nat) : Int)
      else ((digitsVal (expDigits (pt - 1)) : Nat) : Int)) = pt - 1 := by
    rw [hev]
    split <;> rename_i h
    · simp; omega
    · simp; omega
  have hexp := parseExp_digits (if pt - 1 < 0 then 45 else 43) (by split <;> simp) (expDigits (pt - 1)) hene hed rest hrd
  rw [hex] at hexp
  match ds, hne, hd, hh, hl with
  | [a], _, hd, hh, hl =>
    have ha : a < 10 := hd a (by simp)
    have hbody : reprExpForm [a] pt = (48 + a) :: 101 :: (if pt - 1 < 0 then 45 else 43) ::
        digitChars (expDigits (pt - 1)) := by simp [reprExpForm, reprMantissa]
    have := parseNum_unsigned neg (reprExpForm [a] pt) rest [a]
      (101 :: (if pt - 1 < 0 then 45 else 43) :: (digitChars (expDigits (pt - 1)) ++ rest)) none
      (101 :: (if pt - 1 < 0 then 45 else 43) :: (digitChars (expDigits (pt - 1)) ++ rest)) (some (pt - 1))
      ⟨48 + a, _, hbody, by omega⟩
      (by rw [hbody]; exact spanDigits_one a ha 101 _ (by decide))
      (by simp) (by simp) (by simp [parseFrac]) hexp (by simp)
    rw [this]
    simp only [Option.getD_none, List.append_nil, List.length_cons, List.length_nil, Option.getD_some]
    rw [show ((0 + 1 : Nat) : Int) + (pt - 1) = pt by omega]
    rw [normDec_noop neg [a] pt (by simp) hh hl]
  | a :: b :: r, _, hd, hh, hl =>
    have ha : a < 10 := hd a (by simp)
    have hdr : ∀ x ∈ b :: r, x < 10 := fun x hx => hd x (by simp at hx ⊢; right; exact hx)
    have hbody : reprExpForm (a :: b :: r) pt = (48 + a) :: 46 :: (digitChars (b :: r) ++
        101 :: (if pt - 1 < 0 then 45 else 43) :: digitChars (expDigits (pt - 1))) := by
      simp [reprExpForm, reprMantissa]
    have hfrac := parseFrac_digits (b :: r) (by simp) hdr
      (101 :: (if pt - 1 < 0 then 45 else 43) :: (digitChars (expDigits (pt - 1)) ++ rest))
      (by show isDigit 101 = false; decide)
    have := parseNum_unsigned neg (reprExpForm (a :: b :: r) pt) rest [a]
      (46 :: (digitChars (b :: r) ++ 101 :: (if pt - 1 < 0 then 45 else 43) :: (digitChars (expDigits (pt - 1)) ++ rest)))
      (some (b :: r))
      (101 :: (if pt - 1 < 0 then 45 else 43) :: (digitChars (expDigits (pt - 1)) ++ rest)) (some (pt - 1))
      ⟨48 + a, _, hbody, by omega⟩
      (by rw [hbody]; simp only [List.cons_append, List.append_assoc]; exact spanDigits_one a ha 46 _ (by decide))
      (by simp) (by simp) hfrac hexp (by simp)
    rw [this]
    simp only [Option.getD_some, List.length_cons, List.length_nil, List.singleton_append]
    rw [show ((0 + 1 : Nat) : Int) + (pt - 1) = pt by omega]
    rw [normDec_noop neg (a :: b :: r) pt (by simp) hh hl]

/-! ### fixed notation -/

theorem head_digitChars_ne45 (ds : List Nat) (hne : ds ≠ []) (rest : Str) :
    ∃ c t, digitChars ds ++ rest = c :: t ∧ c ≠ 45 := by
  cases ds with
  | nil => exact absurd rfl hne
  | cons a r => exact ⟨48 + a, digitChars r ++ rest, by simp [digitChars], by omega⟩

theorem replicate_lt10 (n : Nat) : ∀ x ∈ List.replicate n 0, x < 10 := by
  intro x hx
  have := (List.mem_replicate.mp hx).2
  omega

theorem mem_append_lt10 {a b : List Nat} (ha : ∀ x ∈ a, x < 10) (hb : ∀ x ∈ b, x < 10) :
    ∀ x ∈ a ++ b, x < 10 := by
  intro x hx
  rcases List.mem_append.mp hx with h | h
  · exact ha x h
  · exact hb x h

/-- `0.000ddd` : `decpt ≤ 0` -/
theorem numOK_fixed_small (neg : Bool) (ds : List Nat) (pt : Int) (hne : ds ≠ []) (hd : ∀ x ∈ ds, x < 10)
    (hh : ds.head? ≠ some 0) (hl : ds.getLast? ≠ some 0) (hpt : pt ≤ 0) (rest : Str) (hr : numEnd rest) :
    parseNum ((if neg then [45] else []) ++ reprFixedForm ds pt ++ rest) = some (.dbl ⟨neg, ds, pt⟩, rest) := by
  have hrd := headNotDigit_of_numEnd rest hr
  have hbody : reprFixedForm ds pt = 48 :: 46 :: digitChars (List.replicate (-pt).toNat 0 ++ ds) := by
    simp [reprFixedForm, hpt, digitChars_append, digitChars_replicate]
  have hfd : ∀ x ∈ List.replicate (-pt).toNat 0 ++ ds, x < 10 := mem_append_lt10 (replicate_lt10 _) hd
  have hfne : List.replicate (-pt).toNat 0 ++ ds ≠ [] := by simp [hne]
  have hfrac := parseFrac_digits _ hfne hfd rest hrd
  have := parseNum_unsigned neg (reprFixedForm ds pt) rest [0]
    (46 :: (digitChars (List.replicate (-pt).toNat 0 ++ ds) ++ rest))
    (some (List.replicate (-pt).toNat 0 ++ ds)) rest none
    ⟨48, _, hbody, by decide⟩
    (by rw [hbody]; exact spanDigits_one 0 (by decide) 46 _ (by decide))
    (by simp) (by simp) hfrac (parseExp_end rest hr) (by simp)
  rw [this]
  simp only [Option.getD_some, Option.getD_none, List.length_cons, List.length_nil]
  unfold normDec
  have hs : stripLeadingZeros ([0] ++ (List.replicate (-pt).toNat 0 ++ ds)) (((0 + 1 : Nat) : Int) + 0) = (ds, pt) := by
    rw [show [0] ++ (List.replicate (-pt).toNat 0 ++ ds) = List.replicate ((-pt).toNat + 1) 0 ++ ds by
      simp [List.replicate_succ]]
    rw [stripLeading_replicate, stripLeading_noop ds _ hh]
    congr 1
    omega
  rw [hs]
  simp only [stripTrailing_noop ds hl, hne, if_false]

/-- `ddd.ddd` : `0 < decpt < k` -/
theorem numOK_fixed_mid (neg : Bool) (ds : List Nat) (pt : Int) (hd : ∀ x ∈ ds, x < 10)
    (hh : ds.head? ≠ some 0) (hl : ds.getLast? ≠ some 0) (hpt : 0 < pt) (hk : pt < (ds.length : Int))
    (rest : Str) (hr : numEnd rest) :
    parseNum ((if neg then [45] else []) ++ reprFixedForm ds pt ++ rest) = some (.dbl ⟨neg, ds, pt⟩, rest) := by
  have hrd := headNotDigit_of_numEnd rest hr
  have hne : ds ≠ [] := by intro h; subst h; simp at hk; omega
  have hbody : reprFixedForm ds pt = digitChars (ds.take pt.toNat) ++ 46 :: digitChars (ds.drop pt.toNat) := by
    have : ¬ pt ≤ 0 := by omega
    simp [reprFixedForm, this, hk]
  have htk : ds.take pt.toNat ≠ [] := by
    intro h
    have := congrArg List.length h
    rw [List.length_take, List.length_nil] at this
    omega
  have hdr : ds.drop pt.toNat ≠ [] := by
    intro h
    have := congrArg List.length h
    rw [List.length_drop, List.length_nil] at this
    omega
  have htd : ∀ x ∈ ds.take pt.toNat, x < 10 := fun x hx => hd x (List.mem_of_mem_take hx)
  have hdd : ∀ x ∈ ds.drop pt.toNat, x < 10 := fun x hx => hd x (List.mem_of_mem_drop hx)
  have hfrac := parseFrac_digits _ hdr hdd rest hrd
  have hhead : (ds.take pt.toNat).head? = ds.head? := by
    cases ds with
    | nil => exact absurd rfl hne
    | cons a r =>
      obtain ⟨n, hn⟩ : ∃ n, pt.toNat = n + 1 := ⟨pt.toNat - 1, by omega⟩
      simp [hn]
  obtain ⟨c, t, hct, hc⟩ := head_digitChars_ne45 (ds.take pt.toNat) htk (46 :: digitChars (ds.drop pt.toNat))
  have := parseNum_unsigned neg (reprFixedForm ds pt) rest (ds.take pt.toNat)
    (46 :: (digitChars (ds.drop pt.toNat) ++ rest)) (some (ds.drop pt.toNat)) rest none
    ⟨c, t, by rw [hbody]; exact hct, hc⟩
    (by rw [hbody]; simp only [List.append_assoc, List.cons_append]
        exact spanDigits_digitChars _ htd _ (by show isDigit 46 = false; decide))
    htk (by rw [hhead]; intro h; exact hh h.2) hfrac (parseExp_end rest hr) (by simp)
  rw [this]
  simp only [Option.getD_some, Option.getD_none, List.take_append_drop, List.length_take]
  rw [show ((min pt.toNat ds.length : Nat) : Int) + 0 = pt by omega]
  exact congrArg (fun x => some (JValue.dbl x, rest)) (normDec_noop neg ds pt hne hh hl)

/-- `ddd000.0` : `decpt ≥ k`, also the zero `0.0` -/
theorem numOK_fixed_big (neg : Bool) (ds : List Nat) (pt : Int) (hne : ds ≠ []) (hd : ∀ x ∈ ds, x < 10)
    (hz : (ds = [0] ∧ pt = 1) ∨ (ds.head? ≠ some 0 ∧ ds.getLast? ≠ some 0)) (hk : (ds.length : Int) ≤ pt)
    (rest : Str) (hr : numEnd rest) :
    parseNum ((if neg then [45] else []) ++ reprFixedForm ds pt ++ rest) = some (.dbl ⟨neg, ds, pt⟩, rest) := by
  have hrd := headNotDigit_of_numEnd rest hr
  have hpos : 0 < pt := by
    have : 0 < ds.length := List.length_pos_iff.mpr hne
    omega
  have hbody : reprFixedForm ds pt =
      digitChars (ds ++ List.replicate (pt - (ds.length : Int)).toNat 0) ++ 46 :: digitChars [0] := by
    have h1 : ¬ pt ≤ 0 := by omega
    have h2 : ¬ pt < (ds.length : Int) := by omega
    simp [reprFixedForm, h1, h2, digitChars]
  have hid : ∀ x ∈ ds ++ List.replicate (pt - (ds.length : Int)).toNat 0, x < 10 :=
    mem_append_lt10 hd (replicate_lt10 _)
  have hine : ds ++ List.replicate (pt - (ds.length : Int)).toNat 0 ≠ [] := by simp [hne]
  have hfrac := parseFrac_digits [0] (by simp) (by simp) rest hrd
  obtain ⟨c, t, hct, hc⟩ := head_digitChars_ne45 _ hine (46 :: digitChars [0])
  have hlz : ¬ (1 < (ds ++ List.replicate (pt - (ds.length : Int)).toNat 0).length ∧
      (ds ++ List.replicate (pt - (ds.length : Int)).toNat 0).head? = some 0) := by
    rcases hz with ⟨h1, h2⟩ | ⟨h1, _⟩
    · subst h1; subst h2; simp
    · intro ⟨_, h⟩
      apply h1
      cases ds with
      | nil => exact absurd rfl hne
      | cons a r => simpa using h
  have := parseNum_unsigned neg (reprFixedForm ds pt) rest (ds ++ List.replicate (pt - (ds.length : Int)).toNat 0)
    (46 :: (digitChars [0] ++ rest)) (some [0]) rest none
    ⟨c, t, by rw [hbody]; exact hct, hc⟩
    (by rw [hbody]; simp only [List.append_assoc, List.cons_append]
        exact spanDigits_digitChars _ hid _ (by show isDigit 46 = false; decide))
    hine hlz hfrac (parseExp_end rest hr) (by simp)
  rw [this]
  simp only [Option.getD_some, Option.getD_none, List.length_append, List.length_replicate]
  rw [show ((ds.length + (pt - (ds.length : Int)).toNat : Nat) : Int) + 0 = pt by omega]
  rcases hz with ⟨h1, h2⟩ | ⟨h1, h2⟩
  · subst h1; subst h2
    rfl
  · unfold normDec
    rw [stripLeading_noop _ pt (by
      cases ds with
      | nil => exact absurd rfl hne
      | cons a r => simpa using h1)]
    have : stripTrailingZeros (ds ++ List.replicate (pt - ↑ds.length).toNat 0 ++ [0]) = ds := by
      rw [show ds ++ List.replicate (pt - ↑ds.length).toNat 0 ++ [0] =
          ds ++ List.replicate ((pt - ↑ds.length).toNat + 1) 0 by
        rw [List.append_assoc]; congr 1; simp [List.replicate_succ']]
      rw [stripTrailing_replicate, stripTrailing_noop ds h2]
    simp only [this, hne, if_false]

theorem numStart_head (l : Str) (c : Nat) (h : l.head? = some c) (hc : numStart c) :
    ∃ c t, l = c :: t ∧ numStart c := by
  cases l with
  | nil => simp at h
  | cons x t => simp at h; subst h; exact ⟨x, t, rfl, hc⟩

/-- `float.__repr__` of a decimal in normal form is read back exactly (both notations) -/
theorem numOK_reprDouble (d : Dec) (h : wfDec d = true) : NumOK (reprDouble d) (.dbl d) := by
  obtain ⟨neg, ds, pt⟩ := d
  simp only [wfDec, Bool.and_eq_true, Bool.not_eq_true', List.isEmpty_eq_false_iff, List.all_eq_true,
    decide_eq_true_eq, Bool.or_eq_true, beq_iff_eq, bne_iff_ne, ne_eq] at h
  obtain ⟨⟨hne, hd⟩, hz⟩ := h
  have hz' : (ds = [0] ∧ pt = 1) ∨ (ds.head? ≠ some 0 ∧ ds.getLast? ≠ some 0) := hz
  constructor
  · -- first character
    unfold reprDouble
    cases neg
    · simp only [Bool.false_eq_true, if_false, List.nil_append, reprBody]
      obtain ⟨a, r, har⟩ : ∃ a r, ds = a :: r := by
        cases ds with
        | nil => exact absurd rfl hne
        | cons a r => exact ⟨a, r, rfl⟩
      have ha : a < 10 := hd a (by simp [har])
      have hdig : ∀ x, x < 10 → numStart (48 + x) := fun x hx => Or.inr (by simp [isDigit]; omega)
      split
      · cases r with
        | nil => exact numStart_head _ (48 + a) (by simp [har, reprExpForm, reprMantissa]) (hdig a ha)
        | cons b r' => exact numStart_head _ (48 + a) (by simp [har, reprExpForm, reprMantissa]) (hdig a ha)
      · unfold reprFixedForm
        split
        · exact numStart_head _ 48 (by simp) (Or.inr (by decide))
        · split
          · rename_i h1 h2
            obtain ⟨n, hn⟩ : ∃ n, pt.toNat = n + 1 := ⟨pt.toNat - 1, by omega⟩
            exact numStart_head _ (48 + a) (by simp [har, hn, digitChars]) (hdig a ha)
          · exact numStart_head _ (48 + a) (by simp [har, digitChars]) (hdig a ha)
    · exact numStart_head _ 45 (by simp) (Or.inl rfl)
  · intro rest hr
    have e : reprDouble ⟨neg, ds, pt⟩ ++ rest = (if neg then [45] else []) ++ reprBody ⟨neg, ds, pt⟩ ++ rest := by
      simp [reprDouble]
    rw [e]
    by_cases hform : pt ≤ -4 ∨ pt > 16
    · have hb : reprBody ⟨neg, ds, pt⟩ = reprExpForm ds pt := by simp [reprBody, hform]
      rw [hb]
      rcases hz' with ⟨_, h2⟩ | ⟨h1, h2⟩
      · omega
      · exact numOK_exp neg ds pt hne hd h1 h2 rest hr
    · have hb : reprBody ⟨neg, ds, pt⟩ = reprFixedForm ds pt := by simp [reprBody, hform]
      rw [hb]
      by_cases hk : (ds.length : Int) ≤ pt
      · exact numOK_fixed_big neg ds pt hne hd hz' hk rest hr
      · have hlen : 0 < ds.length := List.length_pos_iff.mpr hne
        rcases hz' with ⟨h1, h2⟩ | ⟨h1, h2⟩
        · subst h1; simp at hk; omega
        · by_cases hp : pt ≤ 0
          · exact numOK_fixed_small neg ds pt hne hd h1 h2 hp rest hr
          · exact numOK_fixed_mid neg ds pt hd h1 h2 (by omega) (by omega) rest hr

end EPV.Json

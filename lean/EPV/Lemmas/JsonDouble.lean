/-
C17 helper lemmas: the RFC 8259 number reader reads `float.__repr__`'s formatting (`reprDouble`) of a
decimal in normal form back to that decimal (both notations, all exponents).
-/
import EPV.Lemmas.JsonParse
namespace EPV.Json

/-! ### stripping zeros -/

theorem stripLeading_replicate (n : Nat) (l : List Nat) (pt : Int) :
    stripLeadingZeros (List.replicate n 0 ++ l) pt = stripLeadingZeros l (pt - n) := by
  induction n generalizing pt with
  | zero => simp
  | succ n ih =>
    simp only [List.replicate_succ, List.cons_append, stripLeadingZeros]
    rw [ih]; congr 1; omega

theorem stripLeading_noop (l : List Nat) (pt : Int) (h : l.head? ≠ some 0) : stripLeadingZeros l pt = (l, pt) := by
  cases l with
  | nil => rfl
  | cons a t =>
    have : a ≠ 0 := by simpa using h
    unfold stripLeadingZeros
    split
    · rename_i heq; simp at heq; exact absurd heq.1 this
    · rfl

theorem stripTrailing_noop (l : List Nat) (h : l.getLast? ≠ some 0) : stripTrailingZeros l = l := by
  unfold stripTrailingZeros
  cases hr : l.reverse with
  | nil => simp at hr; simp [hr]
  | cons a t =>
    have hl : l = (a :: t).reverse := by rw [← hr]; simp
    have ha : a ≠ 0 := by
      intro h0
      apply h
      rw [hl]; simp [h0]
    have hb : (a == 0) = false := by simp [ha]
    simp only [List.dropWhile, hb]
    rw [hl]

theorem stripTrailing_replicate (l : List Nat) (n : Nat) :
    stripTrailingZeros (l ++ List.replicate n 0) = stripTrailingZeros l := by
  unfold stripTrailingZeros
  rw [List.reverse_append, List.reverse_replicate]
  congr 1
  induction n with
  | zero => simp
  | succ n ih => simp [List.replicate_succ, ih]

theorem stripTrailing_all_zero (n : Nat) : stripTrailingZeros (List.replicate n 0) = [] := by
  have := stripTrailing_replicate [] n
  simp [stripTrailingZeros] at this ⊢

/-- a non-zero decimal in normal form is its own normal form -/
theorem normDec_noop (neg : Bool) (ds : List Nat) (pt : Int) (hne : ds ≠ [])
    (hh : ds.head? ≠ some 0) (hl : ds.getLast? ≠ some 0) : normDec neg ds pt = ⟨neg, ds, pt⟩ := by
  unfold normDec
  rw [stripLeading_noop ds pt hh]
  simp only [stripTrailing_noop ds hl, hne, if_false]

/-! ### pieces of the number reader -/

theorem digitChars_append (a b : List Nat) : digitChars (a ++ b) = digitChars a ++ digitChars b := by
  simp [digitChars]

theorem digitChars_replicate (n : Nat) : digitChars (List.replicate n 0) = List.replicate n 48 := by
  simp [digitChars]

theorem parseFrac_digits (fp : List Nat) (hne : fp ≠ []) (hd : ∀ x ∈ fp, x < 10) (r : Str)
    (hr : headNotDigit r) :
    parseFrac (46 :: (digitChars fp ++ r)) = some (some fp, r) := by
  cases fp with
  | nil => exact absurd rfl hne
  | cons a t => simp only [parseFrac, spanDigits_digitChars (a :: t) hd r hr]

theorem parseExp_digits (sg : Nat) (hsg : sg = 43 ∨ sg = 45) (ed : List Nat) (hne : ed ≠ [])
    (hd : ∀ x ∈ ed, x < 10) (r : Str) (hr : headNotDigit r) :
    parseExp (101 :: sg :: (digitChars ed ++ r)) =
      some (some (if sg = 45 then -(digitsVal ed : Int) else (digitsVal ed : Int)), r) := by
  have hs := spanDigits_digitChars ed hd r hr
  cases ed with
  | nil => exact absurd rfl hne
  | cons a t =>
    rcases hsg with h | h <;> subst h <;> simp [parseExp, hs]

/-- the part of `parseNum` after the optional minus sign -/
theorem parseNum_unsigned (neg : Bool) (body rest : Str) (ip : List Nat) (s2 : Str)
    (fp : Option (List Nat)) (s3 : Str) (ex : Option Int)
    (hhead : ∃ c t, body = c :: t ∧ c ≠ 45)
    (hspan : spanDigits (body ++ rest) = (ip, s2)) (hip : ip ≠ [])
    (hlz : ¬ (1 < ip.length ∧ ip.head? = some 0))
    (hfrac : parseFrac s2 = some (fp, s3)) (hexp : parseExp s3 = some (ex, rest))
    (hdbl : ¬ (fp = none ∧ ex = none)) :
    parseNum ((if neg then [45] else []) ++ body ++ rest) =
      some (.dbl (normDec neg (ip ++ fp.getD []) ((ip.length : Int) + ex.getD 0)), rest) := by
  obtain ⟨c, t, hb, hc⟩ := hhead
  have hsign : parseSign ((if neg then [45] else []) ++ body ++ rest) = (neg, body ++ rest) := by
    cases neg
    · simp only [Bool.false_eq_true, if_false, List.nil_append, hb, List.cons_append]
      unfold parseSign
      split
      · rename_i heq; simp at heq; exact absurd heq.1 hc
      · rfl
    · simp [parseSign]
  unfold parseNum
  rw [hsign]
  simp only [hspan, hip, if_false, hlz, hfrac, hexp]
  cases fp <;> cases ex <;> simp_all

/-! ### exponent notation -/

theorem digitsVal_zero_cons (l : List Nat) : digitsVal (0 :: l) = digitsVal l := by simp [digitsVal]

theorem expDigits_spec (e : Int) :
    expDigits e ≠ [] ∧ (∀ x ∈ expDigits e, x < 10) ∧ digitsVal (expDigits e) = e.natAbs := by
  unfold expDigits
  simp only
  split
  · refine ⟨by simp, ?_, ?_⟩
    · intro x hx
      simp only [List.mem_cons] at hx
      rcases hx with hx | hx
      · omega
      · exact natDigits_lt10 _ x hx
    · rw [digitsVal_zero_cons, natDigits_val]
  · exact ⟨natDigits_ne_nil _, natDigits_lt10 _, natDigits_val _⟩

theorem spanDigits_one (a : Nat) (ha : a < 10) (c : Nat) (r : Str) (hc : isDigit c = false) :
    spanDigits ((48 + a) :: c :: r) = ([a], c :: r) := by
  have hdig : isDigit (48 + a) = true := by simp [isDigit]; omega
  simp [spanDigits, hdig, hc]

theorem numOK_exp (neg : Bool) (ds : List Nat) (pt : Int) (hne : ds ≠ []) (hd : ∀ x ∈ ds, x < 10)
    (hh : ds.head? ≠ some 0) (hl : ds.getLast? ≠ some 0) (rest : Str) (hr : numEnd rest) :
    parseNum ((if neg then [45] else []) ++ reprExpForm ds pt ++ rest) = some (.dbl ⟨neg, ds, pt⟩, rest) := by
  obtain ⟨hene, hed, hev⟩ := expDigits_spec (pt - 1)
  have hrd := headNotDigit_of_numEnd rest hr
  have hsgv : (43 : Nat) = (if pt - 1 < 0 then 45 else 43) ∨ (45 : Nat) = (if pt - 1 < 0 then 45 else 43) := by
    split <;> simp
  have hex : (if (if pt - 1 < 0 then (45 : Nat) else 43) = 45 then -((digitsVal (expDigits (pt - 1)) : Nat) : Int)
      else ((digitsVal (expDigits (pt - 1)) : Nat) : Int)) = pt - 1 := by
    rw [hev]
    split <;> rename_i h
    · simp; omega
    · simp; omega
  have hexp := parseExp_digits (if pt - 1 < 0 then 45 else 43) (by split <;> simp) (expDigits (pt - 1)) hene hed rest hrd
  rw [hex] at hexp
  match ds, hne, hd, hh, hl with
  | [a], _, hd, hh, hl =>
    have ha : a < 10 := hd a (by simp)
    have hbody : reprExpForm [a] pt = (48 + a) :: 101 :: (if pt - 1 < 0 then 45 else 43) ::
        digitChars (expDigits (pt - 1)) := by simp [reprExpForm, reprMantissa]
    have := parseNum_unsigned neg (reprExpForm [a] pt) rest [a]
      (101 :: (if pt - 1 < 0 then 45 else 43) :: (digitChars (expDigits (pt - 1)) ++ rest)) none
      (101 :: (if pt - 1 < 0 then 45 else 43) :: (digitChars (expDigits (pt - 1)) ++ rest)) (some (pt - 1))
      ⟨48 + a, _, hbody, by omega⟩
      (by rw [hbody]; exact spanDigits_one a ha 101 _ (by decide))
      (by simp) (by simp) (by simp [parseFrac]) hexp (by simp)
    rw [this]
    simp only [Option.getD_none, List.append_nil, List.length_cons, List.length_nil, Option.getD_some]
    rw [show ((0 + 1 : Nat) : Int) + (pt - 1) = pt by omega]
    rw [normDec_noop neg [a] pt (by simp) hh hl]
  | a :: b :: r, _, hd, hh, hl =>
    have ha : a < 10 := hd a (by simp)
    have hdr : ∀ x ∈ b :: r, x < 10 := fun x hx => hd x (by simp at hx ⊢; right; exact hx)
    have hbody : reprExpForm (a :: b :: r) pt = (48 + a) :: 46 :: (digitChars (b :: r) ++
        101 :: (if pt - 1 < 0 then 45 else 43) :: digitChars (expDigits (pt - 1))) := by
      simp [reprExpForm, reprMantissa]
    have hfrac := parseFrac_digits (b :: r) (by simp) hdr
      (101 :: (if pt - 1 < 0 then 45 else 43) :: (digitChars (expDigits (pt - 1)) ++ rest))
      (by show isDigit 101 = false; decide)
    have := parseNum_unsigned neg (reprExpForm (a :: b :: r) pt) rest [a]
      (46 :: (digitChars (b :: r) ++ 101 :: (if pt - 1 < 0 then 45 else 43) :: (digitChars (expDigits (pt - 1)) ++ rest)))
      (some (b :: r))
      (101 :: (if pt - 1 < 0 then 45 else 43) :: (digitChars (expDigits (pt - 1)) ++ rest)) (some (pt - 1))
      ⟨48 + a, _, hbody, by omega⟩
      (by rw [hbody]; simp only [List.cons_append, List.append_assoc]; exact spanDigits_one a ha 46 _ (by decide))
      (by simp) (by simp) hfrac hexp (by simp)
    rw [this]
    simp only [Option.getD_some, List.length_cons, List.length_nil, List.singleton_append]
    rw [show ((0 + 1 : Nat) : Int) + (pt - 1) = pt by omega]
    rw [normDec_noop neg (a :: b :: r) pt (by simp) hh hl]

end EPV.Json

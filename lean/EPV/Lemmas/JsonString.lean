/-
C17 helper lemmas: the RFC 8259 string reader (`parseStrF`) reads back what the two string encoders
of the repository write: `escape_json_string` (xml-to-json) and `json.dumps(ensure_ascii=True)`
followed by `.replace('/', '\\/')` (serialize with method json).
-/
import EPV.Lemmas.JsonEscape
namespace EPV.Json

/-- Unicode scalar value: a code point that is not a surrogate -/
def isScalar (c : Nat) : Bool := c < 0x110000 && !(0xD800 ≤ c && c ≤ 0xDFFF)

/-- reading the encoding of one character costs one step and yields that character -/
def EscOK (esc : Nat → Str) (c : Nat) : Prop :=
  esc c ≠ [] ∧ ∀ f rest, parseStrF (f + 1) (esc c ++ rest) = consStr c (parseStrF f rest)

theorem length_le_flatMap (esc : Nat → Str) (s : Str) (h : ∀ c ∈ s, esc c ≠ []) :
    s.length ≤ (s.flatMap esc).length := by
  induction s with
  | nil => simp
  | cons x t ih =>
    have h1 : 1 ≤ (esc x).length := by
      have := h x (by simp)
      cases hx : esc x with
      | nil => exact absurd hx this
      | cons _ _ => simp
    have := ih (fun c hc => h c (by simp [hc]))
    simp only [List.flatMap_cons, List.length_append, List.length_cons]
    omega

theorem parseStrF_flatMap (esc : Nat → Str) (s : Str) (h : ∀ c ∈ s, EscOK esc c) (f : Nat) (rest : Str) :
    parseStrF (s.length + 1 + f) (s.flatMap esc ++ 34 :: rest) = some (s, rest) := by
  induction s with
  | nil =>
    rw [show ([] : Str).length + 1 + f = f + 1 by simp [Nat.add_comm]]
    simp [parseStrF]
  | cons x t ih =>
    have hx := (h x (by simp)).2
    have := ih (fun c hc => h c (by simp [hc]))
    simp only [List.flatMap_cons, List.length_cons, List.append_assoc]
    rw [show t.length + 1 + 1 + f = (t.length + 1 + f) + 1 by omega, hx, this]
    rfl

/-- the same with the fuel `parseValueF` passes: the length of the remaining text -/
theorem parseStrF_body (esc : Nat → Str) (s : Str) (h : ∀ c ∈ s, EscOK esc c) (rest : Str) :
    parseStrF (s.flatMap esc ++ 34 :: rest).length (s.flatMap esc ++ 34 :: rest) = some (s, rest) := by
  have hl := length_le_flatMap esc s (fun c hc => (h c hc).1)
  have := parseStrF_flatMap esc s h ((s.flatMap esc).length - s.length + rest.length) rest
  rw [show (s.flatMap esc ++ 34 :: rest).length
      = s.length + 1 + ((s.flatMap esc).length - s.length + rest.length) by
    simp only [List.length_append, List.length_cons]; omega]
  exact this

/-! ### hex digits -/

theorem hexDigitVal_upper : ∀ d, d < 16 → hexDigitVal? (hexDigitU d) = some d := by decide
theorem hexDigitVal_lower : ∀ d, d < 16 → hexDigitVal? (hexDigitL d) = some d := by decide

theorem hex4_hex4L (c : Nat) (hc : c < 65536) (rest : Str) : hex4? (hex4L c ++ rest) = some (c, rest) := by
  simp only [hex4L, List.cons_append, List.nil_append, hex4?]
  rw [hexDigitVal_lower _ (Nat.mod_lt _ (by decide)), hexDigitVal_lower _ (Nat.mod_lt _ (by decide)),
    hexDigitVal_lower _ (Nat.mod_lt _ (by decide)), hexDigitVal_lower _ (Nat.mod_lt _ (by decide))]
  simp only [Option.some.injEq, Prod.mk.injEq, and_true]
  omega

theorem hex4_hex4U (c : Nat) (hc : c < 65536) (rest : Str) : hex4? (hex4U c ++ rest) = some (c, rest) := by
  simp only [hex4U, List.cons_append, List.nil_append, hex4?]
  rw [hexDigitVal_upper _ (Nat.mod_lt _ (by decide)), hexDigitVal_upper _ (Nat.mod_lt _ (by decide)),
    hexDigitVal_upper _ (Nat.mod_lt _ (by decide)), hexDigitVal_upper _ (Nat.mod_lt _ (by decide))]
  simp only [Option.some.injEq, Prod.mk.injEq, and_true]
  omega

/-! ### escape_json_string -/

theorem escOK_escChar (x : Nat) (h0 : x ≠ 0) : EscOK escChar x := by
  by_cases hs : x = 92 ∨ x = 34 ∨ x = 8 ∨ x = 13 ∨ x = 10 ∨ x = 9 ∨ x = 12 ∨ x = 47
  · have : ∃ e, escChar x = [92, e] ∧ e ≠ 117 ∧ simpleEscape? e = some x := by
      rcases hs with h | h | h | h | h | h | h | h <;> subst h
      · exact ⟨92, by decide⟩
      · exact ⟨34, by decide⟩
      · exact ⟨98, by decide⟩
      · exact ⟨114, by decide⟩
      · exact ⟨110, by decide⟩
      · exact ⟨116, by decide⟩
      · exact ⟨102, by decide⟩
      · exact ⟨47, by decide⟩
    obtain ⟨e, he, hne, hd⟩ := this
    refine ⟨by rw [he]; simp, fun f rest => ?_⟩
    rw [he]
    simp [parseStrF, hne, hd]
  · by_cases hc : (1 ≤ x ∧ x ≤ 31) ∨ (127 ≤ x ∧ x ≤ 159)
    · refine ⟨by rw [escChar_ctrl x hc hs]; simp, fun f rest => ?_⟩
      rw [escChar_ctrl x hc hs]
      have hx : hex4? (hex4U x ++ rest) = some (x, rest) := hex4_hex4U x (by omega) rest
      have hns : ¬ (55296 ≤ x ∧ x ≤ 56319) := by omega
      simp [parseStrF, hx, hns]
    · refine ⟨by rw [escChar_raw x hc hs]; simp, fun f rest => ?_⟩
      rw [escChar_raw x hc hs]
      have h1 : x ≠ 34 := by omega
      have h2 : x ≠ 92 := by omega
      have h3 : ¬ x < 32 := by omega
      simp [parseStrF, h1, h2, h3]

/-! ### json.dumps(ensure_ascii=True) + replace('/', '\/') -/

/-- the per-character reading of the string encoder of `serializeJson` -/
def serChar (c : Nat) : Str := if c = 47 then [92, 47] else pyDumpsChar c

theorem escOK_serChar (x : Nat) (hv : isScalar x = true) : EscOK serChar x := by
  simp only [isScalar, Bool.and_eq_true, decide_eq_true_eq, Bool.not_eq_true', Bool.and_eq_false_iff,
    decide_eq_false_iff_not] at hv
  by_cases hs : x = 92 ∨ x = 34 ∨ x = 8 ∨ x = 13 ∨ x = 10 ∨ x = 9 ∨ x = 12 ∨ x = 47
  · have : ∃ e, serChar x = [92, e] ∧ e ≠ 117 ∧ simpleEscape? e = some x := by
      rcases hs with h | h | h | h | h | h | h | h <;> subst h
      · exact ⟨92, by decide⟩
      · exact ⟨34, by decide⟩
      · exact ⟨98, by decide⟩
      · exact ⟨114, by decide⟩
      · exact ⟨110, by decide⟩
      · exact ⟨116, by decide⟩
      · exact ⟨102, by decide⟩
      · exact ⟨47, by decide⟩
    obtain ⟨e, he, hne, hd⟩ := this
    refine ⟨by rw [he]; simp, fun f rest => ?_⟩
    rw [he]
    simp [parseStrF, hne, hd]
  · have hn : x ≠ 92 ∧ x ≠ 34 ∧ x ≠ 8 ∧ x ≠ 13 ∧ x ≠ 10 ∧ x ≠ 9 ∧ x ≠ 12 ∧ x ≠ 47 := by omega
    by_cases hp : 32 ≤ x ∧ x ≤ 126
    · have he : serChar x = [x] := by simp [serChar, pyDumpsChar, hn, hp]
      refine ⟨by rw [he]; simp, fun f rest => ?_⟩
      rw [he]
      have h3 : ¬ x < 32 := by omega
      simp [parseStrF, hn.1, hn.2.1, h3]
    · by_cases hb : x < 65536
      · have he : serChar x = 92 :: 117 :: hex4L x := by
          simp [serChar, pyDumpsChar, hn, hp, hb]
        refine ⟨by rw [he]; simp, fun f rest => ?_⟩
        rw [he]
        have hx : hex4? (hex4L x ++ rest) = some (x, rest) := hex4_hex4L x hb rest
        have hns : ¬ (55296 ≤ x ∧ x ≤ 56319) := by omega
        simp [parseStrF, hx, hns]
      · have he : serChar x =
            92 :: 117 :: (hex4L (0xD800 + (x - 0x10000) / 1024 % 1024) ++
              92 :: 117 :: hex4L (0xDC00 + (x - 0x10000) % 1024)) := by
          simp [serChar, pyDumpsChar, hn, hp, hb]
        refine ⟨by rw [he]; simp, fun f rest => ?_⟩
        rw [he]
        have hhi : hex4? (hex4L (0xD800 + (x - 0x10000) / 1024 % 1024) ++
            92 :: 117 :: (hex4L (0xDC00 + (x - 0x10000) % 1024) ++ rest)) =
            some (0xD800 + (x - 0x10000) / 1024 % 1024, 92 :: 117 :: (hex4L (0xDC00 + (x - 0x10000) % 1024) ++ rest)) :=
          hex4_hex4L _ (by omega) _
        have hlo : hex4? (hex4L (0xDC00 + (x - 0x10000) % 1024) ++ rest) =
            some (0xDC00 + (x - 0x10000) % 1024, rest) := hex4_hex4L _ (by omega) _
        have hval : 0x10000 + (0xD800 + (x - 0x10000) / 1024 % 1024 - 0xD800) * 1024 +
            (0xDC00 + (x - 0x10000) % 1024 - 0xDC00) = x := by omega
        have h1 : 0xD800 ≤ 0xD800 + (x - 0x10000) / 1024 % 1024 ∧ 0xD800 + (x - 0x10000) / 1024 % 1024 ≤ 0xDBFF := by omega
        have h2 : 0xDC00 ≤ 0xDC00 + (x - 0x10000) % 1024 ∧ 0xDC00 + (x - 0x10000) % 1024 ≤ 0xDFFF := by omega
        simp only [List.cons_append, List.append_assoc, parseStrF]
        simp only [show (92 : Nat) ≠ 34 by decide, if_false, if_true]
        rw [hhi]
        simp only [h1, and_self, if_true]
        rw [hlo]
        simp only [h2, and_self, if_true, hval]

end EPV.Json

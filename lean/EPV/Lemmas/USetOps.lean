import EPV.Lemmas.USetAdd
import EPV.Lemmas.USetDiscard
namespace EPV.USet

/-- every entry of `o` is a non-empty interval -/
def AllValid (o : List CP) : Prop := ∀ v ∈ o, v.lo < v.hi

theorem winv_allValid : ∀ {l : List CP}, WInv l → AllValid l
  | [], _ => by intro v hv; cases hv
  | c :: cs, h => by
    intro v hv
    rcases List.mem_cons.mp hv with rfl | hv'
    · exact winv_head h
    · exact winv_allValid (winv_tail h) v hv'

theorem memL_iff_exists (x : Nat) (l : List CP) : memL x l ↔ ∃ v ∈ l, v.mem x := by
  induction l with
  | nil => simp [memL]
  | cons c cs ih => simp only [memL, ih, List.mem_cons]; grind

/-- folding `add` over any list of valid arguments: invariant kept, membership = union -/
theorem foldl_add (vs : List CP) (hv : AllValid vs) : ∀ (l : List CP), WInv l →
    WInv (vs.foldl (fun acc v => add v acc) l) ∧
    ∀ x, memL x (vs.foldl (fun acc v => add v acc) l) ↔ (memL x l ∨ ∃ v ∈ vs, v.mem x) := by
  induction vs with
  | nil => intro l hw; simp [hw]
  | cons v vs ih =>
    intro l hw
    have hvv : v.lo < v.hi := hv v (List.mem_cons_self ..)
    have hw' := addAux_winv v hvv l v.lo v.hi hvv hw (Or.inl ⟨rfl, rfl⟩)
    have hm' := addAux_mem v l v.lo v.hi hvv hw (Or.inl ⟨rfl, rfl⟩)
    obtain ⟨h1, h2⟩ := ih (fun u hu => hv u (List.mem_cons_of_mem _ hu)) (add v l) hw'
    refine ⟨h1, fun x => ?_⟩
    simp only [List.foldl_cons, h2 x]
    have := hm' x
    simp only [add] at *
    rw [this]
    simp only [List.mem_cons, CP.mem]
    grind

theorem foldl_discard (vs : List CP) (hv : AllValid vs) : ∀ (l : List CP), WInv l →
    WInv (vs.foldl (fun acc v => discard v acc) l) ∧
    ∀ x, memL x (vs.foldl (fun acc v => discard v acc) l) ↔ (memL x l ∧ ¬ ∃ v ∈ vs, v.mem x) := by
  induction vs with
  | nil => intro l hw; simp [hw]
  | cons v vs ih =>
    intro l hw
    have hvv : v.lo < v.hi := hv v (List.mem_cons_self ..)
    obtain ⟨hm', hw', _, _⟩ := discardAux_spec v.lo v.hi hvv l hw
    obtain ⟨h1, h2⟩ := ih (fun u hu => hv u (List.mem_cons_of_mem _ hu)) (discard v l) hw'
    refine ⟨h1, fun x => ?_⟩
    simp only [List.foldl_cons, h2 x]
    have := hm' x
    simp only [discard] at *
    rw [this]
    simp only [List.mem_cons, CP.mem]
    grind

theorem foldl_discard_canon (vs : List CP) (hv : AllValid vs) : ∀ (l : List CP), Canon l →
    Canon (vs.foldl (fun acc v => discard v acc) l) := by
  induction vs with
  | nil => intro l hc; simpa using hc
  | cons v vs ih =>
    intro l hc
    have hvv : v.lo < v.hi := hv v (List.mem_cons_self ..)
    exact ih (fun u hu => hv u (List.mem_cons_of_mem _ hu)) _ (discardAux_canon v.lo v.hi hvv l hc)

theorem allValid_reverse {o : List CP} (h : AllValid o) : AllValid o.reverse := by
  intro v hv; exact h v (List.mem_reverse.mp hv)

/-- `contains` (with its early exits) decides membership on sorted lists -/
theorem contains_iff (x : Nat) : ∀ (l : List CP), WInv l → (contains x l = true ↔ memL x l) := by
  intro l
  induction l with
  | nil => intro _; simp [contains, memL]
  | cons c cs ih =>
    intro hw
    have hc := winv_head hw
    have hlb := winv_lb hw x
    have ih' := ih (winv_tail hw)
    cases c with
    | rng a b =>
      simp only [contains, memL, CP.mem, CP.lo_rng, CP.hi_rng] at *
      split
      · simp only [Bool.false_eq_true, false_iff]; intro h; rcases h with h | h
        · omega
        · have := hlb h; omega
      · split
        · rw [ih']; constructor
          · exact Or.inr
          · intro h; rcases h with h | h
            · omega
            · exact h
        · simp only [true_iff]; left; omega
    | one n =>
      simp only [contains, memL, CP.mem, CP.lo_one, CP.hi_one] at *
      split
      · simp only [Bool.false_eq_true, false_iff]; intro h; rcases h with h | h
        · omega
        · have := hlb h; omega
      · split
        · rename_i h1 h2
          have : n = x := by simpa using h2
          simp only [true_iff]; left; omega
        · rename_i h1 h2
          have : ¬ n = x := by simpa using h2
          rw [ih']; constructor
          · exact Or.inr
          · intro h; rcases h with h | h
            · omega
            · exact h

/-- `x ∈ iter l` iff `x` is a member -/
theorem mem_iter (x : Nat) : ∀ (l : List CP), x ∈ iter l ↔ memL x l := by
  intro l
  induction l with
  | nil => simp [iter, memL]
  | cons c cs ih =>
    simp only [iter, List.mem_append, ih, memL, CP.mem, List.mem_range'_1]
    constructor
    · rintro (h | h)
      · left; omega
      · right; exact h
    · rintro (h | h)
      · left; omega
      · right; exact h

end EPV.USet

namespace EPV.USet

theorem iter_pairwise : ∀ (l : List CP), WInv l → (iter l).Pairwise (· < ·) := by
  intro l
  induction l with
  | nil => intro _; simp [iter]
  | cons c cs ih =>
    intro hw
    simp only [iter]
    rw [List.pairwise_append]
    refine ⟨List.pairwise_lt_range', ih (winv_tail hw), ?_⟩
    intro a ha b hb
    have hb' := winv_lb hw b ((mem_iter b cs).mp hb)
    have := List.mem_range'_1.mp ha
    omega

theorem iter_nodup (l : List CP) (hw : WInv l) : (iter l).Nodup :=
  (iter_pairwise l hw).imp (fun h => Nat.ne_of_lt h)

theorem foldl_discard_one (ns : List Nat) (l : List CP) :
    ns.foldl (fun acc n => discard (.one n) acc) l =
      (ns.map CP.one).foldl (fun acc v => discard v acc) l := by
  rw [List.foldl_map]

/-- the `__ixor__` loop over distinct code points: invariant kept, membership = symmetric difference -/
theorem foldl_xor (ns : List Nat) (hn : ns.Nodup) : ∀ (l : List CP), WInv l →
    WInv (ns.foldl (fun acc n => if contains n acc then discard (.one n) acc else add (.one n) acc) l) ∧
    ∀ x, memL x (ns.foldl (fun acc n => if contains n acc then discard (.one n) acc else add (.one n) acc) l)
      ↔ ((memL x l ∧ x ∉ ns) ∨ (¬ memL x l ∧ x ∈ ns)) := by
  induction ns with
  | nil => intro l hw; simp [hw]
  | cons n ns ih =>
    intro l hw
    obtain ⟨hnn, hns⟩ := List.nodup_cons.mp hn
    have hone : (CP.one n).lo < (CP.one n).hi := by simp
    simp only [List.foldl_cons]
    by_cases hc : contains n l = true
    · have hmem : memL n l := (contains_iff n l hw).mp hc
      rw [if_pos hc]
      obtain ⟨hm', hw', _, _⟩ := discardAux_spec n (n + 1) (by omega) l hw
      obtain ⟨h1, h2⟩ := ih hns (discard (.one n) l) hw'
      refine ⟨h1, fun x => ?_⟩
      rw [h2 x]
      have := hm' x
      simp only [discard, CP.lo_one, CP.hi_one] at *
      rw [this]
      simp only [List.mem_cons]
      by_cases hx : x = n
      · subst hx; simp [hmem, hnn]
      · have : ¬ (n ≤ x ∧ x < n + 1) := by omega
        simp [hx, this]
    · have hmem : ¬ memL n l := fun h => hc ((contains_iff n l hw).mpr h)
      rw [if_neg hc]
      have hw' := addAux_winv (.one n) hone l n (n + 1) (by omega) hw (Or.inl ⟨rfl, rfl⟩)
      have hm' := addAux_mem (.one n) l n (n + 1) (by omega) hw (Or.inl ⟨rfl, rfl⟩)
      obtain ⟨h1, h2⟩ := ih hns (add (.one n) l) hw'
      refine ⟨h1, fun x => ?_⟩
      rw [h2 x]
      have := hm' x
      simp only [add, CP.lo_one, CP.hi_one] at *
      rw [this]
      simp only [List.mem_cons]
      by_cases hx : x = n
      · subst hx; simp [hmem, hnn]
      · have : ¬ (n ≤ x ∧ x < n + 1) := by omega
        simp [hx, this]

end EPV.USet

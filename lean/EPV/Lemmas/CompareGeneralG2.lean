/-
C07 — one pair of a general comparison, left operand in date, dateTime, time: part of the 17 x 17 case analysis of
EPV/Lemmas/CompareGeneral.lean (split so that every file compiles in well under a minute).
-/
import EPV.Lemmas.CompareGeneralLemmas
set_option linter.unusedSimpArgs false
set_option linter.unusedVariables false
namespace EPV.Cmp
open EPV.CmpSpec EPV.CmpFind

def grpG2 : Atom → Bool
  | .date _ => true | .dtm _ => true | .time _ => true | _ => false

set_option maxHeartbeats 4000000 in
theorem pairGeneral_conforms_G2 (m : Mode) (op : Op) (a b : Atom) (hg : grpG2 a = true)
    (h1 : trigTol op a b = false) (h2 : trigPromotion a b = false)
    (h5 : pairSpec m op a b ≠ .error .unsupported) (h6 : pairGeneral m op a b ≠ .error .unsupported)
    (h8 : dtConsistent a b = true) :
    pairGeneral m op a b = pairSpec m op a b := by
  cases a <;> simp [grpG2] at hg <;> cases b <;>
      first
      | (gp_simp; done)
      | (simp [dtConsistent, Atom.isDT, Atom.dt] at h8; gp_simp; simp [dtCompare_eq_six _ _ _ h8]; done)
      | skip
  case date.ua => exact pg_temporal_ua m op _ _ rfl h5
  case dtm.ua => exact pg_temporal_ua m op _ _ rfl h5
  case time.ua => exact pg_temporal_ua m op _ _ rfl h5

end EPV.Cmp

/-
C07 — one pair of a general comparison, left operand in integer, decimal, double, float: part of the 17 x 17 case analysis of
EPV/Lemmas/CompareGeneral.lean (split so that every file compiles in well under a minute).
-/
import EPV.Lemmas.CompareGeneralLemmas
set_option linter.unusedSimpArgs false
set_option linter.unusedVariables false
namespace EPV.Cmp
open EPV.CmpSpec EPV.CmpFind

set_option maxHeartbeats 4000000 in
theorem pairGeneral_conforms_GN (m : Mode) (op : Op) (a b : Atom) (i : Nat) (hi : numRank a = some i)
    (h1 : trigTol op a b = false) (h2 : trigPromotion a b = false)
    (h5 : pairSpec m op a b ≠ .error .unsupported) (h6 : pairGeneral m op a b ≠ .error .unsupported)
    (h8 : dtConsistent a b = true) :
    pairGeneral m op a b = pairSpec m op a b := by
  cases hj : numRank b with
  | some j => exact pg_numeric m op a b i j hi hj h1 h2
  | none =>
    cases a <;> simp [numRank] at hi <;> cases b <;> simp [numRank] at hj <;>
      first
      | (gp_simp; done)
      | skip
    case int.ua v s => exact pg_num_ua m op s _ .nan (Or.inl ⟨v, rfl⟩) h5
    case dbl.ua d s => exact pg_num_ua m op s _ d (Or.inr (Or.inl rfl)) h5
    case flt.ua d s => exact pg_num_ua m op s _ d (Or.inr (Or.inr (Or.inr rfl))) h5
    case dec.ua q s => exact pg_num_ua m op s _ .nan (Or.inr (Or.inr (Or.inl ⟨q, rfl⟩))) h5

end EPV.Cmp

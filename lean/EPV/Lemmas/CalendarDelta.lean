/-
C11 — the abstraction from model values to specification values, and `todelta`.
-/
import EPV.Lemmas.Calendar
set_option linter.unusedVariables false
set_option linter.unusedSimpArgs false
namespace EPV.Cal
open EPV.Timeline (isLeap yearLen monthLen daysBeforeYearC daysBeforeMonthC dayNumC Val)

/-- astronomical year of the library's internal year number (`-1` is 1 BCE = year 0) -/
def astro (y : Int) : Int := if y > 0 then y else y + 1

/-- internal year number of an astronomical year -/
def internal (a : Int) : Int := if a > 0 then a else a - 1

/-- the specification value denoted by a model value -/
def absV (v : DT) : Val := ⟨astro v.year, v.month, v.day, v.us, v.tz⟩

def TzOk (tz : Option Int) : Prop := ∀ z, tz = some z → -840 ≤ z ∧ z ≤ 840

instance (tz : Option Int) : Decidable (TzOk tz) := by
  unfold TzOk
  cases tz with
  | none => exact isTrue (by intro z h; cases h)
  | some w => exact decidable_of_iff (-840 ≤ w ∧ w ≤ 840) ⟨fun h z hz => by cases hz; exact h, fun h => h w rfl⟩

/-- a well-formed value: non-zero internal year, calendar date of its (astronomical) year, time of
day inside the day, timezone within ±14:00 -/
def DT.Valid (v : DT) : Prop := v.year ≠ 0 ∧ (absV v).Valid ∧ TzOk v.tz

instance (v : DT) : Decidable v.Valid := by unfold DT.Valid; exact inferInstance

/-- the `datetime.timedelta` range: |days| ≤ 999 999 999 (complement = trigger of finding F11d) -/
def TdOk (t : Int) : Prop := -999999999 ≤ t / US ∧ t / US ≤ 999999999

instance (t : Int) : Decidable (TdOk t) := by unfold TdOk; exact inferInstance

theorem tdNorm_ok {t : Int} (h : TdOk t) : tdNorm t = .ok t := by
  unfold tdNorm TdOk at *
  have : ¬ (t / US < -999999999 ∨ t / US > 999999999) := by omega
  simp [this]

theorem tdNorm_err {t : Int} (h : ¬ TdOk t) : tdNorm t = .error .overflow := by
  unfold tdNorm TdOk at *
  have : (t / US < -999999999 ∨ t / US > 999999999) := by omega
  simp [this]

theorem tdNorm_eq_ok {t u : Int} (h : tdNorm t = .ok u) : u = t ∧ TdOk t := by
  by_cases ht : TdOk t
  · rw [tdNorm_ok ht] at h; cases h; exact ⟨rfl, ht⟩
  · rw [tdNorm_err ht] at h; cases h

theorem astro_internal (a : Int) : astro (internal a) = a := by unfold astro internal; split <;> (try split) <;> omega
theorem internal_astro (y : Int) (h : y ≠ 0) : internal (astro y) = y := by unfold astro internal; split <;> (try split) <;> omega
theorem internal_ne_zero (a : Int) : internal a ≠ 0 := by unfold internal; split <;> omega

theorem proxyLeap_eq (y : Int) (h : y ≠ 0) : proxyLeap y = isLeap (astro y) := by
  unfold proxyLeap astro
  rw [isleap_eq]
  split <;> split <;> first | rfl | omega

theorem pyDaysBeforeYear_eq (y : Int) : pyDaysBeforeYear y = daysBeforeYearC y := by
  unfold pyDaysBeforeYear daysBeforeYearC; simp only []; omega

theorem pyYmd2ord_eq (y m d : Int) : pyYmd2ord y m d = dayNumC y m d + 1 := by
  unfold pyYmd2ord dayNumC
  rw [pyDaysBeforeYear_eq, isleap_eq, daysBeforeMonth_eq]; omega

/-- **`todelta` is the instant on the timeline** (µs since 0001-01-01T00:00:00Z), whenever it fits a
`timedelta`; otherwise it is the `OverflowError` of finding F11d.  Every valid value, unbounded years. -/
theorem todelta_eq (v : DT) (hv : v.Valid) : todelta v = tdNorm (absV v).instantC := by
  obtain ⟨y, m, d, u, tz⟩ := v
  obtain ⟨hy, ⟨hm1, hm12, hd1, hd2, hu0, hu1⟩, htz⟩ := hv
  simp only [absV] at hm1 hm12 hd1 hd2 hu0 hu1 hy htz
  have hz : ∀ z, tz = some z → -50400000000 ≤ z * 60000000 ∧ z * 60000000 ≤ 50400000000 := by
    intro z h; have := htz z h; omega
  unfold todelta
  rcases tz with _ | z
  all_goals simp only [Val.instantC, Val.localC, absV, Cal.UM, Timeline.UM]
  all_goals try have hz' := hz z rfl
  all_goals (
    have hml := Timeline.monthLen_pos (astro y) m
    have hdbm := Timeline.daysBeforeMonthC_nonneg (astro y) m
    have hdbm2 := Timeline.daysBeforeMonthC_le (astro y) m
    split
    · -- 1..9999
      rename_i hr
      have ha : astro y = y := by unfold astro; split <;> omega
      rw [ha] at hml hdbm hdbm2 hd2 ⊢
      have hlo := Timeline.daysBeforeYearC_mono (show (1 : Int) ≤ y by omega)
      have hhi := Timeline.daysBeforeYearC_mono (show y ≤ 9999 by omega)
      have e1 : daysBeforeYearC 1 = 0 := by decide
      have e2 : daysBeforeYearC 9999 = 3651694 := by decide
      rw [tdNorm_ok]
      · unfold pyOrdUs; rw [pyYmd2ord_eq]; simp only [Cal.US, Timeline.US] at *; congr 1; omega
      · unfold TdOk dayNumC
        simp only [Cal.US, Timeline.US] at *; omega
    · rename_i hr
      congr 1
      split
      · rename_i hpos
        have ha : astro y = y := by unfold astro; split <;> omega
        rw [ha, dfce_eq_C, isleap_eq, daysBeforeMonth_eq]
        unfold dayNumC
        have : y - 1 + 1 = y := by omega
        rw [this]; simp only [Cal.US, Timeline.US] at *; omega
      · rename_i hneg
        have ha : astro y = y + 1 := by unfold astro; split <;> omega
        rw [ha, dfce_eq_C, isleap_eq, daysBeforeMonth_eq]
        unfold dayNumC
        simp only [Cal.US, Timeline.US] at *; omega)

end EPV.Cal

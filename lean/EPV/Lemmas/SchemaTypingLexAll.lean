/-
Lemmas for C20, part 6 (phase 5): the decoder's constructors are the XSD lexical mappings on EVERY text.
A text of two or more tokens keeps an inner white-space character under Python's `strip` AND under
whiteSpace=collapse; every recogniser of a non-string builtin rejects a text that contains a white-space
character.  Hence both sides reject.
-/
import EPV.Lemmas.SchemaTypingLex
namespace EPV.Xsd
open EPV.Xsd.Spec

/-- no white-space character in the list -/
def noWsL (l : List Char) : Bool := l.all fun c => !isWs c

theorem noWsL_iff (l : List Char) : noWsL l = true ↔ ∀ c ∈ l, isWs c = false := by simp [noWsL]

@[simp] theorem noWsL_nil : noWsL [] = true := rfl
@[simp] theorem noWsL_cons (c : Char) (l : List Char) : noWsL (c :: l) = (!isWs c && noWsL l) := by simp [noWsL]
@[simp] theorem noWsL_append (l m : List Char) : noWsL (l ++ m) = (noWsL l && noWsL m) := by simp [noWsL]

/-! ## part 1: two or more tokens ⇒ `strip` and `collapse` keep a white-space character -/

theorem splitWsAux_allWs : ∀ (cs : List Char), (∀ c ∈ cs, isWs c = true) → splitWsAux cs [] = []
  | [], _ => by simp [splitWsAux]
  | c :: cs, h => by
    have hc := h c List.mem_cons_self
    simp only [splitWsAux, hc, if_true, List.isEmpty_nil]
    exact splitWsAux_allWs cs (fun d hd => h d (List.mem_cons_of_mem _ hd))

theorem splitWsAux_ws_len (post cur : List Char) (hp : ∀ c ∈ post, isWs c = true) :
    (splitWsAux post cur).length ≤ 1 := by
  cases post with
  | nil => simp only [splitWsAux]; split <;> simp
  | cons c cs =>
    have hc := hp c List.mem_cons_self
    have hr := splitWsAux_allWs cs (fun d hd => hp d (List.mem_cons_of_mem _ hd))
    simp only [splitWsAux, hc, if_true, hr]
    split <;> simp

theorem splitWsAux_word_then : ∀ (w post cur : List Char), (∀ c ∈ w, isWs c = false) →
    splitWsAux (w ++ post) cur = splitWsAux post (w.reverse ++ cur)
  | [], _, _, _ => by simp
  | c :: w, post, cur, hw => by
    have hc := hw c List.mem_cons_self
    simp only [List.cons_append, splitWsAux, hc, Bool.false_eq_true, if_false]
    rw [splitWsAux_word_then w post (c :: cur) (fun d hd => hw d (List.mem_cons_of_mem _ hd))]
    simp

theorem splitWsAux_lead : ∀ (lead r : List Char), (∀ c ∈ lead, isWs c = true) →
    splitWsAux (lead ++ r) [] = splitWsAux r []
  | [], _, _ => rfl
  | c :: lead, r, h => by
    have hc := h c List.mem_cons_self
    simp only [List.cons_append, splitWsAux, hc, if_true, List.isEmpty_nil]
    exact splitWsAux_lead lead r (fun d hd => h d (List.mem_cons_of_mem _ hd))

theorem mem_takeWhile_true {p : Char → Bool} : ∀ (l : List Char) (c : Char), c ∈ l.takeWhile p → p c = true
  | [], _, h => by simp at h
  | x :: xs, c, h => by
    by_cases hx : p x = true
    · rw [List.takeWhile_cons, if_pos hx] at h
      cases h with
      | head => exact hx
      | tail _ h => exact mem_takeWhile_true xs c h
    · rw [List.takeWhile_cons, if_neg hx] at h; simp at h

/-- `cs = lead ++ strip cs ++ post` with white-space `lead` and `post` -/
theorem stripL_decomp (cs : List Char) : ∃ lead post, cs = lead ++ stripL cs ++ post ∧
    (∀ c ∈ lead, isWs c = true) ∧ (∀ c ∈ post, isWs c = true) := by
  refine ⟨cs.takeWhile isWs, (((cs.dropWhile isWs).reverse).takeWhile isWs).reverse, ?_,
    mem_takeWhile_true cs, fun c hc => mem_takeWhile_true _ c (List.mem_reverse.mp hc)⟩
  unfold stripL
  rw [List.append_assoc, ← List.reverse_append, List.takeWhile_append_dropWhile, List.reverse_reverse,
    List.takeWhile_append_dropWhile]

/-- a stripped text without white space is at most one token -/
theorem tokens_le_one_of_strip_noWs (cs : List Char) (h : noWsL (stripL cs) = true) :
    (splitWsAux cs []).length ≤ 1 := by
  obtain ⟨lead, post, hcs, hl, hp⟩ := stripL_decomp cs
  rw [hcs, List.append_assoc, splitWsAux_lead lead _ hl, splitWsAux_word_then _ post [] ((noWsL_iff _).mp h)]
  exact splitWsAux_ws_len post _ hp

/-- **two or more tokens: `strip` keeps an inner white-space character** -/
theorem strip_hasWs (s : String) (h : ¬ (splitWs s).length ≤ 1) : noWsL (strip s).toList = false := by
  cases hn : noWsL (strip s).toList with
  | false => rfl
  | true =>
    exfalso; apply h
    rw [strip_eq, String.toList_ofList] at hn
    simpa [splitWs] using tokens_le_one_of_strip_noWs s.toList hn

/-- **two or more tokens: `collapse` keeps an inner space** -/
theorem collapse_hasWs (s : String) (h : ¬ (splitWs s).length ≤ 1) : noWsL (collapse s).toList = false := by
  unfold collapse
  cases hs : splitWs s with
  | nil => rw [hs] at h; simp at h
  | cons a r =>
    cases r with
    | nil => rw [hs] at h; simp at h
    | cons b r => simp [String.intercalate_cons_cons, isWs]

/-! ## part 2: every recogniser rejects a text with a white-space character -/

theorem digit_noWs (c : Char) (h : (digitVal? c).isSome = true) : isWs c = false := by
  cases hw : isWs c with
  | false => rfl
  | true =>
    simp only [isWs, Bool.or_eq_true, beq_iff_eq] at hw
    rcases hw with ((rfl | rfl) | rfl) | rfl <;> revert h <;> decide

theorem allDigits_noWs (l : List Char) (h : allDigits l = true) : noWsL l = true := by
  rw [noWsL_iff]
  intro c hc
  simp only [allDigits, List.all_eq_true] at h
  exact digit_noWs c (h c hc)

/-- one step of `natOfDigits?` -/
abbrev stepD (acc : Option Nat) (c : Char) : Option Nat := do
  let a ← acc; let d ← digitVal? c; pure (a * 10 + d)

theorem foldl_stepD_none : ∀ (cs : List Char), cs.foldl stepD none = none
  | [] => rfl
  | _ :: cs => foldl_stepD_none cs

theorem foldl_stepD_digits : ∀ (cs : List Char) (a : Option Nat) (n : Nat), cs.foldl stepD a = some n →
    ∀ c ∈ cs, (digitVal? c).isSome = true
  | [], _, _, _, c, hc => by simp at hc
  | x :: xs, a, n, h, c, hc => by
    rw [List.foldl_cons] at h
    cases hx : digitVal? x with
    | none =>
      have : stepD a x = none := by cases a <;> simp [stepD, hx]
      rw [this, foldl_stepD_none] at h; cases h
    | some d =>
      cases hc with
      | head => simp [hx]
      | tail _ hc => exact foldl_stepD_digits xs _ n h c hc

theorem natOfDigits_noWs (cs : List Char) (n : Nat) (h : natOfDigits? cs = some n) : noWsL cs = true := by
  rw [noWsL_iff]
  intro c hc
  unfold natOfDigits? at h
  split at h
  · cases h
  · exact digit_noWs c (foldl_stepD_digits cs (some 0) n h c hc)

theorem splitSign_noWs (l : List Char) (h : noWsL (splitSign l).2 = true) : noWsL l = true := by
  unfold splitSign at h
  split at h
  · simpa [isWs] using h
  · simpa [isWs] using h
  · exact h

theorem intOfLex_noWs (t : String) (v : Int) (h : intOfLex? t = some v) : noWsL t.toList = true := by
  apply splitSign_noWs
  unfold intOfLex? at h
  cases hs : splitSign t.toList with
  | mk neg r =>
    rw [hs] at h
    simp only at h
    cases hn : natOfDigits? r with
    | none => rw [hn] at h; simp at h
    | some n => exact natOfDigits_noWs r n hn

theorem dropWhile_head_false {p : Char → Bool} : ∀ (l : List Char) {x : Char} {xs : List Char},
    l.dropWhile p = x :: xs → p x = false
  | [], _, _, h => by simp at h
  | c :: cs, x, xs, h => by
    by_cases hc : p c = true
    · rw [List.dropWhile_cons, if_pos hc] at h; exact dropWhile_head_false cs h
    · rw [List.dropWhile_cons, if_neg hc] at h; cases h; simpa using hc

theorem decOfLex_noWs (t : String) (c : String) (h : decOfLex? t = some c) : noWsL t.toList = true := by
  apply splitSign_noWs
  unfold decOfLex? at h
  cases hs : splitSign t.toList with
  | mk neg r =>
    rw [hs] at h
    simp only at h
    have hr := @List.takeWhile_append_dropWhile _ (· != '.') r
    split at h
    · rename_i heq
      split at h
      · rename_i hc
        simp only [Bool.and_eq_true] at hc
        show noWsL r = true
        rw [← hr, heq, List.append_nil]; exact allDigits_noWs _ hc.2
      · cases h
    · rename_i x fp heq
      split at h
      · rename_i hc
        simp only [Bool.and_eq_true] at hc
        have hx := dropWhile_head_false r heq
        have hx' : x = '.' := by simpa using hx
        show noWsL r = true
        rw [← hr, heq, noWsL_append, noWsL_cons, allDigits_noWs _ hc.1.1, allDigits_noWs _ hc.1.2, hx']
        decide
      · cases h

theorem mant_noWs (mant : List Char) (hip : allDigits (mant.takeWhile (· != '.')) = true)
    (hfp : allDigits ((mant.dropWhile (· != '.')).drop 1) = true) : noWsL mant = true := by
  rw [← @List.takeWhile_append_dropWhile _ (· != '.') mant, noWsL_append, allDigits_noWs _ hip]
  cases hd : mant.dropWhile (· != '.') with
  | nil => rfl
  | cons x fp =>
    have hx : x = '.' := by simpa using dropWhile_head_false mant hd
    rw [hd] at hfp
    simp only [List.drop_succ_cons, List.drop_zero] at hfp
    rw [noWsL_cons, allDigits_noWs _ hfp, hx]; decide

theorem ex_noWs (r : List Char)
    (hex : (match r.dropWhile (fun c => c != 'e' && c != 'E') with
      | [] => true
      | _ :: e => let (_, d) := splitSign e; !d.isEmpty && allDigits d) = true) :
    noWsL (r.dropWhile (fun c => c != 'e' && c != 'E')) = true := by
  cases hd : r.dropWhile (fun c => c != 'e' && c != 'E') with
  | nil => rfl
  | cons x e =>
    have hx := dropWhile_head_false r hd
    have hx' : isWs x = false := by
      simp only [Bool.and_eq_false_iff, bne_eq_false_iff_eq] at hx
      rcases hx with rfl | rfl <;> decide
    rw [hd] at hex
    simp only at hex
    cases hs : splitSign e with
    | mk sg d =>
      rw [hs] at hex
      simp only [Bool.and_eq_true] at hex
      have he : noWsL e = true := splitSign_noWs e (by rw [hs]; exact allDigits_noWs d hex.2)
      simp [hx', he]

theorem isPyFinite_noWs (t : String) (h : isPyFinite t = true) : noWsL t.toList = true := by
  apply splitSign_noWs
  unfold isPyFinite at h
  cases hs : splitSign t.toList with
  | mk neg r =>
    rw [hs] at h
    simp only [Bool.and_eq_true] at h
    obtain ⟨⟨⟨⟨hip, hfp⟩, _⟩, _⟩, hex⟩ := h
    show noWsL r = true
    rw [← @List.takeWhile_append_dropWhile _ (fun c => c != 'e' && c != 'E') r, noWsL_append,
      mant_noWs _ hip hfp, ex_noWs r hex]
    rfl

theorem isXsdDouble_noWs (t : String) (h : isXsdDouble t = true) : noWsL t.toList = true := by
  unfold isXsdDouble at h
  simp only [Bool.or_eq_true, beq_iff_eq] at h
  rcases h with (((h | rfl) | rfl) | rfl) | rfl
  · exact isPyFinite_noWs t h
  all_goals decide

/-! ### dates -/

theorem drop_length_takeWhile {p : Char → Bool} : ∀ l : List Char, l.drop (l.takeWhile p).length = l.dropWhile p
  | [] => rfl
  | c :: cs => by
    by_cases hc : p c = true <;> simp [hc, drop_length_takeWhile cs]

/-- `yearRest` after the optional minus sign -/
def yearBody (cs : List Char) : Option (List Char) :=
  let y := cs.takeWhile (fun c => (digitVal? c).isSome)
  let shapeOk := y.length == 4 || (y.length > 4 && y.head? != some '0')
  match natOfDigits? y with
  | some v => if shapeOk && v ≤ 2147483647 then some (cs.drop y.length) else none
  | none => none

theorem yearRest_eq (cs : List Char) : yearRest cs = yearBody (match cs with | '-' :: r => r | r => r) := rfl

theorem yearBody_noWs (cs rest : List Char) (h : yearBody cs = some rest) :
    ∃ pre, cs = pre ++ rest ∧ noWsL pre = true := by
  unfold yearBody at h
  simp only at h
  split at h
  · split at h
    · cases h
      refine ⟨cs.takeWhile (fun c => (digitVal? c).isSome), ?_, ?_⟩
      · rw [drop_length_takeWhile, List.takeWhile_append_dropWhile]
      · rw [noWsL_iff]; intro c hc; exact digit_noWs c (mem_takeWhile_true _ c hc)
    · cases h
  · cases h

theorem yearRest_noWs (cs rest : List Char) (h : yearRest cs = some rest) :
    ∃ pre, cs = pre ++ rest ∧ noWsL pre = true := by
  rw [yearRest_eq] at h
  split at h
  · obtain ⟨pre, hp, hw⟩ := yearBody_noWs _ _ h
    exact ⟨'-' :: pre, by rw [hp]; rfl, by rw [noWsL_cons, hw]; decide⟩
  · exact yearBody_noWs _ _ h

theorem isTzLex_noWs (tz : List Char) (h : isTzLex tz = true) : noWsL tz = true := by
  unfold isTzLex at h
  simp only [Bool.or_eq_true] at h
  rcases h with (h | h) | h
  · have : tz = [] := by simpa using h
    subst this; rfl
  · have : tz = ['Z'] := by simpa using h
    subst this; decide
  · split at h
    · rename_i sg h1 h2 n1 n2
      simp only [Bool.and_eq_true, Bool.or_eq_true, beq_iff_eq] at h
      have hd := allDigits_noWs _ h.2
      simp only [noWsL_cons, noWsL_nil, Bool.and_eq_true, Bool.and_true] at hd ⊢
      refine ⟨?_, hd.1, hd.2.1, by decide, hd.2.2⟩
      rcases h.1 with rfl | rfl <;> decide
    · cases h

theorem twoDigitsIn_noWs (a b : Char) (lo hi : Nat) (h : twoDigitsIn a b lo hi = true) :
    isWs a = false ∧ isWs b = false := by
  unfold twoDigitsIn at h
  split at h
  · rename_i v hv
    have := natOfDigits_noWs _ _ hv
    simpa using this
  · cases h

theorem isWs_dash : isWs '-' = false := by decide
theorem isWs_T : isWs 'T' = false := by decide
theorem isWs_colon : isWs ':' = false := by decide

theorem isGYearLex_noWs (t : String) (h : isGYearLex t = true) : noWsL t.toList = true := by
  unfold isGYearLex at h
  split at h
  · rename_i tz heq
    obtain ⟨pre, hcs, hpre⟩ := yearRest_noWs _ _ heq
    rw [hcs, noWsL_append, hpre, isTzLex_noWs tz h]; rfl
  · cases h

theorem isGYearMonthLex_noWs (t : String) (h : isGYearMonthLex t = true) : noWsL t.toList = true := by
  unfold isGYearMonthLex at h
  split at h
  · rename_i m1 m2 tz heq
    obtain ⟨pre, hcs, hpre⟩ := yearRest_noWs _ _ heq
    simp only [Bool.and_eq_true] at h
    have hm := twoDigitsIn_noWs _ _ _ _ h.1
    rw [hcs]; simp [hpre, hm.1, hm.2, isTzLex_noWs tz h.2, isWs_dash]
  · cases h

theorem isDateLex_noWs (t : String) (h : isDateLex t = true) : noWsL t.toList = true := by
  unfold isDateLex at h
  split at h
  · rename_i m1 m2 d1 d2 tz heq
    obtain ⟨pre, hcs, hpre⟩ := yearRest_noWs _ _ heq
    simp only [Bool.and_eq_true] at h
    have hm := twoDigitsIn_noWs _ _ _ _ h.1.1
    have hd := twoDigitsIn_noWs _ _ _ _ h.1.2
    rw [hcs]; simp [hpre, hm.1, hm.2, hd.1, hd.2, isTzLex_noWs tz h.2, isWs_dash]
  · cases h

theorem isDateTimeLex_noWs (t : String) (h : isDateTimeLex t = true) : noWsL t.toList = true := by
  unfold isDateTimeLex at h
  split at h
  · rename_i m1 m2 d1 d2 h1 h2 n1 n2 s1 s2 r heq
    obtain ⟨pre, hcs, hpre⟩ := yearRest_noWs _ _ heq
    simp only [Bool.and_eq_true] at h
    obtain ⟨⟨⟨⟨⟨hm, hd⟩, hh⟩, hn⟩, hs⟩, hr⟩ := h
    have hm := twoDigitsIn_noWs _ _ _ _ hm
    have hd := twoDigitsIn_noWs _ _ _ _ hd
    have hh := twoDigitsIn_noWs _ _ _ _ hh
    have hn := twoDigitsIn_noWs _ _ _ _ hn
    have hs := twoDigitsIn_noWs _ _ _ _ hs
    have hr' : noWsL r = true := by
      split at hr
      · rename_i f
        simp only [Bool.and_eq_true] at hr
        have htz := isTzLex_noWs _ hr.2
        rw [drop_length_takeWhile] at htz
        rw [noWsL_cons, ← @List.takeWhile_append_dropWhile _ (fun c => (digitVal? c).isSome) f, noWsL_append, htz]
        have : noWsL (f.takeWhile (fun c => (digitVal? c).isSome)) = true := by
          rw [noWsL_iff]; intro c hc; exact digit_noWs c (mem_takeWhile_true _ c hc)
        rw [this]; decide
      · exact isTzLex_noWs _ hr
    rw [hcs]; simp [hpre, hm.1, hm.2, hd.1, hd.2, hh.1, hh.2, hn.1, hn.2, hs.1, hs.2, hr', isWs_dash, isWs_T, isWs_colon]
  · cases h

/-! ## part 3: the decoder on every text -/

/-- builtins whose constructor applies its white-space facet itself (no `strip`) -/
def isStrFam : B → Bool
  | .anyType | .anySimpleType | .anyAtomicType | .untypedAtomic
  | .string | .normalizedString | .token | .anyURI => true
  | _ => false

/-- **a literal of a non-string builtin contains no white-space character** (XSD 1.1 Part 2 §3.3/§3.4:
the lexical spaces of boolean, decimal, double, the integer family, date, dateTime, gYear, gYearMonth) -/
theorem xsdLex_some_noWs (b : B) (hb : isStrFam b = false) (t : String) (a : Atom)
    (h : xsdLex b t = some a) : noWsL t.toList = true := by
  cases b <;> first
    | (exact absurd hb (by decide))
    | (simp only [xsdLex] at h
       first
        | (cases hi : intOfLex? t with
           | none => rw [hi] at h; cases h
           | some v => exact intOfLex_noWs t v hi)
        | (cases hd : decOfLex? t with
           | none => rw [hd] at h; cases h
           | some c => exact decOfLex_noWs t c hd)
        | (split at h
           · rename_i hc; simp only [Bool.or_eq_true, beq_iff_eq] at hc; rcases hc with rfl | rfl <;> decide
           · split at h
             · rename_i hc; simp only [Bool.or_eq_true, beq_iff_eq] at hc; rcases hc with rfl | rfl <;> decide
             · cases h)
        | (split at h
           · first
              | (rename_i hc; first
                  | exact isXsdDouble_noWs t hc | exact isDateLex_noWs t hc | exact isDateTimeLex_noWs t hc
                  | exact isGYearLex_noWs t hc | exact isGYearMonthLex_noWs t hc)
           · cases h))

/-- for a non-string builtin the decoder's constructor is the lexical mapping applied to `strip s` -/
theorem pyDecode_eq_xsdLex_strip (b : B) (hb : isStrFam b = false) (s : String) :
    pyDecode b s = xsdLex b (strip s) := by
  cases b <;> first
    | (exact absurd hb (by decide))
    | (simp only [xsdLex, pyDecode]; done)
    | (simp only [xsdLex, pyDecode]; cases hi : intOfLex? (strip s) <;> with_reducible rfl)

/-- a text with a white-space character is in the lexical space of no non-string builtin -/
theorem xsdLex_none_of_hasWs (b : B) (hb : isStrFam b = false) (t : String)
    (h : noWsL t.toList = false) : xsdLex b t = none := by
  cases hx : xsdLex b t with
  | none => rfl
  | some a => have := xsdLex_some_noWs b hb t a hx; rw [h] at this; cases this

/-- **the decoder's constructors ARE the XSD lexical mappings — every builtin, EVERY text** (no
one-token hypothesis): on at most one token `strip` = `collapse`; on two or more tokens both keep an
inner white-space character and both sides reject (non-string builtins), while the string family's
constructors apply the white-space facet themselves. -/
theorem pyDecode_eq_xsdLex_all (b : B) (s : String) : pyDecode b s = xsdLex b (normalize b s) := by
  by_cases h1 : (splitWs s).length ≤ 1
  · exact pyDecode_eq_xsdLex b s h1
  · cases hb : isStrFam b with
    | true => cases b <;> first | (exact absurd hb (by decide)) | rfl
    | false =>
      have hn : normalize b s = collapse s := by
        cases b <;> first | (exact absurd hb (by decide)) | rfl
      rw [hn, pyDecode_eq_xsdLex_strip b hb s, xsdLex_none_of_hasWs b hb _ (strip_hasWs s h1),
        xsdLex_none_of_hasWs b hb _ (collapse_hasWs s h1)]

/-- multi-token texts are rejected by the decoder of every non-string builtin -/
theorem pyDecode_multi_none (b : B) (hb : isStrFam b = false) (s : String) (h : ¬ (splitWs s).length ≤ 1) :
    pyDecode b s = none := by
  rw [pyDecode_eq_xsdLex_strip b hb s]; exact xsdLex_none_of_hasWs b hb _ (strip_hasWs s h)

end EPV.Xsd

import EPV.Lemmas.USetCoalesce
namespace EPV.USet

/-- remove `e` from the front of the first list whose head is `e` -/
def popHead (e : CP) : List (List CP) → Option (List (List CP))
  | [] => none
  | [] :: ms => (popHead e ms).map ([] :: ·)
  | (h :: t) :: ms => if h = e then some (t :: ms) else (popHead e ms).map ((h :: t) :: ·)

/-- certificate check: `flat` is an interleaving (k-way merge) of the lists `ms` -/
def unmerge : List CP → List (List CP) → Bool
  | [], ms => ms.all List.isEmpty
  | e :: flat, ms =>
    match popHead e ms with
    | some ms' => unmerge flat ms'
    | none => false

theorem popHead_spec (e : CP) : ∀ (ms ms' : List (List CP)), popHead e ms = some ms' →
    ∀ x, (∃ m ∈ ms, memL x m) ↔ (e.mem x ∨ ∃ m ∈ ms', memL x m) := by
  intro ms
  induction ms with
  | nil => intro ms' h; cases h
  | cons m ms ih =>
    intro ms' h x
    cases m with
    | nil =>
      simp only [popHead, Option.map_eq_some_iff] at h
      obtain ⟨r, hr, rfl⟩ := h
      have := ih r hr x
      simp only [List.mem_cons, exists_eq_or_imp, memL, false_or]
      exact this
    | cons hd tl =>
      simp only [popHead] at h
      split at h
      · rename_i heq
        cases h
        subst heq
        simp only [List.mem_cons, exists_eq_or_imp, memL]
        grind
      · simp only [Option.map_eq_some_iff] at h
        obtain ⟨r, hr, rfl⟩ := h
        have := ih r hr x
        simp only [List.mem_cons, exists_eq_or_imp]
        grind

theorem unmerge_spec : ∀ (flat : List CP) (ms : List (List CP)), unmerge flat ms = true →
    ∀ x, memL x flat ↔ ∃ m ∈ ms, memL x m := by
  intro flat
  induction flat with
  | nil =>
    intro ms h x
    simp only [unmerge, List.all_eq_true, List.isEmpty_iff] at h
    simp only [memL, false_iff]
    rintro ⟨m, hm, hx⟩
    rw [h m hm] at hx
    exact hx
  | cons e flat ih =>
    intro ms h x
    simp only [unmerge] at h
    split at h
    · rename_i ms' hp
      rw [popHead_spec e ms ms' hp x, memL, ih ms' h x]
    · cases h

end EPV.USet

/-
C15 — deep observation of values (full unfolding through the store) and its stability under
store extension.
-/
import EPV.Lemmas.MapArrayHeap
namespace EPV.MapArray

/-- addresses mentioned by a sequence / an object -/
def seqRefs (v : Seq) : List Nat := v.filterMap fun it => match it with | .ref a => some a | .atom _ => none

def objRefs : Obj → List Nat
  | .arr ms => ms.flatMap seqRefs
  | .map es => es.flatMap fun e => seqRefs e.2

/-- every object only mentions addresses inside the store -/
def Closed (s : Store) : Prop := ∀ (a : Nat) (o : Obj), s[a]? = some o → ∀ r ∈ objRefs o, r < s.length

/-- what an observer sees of a value: its full unfolding into a token stream (depth `fuel`) -/
inductive Tok where
  | atom (k : Key) | key (k : Key) | arrOpen | arrClose | mapOpen | mapClose | seqOpen | seqClose | cut
  deriving DecidableEq

mutual
  def obsItem (s : Store) : Nat → Item → List Tok
    | _, .atom k => [.atom k]
    | 0, .ref _ => [.cut]
    | fuel + 1, .ref a =>
      match s[a]? with
      | some (.arr ms) => [.arrOpen] ++ ms.flatMap (obsSeq s fuel) ++ [.arrClose]
      | some (.map es) => [.mapOpen] ++ es.flatMap (fun e => .key e.1 :: obsSeq s fuel e.2) ++ [.mapClose]
      | none => [.cut]
  def obsSeq (s : Store) : Nat → Seq → List Tok
    | 0, _ => [.cut]
    | fuel + 1, v => [.seqOpen] ++ v.flatMap (obsItem s fuel) ++ [.seqClose]
end

theorem mem_seqRefs {v : Seq} {a : Nat} (h : Item.ref a ∈ v) : a ∈ seqRefs v := by
  unfold seqRefs
  exact List.mem_filterMap.2 ⟨.ref a, h, rfl⟩

theorem flatMap_congr_mem {α β : Type} {l : List α} {f g : α → List β} (h : ∀ x ∈ l, f x = g x) :
    l.flatMap f = l.flatMap g := by
  rw [List.flatMap_def, List.flatMap_def]; congr 1; exact List.map_congr_left h

/-- **deep observation is stable**: extending the store does not change what any value whose
addresses lie in the old (closed) store unfolds to -/
theorem obs_stable {s s' : Store} (hp : s <+: s') (hc : Closed s) (fuel : Nat) :
    (∀ it : Item, (∀ a, it = .ref a → a < s.length) → obsItem s' fuel it = obsItem s fuel it) ∧
    (∀ v : Seq, (∀ r ∈ seqRefs v, r < s.length) → obsSeq s' fuel v = obsSeq s fuel v) := by
  induction fuel with
  | zero =>
    constructor
    · intro it _; cases it <;> simp [obsItem]
    · intro v _; simp [obsSeq]
  | succ n ih =>
    constructor
    · intro it hit
      cases it with
      | atom k => simp [obsItem]
      | ref a =>
        have ha := hit a rfl
        have hget : s'[a]? = s[a]? := prefix_getElem? hp ha
        simp only [obsItem, hget]
        cases hs : s[a]? with
        | none => rfl
        | some o =>
          have hrefs := hc a o hs
          cases o with
          | arr ms =>
            simp only
            congr 2
            apply flatMap_congr_mem
            intro m hm
            apply ih.2
            intro r hr
            exact hrefs r (by simp only [objRefs]; exact List.mem_flatMap.2 ⟨m, hm, hr⟩)
          | map es =>
            simp only
            congr 2
            apply flatMap_congr_mem
            intro e he
            congr 1
            apply ih.2
            intro r hr
            exact hrefs r (by simp only [objRefs]; exact List.mem_flatMap.2 ⟨e, he, hr⟩)
    · intro v hv
      simp only [obsSeq]
      congr 2
      apply flatMap_congr_mem
      intro it hit
      apply ih.1
      intro a ha
      subst ha
      exact hv a (mem_seqRefs hit)

end EPV.MapArray

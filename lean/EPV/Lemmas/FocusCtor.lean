/-
C05 extension: on the reference tree (no constructor fills its slot) the model's evaluation is the
specification's function of (expression, variables, focus) and hands the token slots back untouched.
-/
import EPV.Spec.FocusCtorSem
namespace EPV.FocusCtor

theorem bindS_mk (x : Except Err Val) (st : Store) (k : Val → Store → Res) :
    bindS (x, st) k = match x with | .error e => (.error e, st) | .ok v => k v st := by
  cases x <;> rfl

theorem bindS_pure (x : Except Err Val) (st : Store) (g : Val → Except Err Val) :
    bindS (x, st) (fun v s => (g v, s)) = (bindE x g, st) := by
  cases x <;> rfl

theorem floop_eq (ev : Item → Nat → Store → Res) (sv : Item → Nat → Except Err Val)
    (h : ∀ it i st, ev it i st = (sv it i, st)) :
    ∀ xs i st, floop ev xs i st = (sloop sv xs i, st) := by
  intro xs
  induction xs with
  | nil => intro i st; rfl
  | cons it rest ih =>
    intro i st
    simp only [floop, sloop, h, ih, bindS_mk]
    cases sv it i with
    | error e => rfl
    | ok v =>
      simp only []
      cases sloop sv rest (i + 1) <;> rfl

theorem ctor_ref (q : FQuirks) (hq : q.constCache = false) (tok body : FExpr) (build : Store → Res) (st : Store) :
    ctor q tok body build st = build st := by
  simp [ctor, hq]

/-- fundamental lemma: with no slot ever filled, `feval` = (`fsem`, same store) -/
theorem feval_ref (q : FQuirks) (hq : q.constCache = false) :
    ∀ (e : FExpr) (ρ : Env) (f : Option Focus) (st : Store), feval q e ρ f st = (fsem e ρ f, st) := by
  intro e
  induction e with
  | int n => intro ρ f st; rfl
  | str s => intro ρ f st; rfl
  | dot => intro ρ f st; rfl
  | pos => intro ρ f st; rfl
  | last => intro ρ f st; rfl
  | var x => intro ρ f st; rfl
  | add a b iha ihb =>
    intro ρ f st
    simp only [feval, fsem, iha, ihb, bindS_pure]
  | cat a b iha ihb =>
    intro ρ f st
    simp only [feval, fsem, iha, ihb, bindS_pure]
  | gt a b iha ihb =>
    intro ρ f st
    simp only [feval, fsem, iha, ihb, bindS_pure]
  | seq a b iha ihb =>
    intro ρ f st
    simp only [feval, fsem, iha, ihb, bindS_pure]
  | mapC k e ih =>
    intro ρ f st
    simp only [feval, fsem, ih, bindS_pure, ctor_ref q hq]
  | mapC2 k1 e1 k2 e2 ih1 ih2 =>
    intro ρ f st
    simp only [feval, fsem, ih1, ih2, bindS_pure, ctor_ref q hq]
  | arrSq e ih =>
    intro ρ f st
    simp only [feval, fsem, ih, bindS_pure, ctor_ref q hq]
  | arrCurly e ih =>
    intro ρ f st
    simp only [feval, fsem, ih, bindS_pure, ctor_ref q hq]
  | lookK e k ih =>
    intro ρ f st
    simp only [feval, fsem, ih, bindS_pure]
  | lookStar e ih =>
    intro ρ f st
    simp only [feval, fsem, ih, bindS_pure]
  | bang a b iha ihb =>
    intro ρ f st
    simp only [feval, fsem, iha, bindS_mk]
    cases fsem a ρ f with
    | error e => rfl
    | ok xs =>
      exact floop_eq _ (fun it i => fsem b ρ (some ⟨it, i, xs.length⟩)) (fun it i s => ihb _ _ _) xs 1 st
  | forE x a b iha ihb =>
    intro ρ f st
    simp only [feval, fsem, iha, bindS_mk]
    cases fsem a ρ f with
    | error e => rfl
    | ok xs =>
      exact floop_eq _ (fun it _ => fsem b ((x, [it]) :: ρ) f) (fun it i s => ihb _ _ _) xs 1 st
  | pred a b iha ihb =>
    intro ρ f st
    simp only [feval, fsem, iha, bindS_mk]
    cases fsem a ρ f with
    | error e => rfl
    | ok xs =>
      exact floop_eq _ (fun it i => bindE (fsem b ρ (some ⟨it, i, xs.length⟩)) fun r => keepVal it r i)
        (fun it i s => by simp only [ihb, bindS_pure]) xs 1 st

theorem fhistory_ref (q : FQuirks) (hq : q.constCache = false) (e : FExpr) :
    ∀ (steps : List Env) (st : Store), fhistory q e steps st = (steps.map fun ρ => fsem e ρ none, st) := by
  intro steps
  induction steps with
  | nil => intro st; rfl
  | cons ρ rest ih =>
    intro st
    simp only [fhistory, feval_ref q hq, ih, List.map]

end EPV.FocusCtor

/-
Lemmas about the lexer model (EPV/Model/Lexer.lean): totality of `classify` / `advance`.
-/
import EPV.Model.Lexer
namespace EPV.Lexer
open EPV.PState

theorem mk_of_has {tb : Table} {k : String} (v : String) (h : tb.has k = true) :
    ∃ l, tb.label? k = some l ∧ mk tb k v = .ok ⟨k, l, v⟩ := by
  unfold Table.has at h
  cases hl : tb.label? k with
  | none => rw [hl] at h; cases h
  | some l => exact ⟨l, rfl, by simp [mk, hl]⟩

/-- a token was assigned, its class is registered, and nothing was raised -/
def Cls.Good (tb : Table) (r : Cls) : Prop := ∃ t, r.tok = some t ∧ tb.has t.symbol = true ∧ r.err = none

/-- a registered `(invalid)`/`(unknown)` token was assigned and its XPST0003 `wrong_syntax()` raised -/
def Cls.Syntax (tb : Table) (r : Cls) : Prop :=
  ∃ t, r.tok = some t ∧ tb.has t.symbol = true ∧ r.err = some (.coded "XPST0003")

theorem ofMk_good {tb : Table} {k : String} (v : String) (h : tb.has k = true) :
    Cls.Good tb (.ofMk (mk tb k v)) := by
  obtain ⟨l, _, hm⟩ := mk_of_has v h
  rw [hm]
  exact ⟨_, rfl, h, rfl⟩

theorem raiseOn_syntax {tb : Table} {k : String} (v : String) (h : tb.has k = true)
    (hl : (tb.label? k != some "function") = true) : Cls.Syntax tb (.raiseOn (mk tb k v)) := by
  obtain ⟨l, hl', hm⟩ := mk_of_has v h
  rw [hm]
  refine ⟨_, rfl, h, ?_⟩
  have : l ≠ "function" := by
    intro e; rw [hl', e] at hl; simp at hl
  simp [Cls.raiseOn, wrongSyntaxCode, this]

structure Specials (tb : Table) : Prop where
  str : tb.has "(string)" = true
  flt : tb.has "(float)" = true
  dec : tb.has "(decimal)" = true
  int : tb.has "(integer)" = true
  name : tb.has "(name)" = true
  unk : tb.has "(unknown)" = true
  inv : tb.has "(invalid)" = true
  end_ : tb.has "(end)" = true
  unkL : (tb.label? "(unknown)" != some "function") = true
  invL : (tb.label? "(invalid)" != some "function") = true
  endL : (tb.label? "(end)" != some "function") = true

theorem specials_of_ok {tb : Table} (h : SpecialsOK tb = true) : Specials tb := by
  simp only [SpecialsOK, specialKeys, List.all_cons, List.all_nil, Bool.and_true, Bool.and_eq_true] at h
  obtain ⟨⟨a, b, c, d, e, f, g, i⟩, j, k, l⟩ := h
  exact ⟨a, b, c, d, e, f, g, i, j, k, l⟩

/-- **every lexical branch**: for a match object of the 5-alternative pattern that is not white
space, `classify` assigns a token of a registered class and either raises nothing or raises the
XPST0003 error of a registered `(invalid)`/`(unknown)` token.  In particular neither `KeyError` nor
the `RuntimeError("incompatible tokenizer")` branch is reachable. -/
theorem classify_total' (tb : Table) (o : Oracles) (m : Match) (hs : Specials tb)
    (hm : FromPattern m = true) (hsp : isSpace m = false) :
    Cls.Good tb (classify tb o m) ∨ Cls.Syntax tb (classify tb o m) := by
  obtain ⟨text, lit, sym, name, unk, stop⟩ := m
  cases lit <;> cases sym <;> cases name <;> cases unk <;>
    simp only [FromPattern, Bool.false_eq_true, Bool.and_eq_true, beq_iff_eq, Bool.not_eq_true'] at hm
  · -- white space only
    rw [hsp] at hm; cases hm
  · exact .inl (ofMk_good _ hs.unk)
  · exact .inl (ofMk_good _ hs.name)
  · -- symbol
    rename_i s
    simp only [classify]
    by_cases h1 : tb.has s = true
    · simp only [h1, if_true]; exact .inl (ofMk_good _ h1)
    · simp only [h1]
      cases o.nameLike s
      · exact .inr (raiseOn_syntax _ hs.unk hs.unkL)
      · exact .inl (ofMk_good _ hs.name)
  · -- literal
    rename_i l
    simp only [classify]
    cases hl : l.toList with
    | nil =>
      have : l = "" := by
        apply String.ext; simpa using hl
      simp [this] at hm
    | cons c0 rest =>
      simp only []
      split
      · exact .inl (ofMk_good _ hs.str)
      · split
        · split
          · exact .inl (ofMk_good _ hs.flt)
          · exact .inr (raiseOn_syntax _ hs.inv hs.invL)
        · split
          · split
            · exact .inl (ofMk_good _ hs.dec)
            · exact .inr (raiseOn_syntax _ hs.inv hs.invL)
          · split
            · exact .inl (ofMk_good _ hs.int)
            · exact .inr (raiseOn_syntax _ hs.inv hs.invL)

end EPV.Lexer

namespace EPV.Lexer
open EPV.PState

/-- the white-space skipping loop: either the iterator is exhausted (all remaining matches were
white space), or it stops on a non-space match of the list and what is left is a strict suffix -/
theorem nextNonSpace_spec (nm : Option Match) (l : List Match) :
    ((nextNonSpace nm l).1 = none ∧ (nextNonSpace nm l).2.2 = []) ∨
    (∃ m, (nextNonSpace nm l).1 = some m ∧ m ∈ l ∧ isSpace m = false ∧
      (∃ pre, l = pre ++ m :: (nextNonSpace nm l).2.2)) := by
  induction l generalizing nm with
  | nil => left; exact ⟨rfl, rfl⟩
  | cons a rest ih =>
    unfold nextNonSpace
    by_cases hsp : isSpace a = true
    · simp only [hsp, if_true]
      rcases ih (some a) with h | ⟨m, h1, h2, h3, pre, h4⟩
      · left; exact h
      · right
        refine ⟨m, h1, List.mem_cons_of_mem _ h2, h3, a :: pre, ?_⟩
        rw [List.cons_append, ← h4]
    · simp only [hsp]
      right
      exact ⟨a, rfl, List.mem_cons_self, by simpa using hsp, [], rfl⟩

/-- coded outcomes of the lexer -/
def SyntaxErr (e : Err) : Prop := e = .coded "XPST0003" ∨ e = .coded "XPST0017"

theorem wrongSyntaxCode_cases (t : Tok) : wrongSyntaxCode t = "XPST0003" ∨ wrongSyntaxCode t = "XPST0017" := by
  unfold wrongSyntaxCode; split <;> simp

/-- `advance` on any cursor whose pending matches come from the 5-alternative pattern: it returns
normally with a look-ahead token of a registered class, or raises XPST0003 / XPST0017 -/
theorem advance_total' (tb : Table) (o : Oracles) (symbols : List String) (c : Cursor Tok Match)
    (hs : Specials tb) (hm : ∀ m ∈ c.tokens, FromPattern m = true) :
    ((advance tb o symbols c).1 = .ok () ∧ tb.has (advance tb o symbols c).2.nextToken.symbol = true) ∨
    (∃ e, (advance tb o symbols c).1 = .error e ∧ SyntaxErr e) := by
  unfold advance
  split
  · right; exact ⟨_, rfl, by
      rcases wrongSyntaxCode_cases c.nextToken with h | h <;> simp [SyntaxErr, h]⟩
  · split
    · right; exact ⟨_, rfl, by
        rcases wrongSyntaxCode_cases c.nextToken with h | h <;> simp [SyntaxErr, h]⟩
    · simp only []
      rcases nextNonSpace_spec c.nextMatch c.tokens with ⟨h1, h2⟩ | ⟨m, h1, h2, h3, _⟩
      · -- end of source
        obtain ⟨l, _, hmk⟩ := mk_of_has "(end)" hs.end_
        split
        · rename_i nm rest heq
          rw [hmk]
          left; exact ⟨rfl, hs.end_⟩
        · rename_i m' nm rest heq
          rw [heq] at h1; cases h1
      · split
        · rename_i nm rest heq
          rw [heq] at h1; cases h1
        · rename_i m' nm rest heq
          rw [heq] at h1
          cases h1
          rcases classify_total' tb o m hs (hm m h2) h3 with ⟨t, ht, hreg, herr⟩ | ⟨t, ht, hreg, herr⟩
          · left; simp only [ht, herr]; exact ⟨trivial, hreg⟩
          · right; simp only [ht, herr]; exact ⟨_, rfl, .inl rfl⟩

/-- `advance` only consumes: the matches left are a suffix of the matches before -/
theorem advance_consumes (tb : Table) (o : Oracles) (symbols : List String) (c : Cursor Tok Match) :
    ∃ pre, c.tokens = pre ++ (advance tb o symbols c).2.tokens := by
  unfold advance
  split
  · exact ⟨[], rfl⟩
  · split
    · exact ⟨[], rfl⟩
    · simp only []
      rcases nextNonSpace_spec c.nextMatch c.tokens with ⟨h1, h2⟩ | ⟨m, h1, _, _, pre, h4⟩
      · split
        · rename_i nm rest heq
          rw [heq] at h2; simp only at h2
          split <;> exact ⟨c.tokens, by simp [h2]⟩
        · rename_i m' nm rest heq
          rw [heq] at h1; cases h1
      · split
        · rename_i nm rest heq
          rw [heq] at h1; cases h1
        · rename_i m' nm rest heq
          rw [heq] at h4; simp only at h4
          refine ⟨pre ++ [m], ?_⟩
          split <;> split <;> simp [h4]

end EPV.Lexer

/-
C17 helper lemmas: the `duplicates: use-first` loop of fn:parse-json (`pjPairs`, a dict filled in
order) is the specification's `dedupeFirst`.
-/
import EPV.Model.Json
namespace EPV.Json

theorem dictSet_fresh {α} (k : Str) (v : α) (items : List (Str × α)) (h : items.any (·.1 == k) = false) :
    dictSet k v items = items ++ [(k, v)] := by
  induction items with
  | nil => rfl
  | cons kv t ih =>
    obtain ⟨k', v'⟩ := kv
    simp only [List.any_cons, Bool.or_eq_false_iff, beq_eq_false_iff_ne, ne_eq] at h
    simp [dictSet, h.1, ih h.2]

theorem dedupeFirst_congr {α} (s1 s2 : List Str) (h : ∀ x, x ∈ s1 ↔ x ∈ s2) (m : List (Str × α)) :
    dedupeFirst s1 m = dedupeFirst s2 m := by
  induction m generalizing s1 s2 with
  | nil => rfl
  | cons kv t ih =>
    obtain ⟨k, v⟩ := kv
    simp only [dedupeFirst, h k]
    split
    · exact ih s1 s2 h
    · rw [ih (k :: s1) (k :: s2) (fun x => by simp [h x])]

def fixKeys {α} (m : List (Str × α)) : List (Str × α) := m.map fun kv => (pjString kv.1, kv.2)

theorem pjPairs_useFirst {α} (m : List (Str × α)) : ∀ items : List (Str × α),
    pjPairs .useFirst items m = .ok (items ++ dedupeFirst (items.map (·.1)) (fixKeys m)) := by
  induction m with
  | nil => intro items; simp [pjPairs, fixKeys, dedupeFirst]
  | cons kv t ih =>
    intro items
    obtain ⟨k, v⟩ := kv
    simp only [pjPairs, fixKeys, List.map_cons, dedupeFirst]
    by_cases hin : items.any (·.1 == pjString k) = true
    · have hmem : pjString k ∈ items.map (·.1) := by
        obtain ⟨x, hx, hxe⟩ := List.any_eq_true.mp hin
        exact List.mem_map.mpr ⟨x, hx, by simpa using hxe⟩
      simp only [hin, if_true, hmem]
      exact ih items
    · have hin' : items.any (·.1 == pjString k) = false := Bool.eq_false_iff.mpr hin
      have hmem : pjString k ∉ items.map (·.1) := by
        intro hm
        obtain ⟨x, hx, hxe⟩ := List.mem_map.mp hm
        have : items.any (·.1 == pjString k) = true := List.any_eq_true.mpr ⟨x, hx, by simp [hxe]⟩
        rw [hin'] at this; exact absurd this (by simp)
      simp only [hin', Bool.false_eq_true, if_false, hmem]
      rw [dictSet_fresh _ _ _ hin', ih]
      simp only [List.append_assoc, List.cons_append, List.nil_append, List.map_append, List.map_cons,
        List.map_nil]
      congr 2
      exact congrArg _ (dedupeFirst_congr _ _ (fun x => by simp [or_comm]) _)

end EPV.Json

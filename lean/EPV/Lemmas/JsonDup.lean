/-
C17 helper lemmas: the `duplicates: use-first` loop of fn:parse-json (`pjPairs`, a dict filled in
order) is the specification's `dedupeFirst`.
-/
import EPV.Model.Json
namespace EPV.Json

theorem dictSet_fresh {α} (k : Str) (v : α) (items : List (Str × α)) (h : items.any (·.1 == k) = false) :
    dictSet k v items = items ++ [(k, v)] := by
  induction items with
  | nil => rfl
  | cons kv t ih =>
    obtain ⟨k', v'⟩ := kv
    simp only [List.any_cons, Bool.or_eq_false_iff, beq_eq_false_iff_ne, ne_eq] at h
    simp [dictSet, h.1, ih h.2]

theorem dedupeFirst_congr {α} (s1 s2 : List Str) (h : ∀ x, x ∈ s1 ↔ x ∈ s2) (m : List (Str × α)) :
    dedupeFirst s1 m = dedupeFirst s2 m := by
  induction m generalizing s1 s2 with
  | nil => rfl
  | cons kv t ih =>
    obtain ⟨k, v⟩ := kv
    simp only [dedupeFirst, h k]
    split
    · exact ih s1 s2 h
    · rw [ih (k :: s1) (k :: s2) (fun x => by simp [h x])]

def fixKeys {α} (m : List (Str × α)) : List (Str × α) := m.map fun kv => (pjString kv.1, kv.2)

theorem pjPairs_useFirst {α} (m : List (Str × α)) : ∀ items : List (Str × α),
    pjPairs .useFirst items m = .ok (items ++ dedupeFirst (items.map (·.1)) (fixKeys m)) := by
  induction m with
  | nil => intro items; simp [pjPairs, fixKeys, dedupeFirst]
  | cons kv t ih =>
    intro items
    obtain ⟨k, v⟩ := kv
    simp only [pjPairs, fixKeys, List.map_cons, dedupeFirst]
    by_cases hin : items.any (·.1 == pjString k) = true
    · have hmem : pjString k ∈ items.map (·.1) := by
        obtain ⟨x, hx, hxe⟩ := List.any_eq_true.mp hin
        exact List.mem_map.mpr ⟨x, hx, by simpa using hxe⟩
      simp only [hin, if_true, hmem]
      exact ih items
    · have hin' : items.any (·.1 == pjString k) = false := Bool.eq_false_iff.mpr hin
      have hmem : pjString k ∉ items.map (·.1) := by
        intro hm
        obtain ⟨x, hx, hxe⟩ := List.mem_map.mp hm
        have : items.any (·.1 == pjString k) = true := List.any_eq_true.mpr ⟨x, hx, by simp [hxe]⟩
        rw [hin'] at this; exact absurd this (by simp)
      simp only [hin', Bool.false_eq_true, if_false, hmem]
      rw [dictSet_fresh _ _ _ hin', ih]
      simp only [List.append_assoc, List.cons_append, List.nil_append, List.map_append, List.map_cons,
        List.map_nil]
      congr 2
      exact congrArg _ (dedupeFirst_congr _ _ (fun x => by simp [or_comm]) _)

/-! ### reject -/

theorem any_key_append {α} (items : List (Str × α)) (k : Str) (v : α) (x : Str) :
    (items ++ [(k, v)]).any (·.1 == x) = (items.any (·.1 == x) || (k == x)) := by
  simp [List.any_append]

theorem beq_str_comm (a b : Str) : (a == b) = (b == a) := by
  by_cases h : a = b
  · subst h; rfl
  · have h' : ¬ b = a := fun e => h e.symm
    rw [beq_eq_false_iff_ne.mpr h, beq_eq_false_iff_ne.mpr h']

theorem any_items_append {α} (l items : List (Str × α)) (k : Str) (v : α) :
    (l.any fun kv => (items ++ [(k, v)]).any (·.1 == kv.1)) =
      ((l.any fun kv => items.any (·.1 == kv.1)) || (l.any fun kv => kv.1 == k)) := by
  induction l with
  | nil => rfl
  | cons a r ih =>
    rw [List.any_cons, List.any_cons, List.any_cons, ih, any_key_append, beq_str_comm k a.1]
    cases List.any items (·.1 == a.1) <;> cases (a.1 == k) <;>
      cases (List.any r fun kv => List.any items (·.1 == kv.1)) <;> simp

theorem pjPairs_reject {α} (m : List (Str × α)) : ∀ items : List (Str × α),
    pjPairs .reject items m =
      if ((fixKeys m).any fun kv => items.any (·.1 == kv.1)) || hasDupKeys (fixKeys m)
      then .error .FOJS0003 else .ok (items ++ fixKeys m) := by
  induction m with
  | nil => intro items; simp [pjPairs, fixKeys, hasDupKeys]
  | cons kv t ih =>
    intro items
    obtain ⟨k, v⟩ := kv
    have e2 : fixKeys ((k, v) :: t) = (pjString k, v) :: fixKeys t := rfl
    rw [e2]
    simp only [pjPairs, hasDupKeys, List.any_cons]
    by_cases hin : items.any (·.1 == pjString k) = true
    · simp [hin]
    · have hin' : items.any (·.1 == pjString k) = false := Bool.eq_false_iff.mpr hin
      simp only [hin', Bool.false_eq_true, if_false, Bool.false_or]
      rw [dictSet_fresh _ _ _ hin', ih, any_items_append]
      simp only [List.append_assoc, List.cons_append, List.nil_append]
      cases (List.any (fixKeys t) fun kv => List.any items (·.1 == kv.1)) <;>
        cases (List.any (fixKeys t) fun kv => kv.1 == pjString k) <;>
        cases hasDupKeys (fixKeys t) <;> simp

/-! ### use-last -/

def dictStep {α} (items : List (Str × α)) (kv : Str × α) : List (Str × α) := dictSet kv.1 kv.2 items

theorem pjPairs_useLast_fold {α} (m : List (Str × α)) : ∀ items : List (Str × α),
    pjPairs .useLast items m = .ok ((fixKeys m).foldl dictStep items) := by
  induction m with
  | nil => intro items; rfl
  | cons kv t ih =>
    intro items
    obtain ⟨k, v⟩ := kv
    have e2 : fixKeys ((k, v) :: t) = (pjString k, v) :: fixKeys t := rfl
    rw [e2]
    simp only [pjPairs, List.foldl_cons, dictStep]
    split <;> exact ih _

/-- pairwise distinct -/
def nd : List Str → Prop
  | [] => True
  | k :: t => k ∉ t ∧ nd t

theorem nd_append_single (ks : List Str) (k : Str) (h : nd ks) (hk : k ∉ ks) : nd (ks ++ [k]) := by
  induction ks with
  | nil => exact ⟨by simp, trivial⟩
  | cons a t ih =>
    have hka : k ≠ a := fun e => hk (by simp [e])
    have hkt : k ∉ t := fun e => hk (by simp [e])
    exact ⟨by simp [h.1, Ne.symm hka], ih h.2 hkt⟩

theorem lastValue_same {α} (k : Str) (v v0 : α) (t : List (Str × α)) :
    lastValue k v ((k, v0) :: t) = lastValue k v0 t := by
  unfold lastValue
  have : ((k, v0) :: t).filter (·.1 == k) = (k, v0) :: t.filter (·.1 == k) := by simp
  rw [this, List.getLast?_cons]
  cases (t.filter (·.1 == k)).getLast? <;> rfl

theorem lastValue_other {α} (k k0 : Str) (v v0 : α) (t : List (Str × α)) (h : k0 ≠ k) :
    lastValue k v ((k0, v0) :: t) = lastValue k v t := by
  unfold lastValue
  have : ((k0, v0) :: t).filter (·.1 == k) = t.filter (·.1 == k) := by simp [h]
  rw [this]

theorem dictSet_present {α} (k : Str) (v : α) : ∀ items : List (Str × α), k ∈ items.map (·.1) →
    nd (items.map (·.1)) → dictSet k v items = items.map (fun kv => if kv.1 = k then (k, v) else kv) := by
  intro items
  induction items with
  | nil => intro h; simp at h
  | cons a t ih =>
    intro hk hnd
    obtain ⟨k', v'⟩ := a
    simp only [List.map_cons] at hk hnd
    by_cases he : k' = k
    · subst he
      have hnot : k' ∉ t.map (·.1) := hnd.1
      have : t.map (fun kv => if kv.1 = k' then (k', v) else kv) = t := by
        have : ∀ kv ∈ t, (if kv.1 = k' then (k', v) else kv) = kv := by
          intro kv hkv
          have : kv.1 ≠ k' := fun e => hnot (List.mem_map.mpr ⟨kv, hkv, e⟩)
          simp [this]
        rw [List.map_congr_left this]; simp
      simp [dictSet, this]
    · have hk' : k ∈ t.map (·.1) := by
        simp only [List.mem_cons] at hk
        rcases hk with hk | hk
        · exact absurd hk.symm he
        · exact hk
      simp [dictSet, he, ih hk' hnd.2]

theorem dedupeLast_congr {α} (s1 s2 : List Str) (h : ∀ x, x ∈ s1 ↔ x ∈ s2) (m : List (Str × α)) :
    dedupeLast s1 m = dedupeLast s2 m := by
  induction m generalizing s1 s2 with
  | nil => rfl
  | cons kv t ih =>
    obtain ⟨k, v⟩ := kv
    simp only [dedupeLast, h k]
    split
    · exact ih s1 s2 h
    · rw [ih (k :: s1) (k :: s2) (fun x => by simp [h x])]

def updLast {α} (items t : List (Str × α)) : List (Str × α) :=
  items.map fun kv => (kv.1, lastValue kv.1 kv.2 t)

theorem foldl_dictStep {α} (t : List (Str × α)) : ∀ items : List (Str × α), nd (items.map (·.1)) →
    t.foldl dictStep items = updLast items t ++ dedupeLast (items.map (·.1)) t := by
  induction t with
  | nil =>
    intro items _
    simp only [List.foldl_nil, updLast, dedupeLast, List.append_nil]
    have : ∀ kv ∈ items, (kv.1, lastValue kv.1 kv.2 ([] : List (Str × α))) = kv := by
      intro kv _; rfl
    rw [List.map_congr_left this]; simp
  | cons kv0 t ih =>
    intro items hnd
    obtain ⟨k0, v0⟩ := kv0
    simp only [List.foldl_cons, dictStep]
    by_cases hin : k0 ∈ items.map (·.1)
    · have hds := dictSet_present k0 v0 items hin hnd
      have hkeys : (dictSet k0 v0 items).map (·.1) = items.map (·.1) := by
        rw [hds, List.map_map]
        apply List.map_congr_left
        intro kv _
        by_cases h : kv.1 = k0 <;> simp [h]
      rw [ih _ (by rw [hkeys]; exact hnd), hkeys]
      simp only [dedupeLast, hin, if_true]
      congr 1
      rw [hds]
      simp only [updLast, List.map_map]
      apply List.map_congr_left
      intro kv _
      by_cases h : kv.1 = k0
      · simp only [Function.comp, h, if_true]
        rw [← h, lastValue_same]
      · simp only [Function.comp, h, if_false]
        rw [lastValue_other kv.1 k0 kv.2 v0 t (fun e => h e.symm)]
    · have hany : items.any (·.1 == k0) = false := by
        apply Bool.eq_false_iff.mpr
        intro h
        obtain ⟨x, hx, hxe⟩ := List.any_eq_true.mp h
        exact hin (List.mem_map.mpr ⟨x, hx, by simpa using hxe⟩)
      rw [dictSet_fresh _ _ _ hany]
      have hnd' : nd ((items ++ [(k0, v0)]).map (·.1)) := by
        simp only [List.map_append, List.map_cons, List.map_nil]
        exact nd_append_single _ _ hnd hin
      rw [ih _ hnd']
      simp only [dedupeLast, hin, if_false, updLast, List.map_append, List.map_cons, List.map_nil,
        List.append_assoc, List.cons_append, List.nil_append]
      congr 1
      · apply List.map_congr_left
        intro kv hkv
        have : k0 ≠ kv.1 := fun e => hin (List.mem_map.mpr ⟨kv, hkv, e.symm⟩)
        rw [lastValue_other kv.1 k0 kv.2 v0 t this]
      · congr 1
        exact dedupeLast_congr _ _ (fun x => by simp [or_comm]) _

theorem pjPairs_useLast {α} (m : List (Str × α)) :
    pjPairs .useLast [] m = .ok (dedupeLast [] (fixKeys m)) := by
  rw [pjPairs_useLast_fold, foldl_dictStep _ [] trivial]
  simp [updLast]

end EPV.Json

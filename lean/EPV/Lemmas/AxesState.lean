/-
C01 — the save / restore discipline of the context iterators (`EPV/Model/AxesState.lean`).
-/
import EPV.Model.AxesState
namespace EPV.XP

variable {m : Mode} {a : Arr}

theorem exec_loop_tail (ax : Option Axis) (tail : List Instr) : ∀ (l : List Nat) (c : Ctx), c.axis = ax →
    exec (loopItems l ++ tail) c =
      (l.map (fun x => (x, (⟨x, ax⟩ : Ctx))) ++ (exec tail ⟨(l.getLast?).getD c.item, ax⟩).1,
       (exec tail ⟨(l.getLast?).getD c.item, ax⟩).2)
  | [], c, h => by
    cases c; simp only at h; subst h
    simp [loopItems]
  | x :: xs, c, h => by
    have ih := exec_loop_tail ax tail xs ⟨x, ax⟩ rfl
    have hl : loopItems (x :: xs) = [.setItem x, .yield x] ++ loopItems xs := by
      simp [loopItems]
    rw [hl, List.append_assoc]
    simp only [List.cons_append, List.nil_append, exec, h]
    rw [ih]
    simp only [List.map_cons, List.cons_append, List.getLast?_cons]
    cases xs with
    | nil => simp
    | cons y ys => simp [List.getLast?_cons]

/-- `self.axis = ax; for self.item in l: yield self.item; self.item, self.axis = status` -/
theorem exec_loop_restore (ax : Option Axis) (l : List Nat) (c s : Ctx) :
    exec ([.setAxis ax] ++ loopItems l ++ [.restore s]) c = (l.map (fun x => (x, (⟨x, ax⟩ : Ctx))), s) := by
  simp only [List.cons_append, List.nil_append, exec]
  rw [exec_loop_tail ax [.restore s] l { c with axis := ax } rfl]
  simp [exec]

theorem exec_loop_only (l : List Nat) (c : Ctx) :
    exec (loopItems l) c = (l.map (fun x => (x, (⟨x, c.axis⟩ : Ctx))), ⟨(l.getLast?).getD c.item, c.axis⟩) := by
  have := exec_loop_tail c.axis [] l c rfl
  simpa [exec] using this

theorem fst_loop (ax : Option Axis) (l : List Nat) :
    (l.map (fun x => (x, (⟨x, ax⟩ : Ctx)))).map (·.1) = l := by
  induction l with
  | nil => rfl
  | cons x xs ih => simp only [List.map_cons, ih]

/-- **yields**: entered with `context.axis is None`, every iterator yields exactly `iterAxis` -/
theorem prog_yields (ax : Axis) (c : Ctx) (hc : c.axis = none) :
    (exec (prog m a ax c) c).1.map (·.1) = helperAxis m a ax c.item := by
  cases ax <;> simp only [prog, iterAxis, helperAxis]
  · simp [exec, iterSelf]
  · -- child
    simp only [hc, Option.isSome_none, Bool.false_eq_true, if_false, iterChildren]
    split
    · split
      · simp [exec]
      · rw [exec_loop_restore, fst_loop]
    · simp [exec]
  · split
    · rw [exec_loop_restore, fst_loop]
    · rename_i h; simp [exec, iterDescendants, h]
  · split
    · rw [exec_loop_restore, fst_loop]
    · rename_i h; simp [exec, iterDescendants, h]
  · unfold iterParent
    cases hG : (hasDoc m || c.item != rootIdx m) <;> cases hp : par a c.item <;> simp [exec]
  · rw [exec_loop_restore, fst_loop]
  · rw [exec_loop_restore, fst_loop]
  · split
    · rw [exec_loop_restore, fst_loop]
    · rename_i h
      simp only [exec, List.map_nil]
      unfold iterFollowingSiblings
      cases hG : (hasDoc m || c.item != rootIdx m) <;> cases hp : par a c.item <;>
        cases han : isAN a c.item <;> simp_all
  · split
    · rw [exec_loop_restore, fst_loop]
    · rename_i h
      simp only [exec, List.map_nil]
      unfold iterPrecedingSiblings
      cases hG : (hasDoc m || c.item != rootIdx m) <;> cases hp : par a c.item <;>
        cases han : isAN a c.item <;> simp_all
  · -- following
    split
    · rename_i h; simp [exec, iterFollowings, h]
    · rw [exec_loop_restore, fst_loop]
  · -- preceding
    split
    · rw [exec_loop_restore, fst_loop]
    · rename_i h
      simp only [exec, List.map_nil]
      unfold iterPreceding
      cases hG : (hasDoc m || c.item != rootIdx m) <;> cases hp : par a c.item <;> simp_all
  · -- attribute
    unfold iterAttributes
    split
    · simp [exec]
    · split
      · rw [exec_loop_restore, fst_loop]
      · simp [exec]
  · -- namespace
    rw [exec_loop_tail c.axis [.setItem c.item] _ c rfl]
    simp only [exec, List.append_nil]
    exact fst_loop _ _

/-- **restore on normal exhaustion**: every context iterator leaves `context.item` and
`context.axis` exactly as it found them — all thirteen. -/
theorem prog_restores (ax : Axis) (c : Ctx) :
    (exec (prog m a ax c) c).2 = c := by
  cases ax <;> simp only [prog]
  · simp [exec]
  · split
    · simp [exec]
    · split
      · split
        · simp [exec]
        · rw [exec_loop_restore]
      · simp [exec]
  · split
    · rw [exec_loop_restore]
    · simp [exec]
  · split
    · rw [exec_loop_restore]
    · simp [exec]
  · split
    · split <;> simp [exec]
    · simp [exec]
  · rw [exec_loop_restore]
  · rw [exec_loop_restore]
  · split
    · rw [exec_loop_restore]
    · simp [exec]
  · split
    · rw [exec_loop_restore]
    · simp [exec]
  · split
    · simp [exec]
    · rw [exec_loop_restore]
  · split
    · rw [exec_loop_restore]
    · simp [exec]
  · split
    · simp [exec]
    · split
      · rw [exec_loop_restore]
      · simp [exec]
  · -- namespace: `finally: context.item = elem`
    rw [exec_loop_tail c.axis [.setItem c.item] _ c rfl]
    simp [exec]

/-- `//`'s `context.iter_descendants()` restores too -/
theorem progDslash_restores (c : Ctx) : (exec (progDslash m a c) c).2 = c := by
  unfold progDslash
  split
  · rw [exec_loop_restore]
  · simp [exec]

theorem progDslash_yields (c : Ctx) :
    (exec (progDslash m a c) c).1.map (·.1) = iterDescendants m a true c.item := by
  unfold progDslash
  split
  · rw [exec_loop_restore, fst_loop]
  · rename_i h; simp [exec, iterDescendants, h]

/-! ### what the consumer sees at each yield -/

/-- the complete trace of every iterator entered with `context.axis is None`: at each yield the
axis is the iterator's axis name and the item is the yielded node — with one exception, the
dummy-document branch of `iter_children_or_self`, which yields the root element while `context.item`
still is the dummy document -/
theorem prog_trace (ax : Axis) (c : Ctx) (hc : c.axis = none) (hns : ax ≠ .namespace) :
    (exec (prog m a ax c) c).1 =
      if ax = .child ∧ isED a c.item = true ∧ isDummyDoc m c.item = true then
        [(rootIdx m, (⟨c.item, some .child⟩ : Ctx))]
      else (helperAxis m a ax c.item).map fun x => (x, (⟨x, some ax⟩ : Ctx)) := by
  cases ax <;> simp only [prog, iterAxis, helperAxis, reduceCtorEq, false_and, if_false, true_and]
  · simp [exec, iterSelf]
  · -- child
    simp only [hc, Option.isSome_none, Bool.false_eq_true, if_false, iterChildren]
    cases hed : isED a c.item with
    | false => simp [exec]
    | true =>
      cases hv : isDummyDoc m c.item with
      | true => simp [exec]
      | false => simp only [Bool.false_eq_true, if_false, if_true, and_false]; rw [exec_loop_restore]
  · split
    · rw [exec_loop_restore]
    · rename_i h; simp [exec, iterDescendants, h]
  · split
    · rw [exec_loop_restore]
    · rename_i h; simp [exec, iterDescendants, h]
  · unfold iterParent
    cases hG : (hasDoc m || c.item != rootIdx m) <;> cases hp : par a c.item <;> simp [exec]
  · rw [exec_loop_restore]
  · rw [exec_loop_restore]
  · split
    · rw [exec_loop_restore]
    · rename_i h
      simp only [exec]
      unfold iterFollowingSiblings
      cases hG : (hasDoc m || c.item != rootIdx m) <;> cases hp : par a c.item <;>
        cases han : isAN a c.item <;> simp_all
  · split
    · rw [exec_loop_restore]
    · rename_i h
      simp only [exec]
      unfold iterPrecedingSiblings
      cases hG : (hasDoc m || c.item != rootIdx m) <;> cases hp : par a c.item <;>
        cases han : isAN a c.item <;> simp_all
  · split
    · rename_i h; simp [exec, iterFollowings, h]
    · rw [exec_loop_restore]
  · split
    · rw [exec_loop_restore]
    · rename_i h
      simp only [exec]
      unfold iterPreceding
      cases hG : (hasDoc m || c.item != rootIdx m) <;> cases hp : par a c.item <;> simp_all
  · unfold iterAttributes
    split
    · simp [exec]
    · split
      · rw [exec_loop_restore]
      · simp [exec]
  · exact absurd rfl hns

theorem flatMap_test (t : Test) (ax : Axis) : ∀ (l : List Nat),
    (l.map fun x => (x, (⟨x, some ax⟩ : Ctx))).flatMap (fun yc => testAtYield m a t yc.2) =
      l.filter (matchTest m a (principal ax) t)
  | [] => rfl
  | x :: xs => by
    have ih := flatMap_test t ax xs
    simp only [List.map_cons, List.flatMap_cons, List.filter_cons]
    rw [ih]
    simp only [testAtYield]
    split <;> simp

theorem exec_append : ∀ (p1 p2 : List Instr) (c : Ctx),
    exec (p1 ++ p2) c = ((exec p1 c).1 ++ (exec p2 (exec p1 c).2).1, (exec p2 (exec p1 c).2).2)
  | [], p2, c => by simp [exec]
  | i :: is, p2, c => by
    cases i <;> simp only [List.cons_append, exec, exec_append is p2, List.cons_append]

/-- the helper `iter_followings` from a context whose axis is already set -/
theorem exec_prog_following (p : Nat) (ax0 : Option Axis) :
    exec (prog m a .following ⟨p, ax0⟩) ⟨p, ax0⟩ =
      ((iterFollowings m a p).map fun x => (x, (⟨x, some .following⟩ : Ctx)), ⟨p, ax0⟩) := by
  simp only [prog]
  split
  · rename_i h; simp [exec, iterFollowings, h]
  · rw [exec_loop_restore]

theorem exec_following_AN (c : Ctx) (p : Nat) :
    exec ([.setAxis (some .following)] ++ loopItems (descRange a p) ++
        ([.setItem p] ++ prog m a .following ⟨p, some .following⟩ ++ [.restore c])) c =
      ((descRange a p ++ iterFollowings m a p).map fun x => (x, (⟨x, some .following⟩ : Ctx)), c) := by
  simp only [List.cons_append, List.nil_append, exec]
  rw [exec_loop_tail (some .following) _ (descRange a p) { c with axis := some .following } rfl]
  simp only [exec]
  rw [exec_append, exec_prog_following]
  simp [exec, List.map_append]

/-- **trace of the axis methods**: at every yield `context.axis` is the axis name and `context.item`
the yielded node — for all axes except `namespace` (which sets no axis), without exception -/
theorem axisProg_trace (ax : Axis) (c : Ctx) (hc : c.axis = none) (hns : ax ≠ .namespace)
    (hV : isDummyDoc m c.item = true → kd a c.item = .doc) :
    (exec (axisProg m a ax c) c).1 = (iterAxis m a ax c.item).map fun x => (x, (⟨x, some ax⟩ : Ctx)) := by
  by_cases hat : ax = .attribute
  · subst hat
    simp only [axisProg, iterAxis, attributeAxis]
    split
    · simp [exec]
    · have := prog_trace (m := m) (a := a) .attribute c hc (by simp)
      simpa [helperAxis] using this
  · by_cases hfo : ax = .following
    · subst hfo
      simp only [axisProg, iterAxis, followingAxis]
      split
      · cases hp : par a c.item with
        | none => simp [exec]
        | some p => simp only; rw [exec_following_AN]
      · have := prog_trace (m := m) (a := a) .following c hc (by simp)
        simpa [helperAxis] using this
    · by_cases hch : ax = .child
      · subst hch
        simp only [axisProg, hc, Option.isNone_none, Bool.true_and]
        cases hv : isDummyDoc m c.item with
        | true =>
          have hed : isED a c.item = true := by simp [isED, hV hv]
          simp [exec, iterAxis, iterChildren, hed, hv]
        | false =>
          have := prog_trace (m := m) (a := a) .child c hc (by simp)
          simp only [Bool.false_eq_true, if_false]
          simpa [helperAxis, hv] using this
      · have := prog_trace (m := m) (a := a) ax c hc hns
        cases ax <;> simp_all [axisProg, helperAxis]

/-- the axis methods restore (item, axis) too -/
theorem axisProg_restores (ax : Axis) (c : Ctx) (hc : c.axis = none) :
    (exec (axisProg m a ax c) c).2 = c := by
  by_cases hat : ax = .attribute
  · subst hat
    simp only [axisProg]
    split
    · simp [exec]
    · exact prog_restores .attribute c
  · by_cases hfo : ax = .following
    · subst hfo
      simp only [axisProg]
      split
      · cases hp : par a c.item with
        | none => simp [exec]
        | some p => simp only; rw [exec_following_AN]
      · exact prog_restores .following c
    · by_cases hch : ax = .child
      · subst hch
        simp only [axisProg, hc, Option.isNone_none, Bool.true_and]
        split
        · cases c; simp only at hc; subst hc; simp [exec]
        · exact prog_restores .child c
      · have := prog_restores (m := m) (a := a) ax c
        cases ax <;> simp_all [axisProg]

theorem axisProg_namespace (c : Ctx) : axisProg m a .namespace c = prog m a .namespace c := rfl

/-- **the step abstraction is derived, not postulated**: running the axis method and, at every yield,
the node test on the context *state* gives exactly `evalStep` of `EPV/Model/Paths.lean`. -/
theorem evalStepState_eq (ax : Axis) (t : Test) (ab : Bool) (c : Ctx) (hc : c.axis = none)
    (hV : isDummyDoc m c.item = true → kd a c.item = .doc) :
    evalStepState m a ax t c = evalStep m a ax t ab c.item := by
  unfold evalStepState evalStep
  by_cases hns : ax = .namespace
  · subst hns
    simp only [beq_self_eq_true, if_true, axisProg_namespace, prog_yields .namespace c hc, principal, helperAxis]
  · have hb : (ax == Axis.namespace) = false := by simpa using hns
    rw [hb, axisProg_trace ax c hc hns hV]
    simp only [Bool.false_eq_true, if_false]
    exact flatMap_test t ax _

/-- an abbreviated step tests the yielded values of `iter_children_or_self` / `iter_matching_nodes` -/
theorem evalAbbrevState_eq (t : Test) (c : Ctx) (hc : c.axis = none) :
    evalAbbrevState m a t c = evalStep m a .child t true c.item := by
  unfold evalAbbrevState evalStep
  rw [prog_yields .child c hc]
  simp [principal, helperAxis]

/-! ### early close -/

/-- Closing a loop iterator after its k-th yield runs its `finally:` clause: the saved status is written
back, exactly as after exhaustion (fix 8377c57; before, the context stayed on the k-th yielded node). -/
theorem closeAfter_loop (ax : Option Axis) (l : List Nat) (c s : Ctx) (k : Nat) (hk : 0 < k) (hl : k ≤ l.length) :
    closeAfter k ([.setAxis ax] ++ loopItems l ++ [.restore s]) c = some s := by
  unfold closeAfter
  have hfin : finalizer ([.setAxis ax] ++ loopItems l ++ [.restore s]) = [.restore s] := by
    unfold finalizer
    have : ([Instr.setAxis ax] ++ loopItems l ++ [Instr.restore s]).getLast? = some (.restore s) := by
      rw [List.getLast?_append]; simp
    rw [this]
  rw [hfin, exec_loop_restore]
  simp only [List.getElem?_map]
  rw [List.getElem?_eq_getElem (by omega)]
  simp [exec]

/-! ### operands of `and` / `or` -/

/-- value of `l or r` from the operand values (Python `or` short-circuit; `err` = type error) -/
def orVal (x y : Val) : Val :=
  match ebv x with
  | some false => (match ebv y with | some b => .bool b | none => .err)
  | some true => .bool true
  | none => .err

def andVal (x y : Val) : Val :=
  match ebv x with
  | some true => (match ebv y with | some b => .bool b | none => .err)
  | some false => .bool false
  | none => .err

theorem eval_or (e₁ e₂ : Expr) (f : Focus) :
    eval m a (.or e₁ e₂) f = orVal (eval m a e₁ f) (eval m a e₂ f) := by
  simp only [eval, orVal]
  generalize ebv (eval m a e₁ f) = x
  generalize ebv (eval m a e₂ f) = y
  rcases x with _ | (_ | _) <;> rcases y with _ | (_ | _) <;> rfl

theorem eval_and (e₁ e₂ : Expr) (f : Focus) :
    eval m a (.and e₁ e₂) f = andVal (eval m a e₁ f) (eval m a e₂ f) := by
  simp only [eval, andVal]
  generalize ebv (eval m a e₁ f) = x
  generalize ebv (eval m a e₂ f) = y
  rcases x with _ | (_ | _) <;> rcases y with _ | (_ | _) <;> rfl

end EPV.XP

/- C09 helper lemmas, part 2: `str.find` / `in` are the first-occurrence search of the spec. -/
import EPV.Model.Strings
namespace EPV.Strings
open EPV.FOStrings (Str Num Err)

/-- `t` occurs in `s` at offset `i` (boolean form used by both sides) -/
def occAt (t s : Str) (i : Nat) : Bool := t.isPrefixOf (s.drop i)

theorem occAt_iff (t s : Str) (i : Nat) (hi : i ≤ s.length) :
    occAt t s i = true ↔ FOStrings.OccursAt s t i := by
  unfold occAt FOStrings.OccursAt
  rw [List.isPrefixOf_iff_prefix]
  constructor
  · rintro ⟨v, hv⟩
    refine ⟨s.take i, v, ?_, by simp [List.length_take]; omega⟩
    rw [List.append_assoc, hv, List.take_append_drop]
  · rintro ⟨u, v, rfl, rfl⟩
    exact ⟨v, by simp⟩

theorem pyFind_le (t s : Str) (i : Nat) (h : pyFind t s = some i) : i ≤ s.length := by
  induction s generalizing i with
  | nil => simp [pyFind] at h; omega
  | cons c cs ih =>
    simp only [pyFind] at h
    split at h
    · simp at h; omega
    · cases h' : pyFind t cs with
      | none => simp [h'] at h
      | some k => simp [h'] at h; have := ih k h'; simp; omega

theorem pyFind_eq_some_iff (t s : Str) (i : Nat) :
    pyFind t s = some i ↔ (occAt t s i = true ∧ i ≤ s.length ∧ ∀ j, j < i → occAt t s j = false) := by
  induction s generalizing i with
  | nil =>
    cases t with
    | nil =>
      simp [pyFind, occAt]
      constructor
      · intro h; subst h; exact ⟨rfl, fun j => Nat.zero_le j⟩
      · intro h; exact h.1.symm
    | cons a t => simp [pyFind, occAt]
  | cons c cs ih =>
    simp only [pyFind]
    by_cases h0 : t.isPrefixOf (c :: cs) = true
    · simp only [h0, if_true]
      constructor
      · intro h; cases h; simp [occAt, h0]
      · rintro ⟨_, _, hmin⟩
        cases i with
        | zero => rfl
        | succ k => have := hmin 0 (by omega); simp [occAt, h0] at this
    · simp only [h0]
      cases i with
      | zero => simp [occAt, h0]
      | succ k =>
        have := ih k
        simp only [Option.map_eq_some_iff, Bool.false_eq_true, if_false]
        constructor
        · rintro ⟨a, ha, hk⟩
          have hak : a = k := by omega
          subst hak
          obtain ⟨h1, h2, h3⟩ := (ih a).mp ha
          refine ⟨by simpa [occAt] using h1, by simp; omega, ?_⟩
          intro j hj
          cases j with
          | zero => simp only [occAt, List.drop_zero]; exact Bool.eq_false_iff.mpr h0
          | succ j' => have := h3 j' (by omega); simpa [occAt] using this
        · rintro ⟨h1, h2, h3⟩
          refine ⟨k, (ih k).mpr ⟨by simpa [occAt] using h1, by simp at h2; omega, ?_⟩, rfl⟩
          intro j hj
          have := h3 (j + 1) (by omega)
          simpa [occAt] using this

theorem pyFind_eq_none_iff (t s : Str) :
    pyFind t s = none ↔ ∀ j, j ≤ s.length → occAt t s j = false := by
  induction s with
  | nil =>
    cases t with
    | nil => simp [pyFind, occAt]
    | cons a t => simp [pyFind, occAt]
  | cons c cs ih =>
    simp only [pyFind]
    by_cases h0 : t.isPrefixOf (c :: cs) = true
    · simp only [h0, if_true]
      constructor
      · intro h; cases h
      · intro h; have := h 0 (by omega); simp [occAt, h0] at this
    · simp only [h0, Bool.false_eq_true, if_false, Option.map_eq_none_iff, ih]
      constructor
      · intro h j hj
        cases j with
        | zero => simp only [occAt, List.drop_zero]; exact Bool.eq_false_iff.mpr h0
        | succ j' => have := h j' (by simp at hj; omega); simpa [occAt] using this
      · intro h j hj
        have := h (j + 1) (by simp; omega)
        simpa [occAt] using this

theorem pyIn_eq_find (t s : Str) : pyIn t s = (pyFind t s).isSome := by
  induction s with
  | nil => cases t <;> simp [pyIn, pyFind]
  | cons c cs ih =>
    simp only [pyIn, pyFind, ih]
    by_cases h0 : t.isPrefixOf (c :: cs) = true
    · simp [h0]
    · simp [h0]

/-- the spec's "try every offset" search finds the same offset as `str.find` -/
theorem firstOcc_eq_pyFind (s t : Str) : FOStrings.firstOcc s t = pyFind t s := by
  have key : ∀ i, ((s.drop i).take t.length == t) = occAt t s i := by
    intro i
    unfold occAt
    rw [Bool.eq_iff_iff, List.isPrefixOf_iff_prefix, List.prefix_iff_eq_take, beq_iff_eq]
    exact eq_comm
  cases h : pyFind t s with
  | none =>
    rw [pyFind_eq_none_iff] at h
    unfold FOStrings.firstOcc
    rw [List.find?_range_eq_none]
    intro i hi
    rw [key, h i (by omega)]; rfl
  | some i =>
    rw [pyFind_eq_some_iff] at h
    unfold FOStrings.firstOcc
    rw [List.find?_range_eq_some]
    refine ⟨by rw [key]; exact h.1, by simp; omega, ?_⟩
    intro j hj
    rw [key, h.2.2 j hj]; rfl
end EPV.Strings

/-
C08 helper lemmas: the Python float operations of the model agree with the F&O / IEEE
specification of xs:double on the exact-dyadic representation.
-/
import EPV.Spec.FOSeq
namespace EPV.Seq
open EPV.Seq.Spec

theorem pow2_eq (k : Nat) : pow2 k = (2 : Int) ^ k := rfl

theorem pow2_pos (k : Nat) : 0 < (2 : Int) ^ k := Int.pow_pos (by decide)

theorem D.lt_iff (a b : D) : D.lt a b = true ↔ ltD a b := by
  cases a <;> cases b <;> first | exact decide_eq_true_iff | simp [D.lt, ltD]

theorem D.eqv_iff (a b : D) : D.eqv a b = true ↔ eqD a b := by
  cases a <;> cases b <;> first | exact decide_eq_true_iff | simp [D.eqv, eqD]

theorem D.le_iff (a b : D) : D.le a b = true ↔ leD a b := by
  cases a <;> cases b <;> try (simp [D.le, leD, ltD, eqD]; done)
  rename_i m k m' k'
  show decide (m * pow2 k' ≤ m' * pow2 k) = true ↔ (m * (2:Int) ^ k' < m' * (2:Int) ^ k ∨ m * (2:Int) ^ k' = m' * (2:Int) ^ k)
  rw [decide_eq_true_iff]
  show m * (2:Int) ^ k' ≤ m' * (2:Int) ^ k ↔ _
  generalize m * (2:Int) ^ k' = x
  generalize m' * (2:Int) ^ k = y
  omega

theorem D.add_eq (a b : D) : D.add a b = addD a b := by
  cases a <;> cases b <;> simp [D.add, addD, pow2]

theorem floor_of_decomp (a b q r : Int) (hb : 0 < b) (h : r + b * q = a) (h0 : 0 ≤ r) (h1 : r < b) :
    a / b = q := ((Int.ediv_emod_unique hb).2 ⟨h, h0, h1⟩).1

/-- `Decimal.quantize` half-up / half-down on the magnitude, with the sign put back, is
`⌊x + 1/2⌋` (ties towards +INF) — the rounding that F&O prescribes for fn:round. -/
theorem roundNumber_eq (d : D) : roundNumber d = roundD d := by
  cases d with
  | nan => rfl
  | ninf => rfl
  | pinf => rfl
  | fin m k =>
    simp only [roundNumber, roundD]
    have h2 : (2 : Int) ^ (k + 1) = 2 * (2 : Int) ^ k := by rw [Int.pow_succ]; omega
    have hpn : ((2 ^ k : Nat) : Int) = (2 : Int) ^ k := by simp
    have hp0 : 0 < 2 ^ k := Nat.two_pow_pos k
    rw [h2, ← hpn]
    generalize (2 ^ k : Nat) = p at *
    rw [Int.fdiv_eq_ediv_of_nonneg _ (by omega)]
    have hdm := Nat.div_add_mod m.natAbs p
    have hlt := Nat.mod_lt m.natAbs hp0
    split
    · rename_i hm
      congr 1
      unfold quantHalfUp
      have hm' : m = (p : Int) * ((m.natAbs / p : Nat) : Int) + ((m.natAbs % p : Nat) : Int) := by
        have : (m.natAbs : Int) = m := by omega
        rw [← this]; exact_mod_cast hdm.symm
      generalize m.natAbs / p = q at *
      generalize m.natAbs % p = r at *
      rw [hm']
      split
      · rw [floor_of_decomp _ (2 * (p : Int)) ((q : Int) + 1) (2 * r - p) (by omega) (by grind) (by omega) (by omega)]
        simp
      · rw [floor_of_decomp _ (2 * (p : Int)) (q : Int) (2 * r + p) (by omega) (by grind) (by omega) (by omega)]
        rfl
    · rename_i hm
      congr 1
      unfold quantHalfDown
      have hm' : m = -((p : Int) * ((m.natAbs / p : Nat) : Int) + ((m.natAbs % p : Nat) : Int)) := by
        have : (m.natAbs : Int) = -m := by omega
        have h3 : ((p * (m.natAbs / p) + m.natAbs % p : Nat) : Int) = (m.natAbs : Int) := by exact_mod_cast hdm
        push_cast at h3
        omega
      generalize m.natAbs / p = q at *
      generalize m.natAbs % p = r at *
      rw [hm']
      split
      · rw [floor_of_decomp _ (2 * (p : Int)) (-(q : Int) - 1) (3 * p - 2 * r) (by omega) (by grind) (by omega) (by omega)]
        simp; omega
      · rw [floor_of_decomp _ (2 * (p : Int)) (-(q : Int)) (p - 2 * r) (by omega) (by grind) (by omega) (by omega)]
        rfl

end EPV.Seq

/-
C08 helper lemmas: `round_number` (Decimal quantize half-up / half-down on the magnitude)
is ⌊x + 1/2⌋ with the IEEE sign of zero, and the comparison functions of model and
specification coincide.
-/
import EPV.Spec.FOSeq
namespace EPV.Seq
open EPV.Seq.Spec

theorem pow2_pos (k : Nat) : 0 < (2 : Int) ^ k := Int.pow_pos (by decide)

theorem D.lt_eq (a b : D) : D.lt a b = ltD a b := rfl
theorem D.eqv_eq (a b : D) : D.eqv a b = eqD a b := rfl
theorem D.le_eq (a b : D) : D.le a b = leD a b := rfl

theorem floor_of_decomp (a b q r : Int) (hb : 0 < b) (h : r + b * q = a) (h0 : 0 ≤ r) (h1 : r < b) :
    a / b = q := ((Int.ediv_emod_unique hb).2 ⟨h, h0, h1⟩).1

/-- `Decimal.quantize` half-up / half-down on the magnitude, with the sign put back, is
`⌊x + 1/2⌋` (ties towards +INF) — the rounding that F&O prescribes for fn:round —
including the negative zero for arguments in [-0.5, -0). -/
theorem roundNumber_eq (d : D) : roundNumber d = roundD d := by
  cases d with
  | nan => rfl
  | ninf => rfl
  | pinf => rfl
  | nzero => rfl
  | fin m k =>
    simp only [roundNumber, roundD]
    have h2 : (2 : Int) ^ (k + 1) = 2 * (2 : Int) ^ k := by rw [Int.pow_succ]; omega
    have hpn : ((2 ^ k : Nat) : Int) = (2 : Int) ^ k := by simp
    have hp0 : 0 < 2 ^ k := Nat.two_pow_pos k
    rw [h2, ← hpn]
    generalize (2 ^ k : Nat) = p at *
    rw [Int.fdiv_eq_ediv_of_nonneg _ (by omega)]
    have hdm := Nat.div_add_mod m.natAbs p
    have hlt := Nat.mod_lt m.natAbs hp0
    by_cases hm : m > 0
    · simp only [hm, if_true]
      have hnot : ¬ ((2 * m + (p : Int)) / (2 * (p : Int)) = 0 ∧ m < 0) := by omega
      simp only [hnot, if_false]
      congr 1
      unfold quantHalfUp
      have hm' : m = (p : Int) * ((m.natAbs / p : Nat) : Int) + ((m.natAbs % p : Nat) : Int) := by
        have : (m.natAbs : Int) = m := by omega
        rw [← this]; exact_mod_cast hdm.symm
      generalize m.natAbs / p = q at *
      generalize m.natAbs % p = r at *
      rw [hm']
      split
      · rw [floor_of_decomp _ (2 * (p : Int)) ((q : Int) + 1) (2 * r - p) (by omega) (by grind) (by omega) (by omega)]
        simp
      · rw [floor_of_decomp _ (2 * (p : Int)) (q : Int) (2 * r + p) (by omega) (by grind) (by omega) (by omega)]
        rfl
    · simp only [hm, if_false]
      by_cases hm0 : m = 0
      · subst hm0
        have : (p : Int) / (2 * (p : Int)) = 0 :=
          floor_of_decomp _ (2 * (p : Int)) 0 p (by omega) (by omega) (by omega) (by omega)
        simp [this]
      · simp only [hm0, if_false]
        have hneg : m < 0 := by omega
        unfold quantHalfDown
        have hm' : m = -((p : Int) * ((m.natAbs / p : Nat) : Int) + ((m.natAbs % p : Nat) : Int)) := by
          have : (m.natAbs : Int) = -m := by omega
          have h3 : ((p * (m.natAbs / p) + m.natAbs % p : Nat) : Int) = (m.natAbs : Int) := by exact_mod_cast hdm
          push_cast at h3
          omega
        generalize m.natAbs / p = q at *
        generalize m.natAbs % p = r at *
        by_cases hr : 2 * r > p
        · simp only [hr, if_true]
          have hf : (2 * m + (p : Int)) / (2 * (p : Int)) = -(q : Int) - 1 := by
            rw [hm']
            exact floor_of_decomp _ (2 * (p : Int)) (-(q : Int) - 1) (3 * p - 2 * r) (by omega) (by grind) (by omega) (by omega)
          rw [hf]
          have h1 : q + 1 ≠ 0 := by omega
          have h2' : ¬ (-(q : Int) - 1 = 0 ∧ m < 0) := by omega
          simp only [h1, if_false, h2']
          congr 1
          simp only [Int.ofNat_eq_natCast]; push_cast; omega
        · simp only [hr, if_false]
          have hf : (2 * m + (p : Int)) / (2 * (p : Int)) = -(q : Int) := by
            rw [hm']
            exact floor_of_decomp _ (2 * (p : Int)) (-(q : Int)) (p - 2 * r) (by omega) (by grind) (by omega) (by omega)
          rw [hf]
          by_cases hq : q = 0
          · subst hq; simp [hneg]
          · have h2' : ¬ (-(q : Int) = 0 ∧ m < 0) := by omega
            simp only [hq, if_false, h2']
            rfl

/-- integers promoted to xs:double are integral: fn:round leaves them unchanged -/
theorem roundD_ofInt (n : Int) : roundD (D.ofInt n) = D.ofInt n := by
  unfold D.ofInt
  have key : ∀ x : Int, roundD (.fin x 0) = .fin x 0 := by
    intro x
    simp only [roundD]
    have : Int.fdiv (2 * x + (2 : Int) ^ 0) ((2 : Int) ^ (0 + 1)) = x := by
      rw [Int.fdiv_eq_ediv_of_nonneg _ (by decide)]
      simp
      omega
    rw [this]
    by_cases hx : x = 0 ∧ x < 0
    · omega
    · simp [hx]
  split
  · exact key _
  · split <;> first | exact key _ | rfl

end EPV.Seq

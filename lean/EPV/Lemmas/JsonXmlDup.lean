/-
C17 helper lemmas: fn:json-to-xml with the `duplicates` option on values that may contain duplicate keys.
`use-first` is `retain` applied to the value with the F&O `use-first` policy applied in every object
(`dfa`), whose keys are distinct; `reject` and `retain` on values with distinct keys coincide.
-/
import EPV.Lemmas.JsonXml
set_option linter.unusedSimpArgs false
set_option linter.unusedVariables false
namespace EPV.Json

mutual
/-- F&O 3.1 §17.4.1 / §17.5.1 `duplicates: use-first` in every object, inner values included -/
def dfa : JValue → JValue
  | .arr l => .arr (dfaL l)
  | .obj m => .obj (dfaM [] m)
  | v => v
def dfaL : List JValue → List JValue
  | [] => []
  | v :: t => dfa v :: dfaL t
def dfaM (seen : List Str) : List (Str × JValue) → List (Str × JValue)
  | [] => []
  | (k, v) :: t => if k ∈ seen then dfaM seen t else (k, dfa v) :: dfaM (k :: seen) t
end

/-! ### `dfa` is the specification's `dedupeAll .useFirst` -/

theorem dedupeFirst_map {α β} (f : α → β) (seen : List Str) (m : List (Str × α)) :
    dedupeFirst seen (m.map fun kv => (kv.1, f kv.2)) = (dedupeFirst seen m).map fun kv => (kv.1, f kv.2) := by
  induction m generalizing seen with
  | nil => rfl
  | cons kv t ih =>
    obtain ⟨k, v⟩ := kv
    simp only [List.map_cons, dedupeFirst]
    split
    · exact ih seen
    · simp [ih (k :: seen)]

mutual
theorem dedupeAll_first : ∀ v : JValue, dedupeAll .useFirst v = some (dfa v)
  | .null => rfl
  | .bool _ => rfl
  | .int _ => rfl
  | .dbl _ => rfl
  | .str _ => rfl
  | .arr l => by simp only [dedupeAll, dedupeAllL_first l, dfa]; rfl
  | .obj m => by
    simp only [dedupeAll, dfa]
    rw [dedupeAllM_first m]
    simp only [Option.bind, dedupe, Option.map]
    rw [dfaM_spec [] m]
theorem dedupeAllL_first : ∀ l : List JValue, dedupeAllL .useFirst l = some (dfaL l)
  | [] => rfl
  | v :: t => by simp only [dedupeAllL, dedupeAll_first v, dedupeAllL_first t, dfaL]; rfl
/-- inner values first, keys untouched -/
theorem dedupeAllM_first : ∀ m : List (Str × JValue),
    dedupeAllM .useFirst m = some (m.map fun kv => (kv.1, dfa kv.2))
  | [] => rfl
  | (k, v) :: t => by simp only [dedupeAllM, dedupeAll_first v, dedupeAllM_first t]; rfl
theorem dfaM_spec : ∀ (seen : List Str) (m : List (Str × JValue)),
    dedupeFirst seen (m.map fun kv => (kv.1, dfa kv.2)) = dfaM seen m
  | _, [] => rfl
  | seen, (k, v) :: t => by
    simp only [List.map_cons, dedupeFirst, dfaM]
    split
    · exact dfaM_spec seen t
    · rw [dfaM_spec (k :: seen) t]
end

/-! ### json-to-xml with use-first = json-to-xml (retain) of the deduplicated value -/

mutual
theorem toElem_useFirst : ∀ (v : JValue) (key : Option Str),
    toElem .useFirst key v = toElem .retain key (dfa v)
  | .null, _ => rfl
  | .bool _, _ => rfl
  | .int _, _ => rfl
  | .dbl _, _ => rfl
  | .str _, _ => rfl
  | .arr l, key => by simp only [toElem, dfa, toElemL_useFirst l]
  | .obj m, key => by simp only [toElem, dfa, toElemM_useFirst m []]
theorem toElemL_useFirst : ∀ l : List JValue, toElemL .useFirst l = toElemL .retain (dfaL l)
  | [] => rfl
  | v :: t => by simp only [toElemL, dfaL, toElem_useFirst v none, toElemL_useFirst t]
theorem toElemM_useFirst : ∀ (m : List (Str × JValue)) (seen : List Str),
    toElemM .useFirst seen m = toElemM .retain seen (dfaM seen m)
  | [], _ => rfl
  | (k, v) :: t, seen => by
    by_cases hk : k ∈ seen
    · simp only [toElemM, dfaM, hk, if_true]
      exact toElemM_useFirst t seen
    · simp only [toElemM, dfaM, hk, if_false, toElem_useFirst v _, toElemM_useFirst t (k :: seen)]
end

/-! ### the deduplicated value is in the domain of the round trip -/

mutual
theorem dfa_dom : ∀ v : JValue, v.validWith isXmlCodepoint wfDec = true → (dfa v).x2jDom = true
  | .null, _ => rfl
  | .bool _, _ => rfl
  | .int _, _ => rfl
  | .dbl d, h => by simpa [JValue.validWith, dfa, JValue.x2jDom] using h
  | .str s, h => by simpa [JValue.validWith, dfa, JValue.x2jDom] using h
  | .arr l, h => by
    simp only [dfa, JValue.x2jDom]
    exact dfaL_dom l (by simpa [JValue.validWith] using h)
  | .obj m, h => by
    simp only [dfa, JValue.x2jDom]
    exact dfaM_dom m [] (by simpa [JValue.validWith] using h)
theorem dfaL_dom : ∀ l : List JValue, validL isXmlCodepoint wfDec l = true → x2jDomL (dfaL l) = true
  | [], _ => rfl
  | v :: t, h => by
    have hh : v.validWith isXmlCodepoint wfDec = true ∧ validL isXmlCodepoint wfDec t = true := by
      simpa [validL] using h
    simp [dfaL, x2jDomL, dfa_dom v hh.1, dfaL_dom t hh.2]
theorem dfaM_dom : ∀ (m : List (Str × JValue)) (seen : List Str), validM isXmlCodepoint wfDec m = true →
    x2jDomM seen (dfaM seen m) = true
  | [], _, _ => rfl
  | (k, v) :: t, seen, h => by
    have hh : (k.all isXmlCodepoint = true ∧ v.validWith isXmlCodepoint wfDec = true) ∧
        validM isXmlCodepoint wfDec t = true := by simpa [validM] using h
    by_cases hk : k ∈ seen
    · simp only [dfaM, hk, if_true]
      exact dfaM_dom t seen hh.2
    · have hc : seen.contains k = false := by simpa using hk
      simp only [dfaM, hk, if_false, x2jDomM, hh.1.1, hc, dfa_dom v hh.1.2, dfaM_dom t (k :: seen) hh.2]
      rfl
end

mutual
theorem dfa_fixed (rnd : Dec → Dec) : ∀ v : JValue, v.numsFixed rnd → (dfa v).numsFixed rnd
  | .null, h => h
  | .bool _, h => h
  | .int _, h => h
  | .dbl _, h => h
  | .str _, h => h
  | .arr l, h => by
    simp only [dfa, JValue.numsFixed]
    exact dfaL_fixed rnd l h
  | .obj m, h => by
    simp only [dfa, JValue.numsFixed]
    exact dfaM_fixed rnd m [] h
theorem dfaL_fixed (rnd : Dec → Dec) : ∀ l : List JValue, numsFixedL rnd l → numsFixedL rnd (dfaL l)
  | [], _ => trivial
  | v :: t, h => ⟨dfa_fixed rnd v h.1, dfaL_fixed rnd t h.2⟩
theorem dfaM_fixed (rnd : Dec → Dec) : ∀ (m : List (Str × JValue)) (seen : List Str),
    numsFixedM rnd m → numsFixedM rnd (dfaM seen m)
  | [], _, _ => trivial
  | (k, v) :: t, seen, h => by
    by_cases hk : k ∈ seen
    · simp only [dfaM, hk, if_true]
      exact dfaM_fixed rnd t seen h.2
    · simp only [dfaM, hk, if_false]
      exact ⟨dfa_fixed rnd v h.1, dfaM_fixed rnd t (k :: seen) h.2⟩
end

/-! ### with distinct keys: `dfa` is the identity and `reject` behaves like `retain` -/

mutual
theorem dfa_id : ∀ v : JValue, v.x2jDom = true → dfa v = v
  | .null, _ => rfl
  | .bool _, _ => rfl
  | .int _, _ => rfl
  | .dbl _, _ => rfl
  | .str _, _ => rfl
  | .arr l, h => by simp only [dfa, dfaL_id l (by simpa [JValue.x2jDom] using h)]
  | .obj m, h => by simp only [dfa, dfaM_id m [] (by simpa [JValue.x2jDom] using h)]
theorem dfaL_id : ∀ l : List JValue, x2jDomL l = true → dfaL l = l
  | [], _ => rfl
  | v :: t, h => by
    have hh : v.x2jDom = true ∧ x2jDomL t = true := by simpa [x2jDomL] using h
    simp only [dfaL, dfa_id v hh.1, dfaL_id t hh.2]
theorem dfaM_id : ∀ (m : List (Str × JValue)) (seen : List Str), x2jDomM seen m = true → dfaM seen m = m
  | [], _, _ => rfl
  | (k, v) :: t, seen, h => by
    have hh : ((k.all isXmlCodepoint = true ∧ seen.contains k = false) ∧ v.x2jDom = true) ∧
        x2jDomM (k :: seen) t = true := by simpa [x2jDomM] using h
    have hk : k ∉ seen := by simpa using hh.1.1.2
    simp only [dfaM, hk, if_false, dfa_id v hh.1.2, dfaM_id t (k :: seen) hh.2]
end

mutual
theorem toElem_reject : ∀ (v : JValue), v.x2jDom = true → ∀ key : Option Str,
    toElem .reject key v = toElem .retain key v
  | .null, _, _ => rfl
  | .bool _, _, _ => rfl
  | .int _, _, _ => rfl
  | .dbl _, _, _ => rfl
  | .str _, _, _ => rfl
  | .arr l, h, key => by simp only [toElem, toElemL_reject l (by simpa [JValue.x2jDom] using h)]
  | .obj m, h, key => by simp only [toElem, toElemM_reject m [] (by simpa [JValue.x2jDom] using h)]
theorem toElemL_reject : ∀ l : List JValue, x2jDomL l = true → toElemL .reject l = toElemL .retain l
  | [], _ => rfl
  | v :: t, h => by
    have hh : v.x2jDom = true ∧ x2jDomL t = true := by simpa [x2jDomL] using h
    simp only [toElemL, toElem_reject v hh.1 none, toElemL_reject t hh.2]
theorem toElemM_reject : ∀ (m : List (Str × JValue)) (seen : List Str), x2jDomM seen m = true →
    toElemM .reject seen m = toElemM .retain seen m
  | [], _, _ => rfl
  | (k, v) :: t, seen, h => by
    have hh : ((k.all isXmlCodepoint = true ∧ seen.contains k = false) ∧ v.x2jDom = true) ∧
        x2jDomM (k :: seen) t = true := by simpa [x2jDomM] using h
    have hk : k ∉ seen := by simpa using hh.1.1.2
    simp only [toElemM, hk, if_false, toElem_reject v hh.1.2 _, toElemM_reject t (k :: seen) hh.2]
end

end EPV.Json

/-
C02: `iter_lazy` / `iter_descendants` (explicit-stack walks of EPV/Model/BuilderIters.lean) enumerate
exactly the recursive `lazyNode`, which is `iter` filtered by "is not a lazy node, or its owner has
built it" — so always a sublist of `iter` in document order, and all of `iter` once everything is built.
-/
import EPV.Model.BuilderIters
import EPV.Lemmas.BuilderLoop
namespace EPV.Builder

/-! ### what the walk is expected to yield -/

mutual
def wOne (own : PNode → List Nat) : PNode → List Nat
  | .elem p name m a sv kids => p :: own (.elem p name m a sv kids) ++ wKids own kids
  | .doc p _ => [p]
  | .text p _ => [p]
  | .comment p _ => [p]
  | .pi p _ _ => [p]
def wKids (own : PNode → List Nat) : List PNode → List Nat
  | [] => []
  | n :: ns => wOne own n ++ wKids own ns
end

theorem walkRun_succ (own : PNode → List Nat) (f : Nat) (s : Walk) :
    walkRun own (f + 1) s = match walkStep own s with
      | .next s' => walkRun own f s'
      | .done out => some out := rfl

mutual
theorem walk_one (own : PNode → List Nat) : ∀ (n : PNode) (rest : List PNode) (its : List (List PNode))
    (out : List Nat) (f : Nat),
    walkRun own (walkStepsOne n + f) ⟨n :: rest, its, out⟩ = walkRun own f ⟨rest, its, out ++ wOne own n⟩
  | .elem p name m a sv kids, rest, its, out, f => by
    cases hk : kids with
    | nil =>
      have hs : walkStepsOne (.elem p name m a sv []) + f = f + 1 := by simp [walkStepsOne]; omega
      rw [hs, walkRun_succ]
      simp [walkStep, PNode.isElem, PNode.kids, PNode.pos, wOne, wKids]
    | cons k ks =>
      have hs : walkStepsOne (.elem p name m a sv (k :: ks)) + f = (walkSteps (k :: ks) + (f + 1)) + 1 := by
        simp [walkStepsOne]; omega
      rw [hs, walkRun_succ]
      simp only [walkStep, PNode.isElem, PNode.kids, List.isEmpty_cons, Bool.not_false, Bool.and_self, if_true]
      rw [walk_kids own (k :: ks), walkRun_succ]
      simp [walkStep, wOne, PNode.pos, List.append_assoc]
  | .doc p kids, rest, its, out, f => by
    have hs : walkStepsOne (.doc p kids) + f = f + 1 := by simp [walkStepsOne]; omega
    rw [hs, walkRun_succ]; simp [walkStep, PNode.isElem, PNode.pos, wOne]
  | .text p s, rest, its, out, f => by
    have hs : walkStepsOne (.text p s) + f = f + 1 := by simp [walkStepsOne]; omega
    rw [hs, walkRun_succ]; simp [walkStep, PNode.isElem, PNode.pos, wOne]
  | .comment p s, rest, its, out, f => by
    have hs : walkStepsOne (.comment p s) + f = f + 1 := by simp [walkStepsOne]; omega
    rw [hs, walkRun_succ]; simp [walkStep, PNode.isElem, PNode.pos, wOne]
  | .pi p t s, rest, its, out, f => by
    have hs : walkStepsOne (.pi p t s) + f = f + 1 := by simp [walkStepsOne]; omega
    rw [hs, walkRun_succ]; simp [walkStep, PNode.isElem, PNode.pos, wOne]
theorem walk_kids (own : PNode → List Nat) : ∀ (ns : List PNode) (its : List (List PNode))
    (out : List Nat) (f : Nat),
    walkRun own (walkSteps ns + f) ⟨ns, its, out⟩ = walkRun own f ⟨[], its, out ++ wKids own ns⟩
  | [], its, out, f => by simp [walkSteps, wKids]
  | n :: ns, its, out, f => by
    have hs : walkSteps (n :: ns) + f = walkStepsOne n + (walkSteps ns + f) := by simp [walkSteps]; omega
    rw [hs, walk_one own n ns its out, walk_kids own ns its _ f]
    simp [wKids, List.append_assoc]
end

/-- the walk entered for an element terminates and yields `wOne` -/
theorem walk_elem (own : PNode → List Nat) (p : Nat) (name : String) (m : NsMap) (a : Attrib) (sv : String)
    (kids : List PNode) :
    walkRun own (walkSteps kids + 1) ⟨kids, [], p :: own (.elem p name m a sv kids)⟩
      = some (wOne own (.elem p name m a sv kids)) := by
  rw [walk_kids own kids [] _ 1, walkRun_succ]
  simp [walkStep, wOne]

/-! ### the expected yield is the recursive `lazyNode` -/

/-- no document node below the root (documents only occur as tree roots) -/
def noDoc : PNode → Bool
  | .doc .. => false
  | .elem _ _ _ _ _ kids => noDocs kids
  | _ => true
where noDocs : List PNode → Bool
  | [] => true
  | n :: ns => noDoc n && noDocs ns

def lazyOwnPos (L : LazyState) (n : PNode) : List Nat := (lazyOwn L n).map (·.pos)

mutual
theorem wOne_lazy (L : LazyState) : ∀ (n : PNode) (par : Option Nat), noDoc n = true →
    wOne (lazyOwnPos L) n = (lazyNode L par n).map (·.pos)
  | .elem p name m a sv kids, par, h => by
    have ih := wKids_lazy L kids (some p) (by simpa [noDoc] using h)
    simp [wOne, lazyNode, lazyOwnPos, lazyOwn, ih]
  | .doc p kids, par, h => by simp [noDoc] at h
  | .text p s, par, _ => by simp [wOne, lazyNode]
  | .comment p s, par, _ => by simp [wOne, lazyNode]
  | .pi p t s, par, _ => by simp [wOne, lazyNode]
theorem wKids_lazy (L : LazyState) : ∀ (ns : List PNode) (par : Option Nat), noDoc.noDocs ns = true →
    wKids (lazyOwnPos L) ns = (lazyKids L par ns).map (·.pos)
  | [], par, _ => by simp [wKids, lazyKids]
  | n :: ns, par, h => by
    simp only [noDoc.noDocs, Bool.and_eq_true] at h
    simp [wKids, lazyKids, wOne_lazy L n par h.1, wKids_lazy L ns par h.2]
end

/-! ### `lazyNode` is `iter` filtered -/

/-- a node is listed by `iter_lazy` iff it is not a lazy node or its owner has built it -/
def keep (L : LazyState) (r : Rec) : Bool :=
  match r.kind with
  | .namespace => (r.parent.map L.ns).getD false
  | .attribute => (r.parent.map L.attrs).getD false
  | _ => true

theorem enumFrom_forall {α : Type} (f : Nat → α → Rec) (P : Rec → Prop) (hf : ∀ q a, P (f q a)) (q : Nat) (l : List α) :
    ∀ r ∈ enumFrom f q l, P r := by
  induction l generalizing q with
  | nil => intro r hr; cases hr
  | cons a l ih =>
    intro r hr
    rcases List.mem_cons.1 hr with rfl | hr
    · exact hf _ _
    · exact ih _ r hr

theorem namespaceNodes_fields (p : Nat) (m : NsMap) :
    ∀ r ∈ namespaceNodes p m, r.kind = .namespace ∧ r.parent = some p := by
  intro r hr
  unfold namespaceNodes at hr
  rcases List.mem_cons.1 hr with rfl | hr
  · exact ⟨rfl, rfl⟩
  · exact enumFrom_forall _ (fun r => r.kind = .namespace ∧ r.parent = some p) (fun _ _ => ⟨rfl, rfl⟩) _ _ r hr

theorem attributeNodes_fields (p : Nat) (m : NsMap) (a : Attrib) :
    ∀ r ∈ attributeNodes p m a, r.kind = .attribute ∧ r.parent = some p := by
  intro r hr
  unfold attributeNodes at hr
  exact enumFrom_forall _ (fun r => r.kind = .attribute ∧ r.parent = some p) (fun _ _ => ⟨rfl, rfl⟩) _ _ r hr

theorem filter_keep_ns (L : LazyState) (p : Nat) (m : NsMap) :
    (namespaceNodes p m).filter (keep L) = if L.ns p then namespaceNodes p m else [] := by
  have hf := namespaceNodes_fields p m
  cases h : L.ns p with
  | true =>
    simp only [if_true]
    rw [List.filter_eq_self]
    intro r hr; simp [keep, (hf r hr).1, (hf r hr).2, h]
  | false =>
    simp only [Bool.false_eq_true, if_false]
    rw [List.filter_eq_nil_iff]
    intro r hr; simp [keep, (hf r hr).1, (hf r hr).2, h]

theorem filter_keep_attr (L : LazyState) (p : Nat) (m : NsMap) (a : Attrib) :
    (attributeNodes p m a).filter (keep L) = if L.attrs p then attributeNodes p m a else [] := by
  have hf := attributeNodes_fields p m a
  cases h : L.attrs p with
  | true =>
    simp only [if_true]
    rw [List.filter_eq_self]
    intro r hr; simp [keep, (hf r hr).1, (hf r hr).2, h]
  | false =>
    simp only [Bool.false_eq_true, if_false]
    rw [List.filter_eq_nil_iff]
    intro r hr; simp [keep, (hf r hr).1, (hf r hr).2, h]

mutual
theorem lazyNode_filter (L : LazyState) : ∀ (n : PNode) (par : Option Nat),
    lazyNode L par n = (iterNode par n).filter (keep L)
  | .doc p kids, par => by
    simp [lazyNode, iterNode, List.filter_cons, keep, lazyKids_filter L kids (some p)]
  | .elem p name m a sv kids, par => by
    simp [lazyNode, iterNode, List.filter_cons, keep, List.filter_append, filter_keep_ns, filter_keep_attr,
      lazyKids_filter L kids (some p)]
  | .text p s, par => by simp [lazyNode, iterNode, List.filter_cons, keep]
  | .comment p s, par => by simp [lazyNode, iterNode, List.filter_cons, keep]
  | .pi p t s, par => by simp [lazyNode, iterNode, List.filter_cons, keep]
theorem lazyKids_filter (L : LazyState) : ∀ (ns : List PNode) (par : Option Nat),
    lazyKids L par ns = (iterKids par ns).filter (keep L)
  | [], par => by simp [lazyKids, iterKids]
  | n :: ns, par => by
    simp [lazyKids, iterKids, List.filter_append, lazyNode_filter L n par, lazyKids_filter L ns par]
end

theorem keep_empty_eq_eager (r : Rec) : keep ⟨[], []⟩ r = eager r := by
  unfold keep eager LazyState.ns LazyState.attrs
  cases r.kind <;> cases r.parent <;> simp

/-! ### built trees have documents only at the root -/

theorem textNode_noDocs (p : Nat) (o : Option String) : noDoc.noDocs (textNode p o).1 = true := by
  cases o <;> simp [textNode, noDoc.noDocs, noDoc]

theorem noDocs_append (a b : List PNode) : noDoc.noDocs (a ++ b) = (noDoc.noDocs a && noDoc.noDocs b) := by
  induction a with
  | nil => simp [noDoc.noDocs]
  | cons n a ih => simp [noDoc.noDocs, ih, Bool.and_assoc]

mutual
theorem buildOne_noDoc (c : Cfg) : ∀ (t : XTree) (p : Nat), noDoc (buildOne c p t).1 = true
  | .elem name nsmap attrib text kids tail, p => by
    simp [buildOne, noDoc, noDocs_append, textNode_noDocs, buildKids_noDocs c kids]
  | .comment s tl, p => by simp [buildOne, noDoc]
  | .pi t s tl, p => by simp [buildOne, noDoc]
theorem buildKids_noDocs (c : Cfg) : ∀ (ts : List XTree) (p : Nat), noDoc.noDocs (buildKids c p ts).1 = true
  | [], p => by simp [buildKids, noDoc.noDocs]
  | t :: ts, p => by
    simp [buildKids, noDoc.noDocs, noDocs_append, textNode_noDocs, buildOne_noDoc c t, buildKids_noDocs c ts]
end

theorem buildSiblings_noDocs : ∀ (ts : List XTree) (p : Nat), noDoc.noDocs (buildSiblings p ts).1 = true
  | [], p => by simp [buildSiblings, noDoc.noDocs]
  | .comment s tl :: ts, p => by simp [buildSiblings, noDoc.noDocs, noDoc, buildSiblings_noDocs ts]
  | .pi t s tl :: ts, p => by simp [buildSiblings, noDoc.noDocs, noDoc, buildSiblings_noDocs ts]
  | .elem .. :: ts, p => by simpa [buildSiblings] using buildSiblings_noDocs ts p

/-- shape of a tree root: an element without documents below, or a document over such children -/
def rootOK : PNode → Bool
  | .doc _ kids => noDoc.noDocs kids
  | n => noDoc n

theorem build_rootOK (i : Input) (root : PNode) (h : build i = .ok root) : rootOK root = true := by
  have hone : ∀ p e, rootOK (buildOne i.cfg p e).1 = true := by
    intro p e
    have := buildOne_noDoc i.cfg e p
    cases he : (buildOne i.cfg p e).1 <;> simp_all [rootOK, noDoc]
  have hdoc : rootOK (buildLxmlDoc i) = true := by
    unfold buildLxmlDoc
    cases i.top with
    | none => simp [rootOK, noDoc.noDocs]
    | some e =>
      simp [rootOK, noDocs_append, noDoc.noDocs, buildSiblings_noDocs, buildOne_noDoc]
  unfold build at h
  split at h
  · unfold buildLxml at h
    repeat' split at h
    all_goals first
      | contradiction
      | (injection h with h; subst h; first | exact hdoc | exact hone _ _)
  · unfold buildET at h
    repeat' split at h
    all_goals first
      | contradiction
      | (injection h with h; subst h
         first
          | exact hone _ _
          | simp [rootOK, noDoc.noDocs, buildOne_noDoc])

/-! ### whole trees -/

theorem iterLazyElem_eq (L : LazyState) (e : PNode) (par : Option Nat) (he : e.isElem = true) (hn : noDoc e = true) :
    iterLazyElem L e = some ((lazyNode L par e).map (·.pos)) := by
  cases e with
  | elem p name m a sv kids =>
    unfold iterLazyElem
    simp only [PNode.kids, PNode.pos]
    have := walk_elem (lazyOwnPos L) p name m a sv kids
    rw [wOne_lazy L _ par hn] at this
    exact this
  | doc p kids => simp [PNode.isElem] at he
  | text p s => simp [PNode.isElem] at he
  | comment p s => simp [PNode.isElem] at he
  | pi p t s => simp [PNode.isElem] at he

theorem mapM_some {α β : Type} (g : α → Option β) (h : α → β) :
    ∀ (l : List α), (∀ x ∈ l, g x = some (h x)) → l.mapM g = some (l.map h)
  | [], _ => rfl
  | x :: l, hx => by
    have h1 := hx x List.mem_cons_self
    have h2 := mapM_some g h l (fun y hy => hx y (List.mem_cons_of_mem _ hy))
    simp [List.mapM_cons, h1, h2]

theorem flatten_map_lazy (L : LazyState) (par : Option Nat) : ∀ (kids : List PNode),
    (kids.map fun k => (lazyNode L par k).map (·.pos)).flatten = (lazyKids L par kids).map (·.pos)
  | [] => by simp [lazyKids]
  | k :: ks => by simp [lazyKids, flatten_map_lazy L par ks]

theorem mem_noDocs {kids : List PNode} (h : noDoc.noDocs kids = true) : ∀ k ∈ kids, noDoc k = true := by
  induction kids with
  | nil => intro k hk; cases hk
  | cons a l ih =>
    simp only [noDoc.noDocs, Bool.and_eq_true] at h
    intro k hk
    rcases List.mem_cons.1 hk with rfl | hk
    · exact h.1
    · exact ih h.2 k hk

/-- `root.iter_lazy()` of a well-shaped tree is the recursive `lazyNode` -/
theorem iterLazy_eq (L : LazyState) (root : PNode) (hr : rootOK root = true) :
    iterLazy L root = some ((lazyNode L none root).map (·.pos)) := by
  cases root with
  | doc p kids =>
    simp only [rootOK] at hr
    simp only [iterLazy, iterDocWith]
    rw [mapM_some _ (fun k => (lazyNode L (some p) k).map (·.pos))]
    · simp [lazyNode, flatten_map_lazy]
    · intro k hk
      have hnd := mem_noDocs hr k hk
      cases hke : k.isElem with
      | true => simp [iterLazyElem_eq L k (some p) hke hnd]
      | false =>
        cases k with
        | elem => simp [PNode.isElem] at hke
        | doc => simp [noDoc] at hnd
        | text => simp [lazyNode, PNode.pos]
        | comment => simp [lazyNode, PNode.pos]
        | pi => simp [lazyNode, PNode.pos]
  | elem p name m a sv kids =>
    exact iterLazyElem_eq L _ none rfl hr
  | text p s => simp [iterLazy, iterDocWith, iterLazyElem, PNode.kids, walkRun, walkStep, lazyOwn, lazyNode, PNode.pos]
  | comment p s => simp [iterLazy, iterDocWith, iterLazyElem, PNode.kids, walkRun, walkStep, lazyOwn, lazyNode, PNode.pos]
  | pi p t s => simp [iterLazy, iterDocWith, iterLazyElem, PNode.kids, walkRun, walkStep, lazyOwn, lazyNode, PNode.pos]

theorem iterDescElem_eq_lazy (e : PNode) : iterDescElem e = iterLazyElem ⟨[], []⟩ e := by
  unfold iterDescElem iterLazyElem
  have : (fun n => (lazyOwn ⟨[], []⟩ n).map (·.pos)) = (fun _ : PNode => ([] : List Nat)) := by
    funext n; cases n <;> simp [lazyOwn, LazyState.ns, LazyState.attrs]
  rw [this]
  cases e <;> simp [lazyOwn, LazyState.ns, LazyState.attrs]

/-- `root.iter_descendants()` = `iter_lazy` with nothing built -/
theorem iterDescendants_eq_lazy (root : PNode) : iterDescendants root = iterLazy ⟨[], []⟩ root := by
  unfold iterDescendants iterLazy
  have : iterDescElem = iterLazyElem ⟨[], []⟩ := funext iterDescElem_eq_lazy
  rw [this]

end EPV.Builder

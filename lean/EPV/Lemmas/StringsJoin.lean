/- C09 helper lemmas, part 8: `sep.join(items)` is the intercalation of the spec. -/
import EPV.Model.Strings
namespace EPV.Strings
open EPV.FOStrings (Str Num Err)

theorem pyJoin_eq_intercalate (sep : Str) (items : List Str) :
    pyJoin sep items = sep.intercalate items := by
  induction items with
  | nil => rfl
  | cons w ws ih =>
    cases ws with
    | nil => simp [pyJoin, List.intercalate, List.intersperse]
    | cons w' ws' =>
      simp only [pyJoin, ih]
      simp [List.intercalate, List.intersperse]

theorem pyJoin_two (sep a b : Str) : pyJoin sep [a, b] = a ++ sep ++ b := by simp [pyJoin]
end EPV.Strings

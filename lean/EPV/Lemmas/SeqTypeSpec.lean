/-
C18 — `match_sequence_type` (model) computes SequenceType matching of XPath 3.1 (spec) on the domain `domT`.
-/
import EPV.Lemmas.SeqTypeSound
import EPV.Spec.XPathTypes
set_option linter.unusedSimpArgs false
namespace EPV.SeqType

/-- domain of `match_eq_spec`, following the recursion of the matcher: names are atomic type names,
documents reached by a kind test have at most one element child (values of maps and members of arrays that
meet a typed function test are judged against its return type) -/
def domT : Ty → List Item → Bool
  | .empty, _ => true
  | .leaf l _, v => l.isAtomicName && docsWellFormed v
  | .func _ r, v => v.all (fun x => match x with
      | .map es => domT r [] && es.all (fun e => domT r e.2)
      | .array ms => ms.all (fun mem => domT r mem)
      | _ => true)
  | .map _ vt _, v => v.all (fun x => match x with
      | .map es => es.all (fun e => domT vt e.2)
      | _ => true)
  | .array m _, v => v.all (fun x => match x with
      | .array ms => ms.all (fun mem => domT m mem)
      | _ => true)

/-- the generated tables say what the specification says (proved for the live tables by `decide`) -/
structure SpecAgree (tb : Tables) (st : SpecTables) (xsd11 : Bool) : Prop where
  atomic : ∀ c t, instAtomic tb xsd11 c t = specAtomic st c t
  numeric : ∀ c, tb.isNumeric c = specNumeric st c
  anyAtomic : tb.anyAtomic = st.anyAtomicIdx
  integer : tb.integer = st.integerIdx

def itemDocOK' : Item → Bool
  | .node .document _ kids _ => kids.length ≤ 1
  | _ => true

theorem docsWellFormed_mem' : ∀ (v : List Item), docsWellFormed v = true → ∀ x ∈ v, itemDocOK' x = true
  | [], _, x, hx => by simp at hx
  | y :: ys, h, x, hx => by
    rcases List.mem_cons.1 hx with rfl | hx'
    · cases x with
      | node k n kids root => cases k <;> simp_all [docsWellFormed, itemDocOK']
      | _ => rfl
    · apply docsWellFormed_mem' ys _ x hx'
      cases y with
      | node k n kids root => cases k <;> simp_all [docsWellFormed]
      | _ => simpa [docsWellFormed] using h

theorem specAtomic_none_right (st : SpecTables) (c t : Nat) (h : st.atomTy t = none) : specAtomic st c t = false := by
  simp only [specAtomic, h]; cases st.clsTy c <;> rfl

theorem specAtomic_none_left (st : SpecTables) (c t : Nat) (h : st.clsTy c = none) : specAtomic st c t = false := by
  simp only [specAtomic, h]

theorem allE_eq_ok {α : Type} (f : α → Res) (g : α → Bool) :
    ∀ (l : List α), (∀ x ∈ l, f x = .ok (g x)) → allE f l = .ok (l.all g)
  | [], _ => rfl
  | x :: xs, h => by
    have hx := h x (by simp)
    have ih := allE_eq_ok f g xs (fun y hy => h y (by simp [hy]))
    simp only [allE, hx, List.all_cons]
    cases g x <;> simp [ih]

theorem cardOK_eq_occCard (o : Occ) (n : Nat) : cardOK o n = occCard o n := by cases o <;> rfl

theorem seqMatch_eq_ok (o : Occ) (f : Item → Res) (g : Item → Bool) (v : List Item)
    (h : ∀ x ∈ v, f x = .ok (g x)) : seqMatch o f v = .ok (occCard o v.length && v.all g) := by
  match v with
  | [] => cases o <;> rfl
  | [x] => have := h x (by simp); cases o <;> simp [seqMatch, occCard, this]
  | x :: y :: r =>
    have := allE_eq_ok f g (x :: y :: r) h
    cases o <;> simp [seqMatch, occCard, this]

theorem matchLeafNode_eq_spec (k : Kind) (name : Nat) (kids : List Nat) (l : Leaf)
    (hw : k = .document → kids.length ≤ 1) : matchLeafNode k name kids l = specLeafNode k name kids l := by
  cases l with
  | kind k' nt =>
    cases k' <;> cases nt <;> cases k <;> simp [matchLeafNode, specLeafNode, nameOK, specName]
    all_goals (try (constructor <;> intro h <;> simp_all))
  | docElem nt =>
    cases k <;> simp [matchLeafNode, specLeafNode]
    have := hw rfl
    match kids, this with
    | [], _ => simp
    | [e], _ => cases nt <;> simp [nameOK, specName]
  | _ => simp [matchLeafNode, specLeafNode]

theorem matchLeaf_eq_spec (tb : Tables) (st : SpecTables) (xsd11 : Bool) (ha : SpecAgree tb st xsd11)
    (l : Leaf) (x : Item) (hl : l.isAtomicName = true) (hd : itemDocOK' x = true) :
    matchLeaf tb xsd11 true l x = .ok (specLeaf st l x) := by
  cases x with
  | atom c =>
    cases l <;> simp [Leaf.isAtomicName] at hl <;> simp [matchLeaf, specLeaf, ha.atomic, ha.numeric]
  | node k n kids root =>
    have hw : k = .document → kids.length ≤ 1 := by intro e; subst e; simpa [itemDocOK'] using hd
    cases l <;> simp [Leaf.isAtomicName] at hl <;> simp [matchLeaf, specLeaf, matchLeafNode_eq_spec k n kids _ hw]
  | func sa sr => cases l <;> simp [Leaf.isAtomicName] at hl <;> simp [matchLeaf, specLeaf]
  | map es => cases l <;> simp [Leaf.isAtomicName] at hl <;> simp [matchLeaf, specLeaf]
  | array ms => cases l <;> simp [Leaf.isAtomicName] at hl <;> simp [matchLeaf, specLeaf]

theorem hasMapArray_false_mem' : ∀ (v : List Item), hasMapArray v = false → ∀ x ∈ v, x.isMapArray = false :=
  hasMapArray_false_mem

/-- **`match_sequence_type` = SequenceType matching of XPath 3.1** on the domain `domT`, with the
implementation's restriction relation as the subtype relation of function items. -/
theorem matchSt_eq_spec (tb : Tables) (st : SpecTables) (xsd11 : Bool) (ha : SpecAgree tb st xsd11) :
    ∀ (t : Ty) (v : List Item), domT t v = true →
      matchSt tb xsd11 true t v = .ok (specMatch st (isRestriction tb) t v)
  | .empty, v, _ => by simp [matchSt, specMatch]
  | .leaf l o, v, hd => by
    simp only [domT, Bool.and_eq_true] at hd
    simp only [matchSt, specMatch]
    apply seqMatch_eq_ok
    intro x hx
    exact matchLeaf_eq_spec tb st xsd11 ha l x hd.1 (docsWellFormed_mem' v hd.2 x hx)
  | .func a r, v, hd => by
    simp only [domT, List.all_eq_true] at hd
    rw [matchSt_eq_seqMatch _ _ _ _ _ (by simp)]
    simp only [specMatch, Ty.ownOcc]
    apply seqMatch_eq_ok
    intro x hx
    have hdx := hd x hx
    cases x with
    | func sa sr => simp [itemFn, funcItemTest]
    | atom c => simp [itemFn]
    | node k n kids root => simp [itemFn]
    | map es =>
      simp only [Bool.and_eq_true, List.all_eq_true] at hdx
      simp only [itemFn]
      cases a with
      | nil => rfl
      | cons k as =>
        cases as with
        | cons _ _ => rfl
        | nil =>
          simp only []
          rw [matchSt_eq_spec tb st xsd11 ha r [] hdx.1,
            allE_eq_ok _ (fun e => specMatch st (isRestriction tb) r e.2) es
              (fun e he => matchSt_eq_spec tb st xsd11 ha r e.2 (hdx.2 e he)), ha.anyAtomic]
          cases isRestriction tb (.leaf (.atomic st.anyAtomicIdx) .one) k <;>
            cases specMatch st (isRestriction tb) r [] <;> simp [andE]
    | array ms =>
      simp only [List.all_eq_true] at hdx
      simp only [itemFn]
      cases a with
      | nil => rfl
      | cons k as =>
        cases as with
        | cons _ _ => rfl
        | nil =>
          simp only []
          rw [allE_eq_ok _ (fun m => specMatch st (isRestriction tb) r m) ms
              (fun m hm => matchSt_eq_spec tb st xsd11 ha r m (hdx m hm)), ha.integer]
          cases isRestriction tb (.leaf (.atomic st.integerIdx) .one) k <;> simp
  | .map k vt o, v, hd => by
    simp only [domT, List.all_eq_true] at hd
    rw [matchSt_eq_seqMatch _ _ _ _ _ (by simp)]
    simp only [specMatch, Ty.ownOcc]
    apply seqMatch_eq_ok
    intro x hx
    have hdx := hd x hx
    cases x with
    | map es =>
      simp only [itemFn]
      simp only [List.all_eq_true] at hdx
      apply allE_eq_ok
      intro e he
      rw [matchSt_eq_spec tb st xsd11 ha vt e.2 (hdx e he), ha.atomic]
      cases specAtomic st e.1 k <;> simp [andE]
    | _ => simp [itemFn]
  | .array m o, v, hd => by
    simp only [domT, List.all_eq_true] at hd
    rw [matchSt_eq_seqMatch _ _ _ _ _ (by simp)]
    simp only [specMatch, Ty.ownOcc]
    apply seqMatch_eq_ok
    intro x hx
    have hdx := hd x hx
    cases x with
    | array ms =>
      simp only [itemFn]
      simp only [List.all_eq_true] at hdx
      apply allE_eq_ok
      intro mem hmem
      exact matchSt_eq_spec tb st xsd11 ha m mem (hdx mem hmem)
    | _ => simp [itemFn]

end EPV.SeqType

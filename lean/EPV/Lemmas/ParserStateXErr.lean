/-
Lemmas about the model of `xpath_error` (EPV/Model/XPathError.lean).
-/
import EPV.Model.XPathError
namespace EPV.XErr

/-- decidable closure condition on the generated tables: every code's class, the class raised by
`xpath_error` itself and the fallback class all derive from `ElementPathError` -/
def TableClosed (g : Graph) (m : CodeMap) : Bool :=
  m.all (fun p => isEPE g p.2) && isEPE g "ElementPathValueError" && isEPE g root

theorem cls?_mem {m : CodeMap} {code c : String} (h : m.cls? code = some c) : (code, c) ∈ m := by
  unfold CodeMap.cls? at h
  cases hf : m.find? (·.1 == code) with
  | none => rw [hf] at h; cases h
  | some p =>
    rw [hf] at h
    have h1 := List.find?_some hf
    have h2 := List.mem_of_find?_eq_some hf
    simp only [Option.map_some, Option.some.injEq] at h
    simp only [beq_iff_eq] at h1
    obtain ⟨a, b⟩ := p
    simp only at h h1
    rw [← h, ← h1]; exact h2

theorem finish_cls (g : Graph) (m : CodeMap) (hc : TableClosed g m = true) (ns code pcode : String) :
    isEPE g (finish m ns code pcode).cls = true := by
  simp only [TableClosed, Bool.and_eq_true, List.all_eq_true] at hc
  obtain ⟨⟨h1, h2⟩, h3⟩ := hc
  unfold finish
  cases h : m.cls? code with
  | some c => exact h1 _ (cls?_mem h)
  | none =>
    simp only []
    split
    · exact h2
    · exact h3

/-- **the taxonomy is closed under `xpath_error`**: for every argument (string with or without
prefix / braces, QName with any namespace) and every prefix binding, the exception that is returned
or raised is an instance of a subclass of `ElementPathError` -/
theorem xpathError_cls (g : Graph) (m : CodeMap) (hc : TableClosed g m = true) (pfx : String)
    (arg : CodeArg) : isEPE g (xpathError m pfx arg).cls = true := by
  have hbad : isEPE g bad.cls = true := by
    simp only [TableClosed, Bool.and_eq_true] at hc
    exact hc.1.2
  cases arg with
  | qname uri p l => exact finish_cls g m hc _ _ _
  | str code =>
    simp only [xpathError]
    split
    · split
      · split
        · exact hbad
        · exact finish_cls g m hc _ _ _
      · exact hbad
    · split
      · exact finish_cls g m hc _ _ _
      · split
        · exact finish_cls g m hc _ _ _
        · exact hbad

theorem finish_code (m : CodeMap) (ns code pcode : String) :
    (finish m ns code pcode).code = pcode ∨ (finish m ns code pcode) = bad := by
  unfold finish
  cases m.cls? code with
  | some c => left; rfl
  | none =>
    simp only []
    split
    · right; rfl
    · left; rfl

theorem finish_code_known (m : CodeMap) (ns code pcode : String) (h : (finish m ns code pcode) ≠ bad)
    (hns : ns = xqtNs) : ∃ c, (code, c) ∈ m := by
  unfold finish at h
  cases hc : m.cls? code with
  | some c => exact ⟨c, cls?_mem hc⟩
  | none => rw [hc] at h; simp [hns] at h

theorem withPrefix_ne_empty (pfx code : String) (h : code ≠ "") : withPrefix pfx code ≠ "" := by
  unfold withPrefix
  split
  · exact h
  · intro e
    rw [String.append_eq_empty_iff] at e
    exact h e.2

/-- the `code` attribute is never empty (string arguments; table keys are non-empty) -/
theorem xpathError_code_str (m : CodeMap) (hk : ∀ p ∈ m, p.1 ≠ "") (pfx code : String) :
    (xpathError m pfx (.str code)).code ≠ "" := by
  have hbad : bad.code ≠ "" := by decide
  simp only [xpathError]
  split
  · split
    · rename_i ns c _
      split
      · exact hbad
      · rename_i hns
        by_cases hb : finish m ns c (withPrefix pfx c) = bad
        · rw [hb]; exact hbad
        · rcases finish_code m ns c (withPrefix pfx c) with h | h
          · rw [h]
            have hns' : ns = xqtNs := by simpa using hns
            obtain ⟨c', hc'⟩ := finish_code_known m ns c _ hb hns'
            exact withPrefix_ne_empty _ _ (hk _ hc')
          · exact absurd h hb
    · exact hbad
  · split
    · by_cases hb : finish m xqtNs code (withPrefix pfx code) = bad
      · rw [hb]; exact hbad
      · rcases finish_code m xqtNs code (withPrefix pfx code) with h | h
        · rw [h]
          obtain ⟨c', hc'⟩ := finish_code_known m xqtNs code _ hb rfl
          exact withPrefix_ne_empty _ _ (hk _ hc')
        · exact absurd h hb
    · split
      · rename_i hcolon _
        rcases finish_code m xqtNs ((splitStr ':' code).getD 1 "") code with h | h
        · rw [h]
          intro e
          rw [e] at hcolon
          simp at hcolon
        · rw [h]; exact hbad
      · exact hbad

end EPV.XErr

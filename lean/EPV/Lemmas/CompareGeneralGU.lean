/-
C07 — one pair of a general comparison, left operand in untypedAtomic: part of the 17 x 17 case analysis of
EPV/Lemmas/CompareGeneral.lean (split so that every file compiles in well under a minute).
-/
import EPV.Lemmas.CompareGeneralLemmas
set_option linter.unusedSimpArgs false
set_option linter.unusedVariables false
namespace EPV.Cmp
open EPV.CmpSpec EPV.CmpFind

def grpGU : Atom → Bool
  | .ua _ => true | _ => false

set_option maxHeartbeats 4000000 in
theorem pairGeneral_conforms_GU (m : Mode) (op : Op) (a b : Atom) (hg : grpGU a = true)
    (h1 : trigTol op a b = false) (h2 : trigPromotion a b = false)
    (h5 : pairSpec m op a b ≠ .error .unsupported) (h6 : pairGeneral m op a b ≠ .error .unsupported)
    (h8 : dtConsistent a b = true) :
    pairGeneral m op a b = pairSpec m op a b := by
  cases a <;> simp [grpGU] at hg <;> cases b <;>
      first
      | (gp_simp; done)
      | (simp [dtConsistent, Atom.isDT, Atom.dt] at h8; gp_simp; simp [dtCompare_eq_six _ _ _ h8]; done)
      | skip
  case ua.str s t => exact (pg_str_str m op s t).2.2.2.2.2
  case ua.ua s t => exact pg_ua_ua m op s t
  case ua.int s v => exact pg_ua_num m op s _ .nan (Or.inl ⟨v, rfl⟩) h5
  case ua.dbl s d => exact pg_ua_num m op s _ d (Or.inr (Or.inl rfl)) h5
  case ua.flt s d => exact pg_ua_num m op s _ d (Or.inr (Or.inr (Or.inr rfl))) h5
  case ua.dec s q => exact pg_ua_num m op s _ .nan (Or.inr (Or.inr (Or.inl ⟨q, rfl⟩))) h5
  case ua.bool s y => exact (pg_ua_bool m op s y).1
  case ua.uri s t => exact pg_ua_uri m op s t h6
  case ua.qn s ns pre loc => exact pg_ua_qn m op s ns pre loc h5
  case ua.date => exact pg_ua_temporal m op _ _ rfl h5
  case ua.dtm => exact pg_ua_temporal m op _ _ rfl h5
  case ua.time => exact pg_ua_temporal m op _ _ rfl h5
  case ua.dur => exact pg_ua_temporal m op _ _ rfl h5
  case ua.ymd => exact pg_ua_temporal m op _ _ rfl h5
  case ua.dtd => exact pg_ua_temporal m op _ _ rfl h5
  case ua.hex s y => exact pg_ua_hex m op s y h5
  case ua.b64 s y => exact pg_ua_b64 m op s y h5

end EPV.Cmp

/-
C15 — the `?` lookup over a SEQUENCE left operand and a sequence of keys is "for each item, for
each key" (`lookup_seq_eq_spec`), and read-only operations give the same value when the same
call site is evaluated again later in a copying run (`read_op_stable`, the model side of
call-site reuse).
-/
import EPV.Lemmas.MapArrayClosed
namespace EPV.MapArray
open Spec

theorem mapM_pure_ok {α β : Type} (f : α → β) (l : List α) :
    l.mapM (fun x => (Except.ok (f x) : Except Err β)) = .ok (l.map f) := by
  induction l with
  | nil => rfl
  | cons x rest ih => rw [List.mapM_cons, ih]; rfl

theorem lookupItem_eq_spec (d : Dialect) (s : Store) (K : List Key) (it : Item) :
    lookupItem d s (some K) it =
      if isMapOrArray s it then (K.mapM (lookup1 d s it)).map List.flatten else .error .XPTY0004 := by
  cases it with
  | atom k => rfl
  | ref a =>
    cases hs : s[a]? with
    | none => simp only [lookupItem, isMapOrArray, hs, Option.isSome_none, Bool.false_eq_true, ↓reduceIte]
    | some o =>
      simp only [lookupItem, isMapOrArray, hs, Option.isSome_some, ↓reduceIte]
      cases o with
      | map es =>
        have hl : lookup1 d s (.ref a) = fun k => .ok (d.mapGet es k) := by
          funext k; simp only [lookup1, hs]
        rw [hl, mapM_pure_ok (fun k => d.mapGet es k) K]; rfl
      | arr ms =>
        have hl : lookup1 d s (.ref a) = fun k => (d.arrIndex k >>= fun p => d.arrGet ms p) := by
          funext k; simp only [lookup1, hs]
        rw [hl]

/-- **lookup_seq_eq_spec**: `$v?(K)` for a value `$v` of any length is the concatenation, over the
items of `$v` in order and the keys of `K` in order, of the single lookups; the first failing
(item, key) pair — or the first item that is neither map nor array — decides the error. -/
theorem lookup_seq_eq_spec' (d : Dialect) (st : St) (v : Nat) (K : List Key) :
    evalOp d st (.lookup v (some K)) = (lookupSeq d st.store (st.var v) K).map fun r => (st.store, r) := by
  simp only [evalOp, lookupSeq]
  have : lookupItem d st.store (some K) = fun e =>
      if isMapOrArray st.store e then (K.mapM (lookup1 d st.store e)).map List.flatten else .error .XPTY0004 :=
    funext fun it => lookupItem_eq_spec d st.store K it
  rw [this]
  generalize ((st.var v).mapM fun e =>
      if isMapOrArray st.store e then (K.mapM (lookup1 d st.store e)).map List.flatten
      else (Except.error Err.XPTY0004 : Except Err Seq)) = r
  cases r with
  | error e => rfl
  | ok parts => rfl

/-! ### the same read-only call site, evaluated again later -/

theorem var_stable {st st' : St} (he : st.env <+: st'.env) {i : Nat} (hi : i < st.env.length) :
    st'.var i = st.var i := by
  unfold St.var
  rw [List.getD_eq_getElem?_getD, List.getD_eq_getElem?_getD, prefix_getElem? he hi]

theorem asMap_stable {s s' : Store} (hp : s <+: s') {v : Seq} (hv : SeqOK s.length v) : asMap s' v = asMap s v := by
  unfold asMap
  split
  · rename_i a
    have : a < s.length := hv (.ref a) (by simp)
    rw [prefix_getElem? hp this]
  · rfl

theorem asArr_stable {s s' : Store} (hp : s <+: s') {v : Seq} (hv : SeqOK s.length v) : asArr s' v = asArr s v := by
  unfold asArr
  split
  · rename_i a
    have : a < s.length := hv (.ref a) (by simp)
    rw [prefix_getElem? hp this]
  · rfl

theorem lookupItem_stable (d : Dialect) {s s' : Store} (hp : s <+: s') (ks : Option (List Key)) {it : Item}
    (hit : ItemOK s.length it) : lookupItem d s' ks it = lookupItem d s ks it := by
  cases it with
  | atom k => rfl
  | ref a => simp only [lookupItem]; rw [prefix_getElem? hp hit]

/-- **call-site reuse, read-only operations**: in a later state of a copying run (old store and
environment are prefixes) a read-only operation on old variables yields exactly the value it
yielded before, and leaves the store alone. -/
theorem read_op_stable (d : Dialect) {st st' : St} (hst : StOK st) (hs : st.store <+: st'.store)
    (he : st.env <+: st'.env) (op : Op) (vars : List Nat) (hv : readVars op = some vars)
    (hvars : ∀ i ∈ vars, i < st.env.length) :
    (evalOp d st' op).map (·.2) = (evalOp d st op).map (·.2) := by
  have hvar : ∀ i ∈ vars, st'.var i = st.var i ∧ SeqOK st.store.length (st.var i) :=
    fun i hi => ⟨var_stable he (hvars i hi), var_ok hst i⟩
  cases op <;> simp only [readVars, Option.some.injEq, reduceCtorEq] at hv <;> subst hv
  case mGet m k =>
    obtain ⟨h1, h2⟩ := hvar m (by simp)
    simp only [evalOp, h1, asMap_stable hs h2]
    cases asMap st.store (st.var m) <;> rfl
  case mContains m k =>
    obtain ⟨h1, h2⟩ := hvar m (by simp)
    simp only [evalOp, h1, asMap_stable hs h2]
    cases asMap st.store (st.var m) <;> rfl
  case mSize m =>
    obtain ⟨h1, h2⟩ := hvar m (by simp)
    simp only [evalOp, h1, asMap_stable hs h2]
    cases asMap st.store (st.var m) <;> rfl
  case mKeys m =>
    obtain ⟨h1, h2⟩ := hvar m (by simp)
    simp only [evalOp, h1, asMap_stable hs h2]
    cases asMap st.store (st.var m) <;> rfl
  case aGet a p =>
    obtain ⟨h1, h2⟩ := hvar a (by simp)
    simp only [evalOp, h1, asArr_stable hs h2]
    cases asArr st.store (st.var a) with
    | error e => rfl
    | ok r => simp only [bind, Except.bind]; cases d.arrGet r.2 p <;> rfl
  case aHead a =>
    obtain ⟨h1, h2⟩ := hvar a (by simp)
    simp only [evalOp, h1, asArr_stable hs h2]
    cases asArr st.store (st.var a) with
    | error e => rfl
    | ok r => simp only [bind, Except.bind]; cases d.arrHead r.2 <;> rfl
  case aSize a =>
    obtain ⟨h1, h2⟩ := hvar a (by simp)
    simp only [evalOp, h1, asArr_stable hs h2]
    cases asArr st.store (st.var a) <;> rfl
  case lookup v ks =>
    obtain ⟨h1, h2⟩ := hvar v (by simp)
    simp only [evalOp, h1]
    rw [mapM_congr_mem (g := lookupItem d st.store ks) fun it hit => lookupItem_stable d hs ks (h2 it hit)]
    cases (st.var v).mapM (lookupItem d st.store ks) <;> rfl

end EPV.MapArray

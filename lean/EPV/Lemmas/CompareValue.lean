/-
C07 — the value-comparison lattice of the model against the specification's comparability table,
pair by pair (all 17 × 17 atomic types, all six operators), outside the finding triggers.
-/
import EPV.Lemmas.CompareBasic
import EPV.Lemmas.CompareFindings
import EPV.Lemmas.CalendarSpec
import EPV.Lemmas.CompareDuration
set_option linter.unusedSimpArgs false
namespace EPV.Cmp
open EPV.CmpSpec EPV.CmpFind

theorem cmpBy_eq_six {α} (lt eq : α → α → Bool) (op : Op) (a b : α) :
    cmpBy lt eq op a b = six lt eq op a b := by
  cases op <;> rfl

/-- the model's IEEE comparison (`D.lt`, via rank/value) is the specification's op:numeric-less-than -/
theorem D.lt_eq_numLt (x y : D) : D.lt x y = numLt x y := by
  cases x <;> cases y <;> simp [D.lt, numLt, D.isNaN, D.rank, D.val]
theorem D.eq_eq_numEq (x y : D) : D.eq x y = numEq x y := by
  cases x <;> cases y <;> simp [D.eq, numEq, D.isNaN, D.rank, D.val]

theorem dCmp_eq_six (op : Op) (x y : D) : dCmp op x y = six numLt numEq op x y := by
  unfold dCmp
  rw [cmpBy_eq_six]
  have h1 : D.lt = numLt := by funext a b; exact D.lt_eq_numLt a b
  have h2 : D.eq = numEq := by funext a b; exact D.eq_eq_numEq a b
  rw [h1, h2]

theorem numEq_comm (x y : D) : numEq x y = numEq y x := by
  cases x <;> cases y <;> simp [numEq, D.val] <;> exact decide_eq_decide.mpr eq_comm

theorem six_swap (op : Op) (x y : D) : six numLt numEq op.swap y x = six numLt numEq op x y := by
  cases op <;> simp [six, Op.swap, numEq_comm y x]

/-- equal values are not ordered -/
theorem numEq_not_lt {x y : D} (h : numEq x y = true) : numLt x y = false ∧ numLt y x = false := by
  cases x <;> cases y <;> simp_all [numEq, numLt, D.val] <;> grind

/-! ### Python operator on two numeric objects -/

theorem pyOp_dbl_dbl (m : Mode) (op : Op) (x y : D) :
    pyOp m op (.dbl x) (.dbl y) = .ok (six numLt numEq op x y) := by
  simp [pyOp, pyBinop, subclassFirst, dunder, Atom.pyNum, numCmp, dCmp_eq_six]

theorem pyOp_dbl_flt (m : Mode) (op : Op) (x y : D) :
    pyOp m op (.dbl x) (.flt y) = .ok (six numLt numEq op x y) := by
  simp [pyOp, pyBinop, subclassFirst, dunder, Atom.pyNum, numCmp, dCmp_eq_six, six_swap]

theorem pyOp_flt_dbl (m : Mode) (op : Op) (x y : D) :
    pyOp m op (.flt x) (.dbl y) = .ok (six numLt numEq op x y) := by
  simp [pyOp, pyBinop, subclassFirst, dunder, Atom.pyNum, numCmp, dCmp_eq_six]

/-- isclose is irrelevant when the trigger is off -/
theorem numericEqual_of_not_tol {x y : D} (h : tolClose x y = false) : numericEqual x y = numEq x y := by
  unfold tolClose at h
  unfold numericEqual
  rw [← D.eq_eq_numEq]
  cases hd : D.eq x y <;> simp_all

theorem numericNotEqual_of_not_tol {x y : D} (h : tolClose x y = false) :
    numericNotEqual x y = !numEq x y := by
  unfold tolClose at h
  unfold numericNotEqual
  rw [← D.eq_eq_numEq]
  cases hd : D.eq x y <;> simp_all

theorem pyOp_flt_flt (m : Mode) (op : Op) (x y : D) (h : (op.isEqNe && tolClose x y) = false) :
    pyOp m op (.flt x) (.flt y) = .ok (six numLt numEq op x y) := by
  cases op <;> simp_all [pyOp, pyBinop, subclassFirst, dunder, Atom.pyNum, numCmp, dCmp_eq_six, Op.isEqNe,
    numericEqual_of_not_tol, numericNotEqual_of_not_tol, six]

theorem pyOp_int_int (m : Mode) (op : Op) (v w : Int) :
    pyOp m op (.int v) (.int w) = .ok (six numLt numEq op (.fin v) (.fin w)) := by
  simp [pyOp, pyBinop, subclassFirst, dunder, Atom.pyNum, numCmp, dCmp_eq_six]
theorem pyOp_int_dec (m : Mode) (op : Op) (v : Int) (q : Rat) :
    pyOp m op (.int v) (.dec q) = .ok (six numLt numEq op (.fin v) (.fin q)) := by
  simp [pyOp, pyBinop, subclassFirst, dunder, Atom.pyNum, numCmp, dCmp_eq_six, D.isNaN]
theorem pyOp_dec_int (m : Mode) (op : Op) (q : Rat) (v : Int) :
    pyOp m op (.dec q) (.int v) = .ok (six numLt numEq op (.fin q) (.fin v)) := by
  simp [pyOp, pyBinop, subclassFirst, dunder, Atom.pyNum, numCmp, dCmp_eq_six, D.isNaN]
theorem pyOp_dec_dec (m : Mode) (op : Op) (p q : Rat) :
    pyOp m op (.dec p) (.dec q) = .ok (six numLt numEq op (.fin p) (.fin q)) := by
  simp [pyOp, pyBinop, subclassFirst, dunder, Atom.pyNum, numCmp, dCmp_eq_six, D.isNaN]

theorem pyFloat_int_cases (v : Int) :
    (∃ e, pyFloat (.int v) = .error e) ∨ pyFloat (.int v) = .ok (toD64 v) := by
  simp only [pyFloat]
  split
  · exact Or.inl ⟨_, rfl⟩
  · split
    · exact Or.inl ⟨_, rfl⟩
    · exact Or.inl ⟨_, rfl⟩
    · exact Or.inr rfl

theorem getDouble_int (v : Int) : getDouble (.int v) = .ok (.dbl (toD64 v)) := rfl

theorem getDouble_dec (q : Rat) : getDouble (.dec q) = .ok (.dbl (toD64 q)) := by
  simp [getDouble, pyFloat, Except.map]

/-- the simp set that evaluates the lattice and the Python protocol on constructor-headed atoms -/
macro "vp_simp" : tactic => `(tactic|
  simp [valuePair, valuePairWith, valueOp, Atom.cls, Atom.isFloatCls, isBoolA, isIntDec, isStrLike3, isStr, isQN, isNumCls,
     Atom.isDur, numRank, castNum, pyOp, pyBinop, subclassFirst, dunder, Atom.pyNum, numCmp, liftPy, dCmp_eq_six, isEqNe, isUA,
     sCmp, iCmp, bCmp, cmpBy_eq_six, Atom.isDT, Atom.isBin, Atom.dt, Atom.binVal, Atom.durVal, durInstanceOf,
     binOrdered, strLtS, strEqS, octLt, D.isNaN])

macro "vpn_simp" : tactic => `(tactic|
  simp [valuePair, valuePairWith, valueOp, Atom.cls, Atom.isFloatCls, isBoolA, isIntDec, isStrLike3, isStr, isQN, isNumCls,
     Atom.isDur, numRank, castNum, liftPy, pyOp_int_int, pyOp_int_dec, pyOp_dec_int, pyOp_dec_dec,
     pyOp_dbl_dbl, pyOp_dbl_flt, pyOp_flt_dbl, getDouble_dec])

set_option maxHeartbeats 1000000 in
/-- numeric × numeric -/
theorem valuePair_numeric (m : Mode) (op : Op) (a b : Atom) (i j : Nat)
    (hi : numRank a = some i) (hj : numRank b = some j)
    (h1 : trigTol op a b = false) (h2 : trigPromotion a b = false) :
    valuePair m op a b = valueOp (binOrdered m) op a b := by
  cases a <;> simp [numRank] at hi <;> cases b <;> simp [numRank] at hj
  case int.int => vpn_simp
  case int.dec => vpn_simp
  case dec.int => vpn_simp
  case dec.dec => vpn_simp
  case dbl.flt => vpn_simp
  case flt.dbl => vpn_simp
  case int.dbl => vpn_simp; rw [getDouble_int]; simp [pyOp_dbl_dbl]
  case dec.dbl => vpn_simp
  case dbl.int => vpn_simp; rw [getDouble_int]; simp [pyOp_dbl_dbl]
  case dbl.dec => vpn_simp
  case int.flt =>
    simp [trigPromotion, numRank, exactVal, castNum] at h2
    vpn_simp; rw [getDouble_int]; simp [pyOp_dbl_flt, h2]
  case dec.flt =>
    simp [trigPromotion, numRank, exactVal, castNum] at h2
    vpn_simp; simp [h2]
  case flt.int =>
    simp [trigPromotion, numRank, exactVal, castNum] at h2
    vpn_simp; rw [getDouble_int]; simp [pyOp_flt_dbl, h2]
  case flt.dec =>
    simp [trigPromotion, numRank, exactVal, castNum] at h2
    vpn_simp; simp [h2]
  case flt.flt x y =>
    simp [trigTol] at h1
    vpn_simp
    rw [pyOp_flt_flt m op x y (by simpa using h1)]
  case dbl.dbl x y => vpn_simp

/-- year starts two (astronomical) years apart are at least 365 days apart (closed form of C11's calendar) -/
theorem dBY_gap (a b : Int) (h : a + 2 ≤ b) :
    EPV.Timeline.daysBeforeYearC (a + 1) + 365 ≤ EPV.Timeline.daysBeforeYearC b := by
  unfold EPV.Timeline.daysBeforeYearC; omega

/-- CALENDAR CONSISTENCY, proved: with timezones within ±14:00, date/time values whose internal years
(`DT.year`: C11's `yearOfDay` of the local day, without a year 0) differ by more than two are ordered by
instant as by year — the fact that makes the "compare the year numbers" shortcut of `_compare` sound,
across the BCE/CE boundary as well -/
theorem dtFarOK_of_tzOK (x y : DT) (hx : x.tzOK = true) (hy : y.tzOK = true) : dtFarOK x y = true := by
  have key : ∀ u v : DT, u.tzOK = true → v.tzOK = true → u.year + 2 < v.year → u.inst < v.inst := by
    intro u v hu hv h
    have h1 := EPV.Timeline.yearOfDay_spec (u.t / 86400)
    have h2 := EPV.Timeline.yearOfDay_spec (v.t / 86400)
    have h3 := dBY_gap (EPV.Timeline.yearOfDay (u.t / 86400)) (EPV.Timeline.yearOfDay (v.t / 86400))
      (by unfold DT.year at h; simp only [] at h; split at h <;> split at h <;> omega)
    have hu' : -840 ≤ u.tz.getD 0 ∧ u.tz.getD 0 ≤ 840 := by
      unfold DT.tzOK at hu; cases hz : u.tz <;> simp_all
    have hv' : -840 ≤ v.tz.getD 0 ∧ v.tz.getD 0 ≤ 840 := by
      unfold DT.tzOK at hv; cases hz : v.tz <;> simp_all
    unfold DT.inst
    omega
  simp only [dtFarOK, Bool.and_eq_true, Bool.or_eq_true, Bool.not_eq_true', decide_eq_false_iff_not,
    decide_eq_true_eq]
  constructor
  · by_cases h : x.year + 2 < y.year
    · exact Or.inr (key x y hx hy h)
    · exact Or.inl h
  · by_cases h : y.year + 2 < x.year
    · exact Or.inr (key y x hy hx h)
    · exact Or.inl h

theorem dtConsistent_of_tzOK (a b : Atom) (ha : atomTzOK a = true) (hb : atomTzOK b = true) :
    dtConsistent a b = true := by
  unfold dtConsistent
  simp only [Bool.or_eq_true, Bool.not_eq_true']
  exact Or.inr (dtFarOK_of_tzOK _ _ ha hb)

theorem DT.inst_eq_instant (d : DT) : d.inst = instant d := by
  unfold DT.inst instant
  cases d.tz <;> simp

/-- `_compare` on two date/time payloads is the order of the instants (given calendar-consistent years) -/
theorem dtCompare_eq_six (op : Op) (x y : DT) (h : dtFarOK x y = true) :
    dtCompare op x y =
      six (fun p q => decide (p < q)) (fun p q => decide (p = q)) op (instant x) (instant y) := by
  rw [← DT.inst_eq_instant, ← DT.inst_eq_instant]
  simp only [dtFarOK, Bool.and_eq_true, Bool.or_eq_true, Bool.not_eq_true', decide_eq_false_iff_not,
    decide_eq_true_eq] at h
  unfold dtCompare
  split
  · split
    · cases op <;> simp [iCmp, cmpBy, six]
    · cases op <;> simp [iCmp, cmpBy, six] <;> grind
  · cases op <;> simp [iCmp, cmpBy, six]

/-- the octet loop of binary.py is the lexicographic order of the octet lists -/
theorem bytesLt_eq_lex (a b : List Nat) : bytesLt a b = decide (a < b) := by
  induction a generalizing b with
  | nil => cases b <;> simp [bytesLt]
  | cons x xs ih =>
    cases b with
    | nil => simp [bytesLt]
    | cons y ys =>
      simp only [bytesLt, ih, List.cons_lt_cons_iff]
      by_cases h : x = y
      · subst h; simp
      · simp [h]

theorem durCmp4_dtd (op : Op) (s t : Int) : durCmp4 op (0, s) (0, t) = iCmp op s t := by
  simp [durCmp4, months2days]

set_option maxHeartbeats 2000000 in
/-- VALUE COMPARISON vs SPECIFICATION, every pair of atoms (no untypedAtomic: get_atomized_operand has
turned it into a string), every operator, every 2.0+ mode: outside the triggers of F07 (xs:float tolerance) and
F07-promotion the code's lattice +
Python operator gives exactly the outcome of XPath 3.1 §3.7.1 — the same boolean, or XPTY0004 on
exactly the incomparable type pairs. -/
theorem valuePair_conforms (m : Mode) (op : Op) (a b : Atom) (hua : isUA a = false) (hub : isUA b = false)
    (h1 : trigTol op a b = false) (h2 : trigPromotion a b = false)
    (h8 : dtConsistent a b = true) :
    valuePair m op a b = valueOp (binOrdered m) op a b := by
  cases hi : numRank a with
  | some i =>
    cases hj : numRank b with
    | some j => exact valuePair_numeric m op a b i j hi hj h1 h2
    | none =>
      cases a <;> simp [numRank] at hi <;> cases b <;> simp [numRank] at hj <;> vp_simp
  | none =>
    cases a <;> simp [numRank] at hi <;> cases b <;> (try simp [isUA] at hua hub) <;> vp_simp
    all_goals try (
      simp [dtConsistent, Atom.isDT, Atom.dt] at h8
      simp [dtCompare_eq_six _ _ _ h8]
      done)
    all_goals
      cases op <;> simp_all [six, Op.swap, strLt, strLtS, strEqS, PyR.map, Op.isEqNe, Op.isOrd, isQN, isStr,
        isUA, durCmp4_dtd, durCmp4_ymd, iCmp, cmpBy]
    all_goals first
      | grind
      | (rename_i x y; cases x <;> cases y <;> decide +kernel)
      | (rename_i s t; by_cases h : s = t <;> simp [h] <;> grind)
      | (cases m <;> simp [bytesLt_eq_lex, octLt] <;> grind)

end EPV.Cmp

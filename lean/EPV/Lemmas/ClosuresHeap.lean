/-
C16: evaluation only appends to the heap of function objects (no existing function item is ever
modified): `hp_eval`.  Same skeleton as ClosuresFlags.lean.
-/
import EPV.Lemmas.ClosuresSim
namespace EPV.Clo

/-- the computation only appends to the heap of function objects: every object that exists
before still exists, unchanged, at the same address -/
def HP {α} (m : IM α) : Prop := ∀ st r st', (m st).2 = .ok (r, st') → st.heap <+: st'.heap

theorem HP.ret {α} (a : α) : HP (pure a : IM α) := by
  intro st r st' h; simp only [IM.pure_def, Except.ok.injEq, Prod.mk.injEq] at h; rw [← h.2]; exact List.prefix_refl _
theorem HP.thr {α} (e : Err) : HP (IM.throw e : IM α) := by
  intro st r st' h; simp [IM.throw] at h

theorem HP.bnd {α β} {m : IM α} {f : α → IM β} (hm : HP m) (hf : ∀ a, HP (f a)) : HP (m >>= f) := by
  intro st r st'' h
  rw [IM.bind_def] at h
  have h1 := hm st
  generalize m st = x at h h1
  obtain ⟨fl, x⟩ := x
  cases x with
  | error e => simp at h
  | ok v =>
    obtain ⟨a, st'⟩ := v
    simp only at h
    exact (h1 a st' rfl).trans (hf a st' r st'' h)

theorem HP.flag' (fl : Flags) : HP (IM.flag fl) := by
  intro st r st' h; simp only [IM.flag, Except.ok.injEq, Prod.mk.injEq] at h; rw [← h.2]; exact List.prefix_refl _
theorem HP.flag (fl : Flags) (_h : fl.stale = false) : HP (IM.flag fl) := by
  intro st r st' h; simp only [IM.flag, Except.ok.injEq, Prod.mk.injEq] at h; rw [← h.2]; exact List.prefix_refl _
theorem HP.lift {α} (x : Except Err α) : HP (IM.lift x) := by
  cases x
  · exact HP.thr _
  · exact HP.ret _
theorem HP.single (v : Seq) : HP (IM.single v) := by
  unfold IM.single; split
  · exact HP.ret _
  · exact HP.thr _
theorem HP.alloc (o : FObj) : HP (IM.alloc o) := by
  intro st r st' h; simp only [IM.alloc, Except.ok.injEq, Prod.mk.injEq] at h; rw [← h.2]; exact List.prefix_append _ _
theorem HP.getObj (a : Nat) : HP (IM.getObj a) := by
  intro st r st' h
  simp only [IM.getObj] at h
  split at h
  · simp only [Except.ok.injEq, Prod.mk.injEq] at h; rw [← h.2]; exact List.prefix_refl _
  · simp at h
theorem HP.setSlot (t : Nat) (v : Env × Env) : HP (IM.setSlot t v) := by
  intro st r st' h; simp only [IM.setSlot, Except.ok.injEq, Prod.mk.injEq] at h; rw [← h.2]; exact List.prefix_refl _
theorem HP.getSlot (t : Nat) : HP (IM.getSlot t) := by
  intro st r st' h; simp only [IM.getSlot, Except.ok.injEq, Prod.mk.injEq] at h; rw [← h.2]; exact List.prefix_refl _
/-- basic steps, tried in order -/
macro "hp_basic" : tactic => `(tactic| first
  | exact HP.ret _ | exact HP.thr _ | exact HP.lift _ | exact HP.single _ | exact HP.alloc _
  | exact HP.getObj _ | exact HP.setSlot _ _ | exact HP.getSlot _ | exact HP.flag _ rfl
  | assumption)

section
variable (cfg : Cfg) (hs : True)
variable (ev : Expr → ICtx → Env → IM (Seq × Env)) (hev : ∀ e c D, HP (ev e c D))
include hs

omit hs in
theorem hp_checkArity (a n : Nat) : HP (checkArity a n) := by
  unfold checkArity
  apply HP.bnd (HP.getObj _); intro o
  split <;> hp_basic

theorem hp_currentVars (o : FObj) : HP (currentVars cfg o) := by
  unfold currentVars
  split
  · apply HP.bnd (HP.getSlot _); intro s
    split
    · exact HP.bnd (HP.flag' _) (fun _ => HP.ret _)
    · exact HP.ret _
  · exact HP.ret _

include hev

omit hs in
theorem hp_runBody (c : ICtx) (D : Env) (body : Expr) (binds : List (Nat × Seq)) (env : Option Env) (lex : Env) :
    HP (runBody cfg ev c D body binds env lex) := by
  unfold runBody
  exact HP.bnd (hev _ _ _) (fun _ => HP.ret _)

theorem hp_callFn (c : ICtx) (D : Env) (a : Nat) (args : List Seq) : HP (callFn cfg ev c D a args) := by
  unfold callFn
  apply HP.bnd (HP.getObj _); intro o
  have hb := hp_runBody cfg ev hev c D
  have hc := hp_currentVars cfg hs o
  repeat' (first | hp_basic | apply hb | exact hc | apply HP.bnd | split | dsimp only | intro _)

omit hs in
theorem hp_evalArgs (c : ICtx) : ∀ (as : List (Option Expr)) (D : Env), HP (evalArgs ev c D as)
  | [], D => HP.ret _
  | none :: as, D => by
    simp only [evalArgs]; exact HP.bnd (hp_evalArgs c as D) (fun _ => HP.ret _)
  | some e :: as, D => by
    simp only [evalArgs]
    exact HP.bnd (hev _ _ _) (fun v => HP.bnd (hp_evalArgs c as v.2) (fun _ => HP.ret _))

omit hs in
theorem hp_evalList (c : ICtx) : ∀ (es : List Expr) (D : Env), HP (evalList ev c D es)
  | [], D => HP.ret _
  | e :: es, D => by
    simp only [evalList]
    exact HP.bnd (hev _ _ _) (fun v => HP.bnd (hp_evalList c es v.2) (fun _ => HP.ret _))

theorem hp_partialApply (c : ICtx) (D : Env) (a : Nat) (args : List (Option Expr)) :
    HP (partialApply cfg ev c D a args) := by
  unfold partialApply
  apply HP.bnd (HP.getObj _); intro o
  split
  · apply HP.bnd (hp_currentVars cfg hs o); intro vars
    apply HP.bnd (hp_evalArgs ev hev c _ _); intro r
    apply HP.bnd (HP.lift _); intro pat'
    exact HP.bnd (HP.alloc _) (fun _ => HP.ret _)
  · exact HP.thr _

omit hs in
theorem hp_funArgEval (c : ICtx) (D : Env) (f : Expr) : HP (funArgEval ev c D f) := by
  unfold funArgEval
  exact HP.bnd (hev _ _ _) (fun v => HP.bnd (HP.single _) (fun _ => HP.ret _))

omit hs in
theorem hp_funArgCheck (c : ICtx) (D : Env) (f : Expr) (n : Nat) : HP (funArgCheck ev c D f n) := by
  unfold funArgCheck
  exact HP.bnd (hp_funArgEval ev hev c D f) (fun fa => HP.bnd (hp_checkArity _ _) (fun _ => HP.ret _))

omit hs in
theorem hp_forLoop (c : ICtx) (x : Nat) (b : Expr) : ∀ (is : Seq) (D : Env) (acc : Seq), HP (forLoop ev c x b D acc is)
  | [], D, acc => HP.ret _
  | i :: is, D, acc => by
    simp only [forLoop]; exact HP.bnd (hev _ _ _) (fun r => hp_forLoop c x b is _ _)

omit hs in
theorem hp_mapLoop (c : ICtx) (b : Expr) (size : Nat) : ∀ (is : Seq) (k : Nat) (D : Env) (acc : Seq),
    HP (mapLoop ev c b size k D acc is)
  | [], k, D, acc => HP.ret _
  | i :: is, k, D, acc => by
    simp only [mapLoop]; exact HP.bnd (hev _ _ _) (fun r => hp_mapLoop c b size is _ _ _)

theorem hp_hofForEach (c : ICtx) (a : Nat) : ∀ (xs : Seq) (D : Env) (acc : Seq), HP (hofForEach cfg ev c a D acc xs)
  | [], D, acc => HP.ret _
  | x :: xs, D, acc => by
    simp only [hofForEach]; exact HP.bnd (hp_callFn cfg hs ev hev _ _ _ _) (fun r => hp_hofForEach c a xs _ _)

theorem hp_hofFilter (c : ICtx) (a : Nat) : ∀ (xs : Seq) (D : Env) (acc : Seq), HP (hofFilter cfg ev c a D acc xs)
  | [], D, acc => HP.ret _
  | x :: xs, D, acc => by
    simp only [hofFilter]
    apply HP.bnd (hp_callFn cfg hs ev hev _ _ _ _); intro r
    split
    · exact hp_hofFilter c a xs _ _
    · exact HP.thr _

theorem hp_hofFoldLeft (c : ICtx) (a : Nat) : ∀ (xs : Seq) (D : Env) (res : Seq), HP (hofFoldLeft cfg ev c a D res xs)
  | [], D, res => HP.ret _
  | x :: xs, D, res => by
    simp only [hofFoldLeft]; exact HP.bnd (hp_callFn cfg hs ev hev _ _ _ _) (fun r => hp_hofFoldLeft c a xs _ _)

theorem hp_hofFoldRightRev (c : ICtx) (a : Nat) : ∀ (xs : Seq) (D : Env) (res : Seq),
    HP (hofFoldRightRev cfg ev c a D res xs)
  | [], D, res => HP.ret _
  | x :: xs, D, res => by
    simp only [hofFoldRightRev]
    exact HP.bnd (hp_callFn cfg hs ev hev _ _ _ _) (fun r => hp_hofFoldRightRev c a xs _ _)

theorem hp_hofPairs (c : ICtx) (a : Nat) : ∀ (ps : List (Item × Item)) (D : Env) (acc : Seq),
    HP (hofPairs cfg ev c a D acc ps)
  | [], D, acc => HP.ret _
  | (x, y) :: ps, D, acc => by
    simp only [hofPairs]; exact HP.bnd (hp_callFn cfg hs ev hev _ _ _ _) (fun r => hp_hofPairs c a ps _ _)

theorem hp_hofKeys (ci : Bool) (c : ICtx) (a : Nat) : ∀ (xs : Seq) (D : Env) (acc : List (Item × List Int)),
    HP (hofKeys cfg ev ci c a D acc xs)
  | [], D, acc => HP.ret _
  | x :: xs, D, acc => by
    simp only [hofKeys]
    exact HP.bnd (hp_callFn cfg hs ev hev _ _ _ _) (fun r => HP.bnd (HP.lift _) (fun k => hp_hofKeys ci c a xs _ _))

omit hs in
theorem hp_evArith (op : AOp) (a b : Expr) (c : ICtx) (D : Env) : HP (evArith ev op a b c D) := by
  unfold evArith
  apply HP.bnd (hev _ _ _); intro x
  split
  · exact HP.thr _
  · exact HP.ret _
  · exact HP.bnd (hev _ _ _) (fun _ => HP.bnd (HP.lift _) (fun _ => HP.ret _))

omit hs in
theorem hp_evCompare (op : COp) (a b : Expr) (c : ICtx) (D : Env) : HP (evCompare ev op a b c D) := by
  unfold evCompare
  exact HP.bnd (hev _ _ _) (fun _ => HP.bnd (hev _ _ _) (fun _ => HP.bnd (HP.lift _) (fun _ => HP.ret _)))

theorem hp_step (e : Expr) (c : ICtx) (D : Env) : HP (step cfg ev e c D) := by
  cases e with
  | lit n => exact HP.ret _
  | dlit n => exact HP.ret _
  | elit n => exact HP.ret _
  | slit cs => exact HP.ret _
  | nanlit => exact HP.ret _
  | inflit p => exact HP.ret _
  | negzlit => exact HP.ret _
  | inst t e =>
    simp only [step]
    exact HP.bnd (hev _ _ _) (fun _ => HP.ret _)
  | tt => exact HP.ret _
  | ff => exact HP.ret _
  | emp => exact HP.ret _
  | var x =>
    simp only [step]
    apply HP.bnd (HP.flag _ rfl); intro _
    split <;> hp_basic
  | dot =>
    simp only [step]
    split
    · exact HP.ret _
    · exact HP.thr _
  | posE =>
    simp only [step]
    split
    · exact HP.ret _
    · exact HP.thr _
  | lastE =>
    simp only [step]
    split
    · exact HP.ret _
    · exact HP.thr _
  | add a b => exact hp_evArith ev hev _ a b c D
  | sub a b => exact hp_evArith ev hev _ a b c D
  | mul a b => exact hp_evArith ev hev _ a b c D
  | gt a b => exact hp_evCompare ev hev _ a b c D
  | eq a b => exact hp_evCompare ev hev _ a b c D
  | cat a b =>
    simp only [step]
    exact HP.bnd (hev _ _ _) (fun _ => HP.bnd (hev _ _ _) (fun _ => HP.ret _))
  | ite cnd t e =>
    simp only [step]
    apply HP.bnd (hev _ _ _); intro v
    apply HP.bnd (HP.lift _); intro b
    split <;> exact hev _ _ _
  | forE x s b =>
    simp only [step]
    exact HP.bnd (hev _ _ _) (fun xs => HP.bnd (hp_forLoop ev hev c x b _ _ _) (fun _ => HP.ret _))
  | letE x v b =>
    simp only [step]
    exact HP.bnd (hev _ _ _) (fun _ => HP.bnd (hev _ _ _) (fun _ => HP.ret _))
  | fnE t ps body =>
    simp only [step]
    cases cfg.share <;> simp only [Bool.false_eq_true, if_false, if_true]
    all_goals
      first
        | (apply HP.bnd (HP.alloc _); intro _; exact HP.ret _)
        | (apply HP.bnd (HP.ret _); intro _; apply HP.bnd (HP.alloc _); intro _; exact HP.ret _)
        | (apply HP.bnd (HP.setSlot _ _); intro _; apply HP.bnd (HP.alloc _); intro _; exact HP.ret _)
  | tfnE t ps tys rt body =>
    simp only [step]
    cases cfg.share <;> simp only [Bool.false_eq_true, if_false, if_true]
    all_goals
      first
        | (apply HP.bnd (HP.alloc _); intro _; exact HP.ret _)
        | (apply HP.bnd (HP.ret _); intro _; apply HP.bnd (HP.alloc _); intro _; exact HP.ret _)
        | (apply HP.bnd (HP.setSlot _ _); intro _; apply HP.bnd (HP.alloc _); intro _; exact HP.ret _)
  | named b =>
    simp only [step]
    exact HP.bnd (HP.alloc _) (fun _ => HP.ret _)
  | call f args =>
    simp only [step]
    apply HP.bnd (hev _ _ _); intro fv
    apply HP.bnd (HP.single _); intro a
    split
    · exact hp_partialApply cfg hs ev hev _ _ _ _
    · exact HP.bnd (hp_evalList ev hev _ _ _) (fun _ => hp_callFn cfg hs ev hev _ _ _ _)
  | spart b args =>
    simp only [step]
    split
    · exact HP.bnd (hp_evalArgs ev hev _ _ _) (fun _ => HP.bnd (HP.alloc _) (fun _ => HP.ret _))
    · exact HP.thr _
  | par e => exact hev _ _ _
  | smap a b =>
    simp only [step]
    exact HP.bnd (hev _ _ _) (fun _ => hp_mapLoop ev hev _ _ _ _ _ _ _)
  | forEach s f =>
    simp only [step]
    exact HP.bnd (hp_funArgCheck ev hev _ _ _ _) (fun _ => HP.bnd (hev _ _ _)
      (fun _ => hp_hofForEach cfg hs ev hev _ _ _ _ _))
  | filter s f =>
    simp only [step]
    exact HP.bnd (hp_funArgCheck ev hev _ _ _ _) (fun _ => HP.bnd (hev _ _ _)
      (fun _ => hp_hofFilter cfg hs ev hev _ _ _ _ _))
  | foldL s z f =>
    simp only [step]
    exact HP.bnd (hp_funArgCheck ev hev _ _ _ _) (fun _ => HP.bnd (hev _ _ _) (fun _ => HP.bnd (hev _ _ _)
      (fun _ => hp_hofFoldLeft cfg hs ev hev _ _ _ _ _)))
  | foldR s z f =>
    simp only [step]
    exact HP.bnd (hp_funArgCheck ev hev _ _ _ _) (fun _ => HP.bnd (hev _ _ _) (fun _ => HP.bnd (hev _ _ _)
      (fun _ => hp_hofFoldRightRev cfg hs ev hev _ _ _ _ _)))
  | pairs s1 s2 f =>
    simp only [step]
    apply HP.bnd (hp_funArgCheck ev hev _ _ _ _); intro fa
    apply HP.bnd (hev _ _ _); intro xs
    split
    · exact HP.ret _
    · exact HP.bnd (hev _ _ _) (fun _ => hp_hofPairs cfg hs ev hev _ _ _ _ _)
  | sortK ci s f =>
    simp only [step]
    apply HP.bnd (hp_funArgCheck ev hev _ _ _ _); intro fa
    apply HP.bnd (hev _ _ _); intro xs
    split
    · exact HP.ret _
    · apply HP.bnd (hp_hofKeys cfg hs ev hev _ _ _ _ _ _); intro ks
      split
      · exact HP.ret _
      · exact HP.thr _
  | apply f ms =>
    simp only [step]
    apply HP.bnd (hp_funArgEval ev hev _ _ _); intro fa
    apply HP.bnd (hp_evalList ev hev _ _ _); intro vals
    apply HP.bnd (HP.getObj _); intro o
    split
    · exact hp_callFn cfg hs ev hev _ _ _ _
    · exact HP.thr _

end

/-- evaluation never modifies or removes an existing function object -/
theorem hp_eval (cfg : Cfg) (hs : True := trivial) : ∀ (n : Nat) (e : Expr) (c : ICtx) (D : Env),
    HP (eval cfg n e c D)
  | 0, _, _, _ => HP.thr _
  | n + 1, e, c, D => hp_step cfg hs (eval cfg n) (hp_eval cfg hs n) e c D

end EPV.Clo

/-
C18 — helper lemmas about the AST (`Ty`): syntactic equality, size, strip, `all2`, and the fuel of `restrF`.
-/
import EPV.Model.SeqType
namespace EPV.SeqType

mutual
theorem Ty.beq_iff : ∀ a b : Ty, a.beq b = true ↔ a = b
  | .empty, b => by cases b <;> simp [Ty.beq]
  | .leaf l o, b => by cases b <;> simp [Ty.beq]
  | .func a r, b => by cases b <;> simp [Ty.beq, Ty.beq_iff r, Tys.beq_iff a]
  | .map k v o, b => by cases b <;> simp [Ty.beq, Ty.beq_iff v, and_assoc]
  | .array m o, b => by cases b <;> simp [Ty.beq, Ty.beq_iff m]
theorem Tys.beq_iff : ∀ a b : Tys, a.beq b = true ↔ a = b
  | .nil, b => by cases b <;> simp [Tys.beq]
  | .cons a as, b => by cases b <;> simp [Tys.beq, Ty.beq_iff a, Tys.beq_iff as]
end

theorem Ty.beq_refl (a : Ty) : a.beq a = true := (Ty.beq_iff a a).2 rfl

theorem Ty.beq_false_iff (a b : Ty) : a.beq b = false ↔ a ≠ b := by
  have h := Ty.beq_iff a b
  cases hb : a.beq b <;> simp [hb] at h ⊢ <;> exact h

theorem Ty.size_pos (t : Ty) : 0 < t.size := by cases t <;> simp [Ty.size] <;> omega

theorem Ty.strip_size : ∀ t : Ty, t.strip.size = t.size
  | .empty => rfl
  | .leaf _ _ => rfl
  | .func a r => by simp [Ty.strip, Ty.size, Ty.strip_size r]
  | .map _ _ _ => rfl
  | .array _ _ => rfl

theorem Ty.strip_last : ∀ t : Ty, t.strip.last = .one
  | .empty => rfl
  | .leaf _ _ => rfl
  | .func a r => by simp [Ty.strip, Ty.last, Ty.strip_last r]
  | .map _ _ _ => rfl
  | .array _ _ => rfl

theorem Ty.strip_strip : ∀ t : Ty, t.strip.strip = t.strip
  | .empty => rfl
  | .leaf _ _ => rfl
  | .func a r => by simp [Ty.strip, Ty.strip_strip r]
  | .map _ _ _ => rfl
  | .array _ _ => rfl

/-- a type whose text has no trailing indicator is its own strip -/
theorem Ty.strip_of_last_one : ∀ t : Ty, t.last = .one → t.strip = t
  | .empty, _ => rfl
  | .leaf _ o, h => by simp [Ty.last] at h; simp [Ty.strip, h]
  | .func a r, h => by simp [Ty.last] at h; simp [Ty.strip, Ty.strip_of_last_one r h]
  | .map _ _ o, h => by simp [Ty.last] at h; simp [Ty.strip, h]
  | .array _ o, h => by simp [Ty.last] at h; simp [Ty.strip, h]

theorem Ty.strip_eq_empty (t : Ty) : t.strip = .empty ↔ t = .empty := by
  cases t <;> simp [Ty.strip]

/-! ### all2 -/

theorem Tys.all2_congr (f g : Ty → Ty → Bool) :
    ∀ (a b : Tys), (∀ x y, x.size + y.size + 2 ≤ a.size + b.size → f x y = g x y) →
      Tys.all2 f a b = Tys.all2 g a b
  | .nil, .nil, _ => rfl
  | .nil, .cons _ _, _ => rfl
  | .cons _ _, .nil, _ => rfl
  | .cons x xs, .cons y ys, h => by
    simp only [Tys.all2]
    rw [h x y (by simp [Tys.size]; omega)]
    rw [Tys.all2_congr f g xs ys (fun x' y' h' => h x' y' (by simp [Tys.size]; omega))]

theorem Tys.all2_length (f : Ty → Ty → Bool) : ∀ (a b : Tys), Tys.all2 f a b = true → a.length = b.length
  | .nil, .nil, _ => rfl
  | .nil, .cons _ _, h => by simp [Tys.all2] at h
  | .cons _ _, .nil, h => by simp [Tys.all2] at h
  | .cons x xs, .cons y ys, h => by
    simp only [Tys.all2, Bool.and_eq_true] at h
    simp [Tys.length, Tys.all2_length f xs ys h.2]

/-- composition of pairwise relations: if `f x y` and `g y z` give `h x z` on the members, the same holds for the lists -/
theorem Tys.all2_trans (f g h : Ty → Ty → Bool) :
    ∀ (a b c : Tys),
      (∀ x y z, x.size + y.size + z.size + 3 ≤ a.size + b.size + c.size → f x y = true → g y z = true → h x z = true) →
      Tys.all2 f a b = true → Tys.all2 g b c = true → Tys.all2 h a c = true
  | .nil, .nil, .nil, _, _, _ => rfl
  | .nil, .nil, .cons _ _, _, _, h2 => by simp [Tys.all2] at h2
  | .nil, .cons _ _, _, _, h1, _ => by simp [Tys.all2] at h1
  | .cons _ _, .nil, _, _, h1, _ => by simp [Tys.all2] at h1
  | .cons _ _, .cons _ _, .nil, _, _, h2 => by simp [Tys.all2] at h2
  | .cons x xs, .cons y ys, .cons z zs, hh, h1, h2 => by
    simp only [Tys.all2, Bool.and_eq_true] at h1 h2 ⊢
    refine ⟨hh x y z (by simp [Tys.size]; omega) h1.1 h2.1, ?_⟩
    exact Tys.all2_trans f g h xs ys zs
      (fun x' y' z' hs => hh x' y' z' (by simp [Tys.size]; omega)) h1.2 h2.2

theorem Tys.all2_flip (f : Ty → Ty → Bool) : ∀ (a b : Tys), Tys.all2 (fun x y => f y x) a b = Tys.all2 f b a
  | .nil, .nil => rfl
  | .nil, .cons _ _ => rfl
  | .cons _ _, .nil => rfl
  | .cons x xs, .cons y ys => by simp [Tys.all2, Tys.all2_flip f xs ys]

end EPV.SeqType

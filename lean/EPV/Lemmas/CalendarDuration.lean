/-
C11 — durations: `months2days` is a difference of day numbers, and the four-reference-date comparison
of `Duration._compare_durations` is the XSD order of durations.
-/
import EPV.Lemmas.CalendarOps
set_option linter.unusedVariables false
set_option linter.unusedSimpArgs false
namespace EPV.Cal
open EPV.Timeline (isLeap yearLen monthLen daysBeforeYearC daysBeforeMonthC dayNumC Val)

theorem leapdays_eq (y1 y2 : Int) : leapdays y1 y2 = daysBeforeYearC y2 - daysBeforeYearC y1 - 365 * (y2 - y1) := by
  unfold leapdays daysBeforeYearC; simp only []; omega

theorem dbmC_early (a b m : Int) (hm : m ≤ 2) : daysBeforeMonthC a m = daysBeforeMonthC b m := by
  by_cases h1 : m ≤ 1
  · simp [daysBeforeMonthC, h1]
  · have : m = 2 := by omega
    subst this; simp [daysBeforeMonthC]

theorem dbmC_late (a b m : Int) (h3 : 3 ≤ m) :
    daysBeforeMonthC a m - daysBeforeMonthC b m = yearLen a - yearLen b := by
  have hm : m = 3 ∨ m = 4 ∨ m = 5 ∨ m = 6 ∨ m = 7 ∨ m = 8 ∨ m = 9 ∨ m = 10 ∨ m = 11 ∨ 12 ≤ m := by omega
  rcases hm with rfl | rfl | rfl | rfl | rfl | rfl | rfl | rfl | rfl | h12
  case inr.inr.inr.inr.inr.inr.inr.inr.inr =>
    have n1 : ¬ m ≤ 1 := by omega
    have n2 : ¬ m = 2 := by omega
    have n3 : ¬ m = 3 := by omega
    have n4 : ¬ m = 4 := by omega
    have n5 : ¬ m = 5 := by omega
    have n6 : ¬ m = 6 := by omega
    have n7 : ¬ m = 7 := by omega
    have n8 : ¬ m = 8 := by omega
    have n9 : ¬ m = 9 := by omega
    have n10 : ¬ m = 10 := by omega
    have n11 : ¬ m = 11 := by omega
    simp only [daysBeforeMonthC, yearLen, n1, n2, n3, n4, n5, n6, n7, n8, n9, n10, n11, ↓reduceIte]
    split <;> split <;> omega
  all_goals (simp [daysBeforeMonthC, yearLen]; split <;> split <;> omega)

/-- `months2days(year, month, delta)` is the number of days between the 1st of `month` of `year` and
the 1st of the month `delta` months later (or earlier) -/
theorem months2days_eq (y m δ : Int) (hm : 1 ≤ m ∧ m ≤ 12) :
    months2days y m δ =
      dayNumC ((12 * y + (m - 1) + δ) / 12) ((12 * y + (m - 1) + δ) % 12 + 1) 1 - dayNumC y m 1 := by
  have hty : (12 * y + (m - 1) + δ) / 12 = y + (m - 1 + δ) / 12 := by omega
  have htm : (12 * y + (m - 1) + δ) % 12 = (m - 1 + δ) % 12 := by omega
  rw [hty, htm]
  unfold months2days
  split
  · rename_i h0
    subst h0
    have e1 : (m - 1 + 0) / 12 = 0 := by omega
    have e2 : (m - 1 + 0) % 12 + 1 = m := by omega
    rw [e1, e2]; simp
  · rename_i h0
    simp only []
    generalize y + (m - 1 + δ) / 12 = ty
    generalize (m - 1 + δ) % 12 + 1 = tm
    rw [isleap_eq, daysBeforeMonth_eq, daysBeforeMonth_eq, leapdays_eq, leapdays_eq]
    have s1 := Timeline.daysBeforeYearC_succ ty
    have s2 := Timeline.daysBeforeYearC_succ y
    unfold dayNumC
    by_cases h2 : m ≤ 2
    · have e := dbmC_early ty y m h2
      rw [if_pos h2]
      split <;> omega
    · have e := dbmC_late ty y m (by omega)
      rw [if_neg h2]
      split <;> omega
theorem addYM_ref_instant (y m k : Int) :
    (Timeline.addYM ⟨y, m, 1, 0, some 0⟩ k).instantC =
      dayNumC ((12 * y + (m - 1) + k) / 12) ((12 * y + (m - 1) + k) % 12 + 1) 1 * US := by
  have e : y * 12 + (m - 1) + k = 12 * y + (m - 1) + k := by omega
  simp only [Timeline.addYM, Val.instantC, Val.localC, e]
  have := Timeline.monthLen_pos ((12 * y + (m - 1) + k) / 12) ((12 * y + (m - 1) + k) % 12 + 1)
  have hmin : min 1 (monthLen ((12 * y + (m - 1) + k) / 12) ((12 * y + (m - 1) + k) % 12 + 1)) = 1 := by omega
  rw [hmin]; simp only [Timeline.US, Timeline.UM, US]; omega

theorem durationCmp_ref (op : Cmp) (y m m1 s1 m2 s2 : Int) (hm : 1 ≤ m ∧ m ≤ 12) :
    op.op (months2days y m m1 * US + s1) (months2days y m m2 * US + s2) =
    op.op ((Timeline.addYM ⟨y, m, 1, 0, some 0⟩ m1).instantC + s1)
          ((Timeline.addYM ⟨y, m, 1, 0, some 0⟩ m2).instantC + s2) := by
  rw [months2days_eq y m m1 hm, months2days_eq y m m2 hm, addYM_ref_instant, addYM_ref_instant]
  rw [← Cmp.op_shift op _ _ (dayNumC y m 1 * US)]
  congr 1 <;> simp only [US] <;> omega

/-- the library's duration comparison (four `months2days` offsets) is the XSD order of durations
(four reference dateTimes) — for all months and seconds -/
theorem durationCmp_eq (op : Cmp) (m1 s1 m2 s2 : Int) :
    durationCmp op m1 s1 m2 s2 = Timeline.durationCmp op.op m1 s1 m2 s2 := by
  simp only [durationCmp, Timeline.durationCmp, List.all_cons, List.all_nil]
  rw [durationCmp_ref op 1696 9 _ _ _ _ (by decide), durationCmp_ref op 1697 2 _ _ _ _ (by decide),
    durationCmp_ref op 1903 3 _ _ _ _ (by decide), durationCmp_ref op 1903 7 _ _ _ _ (by decide)]

end EPV.Cal

/-
C11 — durations: `months2days` is a difference of day numbers, and the four-reference-date comparison
of `Duration._compare_durations` is the XSD order of durations.
-/
import EPV.Lemmas.CalendarOps
set_option linter.unusedVariables false
set_option linter.unusedSimpArgs false
namespace EPV.Cal
open EPV.Timeline (isLeap yearLen monthLen daysBeforeYearC daysBeforeMonthC dayNumC Val roundHalfUp IsRoundHalfUp IsRoundHalfEven roundNearestEven)

theorem leapdays_eq (y1 y2 : Int) : leapdays y1 y2 = daysBeforeYearC y2 - daysBeforeYearC y1 - 365 * (y2 - y1) := by
  unfold leapdays daysBeforeYearC; simp only []; omega

theorem dbmC_early (a b m : Int) (hm : m ≤ 2) : daysBeforeMonthC a m = daysBeforeMonthC b m := by
  by_cases h1 : m ≤ 1
  · simp [daysBeforeMonthC, h1]
  · have : m = 2 := by omega
    subst this; simp [daysBeforeMonthC]

theorem dbmC_late (a b m : Int) (h3 : 3 ≤ m) :
    daysBeforeMonthC a m - daysBeforeMonthC b m = yearLen a - yearLen b := by
  have hm : m = 3 ∨ m = 4 ∨ m = 5 ∨ m = 6 ∨ m = 7 ∨ m = 8 ∨ m = 9 ∨ m = 10 ∨ m = 11 ∨ 12 ≤ m := by omega
  rcases hm with rfl | rfl | rfl | rfl | rfl | rfl | rfl | rfl | rfl | h12
  case inr.inr.inr.inr.inr.inr.inr.inr.inr =>
    have n1 : ¬ m ≤ 1 := by omega
    have n2 : ¬ m = 2 := by omega
    have n3 : ¬ m = 3 := by omega
    have n4 : ¬ m = 4 := by omega
    have n5 : ¬ m = 5 := by omega
    have n6 : ¬ m = 6 := by omega
    have n7 : ¬ m = 7 := by omega
    have n8 : ¬ m = 8 := by omega
    have n9 : ¬ m = 9 := by omega
    have n10 : ¬ m = 10 := by omega
    have n11 : ¬ m = 11 := by omega
    simp only [daysBeforeMonthC, yearLen, n1, n2, n3, n4, n5, n6, n7, n8, n9, n10, n11, ↓reduceIte]
    split <;> split <;> omega
  all_goals (simp [daysBeforeMonthC, yearLen]; split <;> split <;> omega)

/-- `months2days(year, month, delta)` is the number of days between the 1st of `month` of `year` and
the 1st of the month `delta` months later (or earlier) -/
theorem months2days_eq (y m δ : Int) (hm : 1 ≤ m ∧ m ≤ 12) :
    months2days y m δ =
      dayNumC ((12 * y + (m - 1) + δ) / 12) ((12 * y + (m - 1) + δ) % 12 + 1) 1 - dayNumC y m 1 := by
  have hty : (12 * y + (m - 1) + δ) / 12 = y + (m - 1 + δ) / 12 := by omega
  have htm : (12 * y + (m - 1) + δ) % 12 = (m - 1 + δ) % 12 := by omega
  rw [hty, htm]
  unfold months2days
  split
  · rename_i h0
    subst h0
    have e1 : (m - 1 + 0) / 12 = 0 := by omega
    have e2 : (m - 1 + 0) % 12 + 1 = m := by omega
    rw [e1, e2]; simp
  · rename_i h0
    simp only []
    generalize y + (m - 1 + δ) / 12 = ty
    generalize (m - 1 + δ) % 12 + 1 = tm
    rw [isleap_eq, daysBeforeMonth_eq, daysBeforeMonth_eq, leapdays_eq, leapdays_eq]
    have s1 := Timeline.daysBeforeYearC_succ ty
    have s2 := Timeline.daysBeforeYearC_succ y
    unfold dayNumC
    by_cases h2 : m ≤ 2
    · have e := dbmC_early ty y m h2
      rw [if_pos h2]
      split <;> omega
    · have e := dbmC_late ty y m (by omega)
      rw [if_neg h2]
      split <;> omega
theorem addYM_ref_instant (y m k : Int) :
    (Timeline.addYM ⟨y, m, 1, 0, some 0⟩ k).instantC =
      dayNumC ((12 * y + (m - 1) + k) / 12) ((12 * y + (m - 1) + k) % 12 + 1) 1 * US := by
  have e : y * 12 + (m - 1) + k = 12 * y + (m - 1) + k := by omega
  simp only [Timeline.addYM, Val.instantC, Val.localC, e]
  have := Timeline.monthLen_pos ((12 * y + (m - 1) + k) / 12) ((12 * y + (m - 1) + k) % 12 + 1)
  have hmin : min 1 (monthLen ((12 * y + (m - 1) + k) / 12) ((12 * y + (m - 1) + k) % 12 + 1)) = 1 := by omega
  rw [hmin]; simp only [Timeline.US, Timeline.UM, US]; omega

theorem durationCmp_ref (op : Cmp) (y m m1 s1 m2 s2 : Int) (hm : 1 ≤ m ∧ m ≤ 12) :
    op.op (months2days y m m1 * US + s1) (months2days y m m2 * US + s2) =
    op.op ((Timeline.addYM ⟨y, m, 1, 0, some 0⟩ m1).instantC + s1)
          ((Timeline.addYM ⟨y, m, 1, 0, some 0⟩ m2).instantC + s2) := by
  rw [months2days_eq y m m1 hm, months2days_eq y m m2 hm, addYM_ref_instant, addYM_ref_instant]
  rw [← Cmp.op_shift op _ _ (dayNumC y m 1 * US)]
  congr 1 <;> simp only [US] <;> omega

/-- the library's duration comparison (four `months2days` offsets) is the XSD order of durations
(four reference dateTimes) — for all months and seconds -/
theorem durationCmp_eq (op : Cmp) (m1 s1 m2 s2 : Int) :
    durationCmp op m1 s1 m2 s2 = Timeline.durationCmp op.op m1 s1 m2 s2 := by
  simp only [durationCmp, Timeline.durationCmp, List.all_cons, List.all_nil]
  rw [durationCmp_ref op 1696 9 _ _ _ _ (by decide), durationCmp_ref op 1697 2 _ _ _ _ (by decide),
    durationCmp_ref op 1903 3 _ _ _ _ (by decide), durationCmp_ref op 1903 7 _ _ _ _ (by decide)]

/-- Euclidean division facts in a form omega can use with the product `q * d` as an atom -/
theorem ediv_bounds (a d : Int) (hd : 0 < d) : (a / d) * d ≤ a ∧ a < (a / d) * d + d := by
  have h1 := Int.mul_ediv_add_emod a d
  have h2 := Int.emod_nonneg a (Int.ne_of_gt hd)
  have h3 := Int.emod_lt_of_pos a hd
  have e : d * (a / d) = (a / d) * d := Int.mul_comm _ _
  omega

theorem ediv_unique (a d q : Int) (hd : 0 < d) (h1 : q * d ≤ a) (h2 : a < q * d + d) : a / d = q := by
  have b := ediv_bounds a d hd
  rcases Int.lt_trichotomy (a / d) q with h | h | h
  · have : (a / d + 1) * d ≤ q * d := Int.mul_le_mul_of_nonneg_right (by omega) (Int.le_of_lt hd)
    have e : (a / d + 1) * d = (a / d) * d + d := by rw [Int.add_mul, Int.one_mul]
    omega
  · exact h
  · have : (q + 1) * d ≤ (a / d) * d := Int.mul_le_mul_of_nonneg_right (by omega) (Int.le_of_lt hd)
    have e : (q + 1) * d = q * d + d := by rw [Int.add_mul, Int.one_mul]
    omega

/-- both branches of `round_number` are `⌊x + 1/2⌋` -/
theorem roundNumber_eq (num den : Int) (hd : 0 < den) : roundNumber num den = (2 * num + den) / (2 * den) := by
  unfold roundNumber
  split
  · rfl
  · have : -(2 * -num - den) = 2 * num + den := by omega
    rw [this]; omega

theorem roundNumber_spec (num den : Int) (hd : 0 < den) : IsRoundHalfUp num den (roundNumber num den) := by
  rw [roundNumber_eq num den hd]
  have b := ediv_bounds (2 * num + den) (2 * den) (by omega)
  generalize (2 * num + den) / (2 * den) = q at *
  unfold IsRoundHalfUp
  have e : q * (2 * den) = 2 * (q * den) := by rw [Int.mul_left_comm]
  omega

theorem isRoundHalfUp_unique (num den r r' : Int) (hd : 0 < den) (h : IsRoundHalfUp num den r) (h' : IsRoundHalfUp num den r') :
    r = r' := by
  unfold IsRoundHalfUp at *
  rcases Int.lt_trichotomy r r' with hl | he | hg
  · have : (r + 1) * den ≤ r' * den := Int.mul_le_mul_of_nonneg_right (by omega) (Int.le_of_lt hd)
    have e : (r + 1) * den = r * den + den := by rw [Int.add_mul, Int.one_mul]
    omega
  · exact he
  · have : (r' + 1) * den ≤ r * den := Int.mul_le_mul_of_nonneg_right (by omega) (Int.le_of_lt hd)
    have e : (r' + 1) * den = r' * den + den := by rw [Int.add_mul, Int.one_mul]
    omega

theorem roundHalfUp_spec (num den : Int) (hd : 0 < den) : IsRoundHalfUp num den (roundHalfUp num den) := by
  unfold roundHalfUp IsRoundHalfUp
  have b := ediv_bounds num den hd
  simp only []
  generalize num / den = q at *
  split
  · have e : (q + 1) * den = q * den + den := by rw [Int.add_mul, Int.one_mul]
    omega
  · omega

/-- the library's `round_number` is F&O's `fn:round` -/
theorem roundNumber_eq_spec (num den : Int) (hd : 0 < den) : roundNumber num den = roundHalfUp num den :=
  isRoundHalfUp_unique num den _ _ hd (roundNumber_spec num den hd) (roundHalfUp_spec num den hd)

theorem roundHalfEven_spec (num den : Int) (hd : 0 < den) : IsRoundHalfEven num den (roundHalfEven num den) := by
  unfold roundHalfEven IsRoundHalfEven
  have b := ediv_bounds num den hd
  have hm : num % den = num - (num / den) * den := by
    have h1 := Int.mul_ediv_add_emod num den
    have e : den * (num / den) = (num / den) * den := Int.mul_comm _ _
    omega
  simp only [hm]
  generalize num / den = q at *
  have e : (q + 1) * den = q * den + den := by rw [Int.add_mul, Int.one_mul]
  split
  · refine ⟨by omega, by omega, by omega⟩
  · split
    · rw [e]; refine ⟨by omega, by omega, by omega⟩
    · split
      · rename_i h1 h2 h3; refine ⟨by omega, by omega, fun _ => h3⟩
      · rename_i h1 h2 h3; rw [e]; refine ⟨by omega, by omega, fun _ => by omega⟩

theorem roundHalfEven_eq_spec (num den : Int) (hd : 0 < den) : roundHalfEven num den = roundNearestEven num den := by
  unfold roundHalfEven roundNearestEven
  have hm : num % den = num - (num / den) * den := by
    have h1 := Int.mul_ediv_add_emod num den
    have e : den * (num / den) = (num / den) * den := Int.mul_comm _ _
    omega
  simp only [hm]
  generalize num / den = q
  have e : (q + 1) * den = q * den + den := by rw [Int.add_mul, Int.one_mul]
  rw [e]
  split <;> split <;> (try split) <;> (try split) <;> first | rfl | omega

theorem durMk_ok (m u : Int) (r : Dur) (h : durMk m u = .ok r) : r = ⟨m, u⟩ := by
  unfold durMk at h
  split at h
  · cases h
  · split at h
    · cases h
    · split at h
      · cases h
      · cases h; rfl

theorem durMk_of_bounds (m u : Int) (hs : ¬ ((u < 0 ∧ 0 < m) ∨ (m < 0 ∧ 0 < u))) (hm : m.natAbs ≤ 2 ^ 31)
    (hu : u.natAbs ≤ 2 ^ 63 * 1000000) : durMk m u = .ok ⟨m, u⟩ := by
  unfold durMk
  rw [if_neg hs, if_neg (by omega), if_neg (by omega)]

end EPV.Cal

/- C09 helper lemmas, part 10: fn:contains-token (re.split / strip model = tokenize / trim spec). -/
import EPV.Lemmas.StringsNormalize
import EPV.Lemmas.StringsCollation
namespace EPV.Strings
open EPV.FOStrings (Str Num Err Collation isWs)

theorem pyStripWs_eq_trim (s : Str) : pyStripWs s = FOStrings.trim s := rfl

theorem reSplitWs_ne_nil (s : Str) : reSplitWs s ≠ [] := by
  induction s with
  | nil => simp [reSplitWs]
  | cons c r ih =>
    cases r with
    | nil => simp only [reSplitWs]; split <;> simp
    | cons d r' =>
      simp only [reSplitWs]
      by_cases hc : isWs c = true
      · by_cases hd : isWs d = true
        · simp only [hc, hd, if_true]; exact ih
        · simp [hc, hd]
      · simp only [hc, Bool.false_eq_true, if_false]
        cases reSplitWs (d :: r') <;> simp

/-- the non-empty pieces of `re.split('[ \t\n\r]+', s)` are the words of `s` -/
theorem reSplitWs_filter (s : Str) : (reSplitWs s).filter (fun x => !x.isEmpty) = words s := by
  induction s with
  | nil => simp [reSplitWs, words_nil]
  | cons c r ih =>
    cases r with
    | nil =>
      by_cases hc : isWs c = true
      · simp [reSplitWs, hc, words_cons_ws c [] hc, words_nil]
      · have hc' : isWs c = false := by simpa using hc
        simp [reSplitWs, hc', words_single c hc']
    | cons d r' =>
      simp only [reSplitWs]
      by_cases hc : isWs c = true
      · rw [words_cons_ws c _ hc]
        by_cases hd : isWs d = true
        · simp only [hc, hd, if_true]; exact ih
        · simp only [hc, hd, if_true, Bool.false_eq_true, if_false]
          simpa using ih
      · have hc' : isWs c = false := by simpa using hc
        simp only [hc', Bool.false_eq_true, if_false]
        by_cases hd : isWs d = true
        · rw [words_cons_nonws_ws c d r' hc' hd, ← ih]
          -- reSplitWs (d :: r') starts with [] because d is whitespace
          have hhead : ∃ ws, reSplitWs (d :: r') = [] :: ws := by
            cases r' with
            | nil => simp [reSplitWs, hd]
            | cons e r'' =>
              simp only [reSplitWs, hd, if_true]
              by_cases he : isWs e = true
              · simp only [he, if_true]
                -- by the same argument one level down; generalise
                have : ∀ t : Str, ∀ x, isWs x = true → ∃ ws, reSplitWs (x :: t) = [] :: ws := by
                  intro t
                  induction t with
                  | nil => intro x hx; simp [reSplitWs, hx]
                  | cons y t' iht =>
                    intro x hx
                    simp only [reSplitWs, hx, if_true]
                    by_cases hy : isWs y = true
                    · simp only [hy, if_true]; exact iht y hy
                    · simp [hy]
                exact this r'' e he
              · simp [he]
          obtain ⟨ws, hws⟩ := hhead
          simp [hws]
        · have hd' : isWs d = false := by simpa using hd
          obtain ⟨w, ws, h1, h2⟩ := words_cons_nonws_nonws c d r' hc' hd'
          rw [h2]
          rw [h1] at ih
          cases hs : reSplitWs (d :: r') with
          | nil => exact absurd hs (reSplitWs_ne_nil _)
          | cons w0 ws0 =>
            rw [hs] at ih
            -- w0 is non-empty (it starts with d)
            have hw0 : ∃ w1, w0 = d :: w1 := by
              cases r' with
              | nil => simp [reSplitWs, hd'] at hs; exact ⟨[], hs.1.symm⟩
              | cons e r'' =>
                simp only [reSplitWs, hd', Bool.false_eq_true, if_false] at hs
                cases hs2 : reSplitWs (e :: r'') with
                | nil => simp [hs2] at hs; exact ⟨[], hs.1.symm⟩
                | cons a b => simp [hs2] at hs; exact ⟨a, hs.1.symm⟩
            obtain ⟨w1, rfl⟩ := hw0
            simp at ih
            simp [ih.1, ih.2]

/-! ### the spec's tokenizer -/

theorem splitSpace_ne_nil (s : Str) : FOStrings.splitSpace s ≠ [] := by
  cases s with
  | nil => simp [FOStrings.splitSpace]
  | cons c cs =>
    simp only [FOStrings.splitSpace]
    cases FOStrings.splitSpace cs with
    | nil => simp
    | cons w ws => by_cases h : c = 0x20 <;> simp [h]

theorem isWs_space : isWs 0x20 = true := by decide

theorem splitSpace_clean (w : Str) (hw : ∀ c ∈ w, isWs c = false) : FOStrings.splitSpace w = [w] := by
  induction w with
  | nil => rfl
  | cons c w' ih =>
    have := ih (fun x hx => hw x (by simp [hx]))
    have hc : c ≠ 0x20 := by
      intro h; have := hw c (by simp); rw [h, isWs_space] at this; cases this
    simp [FOStrings.splitSpace, this, hc]

theorem splitSpace_clean_append (w : Str) (hw : ∀ c ∈ w, isWs c = false) (r : Str) :
    FOStrings.splitSpace (w ++ 0x20 :: r) = w :: FOStrings.splitSpace r := by
  induction w with
  | nil =>
    simp only [List.nil_append, FOStrings.splitSpace]
    cases hs : FOStrings.splitSpace r with
    | nil => exact absurd hs (splitSpace_ne_nil r)
    | cons x xs => simp
  | cons c w' ih =>
    have := ih (fun x hx => hw x (by simp [hx]))
    have hc : c ≠ 0x20 := by
      intro h; have := hw c (by simp); rw [h, isWs_space] at this; cases this
    simp [FOStrings.splitSpace, this, hc]

theorem splitSpace_join_clean (w : Str) (ws : List Str)
    (h2 : ∀ x ∈ w :: ws, ∀ c ∈ x, isWs c = false) :
    FOStrings.splitSpace (pyJoinSp (w :: ws)) = w :: ws := by
  induction ws generalizing w with
  | nil => simp only [pyJoinSp]; exact splitSpace_clean w (h2 w (by simp))
  | cons w' ws' ih =>
    simp only [pyJoinSp]
    rw [splitSpace_clean_append w (h2 w (by simp))]
    congr 1
    exact ih w' (fun x hx => h2 x (List.mem_cons_of_mem _ hx))

theorem words_clean (s : Str) :
    (∀ w ∈ words s, w ≠ []) ∧ (∀ w ∈ words s, ∀ c ∈ w, isWs c = false) := by
  constructor
  · intro w hw h
    unfold words at hw
    simp only [List.mem_filter] at hw
    simp [h] at hw
  · intro w hw
    unfold words at hw
    simp only [List.mem_filter] at hw
    exact splitWs_pieces_clean s w hw.1

theorem tokenize1_eq_words (s : Str) : FOStrings.tokenize1 s = words s := by
  unfold FOStrings.tokenize1
  rw [← normalizeSpace_eq_spec, normalizeSpace_eq_words]
  obtain ⟨h1, h2⟩ := words_clean s
  cases hw : words s with
  | nil => simp [pyJoinSp]
  | cons w ws =>
    rw [hw] at h1 h2
    have hne : pyJoinSp (w :: ws) ≠ [] := by
      have := h1 w (by simp)
      cases ws with
      | nil => simpa [pyJoinSp] using this
      | cons w' ws' =>
        cases w with
        | nil => exact absurd rfl this
        | cons c cs => simp [pyJoinSp]
    cases hj : pyJoinSp (w :: ws) with
    | nil => exact absurd hj hne
    | cons a b =>
      simp only
      rw [← hj]
      exact splitSpace_join_clean w ws h2

/-! ### equality under a collation -/

theorem specCompare_zero_comm (a b : Str) : FOStrings.compare a b = 0 ↔ FOStrings.compare b a = 0 := by
  rw [specCompare_eq_iff, specCompare_eq_iff]; exact eq_comm

theorem eqC_eq_spec (col : Collation) (a b : Str) :
    eqC col a b = (FOStrings.compareC col b a == 0) := by
  unfold eqC
  rw [compareC_eq_spec]
  unfold FOStrings.compareC
  rw [Bool.eq_iff_iff, beq_iff_eq, beq_iff_eq]
  exact specCompare_zero_comm _ _

theorem eqC_nil_false (col : Collation) (x : Str) (hx : x ≠ []) : eqC col [] x = false := by
  unfold eqC
  rw [compareC_eq_spec]
  unfold FOStrings.compareC
  cases h : (FOStrings.compare (FOStrings.collKey col []) (FOStrings.collKey col x) == 0)
  · rfl
  · rw [beq_iff_eq, specCompare_eq_iff, ← strxfrm_eq_key, ← strxfrm_eq_key] at h
    have := congrArg List.length h
    rw [strxfrm_length, strxfrm_length] at this
    cases x with
    | nil => exact absurd rfl hx
    | cons _ _ => simp at this

theorem any_and_filter {α : Type} (l : List α) (p q : α → Bool) :
    (l.any fun x => p x && q x) = (l.filter p).any q := by
  induction l with
  | nil => rfl
  | cons a as ih =>
    simp only [List.any_cons, List.filter_cons, ih]
    cases p a <;> simp

theorem containsToken_eq_spec (col : Collation) (input : List Str) (token : Str) :
    containsToken col input token = FOStrings.containsToken col input token := by
  unfold containsToken FOStrings.containsToken
  simp only [pyStripWs_eq_trim]
  have inner : ∀ s, ((reSplitWs s).any fun x => !x.isEmpty && eqC col (FOStrings.trim token) x)
      = (words s).any fun x => eqC col (FOStrings.trim token) x := by
    intro s; rw [any_and_filter, reSplitWs_filter]
  simp only [inner]
  by_cases ht : (FOStrings.trim token).isEmpty = true
  · simp only [ht, if_true]
    have htn : FOStrings.trim token = [] := by simpa using ht
    rw [htn]
    rw [List.any_eq_false]
    intro s _
    rw [Bool.not_eq_true, List.any_eq_false]
    intro x hx
    rw [Bool.not_eq_true]
    exact eqC_nil_false col x ((words_clean s).1 x hx)
  · simp only [ht, Bool.false_eq_true, if_false]
    congr 1
    funext s
    rw [tokenize1_eq_words]
    congr 1
    funext x
    exact eqC_eq_spec col _ _
end EPV.Strings

/-
C06: xs:float.  The implementation computes xs:float in binary64 and clamps (`Float.__new__`): the lemmas
show that every operator is the F&O operator instantiated with the rounding `implR R` (binary64 rounding
then clamp) instead of rounding to binary32 — dispatch, special values, signs of zero, result class are as
specified; only the rounding function differs (finding F06c).
-/
import EPV.Lemmas.ArithMixed
open EPV.FOArith
namespace EPV.Arith

/-- a `Float` payload is a fixed point of `Float.__new__` (every `Float` object is) -/
def stable (d : Dbl) : Prop := mkFloat d = d

theorem mkFloat_nan : mkFloat .nan = .nan := rfl
theorem mkFloat_inf (n : Bool) : mkFloat (.inf n) = .inf n := rfl
theorem mkFloat_zero (n : Bool) : mkFloat (.zero n) = .zero n := rfl

theorem mkFloat_rnd (R : Rounding) (q : Rat) : mkFloat (rnd R.r64 q) = rnd (implR R).r32 q := by
  unfold rnd implR
  by_cases h : q = 0 <;> simp [h, mkFloat_zero]

theorem mkFloat_add (R : Rounding) (x y : Dbl) (hx : stable x) (hy : stable y) :
    mkFloat (ieeeAdd R.r64 x y) = ieeeAdd (implR R).r32 x y := by
  unfold stable at hx hy
  cases x <;> cases y <;> simp [ieeeAdd, mkFloat_nan, mkFloat_inf, mkFloat_zero, mkFloat_rnd, hx, hy] <;>
    (try (split <;> simp [mkFloat_nan, mkFloat_inf]))

theorem mkFloat_mul (R : Rounding) (x y : Dbl) :
    mkFloat (ieeeMul R.r64 x y) = ieeeMul (implR R).r32 x y := by
  cases x <;> cases y <;> simp [ieeeMul, mkFloat_nan, mkFloat_inf, mkFloat_zero, mkFloat_rnd]

theorem mkFloat_div (R : Rounding) (x y : Dbl) :
    mkFloat (ieeeDiv R.r64 x y) = ieeeDiv (implR R).r32 x y := by
  cases x <;> cases y <;> simp [ieeeDiv, mkFloat_nan, mkFloat_inf, mkFloat_zero, mkFloat_rnd]

theorem stable_neg (d : Dbl) (h : stable d) : stable d.neg := by
  unfold stable at *
  cases d with
  | nan => rfl
  | inf n => rfl
  | zero n => rfl
  | fin q =>
    simp only [Dbl.neg, mkFloat] at h ⊢
    have hm : (0 : Rat) < floatMax := by decide +kernel
    have ht : (0 : Rat) < floatTiny := by decide +kernel
    split at h
    · cases h
    · split at h
      · cases h
      · split at h
        · cases h
        · rename_i h1 h2 h3
          have a1 : ¬ floatMax < -q := by intro c; apply h2; linarith
          have a2 : ¬ -q < -floatMax := by intro c; apply h1; linarith
          have a3 : ¬ (-floatTiny < -q ∧ -q < floatTiny) := by
            intro c; apply h3; constructor <;> linarith [c.1, c.2]
          rw [if_neg a1, if_neg a2, if_neg a3]


theorem float_addsubmul_eq_spec (R : Rounding) (x y : Dbl) (hx : stable x) (hy : stable y) :
    (opAdd R (.flt x) (.flt y)).map absNum = specBin (implR R) .add (.float x) (.float y) ∧
    (opSub R (.flt x) (.flt y)).map absNum = specBin (implR R) .sub (.float x) (.float y) ∧
    (opMul R (.flt x) (.flt y)).map absNum = specBin (implR R) .mul (.float x) (.float y) := by
  have hn := stable_neg y hy
  refine ⟨?_, ?_, ?_⟩ <;>
    simp [opAdd, opSub, opMul, coerce, mixedOverflow, intOvf, isFloat, promF, isFlt, isDbl, asDec, liftF, fadd, fsub, fmul, specBin, promote, XVal.ty, Ty.rank,
      XVal.toRat?, floatBin, XVal.toDbl, mkFloating, absNum, Except.map, pure, Except.pure,
      mkFloat_add R x y hx hy, mkFloat_add R x y.neg hx hn, mkFloat_mul]

theorem float_div_eq_spec (R : Rounding) (v : Ver) (x y : Dbl) (hx : x.wf) :
    (opDiv R v (.flt x) (.flt y)).map absNum = specBin (implR R) .div (.float x) (.float y) := by
  cases x <;> cases y <;>
    simp [opDiv, coerce, mixedOverflow, intOvf, isFloat, promF, isFlt, isDbl, isZero, Dbl.isZero, asDec, liftF, ftruediv,
      ieeeDiv, specBin, promote, XVal.ty, Ty.rank, XVal.toRat?, floatBin, XVal.toDbl, mkFloating, absNum, isFloat, signOf,
      zeroIsNeg, Dbl.isNeg, Except.map, pure, Except.pure, mkFloat_nan, mkFloat_inf, mkFloat_zero, mkFloat_rnd]
  · rename_i a b; cases a <;> simp [mkFloat_inf]
  · rename_i q b
    have hq : q ≠ 0 := hx
    by_cases h : 0 < q
    · have : ¬ q < 0 := by linarith
      simp [h, this, mkFloat_inf]
    · have : q < 0 := lt_of_le_of_ne (not_lt.1 h) hq
      simp [h, this, mkFloat_inf]

theorem float_idiv_eq_spec (R : Rounding) (x y : Dbl) :
    (opIdiv R (.flt x) (.flt y)).map absNum = specBin (implR R) .idiv (.float x) (.float y) := by
  cases x <;> cases y <;>
    simp [opIdiv, coerce, mixedOverflow, intOvf, isFloat, promF, isFlt, isDbl, isZero, Dbl.isZero, asDec, idivFloat, dblIdiv, specBin, promote, XVal.ty, Ty.rank,
      XVal.toRat?, floatBin, XVal.toDbl, absNum, numIsInf, numIsNan, Dbl.isInf, Dbl.isNan,
      Except.map, pure, Except.pure, bind, Except.bind, throw, throwThe, MonadExceptOf.throw]

theorem float_mod_eq_spec (R : Rounding) (v : Ver) (x y : Dbl) (hx : stable x)
    (hm : stable (fmod x y)) :
    (opMod R v (.flt x) (.flt y)).map absNum = specBin (implR R) .mod (.float x) (.float y) := by
  unfold stable at hx hm
  cases x <;> cases y <;>
    simp_all [opMod, coerce, mixedOverflow, intOvf, isFloat, promF, isFlt, isDbl, asDblOf, isZero, Dbl.isZero, asDec, liftF,
      fmod, ieeeMod, specBin, promote, XVal.ty, Ty.rank,
      XVal.toRat?, floatBin, XVal.toDbl, mkFloating, absNum, isFloat, numIsInf, numIsNan, Dbl.isInf, Dbl.isNan,
      pyFloatModIsNan, Except.map, pure, Except.pure, mkFloat_nan, mkFloat_zero, mkFloat_inf]


/-- integer operands are inside the range that `Float.__new__` leaves alone (|n| ≤ 3.4028235e38) -/
def intsStable (R : Rounding) (a b : Num) : Prop :=
  (∀ n, a = .int n → stable (ofInt R n)) ∧ (∀ n, b = .int n → stable (ofInt R n))

theorem spec_promote_float (R : Rounding) (op : BinOp) (a b : Num) (h : floatTyped a b = true)
    (hs : intsStable R a b) :
    specBin (implR R) op (absNum a) (absNum b) = specBin (implR R) op (.float (asF R a)) (.float (asF R b)) := by
  cases a <;> cases b <;> simp [floatTyped, isFlt, isDbl] at h <;>
    simp [specBin, absNum, XVal.toRat?, promote, XVal.ty, Ty.rank, XVal.toDbl, asF, ← mkFloat_rnd, ofDec]
  · rename_i n d
    have := hs.1 n rfl
    unfold stable ofInt at this
    rw [this]; rfl
  · rename_i d n
    have := hs.2 n rfl
    unfold stable ofInt at this
    rw [this]; rfl


theorem model_promote_float_addsubmul (R : Rounding) (a b : Num) (h : floatTyped a b = true)
    (hi : intsFinite R a b) :
    opAdd R a b = opAdd R (.flt (asF R a)) (.flt (asF R b)) ∧
    opSub R a b = opSub R (.flt (asF R a)) (.flt (asF R b)) ∧
    opMul R a b = opMul R (.flt (asF R a)) (.flt (asF R b)) := by
  obtain ⟨hA, hB⟩ := intOvf_of_finite R a b hi
  cases a <;> cases b <;> simp [floatTyped, isFlt, isDbl] at h <;> simp [intOvf] at hA hB <;>
    simp [opAdd, opSub, opMul, coerce, mixedOverflow, intOvf, isFloat, promF, isFlt, isDbl, asDec, liftF, asF, hA, hB]

theorem signOf_flt_ofInt (R : Rounding) (hF : Faithful R) (n : Int) :
    signOf (.flt (ofInt R n)) = signOf (.int n) := by rw [signOf_flt, signOf_ofInt R hF]

theorem div_promote_float (R : Rounding) (hF : Faithful R) (v : Ver) (a b : Num) (h : floatTyped a b = true)
    (hi : intsFinite R a b) :
    opDiv R v a b = opDiv R v (.flt (asF R a)) (.flt (asF R b)) := by
  have hz := isZero_ofInt R hF
  have hs := signOf_flt_ofInt R hF
  obtain ⟨hA, hB⟩ := intOvf_of_finite R a b hi
  cases a <;> cases b <;> simp [floatTyped, isFlt, isDbl] at h <;> simp [intOvf] at hA hB <;>
    simp [opDiv, coerce, mixedOverflow, intOvf, isFloat, promF, isFlt, isDbl, asDec, liftF, asF, isZero, isFloat, hz, hs,
      hA, hB]
  · rename_i d n
    by_cases hn : n = 0
    · subst hn; simp [zeroIsNeg, ofInt, rnd]
    · simp [hn]

theorem idiv_promote_float (R : Rounding) (hF : Faithful R) (a b : Num) (h : floatTyped a b = true)
    (hi : intsFinite R a b) :
    opIdiv R a b = opIdiv R (.flt (asF R a)) (.flt (asF R b)) := by
  have hz := isZero_ofInt R hF
  have hn := isNan_ofInt R hF
  obtain ⟨hA, hB⟩ := intOvf_of_finite R a b hi
  cases a <;> cases b <;> simp [floatTyped, isFlt, isDbl] at h <;> simp [intOvf] at hA hB <;>
    simp [opIdiv, coerce, mixedOverflow, intOvf, isFloat, promF, isFlt, isDbl, asDec, asF, isZero, numIsInf, numIsNan, hz, hn, hA, hB] <;>
    (try rfl)

theorem mod_promote_float (R : Rounding) (hF : Faithful R) (v : Ver) (a b : Num)
    (h : floatTyped a b = true) (hi : intsFinite R a b) :
    opMod R v a b = opMod R v (.flt (asF R a)) (.flt (asF R b)) := by
  have hz := isZero_ofInt R hF
  have hn := isNan_ofInt R hF
  obtain ⟨hA, hB⟩ := intOvf_of_finite R a b hi
  cases a <;> cases b <;> simp [floatTyped, isFlt, isDbl] at h <;> simp [intOvf] at hA hB <;>
    simp [opMod, coerce, mixedOverflow, intOvf, isFloat, promF, isFlt, isDbl, asDblOf, asDec, asF, isZero, isFloat, numIsInf,
      numIsNan, liftF, hz, hn, hA, hB] <;> (try rfl)


theorem mkFloat_idem (d : Dbl) : stable (mkFloat d) := by
  unfold stable
  cases d with
  | fin q =>
    by_cases h1 : floatMax < q
    · simp [mkFloat, h1]
    · by_cases h2 : q < -floatMax
      · simp [mkFloat, h1, h2]
      · by_cases h3 : -floatTiny < q ∧ q < floatTiny
        · simp [mkFloat, h1, h2, h3]
        · have e : mkFloat (.fin q) = .fin q := by simp only [mkFloat, h1, h2, h3, if_false]
          rw [e, e]
  | _ => rfl

/-- every `Float` payload among the operands is a fixed point of `Float.__new__` -/
def numStable : Num → Prop
  | .flt d => stable d
  | _ => True

theorem asF_stable (R : Rounding) (a b : Num) (hs : intsStable R a b) (ha : numStable a) (hb : numStable b)
    (h : floatTyped a b = true) : stable (asF R a) ∧ stable (asF R b) := by
  cases a <;> cases b <;> simp [floatTyped, isFlt, isDbl] at h <;>
    simp [asF, numStable] at ha hb ⊢ <;>
    first
      | exact ⟨hs.1 _ rfl, hb⟩
      | exact ⟨ha, hs.2 _ rfl⟩
      | exact ⟨mkFloat_idem _, hb⟩
      | exact ⟨ha, mkFloat_idem _⟩
      | exact ⟨ha, hb⟩

/-- every operator on operands whose promoted type is xs:float (xs:float with xs:float, xs:integer or
xs:decimal) is the F&O operator computed with the rounding `implR R` = binary64 rounding + `Float` clamp in
place of binary32 rounding: promotion, special values, signs of zero, error codes and the xs:float result
class are as specified (the precision itself = finding F06c). -/
theorem float_ops_eq_spec (R : Rounding) (hF : Faithful R) (v : Ver) (op : BinOp) (a b : Num)
    (h : floatTyped a b = true) (hi : intsFinite R a b) (hs : intsStable R a b)
    (ha : numStable a) (hb : numStable b) (hwa : numWf a)
    (hm : op = .mod → stable (fmod (asF R a) (asF R b))) :
    (modelBin R v op a b).map absNum = specBin (implR R) op (absNum a) (absNum b) := by
  rw [spec_promote_float R op a b h hs]
  obtain ⟨sa, sb⟩ := asF_stable R a b hs ha hb h
  have hw : (asF R a).wf := by
    cases a with
    | int n => exact rnd_wf R hF _
    | dec n s =>
      have := rnd_wf R hF ((n : Rat) / ((p10 s : Nat) : Rat))
      show (mkFloat (ofDec R n s)).wf
      unfold ofDec
      generalize rnd R.r64 ((n : Rat) / ((p10 s : Nat) : Rat)) = d at this
      cases d with
      | fin q =>
        simp only [mkFloat]
        split
        · trivial
        · split
          · trivial
          · split
            · trivial
            · exact this
      | _ => trivial
    | dbl d => exact hwa
    | flt d => exact hwa
  cases op with
  | add => simp only [modelBin]; rw [(model_promote_float_addsubmul R a b h hi).1]; exact (float_addsubmul_eq_spec R _ _ sa sb).1
  | sub => simp only [modelBin]; rw [(model_promote_float_addsubmul R a b h hi).2.1]; exact (float_addsubmul_eq_spec R _ _ sa sb).2.1
  | mul => simp only [modelBin]; rw [(model_promote_float_addsubmul R a b h hi).2.2]; exact (float_addsubmul_eq_spec R _ _ sa sb).2.2
  | div => simp only [modelBin]; rw [div_promote_float R hF v a b h hi]; exact float_div_eq_spec R v _ _ hw
  | idiv => simp only [modelBin]; rw [idiv_promote_float R hF a b h hi]; exact float_idiv_eq_spec R _ _
  | mod => simp only [modelBin]; rw [mod_promote_float R hF v a b h hi]; exact float_mod_eq_spec R v _ _ sa (hm rfl)

theorem stable_abs (d : Dbl) (h : stable d) : stable d.abs := by
  cases d with
  | fin q =>
    by_cases hq : q < 0
    · have : (Dbl.fin q).abs = (Dbl.fin q).neg := by simp [Dbl.abs, Dbl.neg, hq]
      rw [this]; exact stable_neg _ h
    · have : (Dbl.fin q).abs = Dbl.fin q := by simp [Dbl.abs, hq]
      rw [this]; exact h
  | _ => rfl

/-- unary minus/plus, abs, floor, ceiling, round, round-half-to-even on an xs:float: the F&O function
computed with the rounding `implR R` (PARTIAL: F06p for round beyond 28 digits) -/
theorem float_unops_eq_spec (R : Rounding) (v : Ver) (op : UnOp) (d : Dbl) (hs : stable d)
    (hv : ∀ p, op = .round p → (v = .v30 ∨ v = .v31 ∨ p = 0))
    (hk : trigF06p op (.flt d) = false) :
    absNum (modelUn R v op (.flt d)) = specUn (implR R) op (.float d) := by
  have hn := stable_neg d hs
  have ha := stable_abs d hs
  unfold stable at hs hn ha
  cases op with
  | neg => simp [modelUn, opNeg, absNum, specUn, floatUn, hn]
  | pos => simp [modelUn, opPos, absNum, specUn, floatUn]
  | abs => simp [modelUn, fnAbs, absNum, specUn, floatUn, ha]
  | floor =>
    cases d <;> simp [modelUn, fnFloorCeil, fnFloorCeil.go, absNum, specUn, floatUn, backTo, exactUn, implR,
      mkFloat_nan, mkFloat_inf, mkFloat_zero, ofInt, rnd, intCast_eq_zero_iff] <;> (split <;> simp_all [mkFloat_zero])
  | ceiling =>
    cases d <;> simp [modelUn, fnFloorCeil, fnFloorCeil.go, absNum, specUn, floatUn, backTo, exactUn, implR,
      mkFloat_nan, mkFloat_inf, mkFloat_zero, ofInt, rnd, intCast_eq_zero_iff] <;> (split <;> simp_all [mkFloat_zero])
  | round p =>
    have e : modelUn R v (.round p) (.flt d) = roundCore R (.flt d) p := by
      rcases hv p rfl with h | h | h
      · simp [modelUn, h, fnRound]
      · simp [modelUn, h, fnRound]
      · subst h; simp [modelUn, fnRound, fnRound1]
    rw [e]
    cases d with
    | nan => simp [roundCore, exactOf, absNum, specUn, floatUn]
    | inf n => simp [roundCore, exactOf, absNum, specUn, floatUn]
    | zero n =>
      simp [roundCore, exactOf, absNum, specUn, floatUn, quantMag_zero, numDigits, numDigits10, roundCtxDigits, retype, unscale_zero, argNeg,
        Dbl.isNeg, mkFloat_zero]
    | fin x =>
      have hd : ¬ numDigits (quantMag (if x > 0 then Mode.halfUp else Mode.halfDown) x p) > roundCtxDigits := by
        simpa [trigF06p, exactOf] using hk
      simp only [roundCore, exactOf, hd, if_false, retype, argNeg, Dbl.isNeg, absNum, specUn, floatUn, backTo,
        exactUn, quantize_round_eq, implR]
      by_cases h0 : roundHalfUp x p = 0 <;> simp [h0, mkFloat_zero]
  | rhe p =>
    cases d with
    | nan => simp [modelUn, fnRhe, exactOf, absNum, specUn, floatUn]
    | inf n => simp [modelUn, fnRhe, exactOf, absNum, specUn, floatUn]
    | zero n =>
      simp [modelUn, fnRhe, exactOf, absNum, specUn, floatUn, quantMag_zero, retype, unscale_zero, argNeg,
        Dbl.isNeg, mkFloat_zero]
    | fin x =>
      simp only [modelUn, fnRhe, exactOf, retype, argNeg, Dbl.isNeg, absNum, specUn, floatUn, backTo,
        exactUn, quantize_rhe_eq, implR]
      by_cases h0 : roundHalfEven x p = 0 <;> simp [h0, mkFloat_zero]

end EPV.Arith

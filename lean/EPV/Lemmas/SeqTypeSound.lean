/-
C18 — soundness of the restriction relation for `match_sequence_type`:
a value that matches `S` matches every `T` of which `S` is a restriction.
-/
import EPV.Lemmas.SeqTypeRestr
set_option linter.unusedSimpArgs false
namespace EPV.SeqType

/-- the per-item test that `matchSt` applies for the (non-empty) type `t` -/
def itemFn (tb : Tables) (xsd11 : Bool) (strict : Bool) : Ty → Item → Res
  | .empty => fun _ => .ok false
  | .leaf l _ => matchLeaf tb xsd11 strict l
  | .func a r => fun x => match x with
      | .func sa sr => .ok (funcItemTest tb sa sr a r)
      | .map es =>
        (match a with
         | .cons k .nil =>
           if !isRestriction tb (.leaf (.atomic tb.anyAtomic) .one) k then .ok false
           else andE (matchSt tb xsd11 true r [])
             (fun _ => allE (fun e => matchSt tb xsd11 true r e.2) es)
         | _ => .ok false)
      | .array ms =>
        (match a with
         | .cons k .nil =>
           if !isRestriction tb (.leaf (.atomic tb.integer) .one) k then .ok false
           else allE (fun m => matchSt tb xsd11 true r m) ms
         | _ => .ok false)
      | _ => .ok false
  | .map k vt _ => fun x => match x with
      | .map es => allE (fun e => andE (.ok (instAtomic tb xsd11 e.1 k)) (fun _ => matchSt tb xsd11 true vt e.2)) es
      | _ => .ok false
  | .array m _ => fun x => match x with
      | .array ms => allE (fun mem => matchSt tb xsd11 true m mem) ms
      | _ => .ok false

theorem matchSt_eq_seqMatch (tb : Tables) (xsd11 strict : Bool) (t : Ty) (v : List Item) (h : t ≠ .empty) :
    matchSt tb xsd11 strict t v = seqMatch t.ownOcc (itemFn tb xsd11 strict t) v := by
  cases t with
  | empty => exact absurd rfl h
  | leaf l o => simp [matchSt, itemFn, Ty.ownOcc]
  | func a r => simp only [matchSt, itemFn, Ty.ownOcc]; rfl
  | map k vt o => simp only [matchSt, itemFn, Ty.ownOcc]; rfl
  | array m o => simp only [matchSt, itemFn, Ty.ownOcc]; rfl

theorem matchSt_empty (tb : Tables) (xsd11 strict : Bool) (v : List Item) :
    matchSt tb xsd11 strict .empty v = .ok v.isEmpty := by simp [matchSt]

/-! ### the sequence level -/

theorem allE_true {α : Type} (f : α → Res) : ∀ (l : List α), allE f l = .ok true ↔ ∀ x ∈ l, f x = .ok true
  | [] => by simp [allE]
  | x :: xs => by
    simp only [allE, List.mem_cons, forall_eq_or_imp]
    cases h : f x with
    | error e => simp
    | ok b => cases b <;> simp [allE_true f xs]

/-- number of items allowed by an occurrence indicator (the same function as the specification's `occCard`,
restated here so that this file does not depend on the spec) -/
def cardOK : Occ → Nat → Bool
  | .one, n => n == 1
  | .opt, n => n ≤ 1
  | .star, _ => true
  | .plus, n => 1 ≤ n

theorem seqMatch_true (o : Occ) (f : Item → Res) (v : List Item) :
    seqMatch o f v = .ok true ↔ (cardOK o v.length = true ∧ ∀ x ∈ v, f x = .ok true) := by
  match v with
  | [] => cases o <;> simp [seqMatch, cardOK]
  | [x] => cases o <;> simp [seqMatch, cardOK]
  | x :: y :: r =>
    cases o <;> simp [seqMatch, cardOK, allE_true]

theorem cardOK_mono {o1 o2 : Occ} {n : Nat} (h : occOK o1 o2 = true) (hc : cardOK o2 n = true) :
    cardOK o1 n = true := by
  cases o1 <;> cases o2 <;> simp_all [occOK, cardOK] <;> omega

theorem cardOK_one (o : Occ) : cardOK o 1 = true := by cases o <;> rfl

/-! ### the item level -/

theorem coreCls_nodeK (tb : Tables) (rec : Ty → Ty → Bool) (c : Cls) : coreCls tb rec .nodeK c = false := by
  cases c <;> rfl

/-- `isinstance` is closed under super-types: proved for the live tables by `decide` (Props/C18Tables) -/
structure Tables.InstUp (tb : Tables) : Prop where
  up : ∀ xsd11 c a b, instAtomic tb xsd11 c a = true → tb.atomSub a b = true → instAtomic tb xsd11 c b = true

theorem Ty.strip_ownOcc (t : Ty) : t.strip.ownOcc = .one := by cases t <;> rfl

/-- restoring the trailing indicators of two return types keeps the restriction, if the indicators are compatible -/
theorem isRestriction_of_strip (tb : Tables) (r1 r2 : Ty)
    (h : isRestriction tb r1.strip r2.strip = true) (ho : occOK r1.last r2.last = true) :
    isRestriction tb r1 r2 = true := by
  by_cases e2 : r2 = .empty
  · subst e2
    rw [Ty.strip, isRestriction_empty_right] at h
    simp only [Ty.strip_ownOcc, Bool.or_eq_true, beq_iff_eq] at h
    have : r1 = .empty := by
      rcases h with (h | h) | h
      · exact (Ty.strip_eq_empty r1).1 ((Ty.beq_iff _ _).1 h)
      · exact absurd h (by decide)
      · exact absurd h (by decide)
    subst this; exact isRestriction_refl tb _
  · have e2' : r2.strip ≠ .empty := fun e => e2 ((Ty.strip_eq_empty r2).1 e)
    rw [isRestriction_nonempty tb _ _ e2'] at h
    rw [isRestriction_nonempty tb _ _ e2]
    simp only [Ty.strip_strip, Bool.and_eq_true] at h ⊢
    exact ⟨ho, h.2⟩

theorem matchLeaf_item (tb : Tables) (x s : Bool) (it : Item) : matchLeaf tb x s .item it = .ok true := by
  cases it <;> rfl

theorem matchLeaf_funcAny (tb : Tables) (x s : Bool) (it : Item) (h : it.isFunctionLike = true) :
    matchLeaf tb x s .funcAny it = .ok true := by
  cases it <;> simp [Item.isFunctionLike] at h <;> rfl

def Item.isMapArray : Item → Bool
  | .map _ => true | .array _ => true | _ => false

def Ty.isTypedFunc : Ty → Bool
  | .func _ _ => true | _ => false

theorem andE_true (a : Res) (b : Unit → Res) : andE a b = .ok true ↔ (a = .ok true ∧ b () = .ok true) := by
  cases a with
  | error e => simp [andE]
  | ok v => cases v <;> simp [andE]

/-- item level of soundness.  `ih`: soundness for every smaller super-type (used for the values of a map and the
members of an array tested against a typed function test: their type is the return type of the test). -/
theorem item_sound (tb : Tables) (ht : tb.Trans) (hu : tb.InstUp) (xsd11 : Bool) (T S : Ty) (x : Item)
    (hS : S ≠ .empty) (hR : isRestriction tb T S = true)
    (hx : itemFn tb xsd11 true S x = .ok true)
    (ih : ∀ (T' S' : Ty) (v' : List Item), T'.size < T.size → matchSt tb xsd11 true S' v' = .ok true →
      isRestriction tb T' S' = true → matchSt tb xsd11 true T' v' = .ok true) :
    itemFn tb xsd11 true T x = .ok true := by
  rw [isRestriction_nonempty tb _ _ hS] at hR
  simp only [Bool.and_eq_true, Bool.or_eq_true] at hR
  obtain ⟨hocc, hcore⟩ := hR
  rcases hcore with heq | hcore
  · -- same text up to the trailing indicator
    have heq := (Ty.beq_iff _ _).1 heq
    cases S with
    | empty => exact absurd rfl hS
    | leaf l o => cases T <;> simp [Ty.strip] at heq; subst heq; exact hx
    | map k v o => cases T <;> simp [Ty.strip] at heq; obtain ⟨rfl, rfl⟩ := heq; exact hx
    | array m o => cases T <;> simp [Ty.strip] at heq; subst heq; exact hx
    | func a r =>
      cases T with
      | empty => simp [Ty.strip] at heq
      | leaf _ _ => simp [Ty.strip] at heq
      | map _ _ _ => simp [Ty.strip] at heq
      | array _ _ => simp [Ty.strip] at heq
      | func a' r' =>
      simp only [Ty.strip, Ty.func.injEq] at heq
      obtain ⟨rfl, hr⟩ := heq
      have hrr : isRestriction tb r' r = true :=
        isRestriction_of_strip tb r' r (by rw [hr]; exact isRestriction_refl tb _) hocc
      cases x with
      | func sa sr =>
        simp only [itemFn, funcItemTest, Except.ok.injEq, Bool.and_eq_true] at hx ⊢
        exact ⟨hx.1, isRestriction_trans tb ht _ _ _ hrr hx.2⟩
      | map es =>
        have hsz : r'.size < (Ty.func a' r').size := by simp [Ty.size]; omega
        simp only [itemFn] at hx ⊢
        cases a' with
        | nil => simp at hx
        | cons k as =>
          cases as with
          | cons _ _ => simp at hx
          | nil =>
            simp only [] at hx ⊢
            split at hx
            · simp at hx
            · rename_i hk
              rw [if_neg hk]
              rw [andE_true, allE_true] at hx ⊢
              exact ⟨ih r' r [] hsz hx.1 hrr, fun e he => ih r' r e.2 hsz (hx.2 e he) hrr⟩
      | array ms =>
        have hsz : r'.size < (Ty.func a' r').size := by simp [Ty.size]; omega
        simp only [itemFn] at hx ⊢
        cases a' with
        | nil => simp at hx
        | cons k as =>
          cases as with
          | cons _ _ => simp at hx
          | nil =>
            simp only [] at hx ⊢
            split at hx
            · simp at hx
            · rename_i hk
              rw [if_neg hk]
              rw [allE_true] at hx ⊢
              exact fun m hm => ih r' r m hsz (hx m hm) hrr
      | atom c => simp [itemFn] at hx
      | node k n kids root => simp [itemFn] at hx
  · -- the chain of `elif`s
    cases T with
    | empty => simp [Ty.strip, Ty.cls, coreCls_other] at hcore
    | map k v o => simp [Ty.strip, Ty.cls, coreCls_other] at hcore
    | array m o => simp [Ty.strip, Ty.cls, coreCls_other] at hcore
    | func aT rT =>
      simp only [Ty.strip, Ty.cls] at hcore
      cases S with
      | empty => exact absurd rfl hS
      | map k v o => simp [Ty.strip, Ty.cls, coreCls] at hcore
      | array m o => simp [Ty.strip, Ty.cls, coreCls] at hcore
      | leaf l o =>
        exfalso
        cases l <;> simp [Ty.strip, Ty.cls, Leaf.cls, coreCls] at hcore
        case kind k nt => cases k <;> simp [Leaf.cls, coreCls] at hcore
        case kindT k nt ta o' => cases k <;> simp [Leaf.cls, coreCls] at hcore
      | func aS rS =>
        simp only [Ty.strip, Ty.cls, coreCls, Bool.and_eq_true] at hcore
        obtain ⟨hargs, hret⟩ := hcore
        have hrr : isRestriction tb rT rS = true := isRestriction_of_strip tb rT rS hret hocc
        cases x with
        | func sa sr =>
          simp only [itemFn, funcItemTest, Except.ok.injEq, Bool.and_eq_true, beq_iff_eq] at hx ⊢
          obtain ⟨⟨hl, ha⟩, hr⟩ := hx
          refine ⟨⟨?_, ?_⟩, isRestriction_trans tb ht _ _ _ hrr hr⟩
          · rw [hl]; exact Tys.all2_length _ _ _ hargs
          · exact Tys.all2_trans _ _ _ sa aS aT (fun p q r _ h1 h2 => isRestriction_trans tb ht p q r h1 h2) ha hargs
        | map es =>
          have hsz : rT.size < (Ty.func aT rT).size := by simp [Ty.size]; omega
          simp only [itemFn] at hx ⊢
          cases aS with
          | nil => simp at hx
          | cons kS asS =>
            cases asS with
            | cons _ _ => simp at hx
            | nil =>
              cases aT with
              | nil => simp [Tys.all2] at hargs
              | cons kT asT =>
                cases asT with
                | cons _ _ => simp [Tys.all2] at hargs
                | nil =>
                  simp only [Tys.all2, Bool.and_true] at hargs
                  simp only [] at hx ⊢
                  split at hx
                  · simp at hx
                  · rename_i hk
                    have hk' : isRestriction tb (.leaf (.atomic tb.anyAtomic) .one) kT = true :=
                      isRestriction_trans tb ht _ _ _ (by simpa using hk) hargs
                    rw [if_neg (by simp [hk'])]
                    rw [andE_true, allE_true] at hx ⊢
                    exact ⟨ih rT rS [] hsz hx.1 hrr, fun e he => ih rT rS e.2 hsz (hx.2 e he) hrr⟩
        | array ms =>
          have hsz : rT.size < (Ty.func aT rT).size := by simp [Ty.size]; omega
          simp only [itemFn] at hx ⊢
          cases aS with
          | nil => simp at hx
          | cons kS asS =>
            cases asS with
            | cons _ _ => simp at hx
            | nil =>
              cases aT with
              | nil => simp [Tys.all2] at hargs
              | cons kT asT =>
                cases asT with
                | cons _ _ => simp [Tys.all2] at hargs
                | nil =>
                  simp only [Tys.all2, Bool.and_true] at hargs
                  simp only [] at hx ⊢
                  split at hx
                  · simp at hx
                  · rename_i hk
                    have hk' : isRestriction tb (.leaf (.atomic tb.integer) .one) kT = true :=
                      isRestriction_trans tb ht _ _ _ (by simpa using hk) hargs
                    rw [if_neg (by simp [hk'])]
                    rw [allE_true] at hx ⊢
                    exact fun m hm => ih rT rS m hsz (hx m hm) hrr
        | atom c => simp [itemFn] at hx
        | node k n kids root => simp [itemFn] at hx
    | leaf lT oT =>
      simp only [Ty.strip, Ty.cls] at hcore
      simp only [itemFn]
      cases lT with
      | item => exact matchLeaf_item tb _ _ x
      | anyNode =>
        -- S is an element / attribute / comment / text / PI test: only nodes match it
        cases S with
        | empty => exact absurd rfl hS
        | func a r => simp [Ty.strip, Ty.cls, Leaf.cls, coreCls] at hcore
        | map k v o => simp [Ty.strip, Ty.cls, Leaf.cls, coreCls] at hcore
        | array m o => simp [Ty.strip, Ty.cls, Leaf.cls, coreCls] at hcore
        | leaf l o =>
          cases l <;> simp [Ty.strip, Ty.cls, Leaf.cls, coreCls] at hcore
          case kind k nt =>
            cases x with
            | node k' n kids root => simp [matchLeaf, matchLeafNode]
            | atom c => simp [itemFn, matchLeaf] at hx
            | func sa sr => simp [itemFn, matchLeaf] at hx
            | map es => simp [itemFn, matchLeaf] at hx
            | array ms => simp [itemFn, matchLeaf] at hx
          case kindT k nt ta o' =>
            cases x with
            | node k' n kids root => simp [matchLeaf, matchLeafNode]
            | atom c => simp [itemFn, matchLeaf] at hx
            | func sa sr => simp [itemFn, matchLeaf] at hx
            | map es => simp [itemFn, matchLeaf] at hx
            | array ms => simp [itemFn, matchLeaf] at hx
      | atomic a1 =>
        cases S with
        | empty => exact absurd rfl hS
        | func a r => simp [Ty.strip, Ty.cls, Leaf.cls, coreCls] at hcore
        | map k v o => simp [Ty.strip, Ty.cls, Leaf.cls, coreCls] at hcore
        | array m o => simp [Ty.strip, Ty.cls, Leaf.cls, coreCls] at hcore
        | leaf l o =>
          cases l <;> simp [Ty.strip, Ty.cls, Leaf.cls, coreCls] at hcore
          case kind k nt => cases k <;> simp [Leaf.cls, coreCls] at hcore
          case kindT k nt ta o' => cases k <;> simp [Leaf.cls, coreCls] at hcore
          case atomic a2 =>
            cases x with
            | atom c =>
              simp only [itemFn, matchLeaf, Bool.not_true, Bool.false_and, Bool.false_eq_true, if_false,
                Except.ok.injEq] at hx ⊢
              exact hu.up xsd11 c a2 a1 hx hcore
            | node k' n kids root => simp [itemFn, matchLeaf, matchLeafNode] at hx
            | func sa sr => simp [itemFn, matchLeaf] at hx
            | map es => simp [itemFn, matchLeaf] at hx
            | array ms => simp [itemFn, matchLeaf] at hx
      | funcAny =>
        apply matchLeaf_funcAny
        cases S with
        | empty => exact absurd rfl hS
        | map k v o => simp [Ty.strip, Ty.cls, Leaf.cls, coreCls] at hcore
        | array m o => simp [Ty.strip, Ty.cls, Leaf.cls, coreCls] at hcore
        | func a r => cases x <;> simp [itemFn] at hx <;> rfl
        | leaf l o =>
          cases l <;> simp [Ty.strip, Ty.cls, Leaf.cls, coreCls] at hcore
          case kind k nt => cases k <;> simp [Leaf.cls, coreCls] at hcore
          case kindT k nt ta o' => cases k <;> simp [Leaf.cls, coreCls] at hcore
          case funcAny => cases x <;> simp [itemFn, matchLeaf, matchLeafNode] at hx <;> rfl
      | kind k nt => exfalso; cases k <;> simp [Leaf.cls, coreCls_other, coreCls_nodeK] at hcore
      | kindT k nt ta o' => exfalso; cases k <;> simp [Leaf.cls, coreCls_other, coreCls_nodeK] at hcore
      | numeric => exfalso; simp [Leaf.cls, coreCls_other] at hcore
      | docElem nt => exfalso; simp [Leaf.cls, coreCls_other] at hcore
      | mapAny => exfalso; simp [Leaf.cls, coreCls_other] at hcore
      | arrayAny => exfalso; simp [Leaf.cls, coreCls_other] at hcore
      | listT l1 =>
        exfalso
        cases S with
        | empty => exact absurd rfl hS
        | func a r => simp [Ty.strip, Ty.cls, Leaf.cls, coreCls] at hcore
        | map k v o => simp [Ty.strip, Ty.cls, Leaf.cls, coreCls] at hcore
        | array m o => simp [Ty.strip, Ty.cls, Leaf.cls, coreCls] at hcore
        | leaf l o =>
          cases l <;> simp [Ty.strip, Ty.cls, Leaf.cls, coreCls] at hcore
          case kind k nt => cases k <;> simp [Leaf.cls, coreCls] at hcore
          case kindT k nt ta o' => cases k <;> simp [Leaf.cls, coreCls] at hcore
          case listT l2 => cases x <;> simp [itemFn, matchLeaf, matchLeafNode] at hx
      | anyType =>
        exfalso
        cases S with
        | empty => exact absurd rfl hS
        | func a r => simp [Ty.strip, Ty.cls, Leaf.cls, coreCls] at hcore
        | map k v o => simp [Ty.strip, Ty.cls, Leaf.cls, coreCls] at hcore
        | array m o => simp [Ty.strip, Ty.cls, Leaf.cls, coreCls] at hcore
        | leaf l o =>
          cases l <;> simp [Ty.strip, Ty.cls, Leaf.cls, coreCls] at hcore
          case kind k nt => cases k <;> simp [Leaf.cls, coreCls] at hcore
          case kindT k nt ta o' => cases k <;> simp [Leaf.cls, coreCls] at hcore
          case listT l2 => cases x <;> simp [itemFn, matchLeaf, matchLeafNode] at hx
      | anySimpleType =>
        exfalso
        cases S with
        | empty => exact absurd rfl hS
        | func a r => simp [Ty.strip, Ty.cls, Leaf.cls, coreCls] at hcore
        | map k v o => simp [Ty.strip, Ty.cls, Leaf.cls, coreCls] at hcore
        | array m o => simp [Ty.strip, Ty.cls, Leaf.cls, coreCls] at hcore
        | leaf l o =>
          cases l <;> simp [Ty.strip, Ty.cls, Leaf.cls, coreCls] at hcore
          case kind k nt => cases k <;> simp [Leaf.cls, coreCls] at hcore
          case kindT k nt ta o' => cases k <;> simp [Leaf.cls, coreCls] at hcore
          case listT l2 => cases x <;> simp [itemFn, matchLeaf, matchLeafNode] at hx

/-! ### the theorem -/

theorem isRestriction_func_left (tb : Tables) (a : Tys) (r S : Ty) (hS : S ≠ .empty)
    (h : isRestriction tb (.func a r) S = true) : S.isTypedFunc = true := by
  rw [isRestriction_nonempty tb _ _ hS] at h
  simp only [Bool.and_eq_true, Bool.or_eq_true] at h
  rcases h.2 with hb | hc
  · have := (Ty.beq_iff _ _).1 hb
    cases S <;> simp [Ty.strip] at this
    rfl
  · cases S with
    | func a' r' => rfl
    | leaf l o =>
      cases l <;> simp [Ty.strip, Ty.cls, Leaf.cls, coreCls] at hc
      case kind k nt => cases k <;> simp [Leaf.cls, coreCls] at hc
      case kindT k nt ta o' => cases k <;> simp [Leaf.cls, coreCls] at hc
    | _ => simp [Ty.strip, Ty.cls, coreCls] at hc

theorem hasMapArray_false_mem : ∀ (v : List Item), hasMapArray v = false → ∀ x ∈ v, x.isMapArray = false
  | [], _, x, hx => by simp at hx
  | y :: ys, h, x, hx => by
    cases y <;> simp [hasMapArray] at h
    all_goals
      rcases List.mem_cons.1 hx with rfl | hx'
      · rfl
      · exact hasMapArray_false_mem ys h x hx'

theorem match_sound_aux (tb : Tables) (ht : tb.Trans) (hu : tb.InstUp) (xsd11 : Bool) : ∀ (n : Nat) (T S : Ty)
    (v : List Item), T.size ≤ n → matchSt tb xsd11 true S v = .ok true → isRestriction tb T S = true →
    matchSt tb xsd11 true T v = .ok true := by
  intro n
  induction n with
  | zero => intro T S v h; have := T.size_pos; omega
  | succ n ihn =>
    intro T S v hsz hm hR
    by_cases eS : S = .empty
    · subst eS
      rw [matchSt_empty] at hm
      have hv : v = [] := by cases v <;> simp_all
      subst hv
      rw [isRestriction_empty_right] at hR
      by_cases eT : T = .empty
      · subst eT; rfl
      · rw [matchSt_eq_seqMatch _ _ _ _ _ eT, seqMatch_true]
        have : T.beq .empty = false := (Ty.beq_false_iff _ _).2 eT
        simp only [this, Bool.false_or, Bool.or_eq_true, beq_iff_eq] at hR
        refine ⟨?_, by simp⟩
        rcases hR with h | h <;> simp [h, cardOK]
    · have eT : T ≠ .empty := by
        intro e; subst e; rw [isRestriction_empty_left tb _ eS] at hR; exact absurd hR (by simp)
      rw [matchSt_eq_seqMatch _ _ _ _ _ eS, seqMatch_true] at hm
      rw [matchSt_eq_seqMatch _ _ _ _ _ eT, seqMatch_true]
      obtain ⟨hcard, hitems⟩ := hm
      constructor
      · -- cardinality
        have hocc : occOK T.last S.last = true := by
          rw [isRestriction_nonempty tb _ _ eS] at hR
          simp only [Bool.and_eq_true] at hR; exact hR.1
        by_cases fS : S.isTypedFunc = true
        · -- a typed function test matches exactly one item
          have : S.ownOcc = .one := by cases S <;> simp [Ty.isTypedFunc] at fS; rfl
          rw [this] at hcard
          have : v.length = 1 := by simpa [cardOK] using hcard
          rw [this]; exact cardOK_one _
        · have fT : T.isTypedFunc = false := by
            cases T with
            | func a r => exact absurd (isRestriction_func_left tb a r S eS hR) fS
            | _ => rfl
          have e1 : T.ownOcc = T.last := by cases T <;> simp [Ty.isTypedFunc] at fT <;> rfl
          have e2 : S.ownOcc = S.last := by cases S <;> simp [Ty.isTypedFunc] at fS <;> rfl
          rw [e1]; rw [e2] at hcard
          exact cardOK_mono hocc hcard
      · intro x hx
        apply item_sound tb ht hu xsd11 T S x eS hR (hitems x hx)
        intro T' S' v' hlt hm' hR'
        exact ihn T' S' v' (by omega) hm' hR'

/-- **Soundness of the restriction relation for matching.**  If `v` matches `S` and `S` is a restriction of
`T` then `v` matches `T` — for all values: atomic values, nodes, function items, maps and arrays (whose values /
members are judged against the return type of a typed function test, by induction on the super-type). -/
theorem match_sound (tb : Tables) (ht : tb.Trans) (hu : tb.InstUp) (xsd11 : Bool) (T S : Ty) (v : List Item)
    (hm : matchSt tb xsd11 true S v = .ok true) (hR : isRestriction tb T S = true) :
    matchSt tb xsd11 true T v = .ok true :=
  match_sound_aux tb ht hu xsd11 T.size T S v (Nat.le_refl _) hm hR

end EPV.SeqType

/-
C01 (phase 5) — lemmas for `,` / `!` / step-on-sequence: model (`seval`) = specification (`ssem`).
-/
import EPV.Lemmas.AxesPath
import EPV.Spec.AxesSeqOps
namespace EPV.XP
open Spec

variable {m : Mode} {a : Arr}

theorem numberFrom_zipIdx (size : Nat) : ∀ (l : List Nat) (k : Nat),
    numberFrom size k l = (l.zipIdx k).map fun p => (⟨p.1, p.2, size⟩ : Focus) := by
  intro l
  induction l with
  | nil => intro k; rfl
  | cons x xs ih => intro k; simp only [numberFrom, List.zipIdx_cons, List.map_cons, ih]

theorem nodesOnly_mem : ∀ (s : List Item) (ns : List Nat), nodesOnly s = some ns →
    ∀ n, n ∈ ns → Item.node n ∈ s := by
  intro s
  induction s with
  | nil => intro ns h n hn; simp only [nodesOnly, Option.some.injEq] at h; subst h; cases hn
  | cons x xs ih =>
    intro ns h n hn
    cases x with
    | num k => simp [nodesOnly] at h
    | node y =>
      simp only [nodesOnly, Option.map_eq_some_iff] at h
      obtain ⟨t, ht, rfl⟩ := h
      rcases List.mem_cons.1 hn with rfl | hn
      · exact List.mem_cons_self
      · exact List.mem_cons_of_mem _ (ih t ht n hn)

theorem catOpt_mem : ∀ (os : List (Option (List Item))) (s : List Item), catOpt os = some s →
    ∀ x ∈ s, ∃ t, some t ∈ os ∧ x ∈ t := by
  intro os
  induction os with
  | nil => intro s h x hx; simp only [catOpt, Option.some.injEq] at h; subst h; cases hx
  | cons o os ih =>
    intro s h x hx
    cases o with
    | none => simp [catOpt] at h
    | some l =>
      simp only [catOpt, Option.map_eq_some_iff] at h
      obtain ⟨t, ht, rfl⟩ := h
      rcases List.mem_append.1 hx with hx | hx
      · exact ⟨l, List.mem_cons_self, hx⟩
      · obtain ⟨t', ht', hx'⟩ := ih t ht x hx
        exact ⟨t', List.mem_cons_of_mem _ ht', hx'⟩

theorem itemsOf_node_mem {v : Val} {s : List Item} (h : itemsOf v = some s) {n : Nat}
    (hn : Item.node n ∈ s) : n ∈ nodesOf v := by
  cases v with
  | nodes l =>
    simp only [itemsOf, Option.some.injEq] at h; subst h
    simpa [nodesOf] using hn
  | num k => simp only [itemsOf, Option.some.injEq] at h; subst h; simp at hn
  | dec _ _ => simp [itemsOf] at h
  | bool _ => simp [itemsOf] at h
  | err => simp [itemsOf] at h

theorem nodesOnly_map_node : ∀ l : List Nat, nodesOnly (l.map Item.node) = some l
  | [] => rfl
  | x :: xs => by simp [nodesOnly, nodesOnly_map_node xs]

/-- the countdown of `XPathAxis.select_with_focus` is the forward numbering mirrored -/
theorem countDown_zipIdx (size : Nat) : ∀ (l : List Nat) (k j : Nat), l.length ≤ k →
    countDown size k l = (l.zipIdx j).map fun q => (⟨q.1, k + j - q.2, size⟩ : Focus) := by
  intro l
  induction l with
  | nil => intro k j _; rfl
  | cons x xs ih =>
    intro k j hk
    simp only [List.length_cons] at hk
    simp only [countDown, List.zipIdx_cons, List.map_cons]
    rw [ih (k - 1) (j + 1) (by omega)]
    have h1 : k + j - j = k := by omega
    have h2 : k - 1 + (j + 1) = k + j := by omega
    rw [h1, h2]

theorem focusRev_zipIdx (l : List Nat) :
    focusRev l = (l.zipIdx 1).map fun q => (⟨q.1, l.length + 1 - q.2, l.length⟩ : Focus) := by
  unfold focusRev
  exact countDown_zipIdx _ l l.length 1 (Nat.le_refl _)

theorem focusFwd_item_mem {ns : List Nat} {c : Focus} (h : c ∈ focusFwd ns) : c.item ∈ ns := by
  have := mem_items h
  unfold focusFwd at this
  rwa [numberFrom_items] at this

/-- every node item of the option sequence is a node of the tree -/
def Bounded (a : Arr) (o : Option (List Item)) : Prop :=
  ∀ s, o = some s → ∀ n, Item.node n ∈ s → n < a.length

theorem path_nodes_bounded (w : WF m a) (r : Expr) (hr : ty r = some .path) (c : Focus) (hc : c.item < a.length) :
    ∃ l, eval m a r c = .nodes l ∧ ∀ x ∈ l, x < a.length := by
  rw [eval_eq_sem_aux w r .path c hr hc]
  obtain ⟨l, hl⟩ := hasTy_path (sem_typed (m := m) (a := a) r .path c hr)
  exact ⟨l, hl, (sem_good r c l hc hl).2⟩

theorem seval_eq_ssem_aux (w : WF m a) : ∀ (e : SExpr) (b : Bool) (f : Focus), sty e = some b →
    f.item < a.length →
    seval m a e f = ssem m a e f ∧ Bounded a (seval m a e f) := by
  intro e
  induction e with
  | base e =>
    intro b f ht hf
    simp only [sty] at ht
    have hty : ∃ t, ty e = some t ∧ (t = .path ∨ t = .num) := by
      cases h : ty e with
      | none => simp [h] at ht
      | some t => cases t <;> simp [h] at ht <;> exact ⟨_, rfl, by simp⟩
    obtain ⟨t, ht', htt⟩ := hty
    have heq := eval_eq_sem_aux w e t f ht' hf
    refine ⟨by simp only [seval, ssem, heq], ?_⟩
    intro s hs n hn
    simp only [seval] at hs
    have hmem := itemsOf_node_mem hs hn
    rw [heq] at hmem
    rcases htt with rfl | rfl
    · obtain ⟨l, hl⟩ := hasTy_path (sem_typed (m := m) (a := a) e .path f ht')
      rw [hl] at hmem
      exact (sem_good e f l hf hl).2 n hmem
    · obtain ⟨k, hk⟩ := hasTy_num (sem_typed (m := m) (a := a) e .num f ht')
      rw [hk] at hmem; simp [nodesOf] at hmem
  | comma l r ihl ihr =>
    intro b f ht hf
    have hty : ∃ bl br, sty l = some bl ∧ sty r = some br := by
      simp only [sty] at ht
      cases h1 : sty l <;> cases h2 : sty r <;> simp [h1, h2] at ht
      exact ⟨_, _, rfl, rfl⟩
    obtain ⟨bl, br, hl, hr'⟩ := hty
    obtain ⟨e1, b1⟩ := ihl bl f hl hf
    obtain ⟨e2, b2⟩ := ihr br f hr' hf
    refine ⟨by simp only [seval, ssem, e1, e2]; cases ssem m a l f <;> cases ssem m a r f <;> rfl, ?_⟩
    intro s hs n hn
    simp only [seval] at hs
    cases h1 : seval m a l f <;> cases h2 : seval m a r f <;> simp [h1, h2] at hs
    subst hs
    rcases List.mem_append.1 hn with h | h
    · exact b1 _ h1 n h
    · exact b2 _ h2 n h
  | bang l r ihl ihr =>
    intro b f ht hf
    have hty : ∃ br, sty l = some true ∧ sty r = some br := by
      simp only [sty] at ht
      cases h1 : sty l with
      | none => simp [h1] at ht
      | some x =>
        cases x <;> cases h2 : sty r <;> simp [h1, h2] at ht
        exact ⟨_, rfl, rfl⟩
    obtain ⟨br, hl, hr'⟩ := hty
    obtain ⟨e1, b1⟩ := ihl true f hl hf
    simp only [seval, ssem, ← e1]
    cases h1 : seval m a l f with
    | none => exact ⟨rfl, fun s hs => by cases hs⟩
    | some ls =>
      simp only []
      cases h2 : nodesOnly ls with
      | none => exact ⟨rfl, fun s hs => by cases hs⟩
      | some ns =>
        simp only []
        have hb : ∀ n ∈ ns, n < a.length := fun n hn => b1 ls h1 n (nodesOnly_mem ls ns h2 n hn)
        have hmap : (focusFwd ns).map (fun f' => seval m a r f') =
            (ns.zipIdx 1).map fun p => ssem m a r ⟨p.1, p.2, ns.length⟩ := by
          unfold focusFwd
          rw [numberFrom_zipIdx, List.map_map]
          apply List.map_congr_left
          intro p hp
          exact (ihr br _ hr' (hb _ (List.fst_mem_of_mem_zipIdx hp))).1
        refine ⟨by rw [hmap], ?_⟩
        intro s hs n hn
        obtain ⟨t, ht, hx⟩ := catOpt_mem _ s hs (.node n) hn
        rw [List.mem_map] at ht
        obtain ⟨f', hf', hft⟩ := ht
        exact (ihr br f' hr' (hb _ (focusFwd_item_mem hf'))).2 t hft n hx
  | slash l r ihl =>
    intro b f ht hf
    have hty : sty l = some true ∧ ty r = some .path := by
      simp only [sty] at ht
      cases h1 : sty l with
      | none => simp [h1] at ht
      | some x =>
        cases x <;> cases h2 : ty r with
        | none => simp [h1, h2] at ht
        | some t => cases t <;> simp [h1, h2] at ht <;> exact ⟨rfl, rfl⟩
    obtain ⟨hl, hr'⟩ := hty
    obtain ⟨e1, b1⟩ := ihl true f hl hf
    simp only [seval, ssem, ← e1]
    cases h1 : seval m a l f with
    | none => exact ⟨rfl, fun s hs => by cases hs⟩
    | some ls =>
      simp only []
      cases h2 : nodesOnly ls with
      | none => exact ⟨rfl, fun s hs => by cases hs⟩
      | some ns =>
        simp only []
        have hb : ∀ n ∈ ns, n < a.length := fun n hn => b1 ls h1 n (nodesOnly_mem ls ns h2 n hn)
        have key := union_lemma (a := a) (focusFwd ns) ns (fun f' => eval m a r f')
          (fun n => sem m a r ⟨n, 1, 1⟩)
          (fun c hc => path_nodes_bounded w r hr' c (hb _ (focusFwd_item_mem hc)))
          (fun d _ => hasTy_path (sem_typed (m := m) (a := a) r .path ⟨d, 1, 1⟩ hr'))
          (by
            intro x
            constructor
            · rintro ⟨c, hc, hx⟩
              refine ⟨c.item, focusFwd_item_mem hc, ?_⟩
              rw [eval_eq_sem_aux w r .path c hr' (hb _ (focusFwd_item_mem hc))] at hx
              rwa [sem_irrel r c ⟨c.item, 1, 1⟩ hr' rfl] at hx
            · rintro ⟨d, hd, hx⟩
              have : d ∈ (focusFwd ns).map (·.item) := by
                unfold focusFwd; rw [numberFrom_items]; exact hd
              obtain ⟨c, hc, rfl⟩ := List.mem_map.1 this
              refine ⟨c, hc, ?_⟩
              rw [eval_eq_sem_aux w r .path c hr' (hb _ hd)]
              rwa [sem_irrel r c ⟨c.item, 1, 1⟩ hr' rfl])
        have key' : sortVal (collect ((focusFwd ns).map fun f' => eval m a r f')) =
            ofSets a (nodeSets (ns.map fun n => sem m a r ⟨n, 1, 1⟩)) := by
          rw [← key]; cases collect ((focusFwd ns).map fun f' => eval m a r f') <;> rfl
        rw [key']
        refine ⟨rfl, ?_⟩
        intro s hs n hn
        have hmem := itemsOf_node_mem hs hn
        cases hX : nodeSets (ns.map fun n => sem m a r ⟨n, 1, 1⟩) with
        | none => rw [hX] at hs; simp [ofSets, itemsOf] at hs
        | some lss =>
          rw [hX] at hmem
          simp only [ofSets, nodesOf] at hmem
          exact ((mem_unionSets lss n).1 hmem).1
  | filter l p ihl =>
    intro b f ht hf
    have hty : sty l = some true ∧ ∃ t, ty p = some t := by
      simp only [sty] at ht
      cases h1 : sty l with
      | none => simp [h1] at ht
      | some x =>
        cases x <;> cases h2 : ty p with
        | none => simp [h1, h2] at ht
        | some t => simp [h1, h2] at ht <;> exact ⟨rfl, _, rfl⟩
    obtain ⟨hl, t, hp⟩ := hty
    obtain ⟨e1, b1⟩ := ihl true f hl hf
    simp only [seval, ssem, ← e1]
    cases h1 : seval m a l f with
    | none => exact ⟨rfl, fun s hs => by cases hs⟩
    | some ls =>
      simp only []
      cases h2 : nodesOnly ls with
      | none => exact ⟨rfl, fun s hs => by cases hs⟩
      | some ns =>
        simp only []
        have hb : ∀ n ∈ ns, n < a.length := fun n hn => b1 ls h1 n (nodesOnly_mem ls ns h2 n hn)
        have hfoc : focusFwd ns = (ns.zipIdx 1).map fun q => (⟨q.1, q.2, ns.length⟩ : Focus) := by
          unfold focusFwd; rw [numberFrom_zipIdx]
        have hflags : (focusFwd ns).map (fun f' => keep (eval m a p f') f') =
            (focusFwd ns).map (fun c => predTruth (sem m a p c) c) := by
          apply List.map_congr_left
          intro c hc
          rw [keep_eq_predTruth, eval_eq_sem_aux w p t c hp (hb _ (focusFwd_item_mem hc))]
        rw [hflags, filterFlags_eq_selectBy, ← hfoc]
        refine ⟨rfl, ?_⟩
        intro s hs n hn
        rw [Option.map_eq_some_iff] at hs
        obtain ⟨r, hr1, rfl⟩ := hs
        have hsub := selectBy_sublist _ _ r hr1
        unfold focusFwd at hsub
        rw [numberFrom_items] at hsub
        have : n ∈ r := by simpa using hn
        exact hb n (hsub.subset this)
  | slashNum l r ihl =>
    intro b f ht hf
    have hty : sty l = some true ∧ ty r = some .num := by
      simp only [sty] at ht
      cases h1 : sty l with
      | none => simp [h1] at ht
      | some x =>
        cases x <;> cases h2 : ty r with
        | none => simp [h1, h2] at ht
        | some t => cases t <;> simp [h1, h2] at ht <;> exact ⟨rfl, rfl⟩
    obtain ⟨hl, hr'⟩ := hty
    obtain ⟨e1, b1⟩ := ihl true f hl hf
    simp only [seval, ssem, ← e1]
    cases h1 : seval m a l f with
    | none => exact ⟨rfl, fun s hs => by cases hs⟩
    | some ls =>
      simp only []
      cases h2 : nodesOnly ls with
      | none => exact ⟨rfl, fun s hs => by cases hs⟩
      | some ns =>
        simp only []
        have hb : ∀ n ∈ ns, n < a.length := fun n hn => b1 ls h1 n (nodesOnly_mem ls ns h2 n hn)
        have hmap : (focusFwd ns).map (fun f' => itemsOf (eval m a r f')) =
            (ns.zipIdx 1).map fun q => itemsOf (sem m a r ⟨q.1, q.2, ns.length⟩) := by
          unfold focusFwd
          rw [numberFrom_zipIdx, List.map_map]
          apply List.map_congr_left
          intro q hq
          simp only [Function.comp]
          rw [eval_eq_sem_aux w r .num _ hr' (hb _ (List.fst_mem_of_mem_zipIdx hq))]
        refine ⟨by rw [hmap], ?_⟩
        intro s hs n hn
        rw [hmap] at hs
        obtain ⟨t, ht, hx⟩ := catOpt_mem _ s hs (.node n) hn
        rw [List.mem_map] at ht
        obtain ⟨q, _, hqt⟩ := ht
        obtain ⟨k, hk⟩ := hasTy_num (sem_typed (m := m) (a := a) r .num ⟨q.1, q.2, ns.length⟩ hr')
        rw [hk] at hqt
        simp only [itemsOf, Option.some.injEq] at hqt
        subst hqt
        simp at hx

end EPV.XP

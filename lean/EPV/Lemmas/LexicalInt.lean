/-
C10 helper lemmas: the integer recogniser / value / canonical string.
-/
import EPV.Lemmas.LexicalWS
namespace EPV.LexLemmas
open EPV

theorem isDigit_eq (c : Char) : Lex.isDigit c = XSD.isDigit c := by
  simp only [Lex.isDigit, XSD.isDigit, Char.isDigit, Char.le_def, ge_iff_le]

theorem dropWhile_eq_nil_iff {α} (p : α → Bool) (l : List α) :
    l.dropWhile p = [] ↔ ∀ x ∈ l, p x = true := by
  induction l with
  | nil => simp
  | cons a t ih =>
    by_cases h : p a = true
    · simp [List.dropWhile_cons_of_pos h, ih, h]
    · simp [List.dropWhile_cons_of_neg h, h]

/-- Python `$` on a string without '\n' is end-of-string -/
theorem atEnd_of_no_nl (r : List Char) (h : '\n' ∉ r) : Lex.atEnd r = r.isEmpty := by
  match r with
  | [] => rfl
  | [c] =>
    have : c ≠ '\n' := fun e => h (by simp [e])
    simp [Lex.atEnd, this]
  | _ :: _ :: _ => simp [Lex.atEnd]

theorem dropWhile_nl {p : Char → Bool} {s : List Char} (h : '\n' ∉ s) : '\n' ∉ s.dropWhile p :=
  fun hm => h ((List.dropWhile_sublist p).mem hm)

/-- `[0-9]+$` on a newline-free string = non-empty and all digits -/
theorem digits1End_eq (s : List Char) (h : '\n' ∉ s) :
    Lex.digits1End s = XSD.unsignedNoDecimalPt s := by
  unfold Lex.digits1End XSD.unsignedNoDecimalPt
  simp only
  rw [atEnd_of_no_nl _ (dropWhile_nl h)]
  by_cases hall : s.all Lex.isDigit = true
  · have hd : s.dropWhile Lex.isDigit = [] := by
      rw [dropWhile_eq_nil_iff]; simpa using hall
    have hall' : s.all XSD.isDigit = true := by
      rw [List.all_eq_true] at hall ⊢; intro x hx; rw [← isDigit_eq]; exact hall x hx
    rw [hd, hall']
    cases s <;> simp
  · have hd : s.dropWhile Lex.isDigit ≠ [] := by
      rw [Ne, dropWhile_eq_nil_iff]; simpa using hall
    have hall' : s.all XSD.isDigit = false := by
      rw [Bool.eq_false_iff]; intro h2; apply hall
      rw [List.all_eq_true] at h2 ⊢; intro x hx; rw [isDigit_eq]; exact h2 x hx
    rw [hall']
    cases hr : s.dropWhile Lex.isDigit with
    | nil => exact absurd hr hd
    | cons a b => simp

theorem optSign_nl {s : List Char} (h : '\n' ∉ s) : '\n' ∉ Lex.optSign s := by
  unfold Lex.optSign
  split
  · exact fun hm => h (List.mem_cons_of_mem _ hm)
  · exact fun hm => h (List.mem_cons_of_mem _ hm)
  · exact h

/-- `('+'|'-')? p` = the model's `p (optSign s)` -/
theorem signed_eq (p : List Char → Bool) (s : List Char) : XSD.signed p s = p (Lex.optSign s) := by
  unfold XSD.signed Lex.optSign
  split <;> simp_all

/-- the integer pattern recognises exactly the XSD lexical space of xs:integer (newline-free strings) -/
theorem matchInteger_eq (s : List Char) (h : '\n' ∉ s) : Lex.matchInteger s = XSD.integerLex s := by
  unfold Lex.matchInteger XSD.integerLex XSD.noDecimalPtNumeral
  rw [signed_eq, digits1End_eq _ (optSign_nl h)]

theorem digitSeqVal_eq (ds : List Char) (acc : Nat) :
    XSD.digitSeqVal ds acc = Nat.ofDigitChars 10 ds acc := by
  induction ds generalizing acc with
  | nil => simp [XSD.digitSeqVal]
  | cons c r ih =>
    simp only [XSD.digitSeqVal, Nat.ofDigitChars_cons, ih]
    congr 1
    simp [Nat.mul_comm]

/-- Python `int()` on a matching string is the XSD value of the numeral -/
theorem intOfLex_eq (s : List Char) : Lex.intOfLex s = XSD.integerVal s := by
  unfold Lex.intOfLex XSD.integerVal Lex.digitsVal
  split <;> simp [digitSeqVal_eq]

/-- `_higher_bound` is exclusive: the model's test `lo ≤ v ∧ v < hi` is the XSD test
`minInclusive ≤ v ≤ maxInclusive` with `maxInclusive = hi - 1` — for every integer `v`. -/
theorem bounds_ok_iff_facets (b : Lex.Bounds) (v : Int) :
    b.ok v = XSD.inFacets b.lo (b.hi.map (· - 1)) v := by
  cases b with
  | mk lo hi =>
    have h : ∀ h : Int, decide (v < h) = decide (v ≤ h - 1) := by
      intro h; rw [decide_eq_decide]; omega
    cases lo <;> cases hi <;> simp [Lex.Bounds.ok, XSD.inFacets, h]

/-- Python `str(int)` is the XSD canonical representation of an integer -/
theorem intCanon_eq (v : Int) : Lex.intCanon v = XSD.integerCanon v := by
  unfold Lex.intCanon XSD.integerCanon XSD.natCanon
  simp

theorem digit_bounds (c : Char) (h : Lex.isDigit c = true) : 48 ≤ c.toNat ∧ c.toNat ≤ 57 := by
  simp only [Lex.isDigit, Char.isDigit, Bool.and_eq_true, decide_eq_true_eq] at h
  exact ⟨h.1, h.2⟩

theorem digit_not_white (c : Char) (h : Lex.isDigit c = true) : Lex.isPyWhite c = false := by
  have hb := digit_bounds c h
  rw [Bool.eq_false_iff]
  intro hw
  simp only [Lex.isPyWhite, Lex.pyWhiteCPs, List.contains_cons, List.contains_nil, Bool.or_false,
    Bool.or_eq_true, beq_iff_eq] at hw
  omega

theorem digit_ne_sign (c : Char) (h : Lex.isDigit c = true) : c ≠ '+' ∧ c ≠ '-' ∧ c ≠ '.' ∧ c ≠ '\n' := by
  have hb := digit_bounds c h
  refine ⟨?_, ?_, ?_, ?_⟩ <;> (intro e; subst e; revert hb; decide)

theorem toDigits_all_digit (n : Nat) : ∀ c ∈ Nat.toDigits 10 n, Lex.isDigit c = true :=
  fun _ hc => Nat.isDigit_of_mem_toDigits (by decide) (by decide) hc

/-- the characters of `str(int)` are digits or a leading '-' : none is white -/
theorem intCanon_no_white (v : Int) : ∀ c ∈ Lex.intCanon v, Lex.isPyWhite c = false := by
  intro c hc
  unfold Lex.intCanon at hc
  split at hc
  · rcases List.mem_cons.mp hc with h | h
    · subst h; decide
    · exact digit_not_white c (toDigits_all_digit _ c h)
  · exact digit_not_white c (toDigits_all_digit _ c hc)

theorem intOfLex_digits (ds : List Char) (h : ∀ c ∈ ds, Lex.isDigit c = true) :
    Lex.intOfLex ds = (Lex.digitsVal ds : Int) := by
  unfold Lex.intOfLex
  split
  · exact absurd rfl (digit_ne_sign _ (h _ List.mem_cons_self)).2.1
  · exact absurd rfl (digit_ne_sign _ (h _ List.mem_cons_self)).1
  · rfl

theorem matchInteger_digits (ds : List Char) (hne : ds ≠ []) (h : ∀ c ∈ ds, Lex.isDigit c = true) :
    Lex.matchInteger ds = true ∧ Lex.matchInteger ('-' :: ds) = true := by
  have hd : ds.dropWhile Lex.isDigit = [] := (dropWhile_eq_nil_iff _ _).mpr h
  have h1 : Lex.digits1End ds = true := by
    unfold Lex.digits1End
    simp only [hd, Lex.atEnd, List.length_nil, Bool.and_true, decide_eq_true_eq]
    exact List.length_pos_iff.mpr hne
  constructor
  · unfold Lex.matchInteger Lex.optSign
    split
    · exact absurd rfl (digit_ne_sign _ (h _ List.mem_cons_self)).1
    · exact absurd rfl (digit_ne_sign _ (h _ List.mem_cons_self)).2.1
    · exact h1
  · simpa [Lex.matchInteger, Lex.optSign] using h1

/-- `int(str(v)) = v` through the constructor of xs:integer, and the string is already collapsed -/
theorem intCtor_intCanon (v : Int) : Lex.intCtor ⟨none, none⟩ (Lex.intCanon v) = .ok v := by
  unfold Lex.intCtor
  simp only [collapse_of_no_white _ (intCanon_no_white v)]
  have hds := toDigits_all_digit v.natAbs
  have hne : Nat.toDigits 10 v.natAbs ≠ [] := Nat.toDigits_ne_nil
  have hm := matchInteger_digits _ hne hds
  have hval : Lex.digitsVal (Nat.toDigits 10 v.natAbs) = v.natAbs := Nat.ofDigitChars_ten_toDigits
  unfold Lex.intCanon
  split
  · rename_i hneg
    simp only [hm.2, ↓reduceIte, Lex.Bounds.ok, Bool.and_self]
    simp only [Lex.intOfLex, hval]
    congr 1; omega
  · rename_i hpos
    simp only [hm.1, ↓reduceIte, Lex.Bounds.ok, Bool.and_self]
    rw [intOfLex_digits _ hds, hval]
    congr 1; omega

end EPV.LexLemmas

/-
C05 helper lemmas: the depth bound `n` of `eval` is harmless — a successful evaluation gives the
same answer at every larger bound.
-/
import EPV.Model.Scope
namespace EPV.Scope

/-- whatever `ev` answers, `ev'` answers too -/
def Mono (ev ev' : Expr → Env → Heap → Res) : Prop :=
  ∀ e ρ h r, ev e ρ h = .ok r → ev' e ρ h = .ok r

variable {ev ev' : Expr → Env → Heap → Res}

theorem operands_mono (hm : Mono ev ev') {a b : Expr} {ρ : Env} {h : Heap}
    {r : Option (Item × Item) × Env × Heap} (he : operands ev a b ρ h = .ok r) :
    operands ev' a b ρ h = .ok r := by
  unfold operands at he ⊢
  split at he
  · cases he
  · rename_i va ρ1 h1 ha
    rw [hm _ _ _ _ ha]
    simp only
    split at he
    · exact he
    · split at he
      · cases he
      · rename_i vb ρ2 h2 hb
        rw [hm _ _ _ _ hb]
        exact he
    · cases he

theorem forLoop_mono (hm : Mono ev ev') (x : Name) (body : Expr) :
    ∀ (items : List Item) (ρc : Env) (h : Heap) (r : Val × Env × Heap),
      forLoop ev x body items ρc h = .ok r → forLoop ev' x body items ρc h = .ok r := by
  intro items
  induction items with
  | nil => intro ρc h r he; simpa [forLoop] using he
  | cons it rest ih =>
    intro ρc h r he
    unfold forLoop at he ⊢
    split at he
    · cases he
    · rename_i v1 ρ1 h1 hb
      rw [hm _ _ _ _ hb]
      simp only
      split at he
      · cases he
      · rename_i vs ρ2 h2 hr
        rw [ih _ _ _ hr]
        exact he

theorem quantLoop_mono (hm : Mono ev ev') (s : Bool) (x : Name) (body : Expr) :
    ∀ (items : List Item) (ρc : Env) (h : Heap) (r : Bool × Env × Heap),
      quantLoop ev s x body items ρc h = .ok r → quantLoop ev' s x body items ρc h = .ok r := by
  intro items
  induction items with
  | nil => intro ρc h r he; simpa [quantLoop] using he
  | cons it rest ih =>
    intro ρc h r he
    unfold quantLoop at he ⊢
    split at he
    · cases he
    · rename_i v1 ρ1 h1 hb
      rw [hm _ _ _ _ hb]
      simp only
      split at he
      · cases he
      · split at he
        · rename_i b hbv hc
          simp only [hc, if_true]; exact he
        · rename_i b hbv hc
          simp only [hc]; exact ih _ _ _ he

theorem evalArgs_mono (hm : Mono ev ev') :
    ∀ (as : List Expr) (ρ : Env) (h : Heap) (r : List Val × Env × Heap),
      evalArgs ev as ρ h = .ok r → evalArgs ev' as ρ h = .ok r := by
  intro as
  induction as with
  | nil => intro ρ h r he; simpa [evalArgs] using he
  | cons a rest ih =>
    intro ρ h r he
    unfold evalArgs at he ⊢
    split at he
    · cases he
    · rename_i v1 ρ1 h1 ha
      rw [hm _ _ _ _ ha]
      simp only
      split at he
      · cases he
      · rename_i vs ρ2 h2 hr
        rw [ih _ _ _ hr]
        exact he

theorem applyFn_mono (hm : Mono ev ev') {c : Cfg} {ps : List Name} {body : Expr} {cap : Env} {args : List Val}
    {ρ : Env} {h : Heap} {r : Val × Env × Heap}
    (he : applyFn ev c ps body cap args ρ h = .ok r) : applyFn ev' c ps body cap args ρ h = .ok r := by
  unfold applyFn at he ⊢
  split at he
  · cases he
  · rename_i hl
    rw [if_neg hl]
    split at he
    · cases he
    · rename_i v1 ρ1 h1 hb
      rw [hm _ _ _ _ hb]
      exact he

theorem eval_mono (c : Cfg) : ∀ n, Mono (eval c n) (eval c (n + 1)) := by
  intro n
  induction n with
  | zero => intro e ρ h r he; simp [eval] at he
  | succ n ih =>
    intro e ρ h r he
    cases e with
    | int k => rw [eval] at he ⊢; exact he
    | var x => rw [eval] at he ⊢; exact he
    | empty => rw [eval] at he ⊢; exact he
    | dt l z => rw [eval] at he ⊢; exact he
    | fn ps body => rw [eval] at he ⊢; exact he
    | paren e => rw [eval] at he ⊢; exact ih _ _ _ _ he
    | seq a b =>
      rw [eval] at he ⊢
      split at he
      · cases he
      · rename_i va ρ1 h1 ha
        rw [ih _ _ _ _ ha]; simp only
        split at he
        · cases he
        · rename_i vb ρ2 h2 hb
          rw [ih _ _ _ _ hb]; exact he
    | add a b =>
      rw [eval] at he ⊢
      split at he
      · cases he
      · rename_i ρ2 h2 ho; rw [operands_mono ih ho]; exact he
      · rename_i x y ρ2 h2 ho; rw [operands_mono ih ho]; exact he
    | sub a b =>
      rw [eval] at he ⊢
      split at he
      · cases he
      · rename_i ρ2 h2 ho; rw [operands_mono ih ho]; exact he
      · rename_i x y ρ2 h2 ho; rw [operands_mono ih ho]; exact he
    | eq a b =>
      rw [eval] at he ⊢
      split at he
      · cases he
      · rename_i va ρ1 h1 ha
        rw [ih _ _ _ _ ha]; simp only
        split at he
        · cases he
        · rename_i vb ρ2 h2 hb
          rw [ih _ _ _ _ hb]; exact he
    | tzOf e =>
      rw [eval] at he ⊢
      split at he
      · cases he
      · rename_i v1 ρ1 h1 ha
        rw [ih _ _ _ _ ha]; exact he
    | letE x e body =>
      rw [eval] at he ⊢
      split at he
      · cases he
      · rename_i v1 ρ1 h1 ha
        rw [ih _ _ _ _ ha]; simp only
        split at he
        · cases he
        · rename_i r2 ρ2 h2 hb
          rw [ih _ _ _ _ hb]; exact he
    | forE x r0 body =>
      rw [eval] at he ⊢
      split at he
      · cases he
      · rename_i v1 ρ1 h1 ha
        rw [ih _ _ _ _ ha]; simp only
        split at he
        · cases he
        · rename_i r2 ρ2 h2 hb
          rw [forLoop_mono ih _ _ _ _ _ _ hb]; exact he
    | someE x r0 body =>
      rw [eval] at he ⊢
      split at he
      · cases he
      · rename_i v1 ρ1 h1 ha
        rw [ih _ _ _ _ ha]; simp only
        split at he
        · cases he
        · rename_i r2 ρ2 h2 hb
          rw [quantLoop_mono ih _ _ _ _ _ _ _ hb]; exact he
    | everyE x r0 body =>
      rw [eval] at he ⊢
      split at he
      · cases he
      · rename_i v1 ρ1 h1 ha
        rw [ih _ _ _ _ ha]; simp only
        split at he
        · cases he
        · rename_i r2 ρ2 h2 hb
          rw [quantLoop_mono ih _ _ _ _ _ _ _ hb]; exact he
    | call0 f =>
      rw [eval] at he ⊢
      split at he
      · cases he
      · rename_i ps body cap ρ1 h1 hfv
        rw [ih _ _ _ _ hfv]; simp only
        exact applyFn_mono ih he
      · rename_i hne hfv
        cases he
    | call f a =>
      rw [eval] at he ⊢
      split at he
      · cases he
      · rename_i ps body cap ρ1 h1 hfv
        rw [ih _ _ _ _ hfv]; simp only
        split at he
        · cases he
        · rename_i vs ρ2 h2 hargs
          rw [evalArgs_mono ih _ _ _ _ hargs]; simp only
          exact applyFn_mono ih he
      · cases he
    | durLit s => rw [eval] at he ⊢; exact he
    | adjust1 e =>
      rw [eval] at he ⊢
      split at he
      · cases he
      · rename_i ρ1 h1 ha; rw [ih _ _ _ _ ha]; exact he
      · rename_i x ρ1 h1 ha; rw [ih _ _ _ _ ha]; exact he
      · cases he
    | adjust2 e z =>
      rw [eval] at he ⊢
      split at he
      · cases he
      · rename_i v ρ1 h1 ha
        rw [ih _ _ _ _ ha]; simp only
        split at he
        · cases he
        · rename_i hlen
          rw [if_neg hlen]
          split at he
          · cases he
          · rename_i vz ρ2 h2 hz
            rw [ih _ _ _ _ hz]; exact he

/-- a successful evaluation at depth bound `n` gives the same answer at every bound `m ≥ n` -/
theorem eval_fuel_le (c : Cfg) {n m : Nat} (hle : n ≤ m) : Mono (eval c n) (eval c m) := by
  induction hle with
  | refl => intro e ρ h r he; exact he
  | step _ ih => intro e ρ h r he; exact eval_mono c _ _ _ _ _ (ih _ _ _ _ he)

end EPV.Scope

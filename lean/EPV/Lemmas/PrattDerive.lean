/-
C04 helper: `Consistent T G bp` — the operator table `T` (binding powers, from the code) realises
the level table `G` (from the W3C grammar) through a strictly increasing map `bp` from levels to
binding powers — and the bridge from the binding-power invariant `WFr` to the grammar-level
well-formedness `wf false G` (relaxed derivation).
-/
import EPV.Lemmas.PrattInv
namespace EPV.Pratt
open EPV.Syn

/-- allowed first token of a lookup key: name, integer, or a symbol whose `nud` is a parenthesis -/
def keyCode (T : Tbl) (code : Nat) : Bool :=
  code == 2 || code == 4 || code == 16 || code == 14 ||
    (code % 2 == 1 && match T.nud (code / 2) with | .group _ _ => true | _ => false)

/-- symbol `o`: what the table says it does agrees with its level and kind in the grammar.
`bp` maps levels to *doubled* binding powers: an infix/typed level whose symbols have lbp = led-rbp = `b`
has `bp = 2b`, a prefix level whose symbols have nud-rbp `r` has `bp = 2r + 1` (a prefix operator with
rbp `r` sits strictly between the operators with lbp ≤ r, which may follow it, and those with lbp > r,
which its operand absorbs).  `K` is the largest lbp of the modelled operator symbols (= the rbp of the
lookup operator). -/
def rowOk (T : Tbl) (G : Gram) (bp : Nat → Nat) (K : Nat) (o : Nat) : Bool :=
  (match T.led o with
   | .infix r _ rhs =>
      match G.led o with
      | some (j, .left) =>
          decide (j < G.top) && 2 * T.lbp o == bp j && r == T.lbp o && G.lkind j == some .left && decide (T.lbp o ≤ K)
      | some (j, .none) =>
          decide (j < G.top) && 2 * T.lbp o == bp j && r == T.lbp o && G.lkind j == some .none && decide (T.lbp o ≤ K)
      | some (j, .key) =>
          decide (j + 1 = G.top) && decide (bp j ≤ 2 * T.lbp o) && r == K && G.lkind j == some .postfix &&
            decide (T.lbp o ≤ K) && !rhs.isEmpty && rhs.all (keyCode T)
      | _ => false
   | .typed _ =>
      match G.led o with
      | some (j, .typed) =>
          decide (j < G.top) && 2 * T.lbp o == bp j && G.lkind j == some .typed && decide (T.lbp o ≤ K)
      | _ => false
   | .bracket c eo _ =>
      match G.led o with
      | some (j, .bracket c' eo') =>
          c == c' && eo == eo' && decide (j + 1 = G.top) && decide (bp j ≤ 2 * T.lbp o) &&
            G.lkind j == some .postfix && decide (T.lbp o ≤ K)
      | _ => false
   | .arrow sr ar _ g =>
      match G.led o with
      | some (j, .arrow) =>
          decide (j + 1 < G.top) && 2 * T.lbp o == bp j && ar == T.lbp o && G.lkind j == some .left &&
            decide (T.lbp o ≤ K) && decide (T.lbp o ≤ sr) && decide (sr ≤ K) &&
            (match T.nud g with | .group _ _ => true | _ => false) && decide (T.lbp g ≤ sr)
      | _ => false
   | .none => true
   | .other => true) &&
  (match T.nud o with
   | .prefix r rhs =>
      match G.pre o with
      | some j => !G.ulk o && decide (j < G.top) && 2 * r + 1 == bp j && G.lkind j == some .prefix && decide (r ≤ K)
      | none => G.ulk o && r == K && !rhs.isEmpty && rhs.all (keyCode T)
   | .group c eo => G.grp o == some (c, eo)
   | .none => true
   | .other => true)

/-- The table realises the grammar: every modelled symbol sits at its grammar level with the binding
power of that level (`led`-rbp = lbp = `bp level` for infix symbols, `nud`-rbp = `bp level` for prefix
symbols; brackets and lookup in the last level with lbp ≥ `bp` of that level, lookup rbp = the largest
lbp), and `bp` is strictly increasing. -/
structure Consistent (T : Tbl) (G : Gram) (bp : Nat → Nat) (K : Nat) : Prop where
  rows : ∀ o, rowOk T G bp K o = true
  mono : ∀ i, i + 1 < G.top → bp i < bp (i + 1)

namespace Consistent
variable {T : Tbl} {G : Gram} {bp : Nat → Nat} {K : Nat}

theorem lt (hc : Consistent T G bp K) : ∀ j i, i < j → j < G.top → bp i < bp j := by
  intro j
  induction j with
  | zero => intro i h; omega
  | succ j ih =>
    intro i hij hj
    have h1 := hc.mono j hj
    by_cases h : i = j
    · subst h; exact h1
    · have := ih i (by omega) (by omega); omega

theorem le_of_bp_le (hc : Consistent T G bp K) {i j : Nat} (hi : i < G.top) (_hj : j < G.top)
    (h : bp i ≤ bp j) : i ≤ j := by
  by_cases hij : i ≤ j
  · exact hij
  · have := hc.lt i j (by omega) hi; omega

theorem lt_of_bp_lt (hc : Consistent T G bp K) {i j : Nat} (hi : i < G.top) (_hj : j < G.top)
    (h : bp i < bp j) : i < j := by
  by_cases hij : i < j
  · exact hij
  · have hji : j ≤ i := by omega
    by_cases he : j = i
    · subst he; omega
    · have := hc.lt i j (by omega) hi; omega

/-- what `rowOk` says about an infix symbol -/
theorem infix_info (hc : Consistent T G bp K) {o r : Nat} {deny rhs : List Nat}
    (hled : T.led o = .infix r deny rhs) :
    ∃ j k, G.led o = some (j, k) ∧ j < G.top ∧ T.lbp o ≤ K ∧
      ((k = .left ∧ G.lkind j = some .left ∧ 2 * T.lbp o = bp j ∧ r = T.lbp o) ∨
       (k = .none ∧ G.lkind j = some .none ∧ 2 * T.lbp o = bp j ∧ r = T.lbp o) ∨
       (k = .key ∧ j + 1 = G.top ∧ G.lkind j = some .postfix ∧ bp j ≤ 2 * T.lbp o ∧ r = K ∧ rhs ≠ [] ∧
          ∀ c ∈ rhs, keyCode T c = true)) := by
  have h := hc.rows o
  simp only [rowOk, hled, Bool.and_eq_true] at h
  obtain ⟨h, -⟩ := h
  split at h
  · rename_i j hg
    simp only [Bool.and_eq_true, decide_eq_true_eq, beq_iff_eq] at h
    exact ⟨j, .left, hg, h.1.1.1.1, h.2, Or.inl ⟨rfl, h.1.2, h.1.1.1.2, h.1.1.2⟩⟩
  · rename_i j hg
    simp only [Bool.and_eq_true, decide_eq_true_eq, beq_iff_eq] at h
    exact ⟨j, .none, hg, h.1.1.1.1, h.2, Or.inr (Or.inl ⟨rfl, h.1.2, h.1.1.1.2, h.1.1.2⟩)⟩
  · rename_i j hg
    simp only [Bool.and_eq_true, decide_eq_true_eq, beq_iff_eq, Bool.not_eq_true',
      List.isEmpty_eq_false_iff, List.all_eq_true] at h
    obtain ⟨⟨⟨⟨⟨⟨h1, h2⟩, h3⟩, h4⟩, h5⟩, h6⟩, h7⟩ := h
    exact ⟨j, .key, hg, by omega, h5, Or.inr (Or.inr ⟨rfl, h1, h4, h2, h3, h6, h7⟩)⟩
  · simp at h

theorem typed_info (hc : Consistent T G bp K) {o : Nat} {deny : List Nat} (hled : T.led o = .typed deny) :
    ∃ j, G.led o = some (j, .typed) ∧ j < G.top ∧ 2 * T.lbp o = bp j ∧ G.lkind j = some .typed ∧ T.lbp o ≤ K := by
  have h := hc.rows o
  simp only [rowOk, hled, Bool.and_eq_true] at h
  obtain ⟨h, -⟩ := h
  split at h
  · rename_i j hg
    simp only [Bool.and_eq_true, decide_eq_true_eq, beq_iff_eq] at h
    exact ⟨j, hg, h.1.1.1, h.1.1.2, h.1.2, h.2⟩
  · simp at h

theorem bracket_info (hc : Consistent T G bp K) {o c : Nat} {eo : Bool} {deny : List Nat}
    (hled : T.led o = .bracket c eo deny) :
    ∃ j, G.led o = some (j, .bracket c eo) ∧ j + 1 = G.top ∧ bp j ≤ 2 * T.lbp o ∧ G.lkind j = some .postfix ∧
      T.lbp o ≤ K := by
  have h := hc.rows o
  simp only [rowOk, hled, Bool.and_eq_true] at h
  obtain ⟨h, -⟩ := h
  split at h
  · rename_i j c' eo' hg
    simp only [Bool.and_eq_true, decide_eq_true_eq, beq_iff_eq] at h
    obtain ⟨⟨⟨⟨⟨rfl, rfl⟩, h3⟩, h4⟩, h5⟩, h6⟩ := h
    exact ⟨j, hg, h3, h4, h5, h6⟩
  · simp at h

/-- what `rowOk` says about the arrow symbol: a left-associative level below the postfix level; the specifier is
parsed with an rbp between the arrow's lbp and the largest lbp, which the opening parenthesis does not exceed -/
theorem arrow_info (hc : Consistent T G bp K) {o sr ar g : Nat} {start : List Nat}
    (hled : T.led o = .arrow sr ar start g) :
    ∃ j, G.led o = some (j, .arrow) ∧ j + 1 < G.top ∧ 2 * T.lbp o = bp j ∧ ar = T.lbp o ∧ G.lkind j = some .left ∧
      T.lbp o ≤ K ∧ T.lbp o ≤ sr ∧ sr ≤ K ∧ (∃ c eo, T.nud g = .group c eo) ∧ T.lbp g ≤ sr := by
  have h := hc.rows o
  simp only [rowOk, hled, Bool.and_eq_true] at h
  obtain ⟨h, -⟩ := h
  split at h
  · rename_i j hg
    simp only [Bool.and_eq_true, decide_eq_true_eq, beq_iff_eq] at h
    obtain ⟨⟨⟨⟨⟨⟨⟨⟨h1, h2⟩, h3⟩, h4⟩, h5⟩, h6⟩, h7⟩, h8⟩, h9⟩ := h
    refine ⟨j, hg, h1, h2, h3, h4, h5, h6, h7, ?_, h9⟩
    cases hn : T.nud g <;> simp [hn] at h8
    exact ⟨_, _, rfl⟩
  · simp at h

/-- what `rowOk` says about a prefix symbol: an ordinary prefix operator of a prefix level, or the unary lookup
(a primary: its rbp is the largest binding power and its next-token check admits key specifiers only) -/
theorem prefix_info (hc : Consistent T G bp K) {p r : Nat} {rhs : List Nat} (hnud : T.nud p = .prefix r rhs) :
    (∃ j, G.ulk p = false ∧ G.pre p = some j ∧ j < G.top ∧ 2 * r + 1 = bp j ∧ G.lkind j = some .prefix ∧ r ≤ K) ∨
    (G.ulk p = true ∧ r = K ∧ rhs ≠ [] ∧ ∀ c ∈ rhs, keyCode T c = true) := by
  have h := hc.rows p
  simp only [rowOk, hnud, Bool.and_eq_true] at h
  obtain ⟨-, h⟩ := h
  split at h
  · rename_i j hg
    simp only [Bool.and_eq_true, decide_eq_true_eq, beq_iff_eq, Bool.not_eq_true'] at h
    exact Or.inl ⟨j, h.1.1.1.1, hg, h.1.1.1.2, h.1.1.2, h.1.2, h.2⟩
  · simp only [Bool.and_eq_true, beq_iff_eq, Bool.not_eq_true', List.isEmpty_eq_false_iff, List.all_eq_true] at h
    exact Or.inr ⟨h.1.1.1, h.1.1.2, h.1.2, h.2⟩

theorem group_info (hc : Consistent T G bp K) {g c : Nat} {eo : Bool} (hnud : T.nud g = .group c eo) :
    G.grp g = some (c, eo) := by
  have h := hc.rows g
  simp only [rowOk, hnud, Bool.and_eq_true] at h
  simpa using h.2

end Consistent

/-- level, kind-of-level and lbp bound of the top operator of a `WFr` tree -/
theorem top_info {T : Tbl} {G : Gram} {bp : Nat → Nat} {K : Nat} (hc : Consistent T G bp K) :
    ∀ t, WFr T t → lvl G t < G.top →
      (t.isTyped = true ∧ G.lkind (lvl G t) = some .typed) ∨
      (t.isPre = true ∧ G.lkind (lvl G t) = some .prefix) ∨
      (t.isTyped = false ∧ t.isPre = false ∧ G.lkind (lvl G t) ≠ some .typed ∧ G.lkind (lvl G t) ≠ some .prefix) := by
  intro t h hlt
  cases t with
  | nil => simp [lvl] at hlt
  | atom => simp [lvl] at hlt
  | group => simp [lvl] at hlt
  | pre p x =>
    cases hn : T.nud p <;> simp only [WFr, hn] at h
    rcases hc.prefix_info hn with ⟨j, hu, hg, hj, -, hk, -⟩ | ⟨hu, -⟩
    · right; left; simp [lvl, hu, hg, hk, Tree.isPre]
    · simp [lvl, hu] at hlt
  | bin o l r =>
    cases hl : T.led o <;> simp only [WFr, hl] at h
    obtain ⟨j, k, hg, hj, -, hk⟩ := hc.infix_info hl
    right; right
    rcases hk with ⟨-, hk, -⟩ | ⟨-, hk, -⟩ | ⟨-, -, hk, -⟩ <;> simp [lvl, hg, hk, Tree.isTyped, Tree.isPre]
  | typed o l n =>
    cases hl : T.led o <;> simp only [WFr, hl] at h
    obtain ⟨j, hg, hj, -, hk, -⟩ := hc.typed_info hl
    left; simp [lvl, hg, hk, Tree.isTyped]
  | post o c l e =>
    cases hl : T.led o <;> simp only [WFr, hl] at h
    obtain ⟨j, hg, hj, -, hk, -⟩ := hc.bracket_info hl
    right; right; simp [lvl, hg, hk, Tree.isTyped, Tree.isPre]
  | arrow o l f a =>
    cases hl : T.led o <;> simp only [WFr, hl] at h
    obtain ⟨j, hg, hj, -, -, hk, -⟩ := hc.arrow_info hl
    right; right; simp [lvl, hg, hk, Tree.isTyped, Tree.isPre]

/-- left operand: the next operator's lbp is at most the closing rbp, hence its level is at most the
level of the operand's top — unless the operand is closed by a type (typed operator) -/
theorem left_level {T : Tbl} {G : Gram} {bp : Nat → Nat} {K : Nat} (hc : Consistent T G bp K)
    {j b : Nat} (hj : j < G.top) (hb : bp j ≤ 2 * b) :
    ∀ l, WFr T l → leO b (rclose T l) → j ≤ lvl G l ∨ l.isTyped = true := by
  intro l h hle
  cases l with
  | nil => simp [WFr] at h
  | atom => left; simp [lvl]; omega
  | group => left; simp [lvl]; omega
  | pre p x =>
    cases hn : T.nud p <;> simp only [WFr, hn] at h
    left
    rcases hc.prefix_info hn with ⟨j', hu, hg, hj', hr, -⟩ | ⟨hu, -⟩
    · simp only [rclose, nudRbp, hn, leO] at hle
      have := hc.le_of_bp_le hj hj' (by omega)
      simpa [lvl, hu, hg] using this
    · simp [lvl, hu]; omega
  | bin o l r =>
    cases hl : T.led o <;> simp only [WFr, hl] at h
    obtain ⟨j', k, hg, hj', -, hk⟩ := hc.infix_info hl
    left
    simp only [rclose, ledRbp, hl, leO] at hle
    rcases hk with ⟨-, -, hb', rfl⟩ | ⟨-, -, hb', rfl⟩ | ⟨-, hj1, -⟩
    · have := hc.le_of_bp_le hj hj' (by omega)
      simpa [lvl, hg] using this
    · have := hc.le_of_bp_le hj hj' (by omega)
      simpa [lvl, hg] using this
    · simp [lvl, hg]; omega
  | typed => right; rfl
  | post o c l e =>
    cases hl : T.led o <;> simp only [WFr, hl] at h
    obtain ⟨j', hg, hj', -⟩ := hc.bracket_info hl
    left; simp [lvl, hg]; omega
  | arrow o l f a =>
    cases hl : T.led o <;> simp only [WFr, hl] at h
    obtain ⟨j', hg, hj', hb', rfl, -⟩ := hc.arrow_info hl
    left
    simp only [rclose, ledRbp, hl, leO] at hle
    have hj'' : j' < G.top := by omega
    have := hc.le_of_bp_le hj hj'' (by omega)
    simpa [lvl, hg] using this

/-- right operand / prefix operand: parsed by `expression(bp j)` with `j` not the postfix level, hence
of a strictly higher level — unless it is a prefix-operator expression -/
theorem right_level {T : Tbl} {G : Gram} {bp : Nat → Nat} {K : Nat} (hc : Consistent T G bp K)
    {j b : Nat} (hj : j < G.top) (hk : G.lkind j ≠ some .postfix) (hb : bp j ≤ 2 * b + 1) :
    ∀ r, WFr T r → gtO b (lbpTop T r) → j + 1 ≤ lvl G r ∨ r.isPre = true := by
  intro r h hgt
  cases r with
  | nil => simp [WFr] at h
  | atom => left; simp [lvl]; omega
  | group => left; simp [lvl]; omega
  | pre => right; rfl
  | bin o l r =>
    cases hl : T.led o <;> simp only [WFr, hl] at h
    obtain ⟨j', k, hg, hj', -, hkk⟩ := hc.infix_info hl
    left
    simp only [lbpTop, gtO] at hgt
    rcases hkk with ⟨-, -, hb', -⟩ | ⟨-, -, hb', -⟩ | ⟨-, hj1, hpk, -⟩
    · have := hc.lt_of_bp_lt hj hj' (by omega)
      simp [lvl, hg]; omega
    · have := hc.lt_of_bp_lt hj hj' (by omega)
      simp [lvl, hg]; omega
    · have : j ≠ j' := by intro he; subst he; exact hk hpk
      simp [lvl, hg]; omega
  | typed o l n =>
    cases hl : T.led o <;> simp only [WFr, hl] at h
    obtain ⟨j', hg, hj', hb', -⟩ := hc.typed_info hl
    left
    simp only [lbpTop, gtO] at hgt
    have := hc.lt_of_bp_lt hj hj' (by omega)
    simp [lvl, hg]; omega
  | post o c l e =>
    cases hl : T.led o <;> simp only [WFr, hl] at h
    obtain ⟨j', hg, hj', -, hpk, -⟩ := hc.bracket_info hl
    left
    have : j ≠ j' := by intro he; subst he; exact hk hpk
    simp [lvl, hg]; omega
  | arrow o l f a =>
    cases hl : T.led o <;> simp only [WFr, hl] at h
    obtain ⟨j', hg, hj', hb', -⟩ := hc.arrow_info hl
    left
    simp only [lbpTop, gtO] at hgt
    have hj'' : j' < G.top := by omega
    have := hc.lt_of_bp_lt hj hj'' (by omega)
    simp [lvl, hg]; omega

/-- a lookup key parsed by the model is a KeySpecifier -/
theorem key_spec {T : Tbl} {G : Gram} {bp : Nat → Nat} {K : Nat} (hc : Consistent T G bp K)
    {rhs : List Nat} (hne : rhs ≠ []) (hall : ∀ c ∈ rhs, keyCode T c = true) :
    ∀ r, WFr T r → gtO K (lbpTop T r) → rhsOk rhs r.yield = true → r.isKeySpec = true := by
  intro r h hgt hrhs
  have hmem : tokCode r.yield ∈ rhs := by
    simp only [rhsOk, Bool.or_eq_true, List.isEmpty_iff, List.contains_iff_mem] at hrhs
    rcases hrhs with h1 | h1
    · exact absurd h1 hne
    · exact h1
  have hk := hall _ hmem
  cases r with
  | nil => simp [WFr] at h
  | atom k n =>
    simp only [Tree.yield, tokCode, keyCode, Bool.or_eq_true, beq_iff_eq, Bool.and_eq_true] at hk
    simp only [Tree.isKeySpec, Bool.or_eq_true, beq_iff_eq]
    rcases hk with (((h1 | h1) | h1) | h1) | ⟨h1, -⟩
    · left; left; left; omega
    · left; left; right; omega
    · left; right; omega
    · right; omega
    · omega
  | group => rfl
  | pre p x =>
    exfalso
    cases hn : T.nud p <;> simp only [WFr, hn] at h
    simp only [Tree.yield, tokCode, keyCode, Bool.or_eq_true, beq_iff_eq, Bool.and_eq_true] at hk
    rcases hk with (((h1 | h1) | h1) | h1) | ⟨-, h2⟩
    · omega
    · omega
    · omega
    · omega
    · have : (2 * p + 1) / 2 = p := by omega
      simp [this, hn] at h2
  | bin o l r =>
    exfalso
    cases hl : T.led o <;> simp only [WFr, hl] at h
    obtain ⟨j', k, hg, hj', hb, -⟩ := hc.infix_info hl
    simp only [lbpTop, gtO] at hgt
    omega
  | typed o l n =>
    exfalso
    cases hl : T.led o <;> simp only [WFr, hl] at h
    obtain ⟨j', hg, hj', -, -, hb⟩ := hc.typed_info hl
    simp only [lbpTop, gtO] at hgt
    omega
  | post o c l e =>
    exfalso
    cases hl : T.led o <;> simp only [WFr, hl] at h
    obtain ⟨j', hg, hj', -, -, hb⟩ := hc.bracket_info hl
    simp only [lbpTop, gtO] at hgt
    omega
  | arrow o l f a =>
    exfalso
    cases hl : T.led o <;> simp only [WFr, hl] at h
    obtain ⟨j', hg, hj', -, -, -, hb, -⟩ := hc.arrow_info hl
    simp only [lbpTop, gtO] at hgt
    omega

/-- **bridge**: under `Consistent`, the binding-power invariant implies well-formedness in the
relaxed grammar -/
theorem wfr_relaxed {T : Tbl} {G : Gram} {bp : Nat → Nat} {K : Nat} (hc : Consistent T G bp K) :
    ∀ t, WFr T t → wf false G t = true := by
  intro t
  induction t with
  | nil => intro h; simp [WFr] at h
  | atom => intro _; simp [wf]
  | group g c e ih =>
    intro h
    cases hn : T.nud g <;> simp only [WFr, hn] at h
    rename_i c' eo
    have hg := hc.group_info hn
    obtain ⟨rfl, h⟩ := h
    simp only [wf, hg, beq_self_eq_true, Bool.true_and, Bool.or_eq_true, Bool.and_eq_true]
    rcases h with ⟨rfl, heo⟩ | h
    · left; exact ⟨rfl, heo⟩
    · right; exact ih h
  | pre p x ih =>
    intro h
    cases hn : T.nud p <;> simp only [WFr, hn] at h
    rcases hc.prefix_info hn with ⟨j, hu, hg, hj, hb, hpk, -⟩ | ⟨hu, rfl, hne, hall⟩
    · have hr := right_level hc hj (by rw [hpk]; simp) (by omega) x h.1 h.2.1
      simp only [wf, hu, hg, Bool.false_eq_true, if_false, Bool.not_false, Bool.true_and, Bool.and_eq_true, Bool.or_eq_true,
        decide_eq_true_eq]
      refine ⟨?_, ih h.1⟩
      rcases hr with hr | hr
      · left; omega
      · right; exact hr
    · have hks := key_spec hc hne hall x h.1 h.2.1 h.2.2
      simp only [wf, hu, if_true, Bool.and_eq_true]
      exact ⟨hks, ih h.1⟩
  | bin o l r ihl ihr =>
    intro h
    cases hl : T.led o <;> simp only [WFr, hl] at h
    rename_i rb deny rhs
    obtain ⟨j, k, hg, hj, -, hk⟩ := hc.infix_info hl
    obtain ⟨hwl, hwr, hle, hgt, -, hrhs⟩ := h
    rcases hk with ⟨rfl, hlk, hb, rfl⟩ | ⟨rfl, hlk, hb, rfl⟩ | ⟨rfl, hj1, -, hb, rfl, hne, hall⟩
    · have hL := left_level hc hj (by omega) l hwl hle
      have hR := right_level hc hj (by rw [hlk]; simp) (by omega) r hwr hgt
      have hLb : (decide (j ≤ lvl G l) || l.isTyped) = true := by
        rcases hL with h1 | h1 <;> simp [h1]
      have hRb : (decide (j + 1 ≤ lvl G r) || r.isPre) = true := by
        rcases hR with h1 | h1 <;> simp [h1]
      simp only [wf, hg, Bool.not_false, Bool.true_and, Bool.and_eq_true]
      exact ⟨⟨⟨hLb, hRb⟩, ihl hwl⟩, ihr hwr⟩
    · have hL := left_level hc hj (by omega) l hwl hle
      have hR := right_level hc hj (by rw [hlk]; simp) (by omega) r hwr hgt
      have hLb : (decide (j ≤ lvl G l) || l.isTyped) = true := by
        rcases hL with h1 | h1 <;> simp [h1]
      have hRb : (decide (j + 1 ≤ lvl G r) || r.isPre) = true := by
        rcases hR with h1 | h1 <;> simp [h1]
      simp only [wf, hg, Bool.not_false, Bool.true_and, Bool.and_eq_true, Bool.false_eq_true, if_false]
      exact ⟨⟨⟨hLb, hRb⟩, ihl hwl⟩, ihr hwr⟩
    · have hL := left_level hc hj hb l hwl hle
      have hLb : (decide (j ≤ lvl G l) || l.isTyped) = true := by
        rcases hL with h1 | h1 <;> simp [h1]
      have hks := key_spec hc hne hall r hwr hgt hrhs
      simp only [wf, hg, Bool.not_false, Bool.true_and, Bool.and_eq_true]
      exact ⟨⟨⟨hLb, hks⟩, ihl hwl⟩, ihr hwr⟩
  | typed o l n ih =>
    intro h
    cases hl : T.led o <;> simp only [WFr, hl] at h
    obtain ⟨j, hg, hj, hb, hk, -⟩ := hc.typed_info hl
    obtain ⟨hwl, hle, -⟩ := h
    have hL := left_level hc hj (by omega) l hwl hle
    simp only [wf, hg, Bool.not_false, Bool.true_and, Bool.and_eq_true, Bool.or_eq_true, decide_eq_true_eq]
    refine ⟨?_, ih hwl⟩
    rcases hL with h1 | h1
    · by_cases hty : l.isTyped = true
      · right; exact hty
      · left
        by_cases hlt : lvl G l < G.top
        · rcases top_info hc l hwl hlt with ⟨h2, -⟩ | ⟨-, h2⟩ | ⟨-, -, h2, -⟩
          · exact absurd h2 hty
          · by_cases he : lvl G l = j
            · rw [he, hk] at h2; simp at h2
            · omega
          · by_cases he : lvl G l = j
            · rw [he] at h2; exact absurd hk h2
            · omega
        · omega
    · right; exact h1
  | post o c l e ihl ihe =>
    intro h
    cases hl : T.led o <;> simp only [WFr, hl] at h
    rename_i c' eo deny
    obtain ⟨j, hg, hj, hb, -⟩ := hc.bracket_info hl
    obtain ⟨rfl, hwl, hle, -, he⟩ := h
    have hL := left_level hc (by omega) hb l hwl hle
    have hLb : (decide (j ≤ lvl G l) || l.isTyped) = true := by
      rcases hL with h1 | h1 <;> simp [h1]
    simp only [wf, hg, beq_self_eq_true, Bool.not_false, Bool.true_and, Bool.and_eq_true, Bool.or_eq_true]
    refine ⟨⟨?_, ihl hwl⟩, ?_⟩
    · simpa using hLb
    · rcases he with ⟨rfl, heo⟩ | he
      · left; exact ⟨rfl, heo⟩
      · right; exact ihe he
  | arrow o l f a ihl ihf iha =>
    intro h
    cases hl : T.led o <;> simp only [WFr, hl] at h
    rename_i sr ar start g
    obtain ⟨j, hg, hj, hb, rfl, hlk, -, hsr, -⟩ := hc.arrow_info hl
    obtain ⟨hwl, hwf, hwa, hle, hgtf, hgta, -, -⟩ := h
    have hL := left_level hc (j := j) (by omega) (by omega) l hwl hle
    have hF := right_level hc (j := j) (by omega) (by rw [hlk]; simp) (by omega) f hwf hgtf
    have hA := right_level hc (j := j) (by omega) (by rw [hlk]; simp) (by omega) a hwa hgta
    have hLb : (decide (j ≤ lvl G l) || l.isTyped) = true := by
      rcases hL with h1 | h1 <;> simp [h1]
    have hFb : (f.isArrowSpec || (decide (j + 1 ≤ lvl G f) || f.isPre)) = true := by
      rcases hF with h1 | h1 <;> simp [h1]
    have hAb : (a.isGroup || (decide (j + 1 ≤ lvl G a) || a.isPre)) = true := by
      rcases hA with h1 | h1 <;> simp [h1]
    simp only [wf, hg, Bool.not_false, Bool.true_and, Bool.and_eq_true]
    exact ⟨⟨⟨⟨⟨hLb, hFb⟩, hAb⟩, ihl hwl⟩, ihf hwf⟩, iha hwa⟩

end EPV.Pratt

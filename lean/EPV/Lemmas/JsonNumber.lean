/-
C17 helper lemmas: decimal digits of integers (`int.__repr__`) and the RFC 8259 number reader.
-/
import EPV.Model.Json
namespace EPV.Json

theorem digitsVal_append_single (l : List Nat) (d : Nat) : digitsVal (l ++ [d]) = 10 * digitsVal l + d := by
  simp [digitsVal, List.foldl_append]

theorem natDigitsF_val : ∀ f n, n < f → digitsVal (natDigitsF f n) = n := by
  intro f
  induction f with
  | zero => intro n h; omega
  | succ f ih =>
    intro n h
    unfold natDigitsF
    by_cases h10 : n < 10
    · simp [h10, digitsVal]
    · simp only [h10, if_false]
      rw [digitsVal_append_single, ih (n / 10) (by omega)]
      omega

theorem natDigitsF_lt10 : ∀ f n, ∀ d ∈ natDigitsF f n, d < 10 := by
  intro f
  induction f with
  | zero => intro n d h; simp [natDigitsF] at h
  | succ f ih =>
    intro n d h
    unfold natDigitsF at h
    by_cases h10 : n < 10
    · simp [h10] at h; omega
    · simp only [h10, if_false, List.mem_append, List.mem_singleton] at h
      rcases h with h | h
      · exact ih _ _ h
      · omega

theorem natDigitsF_ne_nil : ∀ f n, n < f → natDigitsF f n ≠ [] := by
  intro f n h
  cases f with
  | zero => omega
  | succ f =>
    unfold natDigitsF
    by_cases h10 : n < 10 <;> simp [h10]

theorem natDigitsF_head : ∀ f n, n < f → (natDigitsF f n).head? = some 0 → n = 0 := by
  intro f
  induction f with
  | zero => intro n h; omega
  | succ f ih =>
    intro n h hh
    unfold natDigitsF at hh
    by_cases h10 : n < 10
    · simp [h10] at hh; exact hh
    · simp only [h10, if_false] at hh
      have hne := natDigitsF_ne_nil f (n / 10) (by omega)
      rw [List.head?_append] at hh
      cases hx : natDigitsF f (n / 10) with
      | nil => exact absurd hx hne
      | cons a b =>
      rw [hx] at hh
      have hh' : (natDigitsF f (n / 10)).head? = some 0 := by rw [hx]; simpa using hh
      have := ih (n / 10) (by omega) hh'
      omega

theorem natDigitsF_length_one : ∀ f n, n < f → (natDigitsF f n).length = 1 → n < 10 := by
  intro f n h hl
  cases f with
  | zero => omega
  | succ f =>
    unfold natDigitsF at hl
    by_cases h10 : n < 10
    · exact h10
    · simp only [h10, if_false, List.length_append, List.length_cons, List.length_nil] at hl
      have hne := natDigitsF_ne_nil f (n / 10) (by omega)
      cases hx : natDigitsF f (n / 10) with
      | nil => exact absurd hx hne
      | cons a b => rw [hx] at hl; simp at hl

theorem natDigits_val (n : Nat) : digitsVal (natDigits n) = n := natDigitsF_val _ _ (Nat.lt_succ_self n)
theorem natDigits_lt10 (n : Nat) : ∀ d ∈ natDigits n, d < 10 := natDigitsF_lt10 _ _
theorem natDigits_ne_nil (n : Nat) : natDigits n ≠ [] := natDigitsF_ne_nil _ _ (Nat.lt_succ_self n)

/-- no leading zero: `int = zero / ( digit1-9 *DIGIT )` -/
theorem natDigits_no_leading_zero (n : Nat) : ¬ (1 < (natDigits n).length ∧ (natDigits n).head? = some 0) := by
  intro ⟨hl, hh⟩
  have h0 := natDigitsF_head _ _ (Nat.lt_succ_self n) hh
  subst h0
  simp [natDigits, natDigitsF] at hl

/-- what may follow a number in a JSON text: nothing, or a character that cannot continue the number -/
def numEnd : Str → Prop
  | [] => True
  | c :: _ => isDigit c = false ∧ c ≠ 46 ∧ c ≠ 101 ∧ c ≠ 69

/-- the text does not continue with a digit -/
def headNotDigit : Str → Prop
  | [] => True
  | c :: _ => isDigit c = false

theorem headNotDigit_of_numEnd (rest : Str) (h : numEnd rest) : headNotDigit rest := by
  cases rest with
  | nil => trivial
  | cons c t => exact h.1

theorem spanDigits_digitChars (ds : List Nat) (hd : ∀ d ∈ ds, d < 10) (rest : Str)
    (hr : headNotDigit rest) :
    spanDigits (digitChars ds ++ rest) = (ds, rest) := by
  induction ds with
  | nil =>
    cases rest with
    | nil => rfl
    | cons c t =>
      have hr' : isDigit c = false := hr
      simp [digitChars, spanDigits, hr']
  | cons d t ih =>
    have hd' : d < 10 := hd d (by simp)
    have hdig : isDigit (48 + d) = true := by simp [isDigit]; omega
    have := ih (fun x hx => hd x (by simp [hx]))
    simp only [digitChars, List.map_cons, List.cons_append, spanDigits, hdig, if_true]
    simp only [digitChars] at this
    rw [this]
    simp

theorem parseFrac_end (rest : Str) (h : numEnd rest) : parseFrac rest = some (none, rest) := by
  cases rest with
  | nil => rfl
  | cons c t =>
    have : c ≠ 46 := h.2.1
    unfold parseFrac
    split
    · rename_i heq; cases heq; exact absurd rfl this
    · rfl

theorem parseExp_end (rest : Str) (h : numEnd rest) : parseExp rest = some (none, rest) := by
  cases rest with
  | nil => rfl
  | cons c t =>
    have h1 : c ≠ 101 := h.2.2.1
    have h2 : c ≠ 69 := h.2.2.2
    simp [parseExp, h1, h2]

/-- RFC 8259 reader on `int.__repr__`: every integer, exactly -/
theorem parseNum_renderInt (n : Int) (rest : Str) (h : numEnd rest) :
    parseNum (renderInt n ++ rest) = some (.int n, rest) := by
  have hspan : spanDigits (digitChars (natDigits n.natAbs) ++ rest) = (natDigits n.natAbs, rest) :=
    spanDigits_digitChars _ (natDigits_lt10 _) rest (headNotDigit_of_numEnd rest h)
  have hne := natDigits_ne_nil n.natAbs
  have hlz := natDigits_no_leading_zero n.natAbs
  have hval := natDigits_val n.natAbs
  obtain ⟨d, t, hdt⟩ : ∃ d t, natDigits n.natAbs = d :: t := by
    cases hx : natDigits n.natAbs with
    | nil => exact absurd hx hne
    | cons d t => exact ⟨d, t, rfl⟩
  unfold parseNum renderInt
  by_cases hneg : n < 0
  · simp only [hneg, if_true, List.cons_append, parseSign]
    rw [hspan]
    simp only [hne, if_false, hlz, parseFrac_end rest h, parseExp_end rest h, hval]
    congr 2
    simp; omega
  · have hs : parseSign (digitChars (natDigits n.natAbs) ++ rest) = (false, digitChars (natDigits n.natAbs) ++ rest) := by
      rw [hdt]
      simp only [digitChars, List.map_cons, List.cons_append]
      unfold parseSign
      split
      · rename_i heq; simp at heq; omega
      · rfl
    simp only [hneg, if_false, hs]
    rw [hspan]
    simp only [hne, if_false, hlz, parseFrac_end rest h, parseExp_end rest h, hval]
    congr 2
    simp; omega

end EPV.Json

/-
C15 — the structural part of deep-equal.  The store of a copying run is well-founded (`StoreOK`:
objects mention only older addresses) and all its maps are duplicate-free (`MapsWF`), so the
fuel-bounded recursion `deepEqSeq` reaches the bottom: every value is deep-equal to itself.
-/
import EPV.Lemmas.MapArrayClosed
namespace EPV.MapArray

/-- every map object of the store is duplicate-free under the dict relation -/
def MapsWF (s : Store) : Prop := ∀ (a : Nat) (es : Entries Seq), s[a]? = some (Obj.map es) → WF es

theorem MapsWF_alloc {s : Store} (h : MapsWF s) (o : Obj) (ho : ∀ es, o = Obj.map es → WF es) :
    MapsWF (alloc s o).1 := by
  intro a es ha
  simp only [alloc] at ha
  by_cases hlt : a < s.length
  · rw [List.getElem?_append_left hlt] at ha; exact h a es ha
  · rw [List.getElem?_append_right (by omega)] at ha
    by_cases h0 : a - s.length = 0
    · rw [h0] at ha; simp at ha; exact ho es ha
    · have : ([o] : List Obj)[a - s.length]? = none := by
        apply List.getElem?_eq_none; simp; omega
      rw [this] at ha; cases ha

theorem MapsWF_allocMany_arr {s : Store} (h : MapsWF s) (l : List (List Seq)) :
    MapsWF (allocMany s (l.map Obj.arr)).1 := by
  induction l generalizing s with
  | nil => exact h
  | cons ms rest ih =>
    simp only [List.map_cons, allocMany]
    exact ih (MapsWF_alloc h _ (fun es he => by cases he))

theorem wf_same {s s' : Store} {v v' : Seq} (hM : MapsWF s)
    (h : (Except.ok (s, v) : Except Err (Store × Seq)) = .ok (s', v')) : MapsWF s' := by
  injection h with h; injection h with h1 h2; subst h1; exact hM

theorem wf_alloc_arr {s s' : Store} {ms : List Seq} {v' : Seq} (hM : MapsWF s)
    (h : (Except.ok (alloc s (Obj.arr ms)) : Except Err (Store × Seq)) = .ok (s', v')) : MapsWF s' := by
  injection h with h
  have := MapsWF_alloc hM (Obj.arr ms) (fun es he => by cases he)
  rw [h] at this; exact this

theorem wf_lift_arr {s s' : Store} {v : Seq} (hM : MapsWF s) {r : Except Err (List Seq)}
    (h : liftAlloc s (r.map Obj.arr) = .ok (s', v)) : MapsWF s' := by
  cases r with
  | error e => simp [liftAlloc, Except.map] at h
  | ok ms =>
    simp only [liftAlloc, Except.map, Except.ok.injEq] at h
    have := MapsWF_alloc hM (Obj.arr ms) (fun es he => by cases he)
    rw [h] at this; exact this

theorem wf_lift_map {s s' : Store} {v : Seq} (hM : MapsWF s) {r : Except Err (Entries Seq)}
    (hr : ∀ es, r = .ok es → WF es) (h : liftAlloc s (r.map Obj.map) = .ok (s', v)) : MapsWF s' := by
  cases r with
  | error e => simp [liftAlloc, Except.map] at h
  | ok es =>
    simp only [liftAlloc, Except.map, Except.ok.injEq] at h
    have := MapsWF_alloc hM (Obj.map es) (fun es' he => by injection he with he; subst he; exact hr es rfl)
    rw [h] at this; exact this

theorem mapMerge_WF {maps : List (Entries Seq)} {p : Policy} {es : Entries Seq}
    (h : mapMerge maps p = .ok es) : WF es := by
  unfold mapMerge at h
  cases hl : MapArray.mergeLoop p [] maps.flatten with
  | error x => rw [hl] at h; simp at h
  | ok items => rw [hl] at h; exact (mapCtor_ok h).1 ▸ (mapCtor_ok h).2

/-- the Python transcriptions only ever allocate duplicate-free maps -/
theorem evalOp_py_MapsWF (st : St) (hM : MapsWF st.store) (op : Op) (s' : Store) (v : Seq)
    (h : evalOp (pyDialect false) st op = .ok (s', v)) : MapsWF s' := by
  cases op <;> simp only [evalOp, pyDialect, writeBack, Bool.false_eq_true, ↓reduceIte] at h
  case mCtor es =>
    exact wf_lift_map hM (fun es' hes' => (mapCtor_ok hes').1 ▸ (mapCtor_ok hes').2) h
  case mEntry k vv =>
    exact wf_lift_map hM (fun es' hes' => (mapCtor_ok hes').1 ▸ (mapCtor_ok hes').2) h
  case mPut m k vv =>
    obtain ⟨es, _, h⟩ := bind_ok h
    exact wf_lift_map hM (fun es' hes' => by unfold mapPut at hes'; exact (mapCtor_ok hes').1 ▸ (mapCtor_ok hes').2) h
  case mRemove m ks =>
    obtain ⟨es, _, h⟩ := bind_ok h
    exact wf_lift_map hM (fun es' hes' => by unfold mapRemove at hes'; exact (mapCtor_ok hes').1 ▸ (mapCtor_ok hes').2) h
  case mMerge ms pol =>
    cases pol with
    | none => simp at h
    | some p =>
      simp only at h
      obtain ⟨maps, _, h⟩ := bind_ok h
      exact wf_lift_map hM (fun es' hes' => mapMerge_WF hes') h
  case mForEach m =>
    obtain ⟨es, _, h⟩ := bind_ok h
    injection h with h
    have := MapsWF_allocMany_arr hM (es.map fun e => [[Item.atom e.1], e.2])
    rw [List.map_map] at this
    rw [show (es.map fun e => Obj.arr [[Item.atom e.1], e.2]) = es.map (Obj.arr ∘ fun e => [[Item.atom e.1], e.2]) from rfl] at h
    rw [h] at this; exact this
  all_goals
    first
    | exact wf_same hM h
    | exact wf_alloc_arr hM h
    | exact wf_lift_arr hM h
    | (obtain ⟨_, _, h⟩ := bind_ok h
       first
       | exact wf_same hM h
       | exact wf_alloc_arr hM h
       | exact wf_lift_arr hM h
       | (obtain ⟨_, _, h⟩ := bind_ok h
          first
          | exact wf_same hM h
          | exact wf_alloc_arr hM h
          | exact wf_lift_arr hM h))

theorem run_py_MapsWF (st : St) (hM : MapsWF st.store) (ops : List Op) :
    MapsWF (run (pyDialect false) st ops).store := by
  induction ops generalizing st with
  | nil => exact hM
  | cons op rest ih =>
    simp only [run, List.foldl_cons]
    apply ih
    unfold step
    cases h : evalOp (pyDialect false) st op with
    | error e => exact hM
    | ok r => obtain ⟨s', v⟩ := r; exact evalOp_py_MapsWF st hM op s' v h

/-! reflexivity -/

theorem all_zip_self {α : Type} (l : List α) (f : α → α → Bool) :
    (l.zip l).all (fun p => f p.1 p.2) = l.all fun x => f x x := by
  induction l with
  | nil => rfl
  | cons x rest ih => simp only [List.zip_cons_cons, List.all_cons, ih]

theorem deepEq_refl (d : Dialect) (hatom : ∀ a, d.atomEq a a = true)
    (hmap : ∀ es : Entries Seq, WF es → ∀ e ∈ es, d.mapHas es e.1 = true ∧ d.mapGet es e.1 = e.2)
    (s : Store) (hs : StoreOK s) (hw : MapsWF s) (n : Nat) :
    n ≤ s.length → ∀ v : Seq, SeqOK n v → ∀ fuel, 2 * n + 1 ≤ fuel → deepEqSeq d s fuel v v = true := by
  induction n using Nat.strongRecOn with
  | ind n ih =>
    intro hn v hv fuel hf
    obtain ⟨f, rfl⟩ : ∃ f, fuel = f + 1 := ⟨fuel - 1, by omega⟩
    simp only [deepEqSeq, beq_self_eq_true, Bool.true_and, all_zip_self]
    rw [List.all_eq_true]
    intro it hit
    cases it with
    | atom k => simp only [deepEqItem]; exact hatom k
    | ref a =>
      have ha : a < n := hv _ hit
      obtain ⟨f', rfl⟩ : ∃ f', f = f' + 1 := ⟨f - 1, by omega⟩
      have hlt : a < s.length := by omega
      simp only [deepEqItem, List.getElem?_eq_getElem hlt]
      have hobj := hs a s[a] (List.getElem?_eq_getElem hlt)
      cases ho : s[a] with
      | arr ms =>
        rw [ho] at hobj
        simp only [beq_self_eq_true, Bool.true_and, all_zip_self]
        rw [List.all_eq_true]
        intro m hm
        exact ih a ha (by omega) m (hobj m hm) f' (by omega)
      | map es =>
        rw [ho] at hobj
        have hwf : WF es := hw a es (by rw [List.getElem?_eq_getElem hlt, ho])
        simp only [beq_self_eq_true, Bool.true_and]
        rw [List.all_eq_true]
        intro e he
        obtain ⟨h1, h2⟩ := hmap es hwf e he
        rw [h1, h2, Bool.true_and]
        exact ih a ha (by omega) e.2 (hobj e he) f' (by omega)

theorem py_map_self (es : Entries Seq) (hwf : WF es) (e : Key × Seq) (he : e ∈ es) :
    (pyDialect false).mapHas es e.1 = true ∧ (pyDialect false).mapGet es e.1 = e.2 := by
  constructor
  · simp only [pyDialect, dictHas]
    exact List.any_eq_true.2 ⟨e, he, dictEq_refl e.1⟩
  · exact mapGet_of_mem hwf he (dictEq_refl e.1)

end EPV.MapArray

/-
C15 — the structural part of deep-equal.  The store of a copying run is well-founded (`StoreOK`:
objects mention only older addresses) and all its maps are duplicate-free (`MapsWF`), so the
fuel-bounded recursion `deepEqSeq` reaches the bottom: every value is deep-equal to itself.
-/
import EPV.Lemmas.MapArrayClosed
namespace EPV.MapArray

/-- every map object of the store is duplicate-free under the dict relation -/
def MapsWF (s : Store) : Prop := ∀ (a : Nat) (es : Entries Seq), s[a]? = some (Obj.map es) → WF es

theorem MapsWF_alloc {s : Store} (h : MapsWF s) (o : Obj) (ho : ∀ es, o = Obj.map es → WF es) :
    MapsWF (alloc s o).1 := by
  intro a es ha
  simp only [alloc] at ha
  by_cases hlt : a < s.length
  · rw [List.getElem?_append_left hlt] at ha; exact h a es ha
  · rw [List.getElem?_append_right (by omega)] at ha
    by_cases h0 : a - s.length = 0
    · rw [h0] at ha; simp at ha; exact ho es ha
    · have : ([o] : List Obj)[a - s.length]? = none := by
        apply List.getElem?_eq_none; simp; omega
      rw [this] at ha; cases ha

theorem MapsWF_allocMany_arr {s : Store} (h : MapsWF s) (l : List (List Seq)) :
    MapsWF (allocMany s (l.map Obj.arr)).1 := by
  induction l generalizing s with
  | nil => exact h
  | cons ms rest ih =>
    simp only [List.map_cons, allocMany]
    exact ih (MapsWF_alloc h _ (fun es he => by cases he))

theorem wf_same {s s' : Store} {v v' : Seq} (hM : MapsWF s)
    (h : (Except.ok (s, v) : Except Err (Store × Seq)) = .ok (s', v')) : MapsWF s' := by
  injection h with h; injection h with h1 h2; subst h1; exact hM

theorem wf_alloc_arr {s s' : Store} {ms : List Seq} {v' : Seq} (hM : MapsWF s)
    (h : (Except.ok (alloc s (Obj.arr ms)) : Except Err (Store × Seq)) = .ok (s', v')) : MapsWF s' := by
  injection h with h
  have := MapsWF_alloc hM (Obj.arr ms) (fun es he => by cases he)
  rw [h] at this; exact this

theorem wf_lift_arr {s s' : Store} {v : Seq} (hM : MapsWF s) {r : Except Err (List Seq)}
    (h : liftAlloc s (r.map Obj.arr) = .ok (s', v)) : MapsWF s' := by
  cases r with
  | error e => simp [liftAlloc, Except.map] at h
  | ok ms =>
    simp only [liftAlloc, Except.map, Except.ok.injEq] at h
    have := MapsWF_alloc hM (Obj.arr ms) (fun es he => by cases he)
    rw [h] at this; exact this

theorem wf_lift_map {s s' : Store} {v : Seq} (hM : MapsWF s) {r : Except Err (Entries Seq)}
    (hr : ∀ es, r = .ok es → WF es) (h : liftAlloc s (r.map Obj.map) = .ok (s', v)) : MapsWF s' := by
  cases r with
  | error e => simp [liftAlloc, Except.map] at h
  | ok es =>
    simp only [liftAlloc, Except.map, Except.ok.injEq] at h
    have := MapsWF_alloc hM (Obj.map es) (fun es' he => by injection he with he; subst he; exact hr es rfl)
    rw [h] at this; exact this

theorem mapMerge_WF {maps : List (Entries Seq)} {p : Policy} {es : Entries Seq}
    (h : mapMerge maps p = .ok es) : WF es := by
  unfold mapMerge at h
  cases hl : MapArray.mergeLoop p [] maps.flatten with
  | error x => rw [hl] at h; simp at h
  | ok items => rw [hl] at h; exact (mapCtor_ok h).1 ▸ (mapCtor_ok h).2

/-- the Python transcriptions only ever allocate duplicate-free maps -/
theorem evalOp_py_MapsWF (st : St) (hM : MapsWF st.store) (op : Op) (s' : Store) (v : Seq)
    (h : evalOp (pyDialect false) st op = .ok (s', v)) : MapsWF s' := by
  cases op <;> simp only [evalOp, pyDialect, writeBack, Bool.false_eq_true, ↓reduceIte] at h
  case mCtor es =>
    exact wf_lift_map hM (fun es' hes' => (mapCtor_ok hes').1 ▸ (mapCtor_ok hes').2) h
  case mEntry k vv =>
    exact wf_lift_map hM (fun es' hes' => (mapCtor_ok hes').1 ▸ (mapCtor_ok hes').2) h
  case mPut m k vv =>
    obtain ⟨es, _, h⟩ := bind_ok h
    exact wf_lift_map hM (fun es' hes' => by unfold mapPut at hes'; exact (mapCtor_ok hes').1 ▸ (mapCtor_ok hes').2) h
  case mRemove m ks =>
    obtain ⟨es, _, h⟩ := bind_ok h
    exact wf_lift_map hM (fun es' hes' => by unfold mapRemove at hes'; exact (mapCtor_ok hes').1 ▸ (mapCtor_ok hes').2) h
  case mMerge ms pol =>
    cases pol with
    | none => simp at h
    | some p =>
      simp only at h
      obtain ⟨maps, _, h⟩ := bind_ok h
      exact wf_lift_map hM (fun es' hes' => mapMerge_WF hes') h
  case mForEach m =>
    obtain ⟨es, _, h⟩ := bind_ok h
    injection h with h
    have := MapsWF_allocMany_arr hM (es.map fun e => [[Item.atom e.1], e.2])
    rw [List.map_map] at this
    rw [show (es.map fun e => Obj.arr [[Item.atom e.1], e.2]) = es.map (Obj.arr ∘ fun e => [[Item.atom e.1], e.2]) from rfl] at h
    rw [h] at this; exact this
  all_goals
    first
    | exact wf_same hM h
    | exact wf_alloc_arr hM h
    | exact wf_lift_arr hM h
    | (obtain ⟨_, _, h⟩ := bind_ok h
       first
       | exact wf_same hM h
       | exact wf_alloc_arr hM h
       | exact wf_lift_arr hM h
       | (obtain ⟨_, _, h⟩ := bind_ok h
          first
          | exact wf_same hM h
          | exact wf_alloc_arr hM h
          | exact wf_lift_arr hM h))

theorem run_py_MapsWF (st : St) (hM : MapsWF st.store) (ops : List Op) :
    MapsWF (run (pyDialect false) st ops).store := by
  induction ops generalizing st with
  | nil => exact hM
  | cons op rest ih =>
    simp only [run, List.foldl_cons]
    apply ih
    unfold step
    cases h : evalOp (pyDialect false) st op with
    | error e => exact hM
    | ok r => obtain ⟨s', v⟩ := r; exact evalOp_py_MapsWF st hM op s' v h

/-! reflexivity -/

theorem all_zip_self {α : Type} (l : List α) (f : α → α → Bool) :
    (l.zip l).all (fun p => f p.1 p.2) = l.all fun x => f x x := by
  induction l with
  | nil => rfl
  | cons x rest ih => simp only [List.zip_cons_cons, List.all_cons, ih]

theorem deepEq_refl (d : Dialect) (hatom : ∀ a, d.atomEq a a = true)
    (hmap : ∀ es : Entries Seq, WF es → ∀ e ∈ es, d.mapHas es e.1 = true ∧ d.mapGet es e.1 = e.2)
    (s : Store) (hs : StoreOK s) (hw : MapsWF s) (n : Nat) :
    n ≤ s.length → ∀ v : Seq, SeqOK n v → ∀ fuel, 2 * n + 1 ≤ fuel → deepEqSeq d s fuel v v = true := by
  induction n using Nat.strongRecOn with
  | ind n ih =>
    intro hn v hv fuel hf
    obtain ⟨f, rfl⟩ : ∃ f, fuel = f + 1 := ⟨fuel - 1, by omega⟩
    simp only [deepEqSeq, beq_self_eq_true, Bool.true_and, all_zip_self]
    rw [List.all_eq_true]
    intro it hit
    cases it with
    | atom k => simp only [deepEqItem]; exact hatom k
    | ref a =>
      have ha : a < n := hv _ hit
      obtain ⟨f', rfl⟩ : ∃ f', f = f' + 1 := ⟨f - 1, by omega⟩
      have hlt : a < s.length := by omega
      simp only [deepEqItem, List.getElem?_eq_getElem hlt]
      have hobj := hs a s[a] (List.getElem?_eq_getElem hlt)
      cases ho : s[a] with
      | arr ms =>
        rw [ho] at hobj
        simp only [beq_self_eq_true, Bool.true_and, all_zip_self]
        rw [List.all_eq_true]
        intro m hm
        exact ih a ha (by omega) m (hobj m hm) f' (by omega)
      | map es =>
        rw [ho] at hobj
        have hwf : WF es := hw a es (by rw [List.getElem?_eq_getElem hlt, ho])
        simp only [beq_self_eq_true, Bool.true_and]
        rw [List.all_eq_true]
        intro e he
        obtain ⟨h1, h2⟩ := hmap es hwf e he
        rw [h1, h2, Bool.true_and]
        exact ih a ha (by omega) e.2 (hobj e he) f' (by omega)

theorem py_map_self (es : Entries Seq) (hwf : WF es) (e : Key × Seq) (he : e ∈ es) :
    (pyDialect false).mapHas es e.1 = true ∧ (pyDialect false).mapGet es e.1 = e.2 := by
  constructor
  · simp only [pyDialect, dictHas]
    exact List.any_eq_true.2 ⟨e, he, dictEq_refl e.1⟩
  · exact mapGet_of_mem hwf he (dictEq_refl e.1)

/-! symmetry -/

theorem dictEq_eq_scanEq (a b : Key) : dictEq a b = scanEq a b := by
  rw [(key_identity_all a b).1, (key_identity_all a b).2]

theorem ScanWF_of_WF {es : Entries α} (h : WF es) : ScanWF es := by
  unfold WF at h; unfold ScanWF
  exact h.imp fun {a b} hab => by rw [← dictEq_eq_scanEq]; exact hab

/-- pigeonhole: two duplicate-free entry lists, the second not longer than the first, every key of
the first occurs in the second — then every key of the second occurs in the first -/
theorem keys_onto {α : Type} (e1 e2 : Entries α) (h1 : ScanWF e1) (h2 : ScanWF e2)
    (hall : ∀ e ∈ e1, ∃ e' ∈ e2, scanEq e'.1 e.1 = true) (hlen : e2.length ≤ e1.length) :
    ∀ e' ∈ e2, ∃ e ∈ e1, scanEq e.1 e'.1 = true := by
  induction e1 generalizing e2 with
  | nil =>
    have : e2 = [] := List.eq_nil_of_length_eq_zero (by simpa using hlen)
    subst this; intro e' he'; simp at he'
  | cons a rest ih =>
    obtain ⟨b, hb, hba⟩ := hall a (by simp)
    have ha_rest : ∀ x ∈ rest, scanEq a.1 x.1 = false := (List.pairwise_cons.1 h1).1
    have hrest : ScanWF rest := (List.pairwise_cons.1 h1).2
    let e2' := e2.filter fun e => !scanEq e.1 b.1
    have h2' : ScanWF e2' := List.Pairwise.sublist List.filter_sublist h2
    have hcount : 0 < e2.countP (fun e => scanEq e.1 b.1) :=
      List.countP_pos_iff.2 ⟨b, hb, scanEq_refl b.1⟩
    have hsplit := length_split e2 b.1
    have hlen' : e2'.length ≤ rest.length := by
      simp only [List.length_cons] at hlen
      show (e2.filter fun e => !scanEq e.1 b.1).length ≤ rest.length
      omega
    have hall' : ∀ e ∈ rest, ∃ e' ∈ e2', scanEq e'.1 e.1 = true := by
      intro e he
      obtain ⟨e', he', hee⟩ := hall e (List.mem_cons_of_mem _ he)
      refine ⟨e', ?_, hee⟩
      simp only [e2', List.mem_filter, Bool.not_eq_eq_eq_not, Bool.not_true]
      refine ⟨he', ?_⟩
      cases hc : scanEq e'.1 b.1 with
      | false => rfl
      | true =>
        -- then a ~ b ~ e' ~ e, impossible
        have : scanEq a.1 e.1 = true :=
          scanEq_trans (by rw [scanEq_symm]; exact hba) (scanEq_trans (by rw [scanEq_symm]; exact hc) hee)
        rw [ha_rest e he] at this; exact absurd this (by simp)
    have ih' := ih e2' hrest h2' hall' hlen'
    intro e' he'
    cases hc : scanEq e'.1 b.1 with
    | true =>
      exact ⟨a, by simp, scanEq_trans (by rw [scanEq_symm]; exact hba) (by rw [scanEq_symm]; exact hc)⟩
    | false =>
      have : e' ∈ e2' := by
        simp only [e2', List.mem_filter, Bool.not_eq_eq_eq_not, Bool.not_true]; exact ⟨he', hc⟩
      obtain ⟨e, he, hee⟩ := ih' e' this
      exact ⟨e, List.mem_cons_of_mem _ he, hee⟩

theorem all_zip_swap {α : Type} (l1 l2 : List α) (f : α → α → Bool) :
    (l1.zip l2).all (fun p => f p.1 p.2) = (l2.zip l1).all (fun p => f p.2 p.1) := by
  induction l1 generalizing l2 with
  | nil => cases l2 <;> rfl
  | cons x xs ih =>
    cases l2 with
    | nil => rfl
    | cons y ys => simp only [List.zip_cons_cons, List.all_cons, ih]


/-- one direction of the map case: if map `e1` passes the deep-equal test against `e2`, then `e2`
passes it against `e1` (given symmetry of the value comparison) -/
theorem mapEq_swap (e1 e2 : Entries Seq) (hw1 : WF e1) (hw2 : WF e2) (deq : Seq → Seq → Bool)
    (hsym : ∀ x y, deq x y = deq y x)
    (h : (e1.length == e2.length && e1.all fun e => dictHas e2 e.1 && deq e.2 (mapGet e2 e.1)) = true) :
    (e2.length == e1.length && e2.all fun e => dictHas e1 e.1 && deq e.2 (mapGet e1 e.1)) = true := by
  simp only [Bool.and_eq_true, beq_iff_eq, List.all_eq_true] at h ⊢
  obtain ⟨hlen, hall⟩ := h
  refine ⟨hlen.symm, ?_⟩
  have honto := keys_onto e1 e2 (ScanWF_of_WF hw1) (ScanWF_of_WF hw2) (by
      intro e he
      obtain ⟨hhas, _⟩ := hall e he
      obtain ⟨e', he', hee⟩ := List.any_eq_true.1 (by unfold dictHas at hhas; exact hhas)
      exact ⟨e', he', by rw [← dictEq_eq_scanEq]; exact hee⟩) (by omega)
  intro e' he'
  obtain ⟨e, he, hee⟩ := honto e' he'
  have hd : dictEq e.1 e'.1 = true := by rw [dictEq_eq_scanEq]; exact hee
  have hd' : dictEq e'.1 e.1 = true := by rw [dictEq_symm]; exact hd
  refine ⟨?_, ?_⟩
  · unfold dictHas; exact List.any_eq_true.2 ⟨e, he, hd⟩
  · rw [mapGet_of_mem hw1 he hd, hsym]
    have := (hall e he).2
    rw [mapGet_of_mem hw2 he' hd'] at this
    exact this

/-- **symmetry of the nested deep-equal** (Python transcriptions), for every fuel, on stores whose
maps are duplicate-free -/
theorem deepEq_symm (s : Store) (hw : MapsWF s) (fuel : Nat) :
    (∀ v1 v2, deepEqSeq (pyDialect false) s fuel v1 v2 = deepEqSeq (pyDialect false) s fuel v2 v1) ∧
    (∀ i1 i2, deepEqItem (pyDialect false) s fuel i1 i2 = deepEqItem (pyDialect false) s fuel i2 i1) := by
  induction fuel with
  | zero =>
    refine ⟨fun _ _ => rfl, fun i1 i2 => ?_⟩
    cases i1 <;> cases i2 <;> simp [deepEqItem, pyDialect, pyAtomEq_symm]
  | succ n ih =>
    have hseq : ∀ v1 v2, deepEqSeq (pyDialect false) s (n + 1) v1 v2 = deepEqSeq (pyDialect false) s (n + 1) v2 v1 := by
      intro v1 v2
      simp only [deepEqSeq]
      rw [all_zip_swap v1 v2]
      congr 1
      · exact Bool.beq_comm
      · congr 1; funext p; exact ih.2 p.2 p.1
    refine ⟨hseq, ?_⟩
    intro i1 i2
    cases i1 with
    | atom a => cases i2 <;> simp [deepEqItem, pyDialect, pyAtomEq_symm]
    | ref a =>
      cases i2 with
      | atom b => simp [deepEqItem]
      | ref b =>
        simp only [deepEqItem]
        cases ha : s[a]? with
        | none => cases s[b]? with
          | none => rfl
          | some o2 => cases o2 <;> rfl
        | some o1 =>
          cases hb : s[b]? with
          | none => cases o1 <;> rfl
          | some o2 =>
            cases o1 with
            | arr m1 =>
              cases o2 with
              | map e2 => rfl
              | arr m2 =>
                simp only
                rw [all_zip_swap m1 m2]
                congr 1
                · exact Bool.beq_comm
                · congr 1; funext p; exact ih.1 p.2 p.1
            | map e1 =>
              cases o2 with
              | arr m2 => rfl
              | map e2 =>
                simp only [pyDialect]
                have hw1 := hw a e1 ha
                have hw2 := hw b e2 hb
                rw [Bool.eq_iff_iff]
                exact ⟨mapEq_swap e1 e2 hw1 hw2 _ (ih.1), mapEq_swap e2 e1 hw2 hw1 _ (ih.1)⟩

end EPV.MapArray

/-
C10 helper lemmas for the pinned helper (former finding F10b): `string_value(float)` (post-processing of CPython's `repr`) against the
F&O canonical form, on a model of `repr` for finite non-zero doubles.

`pyRepr` is a *trusted model* of CPython's `repr(float)` (float_repr_style 'short', format code 'r' with
Py_DTSF_ADD_DOT_0 — Python/pystrtod.c `format_float_short`): given the shortest round-trip digits `ds` and
the decimal exponent `e` (value = d₁.d₂… × 10^e) it chooses fixed notation for −4 ≤ e < 16 and exponent
notation otherwise (sign always written, at least two exponent digits).  The harness compares `pyRepr`
with the real `repr` on every double it generates.
-/
import EPV.Lemmas.LexicalInt
namespace EPV.LexLemmas
open EPV

def pad2 (ds : List Char) : List Char := if ds.length < 2 then '0' :: ds else ds

def pyReprBody (ds : List Char) (e : Int) : List Char :=
  if e < -4 ∨ 16 ≤ e then
    (match ds with | [] => [] | [d] => [d] | d :: r => d :: '.' :: r) ++
      'e' :: (if e < 0 then '-' else '+') :: pad2 (Nat.toDigits 10 e.natAbs)
  else if e < 0 then '0' :: '.' :: (List.replicate ((-e).toNat - 1) '0' ++ ds)
  else if ds.length ≤ e.toNat + 1 then ds ++ List.replicate (e.toNat + 1 - ds.length) '0' ++ ['.', '0']
  else ds.take (e.toNat + 1) ++ '.' :: ds.drop (e.toNat + 1)

def pyRepr (neg : Bool) (ds : List Char) (e : Int) : List Char :=
  if neg then '-' :: pyReprBody ds e else pyReprBody ds e

/-- where the pinned helper `string_value` (Python `repr` post-processed) differs from the F&O canonical form, on the number
of shortest digits of the double and its decimal exponent `e` (value = d.ddd × 10^e) — the trigger of the former finding F10b;
since fix-c10-7 the callers use `atomic_string_value` (`EPV.C10.double_string`) -/
def pinnedDeviationRegion (ndigits : Nat) (e : Int) : Bool :=
  (e == -6 || e == -5) || (decide (6 ≤ e) && decide (e < 16)) || (decide (16 ≤ e) && ndigits == 1) ||
  (decide (e < -6) && (ndigits == 1 || decide (-10 < e)))

/-- shortest digits: non-empty, digits, no trailing zero -/
def WFDigits (ds : List Char) : Prop :=
  ds ≠ [] ∧ (∀ c ∈ ds, Lex.isDigit c = true) ∧ ds.getLast? ≠ some '0'

/-- the float branch of the pinned helper (`Lex.pinnedFloatStr`) as a function of the repr string -/
def finStr (r : List Char) : List Char :=
  let v := if r.contains '.' && !r.contains 'e' then Lex.rstrip '.' (Lex.rstrip '0' r) else r
  let v := if v.contains '+' then v.filter (· != '+') else v
  if v.contains 'e' then v.map Char.toUpper else v

theorem pinnedFloatStr_eq (r : List Char) : Lex.pinnedFloatStr r = finStr r := rfl

/-! ### rstrip -/

theorem rstrip_of_last (c : Char) (l : List Char) (x : Char) (h : l.getLast? = some x) (hx : x ≠ c) :
    Lex.rstrip c l = l := by
  unfold Lex.rstrip
  cases hr : l.reverse with
  | nil => simp at hr; subst hr; cases h
  | cons a t =>
    have : l.reverse.head? = some x := by rw [List.head?_reverse]; exact h
    rw [hr] at this
    simp only [List.head?_cons, Option.some.injEq] at this
    subst this
    rw [List.dropWhile_cons_of_neg (by simpa using hx), ← hr, List.reverse_reverse]

theorem rstrip_append_same (c : Char) (l : List Char) : Lex.rstrip c (l ++ [c]) = Lex.rstrip c l := by
  unfold Lex.rstrip
  simp

theorem rstrip_cons_ne (c x : Char) (l : List Char) (hx : x ≠ c) :
    Lex.rstrip c (x :: l) = x :: Lex.rstrip c l := by
  unfold Lex.rstrip
  rw [List.reverse_cons, List.dropWhile_append]
  split
  · rename_i he
    have : (l.reverse.dropWhile (· == c)) = [] := by simpa using he
    rw [this]
    simp [List.dropWhile_cons, hx]
  · simp

/-! ### characters -/

theorem digit_facts (c : Char) (h : Lex.isDigit c = true) :
    c.toUpper = c ∧ c ≠ '+' ∧ c ≠ 'e' ∧ c ≠ '.' ∧ c ≠ '-' ∧ c ≠ 'E' := by
  have hb := digit_bounds c h
  have hv : c.val.toNat ≤ 57 ∧ 48 ≤ c.val.toNat := ⟨hb.2, hb.1⟩
  refine ⟨?_, ?_, ?_, ?_, ?_, ?_⟩
  · unfold Char.toUpper
    have : ¬ ('a'.val ≤ c.val ∧ c.val ≤ 'z'.val) := by
      simp only [UInt32.le_iff_toNat_le, Char.reduceVal, UInt32.reduceToNat]
      omega
    rw [dif_neg this]
  all_goals (intro e; subst e; revert hb; decide)

def plainChar (c : Char) : Prop := Lex.isDigit c = true ∨ c = '.' ∨ c = '-'

theorem plain_facts (c : Char) (h : plainChar c) : c.toUpper = c ∧ c ≠ '+' ∧ c ≠ 'e' := by
  rcases h with h | h | h
  · have := digit_facts c h; exact ⟨this.1, this.2.1, this.2.2.1⟩
  · subst h; decide
  · subst h; decide

theorem contains_false {c : Char} {r : List Char} (h : c ∉ r) : r.contains c = false := by
  simpa using h

theorem contains_true {c : Char} {r : List Char} (h : c ∈ r) : r.contains c = true := by
  simpa using h

/-- a string of digits, points and minus signs, containing a point, whose last character is a non-zero
digit: `string_value` leaves it alone -/
theorem finStr_fixed_plain (b : List Char) (hp : ∀ c ∈ b, plainChar c) (hdot : '.' ∈ b)
    (x : Char) (hl : b.getLast? = some x) (hx : Lex.isDigit x = true) (hx0 : x ≠ '0') : finStr b = b := by
  have hne : 'e' ∉ b := fun hm => (plain_facts _ (hp _ hm)).2.2 rfl
  have hnp : '+' ∉ b := fun hm => (plain_facts _ (hp _ hm)).2.1 rfl
  unfold finStr
  simp only [contains_true hdot, contains_false hne, Bool.not_false, Bool.and_self, ↓reduceIte]
  rw [rstrip_of_last '0' b x hl hx0, rstrip_of_last '.' b x hl (digit_facts x hx).2.2.2.1]
  simp only [contains_false hnp, contains_false hne, Bool.false_eq_true, ↓reduceIte]

def st1 (r : List Char) : List Char :=
  if r.contains '.' && !r.contains 'e' then Lex.rstrip '.' (Lex.rstrip '0' r) else r
def st2 (v : List Char) : List Char := if v.contains '+' then v.filter (· != '+') else v
def st3 (v : List Char) : List Char := if v.contains 'e' then v.map Char.toUpper else v

theorem finStr_eq (r : List Char) : finStr r = st3 (st2 (st1 r)) := rfl

theorem contains_minus_cons (c : Char) (hc : c ≠ '-') (b : List Char) :
    ('-' :: b).contains c = b.contains c := by
  simp only [List.contains_cons]
  have : (c == '-') = false := by simpa using hc
  rw [this]; rfl

theorem st1_neg (b : List Char) : st1 ('-' :: b) = '-' :: st1 b := by
  unfold st1
  rw [contains_minus_cons '.' (by decide), contains_minus_cons 'e' (by decide)]
  split
  · rw [rstrip_cons_ne '0' '-' b (by decide), rstrip_cons_ne '.' '-' _ (by decide)]
  · rfl

theorem st2_neg (b : List Char) : st2 ('-' :: b) = '-' :: st2 b := by
  unfold st2
  rw [contains_minus_cons '+' (by decide)]
  split
  · simp [List.filter_cons]
  · rfl

theorem st3_neg (b : List Char) : st3 ('-' :: b) = '-' :: st3 b := by
  unfold st3
  rw [contains_minus_cons 'e' (by decide)]
  split
  · simp only [List.map_cons]; rfl
  · rfl

theorem finStr_neg (b : List Char) : finStr ('-' :: b) = '-' :: finStr b := by
  rw [finStr_eq, finStr_eq, st1_neg, st2_neg, st3_neg]

/-! ### the three regions outside the deviation region of the pinned helper -/

theorem wf_last (ds : List Char) (h : WFDigits ds) :
    ∃ x, ds.getLast? = some x ∧ Lex.isDigit x = true ∧ x ≠ '0' := by
  obtain ⟨hne, hd, hl⟩ := h
  cases hg : ds.getLast? with
  | none => simp at hg; exact absurd hg hne
  | some x =>
    refine ⟨x, rfl, hd x (List.mem_of_getLast? hg), ?_⟩
    intro e; subst e; exact hl hg

theorem digits_plain (ds : List Char) (h : ∀ c ∈ ds, Lex.isDigit c = true) : ∀ c ∈ ds, plainChar c :=
  fun c hc => Or.inl (h c hc)

theorem doubleCanon_sign (neg : Bool) (ds : List Char) (e : Int) :
    XSD.doubleCanon neg ds e = if neg then '-' :: XSD.doubleCanon false ds e else XSD.doubleCanon false ds e := by
  cases neg <;> simp [XSD.doubleCanon]

/-- fixed notation, value below one: `0.000ddd` -/
theorem region_small (ds : List Char) (e : Int) (hwf : WFDigits ds) (h1 : -4 ≤ e) (h2 : e < 0) :
    finStr (pyReprBody ds e) = XSD.doubleCanon false ds e := by
  obtain ⟨x, hl, hx, hx0⟩ := wf_last ds hwf
  have hb : pyReprBody ds e = '0' :: '.' :: (List.replicate ((-e).toNat - 1) '0' ++ ds) := by
    unfold pyReprBody
    rw [if_neg (by omega), if_pos h2]
  have hs : XSD.doubleCanon false ds e = '0' :: '.' :: (List.replicate ((-e).toNat - 1) '0' ++ ds) := by
    unfold XSD.doubleCanon
    have c1 : (decide (-6 ≤ e) && decide (e < 6)) = true := by simp; omega
    have c2 : ¬ (0 ≤ e) := by omega
    simp [c1, c2]
  rw [hb, hs]
  apply finStr_fixed_plain _ _ _ x _ hx hx0
  · intro c hc
    simp only [List.mem_cons, List.mem_append, List.mem_replicate] at hc
    rcases hc with h | h | ⟨_, h⟩ | h
    · subst h; exact Or.inl (by decide)
    · subst h; exact Or.inr (Or.inl rfl)
    · subst h; exact Or.inl (by decide)
    · exact Or.inl (hwf.2.1 c h)
  · simp
  · rw [List.getLast?_cons_cons, List.getLast?_cons_of_ne_nil (by simp [hwf.1]), List.getLast?_append, hl]; rfl

/-- fixed notation, integral value written with a `.0` that `string_value` strips: `ddd000` -/
theorem region_integral (ds : List Char) (e : Int) (hwf : WFDigits ds) (h1 : 0 ≤ e) (h2 : e < 6)
    (hlen : ds.length ≤ e.toNat + 1) :
    finStr (pyReprBody ds e) = XSD.doubleCanon false ds e := by
  have hb : pyReprBody ds e = ds ++ List.replicate (e.toNat + 1 - ds.length) '0' ++ ['.', '0'] := by
    unfold pyReprBody
    rw [if_neg (by omega), if_neg (by omega), if_pos hlen]
  have hs : XSD.doubleCanon false ds e = ds ++ List.replicate (e.toNat + 1 - ds.length) '0' := by
    unfold XSD.doubleCanon
    have c1 : (decide (-6 ≤ e) && decide (e < 6)) = true := by simp; omega
    simp [c1, h1, List.take_of_length_le hlen, List.drop_of_length_le hlen]
  rw [hb, hs]
  generalize hz : List.replicate (e.toNat + 1 - ds.length) '0' = zs
  have hzs : ∀ c ∈ zs, c = '0' := by intro c hc; rw [← hz] at hc; exact (List.mem_replicate.mp hc).2
  have hall : ∀ c ∈ ds ++ zs, Lex.isDigit c = true := by
    intro c hc
    rcases List.mem_append.mp hc with h | h
    · exact hwf.2.1 c h
    · rw [hzs c h]; decide
  have hne : ds ++ zs ≠ [] := by simp [hwf.1]
  obtain ⟨y, hy⟩ : ∃ y, (ds ++ zs).getLast? = some y := by
    cases hg : (ds ++ zs).getLast? with
    | none => simp at hg; exact absurd hg.2 hwf.1
    | some y => exact ⟨y, rfl⟩
  have hyd : Lex.isDigit y = true := hall y (List.mem_of_getLast? hy)
  have hp : ∀ c ∈ ds ++ zs ++ ['.', '0'], plainChar c := by
    intro c hc
    rcases List.mem_append.mp hc with h | h
    · exact Or.inl (hall c h)
    · simp only [List.mem_cons, List.mem_nil_iff, or_false] at h
      rcases h with h | h
      · exact Or.inr (Or.inl h)
      · subst h; exact Or.inl (by decide)
  have hnoe : 'e' ∉ ds ++ zs ++ ['.', '0'] := fun hm => (plain_facts _ (hp _ hm)).2.2 rfl
  have hnop : '+' ∉ ds ++ zs := fun hm => (digit_facts _ (hall _ hm)).2.1 rfl
  have hnoe2 : 'e' ∉ ds ++ zs := fun hm => (digit_facts _ (hall _ hm)).2.2.1 rfl
  unfold finStr
  have hdot : '.' ∈ ds ++ zs ++ ['.', '0'] := by simp
  simp only [contains_true hdot, contains_false hnoe, Bool.not_false, Bool.and_self, ↓reduceIte]
  have e1 : ds ++ zs ++ ['.', '0'] = (ds ++ zs ++ ['.']) ++ ['0'] := by simp
  rw [e1, rstrip_append_same '0']
  rw [rstrip_of_last '0' (ds ++ zs ++ ['.']) '.' (by simp) (by decide)]
  rw [rstrip_append_same '.', rstrip_of_last '.' (ds ++ zs) y hy (digit_facts y hyd).2.2.2.1]
  simp only [contains_false hnop, contains_false hnoe2, Bool.false_eq_true, ↓reduceIte]

/-- fixed notation with a fraction: `ddd.ddd` -/
theorem region_fraction (ds : List Char) (e : Int) (hwf : WFDigits ds) (h1 : 0 ≤ e) (h2 : e < 6)
    (hlen : ¬ ds.length ≤ e.toNat + 1) :
    finStr (pyReprBody ds e) = XSD.doubleCanon false ds e := by
  obtain ⟨x, hl, hx, hx0⟩ := wf_last ds hwf
  have hb : pyReprBody ds e = ds.take (e.toNat + 1) ++ '.' :: ds.drop (e.toNat + 1) := by
    unfold pyReprBody
    rw [if_neg (by omega), if_neg (by omega), if_neg hlen]
  have hdne : ds.drop (e.toNat + 1) ≠ [] := by
    intro h
    have := congrArg List.length h
    simp at this; omega
  have hs : XSD.doubleCanon false ds e = ds.take (e.toNat + 1) ++ '.' :: ds.drop (e.toNat + 1) := by
    unfold XSD.doubleCanon
    have c1 : (decide (-6 ≤ e) && decide (e < 6)) = true := by simp; omega
    have c3 : e.toNat + 1 - ds.length = 0 := by omega
    simp [c1, h1, c3, hdne]
  rw [hb, hs]
  apply finStr_fixed_plain _ _ _ x _ hx hx0
  · intro c hc
    rcases List.mem_append.mp hc with h | h
    · exact Or.inl (hwf.2.1 c (List.mem_of_mem_take h))
    · rcases List.mem_cons.mp h with h | h
      · exact Or.inr (Or.inl h)
      · exact Or.inl (hwf.2.1 c (List.mem_of_mem_drop h))
  · simp
  · rw [List.getLast?_append, List.getLast?_cons_of_ne_nil hdne, List.getLast?_drop]
    have : ¬ ds.length ≤ e.toNat + 1 := hlen
    simp [this, hl]

theorem length_toDigits_ge2 (n : Nat) (h : 10 ≤ n) : 2 ≤ (Nat.toDigits 10 n).length := by
  by_cases hc : (Nat.toDigits 10 n).length ≤ 1
  · have := (Nat.length_toDigits_le_iff (b := 10) (n := n) (k := 1) (by decide) (by decide)).mp hc
    simp only [Nat.pow_one] at this
    omega
  · omega

theorem natCanon_eq (n : Nat) : XSD.natCanon n = Nat.toDigits 10 n := by
  unfold XSD.natCanon; simp

theorem map_upper_digits (l : List Char) (h : ∀ c ∈ l, Lex.isDigit c = true) : l.map Char.toUpper = l := by
  induction l with
  | nil => rfl
  | cons a t ih =>
    simp only [List.map_cons, (digit_facts a (h a List.mem_cons_self)).1,
      ih (fun c hc => h c (List.mem_cons_of_mem _ hc))]

theorem filter_plus_digits (l : List Char) (h : ∀ c ∈ l, Lex.isDigit c = true) :
    l.filter (· != '+') = l := by
  rw [List.filter_eq_self]
  intro c hc
  simpa using (digit_facts c (h c hc)).2.1

/-- exponent notation with at least two digits and an exponent that needs no zero padding:
`d.dddE±XX` -/
theorem region_exp (d x : Char) (r : List Char) (e : Int)
    (hd : ∀ c ∈ d :: x :: r, Lex.isDigit c = true) (he : 16 ≤ e ∨ e ≤ -10) :
    finStr (pyReprBody (d :: x :: r) e) = XSD.doubleCanon false (d :: x :: r) e := by
  have hE := toDigits_all_digit e.natAbs
  have hlen : 2 ≤ (Nat.toDigits 10 e.natAbs).length := length_toDigits_ge2 _ (by omega)
  have hpad : pad2 (Nat.toDigits 10 e.natAbs) = Nat.toDigits 10 e.natAbs := by
    unfold pad2; rw [if_neg (by omega)]
  have hxr : ∀ c ∈ x :: r, Lex.isDigit c = true := fun c hc => hd c (List.mem_cons_of_mem _ hc)
  have hdd := digit_facts d (hd d List.mem_cons_self)
  have hb : pyReprBody (d :: x :: r) e =
      d :: '.' :: (x :: r) ++ 'e' :: (if e < 0 then '-' else '+') :: Nat.toDigits 10 e.natAbs := by
    unfold pyReprBody
    rw [if_pos (by omega), hpad]
  have hs : XSD.doubleCanon false (d :: x :: r) e =
      d :: '.' :: (x :: r) ++ 'E' :: (if e < 0 then '-' :: Nat.toDigits 10 e.natAbs else Nat.toDigits 10 e.natAbs) := by
    unfold XSD.doubleCanon XSD.integerCanon
    have c1 : (decide (-6 ≤ e) && decide (e < 6)) = false := by
      rcases he with h | h <;> simp <;> omega
    simp only [c1, Bool.false_eq_true, ↓reduceIte, natCanon_eq]
  rw [hb, hs, finStr_eq]
  -- stage 1: an exponent form is left alone
  have h1 : st1 (d :: '.' :: (x :: r) ++ 'e' :: (if e < 0 then '-' else '+') :: Nat.toDigits 10 e.natAbs) =
      d :: '.' :: (x :: r) ++ 'e' :: (if e < 0 then '-' else '+') :: Nat.toDigits 10 e.natAbs := by
    unfold st1
    have : 'e' ∈ d :: '.' :: (x :: r) ++ 'e' :: (if e < 0 then '-' else '+') :: Nat.toDigits 10 e.natAbs := by simp
    rw [contains_true this]; simp
  rw [h1]
  clear h1
  have hmapxr := map_upper_digits (x :: r) hxr
  have hmapE := map_upper_digits _ hE
  have hfxr := filter_plus_digits (x :: r) hxr
  have hfE := filter_plus_digits _ hE
  have hd_plus : (d != '+') = true := by simpa using hdd.2.1
  by_cases hneg : e < 0
  · simp only [hneg, ↓reduceIte]
    -- no '+': stage 2 is the identity
    have hnp : '+' ∉ d :: '.' :: (x :: r) ++ 'e' :: '-' :: Nat.toDigits 10 e.natAbs := by
      intro hm
      rcases List.mem_append.mp hm with h | h
      · rcases List.mem_cons.mp h with h | h
        · exact hdd.2.1 h.symm
        · rcases List.mem_cons.mp h with h | h
          · exact absurd h (by decide)
          · exact (digit_facts _ (hxr _ h)).2.1 rfl
      · rcases List.mem_cons.mp h with h | h
        · exact absurd h (by decide)
        · rcases List.mem_cons.mp h with h | h
          · exact absurd h (by decide)
          · exact (digit_facts _ (hE _ h)).2.1 rfl
    have h2 : st2 (d :: '.' :: (x :: r) ++ 'e' :: '-' :: Nat.toDigits 10 e.natAbs) =
        d :: '.' :: (x :: r) ++ 'e' :: '-' :: Nat.toDigits 10 e.natAbs := by
      unfold st2; rw [contains_false hnp]; simp only [Bool.false_eq_true, ↓reduceIte]
    rw [h2]
    unfold st3
    have : 'e' ∈ d :: '.' :: (x :: r) ++ 'e' :: '-' :: Nat.toDigits 10 e.natAbs := by simp
    rw [contains_true this]
    simp only [↓reduceIte, List.cons_append, List.map_cons, List.map_append, hdd.1, hmapE]
    rw [show List.map Char.toUpper r = r from by
      have := hmapxr; simp only [List.map_cons, List.cons.injEq] at this; exact this.2]
    rw [(digit_facts x (hd x (by simp))).1]
    rfl
  · simp only [hneg, ↓reduceIte]
    have h2 : st2 (d :: '.' :: (x :: r) ++ 'e' :: '+' :: Nat.toDigits 10 e.natAbs) =
        d :: '.' :: (x :: r) ++ 'e' :: Nat.toDigits 10 e.natAbs := by
      unfold st2
      have : '+' ∈ d :: '.' :: (x :: r) ++ 'e' :: '+' :: Nat.toDigits 10 e.natAbs := by simp
      rw [contains_true this]
      simp only [↓reduceIte, List.cons_append, List.filter_cons, List.filter_append, hd_plus, hfE]
      have hx_plus : (x != '+') = true := by simpa using (digit_facts x (hd x (by simp))).2.1
      have hfr : r.filter (· != '+') = r :=
        filter_plus_digits r (fun c hc => hd c (by simp [hc]))
      simp [hx_plus, hfr]
    rw [h2]
    unfold st3
    have : 'e' ∈ d :: '.' :: (x :: r) ++ 'e' :: Nat.toDigits 10 e.natAbs := by simp
    rw [contains_true this]
    simp only [↓reduceIte, List.cons_append, List.map_cons, List.map_append, hdd.1, hmapE]
    rw [show List.map Char.toUpper r = r from by
      have := hmapxr; simp only [List.map_cons, List.cons.injEq] at this; exact this.2]
    rw [(digit_facts x (hd x (by simp))).1]
    rfl

/-- **double_string_partial** (relative to the model `pyRepr` of CPython's repr): outside the trigger of
finding F10b, `string_value` of a finite non-zero double is its F&O canonical string. -/
theorem finStr_pyRepr (neg : Bool) (ds : List Char) (e : Int) (hwf : WFDigits ds)
    (ht : pinnedDeviationRegion ds.length e = false) :
    finStr (pyRepr neg ds e) = XSD.doubleCanon neg ds e := by
  have hbody : finStr (pyReprBody ds e) = XSD.doubleCanon false ds e := by
    unfold pinnedDeviationRegion at ht
    simp only [Bool.or_eq_false_iff, Bool.and_eq_false_iff, beq_eq_false_iff_ne, ne_eq, decide_eq_false_iff_not,
      beq_iff_eq] at ht
    obtain ⟨⟨⟨⟨h6, h5⟩, hmid⟩, hbig⟩, hsmall⟩ := ht
    by_cases hA : -4 ≤ e ∧ e < 0
    · exact region_small ds e hwf hA.1 hA.2
    by_cases hB : 0 ≤ e ∧ e < 6
    · by_cases hlen : ds.length ≤ e.toNat + 1
      · exact region_integral ds e hwf hB.1 hB.2 hlen
      · exact region_fraction ds e hwf hB.1 hB.2 hlen
    -- exponent notation: at least two digits
    have hexp : 16 ≤ e ∨ e ≤ -10 := by
      rcases hmid with h | h <;> rcases hsmall with h' | h' <;> omega
    have hlen2 : 2 ≤ ds.length := by
      have hpos := List.length_pos_iff.mpr hwf.1
      rcases hexp with h | h
      · rcases hbig with h' | h'
        · omega
        · omega
      · rcases hsmall with h' | h'
        · omega
        · have := h'.1; omega
    match ds, hwf, hlen2 with
    | d :: x :: r, hwf, _ => exact region_exp d x r e hwf.2.1 hexp
  unfold pyRepr
  rw [doubleCanon_sign]
  cases neg
  · simpa using hbody
  · simp only [↓reduceIte]; rw [finStr_neg, hbody]

end EPV.LexLemmas

/-
C02 helper lemmas on string values: `etree_iter_strings` (model, `chunksOne`) against the XDM
string value (spec, `textsOne`).
-/
import EPV.Model.Builder
import EPV.Spec.XDMTree
namespace EPV.Builder
open EPV.XDM

theorem concat_append (a b : List String) : concat (a ++ b) = concat a ++ concat b := by
  induction a with
  | nil => simp [concat, String.empty_append]
  | cons s a ih => simp [concat, ih, String.append_assoc]

theorem concat_optList_none : concat (optList none) = "" := rfl
theorem concat_optList_some (s : String) : concat (optList (some s)) = s := by
  simp [optList, concat, String.append_empty]

mutual
/-- outside the F02a region the strings produced for a non-top node (with its tail) concatenate to
the XDM text of the node followed by its tail -/
theorem chunksOne_concat : ∀ (t : XTree), lateOne t = false →
    concat (chunksOne false t) = concat (textsOne t ++ optList t.tail)
  | .elem name nsmap attrib text kids tail, h => by
    simp only [lateOne, Bool.or_eq_false_iff] at h
    have ih := chunksKids_concat kids h.2
    simp only [chunksOne, textsOne, XTree.tail, concat_append, Bool.false_eq_true, if_false]
    rw [← ih]
    have h1 : concat (optList tail) ++ concat (chunksKids kids) = concat (chunksKids kids) ++ concat (optList tail) := by
      simpa using h.1
    rw [String.append_assoc, String.append_assoc, h1]
  | .comment s tail, _ => by simp [chunksOne, textsOne, XTree.tail]
  | .pi t s tail, _ => by simp [chunksOne, textsOne, XTree.tail]
theorem chunksKids_concat : ∀ (ts : List XTree), lateKids ts = false →
    concat (chunksKids ts) = concat (textsKids ts)
  | [], _ => rfl
  | t :: ts, h => by
    simp only [lateKids, Bool.or_eq_false_iff] at h
    have h1 := chunksOne_concat t h.1
    have h2 := chunksKids_concat ts h.2
    simp only [chunksKids, textsKids, concat_append] at *
    rw [h1, h2, String.append_assoc]
end

/-- `string_value_concat`, element form -/
theorem elemStringValue_eq (t : XTree) (h : lateTail t = false) : elemStringValue t = stringValue t := by
  cases t with
  | elem name nsmap attrib text kids tail =>
    simp only [lateTail] at h
    have := chunksKids_concat kids h
    simp [elemStringValue, stringValue, chunksOne, textsOne, concat_append, this]
  | comment s tail => simp [elemStringValue, stringValue, chunksOne, textsOne]
  | pi t s tail => simp [elemStringValue, stringValue, chunksOne, textsOne]

theorem lateKids_false_of_lateOne (t : XTree) (h : lateOne t = false) : lateTail t = false := by
  cases t with
  | elem name nsmap attrib text kids tail =>
    simp only [lateOne, Bool.or_eq_false_iff] at h
    simpa [lateTail] using h.2
  | comment s tail => rfl
  | pi t s tail => rfl

/-! ### the strings are always the same multiset -/

mutual
theorem chunksOne_perm : ∀ (t : XTree), (chunksOne false t).Perm (textsOne t ++ optList t.tail)
  | .elem name nsmap attrib text kids tail => by
    have ih := chunksKids_perm kids
    simp only [chunksOne, textsOne, XTree.tail, Bool.false_eq_true, if_false, List.append_assoc]
    exact List.Perm.append_left _ ((List.perm_append_comm).trans (List.Perm.append_right _ ih))
  | .comment s tail => by simp [chunksOne, textsOne, XTree.tail]
  | .pi t s tail => by simp [chunksOne, textsOne, XTree.tail]
theorem chunksKids_perm : ∀ (ts : List XTree), (chunksKids ts).Perm (textsKids ts)
  | [] => List.Perm.refl _
  | t :: ts => by
    have h1 := chunksOne_perm t
    have h2 := chunksKids_perm ts
    simp only [chunksKids, textsKids]
    exact List.Perm.append h1 h2
end

end EPV.Builder

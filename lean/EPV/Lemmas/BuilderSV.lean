/-
C02 helper lemmas on string values: `etree_iter_strings` (model, `chunksOne`) against the XDM
string value (spec, `textsOne`).
-/
import EPV.Model.Builder
import EPV.Spec.XDMTree
namespace EPV.Builder
open EPV.XDM

theorem concat_append (a b : List String) : concat (a ++ b) = concat a ++ concat b := by
  induction a with
  | nil => simp [concat, String.empty_append]
  | cons s a ih => simp [concat, ih, String.append_assoc]

theorem concat_optList_none : concat (optList none) = "" := rfl
theorem concat_optList_some (s : String) : concat (optList (some s)) = s := by
  simp [optList, concat, String.append_empty]

mutual
/-- the strings produced for a non-top node (with its tail) are the XDM text chunks of the node
followed by its tail — as lists, in order -/
theorem chunksOne_eq : ∀ (t : XTree), chunksOne false t = textsOne t ++ optList t.tail
  | .elem name nsmap attrib text kids tail => by
    simp [chunksOne, textsOne, XTree.tail, chunksKids_eq kids]
  | .comment s tail => by simp [chunksOne, textsOne, XTree.tail]
  | .pi t s tail => by simp [chunksOne, textsOne, XTree.tail]
theorem chunksKids_eq : ∀ (ts : List XTree), chunksKids ts = textsKids ts
  | [] => rfl
  | t :: ts => by simp [chunksKids, textsKids, chunksOne_eq t, chunksKids_eq ts]
end

theorem chunksOne_top (t : XTree) : chunksOne true t = textsOne t := by
  cases t with
  | elem name nsmap attrib text kids tail => simp [chunksOne, textsOne, chunksKids_eq]
  | comment s tail => simp [chunksOne, textsOne]
  | pi t s tail => simp [chunksOne, textsOne]

/-- `string_value_concat`, element form -/
theorem elemStringValue_eq (t : XTree) : elemStringValue t = stringValue t := by
  simp [elemStringValue, stringValue, chunksOne_top]

end EPV.Builder

/-
C01 — the state-threading evaluator `evalS` (`EPV/Model/AxesEvalState.lean`) computes the values of the
pure evaluator `eval` and gives the caller's context back.
-/
import EPV.Model.AxesEvalState
import EPV.Lemmas.AxesState
import EPV.Lemmas.AxesPath
namespace EPV.XP

variable {m : Mode} {a : Arr}

theorem sctx_axis_none {c : SCtx} (h : c.axis = none) : ({ c with axis := none } : SCtx) = c := by
  cases c; simp only at h; subst h; rfl

theorem setIA_self (c : SCtx) : c.setIA c.ia = c := by cases c; rfl

/-- claims about the state a (non-boolean) evaluation leaves -/
def Kept (e : Expr) (c c' : SCtx) : Prop :=
  c'.axis = c.axis ∧ c'.pos = c.pos ∧ c'.size = c.size ∧ c'.item = c.item

theorem kept_eq {e : Expr} {c c' : SCtx} (h : Kept e c c') : c' = c := by
  obtain ⟨h1, h2, h3, h4⟩ := h
  cases c; cases c'
  simp only at h1 h2 h3 h4
  subst h1 h2 h3 h4; rfl

theorem stepS_spec (hV : ∀ n, isDummyDoc m n = true → kd a n = .doc) (ax : Axis) (t : Test) (ab : Bool)
    (c : SCtx) (hc : c.axis = none) :
    (stepS m a ax t ab c).1 = evalStep m a ax t ab c.item ∧
    Kept (.step ax t ab) c (stepS m a ax t ab c).2 := by
  have hia : c.ia.axis = none := hc
  unfold stepS
  by_cases hns : ax = .namespace
  · subst hns
    simp only [beq_self_eq_true, if_true]
    refine ⟨?_, rfl, rfl, rfl, rfl⟩
    simp [evalStep, iterAxis, principal]
  · have hb : (ax == Axis.namespace) = false := by simpa using hns
    simp only [hb, Bool.false_eq_true, if_false]
    by_cases hab : (ab && ax == .child) = true
    · simp only [hab, if_true]
      simp only [Bool.and_eq_true, beq_iff_eq] at hab
      obtain ⟨rfl, rfl⟩ := hab
      have hr := prog_restores (m := m) (a := a) .child c.ia
      refine ⟨?_, ?_⟩
      · simp only [hc, Option.isSome_none, Bool.false_eq_true, if_false]
        exact evalAbbrevState_eq t c.ia hia
      · rw [hr, setIA_self]; exact ⟨rfl, rfl, rfl, rfl⟩
    · simp only [hab, Bool.false_eq_true, if_false]
      have hr := axisProg_restores (m := m) (a := a) ax c.ia hia
      refine ⟨?_, ?_⟩
      · have := evalStepState_eq (m := m) (a := a) ax t ab c.ia hia (hV c.item)
        unfold evalStepState at this
        rw [hb] at this
        simp only [Bool.false_eq_true, if_false] at this
        exact this
      · rw [hr, setIA_self]; exact ⟨rfl, rfl, rfl, rfl⟩

/-- the `select_with_focus` loop: values are those of the body at each focus; the axis stays `None` -/
theorem loopS_spec (g : SCtx → Val × SCtx) (h : Focus → Val)
    (hg : ∀ c, c.axis = none → (g c).1 = h c.focus ∧ (g c).2.axis = none ∧
      (g c).2.pos = c.pos ∧ (g c).2.size = c.size) :
    ∀ (foc : List Focus) (c : SCtx), c.axis = none →
      (loopS g foc c).1 = foc.map h ∧ (loopS g foc c).2.axis = none ∧
      (∀ P S, c.pos = P → c.size = S → (∀ f ∈ foc, f.pos = P ∧ f.size = S) →
        (loopS g foc c).2.pos = P ∧ (loopS g foc c).2.size = S)
  | [], c, hc => ⟨rfl, hc, fun P S hp hs _ => ⟨hp, hs⟩⟩
  | f :: fs, c, hc => by
    have h1 := hg { c with item := f.item, pos := f.pos, size := f.size } hc
    have ih := loopS_spec g h hg fs (g { c with item := f.item, pos := f.pos, size := f.size }).2 h1.2.1
    simp only [loopS, List.map_cons]
    refine ⟨?_, ih.2.1, ?_⟩
    · rw [ih.1, h1.1]; rfl
    · intro P S hp hs hf
      have hf0 := hf f (by simp)
      apply ih.2.2 P S
      · rw [h1.2.2.1]; exact hf0.1
      · rw [h1.2.2.2]; exact hf0.2
      · intro f' hf'; exact hf f' (List.mem_cons_of_mem _ hf')

theorem valNodes_eq (o : Option (List Nat)) :
    valNodes o = (match o with | some rs => Val.nodes (docOrder rs) | none => Val.err) := by
  cases o <;> rfl

theorem evalS_spec (hV : ∀ n, isDummyDoc m n = true → kd a n = .doc) :
    ∀ (e : Expr) (t : Ty) (c : SCtx), ty e = some t → c.axis = none →
      (evalS m a e c).1 = eval m a e c.focus ∧ Kept e c (evalS m a e c).2 := by
  intro e
  induction e with
  | step ax t' ab =>
    intro t c _ hc
    have := stepS_spec hV ax t' ab c hc
    simp only [evalS, eval]
    exact ⟨by rw [this.1]; rfl, this.2⟩
  | ctxItem =>
    intro t c _ hc
    simp only [evalS, eval]
    refine ⟨rfl, ?_⟩
    rw [prog_restores .self c.ia, setIA_self]; exact ⟨rfl, rfl, rfl, rfl⟩
  | parentAbbr =>
    intro t c _ hc
    simp only [evalS, eval]
    refine ⟨rfl, ?_⟩
    rw [prog_restores .parent c.ia, setIA_self]; exact ⟨rfl, rfl, rfl, rfl⟩
  | rootOnly => intro t c _ _; exact ⟨rfl, ⟨rfl, rfl, rfl, rfl⟩⟩
  | num k => intro t c _ _; exact ⟨rfl, ⟨rfl, rfl, rfl, rfl⟩⟩
  | lit ng k => intro t c _ _; exact ⟨rfl, ⟨rfl, rfl, rfl, rfl⟩⟩
  | position => intro t c _ _; exact ⟨rfl, ⟨rfl, rfl, rfl, rfl⟩⟩
  | last => intro t c _ _; exact ⟨rfl, ⟨rfl, rfl, rfl, rfl⟩⟩
  | paren e ih =>
    intro t c h hc
    simp only [ty] at h
    have := ih t c h hc
    simp only [evalS, eval]
    exact ⟨this.1, by have := this.2; exact ⟨this.1, this.2.1, this.2.2.1, this.2.2.2⟩⟩
  | count e ih =>
    intro t c h hc
    obtain ⟨h1, rfl⟩ := ty_count h
    have := ih .path c h1 hc
    simp only [evalS, eval, this.1]
    refine ⟨?_, ?_⟩
    · cases eval m a e c.focus <;> rfl
    · have k := this.2
      exact ⟨k.1, k.2.1, k.2.2.1, k.2.2.2⟩
  | root e ih =>
    intro t c h hc
    obtain ⟨h1, rfl⟩ := ty_root h
    have := ih .path { c with item := 0 } h1 hc
    simp only [evalS, eval]
    refine ⟨this.1, ?_⟩
    have k := this.2
    exact ⟨k.1, k.2.1, k.2.2.1, rfl⟩
  | pred e p ihe ihp =>
    intro t c h hc
    obtain ⟨h1, ⟨tp, h2⟩, rfl⟩ := ty_pred h
    have hentry : swfEntry e c = c := by unfold swfEntry; split; rfl; exact sctx_axis_none hc
    have he := (ihe .path c h1 hc).1
    simp only [evalS, eval, hentry, he]
    refine ⟨?_, ?_⟩
    · cases hv : eval m a e c.focus with
      | nodes l =>
        simp only
        congr 2
        apply List.map_congr_left
        intro f' _
        rw [(ihp tp (SCtx.ofFocus f') h2 rfl).1]
        rfl
      | num k => rfl
      | dec ng k => rfl
      | bool b => rfl
      | err => rfl
    · cases eval m a e c.focus <;> exact ⟨rfl, rfl, rfl, rfl⟩
  | slash l r ihl ihr =>
    intro t c h hc
    obtain ⟨h1, h2, rfl⟩ := ty_slash h
    have hentry : swfEntry l c = c := by unfold swfEntry; split; rfl; exact sctx_axis_none hc
    have hl := (ihl .path c h1 hc).1
    have hg : ∀ c', c'.axis = none → (evalS m a r c').1 = eval m a r c'.focus ∧
        (evalS m a r c').2.axis = none ∧ (evalS m a r c').2.pos = c'.pos ∧
        (evalS m a r c').2.size = c'.size := by
      intro c' hc'
      have := ihr .path c' h2 hc'
      have k := this.2
      exact ⟨this.1, by rw [k.1]; exact hc', k.2.1, k.2.2.1⟩
    simp only [evalS, eval, hentry, hl]
    refine ⟨?_, ?_⟩
    · cases hv : eval m a l c.focus with
      | nodes ls =>
        simp only
        rw [(loopS_spec _ _ hg _ _ (by rfl)).1]
        exact valNodes_eq _
      | num k => rfl
      | dec ng k => rfl
      | bool b => rfl
      | err => rfl
    · cases eval m a l c.focus <;> exact ⟨rfl, rfl, rfl, rfl⟩
  | dslash l r ihl ihr =>
    intro t c h hc
    obtain ⟨h1, h2, rfl⟩ := ty_dslash h
    have hentry : swfEntry l c = c := by unfold swfEntry; split; rfl; exact sctx_axis_none hc
    have hl := (ihl .path c h1 hc).1
    have hg : ∀ c', c'.axis = none → (evalS m a r c').1 = eval m a r c'.focus ∧
        (evalS m a r c').2.axis = none ∧ (evalS m a r c').2.pos = c'.pos ∧
        (evalS m a r c').2.size = c'.size := by
      intro c' hc'
      have := ihr .path c' h2 hc'
      have k := this.2
      exact ⟨this.1, by rw [k.1]; exact hc', k.2.1, k.2.2.1⟩
    simp only [evalS, eval, hentry, hl]
    refine ⟨?_, ?_⟩
    · cases hv : eval m a l c.focus with
      | nodes ls =>
        simp only
        rw [(loopS_spec _ _ hg _ _ (by rfl)).1]
        exact valNodes_eq _
      | num k => rfl
      | dec ng k => rfl
      | bool b => rfl
      | err => rfl
    · cases eval m a l c.focus <;> exact ⟨rfl, rfl, rfl, rfl⟩
  | droot e ih =>
    intro t c h hc
    obtain ⟨h1, rfl⟩ := ty_droot h
    have hg : ∀ c', c'.axis = none → (evalS m a e c').1 = eval m a e c'.focus ∧
        (evalS m a e c').2.axis = none ∧ (evalS m a e c').2.pos = c'.pos ∧
        (evalS m a e c').2.size = c'.size := by
      intro c' hc'
      have := ih .path c' h1 hc'
      have k := this.2
      exact ⟨this.1, by rw [k.1]; exact hc', k.2.1, k.2.2.1⟩
    have hloop := loopS_spec _ _ hg
      ((iterDescendants m a true 0).map fun d => (⟨d, c.pos, c.size⟩ : Focus))
      { c with item := 0, axis := none } rfl
    simp only [evalS, eval]
    refine ⟨?_, ?_⟩
    · rw [hloop.1]
      exact valNodes_eq _
    · have hps := hloop.2.2 c.pos c.size rfl rfl (by
        intro f hf
        rw [List.mem_map] at hf
        obtain ⟨d, _, rfl⟩ := hf
        exact ⟨rfl, rfl⟩)
      exact ⟨rfl, hps.1, hps.2, rfl⟩
  | union l r ihl ihr =>
    intro t c h hc
    obtain ⟨h1, h2, rfl⟩ := ty_union h
    have hcopy : c.copy = c := sctx_axis_none hc
    simp only [evalS, eval, hcopy, (ihl .path c h1 hc).1, (ihr .path c h2 hc).1]
    refine ⟨?_, ⟨rfl, rfl, rfl, rfl⟩⟩
    cases eval m a l c.focus <;> cases eval m a r c.focus <;> rfl
  | cmp op l r ihl ihr =>
    intro t c h hc
    obtain ⟨h1, h2, rfl⟩ := ty_cmp h
    have hcopy : c.copy = c := sctx_axis_none hc
    simp only [evalS, eval, hcopy, (ihl .num c h1 hc).1, (ihr .num c h2 hc).1]
    refine ⟨?_, ⟨rfl, rfl, rfl, rfl⟩⟩
    cases eval m a l c.focus <;> cases eval m a r c.focus <;> rfl
  | and l r ihl ihr =>
    intro t c h hc
    obtain ⟨⟨tl, h1⟩, ⟨tr, h2⟩, rfl⟩ := ty_and h
    have hcopy : c.copy = c := sctx_axis_none hc
    simp only [evalS, eval, hcopy, (ihl tl c h1 hc).1, (ihr tr c h2 hc).1, evalS.andVal']
    refine ⟨?_, ⟨rfl, rfl, rfl, rfl⟩⟩
    generalize ebv (eval m a l c.focus) = x
    generalize ebv (eval m a r c.focus) = y
    rcases x with _ | (_ | _) <;> rcases y with _ | (_ | _) <;> rfl
  | or l r ihl ihr =>
    intro t c h hc
    obtain ⟨⟨tl, h1⟩, ⟨tr, h2⟩, rfl⟩ := ty_or h
    have hcopy : c.copy = c := sctx_axis_none hc
    simp only [evalS, eval, hcopy, (ihl tl c h1 hc).1, (ihr tr c h2 hc).1, evalS.orVal']
    refine ⟨?_, ⟨rfl, rfl, rfl, rfl⟩⟩
    generalize ebv (eval m a l c.focus) = x
    generalize ebv (eval m a r c.focus) = y
    rcases x with _ | (_ | _) <;> rcases y with _ | (_ | _) <;> rfl
  | not e ih =>
    intro t c h hc
    obtain ⟨⟨te, h1⟩, rfl⟩ := ty_not h
    have hcopy : c.copy = c := sctx_axis_none hc
    simp only [evalS, eval, hcopy, (ih te c h1 hc).1]
    refine ⟨?_, ⟨rfl, rfl, rfl, rfl⟩⟩
    generalize ebv (eval m a e c.focus) = x
    rcases x with _ | (_ | _) <;> rfl

end EPV.XP

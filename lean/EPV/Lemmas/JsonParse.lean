/-
C17 helper lemmas: the RFC 8259 reader (`parseValueF` / `parseJson`) reads back every rendering
`render esc v` whose string encoder `esc` is readable character by character (`EscOK`).
-/
import EPV.Lemmas.JsonString
import EPV.Lemmas.JsonNumber
set_option linter.unusedSectionVars false
namespace EPV.Json

/-- normal form of a decimal floating number (what `float.__repr__`'s digit generator delivers) -/
def wfDec (d : Dec) : Bool :=
  !d.digits.isEmpty && d.digits.all (· < 10) &&
  ((d.digits == [0] && d.decpt == 1) || (d.digits.head? != some 0 && d.digits.getLast? != some 0))

mutual
/-- every character of every string (and key) satisfies `okC`, every double satisfies `okD` -/
def JValue.validWith (okC : Nat → Bool) (okD : Dec → Bool) : JValue → Bool
  | .str s => s.all okC
  | .dbl d => okD d
  | .arr l => validL okC okD l
  | .obj m => validM okC okD m
  | _ => true
def validL (okC : Nat → Bool) (okD : Dec → Bool) : List JValue → Bool
  | [] => true
  | v :: t => v.validWith okC okD && validL okC okD t
def validM (okC : Nat → Bool) (okD : Dec → Bool) : List (Str × JValue) → Bool
  | [] => true
  | (k, v) :: t => k.all okC && v.validWith okC okD && validM okC okD t
end

/-- strings are sequences of Unicode scalar values, doubles are in normal form -/
abbrev JValue.valid (v : JValue) : Bool := v.validWith isScalar wfDec

mutual
def JValue.size : JValue → Nat
  | .arr l => 1 + sizeL l
  | .obj m => 1 + sizeM m
  | _ => 1
def sizeL : List JValue → Nat
  | [] => 0
  | v :: t => 1 + v.size + sizeL t
def sizeM : List (Str × JValue) → Nat
  | [] => 0
  | (_, v) :: t => 1 + v.size + sizeM t
end

/-- what may follow a value inside a JSON text: nothing, `,`, `]` or `}` -/
def sepEnd : Str → Prop
  | [] => True
  | c :: _ => c = 44 ∨ c = 93 ∨ c = 125

theorem numEnd_of_sepEnd (rest : Str) (h : sepEnd rest) : numEnd rest := by
  cases rest with
  | nil => trivial
  | cons c t =>
    rcases h with h | h | h <;> subst h <;> exact ⟨by decide, by decide, by decide, by decide⟩

def numStart (c : Nat) : Prop := c = 45 ∨ isDigit c = true

theorem renderInt_head (n : Int) : ∃ c t, renderInt n = c :: t ∧ numStart c := by
  unfold renderInt
  by_cases h : n < 0
  · exact ⟨45, digitChars (natDigits n.natAbs), by simp [h], Or.inl rfl⟩
  · obtain ⟨d, t, hdt⟩ : ∃ d t, natDigits n.natAbs = d :: t := by
      cases hx : natDigits n.natAbs with
      | nil => exact absurd hx (natDigits_ne_nil _)
      | cons d t => exact ⟨d, t, rfl⟩
    have hd : d < 10 := natDigits_lt10 n.natAbs d (by rw [hdt]; simp)
    refine ⟨48 + d, digitChars t, by simp [h, hdt, digitChars], Or.inr ?_⟩
    simp [isDigit]; omega

/-- a number token: starts like a number and is read back by the RFC reader -/
def NumOK (tok : Str) (v : JValue) : Prop :=
  (∃ c t, tok = c :: t ∧ numStart c) ∧ ∀ rest, numEnd rest → parseNum (tok ++ rest) = some (v, rest)

theorem parseValueF_num (tok : Str) (v : JValue) (h : NumOK tok v) (f : Nat) (rest : Str) (hr : numEnd rest) :
    parseValueF (f + 1) (tok ++ rest) = some (v, rest) := by
  obtain ⟨⟨c, t, hct, hc⟩, hp⟩ := h
  have := hp rest hr
  rw [hct] at this ⊢
  have hne : c ≠ 91 ∧ c ≠ 123 ∧ c ≠ 34 ∧ c ≠ 110 ∧ c ≠ 116 ∧ c ≠ 102 := by
    rcases hc with hc | hc
    · subst hc; decide
    · simp [isDigit] at hc; omega
  simp only [List.cons_append] at this ⊢
  simp only [parseValueF, hne, if_false]
  exact this

mutual
/-- `render` with arbitrary number tokens (proof device: the texts xml-to-json writes for numbers) -/
def renderG (esc : Nat → Str) (numI : Int → Str) (numD : Dec → Str) : JValue → Str
  | .null => [110, 117, 108, 108]
  | .bool true => [116, 114, 117, 101]
  | .bool false => [102, 97, 108, 115, 101]
  | .int n => numI n
  | .dbl d => numD d
  | .str s => 34 :: (s.flatMap esc ++ [34])
  | .arr l => 91 :: renderGL esc numI numD l
  | .obj m => 123 :: renderGM esc numI numD m
def renderGL (esc : Nat → Str) (numI : Int → Str) (numD : Dec → Str) : List JValue → Str
  | [] => [93]
  | v :: t => renderG esc numI numD v ++ (match t with | [] => [93] | _ :: _ => 44 :: renderGL esc numI numD t)
def renderGM (esc : Nat → Str) (numI : Int → Str) (numD : Dec → Str) : List (Str × JValue) → Str
  | [] => [125]
  | (k, v) :: t =>
    34 :: (k.flatMap esc ++ [34, 58]) ++ renderG esc numI numD v ++
      (match t with | [] => [125] | _ :: _ => 44 :: renderGM esc numI numD t)
end

mutual
/-- replace every number by what its token is read as -/
def mapNum (fI : Int → JValue) (fD : Dec → JValue) : JValue → JValue
  | .int n => fI n
  | .dbl d => fD d
  | .arr l => .arr (mapNumL fI fD l)
  | .obj m => .obj (mapNumM fI fD m)
  | v => v
def mapNumL (fI : Int → JValue) (fD : Dec → JValue) : List JValue → List JValue
  | [] => []
  | v :: t => mapNum fI fD v :: mapNumL fI fD t
def mapNumM (fI : Int → JValue) (fD : Dec → JValue) : List (Str × JValue) → List (Str × JValue)
  | [] => []
  | (k, v) :: t => (k, mapNum fI fD v) :: mapNumM fI fD t
end

section
variable (esc : Nat → Str) (numI : Int → Str) (numD : Dec → Str) (fI : Int → JValue) (fD : Dec → JValue)
  (okC : Nat → Bool) (hesc : ∀ c, okC c = true → EscOK esc c) (okD : Dec → Bool)
  (hI : ∀ n, NumOK (numI n) (fI n)) (hdbl : ∀ d, okD d = true → NumOK (numD d) (fD d))
include hesc hI hdbl

omit hI hdbl in
theorem escOK_allG (s : Str) (h : s.all okC = true) : ∀ c ∈ s, EscOK esc c := by
  intro c hc
  exact hesc c (List.all_eq_true.mp h c hc)

omit hesc in
/-- first character of a rendering: never `]` or `}` -/
theorem render_headG : ∀ v : JValue, v.validWith okC okD = true → ∃ c t, renderG esc numI numD v = c :: t ∧ c ≠ 93 ∧ c ≠ 125 := by
  intro v hv
  cases v with
  | null => exact ⟨110, _, rfl, by decide, by decide⟩
  | bool b => cases b <;> simp [renderG]
  | int n =>
    obtain ⟨⟨c, t, h, hc⟩, _⟩ := hI n
    refine ⟨c, t, by simp [renderG, h], ?_⟩
    rcases hc with hc | hc
    · subst hc; decide
    · simp [isDigit] at hc; omega
  | dbl d =>
    obtain ⟨⟨c, t, h, hc⟩, _⟩ := hdbl d (by simpa [JValue.validWith] using hv)
    refine ⟨c, t, by simp [renderG, h], ?_⟩
    rcases hc with hc | hc
    · subst hc; decide
    · simp [isDigit] at hc; omega
  | str s => exact ⟨34, s.flatMap esc ++ [34], by simp [renderG], by decide, by decide⟩
  | arr l => exact ⟨91, renderGL esc numI numD l, by simp [renderG], by decide, by decide⟩
  | obj m => exact ⟨123, renderGM esc numI numD m, by simp [renderG], by decide, by decide⟩

omit hesc hI hdbl in
theorem renderL_headG (v : JValue) (t : List JValue) (rest : Str) (c : Nat) (tl : Str)
    (hct : renderG esc numI numD v = c :: tl) : ∃ tl', renderGL esc numI numD (v :: t) ++ rest = c :: tl' := by
  cases t <;> simp [renderGL, hct]

mutual
theorem parse_renderG : ∀ (v : JValue), v.validWith okC okD = true → ∀ (f : Nat) (rest : Str), sepEnd rest → v.size ≤ f →
    parseValueF f (renderG esc numI numD v ++ rest) = some (mapNum fI fD v, rest)
  | .null, _, f, rest, _, hf => by
    obtain ⟨f', rfl⟩ : ∃ f', f = f' + 1 := ⟨f - 1, by simp [JValue.size] at hf; omega⟩
    simp [renderG, parseValueF, mapNum]
  | .bool true, _, f, rest, _, hf => by
    obtain ⟨f', rfl⟩ : ∃ f', f = f' + 1 := ⟨f - 1, by simp [JValue.size] at hf; omega⟩
    simp [renderG, parseValueF, mapNum]
  | .bool false, _, f, rest, _, hf => by
    obtain ⟨f', rfl⟩ : ∃ f', f = f' + 1 := ⟨f - 1, by simp [JValue.size] at hf; omega⟩
    simp [renderG, parseValueF, mapNum]
  | .int n, _, f, rest, hr, hf => by
    obtain ⟨f', rfl⟩ : ∃ f', f = f' + 1 := ⟨f - 1, by simp [JValue.size] at hf; omega⟩
    exact parseValueF_num (numI n) (fI n) (hI n) f' rest (numEnd_of_sepEnd rest hr)
  | .dbl d, hv, f, rest, hr, hf => by
    obtain ⟨f', rfl⟩ : ∃ f', f = f' + 1 := ⟨f - 1, by simp [JValue.size] at hf; omega⟩
    exact parseValueF_num (numD d) (fD d) (hdbl d (by simpa [JValue.validWith] using hv)) f' rest
      (numEnd_of_sepEnd rest hr)
  | .str s, hv, f, rest, _, hf => by
    obtain ⟨f', rfl⟩ : ∃ f', f = f' + 1 := ⟨f - 1, by simp [JValue.size] at hf; omega⟩
    have hs := escOK_allG esc okC hesc s (by simpa [JValue.validWith] using hv)
    have := parseStrF_body esc s hs rest
    rw [show renderG esc numI numD (.str s) ++ rest = 34 :: (s.flatMap esc ++ 34 :: rest) by simp [renderG]]
    simp only [parseValueF, show (34 : Nat) ≠ 91 by decide, show (34 : Nat) ≠ 123 by decide, if_false, if_true]
    rw [this]; rfl
  | .arr [], _, f, rest, _, hf => by
    obtain ⟨f', rfl⟩ : ∃ f', f = f' + 1 := ⟨f - 1, by simp [JValue.size] at hf; omega⟩
    simp [renderG, renderGL, parseValueF, mapNum, mapNumL]
  | .arr (v :: t), hv, f, rest, hr, hf => by
    obtain ⟨f', rfl⟩ : ∃ f', f = f' + 1 := ⟨f - 1, by simp [JValue.size] at hf; omega⟩
    have hv' : validL okC okD (v :: t) = true := by simpa [JValue.validWith] using hv
    have hvv : v.validWith okC okD = true := by simp [validL] at hv'; exact hv'.1
    have hl := parse_renderLG (v :: t) (by simp) hv' f' rest (by simp [JValue.size] at hf; omega)
    obtain ⟨c, tl, hct, h93, _⟩ := render_headG esc numI numD fI fD okC okD hI hdbl v hvv
    obtain ⟨tl', htl⟩ := renderL_headG esc numI numD v t rest c tl hct
    simp only [renderG, List.cons_append, parseValueF, if_true]
    rw [htl] at hl ⊢
    split
    · rename_i heq; simp at heq; exact absurd heq.1 h93
    · rw [hl]; rfl
  | .obj [], _, f, rest, _, hf => by
    obtain ⟨f', rfl⟩ : ∃ f', f = f' + 1 := ⟨f - 1, by simp [JValue.size] at hf; omega⟩
    simp [renderG, renderGM, parseValueF, mapNum, mapNumM]
  | .obj ((k, v) :: t), hv, f, rest, hr, hf => by
    obtain ⟨f', rfl⟩ : ∃ f', f = f' + 1 := ⟨f - 1, by simp [JValue.size] at hf; omega⟩
    have hv' : validM okC okD ((k, v) :: t) = true := by simpa [JValue.validWith] using hv
    have hl := parse_renderMG ((k, v) :: t) (by simp) hv' f' rest (by simp [JValue.size] at hf; omega)
    have hhead : ∃ tl', renderGM esc numI numD ((k, v) :: t) ++ rest = 34 :: tl' := ⟨_, by simp [renderGM]; rfl⟩
    obtain ⟨tl', htl⟩ := hhead
    simp only [renderG, List.cons_append, parseValueF]
    simp only [show (123 : Nat) ≠ 91 by decide, if_false, if_true]
    rw [htl] at hl ⊢
    simp only [hl]; rfl
theorem parse_renderLG : ∀ (l : List JValue), l ≠ [] → validL okC okD l = true → ∀ (f : Nat) (rest : Str), sizeL l ≤ f →
    parseElemsF f (renderGL esc numI numD l ++ rest) = some (mapNumL fI fD l, rest)
  | [], h, _, _, _, _ => absurd rfl h
  | [v], _, hv, f, rest, hf => by
    obtain ⟨f', rfl⟩ : ∃ f', f = f' + 1 := ⟨f - 1, by simp [sizeL] at hf; omega⟩
    have hvv : v.validWith okC okD = true := by simp [validL] at hv; exact hv
    have := parse_renderG v hvv f' (93 :: rest) (Or.inr (Or.inl rfl)) (by simp [sizeL] at hf; omega)
    simp only [renderGL, List.append_assoc, List.singleton_append, parseElemsF, this, mapNumL]
  | v :: w :: t, _, hv, f, rest, hf => by
    obtain ⟨f', rfl⟩ : ∃ f', f = f' + 1 := ⟨f - 1, by simp [sizeL] at hf; omega⟩
    have hvv : v.validWith okC okD = true ∧ validL okC okD (w :: t) = true := by simpa [validL] using hv
    have h1 := parse_renderG v hvv.1 f' (44 :: (renderGL esc numI numD (w :: t) ++ rest)) (Or.inl rfl)
      (by simp [sizeL] at hf ⊢; omega)
    have h2 := parse_renderLG (w :: t) (by simp) hvv.2 f' rest (by simp [sizeL] at hf ⊢; omega)
    rw [show renderGL esc numI numD (v :: w :: t) ++ rest = renderG esc numI numD v ++ 44 :: (renderGL esc numI numD (w :: t) ++ rest) by
      simp [renderGL]]
    simp only [parseElemsF, h1, h2, mapNumL]; rfl
theorem parse_renderMG : ∀ (m : List (Str × JValue)), m ≠ [] → validM okC okD m = true → ∀ (f : Nat) (rest : Str),
    sizeM m ≤ f → parseMembersF f (renderGM esc numI numD m ++ rest) = some (mapNumM fI fD m, rest)
  | [], h, _, _, _, _ => absurd rfl h
  | [(k, v)], _, hv, f, rest, hf => by
    obtain ⟨f', rfl⟩ : ∃ f', f = f' + 1 := ⟨f - 1, by simp [sizeM] at hf; omega⟩
    have hvv : k.all okC = true ∧ v.validWith okC okD = true := by simpa [validM] using hv
    have hk := parseStrF_body esc k (escOK_allG esc okC hesc k hvv.1) (58 :: (renderG esc numI numD v ++ 125 :: rest))
    have h1 := parse_renderG v hvv.2 f' (125 :: rest) (Or.inr (Or.inr rfl)) (by simp [sizeM] at hf; omega)
    rw [show renderGM esc numI numD [(k, v)] ++ rest = 34 :: (k.flatMap esc ++ 34 :: 58 :: (renderG esc numI numD v ++ 125 :: rest)) by
      simp [renderGM]]
    simp only [parseMembersF, hk, h1, mapNumM]
  | (k, v) :: w :: t, _, hv, f, rest, hf => by
    obtain ⟨f', rfl⟩ : ∃ f', f = f' + 1 := ⟨f - 1, by simp [sizeM] at hf; omega⟩
    have hvv : (k.all okC = true ∧ v.validWith okC okD = true) ∧ validM okC okD (w :: t) = true := by
      simpa [validM] using hv
    have hk := parseStrF_body esc k (escOK_allG esc okC hesc k hvv.1.1)
      (58 :: (renderG esc numI numD v ++ 44 :: (renderGM esc numI numD (w :: t) ++ rest)))
    have h1 := parse_renderG v hvv.1.2 f' (44 :: (renderGM esc numI numD (w :: t) ++ rest)) (Or.inl rfl)
      (by simp [sizeM] at hf ⊢; omega)
    have h2 := parse_renderMG (w :: t) (by simp) hvv.2 f' rest (by simp [sizeM] at hf ⊢; omega)
    rw [show renderGM esc numI numD ((k, v) :: w :: t) ++ rest =
        34 :: (k.flatMap esc ++ 34 :: 58 :: (renderG esc numI numD v ++ 44 :: (renderGM esc numI numD (w :: t) ++ rest))) by
      simp [renderGM]]
    simp only [parseMembersF, hk, h1, h2, mapNumM]; rfl
end


mutual
theorem size_le_renderG : ∀ (v : JValue), v.validWith okC okD = true → v.size ≤ (renderG esc numI numD v).length
  | .null, _ => by simp [JValue.size, renderG]
  | .bool true, _ => by simp [JValue.size, renderG]
  | .bool false, _ => by simp [JValue.size, renderG]
  | .int n, _ => by
    obtain ⟨⟨c, t, h, _⟩, _⟩ := hI n
    simp [JValue.size, renderG, h]
  | .dbl d, hv => by
    obtain ⟨⟨c, t, h, _⟩, _⟩ := hdbl d (by simpa [JValue.validWith] using hv)
    simp [JValue.size, renderG, h]
  | .str s, _ => by simp [JValue.size, renderG]
  | .arr l, hv => by
    have := size_le_renderLG l (by simpa [JValue.validWith] using hv)
    simp [JValue.size, renderG]; omega
  | .obj m, hv => by
    have := size_le_renderMG m (by simpa [JValue.validWith] using hv)
    simp [JValue.size, renderG]; omega
theorem size_le_renderLG : ∀ (l : List JValue), validL okC okD l = true → sizeL l ≤ (renderGL esc numI numD l).length
  | [], _ => by simp [sizeL, renderGL]
  | [v], hv => by
    have := size_le_renderG v (by simpa [validL] using hv)
    simp [sizeL, renderGL]; omega
  | v :: w :: t, hv => by
    have hvv : v.validWith okC okD = true ∧ validL okC okD (w :: t) = true := by simpa [validL] using hv
    have h1 := size_le_renderG v hvv.1
    have h2 := size_le_renderLG (w :: t) hvv.2
    simp only [sizeL, renderGL, List.length_append, List.length_cons] at h2 ⊢; omega
theorem size_le_renderMG : ∀ (m : List (Str × JValue)), validM okC okD m = true → sizeM m ≤ (renderGM esc numI numD m).length
  | [], _ => by simp [sizeM, renderGM]
  | [(k, v)], hv => by
    have hvv : k.all okC = true ∧ v.validWith okC okD = true := by simpa [validM] using hv
    have := size_le_renderG v hvv.2
    simp [sizeM, renderGM]; omega
  | (k, v) :: w :: t, hv => by
    have hvv : (k.all okC = true ∧ v.validWith okC okD = true) ∧ validM okC okD (w :: t) = true := by
      simpa [validM] using hv
    have h1 := size_le_renderG v hvv.1.2
    have h2 := size_le_renderMG (w :: t) hvv.2
    simp only [sizeM, renderGM, List.length_append, List.length_cons] at h2 ⊢; omega
end

/-- a complete text: the RFC 8259 reader returns the value that was rendered -/
theorem parseJson_renderG (v : JValue) (hv : v.validWith okC okD = true) : parseJson (renderG esc numI numD v) = some (mapNum fI fD v) := by
  have h := parse_renderG esc numI numD fI fD okC hesc okD hI hdbl v hv ((renderG esc numI numD v).length + 1) [] trivial
    (by have := size_le_renderG esc numI numD fI fD okC hesc okD hI hdbl v hv; omega)
  simp only [List.append_nil] at h
  simp [parseJson, h]

end


/-! ### the standard rendering is the instance `numI = renderInt`, `numD = reprDouble` -/

mutual
theorem renderG_std (esc : Nat → Str) : ∀ v : JValue, renderG esc renderInt reprDouble v = render esc v
  | .null => rfl
  | .bool true => rfl
  | .bool false => rfl
  | .int _ => rfl
  | .dbl _ => rfl
  | .str _ => rfl
  | .arr l => by simp only [renderG, render, renderGL_std esc l]
  | .obj m => by simp only [renderG, render, renderGM_std esc m]
theorem renderGL_std (esc : Nat → Str) : ∀ l : List JValue, renderGL esc renderInt reprDouble l = renderL esc l
  | [] => rfl
  | [v] => by simp only [renderGL, renderL, renderG_std esc v]
  | v :: w :: t => by
    have := renderGL_std esc (w :: t)
    simp only [renderGL, renderL, renderG_std esc v] at this ⊢
    rw [this]
theorem renderGM_std (esc : Nat → Str) : ∀ m : List (Str × JValue), renderGM esc renderInt reprDouble m = renderM esc m
  | [] => rfl
  | [(k, v)] => by simp only [renderGM, renderM, renderG_std esc v]
  | (k, v) :: w :: t => by
    have := renderGM_std esc (w :: t)
    simp only [renderGM, renderM, renderG_std esc v] at this ⊢
    rw [this]
end

mutual
theorem mapNum_id : ∀ v : JValue, mapNum JValue.int JValue.dbl v = v
  | .null => rfl
  | .bool _ => rfl
  | .int _ => rfl
  | .dbl _ => rfl
  | .str _ => rfl
  | .arr l => by simp only [mapNum, mapNumL_id l]
  | .obj m => by simp only [mapNum, mapNumM_id m]
theorem mapNumL_id : ∀ l : List JValue, mapNumL JValue.int JValue.dbl l = l
  | [] => rfl
  | v :: t => by simp only [mapNumL, mapNum_id v, mapNumL_id t]
theorem mapNumM_id : ∀ m : List (Str × JValue), mapNumM JValue.int JValue.dbl m = m
  | [] => rfl
  | (k, v) :: t => by simp only [mapNumM, mapNum_id v, mapNumM_id t]
end

/-- a complete text: the RFC 8259 reader returns the value that was rendered -/
theorem parseJson_render (esc : Nat → Str) (okC : Nat → Bool) (hesc : ∀ c, okC c = true → EscOK esc c)
    (okD : Dec → Bool) (hdbl : ∀ d, okD d = true → NumOK (reprDouble d) (.dbl d))
    (v : JValue) (hv : v.validWith okC okD = true) : parseJson (render esc v) = some v := by
  have := parseJson_renderG esc renderInt reprDouble JValue.int JValue.dbl okC hesc okD
    (fun n => ⟨renderInt_head n, fun r hr => parseNum_renderInt n r hr⟩) hdbl v hv
  rw [renderG_std, mapNum_id] at this
  exact this

/-! ### `.replace('/', '\\/')` on the whole text = escaping `/` inside the strings -/

def slashMap (x : Nat) : Str := if x = 47 then [92, 47] else [x]

theorem slash_noop (s : Str) (h : ∀ y ∈ s, y ≠ 47) : s.flatMap slashMap = s := by
  induction s with
  | nil => rfl
  | cons x t ih =>
    have hx : x ≠ 47 := h x (by simp)
    simp [List.flatMap_cons, slashMap, hx, ih (fun y hy => h y (by simp [hy]))]

theorem hexDigitL_ne (d : Nat) : hexDigitL d ≠ 47 := by unfold hexDigitL; split <;> omega

theorem pyDumpsChar_slash (c : Nat) : (pyDumpsChar c).flatMap slashMap = serChar c := by
  by_cases h : c = 47
  · subst h; decide
  · rw [slash_noop]
    · simp [serChar, h]
    · intro y hy
      unfold pyDumpsChar at hy
      have := hexDigitL_ne
      simp only [hex4L] at hy
      split at hy
      · simp at hy; omega
      split at hy
      · simp at hy; omega
      split at hy
      · simp at hy; omega
      split at hy
      · simp at hy; omega
      split at hy
      · simp at hy; omega
      split at hy
      · simp at hy; omega
      split at hy
      · simp at hy; omega
      split at hy
      · simp at hy; omega
      split at hy
      · simp at hy
        rcases hy with hy | hy | hy | hy | hy | hy <;> first | omega | (rw [hy]; exact this _)
      · simp at hy
        rcases hy with hy | hy | hy | hy | hy | hy | hy | hy | hy | hy | hy | hy <;>
          first | omega | (rw [hy]; exact this _)

theorem digitChars_ne (l : List Nat) : ∀ y ∈ digitChars l, y ≠ 47 := by
  intro y hy
  simp [digitChars] at hy
  obtain ⟨a, _, rfl⟩ := hy
  omega

theorem renderInt_ne (n : Int) : ∀ y ∈ renderInt n, y ≠ 47 := by
  intro y hy
  unfold renderInt at hy
  split at hy
  · simp at hy
    rcases hy with hy | hy
    · omega
    · exact digitChars_ne _ y (by simpa [digitChars] using hy)
  · exact digitChars_ne _ y hy

theorem mem_ne_of_parts {y : Nat} {a b : Str} (ha : ∀ y ∈ a, y ≠ 47) (hb : ∀ y ∈ b, y ≠ 47)
    (h : y ∈ a ++ b) : y ≠ 47 := by
  rcases List.mem_append.mp h with h | h
  · exact ha y h
  · exact hb y h

theorem replicate48_ne (n : Nat) : ∀ y ∈ List.replicate n 48, y ≠ 47 := by
  intro y hy
  have := (List.mem_replicate.mp hy).2
  omega

theorem reprMantissa_ne (l : List Nat) : ∀ y ∈ reprMantissa l, y ≠ 47 := by
  intro y hy
  match l, hy with
  | [], hy => simp [reprMantissa] at hy
  | [a], hy => simp [reprMantissa] at hy; omega
  | a :: b :: r, hy =>
    simp only [reprMantissa, List.mem_cons] at hy
    rcases hy with hy | hy | hy
    · omega
    · omega
    · exact digitChars_ne _ y hy

theorem reprDouble_ne (d : Dec) : ∀ y ∈ reprDouble d, y ≠ 47 := by
  intro y hy
  unfold reprDouble at hy
  refine mem_ne_of_parts (a := if d.neg then [45] else []) (b := reprBody d) ?_ ?_ hy
  · intro y hy; split at hy
    · simp at hy; omega
    · simp at hy
  · intro y hy
    unfold reprBody at hy
    split at hy
    · unfold reprExpForm at hy
      refine mem_ne_of_parts (fun y hy => mem_ne_of_parts (reprMantissa_ne _) ?_ hy) (digitChars_ne _) hy
      intro y hy
      simp only [List.mem_cons, List.mem_nil_iff, or_false] at hy
      rcases hy with hy | hy
      · omega
      · split at hy <;> omega
    · unfold reprFixedForm at hy
      split at hy
      · refine mem_ne_of_parts (fun y hy => mem_ne_of_parts ?_ (replicate48_ne _) hy) (digitChars_ne _) hy
        intro y hy; simp at hy; omega
      · split at hy
        · refine mem_ne_of_parts (fun y hy => mem_ne_of_parts (digitChars_ne _) ?_ hy) (digitChars_ne _) hy
          intro y hy; simp at hy; omega
        · refine mem_ne_of_parts (fun y hy => mem_ne_of_parts (digitChars_ne _) (replicate48_ne _) hy) ?_ hy
          intro y hy; simp at hy; omega

theorem renderL_cons2 (esc : Nat → Str) (v w : JValue) (t : List JValue) :
    renderL esc (v :: w :: t) = render esc v ++ 44 :: renderL esc (w :: t) := rfl

theorem renderM_cons2 (esc : Nat → Str) (k : Str) (v : JValue) (w : Str × JValue) (t : List (Str × JValue)) :
    renderM esc ((k, v) :: w :: t) =
      34 :: (k.flatMap esc ++ [34, 58]) ++ render esc v ++ 44 :: renderM esc (w :: t) := rfl

mutual
theorem slash_render : ∀ v : JValue, (render pyDumpsChar v).flatMap slashMap = render serChar v
  | .null => by decide
  | .bool true => by decide
  | .bool false => by decide
  | .int n => by simp only [render]; exact slash_noop _ (renderInt_ne n)
  | .dbl d => by simp only [render]; exact slash_noop _ (reprDouble_ne d)
  | .str s => by
    simp only [render, List.flatMap_cons, List.flatMap_append, List.flatMap_assoc, List.flatMap_nil]
    have : (fun x => (pyDumpsChar x).flatMap slashMap) = serChar := funext pyDumpsChar_slash
    rw [this]; rfl
  | .arr l => by
    simp only [render, List.flatMap_cons]
    rw [slash_renderL l]; rfl
  | .obj m => by
    simp only [render, List.flatMap_cons]
    rw [slash_renderM m]; rfl
theorem slash_renderL : ∀ l : List JValue, (renderL pyDumpsChar l).flatMap slashMap = renderL serChar l
  | [] => by decide
  | [v] => by simp only [renderL, List.flatMap_append]; rw [slash_render v]; rfl
  | v :: w :: t => by
    rw [renderL_cons2, renderL_cons2, List.flatMap_append, List.flatMap_cons, slash_render v,
      slash_renderL (w :: t)]
    rfl
theorem slash_renderM : ∀ m : List (Str × JValue), (renderM pyDumpsChar m).flatMap slashMap = renderM serChar m
  | [] => by decide
  | [(k, v)] => by
    simp only [renderM, List.flatMap_append, List.flatMap_cons, List.flatMap_assoc, List.flatMap_nil]
    have : (fun x => (pyDumpsChar x).flatMap slashMap) = serChar := funext pyDumpsChar_slash
    rw [this, slash_render v]; rfl
  | (k, v) :: w :: t => by
    have : (fun x => (pyDumpsChar x).flatMap slashMap) = serChar := funext pyDumpsChar_slash
    rw [renderM_cons2, renderM_cons2]
    simp only [List.flatMap_append, List.flatMap_cons, List.flatMap_assoc, List.flatMap_nil]
    rw [this, slash_render v, slash_renderM (w :: t)]
    rfl
end

/-- `serialize_to_json` = rendering with the per-character string encoder `serChar` -/
theorem serializeJson_eq (v : JValue) : serializeJson v = render serChar v := by
  unfold serializeJson pyDumps
  rw [replaceAll_single]
  exact slash_render v

end EPV.Json

/-
C11 — round trips and the arithmetic operators (`_operation`, `adjust_datetime`) in terms of instants.
-/
import EPV.Lemmas.CalendarFromDelta
set_option linter.unusedVariables false
set_option linter.unusedSimpArgs false
namespace EPV.Cal
open EPV.Timeline (isLeap yearLen monthLen daysBeforeYearC daysBeforeMonthC dayNumC Val)

theorem astro_inj {y y' : Int} (h : y ≠ 0) (h' : y' ≠ 0) (e : astro y = astro y') : y = y' := by
  unfold astro at e; split at e <;> split at e <;> omega

theorem absV_inj {v w : DT} (hv : v.year ≠ 0) (hw : w.year ≠ 0) (e : absV v = absV w) : v = w := by
  obtain ⟨y, m, d, u, z⟩ := v
  obtain ⟨y', m', d', u', z'⟩ := w
  simp only [absV, Val.mk.injEq] at e
  obtain ⟨e1, rfl, rfl, rfl, rfl⟩ := e
  have := astro_inj hv hw e1
  subst this; rfl

theorem instantC_eq (v : Val) (hv : v.Valid) : v.instantC = v.instant := by
  unfold Val.instant Val.instantC Val.localT Val.localC
  rw [Timeline.dayNum_eq_C _ _ _ hv.1 hv.2.1]

/-- valid model values with the same timezone and the same instant are the same value -/
theorem dt_instant_inj {v w : DT} (hv : v.Valid) (hw : w.Valid) (htz : v.tz = w.tz)
    (h : (absV v).instantC = (absV w).instantC) : v = w := by
  apply absV_inj hv.1 hw.1
  apply Timeline.instant_inj hv.2.1 hw.2.1 htz
  rw [← instantC_eq _ hv.2.1, ← instantC_eq _ hw.2.1]; exact h

/-- offset in µs of an optional timezone -/
def offUs (tz : Option Int) : Int := match tz with | none => 0 | some z => z * UM

theorem instantC_local (v : Val) : v.instantC = v.localC - offUs v.tz := by
  unfold Val.instantC offUs
  cases v.tz <;> simp [UM, Timeline.UM]

@[simp] theorem absV_tz (v : DT) : (absV v).tz = v.tz := rfl
theorem localC_setTz (v : DT) (tz : Option Int) : (absV { v with tz := tz }).localC = (absV v).localC := rfl

theorem valid_setTz {v : DT} (hv : v.Valid) (tz : Option Int) (htz : TzOk tz) : ({ v with tz := tz } : DT).Valid :=
  ⟨hv.1, hv.2.1, htz⟩

/-- `fromdelta` of the local time of a valid value is that value without its timezone -/
theorem fromdelta_localC (v : DT) (hv : v.Valid) (h : TdOk (absV v).localC) :
    fromdelta false (absV v).localC = .ok { v with tz := none } := by
  obtain ⟨w, hw, hwv, hwtz, hwl⟩ := fromdelta_spec false _ h
  rw [hw]; congr 1
  have hv' : ({ v with tz := none } : DT).Valid := valid_setTz hv none (by intro z h; cases h)
  apply dt_instant_inj hwv hv' (by rw [hwtz])
  rw [instantC_local, instantC_local, absV_tz, absV_tz, hwtz, localC_setTz]
  simp only [Bool.false_eq_true, ↓reduceIte] at hwl
  rw [hwl]; rfl

/-- shape of `fromdelta`'s result: valid, no timezone, local time = the argument -/
theorem fromdelta_ok (t : Int) (h : TdOk t) :
    ∃ w, fromdelta false t = .ok w ∧ w.Valid ∧ w.tz = none ∧ (absV w).localC = t := by
  obtain ⟨w, hw, hwv, hwtz, hwl⟩ := fromdelta_spec false _ h
  exact ⟨w, hw, hwv, hwtz, by simpa using hwl⟩

/-- the domain of `v ± dur`: every `timedelta` the code builds fits (complement = trigger of F11d) -/
def AddDomain (v : DT) (dur : Int) (neg : Bool) : Prop :=
  TdOk (absV v).instantC ∧ TdOk dur ∧ TdOk ((absV v).instantC + (if neg then -dur else dur)) ∧
  TdOk ((absV v).localC + (if neg then -dur else dur))

instance (v : DT) (dur : Int) (neg : Bool) : Decidable (AddDomain v dur neg) := by
  unfold AddDomain; exact inferInstance

/-- `v ± dayTimeDuration` for dateTime classes: valid result, same timezone, instant moved by ±dur -/
theorem addDur_spec (v : DT) (dur : Int) (neg : Bool) (hv : v.Valid) (hd : AddDomain v dur neg) :
    ∃ w, addDur false v dur neg = .ok w ∧ w.Valid ∧ w.tz = v.tz ∧
      (absV w).instantC = (absV v).instantC + (if neg then -dur else dur) := by
  obtain ⟨h1, h2, h3, h4⟩ := hd
  unfold addDur
  rw [todelta_eq v hv, tdNorm_ok h1, tdNorm_ok h2]
  simp only [bind, Except.bind]
  have hsum : (if neg then (absV v).instantC - dur else (absV v).instantC + dur) =
      (absV v).instantC + (if neg then -dur else dur) := by cases neg <;> simp <;> omega
  rw [hsum, tdNorm_ok h3]
  simp only []
  have hloc := instantC_local (absV v)
  cases htz : v.tz with
  | none =>
    simp only []
    have e : (absV v).localC = (absV v).instantC := by
      rw [hloc]; simp only [absV, htz, offUs]; omega
    obtain ⟨w, hw, hwv, hwtz, hwl⟩ := fromdelta_ok _ h3
    refine ⟨w, hw, hwv, hwtz, ?_⟩
    rw [instantC_local, absV_tz, hwtz, hwl]; simp [offUs]
  | some z =>
    simp only []
    have e : (absV v).instantC + (if neg then -dur else dur) + z * UM = (absV v).localC + (if neg then -dur else dur) := by
      rw [hloc]; simp only [absV, htz, offUs]; omega
    rw [e, tdNorm_ok h4]
    simp only []
    obtain ⟨w, hw, hwv, hwtz, hwl⟩ := fromdelta_ok _ h4
    rw [hw]
    refine ⟨{ w with tz := some z }, rfl, valid_setTz hwv _ (by rw [← htz]; exact hv.2.2), rfl, ?_⟩
    rw [instantC_local, hloc, localC_setTz, hwl, absV_tz, absV_tz, htz]; simp only [offUs]; omega

theorem proxyYear_leap (y : Int) (hy : y ≠ 0) : isLeap (proxyYear y) = isLeap (astro y) := by
  unfold proxyYear
  split
  · rename_i h; congr 1; unfold astro; rw [if_pos (by omega)]
  · rw [(proxy46 (proxyLeap y)).1, proxyLeap_eq y hy]

/-- the proxy datetime's key is the instant shifted by a constant that depends on the year only -/
theorem proxyKey_eq (v : DT) (hv : v.Valid) :
    proxyKey v = (absV v).instantC + (daysBeforeYearC (proxyYear v.year) - daysBeforeYearC (astro v.year) + 1) * US := by
  have hl := proxyYear_leap v.year hv.1
  unfold proxyKey pyOrdUs
  rw [pyYmd2ord_eq, instantC_local]
  have hdbm : daysBeforeMonthC (proxyYear v.year) v.month = daysBeforeMonthC (astro v.year) v.month := by
    unfold daysBeforeMonthC; rw [hl]
  simp only [Val.localC, absV, dayNumC, hdbm, offUs]
  cases v.tz <;> simp only [US, Timeline.US] <;> omega

theorem proxyYear_inrange (y : Int) (h : 1 ≤ y ∧ y ≤ 9999) : proxyYear y = y ∧ astro y = y := by
  unfold proxyYear astro; rw [if_pos h, if_pos (by omega)]; exact ⟨rfl, rfl⟩

def InRange (v : DT) : Prop := 1 ≤ v.year ∧ v.year ≤ 9999
instance (v : DT) : Decidable (InRange v) := by unfold InRange; exact inferInstance

/-- the domain of `a - b` (complement = trigger of F11d) -/
def DiffDomain (a b : DT) : Prop :=
  (InRange a ∧ InRange b) ∨
  (TdOk (absV a).instantC ∧ TdOk (absV b).instantC ∧ TdOk ((absV a).instantC - (absV b).instantC))
instance (a b : DT) : Decidable (DiffDomain a b) := by unfold DiffDomain; exact inferInstance

theorem diff_spec (a b : DT) (ha : a.Valid) (hb : b.Valid) (hd : DiffDomain a b) :
    diff a b = .ok ((absV a).instantC - (absV b).instantC) := by
  unfold diff
  by_cases hr : (1 ≤ a.year ∧ a.year ≤ 9999) ∧ (1 ≤ b.year ∧ b.year ≤ 9999)
  · rw [if_pos hr, proxyKey_eq a ha, proxyKey_eq b hb]
    have ea := proxyYear_inrange a.year hr.1
    have eb := proxyYear_inrange b.year hr.2
    rw [ea.1, ea.2, eb.1, eb.2]; congr 1; omega
  · rw [if_neg hr]
    rcases hd with hd | ⟨h1, h2, h3⟩
    · exact absurd hd hr
    · rw [todelta_eq a ha, todelta_eq b hb, tdNorm_ok h1, tdNorm_ok h2]
      simp only [bind, Except.bind]
      exact tdNorm_ok h3

theorem Cmp.op_shift (op : Cmp) (x y c : Int) : op.op (x + c) (y + c) = op.op x y := by
  cases op <;> simp only [Cmp.op, decide_eq_decide] <;> omega

theorem Cmp.op_of_lt (op : Cmp) {x y x' y' : Int} (h : x < y) (h' : x' < y') : op.op x y = op.op x' y' := by
  cases op <;> simp only [Cmp.op, decide_eq_decide] <;> omega

theorem Cmp.op_of_gt (op : Cmp) {x y x' y' : Int} (h : x > y) (h' : x' > y') : op.op x y = op.op x' y' := by
  cases op <;> simp only [Cmp.op, decide_eq_decide] <;> omega

/-- a valid value lies inside its year, up to its timezone offset (at most 14 hours) -/
theorem instant_bounds (v : DT) (hv : v.Valid) :
    daysBeforeYearC (astro v.year) * US - 50400000000 ≤ (absV v).instantC ∧
    (absV v).instantC < daysBeforeYearC (astro v.year + 1) * US + 50400000000 := by
  obtain ⟨hy, ⟨hm1, hm12, hd1, hd2, hu0, hu1⟩, htz⟩ := hv
  simp only [absV] at hm1 hm12 hd1 hd2 hu0 hu1
  have b := dayNumC_bounds (astro v.year) v.month v.day ⟨hm1, hm12⟩ ⟨hd1, hd2⟩
  rw [instantC_local]
  simp only [Val.localC, absV, offUs]
  cases hz : v.tz with
  | none => simp only [US, Timeline.US] at *; omega
  | some z => have := htz z hz; simp only [US, Timeline.US, UM] at *; omega

theorem astro_mono {y y' : Int} (hy : y ≠ 0) (hy' : y' ≠ 0) (h : y + 2 < y') : astro y + 2 ≤ astro y' := by
  unfold astro; split <;> split <;> omega

theorem year_order (a b : DT) (ha : a.Valid) (hb : b.Valid) (h : a.year + 2 < b.year) :
    (absV a).instantC < (absV b).instantC := by
  have ba := instant_bounds a ha
  have bb := instant_bounds b hb
  have hm := astro_mono ha.1 hb.1 h
  have m1 := Timeline.daysBeforeYearC_mono hm
  have s1 := Timeline.daysBeforeYearC_succ (astro a.year + 1)
  have yl := Timeline.yearLen_pos (astro a.year + 1)
  have e : astro a.year + 1 + 1 = astro a.year + 2 := by omega
  rw [e] at s1
  simp only [US] at *; omega

/-- the domain of a comparison: only contiguous different years need `todelta` (F11d otherwise) -/
def CmpDomain (a b : DT) : Prop :=
  a.year = b.year ∨ (a.year - b.year).natAbs > 2 ∨ (TdOk (absV a).instantC ∧ TdOk (absV b).instantC)
instance (a b : DT) : Decidable (CmpDomain a b) := by unfold CmpDomain; exact inferInstance

theorem compare_spec (op : Cmp) (a b : DT) (ha : a.Valid) (hb : b.Valid) (hd : CmpDomain a b) :
    compare op a b = op.op (absV a).instantC (absV b).instantC := by
  unfold compare
  by_cases hy : a.year = b.year
  · rw [if_neg (by simpa using hy), proxyKey_eq a ha, proxyKey_eq b hb, hy]
    exact Cmp.op_shift op _ _ _
  · rw [if_pos hy]
    by_cases hn : (a.year - b.year).natAbs ≤ 2
    · rw [if_pos hn]
      rcases hd with hd | hd | ⟨h1, h2⟩
      · exact absurd hd hy
      · omega
      · rw [todelta_eq a ha, todelta_eq b hb, tdNorm_ok h1, tdNorm_ok h2]
    · rw [if_neg hn]
      rcases Int.lt_trichotomy a.year b.year with hlt | heq | hgt
      · exact Cmp.op_of_lt op hlt (year_order a b ha hb (by omega))
      · exact absurd heq hy
      · exact Cmp.op_of_gt op hgt (year_order b a hb ha (by omega))

/-- the domain of `adjust-dateTime-to-timezone` when both timezones are present -/
def AdjustDomain (v : DT) (z : Int) : Prop :=
  TdOk (absV v).instantC ∧ TdOk ((absV v).instantC + z * UM)
instance (v : DT) (z : Int) : Decidable (AdjustDomain v z) := by unfold AdjustDomain; exact inferInstance

theorem adjust_spec (v : DT) (z0 z : Int) (hv : v.Valid) (htz : v.tz = some z0) (hz : -840 ≤ z ∧ z ≤ 840)
    (hd : AdjustDomain v z) :
    ∃ w, adjustDateTime v (some z) = .ok w ∧ w.Valid ∧ w.tz = some z ∧ (absV w).instantC = (absV v).instantC := by
  unfold adjustDateTime
  rw [htz]
  simp only []
  rw [todelta_eq v hv, tdNorm_ok hd.1]
  simp only [bind, Except.bind]
  rw [tdNorm_ok hd.2]
  simp only []
  obtain ⟨w, hw, hwv, hwtz, hwl⟩ := fromdelta_ok _ hd.2
  rw [hw]
  refine ⟨{ w with tz := some z }, rfl, valid_setTz hwv _ (by intro z' h; cases h; exact hz), rfl, ?_⟩
  rw [instantC_local, localC_setTz, hwl, absV_tz]; simp only [offUs]; omega

theorem adjustDay_eq (a m d : Int) (hm : 1 ≤ m ∧ m ≤ 12) (hd : d ≤ 31) : adjustDay a m d = min d (monthLen a m) := by
  have hm' : m = 1 ∨ m = 2 ∨ m = 3 ∨ m = 4 ∨ m = 5 ∨ m = 6 ∨ m = 7 ∨ m = 8 ∨ m = 9 ∨ m = 10 ∨ m = 11 ∨ m = 12 := by omega
  unfold adjustDay monthLen
  rw [isleap_eq]
  rcases hm' with rfl | rfl | rfl | rfl | rfl | rfl | rfl | rfl | rfl | rfl | rfl | rfl <;> simp <;> (try split) <;> omega


/-- `v ± yearMonthDuration` is the specification's month arithmetic on the astronomical year with the
day clamped to the target month, whenever the resulting year is within the constructor's ±2^31 -/
theorem addYM_spec (v : DT) (ms : Int) (hv : v.Valid)
    (hyb : (internal (Timeline.addYM (absV v) ms).year).natAbs ≤ 2 ^ 31) :
    ∃ w, addYM false v ms = .ok w ∧ w.Valid ∧ absV w = Timeline.addYM (absV v) ms := by
  obtain ⟨hy, ⟨hm1, hm12, hd1, hd2, hu0, hu1⟩, htz⟩ := hv
  simp only [absV] at hm1 hm12 hd1 hd2 hu0 hu1
  have hast : (v.year + (if v.year < 0 then 1 else 0)) = astro v.year := by unfold astro; split <;> split <;> omega
  have hml := Timeline.monthLen_pos (astro v.year) v.month
  simp only [Timeline.addYM, absV] at hyb
  unfold addYM
  simp only [hast]
  generalize hT : astro v.year * 12 + v.month - 1 + ms = T at *
  have hT' : astro v.year * 12 + (v.month - 1) + ms = T := by omega
  rw [hT'] at hyb
  have hmo : 1 ≤ T % 12 + 1 ∧ T % 12 + 1 ≤ 12 := by omega
  have hday : adjustDay (T / 12) (T % 12 + 1) v.day = min v.day (monthLen (T / 12) (T % 12 + 1)) :=
    adjustDay_eq _ _ _ hmo (by omega)
  have hml2 := Timeline.monthLen_pos (T / 12) (T % 12 + 1)
  have hfields : pyFieldsOk (isleap (T / 12)) (T % 12 + 1) (adjustDay (T / 12) (T % 12 + 1) v.day) 0 0 0 0 = true := by
    unfold pyFieldsOk
    rw [isleap_eq, monthDays_eq _ _ hmo.1 hmo.2, hday]
    simp; omega
  rw [hfields]
  simp only [Bool.not_true, Bool.false_eq_true, ↓reduceIte]
  have hint : (if T / 12 > 0 then T / 12 else T / 12 - 1) = internal (T / 12) := rfl
  rw [hint]
  have hne := internal_ne_zero (T / 12)
  have hai := astro_internal (T / 12)
  have hmd : 1 ≤ adjustDay (T / 12) (T % 12 + 1) v.day ∧
      adjustDay (T / 12) (T % 12 + 1) v.day ≤ monthDays (proxyLeap (internal (T / 12))) (T % 12 + 1) := by
    rw [proxyLeap_eq _ hne, hai, monthDays_eq _ _ hmo.1 hmo.2, hday]; omega
  rw [mkUs_ok _ _ _ _ v.tz hne hyb hmo hmd ⟨hu0, hu1⟩]
  refine ⟨_, rfl, ⟨hne, ⟨hmo.1, hmo.2, hmd.1, ?_, hu0, hu1⟩, htz⟩, ?_⟩
  · simp only [absV, hai]; rw [hday]; omega
  · simp only [absV, Timeline.addYM, hai, hT', hday]

/-- `date ± dayTimeDuration` (the `Date` classes): the day that contains the moved local time, same timezone -/
theorem addDur_date_spec (v : DT) (dur : Int) (neg : Bool) (hv : v.Valid) (hd : AddDomain v dur neg) :
    ∃ w, addDur true v dur neg = .ok w ∧ w.Valid ∧ w.tz = v.tz ∧
      (absV w).localC = ((absV v).localC + (if neg then -dur else dur)) -
        ((absV v).localC + (if neg then -dur else dur)) % US := by
  obtain ⟨h1, h2, h3, h4⟩ := hd
  unfold addDur
  rw [todelta_eq v hv, tdNorm_ok h1, tdNorm_ok h2]
  simp only [bind, Except.bind]
  have hsum : (if neg then (absV v).instantC - dur else (absV v).instantC + dur) =
      (absV v).instantC + (if neg then -dur else dur) := by cases neg <;> simp <;> omega
  rw [hsum, tdNorm_ok h3]
  simp only []
  have hloc := instantC_local (absV v)
  cases htz : v.tz with
  | none =>
    simp only []
    have e : (absV v).localC = (absV v).instantC := by
      rw [hloc]; simp only [absV, htz, offUs]; omega
    obtain ⟨w, hw, hwv, hwtz, hwl⟩ := fromdelta_spec true _ h3
    refine ⟨w, hw, hwv, hwtz, ?_⟩
    rw [e]; simpa using hwl
  | some z =>
    simp only []
    have e : (absV v).instantC + (if neg then -dur else dur) + z * UM = (absV v).localC + (if neg then -dur else dur) := by
      rw [hloc]; simp only [absV, htz, offUs]; omega
    rw [e, tdNorm_ok h4]
    simp only []
    obtain ⟨w, hw, hwv, hwtz, hwl⟩ := fromdelta_spec true _ h4
    rw [hw]
    refine ⟨{ w with tz := some z }, rfl, valid_setTz hwv _ (by rw [← htz]; exact hv.2.2), rfl, ?_⟩
    rw [localC_setTz]; simpa using hwl

/-- `adjust-date-to-timezone` with both timezones present: the day that contains, in the new timezone,
the first instant of the date -/
theorem adjustDate_spec (v : DT) (z0 z : Int) (hv : v.Valid) (htz : v.tz = some z0) (hz : -840 ≤ z ∧ z ≤ 840)
    (hd : AddDomain v ((z - z0) * UM) false) :
    ∃ w, adjustDate v (some z) = .ok w ∧ w.Valid ∧ w.tz = some z ∧
      (absV w).localC = ((absV v).localC + (z - z0) * UM) - ((absV v).localC + (z - z0) * UM) % US := by
  obtain ⟨w, h1, h2, h3, h4⟩ := addDur_date_spec v _ false hv hd
  unfold adjustDate
  rw [htz]
  simp only []
  rw [h1]
  refine ⟨{ w with tz := some z }, rfl, valid_setTz h2 _ (by intro z' h; cases h; exact hz), rfl, ?_⟩
  rw [localC_setTz, h4]; simp

theorem adjustDateTime_same (v : DT) (tz : Option Int) (h : v.tz = none ∨ tz = none) :
    adjustDateTime v tz = .ok { v with tz := tz } := by
  unfold adjustDateTime
  rcases h with h | h
  · rw [h]
  · subst h; cases v.tz <;> rfl

theorem adjustDate_same (v : DT) (tz : Option Int) (h : v.tz = none ∨ tz = none) :
    adjustDate v tz = .ok { v with tz := tz } := by
  unfold adjustDate
  rcases h with h | h
  · rw [h]
  · subst h; cases v.tz <;> rfl

/-- `adjust_datetime` never changes an existing object: every cell of the old heap, the argument
included, is the same afterwards, and the result is a new object holding the adjusted value -/
theorem adjustObj_spec (isDate : Bool) (h : List DT) (i : Nat) (tz : Option Int) (h' : List DT) (k : Nat)
    (hr : adjustObj isDate h i tz = .ok (h', k)) :
    (∀ n, n < h.length → h'[n]? = h[n]?) ∧ h.length ≤ k ∧
    ∃ item, h[i]? = some item ∧
      (h'[k]?).map Except.ok = some (if isDate then adjustDate item tz else adjustDateTime item tz) := by
  unfold adjustObj at hr
  cases hi : h[i]? with
  | none => rw [hi] at hr; cases hr
  | some item =>
    rw [hi] at hr
    simp only [] at hr
    have hset : ∀ w : DT, (h ++ [item]).set h.length w = h ++ [w] := by
      intro w; simp
    have hsame : item.tz = none ∨ tz = none →
        (if isDate then adjustDate item tz else adjustDateTime item tz) = .ok { item with tz := tz } := by
      intro hc
      cases isDate
      · simp only [Bool.false_eq_true, ↓reduceIte]; exact adjustDateTime_same item tz hc
      · simp only [↓reduceIte]; exact adjustDate_same item tz hc
    cases hz : item.tz with
    | none =>
      rw [hz] at hr
      simp only [hset, Except.ok.injEq, Prod.mk.injEq] at hr
      obtain ⟨rfl, rfl⟩ := hr
      refine ⟨fun n hn => by simp [List.getElem?_append_left hn], Nat.le_refl _, item, rfl, ?_⟩
      rw [hsame (Or.inl hz)]; simp
    | some z0 =>
      cases tz with
      | none =>
        rw [hz] at hr
        simp only [hset, Except.ok.injEq, Prod.mk.injEq] at hr
        obtain ⟨rfl, rfl⟩ := hr
        refine ⟨fun n hn => by simp [List.getElem?_append_left hn], Nat.le_refl _, item, rfl, ?_⟩
        rw [hsame (Or.inr rfl)]; simp
      | some z =>
        rw [hz] at hr
        simp only [] at hr
        generalize hres : (if isDate then adjustDate item (some z) else adjustDateTime item (some z)) = res at hr
        cases res with
        | error e => cases hr
        | ok r =>
          simp only [Except.ok.injEq, Prod.mk.injEq] at hr
          obtain ⟨rfl, rfl⟩ := hr
          refine ⟨fun n hn => ?_, by simp, item, rfl, ?_⟩
          · rw [List.append_assoc, List.getElem?_append_left hn]
          · simp; exact hres.symm

/-- trigger of finding F11n: the implicit timezone matters for a comparison only when exactly one operand
lacks a timezone and the implicit timezone is not UTC -/
def ImplicitTzIrrelevant (a b : DT) (itz : Int) : Prop := (a.tz = none ↔ b.tz = none) ∨ itz = 0
instance (a b : DT) (itz : Int) : Decidable (ImplicitTzIrrelevant a b itz) := by
  unfold ImplicitTzIrrelevant; exact inferInstance

theorem compare_implicit (op : Cmp) (a b : DT) (itz : Int) (ha : a.Valid) (hb : b.Valid) (hd : CmpDomain a b)
    (h : ImplicitTzIrrelevant a b itz) :
    compare op a b = op.op ((absV a).instantI itz) ((absV b).instantI itz) := by
  rw [compare_spec op a b ha hb hd]
  obtain ⟨y, m, d, u, z⟩ := a
  obtain ⟨y', m', d', u', z'⟩ := b
  unfold ImplicitTzIrrelevant at h
  simp only [absV, Val.instantI, Val.instantC, Val.localC] at *
  cases z <;> cases z' <;> simp only [] at h ⊢
  · rw [← Cmp.op_shift op _ _ (-(itz * Timeline.UM))]; congr 1 <;> omega
  · rcases h with h | h
    · simp at h
    · subst h; congr 1 <;> omega
  · rcases h with h | h
    · simp at h
    · subst h; congr 1 <;> omega

end EPV.Cal

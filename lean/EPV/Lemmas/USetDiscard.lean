import EPV.Lemmas.USet
namespace EPV.USet

theorem mkLow_lo (lo s : Nat) : (mkLow lo s).lo = lo := by unfold mkLow; split <;> rfl
theorem mkLow_hi {lo s : Nat} (h : lo < s) : (mkLow lo s).hi = s := by
  unfold mkLow; split
  · rfl
  · simp only [CP.hi_one]; omega
theorem mkLow_canon (lo s : Nat) : (mkLow lo s).canon := by
  unfold mkLow; split
  · simp only [CP.canon]; omega
  · trivial
theorem mkHigh_lo {e hi : Nat} (h : e < hi) : (mkHigh e hi).lo = e := by
  unfold mkHigh; split
  · rfl
  · simp only [CP.lo_one]; omega
theorem mkHigh_hi {e hi : Nat} (h : e < hi) : (mkHigh e hi).hi = hi := by
  unfold mkHigh; split
  · rfl
  · simp only [CP.hi_one]; omega
theorem mkHigh_canon (e hi : Nat) : (mkHigh e hi).canon := by
  unfold mkHigh; split
  · simp only [CP.canon]; omega
  · trivial

theorem canon_cons {c : CP} {l : List CP} :
    Canon (c :: l) ↔ c.canon ∧ headLoGe (c.hi + 1) l ∧ Canon l := by
  cases l with
  | nil => simp [Canon, headLoGe]
  | cons d ds => simp [Canon, headLoGe, Nat.lt_iff_add_one_le]

theorem CP.canon_lt {c : CP} (h : c.canon) : c.lo < c.hi := by
  cases c with
  | one n => simp
  | rng a b => simp only [CP.canon] at h; simp only [CP.lo_rng, CP.hi_rng]; omega

theorem canon_winv : ∀ {l : List CP}, Canon l → WInv l
  | [], _ => trivial
  | [c], h => CP.canon_lt (by simpa [Canon] using h)
  | c :: d :: cs, h => by
    obtain ⟨h1, h2, h3⟩ := h
    exact ⟨CP.canon_lt h1, Nat.le_of_lt h2, canon_winv h3⟩

/-- everything the reverse `discard` loop guarantees, proved in one induction -/
theorem discardAux_spec (s e : Nat) (hse : s < e) : ∀ (l : List CP), WInv l →
    (∀ x, memL x (discardAux s e l).2 ↔ (memL x l ∧ ¬ (s ≤ x ∧ x < e))) ∧
    WInv (discardAux s e l).2 ∧
    (∀ b, headLoGe b l → headLoGe b (discardAux s e l).2) ∧
    ((discardAux s e l).1 = true → ∀ b, headLoGe b l → b ≤ s) := by
  intro l
  induction l with
  | nil => intro _; simp [discardAux, memL, WInv, headLoGe]
  | cons c rest ih =>
    intro hw
    obtain ⟨hc, hhead, hwr⟩ := winv_cons.mp hw
    obtain ⟨ihm, ihw, ihh, ihb⟩ := ih hwr
    have hlb := fun x => headLoGe_lb hwr hhead x
    simp only [discardAux]
    generalize hd : discardAux s e rest = r at ihm ihw ihh ihb
    obtain ⟨brk, rest'⟩ := r
    simp only at ihm ihw ihh ihb ⊢
    have hh' := ihh c.hi hhead
    split
    · -- loop already broken: nothing below index k is touched
      rename_i hb
      have hs : c.hi ≤ s := ihb hb c.hi hhead
      refine ⟨?_, winv_cons.mpr ⟨hc, hh', ihw⟩, fun b hb' => hb', fun _ b hb' => ?_⟩
      · intro x; simp only [memL, ihm, CP.mem]; have := hlb x; grind
      · have : b ≤ c.lo := hb'; omega
    · split
      · rename_i _ h2
        refine ⟨?_, winv_cons.mpr ⟨hc, hh', ihw⟩, fun b hb' => hb', fun _ b hb' => ?_⟩
        · intro x; simp only [memL, ihm, CP.mem]; have := hlb x; grind
        · have : b ≤ c.lo := hb'; omega
      · split
        · split
          · -- entry deleted
            rename_i _ h2 h3 h4
            refine ⟨?_, ihw, fun b hb' => ?_, fun h => by cases h⟩
            · intro x; simp only [memL, ihm, CP.mem]; have := hlb x; grind
            · have : b ≤ c.lo := hb'
              exact headLoGe_mono (by omega) hh'
          · rename_i _ h2 h3 h4
            have hlo := mkLow_lo c.lo s
            have hhi := mkLow_hi (lo := c.lo) (s := s) (by omega)
            refine ⟨?_, winv_cons.mpr ⟨by omega, headLoGe_mono (by omega) hh', ihw⟩,
              fun b hb' => ?_, fun h => by cases h⟩
            · intro x; simp only [memL, ihm, CP.mem, hlo, hhi]; have := hlb x; grind
            · have : b ≤ c.lo := hb'; simp only [headLoGe, hlo]; omega
        · split
          · split
            · rename_i _ h2 h3 h4 h5
              have hlo := mkHigh_lo (e := e) (hi := c.hi) (by omega)
              have hhi := mkHigh_hi (e := e) (hi := c.hi) (by omega)
              refine ⟨?_, winv_cons.mpr ⟨by omega, by rw [hhi]; exact hh', ihw⟩,
                fun b hb' => ?_, fun h => by cases h⟩
              · intro x; simp only [memL, ihm, CP.mem, hlo, hhi]; have := hlb x; grind
              · have : b ≤ c.lo := hb'; simp only [headLoGe, hlo]; omega
            · rename_i _ h2 h3 h4 h5
              have hlo := mkHigh_lo (e := e) (hi := c.hi) (by omega)
              have hhi := mkHigh_hi (e := e) (hi := c.hi) (by omega)
              have hlo' := mkLow_lo c.lo s
              have hhi' := mkLow_hi (lo := c.lo) (s := s) (by omega)
              refine ⟨?_, winv_cons.mpr ⟨by omega, by simp only [headLoGe, hlo, hhi']; omega,
                winv_cons.mpr ⟨by omega, by rw [hhi]; exact hh', ihw⟩⟩,
                fun b hb' => ?_, fun h => by cases h⟩
              · intro x; simp only [memL, ihm, CP.mem, hlo, hhi, hlo', hhi']; have := hlb x; grind
              · have : b ≤ c.lo := hb'; simp only [headLoGe, hlo']; omega
          · rename_i _ h2 h3 h4
            refine ⟨?_, winv_cons.mpr ⟨hc, hh', ihw⟩, fun b hb' => hb', fun h => by cases h⟩
            intro x; simp only [memL, ihm, CP.mem]; have := hlb x; grind

end EPV.USet

namespace EPV.USet

theorem discardAux_canon (s e : Nat) (hse : s < e) : ∀ (l : List CP), Canon l →
    Canon (discardAux s e l).2 := by
  intro l
  induction l with
  | nil => intro _; simp [discardAux, Canon]
  | cons c rest ih =>
    intro hcn
    obtain ⟨hc, hhead, hcr⟩ := canon_cons.mp hcn
    have hwr := canon_winv hcr
    have hclt := CP.canon_lt hc
    have ihc := ih hcr
    have ihh := (discardAux_spec s e hse rest hwr).2.2.1
    simp only [discardAux]
    generalize hd : discardAux s e rest = r at ihc ihh
    obtain ⟨brk, rest'⟩ := r
    simp only at ihc ihh ⊢
    have hh' := ihh (c.hi + 1) hhead
    split
    · exact canon_cons.mpr ⟨hc, hh', ihc⟩
    · split
      · exact canon_cons.mpr ⟨hc, hh', ihc⟩
      · split
        · split
          · exact ihc
          · have hhi := mkLow_hi (lo := c.lo) (s := s) (by omega)
            exact canon_cons.mpr ⟨mkLow_canon _ _, headLoGe_mono (by omega) hh', ihc⟩
        · split
          · split
            · have hhi := mkHigh_hi (e := e) (hi := c.hi) (by omega)
              exact canon_cons.mpr ⟨mkHigh_canon _ _, by rw [hhi]; exact hh', ihc⟩
            · have hlo := mkHigh_lo (e := e) (hi := c.hi) (by omega)
              have hhi := mkHigh_hi (e := e) (hi := c.hi) (by omega)
              have hhi' := mkLow_hi (lo := c.lo) (s := s) (by omega)
              exact canon_cons.mpr ⟨mkLow_canon _ _, by simp only [headLoGe, hlo, hhi']; omega,
                canon_cons.mpr ⟨mkHigh_canon _ _, by rw [hhi]; exact hh', ihc⟩⟩
          · exact canon_cons.mpr ⟨hc, hh', ihc⟩

end EPV.USet

/-
C06 (phase 5): why fn:round / fn:round-half-to-even are exact for every "ordinary" operand — a bound on
the coefficient produced by `quantize` (`quantMag`) in terms of the operand, for all modes, all precisions.
-/
import EPV.Lemmas.ArithCtx
import EPV.Model.ArithRoundSafe
open EPV.FOArith
namespace EPV.Arith

/-- a coefficient below 10^k has at most k digits -/
theorem numDigits_le_of_lt_pow (c k : Nat) (hk : 1 ≤ k) (h : c < 10 ^ k) : numDigits c ≤ k := by
  unfold numDigits
  by_cases hc : c = 0
  · subst hc; rw [numDigits10_eq_if]; simpa using hk
  · by_contra hgt
    have h1 := pow_numDigits10_le c (by omega)
    have h2 : 10 ^ k ≤ 10 ^ (numDigits10 c - 1) := Nat.pow_le_pow_right (by norm_num) (by omega)
    omega

/-- a coefficient with at most k digits is below 10^k -/
theorem lt_pow_of_numDigits_le (c k : Nat) (h : numDigits c ≤ k) : c < 10 ^ k := by
  unfold numDigits at h
  have h1 := lt_pow_numDigits10 c
  have h2 : 10 ^ numDigits10 c ≤ 10 ^ k := Nat.pow_le_pow_right (by norm_num) h
  omega

theorem roundMag_cases (m : Mode) (N D : Nat) :
    roundMag m N D = N / D ∨ (roundMag m N D = N / D + 1 ∧ D ≤ 2 * (N % D)) := by
  unfold roundMag
  simp only []
  split
  · left; rfl
  · split
    · right; exact ⟨rfl, by omega⟩
    · cases m <;> (try split) <;> simp <;> omega

/-- every rounding mode moves at most one half: 2·c·D ≤ 2·N + D -/
theorem two_roundMag_mul_le (m : Mode) (N D : Nat) : 2 * (roundMag m N D * D) ≤ 2 * N + D := by
  have hdm := Nat.div_add_mod N D
  have hc : (N / D) * D = D * (N / D) := Nat.mul_comm _ _
  rcases roundMag_cases m N D with h | ⟨h, h2⟩
  · rw [h, hc]; omega
  · rw [h, Nat.add_mul, hc]; omega

theorem roundMag_le_half (m : Mode) (N D : Nat) (hD : 0 < D) :
    (roundMag m N D : Rat) ≤ (N : Rat) / (D : Rat) + 1 / 2 := by
  have h := two_roundMag_mul_le m N D
  have hD' : (0 : Rat) < (D : Rat) := by exact_mod_cast hD
  have hr : ((2 * (roundMag m N D * D) : Nat) : Rat) ≤ ((2 * N + D : Nat) : Rat) := by exact_mod_cast h
  push_cast at hr
  have e : (N : Rat) / (D : Rat) + 1 / 2 = (2 * (N : Rat) + D) / (2 * D) := by field_simp
  rw [e, le_div_iff₀ (by positivity)]
  linarith

/-- the coefficient produced by `quantize` is within one half of the scaled magnitude, so it is bounded by
any natural number that bounds |x|·10^p -/
theorem quantMag_le_of_bound (m : Mode) (x : Rat) (p : Int) (B : Nat)
    (h : (if x < 0 then -x else x) * pow10 p ≤ (B : Rat)) : quantMag m x p ≤ B := by
  obtain ⟨N, D, hD, hq, hv⟩ := quantMag_spec m x p
  have h1 := roundMag_le_half m N D hD
  rw [hv, ← hq] at h1
  by_contra hgt
  have h2 : B + 1 ≤ quantMag m x p := by omega
  have h3 : ((B + 1 : Nat) : Rat) ≤ (quantMag m x p : Rat) := by exact_mod_cast h2
  push_cast at h3
  linarith

theorem pow10_le_p10 (p : Int) (s : Nat) (hp : p ≤ (s : Int)) : pow10 p ≤ ((p10 s : Nat) : Rat) := by
  rw [p10_cast]
  unfold pow10
  rw [← zpow_natCast]
  exact zpow_le_zpow_right₀ (by norm_num) hp

/-- rounding n·10^-s to p ≤ s fractional digits never yields a coefficient longer than |n| -/
theorem quantMag_decVal_le (m : Mode) (n : Int) (s : Nat) (p : Int) (hp : p ≤ (s : Int)) :
    quantMag m (decVal n s) p ≤ n.natAbs := by
  apply quantMag_le_of_bound
  have hs := p10_castR_pos s
  have h10 := pow10_le_p10 p s hp
  have hpp := pow10_pos p
  have habs : (if decVal n s < 0 then -decVal n s else decVal n s) = (n.natAbs : Rat) / ((p10 s : Nat) : Rat) := by
    by_cases hn : n < 0
    · have : decVal n s < 0 := (decVal_neg_iff n s).2 hn
      simp only [this, if_true]
      unfold decVal
      have e : ((n.natAbs : Nat) : Rat) = -(n : Rat) := by
        have h0 : ((n.natAbs : Nat) : Int) = -n := by omega
        rw [← Int.cast_natCast, h0, Int.cast_neg]
      rw [e, neg_div]
    · have : ¬ decVal n s < 0 := fun h => hn ((decVal_neg_iff n s).1 h)
      simp only [this, if_false]
      unfold decVal
      have e : ((n.natAbs : Nat) : Rat) = (n : Rat) := by
        have h0 : ((n.natAbs : Nat) : Int) = n := by omega
        rw [← Int.cast_natCast, h0]
      rw [e]
  rw [habs, div_mul_eq_mul_div, div_le_iff₀ hs]
  have hnn : (0 : Rat) ≤ (n.natAbs : Rat) := by positivity
  exact mul_le_mul_of_nonneg_left h10 hnn

/-- inside `roundSafe` neither fn:round nor fn:round-half-to-even can leave the 2000-digit context -/
theorem roundSafe_not_F06p (a : Num) (p : Int) (h : roundSafe a p = true) :
    trigF06p (.round p) a = false ∧ trigF06p (.rhe p) a = false := by
  have key : ∀ (m : Mode) (n : Int) (s : Nat), p ≤ (s : Int) → n.natAbs < 10 ^ roundCtxDigits →
      ¬ numDigits (quantMag m (decVal n s) p) > roundCtxDigits := by
    intro m n s hp hn
    have h1 := quantMag_decVal_le m n s p hp
    have h2 := numDigits_le_of_lt_pow (quantMag m (decVal n s) p) roundCtxDigits (by decide) (by omega)
    omega
  cases a with
  | int n =>
    simp only [roundSafe, Bool.and_eq_true, decide_eq_true_eq] at h
    have k := fun m => key m n 0 (by simpa using h.1) h.2
    simp only [decVal_zero_scale] at k
    constructor
    · have := k (if (n : Rat) > 0 then Mode.halfUp else Mode.halfDown)
      simpa [trigF06p, exactOf] using this
    · simp [trigF06p, exactOf, rheDecOverflow]
  | dec n s =>
    simp only [roundSafe, Bool.and_eq_true, decide_eq_true_eq] at h
    have k := fun m => key m n s h.1 h.2
    have hx : ((n : Rat) / ((p10 s : Nat) : Rat)) = decVal n s := rfl
    constructor
    · have := k (if decVal n s > 0 then Mode.halfUp else Mode.halfDown)
      simpa [trigF06p, exactOf, hx] using this
    · have := k Mode.halfEven
      simpa [trigF06p, exactOf, rheDecOverflow, hx] using this
  | dbl d => simp [roundSafe] at h
  | flt d => simp [roundSafe] at h

end EPV.Arith

/-
C18 — `restrF`: fuel adequacy, reflexivity, transitivity.
-/
import EPV.Lemmas.SeqType
set_option linter.unusedSimpArgs false
namespace EPV.SeqType

theorem Leaf.cls_ne_func (l : Leaf) (a : Tys) (r : Ty) : l.cls ≠ .func a r := by
  cases l <;> try (simp [Leaf.cls]; done)
  case kind k nt => cases k <;> simp [Leaf.cls]
  case kindT k nt ta o => cases k <;> simp [Leaf.cls]

theorem Ty.cls_func {s : Ty} {a : Tys} {r : Ty} (h : s.cls = .func a r) : s = .func a r := by
  cases s <;> simp [Ty.cls] at h
  case leaf l o => exact absurd h (Leaf.cls_ne_func l a r)
  case func a' r' => simp [h]

theorem coreCls_congr (tb : Tables) (rec1 rec2 : Ty → Ty → Bool) (c1 c2 : Cls)
    (h : ∀ a1 r1 a2 r2, c1 = .func a1 r1 → c2 = .func a2 r2 →
      Tys.all2 rec1 a2 a1 = Tys.all2 rec2 a2 a1 ∧ rec1 r1 r2 = rec2 r1 r2) :
    coreCls tb rec1 c1 c2 = coreCls tb rec2 c1 c2 := by
  cases c1 <;> cases c2 <;> simp [coreCls]
  case func.func a1 r1 a2 r2 =>
    obtain ⟨h1, h2⟩ := h a1 r1 a2 r2 rfl rfl
    rw [h1, h2]

/-- one more unit of fuel changes nothing once the fuel covers the two sizes -/
theorem restrF_succ (tb : Tables) : ∀ (n : Nat) (t1 t2 : Ty), t1.size + t2.size ≤ n →
    restrF tb (n + 1) t1 t2 = restrF tb n t1 t2 := by
  intro n
  induction n with
  | zero => intro t1 t2 h; have := t1.size_pos; omega
  | succ m ih =>
    intro t1 t2 h
    rw [restrF, restrF]
    split
    · rfl
    · split
      · congr 1
        apply coreCls_congr
        intro a1 r1 a2 r2 h1 h2
        have e1 := Ty.cls_func h1
        have e2 := Ty.cls_func h2
        have s1 := Ty.strip_size t1
        have s2 := Ty.strip_size t2
        rw [e1] at s1; rw [e2] at s2
        simp only [Ty.size] at s1 s2
        constructor
        · apply Tys.all2_congr
          intro x y hxy
          apply ih
          omega
        · apply ih
          omega
      · rfl

theorem restrF_of_le (tb : Tables) (t1 t2 : Ty) : ∀ n, t1.size + t2.size ≤ n →
    restrF tb n t1 t2 = isRestriction tb t1 t2 := by
  intro n h
  obtain ⟨d, rfl⟩ : ∃ d, n = t1.size + t2.size + d := ⟨n - (t1.size + t2.size), by omega⟩
  clear h
  induction d with
  | zero => rfl
  | succ d ih => rw [← Nat.add_assoc, restrF_succ tb _ t1 t2 (by omega), ih]

/-- the defining equation of `is_sequence_type_restriction` without fuel -/
theorem isRestriction_unfold (tb : Tables) (t1 t2 : Ty) :
    isRestriction tb t1 t2 =
      if t2.beq .empty then t1.beq .empty || t1.ownOcc == .opt || t1.ownOcc == .star
      else if occOK t1.last t2.last then
        t1.strip.beq t2.strip || coreCls tb (isRestriction tb) t1.strip.cls t2.strip.cls
      else false := by
  unfold isRestriction
  have p1 := t1.size_pos
  obtain ⟨k, hk⟩ : ∃ k, t1.size + t2.size = k + 1 := ⟨t1.size + t2.size - 1, by omega⟩
  rw [hk, restrF]
  split
  · rfl
  · split
    · congr 1
      apply coreCls_congr
      intro a1 r1 a2 r2 h1 h2
      have e1 := Ty.cls_func h1
      have e2 := Ty.cls_func h2
      have s1 := Ty.strip_size t1
      have s2 := Ty.strip_size t2
      rw [e1] at s1; rw [e2] at s2
      simp only [Ty.size] at s1 s2
      constructor
      · apply Tys.all2_congr
        intro x y hxy
        exact restrF_of_le tb x y k (by omega)
      · exact restrF_of_le tb r1 r2 k (by omega)
    · rfl

/-- what the theorems need from the generated matrices (proved for the live tables by `decide`) -/
structure Tables.Trans (tb : Tables) : Prop where
  atom : ∀ a b c, tb.atomSub a b = true → tb.atomSub b c = true → tb.atomSub a c = true
  list : ∀ a b c, tb.listSub a b = true → tb.listSub b c = true → tb.listSub a c = true

theorem occOK_refl (o : Occ) : occOK o o = true := by cases o <;> rfl

theorem occOK_trans {a b c : Occ} (h1 : occOK a b = true) (h2 : occOK b c = true) : occOK a c = true := by
  cases a <;> cases b <;> cases c <;> simp_all [occOK]

theorem isRestriction_refl (tb : Tables) (t : Ty) : isRestriction tb t t = true := by
  rw [isRestriction_unfold]
  split
  · simp_all
  · simp [occOK_refl, Ty.beq_refl]

theorem coreCls_other (tb : Tables) (rec : Ty → Ty → Bool) (c : Cls) : coreCls tb rec .other c = false := by
  cases c <;> rfl

theorem coreCls_trans (tb : Tables) (ht : tb.Trans) (rec : Ty → Ty → Bool) (c1 c2 c3 : Cls)
    (hrec : ∀ a1 r1 a2 r2 a3 r3, c1 = .func a1 r1 → c2 = .func a2 r2 → c3 = .func a3 r3 →
      (Tys.all2 rec a2 a1 = true → Tys.all2 rec a3 a2 = true → Tys.all2 rec a3 a1 = true) ∧
      (rec r1 r2 = true → rec r2 r3 = true → rec r1 r3 = true))
    (h1 : coreCls tb rec c1 c2 = true) (h2 : coreCls tb rec c2 c3 = true) :
    coreCls tb rec c1 c3 = true := by
  cases c1 <;> cases c2 <;> simp [coreCls] at h1 <;> cases c3 <;> simp [coreCls] at h2 ⊢
  case atomic.atomic.atomic a b c => exact ht.atom _ _ _ h2 h1
  case listT.listT.listT a b c => exact ht.list _ _ _ h2 h1
  case func.func.func a1 r1 a2 r2 a3 r3 =>
    obtain ⟨ha, hr⟩ := hrec a1 r1 a2 r2 a3 r3 rfl rfl rfl
    exact ⟨ha h1.1 h2.1, hr h1.2 h2.2⟩

theorem isRestriction_empty_right (tb : Tables) (t1 : Ty) :
    isRestriction tb t1 .empty = (t1.beq .empty || t1.ownOcc == .opt || t1.ownOcc == .star) := by
  rw [isRestriction_unfold]; simp [Ty.beq]

theorem isRestriction_nonempty (tb : Tables) (t1 t2 : Ty) (h : t2 ≠ .empty) :
    isRestriction tb t1 t2 = (occOK t1.last t2.last &&
      (t1.strip.beq t2.strip || coreCls tb (isRestriction tb) t1.strip.cls t2.strip.cls)) := by
  rw [isRestriction_unfold]
  have : t2.beq .empty = false := (Ty.beq_false_iff _ _).2 h
  simp only [this]
  cases occOK t1.last t2.last <;> simp

theorem isRestriction_empty_left (tb : Tables) (t2 : Ty) (h : t2 ≠ .empty) :
    isRestriction tb .empty t2 = false := by
  rw [isRestriction_nonempty tb _ _ h]
  have : Ty.empty.beq t2.strip = false :=
    (Ty.beq_false_iff _ _).2 (fun e => h ((Ty.strip_eq_empty t2).1 e.symm))
  simp [Ty.strip, Ty.cls, coreCls_other, this]

theorem isRestriction_trans_aux (tb : Tables) (ht : tb.Trans) : ∀ (n : Nat) (t1 t2 t3 : Ty),
    t1.size + t2.size + t3.size ≤ n →
    isRestriction tb t1 t2 = true → isRestriction tb t2 t3 = true → isRestriction tb t1 t3 = true := by
  intro n
  induction n with
  | zero => intro t1 t2 t3 h; have := t1.size_pos; omega
  | succ n ih =>
    intro t1 t2 t3 hsz h1 h2
    by_cases e3 : t3 = .empty
    · -- the candidate is empty-sequence()
      subst e3
      rw [isRestriction_empty_right] at h2 ⊢
      by_cases e2 : t2 = .empty
      · subst e2; rw [isRestriction_empty_right] at h1; exact h1
      · rw [isRestriction_nonempty tb _ _ e2] at h1
        have hb : t2.beq .empty = false := (Ty.beq_false_iff _ _).2 e2
        simp only [hb, Bool.false_or, Bool.or_eq_true, Bool.and_eq_true, beq_iff_eq] at h1 h2
        -- t2 has an indicator of its own, so it is no typed function test; then neither is t1
        have h2f : ∀ a r, t2 ≠ .func a r := by
          intro a r e; subst e; simp [Ty.ownOcc] at h2
        have h1f : ∀ a r, t1 ≠ .func a r := by
          intro a r e; subst e
          rcases h1.2 with hb' | hc
          · have := (Ty.beq_iff _ _).1 hb'
            cases t2 <;> simp [Ty.strip] at this
            exact h2f _ _ rfl
          · cases t2 with
            | func a' r' => exact h2f _ _ rfl
            | leaf l o => cases l <;> simp [Ty.strip, Ty.cls, Leaf.cls, coreCls] at hc
                          case kind k nt => cases k <;> simp [Leaf.cls, coreCls] at hc
                          case kindT k nt ta o' => cases k <;> simp [Leaf.cls, coreCls] at hc
            | _ => simp [Ty.strip, Ty.cls, coreCls] at hc
        have hl2 : t2.last = t2.ownOcc := by cases t2 <;> first | rfl | exact absurd rfl (h2f _ _)
        have hl1 : t1.last = t1.ownOcc := by cases t1 <;> first | rfl | exact absurd rfl (h1f _ _)
        have hocc := h1.1
        rw [hl1, hl2] at hocc
        rcases h2 with h2 | h2 <;> rw [h2] at hocc <;> cases hl : t1.ownOcc <;> simp_all [occOK]
    · by_cases e2 : t2 = .empty
      · subst e2; rw [isRestriction_empty_left tb _ e3] at h2; exact absurd h2 (by simp)
      · rw [isRestriction_nonempty tb _ _ e2] at h1
        rw [isRestriction_nonempty tb _ _ e3] at h2 ⊢
        simp only [Bool.and_eq_true, Bool.or_eq_true] at h1 h2 ⊢
        refine ⟨occOK_trans h1.1 h2.1, ?_⟩
        rcases h1.2 with h1' | h1'
        · rw [(Ty.beq_iff _ _).1 h1']; exact h2.2
        · rcases h2.2 with h2' | h2'
          · rw [← (Ty.beq_iff _ _).1 h2']; exact Or.inr h1'
          · right
            apply coreCls_trans tb ht _ _ _ _ _ h1' h2'
            intro a1 r1 a2 r2 a3 r3 c1 c2 c3
            have z1 := Ty.strip_size t1
            have z2 := Ty.strip_size t2
            have z3 := Ty.strip_size t3
            rw [Ty.cls_func c1] at z1; rw [Ty.cls_func c2] at z2; rw [Ty.cls_func c3] at z3
            simp only [Ty.size] at z1 z2 z3
            constructor
            · intro p q
              exact Tys.all2_trans _ _ _ a3 a2 a1
                (fun x y z hs hx hy => ih x y z (by omega) hx hy) q p
            · intro p q
              exact ih r1 r2 r3 (by omega) p q

theorem isRestriction_trans (tb : Tables) (ht : tb.Trans) (t1 t2 t3 : Ty)
    (h1 : isRestriction tb t1 t2 = true) (h2 : isRestriction tb t2 t3 = true) :
    isRestriction tb t1 t3 = true :=
  isRestriction_trans_aux tb ht _ t1 t2 t3 (Nat.le_refl _) h1 h2

end EPV.SeqType

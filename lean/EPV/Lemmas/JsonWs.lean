/-
C17 phase 5 helper lemmas: the RFC 8259 reader WITH insignificant whitespace (`parseJsonWs`) reads every
whitespace padding (`Pads`) of the token sequence of a rendering back to the value.
-/
import EPV.Lemmas.JsonParse
import EPV.Model.JsonTokens
set_option linter.unusedSectionVars false
namespace EPV.Json

theorem skipWs_app (w : Str) (hw : w.all isWs = true) (s : Str) : skipWs (w ++ s) = skipWs s := by
  induction w with
  | nil => rfl
  | cons c t ih =>
    simp only [List.all_cons, Bool.and_eq_true] at hw
    simp [skipWs, hw.1, ih hw.2]

theorem skipWs_cons (c : Nat) (t : Str) (h : isWs c = false) : skipWs (c :: t) = c :: t := by
  simp [skipWs, h]

theorem skipWs_allWs (w : Str) (hw : w.all isWs = true) : skipWs w = [] := by
  have := skipWs_app w hw []
  simpa [skipWs] using this

/-- a padded token sequence starting with a token that does not start with whitespace -/
theorem pads_tok {c : Nat} {tk : Str} {toks : List Str} {X : Str} (h : Pads ((c :: tk) :: toks) X)
    (hc : isWs c = false) : ∃ Y, skipWs X = c :: (tk ++ Y) ∧ Pads toks Y := by
  cases h with
  | cons w _ _ text hw hp =>
    refine ⟨text, ?_, hp⟩
    rw [List.append_assoc, skipWs_app w hw]
    exact skipWs_cons c _ hc

/-- what may follow a value in the token sequence: nothing, `,`, `]` or `}` -/
def sepToks : List Str → Prop
  | [] => True
  | t :: _ => t = [44] ∨ t = [93] ∨ t = [125]

theorem numEnd_ws (c : Nat) (t : Str) (h : isWs c = true) : numEnd (c :: t) := by
  simp only [isWs, Bool.or_eq_true, beq_iff_eq] at h
  refine ⟨?_, ?_, ?_, ?_⟩ <;> first | (simp [isDigit]; omega) | omega

theorem numEnd_pads {R : List Str} {Y : Str} (hR : sepToks R) (h : Pads R Y) : numEnd Y := by
  cases h with
  | nil _ hw =>
    cases Y with
    | nil => trivial
    | cons c t => simp only [List.all_cons, Bool.and_eq_true] at hw; exact numEnd_ws c t hw.1
  | cons w tok toks text hw hp =>
    cases w with
    | nil =>
      rcases hR with h | h | h <;> subst h <;> exact ⟨by decide, by decide, by decide, by decide⟩
    | cons c t => simp only [List.all_cons, Bool.and_eq_true] at hw; exact numEnd_ws c t hw.1

theorem numStart_notWs {c : Nat} (h : numStart c) : isWs c = false ∧ c ≠ 93 ∧ c ≠ 125 ∧
    c ≠ 91 ∧ c ≠ 123 ∧ c ≠ 34 ∧ c ≠ 110 ∧ c ≠ 116 ∧ c ≠ 102 := by
  rcases h with h | h
  · subst h; decide
  · simp [isDigit] at h
    refine ⟨?_, by omega, by omega, by omega, by omega, by omega, by omega, by omega, by omega⟩
    simp [isWs]; omega

theorem parseValueWF_num (c : Nat) (t : Str) (v : JValue) (hc : numStart c)
    (hp : ∀ rest, numEnd rest → parseNum ((c :: t) ++ rest) = some (v, rest)) (f : Nat) (rest : Str) (hr : numEnd rest) :
    parseValueWF (f + 1) (c :: (t ++ rest)) = some (v, rest) := by
  have := hp rest hr
  obtain ⟨_, _, _, h1, h2, h3, h4, h5, h6⟩ := numStart_notWs hc
  simp only [List.cons_append] at this
  simp only [parseValueWF, h1, h2, h3, h4, h5, h6, if_false]
  exact this

theorem pads_length {toks : List Str} {X : Str} (h : Pads toks X) : toks.flatten.length ≤ X.length := by
  induction h with
  | nil w _ => simp
  | cons w tok toks text _ _ ih => simp only [List.flatten_cons, List.length_append] at ih ⊢; omega

mutual
/-- no padding at all: the tokens concatenate to the rendering -/
theorem tokensG_flatten (esc : Nat → Str) (numI : Int → Str) (numD : Dec → Str) : ∀ v : JValue, (tokensG esc numI numD v).flatten = renderG esc numI numD v
  | .null => by simp [tokensG, renderG]
  | .bool true => by simp [tokensG, renderG]
  | .bool false => by simp [tokensG, renderG]
  | .int n => by simp [tokensG, renderG]
  | .dbl d => by simp [tokensG, renderG]
  | .str s => by simp [tokensG, renderG]
  | .arr l => by simp [tokensG, renderG, tokensGL_flatten esc numI numD l]
  | .obj m => by simp [tokensG, renderG, tokensGM_flatten esc numI numD m]
theorem tokensGL_flatten (esc : Nat → Str) (numI : Int → Str) (numD : Dec → Str) : ∀ l : List JValue, (tokensGL esc numI numD l).flatten = renderGL esc numI numD l
  | [] => by simp [tokensGL, renderGL]
  | [v] => by simp [tokensGL, renderGL, tokensG_flatten esc numI numD v]
  | v :: w :: t => by
    have := tokensGL_flatten esc numI numD (w :: t)
    simp [tokensGL, renderGL, tokensG_flatten esc numI numD v] at this ⊢
    rw [this]
theorem tokensGM_flatten (esc : Nat → Str) (numI : Int → Str) (numD : Dec → Str) : ∀ m : List (Str × JValue), (tokensGM esc numI numD m).flatten = renderGM esc numI numD m
  | [] => by simp [tokensGM, renderGM]
  | [(k, v)] => by simp [tokensGM, renderGM, tokensG_flatten esc numI numD v]
  | (k, v) :: w :: t => by
    have := tokensGM_flatten esc numI numD (w :: t)
    simp [tokensGM, renderGM, tokensG_flatten esc numI numD v] at this ⊢
    rw [this]
end

section
variable (esc : Nat → Str) (numI : Int → Str) (numD : Dec → Str) (fI : Int → JValue) (fD : Dec → JValue)
  (okC : Nat → Bool) (hesc : ∀ c, okC c = true → EscOK esc c) (okD : Dec → Bool)
  (hI : ∀ n, NumOK (numI n) (fI n)) (hdbl : ∀ d, okD d = true → NumOK (numD d) (fD d))
include hesc hI hdbl

omit hesc in
/-- first token of a value: starts with a character that is neither whitespace nor `]` nor `}` -/
theorem tokens_headG : ∀ v : JValue, v.validWith okC okD = true →
    ∃ c tk more, tokensG esc numI numD v = (c :: tk) :: more ∧ isWs c = false ∧ c ≠ 93 ∧ c ≠ 125 := by
  intro v hv
  cases v with
  | null => exact ⟨110, _, _, rfl, by decide, by decide, by decide⟩
  | bool b => cases b
              · exact ⟨102, _, _, rfl, by decide, by decide, by decide⟩
              · exact ⟨116, _, _, rfl, by decide, by decide, by decide⟩
  | int n =>
    obtain ⟨⟨c, t, h, hc⟩, _⟩ := hI n
    have := numStart_notWs hc
    exact ⟨c, t, [], by simp [tokensG, h], this.1, this.2.1, this.2.2.1⟩
  | dbl d =>
    obtain ⟨⟨c, t, h, hc⟩, _⟩ := hdbl d (by simpa [JValue.validWith] using hv)
    have := numStart_notWs hc
    exact ⟨c, t, [], by simp [tokensG, h], this.1, this.2.1, this.2.2.1⟩
  | str s => exact ⟨34, _, _, rfl, by decide, by decide, by decide⟩
  | arr l => exact ⟨91, _, _, rfl, by decide, by decide, by decide⟩
  | obj m => exact ⟨123, _, _, rfl, by decide, by decide, by decide⟩

omit hesc hI hdbl in
theorem tokensGL_head (v : JValue) (t : List JValue) (R : List Str) (c : Nat) (tk : Str) (more : List Str)
    (h : tokensG esc numI numD v = (c :: tk) :: more) :
    ∃ more', tokensGL esc numI numD (v :: t) ++ R = (c :: tk) :: more' := by
  cases t <;> simp [tokensGL, h]

omit hesc hI hdbl in
theorem tokensGM_head (k : Str) (v : JValue) (t : List (Str × JValue)) (R : List Str) :
    ∃ more', tokensGM esc numI numD ((k, v) :: t) ++ R = (34 :: (k.flatMap esc ++ [34])) :: more' := by
  cases t <;> simp [tokensGM]

mutual
theorem parseW_tokensG : ∀ (v : JValue), v.validWith okC okD = true → ∀ (f : Nat) (R : List Str) (X : Str),
    sepToks R → v.size ≤ f → Pads (tokensG esc numI numD v ++ R) X →
    ∃ Y, parseValueWF f (skipWs X) = some (mapNum fI fD v, Y) ∧ Pads R Y
  | .null, _, f, R, X, _, hf, hX => by
    obtain ⟨f', rfl⟩ : ∃ f', f = f' + 1 := ⟨f - 1, by simp [JValue.size] at hf; omega⟩
    obtain ⟨Y, hs, hp⟩ := pads_tok (by simpa [tokensG] using hX) (by decide)
    exact ⟨Y, by rw [hs]; simp [parseValueWF, mapNum], hp⟩
  | .bool true, _, f, R, X, _, hf, hX => by
    obtain ⟨f', rfl⟩ : ∃ f', f = f' + 1 := ⟨f - 1, by simp [JValue.size] at hf; omega⟩
    obtain ⟨Y, hs, hp⟩ := pads_tok (by simpa [tokensG] using hX) (by decide)
    exact ⟨Y, by rw [hs]; simp [parseValueWF, mapNum], hp⟩
  | .bool false, _, f, R, X, _, hf, hX => by
    obtain ⟨f', rfl⟩ : ∃ f', f = f' + 1 := ⟨f - 1, by simp [JValue.size] at hf; omega⟩
    obtain ⟨Y, hs, hp⟩ := pads_tok (by simpa [tokensG] using hX) (by decide)
    exact ⟨Y, by rw [hs]; simp [parseValueWF, mapNum], hp⟩
  | .int n, _, f, R, X, hR, hf, hX => by
    obtain ⟨f', rfl⟩ : ∃ f', f = f' + 1 := ⟨f - 1, by simp [JValue.size] at hf; omega⟩
    obtain ⟨⟨c, t, hct, hc⟩, hnum⟩ := hI n
    have hX' : Pads ((c :: t) :: R) X := by simpa [tokensG, hct] using hX
    obtain ⟨Y, hs, hp⟩ := pads_tok hX' (numStart_notWs hc).1
    refine ⟨Y, ?_, hp⟩
    rw [hs]
    exact parseValueWF_num c t (fI n) hc (by rw [← hct]; exact hnum) f' Y (numEnd_pads hR hp)
  | .dbl d, hv, f, R, X, hR, hf, hX => by
    obtain ⟨f', rfl⟩ : ∃ f', f = f' + 1 := ⟨f - 1, by simp [JValue.size] at hf; omega⟩
    obtain ⟨⟨c, t, hct, hc⟩, hnum⟩ := hdbl d (by simpa [JValue.validWith] using hv)
    have hX' : Pads ((c :: t) :: R) X := by simpa [tokensG, hct] using hX
    obtain ⟨Y, hs, hp⟩ := pads_tok hX' (numStart_notWs hc).1
    refine ⟨Y, ?_, hp⟩
    rw [hs]
    exact parseValueWF_num c t (fD d) hc (by rw [← hct]; exact hnum) f' Y (numEnd_pads hR hp)
  | .str s, hv, f, R, X, _, hf, hX => by
    obtain ⟨f', rfl⟩ : ∃ f', f = f' + 1 := ⟨f - 1, by simp [JValue.size] at hf; omega⟩
    have hs := escOK_allG esc okC hesc s (by simpa [JValue.validWith] using hv)
    obtain ⟨Y, hsk, hp⟩ := pads_tok (by simpa [tokensG] using hX) (by decide)
    refine ⟨Y, ?_, hp⟩
    have := parseStrF_body esc s hs Y
    rw [hsk, show s.flatMap esc ++ [34] ++ Y = s.flatMap esc ++ 34 :: Y by simp]
    simp only [parseValueWF, show (34 : Nat) ≠ 91 by decide, show (34 : Nat) ≠ 123 by decide, if_false, if_true]
    rw [this]; rfl
  | .arr [], _, f, R, X, _, hf, hX => by
    obtain ⟨f', rfl⟩ : ∃ f', f = f' + 1 := ⟨f - 1, by simp [JValue.size] at hf; omega⟩
    obtain ⟨Y1, hs1, hp1⟩ := pads_tok (by simpa [tokensG, tokensGL] using hX) (by decide)
    obtain ⟨Y, hs2, hp2⟩ := pads_tok hp1 (by decide)
    refine ⟨Y, ?_, hp2⟩
    rw [hs1]
    simp [parseValueWF, hs2, mapNum, mapNumL]
  | .arr (v :: t), hv, f, R, X, _, hf, hX => by
    obtain ⟨f', rfl⟩ : ∃ f', f = f' + 1 := ⟨f - 1, by simp [JValue.size] at hf; omega⟩
    have hv' : validL okC okD (v :: t) = true := by simpa [JValue.validWith] using hv
    have hvv : v.validWith okC okD = true := by simp [validL] at hv'; exact hv'.1
    obtain ⟨Y1, hs1, hp1⟩ := pads_tok (by simpa [tokensG] using hX) (by decide)
    obtain ⟨Y, hl, hp⟩ := parseW_tokensGL (v :: t) (by simp) hv' f' R Y1 (by simp [JValue.size] at hf; omega) hp1
    obtain ⟨c, tk, more, hct, hws, h93, _⟩ := tokens_headG esc numI numD fI fD okC okD hI hdbl v hvv
    obtain ⟨more', hmore⟩ := tokensGL_head esc numI numD v t R c tk more hct
    obtain ⟨Y2, hs2, _⟩ := pads_tok (hmore ▸ hp1) hws
    refine ⟨Y, ?_, hp⟩
    rw [hs1]
    simp only [List.nil_append, parseValueWF, if_true]
    rw [hs2] at hl ⊢
    split
    · rename_i heq; simp at heq; exact absurd heq.1 h93
    · rw [hl]; rfl
  | .obj [], _, f, R, X, _, hf, hX => by
    obtain ⟨f', rfl⟩ : ∃ f', f = f' + 1 := ⟨f - 1, by simp [JValue.size] at hf; omega⟩
    obtain ⟨Y1, hs1, hp1⟩ := pads_tok (by simpa [tokensG, tokensGM] using hX) (by decide)
    obtain ⟨Y, hs2, hp2⟩ := pads_tok hp1 (by decide)
    refine ⟨Y, ?_, hp2⟩
    rw [hs1]
    simp [parseValueWF, hs2, mapNum, mapNumM]
  | .obj ((k, v) :: t), hv, f, R, X, _, hf, hX => by
    obtain ⟨f', rfl⟩ : ∃ f', f = f' + 1 := ⟨f - 1, by simp [JValue.size] at hf; omega⟩
    have hv' : validM okC okD ((k, v) :: t) = true := by simpa [JValue.validWith] using hv
    obtain ⟨Y1, hs1, hp1⟩ := pads_tok (by simpa [tokensG] using hX) (by decide)
    obtain ⟨Y, hl, hp⟩ := parseW_tokensGM ((k, v) :: t) (by simp) hv' f' R Y1 (by simp [JValue.size] at hf; omega) hp1
    obtain ⟨more', hmore⟩ := tokensGM_head esc numI numD k v t R
    obtain ⟨Y2, hs2, _⟩ := pads_tok (hmore ▸ hp1) (by decide)
    refine ⟨Y, ?_, hp⟩
    rw [hs1]
    simp only [List.nil_append, parseValueWF, show (123 : Nat) ≠ 91 by decide, if_false, if_true]
    rw [hs2] at hl ⊢
    simp only [hl]; rfl
theorem parseW_tokensGL : ∀ (l : List JValue), l ≠ [] → validL okC okD l = true → ∀ (f : Nat) (R : List Str) (X : Str),
    sizeL l ≤ f → Pads (tokensGL esc numI numD l ++ R) X →
    ∃ Y, parseElemsWF f (skipWs X) = some (mapNumL fI fD l, Y) ∧ Pads R Y
  | [], h, _, _, _, _, _, _ => absurd rfl h
  | [v], _, hv, f, R, X, hf, hX => by
    obtain ⟨f', rfl⟩ : ∃ f', f = f' + 1 := ⟨f - 1, by simp [sizeL] at hf; omega⟩
    have hvv : v.validWith okC okD = true := by simp [validL] at hv; exact hv
    obtain ⟨Y1, h1, hp1⟩ := parseW_tokensG v hvv f' ([93] :: R) X (Or.inr (Or.inl rfl)) (by simp [sizeL] at hf; omega)
      (by simpa [tokensGL] using hX)
    obtain ⟨Y, hs, hp⟩ := pads_tok hp1 (by decide)
    exact ⟨Y, by simp only [parseElemsWF, h1, hs, List.nil_append, mapNumL], hp⟩
  | v :: w :: t, _, hv, f, R, X, hf, hX => by
    obtain ⟨f', rfl⟩ : ∃ f', f = f' + 1 := ⟨f - 1, by simp [sizeL] at hf; omega⟩
    have hvv : v.validWith okC okD = true ∧ validL okC okD (w :: t) = true := by simpa [validL] using hv
    obtain ⟨Y1, h1, hp1⟩ := parseW_tokensG v hvv.1 f' ([44] :: (tokensGL esc numI numD (w :: t) ++ R)) X (Or.inl rfl)
      (by simp [sizeL] at hf ⊢; omega) (by simpa [tokensGL] using hX)
    obtain ⟨Y2, hs, hp2⟩ := pads_tok hp1 (by decide)
    obtain ⟨Y, h2, hp⟩ := parseW_tokensGL (w :: t) (by simp) hvv.2 f' R Y2 (by simp [sizeL] at hf ⊢; omega) hp2
    refine ⟨Y, ?_, hp⟩
    simp only [parseElemsWF, h1, hs, List.nil_append, h2, mapNumL]; rfl
theorem parseW_tokensGM : ∀ (m : List (Str × JValue)), m ≠ [] → validM okC okD m = true → ∀ (f : Nat) (R : List Str) (X : Str),
    sizeM m ≤ f → Pads (tokensGM esc numI numD m ++ R) X →
    ∃ Y, parseMembersWF f (skipWs X) = some (mapNumM fI fD m, Y) ∧ Pads R Y
  | [], h, _, _, _, _, _, _ => absurd rfl h
  | [(k, v)], _, hv, f, R, X, hf, hX => by
    obtain ⟨f', rfl⟩ : ∃ f', f = f' + 1 := ⟨f - 1, by simp [sizeM] at hf; omega⟩
    have hvv : k.all okC = true ∧ v.validWith okC okD = true := by simpa [validM] using hv
    obtain ⟨Y0, hs0, hp0⟩ := pads_tok (c := 34) (tk := k.flatMap esc ++ [34])
      (toks := [58] :: (tokensG esc numI numD v ++ [125] :: R)) (by simpa [tokensGM] using hX) (by decide)
    obtain ⟨Y1, hs1, hp1⟩ := pads_tok hp0 (by decide)
    have hk := parseStrF_body esc k (escOK_allG esc okC hesc k hvv.1) Y0
    obtain ⟨Y2, h1, hp2⟩ := parseW_tokensG v hvv.2 f' ([125] :: R) Y1 (Or.inr (Or.inr rfl)) (by simp [sizeM] at hf; omega) hp1
    obtain ⟨Y, hs, hp⟩ := pads_tok hp2 (by decide)
    refine ⟨Y, ?_, hp⟩
    rw [hs0, show k.flatMap esc ++ [34] ++ Y0 = k.flatMap esc ++ 34 :: Y0 by simp]
    simp only [parseMembersWF, hk, hs1, List.nil_append, h1, hs, mapNumM]
  | (k, v) :: w :: t, _, hv, f, R, X, hf, hX => by
    obtain ⟨f', rfl⟩ : ∃ f', f = f' + 1 := ⟨f - 1, by simp [sizeM] at hf; omega⟩
    have hvv : (k.all okC = true ∧ v.validWith okC okD = true) ∧ validM okC okD (w :: t) = true := by
      simpa [validM] using hv
    obtain ⟨Y0, hs0, hp0⟩ := pads_tok (c := 34) (tk := k.flatMap esc ++ [34])
      (toks := [58] :: (tokensG esc numI numD v ++ [44] :: (tokensGM esc numI numD (w :: t) ++ R)))
      (by simpa [tokensGM] using hX) (by decide)
    obtain ⟨Y1, hs1, hp1⟩ := pads_tok hp0 (by decide)
    have hk := parseStrF_body esc k (escOK_allG esc okC hesc k hvv.1.1) Y0
    obtain ⟨Y2, h1, hp2⟩ := parseW_tokensG v hvv.1.2 f' ([44] :: (tokensGM esc numI numD (w :: t) ++ R)) Y1 (Or.inl rfl)
      (by simp [sizeM] at hf ⊢; omega) hp1
    obtain ⟨Y3, hs, hp3⟩ := pads_tok hp2 (by decide)
    obtain ⟨Y, h2, hp⟩ := parseW_tokensGM (w :: t) (by simp) hvv.2 f' R Y3 (by simp [sizeM] at hf ⊢; omega) hp3
    refine ⟨Y, ?_, hp⟩
    rw [hs0, show k.flatMap esc ++ [34] ++ Y0 = k.flatMap esc ++ 34 :: Y0 by simp]
    simp only [parseMembersWF, hk, hs1, List.nil_append, h1, hs, h2, mapNumM]; rfl
end

/-- the reader with whitespace reads EVERY whitespace padding of the tokens of a rendering back to the value -/
theorem parseJsonWs_tokensG (v : JValue) (hv : v.validWith okC okD = true) (X : Str)
    (h : Pads (tokensG esc numI numD v) X) : parseJsonWs X = some (mapNum fI fD v) := by
  have hlen : v.size ≤ X.length + 1 := by
    have h1 := size_le_renderG esc numI numD fI fD okC hesc okD hI hdbl v hv
    have h2 := pads_length h
    rw [tokensG_flatten] at h2
    omega
  obtain ⟨Y, hparse, hp⟩ := parseW_tokensG esc numI numD fI fD okC hesc okD hI hdbl v hv (X.length + 1) [] X trivial hlen
    (by simpa using h)
  cases hp with
  | nil _ hw => simp [parseJsonWs, hparse, skipWs_allWs Y hw]
end

/-- `padWith` with whitespace strings is a padding -/
theorem pads_padWith : ∀ (ws toks : List Str), (∀ w ∈ ws, w.all isWs = true) → Pads toks (padWith ws toks)
  | ws, [], h => by
    refine Pads.nil _ ?_
    simp only [padWith, List.all_eq_true, List.mem_flatten]
    rintro c ⟨w, hw, hc⟩
    exact List.all_eq_true.mp (h w hw) c hc
  | [], tok :: toks, _ => by
    have := Pads.cons [] tok toks _ rfl (pads_padWith [] toks (by simp))
    simpa [padWith] using this
  | w :: ws, tok :: toks, h => by
    have := Pads.cons w tok toks _ (h w (by simp)) (pads_padWith ws toks (fun x hx => h x (by simp [hx])))
    simpa [padWith] using this

theorem serCharT_eq : serCharT = serChar := funext fun _ => rfl

end EPV.Json

/-
C08 helper lemmas: the odometer loop of `XPathContext.iter_product` visits exactly the tuples
of the nested loops (`cartFold`), in the same (row-major) order, with the same variable stores,
and stops when the consumer stops.
-/
import EPV.Model.SeqFuns
namespace EPV.Seq

variable {σ : Type}

/-- one loop over `items`: the consumer may stop the iteration -/
def loopFold (f : Atom → σ → Except Err (σ × Bool)) : Seq → σ → Except Err (σ × Bool)
  | [], acc => .ok (acc, false)
  | v :: vs, acc =>
    match f v acc with
    | .error e => .error e
    | .ok (acc', true) => .ok (acc', true)
    | .ok (acc', false) => loopFold f vs acc'

/-- nested loops, outermost variable first: the reference enumeration of the binding tuples
(cartesian product with dependent ranges, row-major order) -/
def cartFold (visit : Vars → σ → Except Err (σ × Bool)) : List (Nat × Sel) → Vars → σ → Except Err (σ × Bool)
  | [], vars, acc => visit vars acc
  | (name, sel) :: later, vars, acc =>
    match sel vars with
    | .error e => .error e
    | .ok items => loopFold (fun v acc => cartFold visit later ((name, [v]) :: vars) acc) items acc

/-- what the loop does once the level that is being iterated is exhausted: `k -= 1` or return -/
def afterLevel (outer : Vars) (visit : Vars → σ → Except Err (σ × Bool)) (fuel : Nat)
    (frames : List Frame) (pending : List (Nat × Sel)) (acc : σ) : Except Err (Option σ) :=
  match frames with
  | [] => .ok (some acc)
  | f :: fs => odoRun outer visit fuel { frames := fs, cur := some f.rest, pending := (f.name, f.sel) :: pending } acc

theorem odoRun_succ (outer : Vars) (visit : Vars → σ → Except Err (σ × Bool)) (fuel : Nat) (st : Odo) (acc : σ) :
    odoRun outer visit (fuel + 1) st acc =
      (match odoStep outer st with
       | .error e => .error e
       | .ok .done => .ok (some acc)
       | .ok (.next st') => odoRun outer visit fuel st' acc
       | .ok (.yield vars st') =>
         match visit vars acc with
         | .error e => .error e
         | .ok (acc', true) => .ok (some acc')
         | .ok (acc', false) => odoRun outer visit fuel st' acc') := by
  rw [odoRun]
  cases h : odoStep outer st with
  | error e => rfl
  | ok ev =>
    cases ev with
    | done => rfl
    | next st' => rfl
    | yield vars st' =>
      simp only [bind, Except.bind]
      cases hv : visit vars acc with
      | error e => rfl
      | ok r =>
        obtain ⟨acc', stop⟩ := r
        cases stop <;> rfl

/-- Running the loop from a state whose current level (with started iterator `items`) has
`later` levels below it: the passes spent are `levelCost`, the effect is that of the nested
loops over `items`, and then the level is left. -/
theorem odoRun_level (outer : Vars) (visit : Vars → σ → Except Err (σ × Bool)) :
    ∀ (later : List (Nat × Sel)) (name : Nat) (sel : Sel) (items : Seq) (frames : List Frame) (acc : σ)
      (fuel : Nat),
      odoRun outer visit (levelCost later (frameVars frames outer) name items + fuel)
          { frames := frames, cur := some items, pending := (name, sel) :: later } acc =
        (match loopFold (fun v acc => cartFold visit later ((name, [v]) :: frameVars frames outer) acc) items acc with
         | .error e => .error e
         | .ok (acc', true) => .ok (some acc')
         | .ok (acc', false) => afterLevel outer visit fuel frames ((name, sel) :: later) acc') := by
  intro later
  induction later with
  | nil =>
    intro name sel items
    induction items with
    | nil =>
      intro frames acc fuel
      simp only [levelCost_nil, levelCost_cons, loopFold]
      rw [Nat.add_comm, odoRun_succ]
      cases frames <;> simp [odoStep, afterLevel, pure, Except.pure, bind, Except.bind]
    | cons v rest ih =>
      intro frames acc fuel
      simp only [levelCost_cons, subCost, loopFold, cartFold]
      have : 1 + 0 + levelCost [] (frameVars frames outer) name rest + fuel
          = (levelCost [] (frameVars frames outer) name rest + fuel) + 1 := by omega
      rw [this, odoRun_succ]
      simp only [odoStep, pure, Except.pure, bind, Except.bind]
      cases hv : visit ((name, [v]) :: frameVars frames outer) acc with
      | error e => rfl
      | ok r =>
        obtain ⟨acc', stop⟩ := r
        cases stop with
        | true => rfl
        | false => exact ih frames acc' fuel
  | cons nxt later' ihl =>
    obtain ⟨name', sel'⟩ := nxt
    intro name sel items
    induction items with
    | nil =>
      intro frames acc fuel
      simp only [levelCost_nil, levelCost_cons, loopFold]
      rw [Nat.add_comm, odoRun_succ]
      cases frames <;> simp [odoStep, afterLevel, pure, Except.pure, bind, Except.bind]
    | cons v rest ih =>
      intro frames acc fuel
      simp only [levelCost_nil, levelCost_cons, loopFold]
      -- first pass: `k += 1`
      have hc : 1 + subCost ((name', sel') :: later') ((name, [v]) :: frameVars frames outer)
            + levelCost ((name', sel') :: later') (frameVars frames outer) name rest + fuel
          = (subCost ((name', sel') :: later') ((name, [v]) :: frameVars frames outer)
            + (levelCost ((name', sel') :: later') (frameVars frames outer) name rest + fuel)) + 1 := by omega
      rw [hc, odoRun_succ]
      simp only [odoStep, pure, Except.pure, bind, Except.bind]
      -- the level below starts its generator
      have hv : frameVars (Frame.mk name sel v rest :: frames) outer
          = (name, [v]) :: frameVars frames outer := rfl
      simp only [subCost_cons, cartFold]
      cases hs : sel' ((name, [v]) :: frameVars frames outer) with
      | error e =>
        simp only []
        rw [Nat.add_comm 1, odoRun_succ]
        simp [odoStep, hv, hs, bind, Except.bind]
      | ok items' =>
        simp only []
        -- a not-started generator behaves like a started one holding its items
        have hstart : ∀ (n : Nat),
            odoRun outer visit n ⟨Frame.mk name sel v rest :: frames, none, (name', sel') :: later'⟩ acc
            = odoRun outer visit n ⟨Frame.mk name sel v rest :: frames, some items', (name', sel') :: later'⟩ acc := by
          intro n
          cases n with
          | zero => rfl
          | succ n =>
            rw [odoRun_succ, odoRun_succ]
            simp [odoStep, hv, hs, bind, Except.bind, pure, Except.pure]
        rw [hstart]
        have := ihl name' sel' items' ((Frame.mk name sel v rest :: frames)) acc
          (levelCost ((name', sel') :: later') (frameVars frames outer) name rest + fuel)
        rw [hv] at this
        rw [this]
        cases hl : loopFold (fun v_1 acc => cartFold visit later' ((name', [v_1]) :: (name, [v]) :: frameVars frames outer) acc)
            items' acc with
        | error e => rfl
        | ok r =>
          obtain ⟨acc', stop⟩ := r
          cases stop with
          | true => rfl
          | false =>
            simp only [afterLevel]
            exact ih frames acc' fuel

/-- **The odometer enumerates the cartesian product.**  For every list of (name, range
expression) pairs, every outer variable store and every consumer: `iterProduct` = the nested
loops `cartFold`. -/
theorem iterProduct_eq_cartFold (pending : List (Nat × Sel)) (hne : pending ≠ []) (outer : Vars)
    (visit : Vars → σ → Except Err (σ × Bool)) (acc : σ) :
    iterProduct pending outer visit acc = (cartFold visit pending outer acc).map Prod.fst := by
  cases pending with
  | nil => exact absurd rfl hne
  | cons p later =>
    obtain ⟨name, sel⟩ := p
    unfold iterProduct
    simp only [subCost_cons, cartFold]
    cases hs : sel outer with
    | error e =>
      simp only []
      rw [odoRun_succ]
      simp [odoStep, frameVars, hs, bind, Except.bind, Except.map]
    | ok items =>
      simp only []
      have hstart : ∀ (n : Nat),
          odoRun outer visit n { frames := [], cur := none, pending := (name, sel) :: later } acc
          = odoRun outer visit n { frames := [], cur := some items, pending := (name, sel) :: later } acc := by
        intro n
        cases n with
        | zero => rfl
        | succ n =>
          rw [odoRun_succ, odoRun_succ]
          simp [odoStep, frameVars, hs, bind, Except.bind, pure, Except.pure]
      rw [hstart]
      have := odoRun_level outer visit later name sel items [] acc 0
      simp only [Nat.add_zero, frameVars, List.map_nil, List.nil_append] at this
      rw [this]
      cases hl : loopFold (fun v acc => cartFold visit later ((name, [v]) :: outer) acc) items acc with
      | error e => rfl
      | ok r =>
        obtain ⟨acc', stop⟩ := r
        cases stop <;> rfl

end EPV.Seq

/-
C04 helper: completeness of the executable reference parser `ebnf` (EPV/Spec/EBNF.lean): every strict EBNF
derivation is found again from its tokens.  Together with `ebnfParse_sound` the reference parser decides
derivability of a token list.
-/
import EPV.Lemmas.PrattEbnf
import EPV.Lemmas.PrattComplete
namespace EPV.Syn
open EPV.Pratt

/-- extra coherence needed for completeness: an opening parenthesis symbol is neither a prefix operator nor
the unary lookup symbol -/
structure GramOKC (G : Gram) : Prop where
  grp_pre : ∀ g v, G.grp g = some v → G.pre g = none
  grp_ulk : ∀ g v, G.grp g = some v → G.ulk g = false

/-- the next token is not an operator of level ≥ k -/
def StopE (G : Gram) (k : Nat) (rest : List Tok) : Prop :=
  ∀ o tl j kd, rest = .op o :: tl → G.led o = some (j, kd) → j < k

theorem StopE.mono {G : Gram} {k k' : Nat} {rest : List Tok} (h : StopE G k rest) (hk : k ≤ k') : StopE G k' rest := by
  intro o tl j kd h1 h2; have := h o tl j kd h1 h2; omega

def NN (G : Gram) : Nat := G.top + 3

/-- with fuel `f` such that `NN * need x ≤ f + k`, level `k` parses `x` in front of `after` -/
def ParsesE (G : Gram) (k : Nat) (x : Tree) (after : List Tok) : Prop :=
  ∀ f, NN G * need x ≤ f + k → ebnf G f k (x.yield ++ after) = some (x, after)

def BodyE (G : Gram) (eo : Bool) (e : Tree) (c : Nat) (after : List Tok) : Prop :=
  (e = .nil ∧ eo = true) ∨ (startsOpen e.yield ∧ ParsesE G 0 e (.close c :: after))

/-- one iteration of the `( op operand )*` loop of level `j` -/
def StepE (G : Gram) (j : Nat) (fr : Frame) (after : List Tok) : Prop :=
  match fr with
  | .bin o x => (G.led o = some (j, .left) ∧ ParsesE G (j + 1) x after) ∨
      (G.led o = some (j, .key) ∧ x.isKeySpec = true ∧ ParsesE G G.top x after)
  | .typed _ _ => False
  | .post o c e => ∃ eo, G.led o = some (j, .bracket c eo) ∧ BodyE G eo e c after
  | .arrow o s a => G.led o = some (j, .arrow) ∧ s.isArrowSpec = true ∧ a.isGroup = true ∧
      ParsesE G G.top s (a.yield ++ after) ∧ ParsesE G G.top a after

def FramesE (G : Gram) (j : Nat) : List Frame → List Tok → Prop
  | [], rest => StopE G (j + 1) rest ∧ (∀ o tl kd, rest = .op o :: tl → G.led o ≠ some (j, kd))
  | fr :: frs, rest => StepE G j fr (ctxToks frs ++ rest) ∧ FramesE G j frs rest

theorem tail_stop (G : Gram) (f j : Nat) (lk : LKind) (l : Tree) (rest : List Tok)
    (h : ∀ o tl kd, rest = .op o :: tl → G.led o ≠ some (j, kd)) :
    ebnfTail G (f + 1) j lk l rest = some (l, rest) := by
  cases rest with
  | nil => simp [ebnfTail]
  | cons t tl =>
    cases t with
    | op o =>
      simp only [ebnfTail]
      cases hg : G.led o with
      | none => rfl
      | some v =>
        obtain ⟨j', kd⟩ := v
        by_cases hj : j' = j
        · subst hj; exact absurd hg (h o tl kd rfl)
        · simp [hj]
    | atom => simp [ebnfTail]
    | ty => simp [ebnfTail]
    | close => simp [ebnfTail]

theorem tail_complete (G : Gram) (j : Nat) (lk : LKind) : ∀ (frs : List Frame) (l : Tree) (rest : List Tok),
    FramesE G j frs rest → ∀ g, 1 + NN G * needs frs ≤ g →
    ebnfTail G g j lk l (ctxToks frs ++ rest) = some (plug l frs, rest) := by
  intro frs
  induction frs with
  | nil =>
    intro l rest h g hg
    obtain ⟨g', rfl⟩ : ∃ g', g = g' + 1 := ⟨g - 1, by omega⟩
    simpa [ctxToks, plug] using tail_stop G g' j lk l rest h.2
  | cons fr frs ih =>
    intro l rest h g hg
    obtain ⟨hstep, hrest⟩ := h
    obtain ⟨g', rfl⟩ : ∃ g', g = g' + 1 := ⟨g - 1, by omega⟩
    have hN : 3 ≤ NN G := by simp [NN]
    have hg' : 1 + NN G * needs frs ≤ g' := by
      simp only [needs] at hg
      have : 1 ≤ fr.need := by cases fr <;> simp [Frame.need] <;> omega
      have h3 : NN G * (fr.need + needs frs) = NN G * fr.need + NN G * needs frs := Nat.mul_add _ _ _
      have h4 : NN G * 1 ≤ NN G * fr.need := Nat.mul_le_mul_left _ this
      omega
    cases fr with
    | typed o n => exact absurd hstep (by simp [StepE])
    | bin o x =>
      have hxf : NN G * need x ≤ g' := by
        simp only [needs, Frame.need] at hg
        have h3 : NN G * (1 + need x + needs frs) = NN G + NN G * need x + NN G * needs frs := by
          rw [Nat.mul_add, Nat.mul_add, Nat.mul_one]
        omega
      have ih' := ih (.bin o l x) rest hrest g' hg'
      simp only [StepE] at hstep
      rcases hstep with ⟨hled, hx⟩ | ⟨hled, hks, hx⟩
      · have hx' := hx g' (by omega)
        simp only [ctxToks, Frame.toks, List.cons_append, List.append_assoc, ebnfTail, hled, beq_self_eq_true, if_true]
        rw [hx']
        exact ih'
      · have hx' := hx g' (by omega)
        simp only [ctxToks, Frame.toks, List.cons_append, List.append_assoc, ebnfTail, hled, beq_self_eq_true, if_true]
        rw [hx']
        simp only [hks, if_true]
        exact ih'
    | post o c e =>
      have ih' := ih (.post o c l e) rest hrest g' hg'
      simp only [StepE] at hstep
      obtain ⟨eo, hled, hbody⟩ := hstep
      rcases hbody with ⟨rfl, heo⟩ | ⟨hopen, he⟩
      · simp only [ctxToks, Frame.toks, Tree.yield, List.nil_append, List.cons_append, ebnfTail, hled,
          beq_self_eq_true, if_true, heo, Bool.true_and]
        exact ih'
      · have hef : NN G * need e ≤ g' := by
          simp only [needs, Frame.need] at hg
          have h3 : NN G * (1 + need e + needs frs) = NN G + NN G * need e + NN G * needs frs := by
            rw [Nat.mul_add, Nat.mul_add, Nat.mul_one]
          omega
        have he' := he g' (by omega)
        simp only [ctxToks, Frame.toks, List.cons_append, List.append_assoc, ebnfTail, hled, beq_self_eq_true, if_true]
        simp only [List.nil_append, List.cons_append] at he' ⊢
        cases hy : e.yield with
        | nil => simp [hy, startsOpen] at hopen
        | cons t tl =>
          rw [hy] at he' hopen
          cases t with
          | close => simp [startsOpen] at hopen
          | atom k n => simp only [List.cons_append] at he' ⊢; simp [he']; exact ih'
          | ty n => simp only [List.cons_append] at he' ⊢; simp [he']; exact ih'
          | op o' => simp only [List.cons_append] at he' ⊢; simp [he']; exact ih'
    | arrow o s a =>
      have hmul : NN G * (1 + need s + need a + needs frs) = NN G + NN G * need s + NN G * need a + NN G * needs frs := by
        rw [Nat.mul_add, Nat.mul_add, Nat.mul_add, Nat.mul_one]
      have hsf : NN G * need s ≤ g' := by simp only [needs, Frame.need] at hg; omega
      have haf : NN G * need a ≤ g' := by simp only [needs, Frame.need] at hg; omega
      have ih' := ih (.arrow o l s a) rest hrest g' hg'
      simp only [StepE] at hstep
      obtain ⟨hled, hspec, hgrp, hs, ha⟩ := hstep
      have hs' := hs g' (by omega)
      have ha' := ha g' (by omega)
      simp only [ctxToks, Frame.toks, List.cons_append, List.append_assoc, ebnfTail, hled, beq_self_eq_true, if_true]
      rw [hs']
      simp only [hspec, if_true]
      rw [ha']
      simp only [hgrp, if_true]
      exact ih'

section
variable {G : Gram}

theorem led_lt (hG : GramOK G) {o j : Nat} {kd : Kind} (h : G.led o = some (j, kd)) : j < G.top := by
  have hk := hG.led_kind o j kd h
  cases kd with
  | left => exact hG.lkind_lt j _ (hk.1 rfl)
  | none => exact hG.lkind_lt j _ (hk.2.1 rfl)
  | typed => exact hG.lkind_lt j _ (hk.2.2.1 rfl)
  | bracket c e => exact hG.lkind_lt j _ (hk.2.2.2.1 ⟨c, e, rfl⟩)
  | key => exact hG.lkind_lt j _ (hk.2.2.2.2.1 rfl)
  | arrow => exact hG.lkind_lt j _ (hk.2.2.2.2.2 rfl)

theorem led_not_prefix (hG : GramOK G) {o j : Nat} {kd : Kind} (h : G.led o = some (j, kd)) :
    G.lkind j ≠ some .prefix := by
  have hk := hG.led_kind o j kd h
  cases kd with
  | left => rw [hk.1 rfl]; simp
  | none => rw [hk.2.1 rfl]; simp
  | typed => rw [hk.2.2.1 rfl]; simp
  | bracket c e => rw [hk.2.2.2.1 ⟨c, e, rfl⟩]; simp
  | key => rw [hk.2.2.2.2.1 rfl]; simp
  | arrow => rw [hk.2.2.2.2.2 rfl]; simp

theorem wf_left (G : Gram) {t l : Tree} : (∃ o r, t = .bin o l r) ∨ (∃ o n, t = .typed o l n) ∨ (∃ o c e, t = .post o c l e) →
    wf true G t = true → wf true G l = true ∧ lvl G t ≤ lvl G l := by
  intro ht h
  rcases ht with ⟨o, r, rfl⟩ | ⟨o, n, rfl⟩ | ⟨o, c, e, rfl⟩
  · simp only [wf] at h
    split at h
    · rename_i j hg; simp at h
      have e : lvl G (.bin o l r) = j := by simp only [lvl, hg]; rfl
      exact ⟨h.1.2, by rw [e]; omega⟩
    · rename_i j hg; simp at h
      have e : lvl G (.bin o l r) = j := by simp only [lvl, hg]; rfl
      exact ⟨h.1.2, by rw [e]; omega⟩
    · rename_i j hg; simp at h
      have e : lvl G (.bin o l r) = j := by simp only [lvl, hg]; rfl
      exact ⟨h.1.2, by rw [e]; omega⟩
    · simp at h
  · simp only [wf] at h
    split at h
    · rename_i j hg; simp at h
      have e : lvl G (.typed o l n) = j := by simp only [lvl, hg]; rfl
      exact ⟨h.2, by rw [e]; omega⟩
    · simp at h
  · simp only [wf] at h
    split at h
    · rename_i j c' eo hg; simp at h
      have e : lvl G (.post o c l e) = j := by simp only [lvl, hg]; rfl
      exact ⟨h.1.2, by rw [e]; omega⟩
    · simp at h

theorem wf_left_arrow (G : Gram) {o : Nat} {l f a : Tree} (h : wf true G (.arrow o l f a) = true) :
    wf true G l = true ∧ lvl G (.arrow o l f a) ≤ lvl G l := by
  simp only [wf] at h
  split at h
  · rename_i j hg; simp at h
    have e : lvl G (.arrow o l f a) = j := by simp only [lvl, hg]; rfl
    exact ⟨h.1.1.2, by rw [e]; omega⟩
  · simp at h

/-- a derivation that starts with a prefix operator of level `j` is itself of level ≤ `j` -/
theorem first_op_level (hG : GramOK G) (hC : GramOKC G) : ∀ t, wf true G t = true →
    ∀ p tl j, t.yield = .op p :: tl → G.pre p = some j → lvl G t ≤ j := by
  intro t
  induction t with
  | nil => intro h; simp [wf] at h
  | atom => intro _ p tl j hy; simp [Tree.yield] at hy
  | group g c e _ =>
    intro h p tl j hy hp
    simp only [Tree.yield, List.cons.injEq, Tok.op.injEq] at hy
    obtain ⟨rfl, -⟩ := hy
    simp only [wf] at h
    split at h
    · rename_i c' eo hg
      rw [hC.grp_pre g _ hg] at hp; simp at hp
    · simp at h
  | pre q x _ =>
    intro h p tl j hy hp
    simp only [Tree.yield, List.cons.injEq, Tok.op.injEq] at hy
    obtain ⟨rfl, -⟩ := hy
    simp [lvl, hG.pre_not_ulk q j hp, hp]
  | bin o l r ihl _ =>
    intro h p tl j hy hp
    obtain ⟨hwl, hlv⟩ := wf_left G (Or.inl ⟨o, r, rfl⟩) h
    have hso := wf_startsOpen G l hwl
    cases hly : l.yield with
    | nil => simp [hly, startsOpen] at hso
    | cons a as =>
      simp only [Tree.yield, hly, List.cons_append, List.cons.injEq] at hy
      obtain ⟨rfl, -⟩ := hy
      have := ihl hwl p as j hly hp
      omega
  | typed o l n ihl =>
    intro h p tl j hy hp
    obtain ⟨hwl, hlv⟩ := wf_left G (Or.inr (Or.inl ⟨o, n, rfl⟩)) h
    have hso := wf_startsOpen G l hwl
    cases hly : l.yield with
    | nil => simp [hly, startsOpen] at hso
    | cons a as =>
      simp only [Tree.yield, hly, List.cons_append, List.cons.injEq] at hy
      obtain ⟨rfl, -⟩ := hy
      have := ihl hwl p as j hly hp
      omega
  | post o c l e ihl _ =>
    intro h p tl j hy hp
    obtain ⟨hwl, hlv⟩ := wf_left G (Or.inr (Or.inr ⟨o, c, e, rfl⟩)) h
    have hso := wf_startsOpen G l hwl
    cases hly : l.yield with
    | nil => simp [hly, startsOpen] at hso
    | cons a as =>
      simp only [Tree.yield, hly, List.cons_append, List.cons.injEq] at hy
      obtain ⟨rfl, -⟩ := hy
      have := ihl hwl p as j hly hp
      omega
  | arrow o l f a ihl _ _ =>
    intro h p tl j hy hp
    obtain ⟨hwl, hlv⟩ := wf_left_arrow G h
    have hso := wf_startsOpen G l hwl
    cases hly : l.yield with
    | nil => simp [hly, startsOpen] at hso
    | cons a' as =>
      simp only [Tree.yield, hly, List.cons_append, List.cons.injEq] at hy
      obtain ⟨rfl, -⟩ := hy
      have := ihl hwl p as j hly hp
      omega

theorem need_pos (G : Gram) : ∀ t, wf true G t = true → 1 ≤ need t := by
  intro t h
  cases t <;> simp [need] <;> first | omega | (simp [wf] at h)

theorem lvl_le_top (hG : GramOK G) : ∀ t, wf true G t = true → lvl G t ≤ G.top := by
  intro t h
  cases t with
  | nil => simp [lvl]
  | atom => simp [lvl]
  | group => simp [lvl]
  | pre p x =>
    simp only [lvl]
    split
    · exact Nat.le_refl _
    · rename_i hu
      simp only [wf, hu, Bool.false_eq_true, if_false] at h
      split at h
      · rename_i j hp
        have := hG.lkind_lt j _ (hG.pre_kind p j hp)
        simp [hp]; omega
      · simp at h
  | bin o l r =>
    simp only [wf] at h
    split at h
    · rename_i j hg; have := led_lt hG hg; simp [lvl, hg]; omega
    · rename_i j hg; have := led_lt hG hg; simp [lvl, hg]; omega
    · rename_i j hg; have := led_lt hG hg; simp [lvl, hg]; omega
    · simp at h
  | typed o l n =>
    simp only [wf] at h
    split at h
    · rename_i j hg; have := led_lt hG hg; simp [lvl, hg]; omega
    · simp at h
  | post o c l e =>
    simp only [wf] at h
    split at h
    · rename_i j c' eo hg; have := led_lt hG hg; simp [lvl, hg]; omega
    · simp at h
  | arrow o l f a =>
    simp only [wf] at h
    split at h
    · rename_i j hg; have := led_lt hG hg; simp [lvl, hg]; omega
    · simp at h

/-- the induction hypothesis: every derivation needing at most `n` activations is parsed from any level below its own -/
def CompleteE (G : Gram) (n : Nat) : Prop :=
  ∀ t, need t ≤ n → wf true G t = true → ∀ k, k ≤ lvl G t → k ≤ G.top → ∀ rest, StopE G k rest → ParsesE G k t rest

theorem stopE_close (G : Gram) (k c : Nat) (rest : List Tok) : StopE G k (.close c :: rest) := by
  intro o tl j kd h; simp at h

theorem bodyE_ok {n : Nat} (IH : CompleteE G n) (e : Tree) (hn : need e ≤ n) (eo : Bool) (c : Nat) (after : List Tok)
    (hwf : (e.isNil && eo) = true ∨ wf true G e = true) : BodyE G eo e c after := by
  by_cases hnil : e = .nil
  · subst hnil
    rcases hwf with h | h
    · left; simp [Tree.isNil] at h; exact ⟨rfl, h⟩
    · simp [wf] at h
  · right
    have hw : wf true G e = true := by
      rcases hwf with h | h
      · cases e <;> simp [Tree.isNil] at h hnil
      · exact h
    exact ⟨wf_startsOpen G e hw, IH e hn hw 0 (Nat.zero_le _) (Nat.zero_le _) _ (stopE_close G 0 c after)⟩

/-- from level `k + 1` down to level `k` when the tree is of a higher level -/
theorem descend (hG : GramOK G) (hC : GramOKC G) (t : Tree) (hwf : wf true G t = true) (k : Nat) (hk : k < lvl G t)
    (rest : List Tok) (hstop : StopE G k rest) (h : ParsesE G (k + 1) t rest) : ParsesE G k t rest := by
  intro f hf
  have htop := lvl_le_top hG t hwf
  have hnp := need_pos G t hwf
  have hN : NN G * 1 ≤ NN G * need t := Nat.mul_le_mul_left _ hnp
  have hNN : NN G = G.top + 3 := rfl
  obtain ⟨f', rfl⟩ : ∃ f', f = f' + 1 := ⟨f - 1, by omega⟩
  have h1 := h f' (by omega)
  obtain ⟨lk, hlk⟩ := hG.lkind_some k (by omega)
  have hso := wf_startsOpen G t hwf
  -- after the sub-level returned `t`, the tail of level `k` stops
  have htail : ∀ lk', ebnfTail G f' k lk' t rest = some (t, rest) := by
    intro lk'
    obtain ⟨f'', rfl⟩ : ∃ f'', f' = f'' + 1 := ⟨f' - 1, by omega⟩
    refine tail_stop G f'' k lk' t rest ?_
    intro o tl kd hr hg
    have := hstop o tl k kd hr hg
    omega
  cases lk with
  | «prefix» =>
    cases hy : t.yield with
    | nil => simp [hy, startsOpen] at hso
    | cons a as =>
      rw [hy] at h1
      cases a with
      | op p =>
        simp only [List.cons_append, ebnf, hlk]
        by_cases hp : G.pre p = some k
        · have := first_op_level hG hC t hwf p as k hy hp
          omega
        · have : (G.pre p == some k) = false := by simpa using hp
          simp only [this, Bool.false_eq_true, if_false]
          simpa using h1
      | atom a1 a2 => simp only [List.cons_append, ebnf, hlk]; simpa using h1
      | ty a1 => simp only [List.cons_append, ebnf, hlk]; simpa using h1
      | close a1 => simp only [List.cons_append, ebnf, hlk]; simpa using h1
  | left => simp only [ebnf, hlk, h1]; exact htail _
  | none => simp only [ebnf, hlk, h1]; exact htail _
  | typed => simp only [ebnf, hlk, h1]; exact htail _
  | «postfix» => simp only [ebnf, hlk, h1]; exact htail _

theorem frames_stop (hG : GramOK G) (j : Nat) : ∀ (tl : List Frame) (rest : List Tok), FramesE G j tl rest →
    StopE G (j + 1) (ctxToks tl ++ rest) := by
  intro tl rest h
  cases tl with
  | nil => simpa [ctxToks] using h.1
  | cons fr frs =>
    obtain ⟨hstep, -⟩ := h
    intro o tl' j' kd hr hg
    cases fr with
    | typed => simp [StepE] at hstep
    | bin o1 x =>
      simp only [ctxToks, Frame.toks, List.cons_append, List.cons.injEq, Tok.op.injEq] at hr
      obtain ⟨rfl, -⟩ := hr
      rcases hstep with ⟨hl, -⟩ | ⟨hl, -⟩ <;> (rw [hl] at hg; simp at hg; omega)
    | post o1 c e =>
      simp only [ctxToks, Frame.toks, List.cons_append, List.cons.injEq, Tok.op.injEq] at hr
      obtain ⟨rfl, -⟩ := hr
      obtain ⟨eo, hl, -⟩ := hstep
      rw [hl] at hg; simp at hg; omega
    | arrow o1 s a =>
      simp only [ctxToks, Frame.toks, List.cons_append, List.cons.injEq, Tok.op.injEq] at hr
      obtain ⟨rfl, -⟩ := hr
      obtain ⟨hl, -⟩ := hstep
      rw [hl] at hg; simp at hg; omega

/-- base of a left spine: an operand of a strictly higher level, then the loop of level `j` -/
theorem baseE (hG : GramOK G) {n : Nat} (IH : CompleteE G n) (j : Nat) (lk : LKind) (hlk : G.lkind j = some lk)
    (hloop : lk = .left ∨ lk = .postfix) (s : Tree) (hn : need s ≤ n) (hwf : wf true G s = true)
    (hlv : j + 1 ≤ lvl G s) (tl : List Frame) (rest : List Tok) (hfr : FramesE G j tl rest)
    (f : Nat) (hf : NN G * (need s + needs tl) ≤ f + j) :
    ebnf G f j (s.yield ++ (ctxToks tl ++ rest)) = some (plug s tl, rest) := by
  have hjt := hG.lkind_lt j lk hlk
  have hnp := need_pos G s hwf
  have hNN : NN G = G.top + 3 := rfl
  have hmul : NN G * (need s + needs tl) = NN G * need s + NN G * needs tl := Nat.mul_add _ _ _
  have hN : NN G * 1 ≤ NN G * need s := Nat.mul_le_mul_left _ hnp
  obtain ⟨f', rfl⟩ : ∃ f', f = f' + 1 := ⟨f - 1, by omega⟩
  have htop := lvl_le_top hG s hwf
  have h1 := IH s hn hwf (j + 1) hlv (by omega) _ (frames_stop hG j tl rest hfr) f' (by omega)
  have h2 := tail_complete G j lk tl s rest hfr f' (by omega)
  rcases hloop with rfl | rfl
  · simp only [ebnf, hlk, h1]; exact h2
  · simp only [ebnf, hlk, h1]; exact h2

/-- the tree is built by an operator of the loop of level `j` -/
def isLoopAt (G : Gram) (j : Nat) : Tree → Prop
  | .bin o _ _ => G.led o = some (j, .left) ∨ G.led o = some (j, .key)
  | .post o c _ _ => ∃ eo, G.led o = some (j, .bracket c eo)
  | .arrow o _ _ _ => G.led o = some (j, .arrow)
  | _ => False

theorem stopE_top (hG : GramOK G) (rest : List Tok) : StopE G G.top rest := by
  intro o tl j kd _ hg; exact led_lt hG hg

/-- the left spine of level `j`, continued by the iterations `tl` -/
theorem spineE (hG : GramOK G) {n : Nat} (IH : CompleteE G n) (j : Nat) (lk : LKind) (hlk : G.lkind j = some lk)
    (hloop : lk = .left ∨ lk = .postfix) :
    ∀ s, need s ≤ n + 1 → wf true G s = true → j ≤ lvl G s → (need s ≤ n ∨ isLoopAt G j s) →
      ∀ tl rest, FramesE G j tl rest → ∀ f, NN G * (need s + needs tl) ≤ f + j →
        ebnf G f j (s.yield ++ (ctxToks tl ++ rest)) = some (plug s tl, rest) := by
  have hjt := hG.lkind_lt j lk hlk
  have hlkne : ∀ lk', G.lkind j = some lk' → lk' = .left ∨ lk' = .postfix := by
    intro lk' h; rw [hlk] at h; simp at h; subst h; exact hloop
  intro s
  induction s with
  | nil => intro _ h; simp [wf] at h
  | atom k m =>
    intro _ hwf _ hor tl rest hfr f hf
    have hn : need (Tree.atom k m) ≤ n := by rcases hor with h | h; exact h; simp [isLoopAt] at h
    exact baseE hG IH j lk hlk hloop _ hn hwf (by simp [lvl]; omega) tl rest hfr f hf
  | group g c e _ =>
    intro _ hwf _ hor tl rest hfr f hf
    have hn : need (Tree.group g c e) ≤ n := by rcases hor with h | h; exact h; simp [isLoopAt] at h
    exact baseE hG IH j lk hlk hloop _ hn hwf (by simp [lvl]; omega) tl rest hfr f hf
  | pre p x _ =>
    intro _ hwf hlv hor tl rest hfr f hf
    have hn : need (Tree.pre p x) ≤ n := by rcases hor with h | h; exact h; simp [isLoopAt] at h
    refine baseE hG IH j lk hlk hloop _ hn hwf ?_ tl rest hfr f hf
    by_cases hu : G.ulk p = true
    · simp [lvl, hu]; omega
    · simp only [Bool.not_eq_true] at hu
      simp only [wf, hu, Bool.false_eq_true, if_false] at hwf
      split at hwf
      · rename_i jp hp
        have hk := hG.pre_kind p jp hp
        have hne : jp ≠ j := by
          intro he; subst he; rw [hlk] at hk; simp at hk; subst hk; rcases hloop with h | h <;> simp at h
        simp only [lvl, hu, hp, Bool.false_eq_true, if_false, Option.getD_some] at hlv ⊢
        omega
      · simp at hwf
  | typed o l m _ =>
    intro _ hwf hlv hor tl rest hfr f hf
    have hn : need (Tree.typed o l m) ≤ n := by rcases hor with h | h; exact h; simp [isLoopAt] at h
    refine baseE hG IH j lk hlk hloop _ hn hwf ?_ tl rest hfr f hf
    simp only [wf] at hwf
    split at hwf
    · rename_i jo hg
      have hk := (hG.led_kind o jo _ hg).2.2.1 rfl
      have hne : jo ≠ j := by
        intro he; subst he; rw [hlk] at hk; simp at hk; subst hk; rcases hloop with h | h <;> simp at h
      simp only [lvl, hg, Option.map_some, Option.getD_some] at hlv ⊢
      omega
    · simp at hwf
  | bin o l x ihl _ =>
    intro hn1 hwf hlv hor tl rest hfr f hf
    have hnl : need l ≤ n := by simp [need] at hn1; omega
    have hnx : need x ≤ n := by simp [need] at hn1; omega
    cases hg : G.led o with
    | none => simp [wf, hg] at hwf
    | some v =>
      obtain ⟨jo, kind⟩ := v
      have hlvs : lvl G (.bin o l x) = jo := by simp [lvl, hg]
      by_cases hj : jo = j
      · subst hj
        have hkinds := hG.led_kind o jo kind hg
        cases kind with
        | left =>
          simp [wf, hg] at hwf
          have hx : ParsesE G (jo + 1) x (ctxToks tl ++ rest) :=
            IH x hnx hwf.2 (jo + 1) hwf.1.1.2 (by omega) _ (frames_stop hG jo tl rest hfr)
          have := ihl (by omega) hwf.1.2 hwf.1.1.1 (Or.inl hnl) (.bin o x :: tl) rest
            ⟨Or.inl ⟨hg, hx⟩, hfr⟩ f (by
              simp only [needs, Frame.need]; simp only [need] at hf
              rw [show need l + (1 + need x + needs tl) = 1 + need l + need x + needs tl by omega]; exact hf)
          simpa [Tree.yield, ctxToks, Frame.toks, plug, Frame.apply] using this
        | key =>
          simp [wf, hg] at hwf
          have hxl : G.top ≤ lvl G x := by
            have := hwf.1.1.2
            cases x <;> simp [Tree.isKeySpec] at this <;> simp [lvl]
          have hx : ParsesE G G.top x (ctxToks tl ++ rest) :=
            IH x hnx hwf.2 G.top hxl (Nat.le_refl _) _ (stopE_top hG _)
          have := ihl (by omega) hwf.1.2 hwf.1.1.1 (Or.inl hnl) (.bin o x :: tl) rest
            ⟨Or.inr ⟨hg, hwf.1.1.2, hx⟩, hfr⟩ f (by
              simp only [needs, Frame.need]; simp only [need] at hf
              rw [show need l + (1 + need x + needs tl) = 1 + need l + need x + needs tl by omega]; exact hf)
          simpa [Tree.yield, ctxToks, Frame.toks, plug, Frame.apply] using this
        | none =>
          have := hlkne _ (hkinds.2.1 rfl)
          rcases this with h | h <;> simp at h
        | typed => simp [wf, hg] at hwf
        | bracket c e => simp [wf, hg] at hwf
        | arrow => simp [wf, hg] at hwf
      · have hn : need (Tree.bin o l x) ≤ n := by
          rcases hor with h | h
          · exact h
          · simp only [isLoopAt, hg, Option.some.injEq, Prod.mk.injEq] at h
            rcases h with h | h <;> exact absurd h.1 hj
        exact baseE hG IH j lk hlk hloop _ hn hwf (by rw [hlvs] at hlv ⊢; omega) tl rest hfr f hf
  | post o c l e ihl _ =>
    intro hn1 hwf hlv hor tl rest hfr f hf
    have hnl : need l ≤ n := by simp [need] at hn1; omega
    have hne : need e ≤ n := by simp [need] at hn1; omega
    cases hg : G.led o with
    | none => simp [wf, hg] at hwf
    | some v =>
      obtain ⟨jo, kind⟩ := v
      have hlvs : lvl G (.post o c l e) = jo := by simp [lvl, hg]
      cases kind with
      | bracket c' eo =>
        simp [wf, hg] at hwf
        obtain ⟨⟨⟨rfl, hll⟩, hwl⟩, hwe⟩ := hwf
        by_cases hj : jo = j
        · subst hj
          have hbody := bodyE_ok IH e hne eo c (ctxToks tl ++ rest) (by simpa using hwe)
          have := ihl (by omega) hwl hll (Or.inl hnl) (.post o c e :: tl) rest
            ⟨⟨eo, hg, hbody⟩, hfr⟩ f (by
              simp only [needs, Frame.need]; simp only [need] at hf
              rw [show need l + (1 + need e + needs tl) = 1 + need l + need e + needs tl by omega]; exact hf)
          simpa [Tree.yield, ctxToks, Frame.toks, plug, Frame.apply, List.append_assoc] using this
        · have hn : need (Tree.post o c l e) ≤ n := by
            rcases hor with h | h
            · exact h
            · simp only [isLoopAt, hg, Option.some.injEq, Prod.mk.injEq] at h
              obtain ⟨eo', h, -⟩ := h; exact absurd h hj
          have hwf' : wf true G (.post o c l e) = true := by simp [wf, hg, hll, hwl, hwe]
          exact baseE hG IH j lk hlk hloop _ hn hwf' (by rw [hlvs] at hlv ⊢; omega) tl rest hfr f hf
      | left => simp [wf, hg] at hwf
      | none => simp [wf, hg] at hwf
      | typed => simp [wf, hg] at hwf
      | key => simp [wf, hg] at hwf
      | arrow => simp [wf, hg] at hwf
  | arrow o l s a ihl _ _ =>
    intro hn1 hwf hlv hor tl rest hfr f hf
    have hnl : need l ≤ n := by simp [need] at hn1; omega
    have hns : need s ≤ n := by simp [need] at hn1; omega
    have hna : need a ≤ n := by simp [need] at hn1; omega
    cases hg : G.led o with
    | none => simp [wf, hg] at hwf
    | some v =>
      obtain ⟨jo, kind⟩ := v
      have hlvs : lvl G (.arrow o l s a) = jo := by simp [lvl, hg]
      cases kind with
      | arrow =>
        simp [wf, hg] at hwf
        obtain ⟨⟨⟨⟨⟨hll, hspec⟩, hgrp⟩, hwl⟩, hws⟩, hwa⟩ := hwf
        by_cases hj : jo = j
        · subst hj
          have hsl : G.top ≤ lvl G s := by
            cases s <;> simp [Tree.isArrowSpec] at hspec <;> simp [lvl]
          have hal : G.top ≤ lvl G a := by
            cases a <;> simp [Tree.isGroup] at hgrp <;> simp [lvl]
          have hs : ParsesE G G.top s (a.yield ++ (ctxToks tl ++ rest)) :=
            IH s hns hws G.top hsl (Nat.le_refl _) _ (stopE_top hG _)
          have ha : ParsesE G G.top a (ctxToks tl ++ rest) :=
            IH a hna hwa G.top hal (Nat.le_refl _) _ (stopE_top hG _)
          have := ihl (by omega) hwl hll (Or.inl hnl) (.arrow o s a :: tl) rest
            ⟨⟨hg, hspec, hgrp, hs, ha⟩, hfr⟩ f (by
              simp only [needs, Frame.need]; simp only [need] at hf
              rw [show need l + (1 + need s + need a + needs tl) = 1 + need l + need s + need a + needs tl by omega]; exact hf)
          simpa [Tree.yield, ctxToks, Frame.toks, plug, Frame.apply, List.append_assoc] using this
        · have hn : need (Tree.arrow o l s a) ≤ n := by
            rcases hor with h | h
            · exact h
            · simp only [isLoopAt, hg, Option.some.injEq, Prod.mk.injEq] at h
              exact absurd h.1 hj
          have hwf' : wf true G (.arrow o l s a) = true := by simp [wf, hg, hll, hspec, hgrp, hwl, hws, hwa]
          exact baseE hG IH j lk hlk hloop _ hn hwf' (by rw [hlvs] at hlv ⊢; omega) tl rest hfr f hf
      | left => simp [wf, hg] at hwf
      | none => simp [wf, hg] at hwf
      | typed => simp [wf, hg] at hwf
      | key => simp [wf, hg] at hwf
      | bracket c e => simp [wf, hg] at hwf

theorem framesE_nil (G : Gram) (j : Nat) (rest : List Tok) (h : StopE G j rest) : FramesE G j [] rest := by
  refine ⟨h.mono (Nat.le_succ j), ?_⟩
  intro o tl kd hr hg
  have := h o tl j kd hr hg
  omega

/-- a derivation is parsed from its own level -/
theorem ownE (hG : GramOK G) (hC : GramOKC G) {n : Nat} (IH : CompleteE G n) (t : Tree) (hn : need t ≤ n + 1)
    (hwf : wf true G t = true) (rest : List Tok) (hstop : StopE G (lvl G t) rest) : ParsesE G (lvl G t) t rest := by
  have hNN : NN G = G.top + 3 := rfl
  cases t with
  | nil => simp [wf] at hwf
  | atom a m =>
    intro f hf
    simp only [lvl, need] at hf ⊢
    obtain ⟨f', rfl⟩ : ∃ f', f = f' + 1 := ⟨f - 1, by omega⟩
    simp [Tree.yield, ebnf, hG.lkind_top G.top (Nat.le_refl _)]
  | group g c e =>
    intro f hf
    simp only [lvl, need] at hf ⊢
    have hmul : NN G * (1 + need e) = NN G + NN G * need e := by rw [Nat.mul_add, Nat.mul_one]
    obtain ⟨f', rfl⟩ : ∃ f', f = f' + 1 := ⟨f - 1, by omega⟩
    simp only [wf] at hwf
    split at hwf
    · rename_i c' eo hg
      simp only [Bool.and_eq_true, beq_iff_eq] at hwf
      obtain ⟨rfl, hbody⟩ := hwf
      have hu := hC.grp_ulk g _ hg
      have hne : need e ≤ n := by simp [need] at hn; omega
      have hb := bodyE_ok IH e hne eo c rest (by simpa using hbody)
      simp only [Tree.yield, List.cons_append, ebnf, hG.lkind_top G.top (Nat.le_refl _), hu, Bool.false_eq_true, if_false, hg]
      rcases hb with ⟨rfl, heo⟩ | ⟨hopen, he⟩
      · simp [Tree.yield, heo]
      · have he' := he f' (by omega)
        simp only [List.append_assoc, List.cons_append, List.nil_append] at he' ⊢
        cases hy : e.yield with
        | nil => simp [hy, startsOpen] at hopen
        | cons tk tl =>
          rw [hy] at he' hopen
          cases tk with
          | close => simp [startsOpen] at hopen
          | atom k1 n1 => simp only [List.cons_append] at he' ⊢; simp [he']
          | ty n1 => simp only [List.cons_append] at he' ⊢; simp [he']
          | op o' => simp only [List.cons_append] at he' ⊢; simp [he']
    · simp at hwf
  | pre p x =>
    intro f hf
    have hmul : NN G * (1 + need x) = NN G + NN G * need x := by rw [Nat.mul_add, Nat.mul_one]
    have hnx : need x ≤ n := by simp [need] at hn; omega
    by_cases hu : G.ulk p = true
    · simp only [lvl, hu, if_true, need] at hf hstop ⊢
      obtain ⟨f', rfl⟩ : ∃ f', f = f' + 1 := ⟨f - 1, by omega⟩
      simp only [wf, hu, if_true, Bool.and_eq_true] at hwf
      have hxl : G.top ≤ lvl G x := by
        have := hwf.1
        cases x <;> simp [Tree.isKeySpec] at this <;> simp [lvl]
      have hx := IH x hnx hwf.2 G.top hxl (Nat.le_refl _) rest hstop f' (by omega)
      simp only [Tree.yield, List.cons_append, ebnf, hG.lkind_top G.top (Nat.le_refl _), hu, if_true, hx, hwf.1]
    · simp only [Bool.not_eq_true] at hu
      simp only [wf, hu, Bool.false_eq_true, if_false] at hwf
      split at hwf
      · rename_i j hp
        simp at hwf
        simp only [lvl, hu, hp, Bool.false_eq_true, if_false, Option.getD_some, need] at hf hstop ⊢
        have hk := hG.pre_kind p j hp
        have hjt := hG.lkind_lt j _ hk
        obtain ⟨f', rfl⟩ : ∃ f', f = f' + 1 := ⟨f - 1, by omega⟩
        have hx := IH x hnx hwf.2 j hwf.1 (by omega) rest hstop f' (by omega)
        simp only [Tree.yield, List.cons_append, ebnf, hk, hp, beq_self_eq_true, if_true, hx]
      · simp at hwf
  | bin o l r =>
    have hnl : need l ≤ n := by simp [need] at hn; omega
    have hnr : need r ≤ n := by simp [need] at hn; omega
    cases hg : G.led o with
    | none => simp [wf, hg] at hwf
    | some v =>
      obtain ⟨j, kind⟩ := v
      have hlvs : lvl G (.bin o l r) = j := by simp [lvl, hg]
      rw [hlvs] at hstop ⊢
      have hkinds := hG.led_kind o j kind hg
      have hjt := led_lt hG hg
      cases kind with
      | left =>
        intro f hf
        have := spineE hG IH j .left (hkinds.1 rfl) (Or.inl rfl) (.bin o l r) hn hwf (by rw [hlvs]; exact Nat.le_refl _)
          (Or.inr (Or.inl hg)) [] rest (framesE_nil G j rest hstop) f (by simpa [needs] using hf)
        simpa [ctxToks, plug] using this
      | key =>
        intro f hf
        have := spineE hG IH j .postfix (hkinds.2.2.2.2.1 rfl) (Or.inr rfl) (.bin o l r) hn hwf (by rw [hlvs]; exact Nat.le_refl _)
          (Or.inr (Or.inr hg)) [] rest (framesE_nil G j rest hstop) f (by simpa [needs] using hf)
        simpa [ctxToks, plug] using this
      | none =>
        intro f hf
        simp [wf, hg] at hwf
        have hlk := hkinds.2.1 rfl
        have hmul : NN G * (1 + need l + need r) = NN G + NN G * need l + NN G * need r := by
          rw [Nat.mul_add, Nat.mul_add, Nat.mul_one]
        simp only [need] at hf
        obtain ⟨f', rfl⟩ : ∃ f', f = f' + 1 := ⟨f - 1, by omega⟩
        have hstopl : StopE G (j + 1) (.op o :: (r.yield ++ rest)) := by
          intro o' tl j' kd hr hg'
          simp only [List.cons.injEq, Tok.op.injEq] at hr
          obtain ⟨rfl, -⟩ := hr
          rw [hg] at hg'; simp at hg'; omega
        have h1 := IH l hnl hwf.1.2 (j + 1) hwf.1.1.1 (by omega) _ hstopl f' (by omega)
        have htl : ebnfTail G f' j .none l (.op o :: (r.yield ++ rest)) = some (.bin o l r, rest) := by
          obtain ⟨f'', rfl⟩ : ∃ f'', f' = f'' + 1 := ⟨f' - 1, by omega⟩
          have h2 := IH r hnr hwf.2 (j + 1) hwf.1.1.2 (by omega) rest (hstop.mono (Nat.le_succ j)) f'' (by omega)
          simp only [ebnfTail, hg, beq_self_eq_true, if_true, h2]
        simp only [Tree.yield, List.append_assoc, List.cons_append, ebnf, hlk, h1]
        exact htl
      | typed => simp [wf, hg] at hwf
      | bracket c e => simp [wf, hg] at hwf
      | arrow => simp [wf, hg] at hwf
  | typed o l m =>
    have hnl : need l ≤ n := by simp [need] at hn; omega
    cases hg : G.led o with
    | none => simp [wf, hg] at hwf
    | some v =>
      obtain ⟨j, kind⟩ := v
      have hlvs : lvl G (.typed o l m) = j := by simp [lvl, hg]
      rw [hlvs] at hstop ⊢
      have hjt := led_lt hG hg
      cases kind with
      | typed =>
        intro f hf
        simp [wf, hg] at hwf
        have hlk := (hG.led_kind o j _ hg).2.2.1 rfl
        have hmul : NN G * (1 + need l) = NN G + NN G * need l := by rw [Nat.mul_add, Nat.mul_one]
        simp only [need] at hf
        obtain ⟨f', rfl⟩ : ∃ f', f = f' + 1 := ⟨f - 1, by omega⟩
        have hstopl : StopE G (j + 1) (.op o :: .ty m :: rest) := by
          intro o' tl j' kd hr hg'
          simp only [List.cons.injEq, Tok.op.injEq] at hr
          obtain ⟨rfl, -⟩ := hr
          rw [hg] at hg'; simp at hg'; omega
        have h1 := IH l hnl hwf.2 (j + 1) hwf.1 (by omega) _ hstopl f' (by omega)
        have htl : ebnfTail G f' j .typed l (.op o :: .ty m :: rest) = some (.typed o l m, rest) := by
          obtain ⟨f'', rfl⟩ : ∃ f'', f' = f'' + 1 := ⟨f' - 1, by omega⟩
          simp only [ebnfTail, hg, beq_self_eq_true, if_true]
        simp only [Tree.yield, List.append_assoc, List.cons_append, List.nil_append, ebnf, hlk, h1]
        exact htl
      | left => simp [wf, hg] at hwf
      | none => simp [wf, hg] at hwf
      | key => simp [wf, hg] at hwf
      | bracket c e => simp [wf, hg] at hwf
      | arrow => simp [wf, hg] at hwf
  | post o c l e =>
    cases hg : G.led o with
    | none => simp [wf, hg] at hwf
    | some v =>
      obtain ⟨j, kind⟩ := v
      have hlvs : lvl G (.post o c l e) = j := by simp [lvl, hg]
      rw [hlvs] at hstop ⊢
      cases kind with
      | bracket c' eo =>
        have hc : c = c' := by simp [wf, hg] at hwf; exact hwf.1.1.1
        subst hc
        intro f hf
        have := spineE hG IH j .postfix ((hG.led_kind o j _ hg).2.2.2.1 ⟨c, eo, rfl⟩) (Or.inr rfl) (.post o c l e) hn hwf
          (by rw [hlvs]; exact Nat.le_refl _) (Or.inr ⟨eo, hg⟩) [] rest (framesE_nil G j rest hstop) f (by simpa [needs] using hf)
        simpa [ctxToks, plug] using this
      | left => simp [wf, hg] at hwf
      | none => simp [wf, hg] at hwf
      | typed => simp [wf, hg] at hwf
      | key => simp [wf, hg] at hwf
      | arrow => simp [wf, hg] at hwf
  | arrow o l s a =>
    cases hg : G.led o with
    | none => simp [wf, hg] at hwf
    | some v =>
      obtain ⟨j, kind⟩ := v
      have hlvs : lvl G (.arrow o l s a) = j := by simp [lvl, hg]
      rw [hlvs] at hstop ⊢
      cases kind with
      | arrow =>
        intro f hf
        have := spineE hG IH j .left ((hG.led_kind o j _ hg).2.2.2.2.2 rfl) (Or.inl rfl) (.arrow o l s a) hn hwf
          (by rw [hlvs]; exact Nat.le_refl _) (Or.inr hg) [] rest (framesE_nil G j rest hstop) f (by simpa [needs] using hf)
        simpa [ctxToks, plug] using this
      | left => simp [wf, hg] at hwf
      | none => simp [wf, hg] at hwf
      | typed => simp [wf, hg] at hwf
      | key => simp [wf, hg] at hwf
      | bracket c e => simp [wf, hg] at hwf

/-- **completeness of the reference parser**, all levels -/
theorem ebnf_complete_all (hG : GramOK G) (hC : GramOKC G) : ∀ n, CompleteE G n := by
  intro n
  induction n with
  | zero =>
    intro t hn hwf
    have := need_pos G t hwf
    omega
  | succ n IH =>
    intro t hn hwf k hk hkt rest hstop
    have key : ∀ d k, k + d = lvl G t → StopE G k rest → ParsesE G k t rest := by
      intro d
      induction d with
      | zero =>
        intro k hkd hs
        simp only [Nat.add_zero] at hkd
        subst hkd
        exact ownE hG hC IH t hn hwf rest hs
      | succ d ihd =>
        intro k hkd hs
        exact descend hG hC t hwf k (by omega) rest hs (ihd (k + 1) (by omega) (hs.mono (Nat.le_succ k)))
    exact key (lvl G t - k) k (by omega) hstop

theorem need_le_yield' : ∀ t : Tree, need t ≤ t.yield.length := by
  intro t
  induction t with
  | nil => simp [need]
  | atom => simp [need, Tree.yield]
  | group g c e ih => simp [need, Tree.yield]; omega
  | pre p x ih => simp [need, Tree.yield]; omega
  | bin o l r ihl ihr => simp [need, Tree.yield]; omega
  | typed o l n ih => simp [need, Tree.yield]; omega
  | post o c l e ihl ihe => simp [need, Tree.yield]; omega
  | arrow o l f a ihl ihf iha => simp [need, Tree.yield]; omega

/-- **completeness of the reference parser**: every EBNF derivation from the start symbol is returned on its tokens -/
theorem ebnfParse_complete (hG : GramOK G) (hC : GramOKC G) (t : Tree) (hd : derivable G 0 t = true) :
    ebnfParse G t.yield = some t := by
  simp only [derivable, Bool.and_eq_true, decide_eq_true_eq] at hd
  have hlen := need_le_yield' t
  have hmul : NN G * need t ≤ NN G * t.yield.length := Nat.mul_le_mul_left _ hlen
  have hNN : NN G = G.top + 3 := rfl
  have hstop : StopE G 0 [] := by intro o tl j kd h; simp at h
  have h := ebnf_complete_all hG hC (need t) t (Nat.le_refl _) hd.2 0 (Nat.zero_le _) (Nat.zero_le _) [] hstop
    ((t.yield.length + 2) * (G.top + 3)) (by
      rw [hNN] at hmul ⊢
      have : (t.yield.length + 2) * (G.top + 3) = (G.top + 3) * t.yield.length + 2 * (G.top + 3) := by
        rw [Nat.add_mul, Nat.mul_comm]
      omega)
  simp only [List.append_nil] at h
  simp [ebnfParse, h]

end

/-- the grammar built from a level list that does not list `(` as a prefix operator -/
theorem gramOf_okc (levels : List Level) (ep : Bool) (syms : List String)
    (h : findLevel true "(" levels 0 = none) : GramOKC (gramOf levels ep syms) := by
  constructor
  · intro g v hg
    simp only [gramOf] at hg ⊢
    split at hg
    · rename_i hs
      simp [hs, h]
    · simp at hg
  · intro g v hg
    simp only [gramOf] at hg ⊢
    split at hg
    · rename_i hs
      simp [hs]
    · simp at hg

end EPV.Syn

/-
C10 — canonical form of a list of half-open code-point ranges (sorted by start, overlapping and adjacent ranges
merged) with the proof that canonicalisation keeps the set.  Two lists with the same canonical form denote the same
set: this turns "the character tables generated from the live patterns are the XML productions" into one kernel
evaluation (`rangesAgree … = true`).
-/
import EPV.Model.Lexical
import EPV.Spec.XSDLexical
namespace EPV.LexLemmas
open EPV

abbrev Ranges := List (Nat × Nat)

def memR (t : Ranges) (n : Nat) : Bool := t.any fun r => decide (r.1 ≤ n) && decide (n < r.2)

theorem inRanges_eq_memR (t : Ranges) (c : Char) : Lex.inRanges t c = memR t c.toNat := rfl
theorem inSet_eq_memR (t : Ranges) (c : Char) : XSD.inSet t c = memR t c.toNat := rfl

/-- insertion by start -/
def insertR (x : Nat × Nat) : Ranges → Ranges
  | [] => [x]
  | y :: r => if x.1 ≤ y.1 then x :: y :: r else y :: insertR x r

def sortR (l : Ranges) : Ranges := l.foldr insertR []

/-- put a range in front of a canonical list, merging it with the head when they touch -/
def consR (x : Nat × Nat) : Ranges → Ranges
  | [] => [x]
  | y :: r => if x.1 ≤ y.1 ∧ y.1 ≤ x.2 then (x.1, max x.2 y.2) :: r else x :: y :: r

def mergeR (l : Ranges) : Ranges := l.foldr consR []

def canonR (l : Ranges) : Ranges := mergeR (sortR l)

def rangesAgree (a b : Ranges) : Bool := canonR a == canonR b

theorem memR_cons (x : Nat × Nat) (r : Ranges) (n : Nat) :
    memR (x :: r) n = ((decide (x.1 ≤ n) && decide (n < x.2)) || memR r n) := rfl

theorem memR_insertR (x : Nat × Nat) (n : Nat) : (l : Ranges) → memR (insertR x l) n = memR (x :: l) n
  | [] => rfl
  | y :: r => by
    by_cases h : x.1 ≤ y.1
    · have e : insertR x (y :: r) = x :: y :: r := by simp only [insertR, if_pos h]
      rw [e]
    · have e : insertR x (y :: r) = y :: insertR x r := by simp only [insertR, if_neg h]
      rw [e, memR_cons, memR_insertR x n r, memR_cons, memR_cons, memR_cons]
      cases (decide (y.1 ≤ n) && decide (n < y.2)) <;> cases (decide (x.1 ≤ n) && decide (n < x.2)) <;> simp

theorem memR_sortR (n : Nat) : (l : Ranges) → memR (sortR l) n = memR l n
  | [] => rfl
  | x :: r => by
    show memR (insertR x (sortR r)) n = _
    rw [memR_insertR, memR_cons, memR_cons, memR_sortR n r]

theorem memR_consR (x : Nat × Nat) (n : Nat) : (l : Ranges) → memR (consR x l) n = memR (x :: l) n
  | [] => rfl
  | y :: r => by
    by_cases h : x.1 ≤ y.1 ∧ y.1 ≤ x.2
    · have e : consR x (y :: r) = (x.1, max x.2 y.2) :: r := by simp only [consR, if_pos h]
      rw [e, memR_cons, memR_cons, memR_cons, ← Bool.or_assoc]
      congr 1
      rw [Bool.eq_iff_iff]
      simp only [Bool.and_eq_true, decide_eq_true_eq, Bool.or_eq_true]
      omega
    · have e : consR x (y :: r) = x :: y :: r := by simp only [consR, if_neg h]
      rw [e]

theorem memR_mergeR (n : Nat) : (l : Ranges) → memR (mergeR l) n = memR l n
  | [] => rfl
  | x :: r => by
    show memR (consR x (mergeR r)) n = _
    rw [memR_consR, memR_cons, memR_cons, memR_mergeR n r]

theorem memR_canonR (l : Ranges) (n : Nat) : memR (canonR l) n = memR l n := by
  unfold canonR; rw [memR_mergeR, memR_sortR]

/-- equal canonical forms: the code's table and the production classify every character alike -/
theorem rangesAgree_sound (a b : Ranges) (h : rangesAgree a b = true) (c : Char) : Lex.inRanges a c = XSD.inSet b c := by
  have e : canonR a = canonR b := by simpa [rangesAgree] using h
  rw [inRanges_eq_memR, inSet_eq_memR, ← memR_canonR a, e, memR_canonR]

example : canonR [(5, 7), (1, 3), (3, 4), (6, 9), (20, 21)] = [(1, 4), (5, 9), (20, 21)] := by decide

end EPV.LexLemmas

/-
C15 — the comparator of the array:sort fragment (`lexLe`: numbers by value, strings by code points,
sequences lexicographically, a proper prefix first) is a total preorder, hence the stable sort
returns a sorted, stable permutation.
-/
import EPV.Model.MapArray
namespace EPV.MapArray

theorem lexLtNat_irrefl (a : List Nat) : lexLtNat a a = false := by
  induction a with
  | nil => rfl
  | cons x xs ih => simp [lexLtNat, ih]

theorem lexLtNat_trans {a b c : List Nat} (h1 : lexLtNat a b = true) (h2 : lexLtNat b c = true) :
    lexLtNat a c = true := by
  induction a generalizing b c with
  | nil => cases b <;> cases c <;> simp_all [lexLtNat]
  | cons x xs ih =>
    cases b with
    | nil => simp [lexLtNat] at h1
    | cons y ys =>
      cases c with
      | nil => simp [lexLtNat] at h2
      | cons z zs =>
        simp only [lexLtNat] at h1 h2 ⊢
        by_cases hxy : x < y
        · by_cases hyz : y < z
          · have : x < z := by omega
            simp [this]
          · by_cases hzy : z < y
            · simp [hyz, hzy] at h2
            · have : y = z := by omega
              subst this; simp [hxy]
        · by_cases hyx : y < x
          · simp [hxy, hyx] at h1
          · have : x = y := by omega
            subst this
            simp only [Nat.lt_irrefl, ↓reduceIte] at h1
            by_cases hxz : x < z
            · simp [hxz]
            · by_cases hzx : z < x
              · simp [hxz, hzx] at h2
              · simp only [hxz, hzx, ↓reduceIte] at h2 ⊢
                exact ih h1 h2

theorem lexLtNat_total (a b : List Nat) : lexLtNat a b = true ∨ lexLtNat b a = true ∨ a = b := by
  induction a generalizing b with
  | nil => cases b <;> simp [lexLtNat]
  | cons x xs ih =>
    cases b with
    | nil => simp [lexLtNat]
    | cons y ys =>
      simp only [lexLtNat]
      by_cases hxy : x < y
      · simp [hxy]
      · by_cases hyx : y < x
        · simp [hxy, hyx]
        · have : x = y := by omega
          subst this
          simp only [Nat.lt_irrefl, ↓reduceIte, List.cons.injEq, true_and]
          exact ih ys

theorem SKey.lt_irrefl (a : SKey) : a.lt a = false := by
  cases a with
  | num v => simp [SKey.lt, Rat.lt_irrefl]
  | str s => simp [SKey.lt, lexLtNat_irrefl]

theorem SKey.lt_trans {a b c : SKey} (h1 : a.lt b = true) (h2 : b.lt c = true) : a.lt c = true := by
  cases a <;> cases b <;> cases c <;> simp_all [SKey.lt]
  · rename_i x y z
    have hxy := Rat.lt_iff_le_and_ne.1 h1
    have hyz := Rat.lt_iff_le_and_ne.1 h2
    refine Rat.lt_iff_le_and_ne.2 ⟨Rat.le_trans hxy.1 hyz.1, fun he => ?_⟩
    subst he
    exact hxy.2 (Rat.le_antisymm hxy.1 hyz.1)
  · exact lexLtNat_trans h1 h2

theorem SKey.lt_total (a b : SKey) : a.lt b = true ∨ b.lt a = true ∨ a = b := by
  cases a <;> cases b <;> simp [SKey.lt]
  · rename_i x y
    rcases Rat.le_total (a := x) (b := y) with h | h
    · by_cases he : x = y
      · right; right; exact he
      · left; exact Rat.lt_iff_le_and_ne.2 ⟨h, he⟩
    · by_cases he : y = x
      · right; right; exact he.symm
      · right; left; exact Rat.lt_iff_le_and_ne.2 ⟨h, he⟩
  · exact lexLtNat_total _ _


theorem SKey.lt_asymm {a b : SKey} (h : a.lt b = true) : b.lt a = false := by
  cases hb : b.lt a with
  | false => rfl
  | true => have := SKey.lt_trans h hb; rw [SKey.lt_irrefl] at this; cases this

theorem lexLe_total (a b : List SKey) : (lexLe a b || lexLe b a) = true := by
  induction a generalizing b with
  | nil => simp [lexLe]
  | cons x xs ih =>
    cases b with
    | nil => simp [lexLe]
    | cons y ys =>
      simp only [lexLe]
      rcases SKey.lt_total x y with h | h | h
      · simp [h]
      · simp [h, SKey.lt_asymm h]
      · subst h; simp only [SKey.lt_irrefl, Bool.false_eq_true, ↓reduceIte]; exact ih ys

theorem lexLe_trans {a b c : List SKey} (h1 : lexLe a b = true) (h2 : lexLe b c = true) : lexLe a c = true := by
  induction a generalizing b c with
  | nil => simp [lexLe]
  | cons x xs ih =>
    cases b with
    | nil => simp [lexLe] at h1
    | cons y ys =>
      cases c with
      | nil => simp [lexLe] at h2
      | cons z zs =>
        simp only [lexLe] at h1 h2 ⊢
        rcases SKey.lt_total x y with hxy | hyx | hxy
        · rcases SKey.lt_total y z with hyz | hzy | hyz
          · simp [SKey.lt_trans hxy hyz]
          · simp [hzy, SKey.lt_asymm hzy] at h2
          · subst hyz; simp [hxy]
        · simp [hyx, SKey.lt_asymm hyx] at h1
        · subst hxy
          simp only [SKey.lt_irrefl, Bool.false_eq_true, ↓reduceIte] at h1
          rcases SKey.lt_total x z with hxz | hzx | hxz
          · simp [hxz]
          · simp [hzx, SKey.lt_asymm hzx] at h2
          · subst hxz
            simp only [SKey.lt_irrefl, Bool.false_eq_true, ↓reduceIte] at h2 ⊢
            exact ih h1 h2


/-- what `arrSortKeyed` returns: the members of a stable merge sort by the keys -/
theorem arrSortKeyed_spec {α : Type} (ms : List (α × List SKey)) (r : List α) (h : arrSortKeyed ms = .ok r) :
    ∃ sorted : List (α × List SKey), r = sorted.map (·.1) ∧ sorted.Perm ms ∧
      sorted.Pairwise (fun a b => lexLe a.2 b.2 = true) ∧
      (∀ a b, lexLe a.2 b.2 = true → [a, b].Sublist ms → [a, b].Sublist sorted) := by
  simp only [arrSortKeyed] at h
  split at h
  · injection h with h
    refine ⟨ms.mergeSort fun a b => lexLe a.2 b.2, h.symm, List.mergeSort_perm _ _, ?_, ?_⟩
    · exact List.pairwise_mergeSort (le := fun a b : α × List SKey => lexLe a.2 b.2)
        (fun a b c => lexLe_trans) (fun a b => lexLe_total a.2 b.2) ms
    · intro a b hab hsub
      exact List.pair_sublist_mergeSort (le := fun a b : α × List SKey => lexLe a.2 b.2)
        (fun a b c => lexLe_trans) (fun a b => lexLe_total a.2 b.2) hab hsub
  · cases h

end EPV.MapArray

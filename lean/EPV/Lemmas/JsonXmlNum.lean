/-
C17 helper lemmas: the number branch of xml-to-json (`numberOfText`: read the text, `float()`, `str()`,
strip `.0`) gives back the text json-to-xml wrote, for integers below 10^16 and for doubles whose
`repr` is not of the form `ddd.0`.
-/
import EPV.Lemmas.JsonDouble
namespace EPV.Json

theorem mem_digitChars_le (l : List Nat) (hd : ∀ x ∈ l, x < 10) : ∀ y ∈ digitChars l, 48 ≤ y ∧ y ≤ 57 := by
  intro y hy
  simp [digitChars] at hy
  obtain ⟨a, ha, rfl⟩ := hy
  have := hd a ha
  omega

/-- `t.rstrip('0').rstrip('.')` leaves a text ending in a non-zero digit alone -/
theorem rstrip_noop (x : Str) (c : Nat) (h1 : c ≠ 48) (h2 : c ≠ 46) : rstripZerosDot (x ++ [c]) = x ++ [c] := by
  unfold rstripZerosDot
  have hb1 : (c == 48) = false := by simp [h1]
  have hb2 : (c == 46) = false := by simp [h2]
  simp [List.reverse_append, List.dropWhile, hb1, hb2]

/-- `"ddd.0".rstrip('0').rstrip('.') == "ddd"` when `ddd` ends in a digit -/
theorem rstrip_dot_zero (x : Str) (c : Nat) (h2 : c ≠ 46) :
    rstripZerosDot (x ++ [c] ++ [46, 48]) = x ++ [c] := by
  unfold rstripZerosDot
  have hb2 : (c == 46) = false := by simp [h2]
  simp [List.reverse_append, List.dropWhile, hb2]

theorem exists_last (l : List Nat) (hne : l ≠ []) : ∃ init z, l = init ++ [z] ∧ l.getLast? = some z := by
  refine ⟨l.dropLast, l.getLast hne, (List.dropLast_concat_getLast hne).symm, ?_⟩
  exact List.getLast?_eq_some_getLast hne

/-! ### doubles -/

/-- a double whose `repr` has a fractional part or an exponent (not `ddd.0`) -/
def stableDbl (d : Dec) : Bool :=
  wfDec d && (decide (d.decpt ≤ -4) || decide (d.decpt > 16) || decide (d.decpt < (d.digits.length : Int)))

theorem mem_reprExpForm_e (ds : List Nat) (pt : Int) : 101 ∈ reprExpForm ds pt := by
  simp [reprExpForm]

theorem not_e_fixed (ds : List Nat) (hd : ∀ x ∈ ds, x < 10) (pt : Int) : 101 ∉ reprFixedForm ds pt := by
  intro h
  have hdc := mem_digitChars_le
  unfold reprFixedForm at h
  split at h
  · simp only [List.mem_append, List.mem_cons, List.mem_nil_iff, or_false, List.mem_replicate] at h
    rcases h with ((h | h) | h) | h
    · omega
    · omega
    · omega
    · have := hdc ds hd 101 h; omega
  · split at h
    · simp only [List.mem_append, List.mem_cons, List.mem_nil_iff, or_false] at h
      rcases h with (h | h) | h
      · have := hdc _ (fun x hx => hd x (List.mem_of_mem_take hx)) 101 h; omega
      · omega
      · have := hdc _ (fun x hx => hd x (List.mem_of_mem_drop hx)) 101 h; omega
    · simp only [List.mem_append, List.mem_cons, List.mem_nil_iff, or_false, List.mem_replicate] at h
      rcases h with (h | h) | h | h
      · have := hdc ds hd 101 h; omega
      · omega
      · omega
      · omega

theorem sign_append_noE (neg : Bool) (b : Str) (h : 101 ∉ b) : 101 ∉ (if neg then [45] else []) ++ b := by
  cases neg <;> simp [h]

/-- text ending in the character of a non-zero last digit -/
theorem digitChars_last (l : List Nat) (hne : l ≠ []) (hd : ∀ x ∈ l, x < 10) (hl : l.getLast? ≠ some 0) :
    ∃ x c, digitChars l = x ++ [c] ∧ c ≠ 48 ∧ c ≠ 46 := by
  obtain ⟨init, z, hz, hlast⟩ := exists_last l hne
  have hz0 : z ≠ 0 := by
    intro h0; apply hl; rw [hlast, h0]
  have hz10 : z < 10 := hd z (by rw [hz]; simp)
  exact ⟨digitChars init, 48 + z, by rw [hz]; simp [digitChars], by omega, by omega⟩

theorem reprStripped_stable (d : Dec) (h : stableDbl d = true) : reprStripped d = reprDouble d := by
  simp only [stableDbl, Bool.and_eq_true, Bool.or_eq_true, decide_eq_true_eq] at h
  obtain ⟨hwf, hst⟩ := h
  obtain ⟨neg, ds, pt⟩ := d
  simp only [wfDec, Bool.and_eq_true, Bool.not_eq_true', List.isEmpty_eq_false_iff, List.all_eq_true,
    decide_eq_true_eq, Bool.or_eq_true, beq_iff_eq, bne_iff_ne, ne_eq] at hwf
  obtain ⟨⟨hne, hd⟩, hz⟩ := hwf
  simp only [reprStripped]
  by_cases hform : pt ≤ -4 ∨ pt > 16
  · have hb : reprBody ⟨neg, ds, pt⟩ = reprExpForm ds pt := by simp [reprBody, hform]
    have : 101 ∈ reprDouble ⟨neg, ds, pt⟩ := by
      unfold reprDouble; rw [hb]
      exact List.mem_append_right _ (mem_reprExpForm_e ds pt)
    simp [this]
  · have hb : reprBody ⟨neg, ds, pt⟩ = reprFixedForm ds pt := by simp [reprBody, hform]
    have hk : pt < (ds.length : Int) := by
      rcases hst with (h | h) | h
      · exact absurd (Or.inl h) hform
      · exact absurd (Or.inr h) hform
      · exact h
    have hnz : ds.head? ≠ some 0 ∧ ds.getLast? ≠ some 0 := by
      rcases hz with ⟨h1, h2⟩ | h
      · subst h1; subst h2; simp at hk
      · exact h
    have hnoE : 101 ∉ reprDouble ⟨neg, ds, pt⟩ := by
      unfold reprDouble; rw [hb]
      exact sign_append_noE neg _ (not_e_fixed ds hd pt)
    simp only [hnoE, if_false]
    -- the text ends with the character of the last (non-zero) digit
    have hend : ∃ x c, reprDouble ⟨neg, ds, pt⟩ = x ++ [c] ∧ c ≠ 48 ∧ c ≠ 46 := by
      unfold reprDouble; rw [hb]
      unfold reprFixedForm
      by_cases hp0 : pt ≤ 0
      · obtain ⟨x, c, hx, hc⟩ := digitChars_last ds hne hd hnz.2
        exact ⟨(if neg then [45] else []) ++ ([48, 46] ++ List.replicate (-pt).toNat 48 ++ x), c,
          by simp [hp0, hx], hc⟩
      · have hdr : ds.drop pt.toNat ≠ [] := by
          intro h
          have := congrArg List.length h
          rw [List.length_drop, List.length_nil] at this
          omega
        have hl2 : (ds.drop pt.toNat).getLast? ≠ some 0 := by
          rw [List.getLast?_drop]
          have : ¬ ds.length ≤ pt.toNat := by omega
          simp only [this, if_false]
          exact hnz.2
        obtain ⟨x, c, hx, hc⟩ := digitChars_last (ds.drop pt.toNat) hdr
          (fun x hx => hd x (List.mem_of_mem_drop hx)) hl2
        exact ⟨(if neg then [45] else []) ++ (digitChars (ds.take pt.toNat) ++ [46] ++ x), c,
          by simp [hp0, hk, hx], hc⟩
    obtain ⟨x, c, hx, hc1, hc2⟩ := hend
    rw [hx, rstrip_noop x c hc1 hc2]

/-! ### integers -/

theorem natDigitsF_length : ∀ f n k, n < f → n < 10 ^ (k + 1) → (natDigitsF f n).length ≤ k + 1 := by
  intro f
  induction f with
  | zero => intro n k h; omega
  | succ f ih =>
    intro n k h hk
    unfold natDigitsF
    by_cases h10 : n < 10
    · simp [h10]
    · simp only [h10, if_false, List.length_append, List.length_cons, List.length_nil]
      cases k with
      | zero => simp at hk; omega
      | succ k =>
        have : n / 10 < 10 ^ (k + 1) := by
          rw [Nat.div_lt_iff_lt_mul (by decide)]
          rw [Nat.pow_succ] at hk
          exact hk
        have := ih (n / 10) k (by omega) this
        omega

/-- every list is a list without trailing zero followed by zeros -/
theorem exists_core (l : List Nat) : ∃ core z, l = core ++ List.replicate z 0 ∧ core.getLast? ≠ some 0 := by
  induction l with
  | nil => exact ⟨[], 0, rfl, by simp⟩
  | cons a t ih =>
    obtain ⟨core, z, ht, hc⟩ := ih
    cases core with
    | nil =>
      by_cases ha : a = 0
      · exact ⟨[], z + 1, by rw [ht, ha]; simp [List.replicate_succ], by simp⟩
      · exact ⟨[a], z, by rw [ht]; simp, by simpa using ha⟩
    | cons b r =>
      exact ⟨a :: b :: r, z, by rw [ht]; simp, by simpa [List.getLast?_cons_cons] using hc⟩

/-- a decimal in normal form whose `repr` is `ddd000.0`: `k ≤ decpt ≤ 16` -/
theorem reprStripped_integral (neg : Bool) (ds : List Nat) (pt : Int) (hne : ds ≠ []) (hd : ∀ x ∈ ds, x < 10)
    (hk : (ds.length : Int) ≤ pt) (h16 : pt ≤ 16) :
    reprStripped ⟨neg, ds, pt⟩ =
      (if neg then [45] else []) ++ digitChars (ds ++ List.replicate (pt - (ds.length : Int)).toNat 0) := by
  have hpos : 0 < ds.length := List.length_pos_iff.mpr hne
  have hLd : ∀ x ∈ ds ++ List.replicate (pt - (ds.length : Int)).toNat 0, x < 10 :=
    mem_append_lt10 hd (replicate_lt10 _)
  have hLne : ds ++ List.replicate (pt - (ds.length : Int)).toNat 0 ≠ [] := by simp [hne]
  have hbody : reprBody ⟨neg, ds, pt⟩ =
      digitChars (ds ++ List.replicate (pt - (ds.length : Int)).toNat 0) ++ [46, 48] := by
    have h1 : ¬ (pt ≤ -4 ∨ pt > 16) := by omega
    have h2 : ¬ pt ≤ 0 := by omega
    have h3 : ¬ pt < (ds.length : Int) := by omega
    simp only [reprBody, h1, if_false, reprFixedForm, h2, h3]
    rw [digitChars_append, digitChars_replicate]
  have hnoE : 101 ∉ reprDouble ⟨neg, ds, pt⟩ := by
    unfold reprDouble
    rw [hbody]
    apply sign_append_noE
    intro hm
    simp only [List.mem_append, List.mem_cons, List.mem_nil_iff, or_false] at hm
    rcases hm with hm | hm | hm
    · have := mem_digitChars_le _ hLd 101 hm; omega
    · omega
    · omega
  simp only [reprStripped, hnoE, if_false]
  obtain ⟨init, zd, hzd, _⟩ := exists_last _ hLne
  have hz10 : zd < 10 := hLd zd (by rw [hzd]; simp)
  have hdc : digitChars (ds ++ List.replicate (pt - (ds.length : Int)).toNat 0) = digitChars init ++ [48 + zd] := by
    rw [hzd]; simp [digitChars]
  unfold reprDouble
  rw [hbody, hdc]
  cases neg
  · simp only [Bool.false_eq_true, if_false, List.nil_append]
    exact rstrip_dot_zero (digitChars init) (48 + zd) (by omega)
  · simp only [if_true]
    have := rstrip_dot_zero (45 :: digitChars init) (48 + zd) (by omega)
    simpa using this

/-- the decimal normal form of an integer, explicitly -/
theorem denInt_form (n : Int) : ∃ ds : List Nat, ds ≠ [] ∧ (∀ x ∈ ds, x < 10) ∧
    denInt n = ⟨decide (n < 0), ds, if ds = [0] then 1 else ((natDigits n.natAbs).length : Int)⟩ ∧
    (ds = [0] → natDigits n.natAbs = [0]) ∧
    (ds ≠ [0] → ds ++ List.replicate ((natDigits n.natAbs).length - ds.length) 0 = natDigits n.natAbs ∧
      ds.length ≤ (natDigits n.natAbs).length ∧ ds.head? ≠ some 0 ∧ ds.getLast? ≠ some 0) := by
  have hd := natDigits_lt10 n.natAbs
  have hne := natDigits_ne_nil n.natAbs
  obtain ⟨core, z, hcz, hcl⟩ := exists_core (natDigits n.natAbs)
  have hlenz : (natDigits n.natAbs).length = core.length + z := by rw [hcz]; simp
  unfold denInt
  by_cases h0 : n.natAbs = 0
  · have hz : natDigits n.natAbs = [0] := by rw [h0]; rfl
    refine ⟨[0], by simp, by simp, ?_, fun _ => hz, fun h => absurd rfl h⟩
    rw [hz]; rfl
  · have hh : (natDigits n.natAbs).head? ≠ some 0 := fun hh =>
      h0 (natDigitsF_head _ _ (Nat.lt_succ_self _) hh)
    have hcne : core ≠ [] := by
      intro hc
      subst hc
      simp only [List.nil_append] at hcz
      cases z with
      | zero => rw [hcz] at hne; simp at hne
      | succ z => rw [hcz] at hh; simp [List.replicate_succ] at hh
    have hc0 : core ≠ [0] := by
      intro hc
      subst hc
      simp at hcl
    have hch : core.head? ≠ some 0 := by
      intro hc
      apply hh
      rw [hcz]
      cases core with
      | nil => exact absurd rfl hcne
      | cons a r => simpa using hc
    refine ⟨core, hcne, fun x hx => hd x (by rw [hcz]; simp [hx]), ?_, fun h => absurd h hc0, fun _ => ?_⟩
    · unfold normDec
      rw [stripLeading_noop _ _ hh]
      have : stripTrailingZeros (natDigits n.natAbs) = core := by
        rw [hcz, stripTrailing_replicate, stripTrailing_noop core hcl]
      simp only [this, hcne, if_false, hc0]
    · rw [hlenz]
      refine ⟨?_, by omega, hch, hcl⟩
      rw [show core.length + z - core.length = z by omega]
      exact hcz.symm

/-- the normal form of an integer is a normal form -/
theorem wfDec_denInt (n : Int) : wfDec (denInt n) = true := by
  obtain ⟨ds, hne, hd, hform, _, hnz⟩ := denInt_form n
  rw [hform]
  by_cases hz : ds = [0]
  · subst hz; rfl
  · obtain ⟨_, _, hh, hl⟩ := hnz hz
    simp only [wfDec, Bool.and_eq_true, Bool.not_eq_true', List.isEmpty_eq_false_iff, List.all_eq_true,
      decide_eq_true_eq, Bool.or_eq_true, beq_iff_eq, bne_iff_ne, ne_eq]
    exact ⟨⟨hne, hd⟩, Or.inr ⟨hh, hl⟩⟩

end EPV.Json

/-
C04 helper (completeness, model level): if every step of a left spine is admissible — binding power
above `rbp`, guards pass, the operand parses — then `loop` / `expr` rebuild exactly that spine.
No grammar here; the grammar-level conditions are discharged in PrattComplete.lean.
-/
import EPV.Lemmas.PrattInv
namespace EPV.Pratt
open EPV.Syn

/-- one `led` application seen from the left operand -/
inductive Frame where
  | bin (o : Nat) (r : Tree)
  | typed (o n : Nat)
  | post (o c : Nat) (e : Tree)
  | arrow (o : Nat) (s a : Tree)

def Frame.apply : Frame → Tree → Tree
  | .bin o r, l => .bin o l r
  | .typed o n, l => .typed o l n
  | .post o c e, l => .post o c l e
  | .arrow o s a, l => .arrow o l s a

def Frame.toks : Frame → List Tok
  | .bin o r => .op o :: r.yield
  | .typed o n => [.op o, .ty n]
  | .post o c e => .op o :: (e.yield ++ [.close c])
  | .arrow o s a => .op o :: (s.yield ++ a.yield)

def plug (l : Tree) : List Frame → Tree
  | [] => l
  | fr :: frs => plug (fr.apply l) frs

def ctxToks : List Frame → List Tok
  | [] => []
  | fr :: frs => fr.toks ++ ctxToks frs

/-- fuel measure: number of `expr`/`loop` activations a tree costs -/
def need : Tree → Nat
  | .nil => 0
  | .atom _ _ => 1
  | .group _ _ e => 1 + need e
  | .pre _ x => 1 + need x
  | .bin _ l r => 1 + need l + need r
  | .typed _ l _ => 1 + need l
  | .post _ _ l e => 1 + need l + need e
  | .arrow _ l f a => 1 + need l + need f + need a

def Frame.need : Frame → Nat
  | .bin _ r => 1 + EPV.Pratt.need r
  | .typed _ _ => 1
  | .post _ _ e => 1 + EPV.Pratt.need e
  | .arrow _ s a => 1 + EPV.Pratt.need s + EPV.Pratt.need a

def needs : List Frame → Nat
  | [] => 0
  | fr :: frs => fr.need + needs frs

theorem yield_plug (l : Tree) (frs : List Frame) : (plug l frs).yield = l.yield ++ ctxToks frs := by
  induction frs generalizing l with
  | nil => simp [plug, ctxToks]
  | cons fr frs ih =>
    simp only [plug, ctxToks, ih]
    cases fr <;> simp [Frame.apply, Frame.toks, Tree.yield]

theorem need_plug (l : Tree) (frs : List Frame) : need (plug l frs) = need l + needs frs := by
  induction frs generalizing l with
  | nil => simp [plug, needs]
  | cons fr frs ih =>
    simp only [plug, needs, ih]
    cases fr <;> simp [Frame.apply, Frame.need, need] <;> omega

/-- with enough fuel `expression(r)` on `x`'s tokens followed by `after` returns `x` and leaves `after` -/
def ParsesAt (T : Tbl) (r : Nat) (x : Tree) (after : List Tok) : Prop :=
  ∀ f, 2 * need x ≤ f → expr T f r (x.yield ++ after) = .ok (x, after)

/-- the token list does not start with a closing symbol and is not empty -/
def startsOpen : List Tok → Prop
  | [] => False
  | .close _ :: _ => False
  | _ => True

/-- bracket content: empty where allowed, or a parsable expression -/
def BodyOK (T : Tbl) (eo : Bool) (e : Tree) (c : Nat) (after : List Tok) : Prop :=
  (e = .nil ∧ eo = true) ∨ (startsOpen e.yield ∧ ParsesAt T 0 e (.close c :: after))

def StepOK (T : Tbl) (rbp : Nat) (left : Tree) (fr : Frame) (after : List Tok) : Prop :=
  match fr with
  | .bin o x => ∃ r deny rhs, T.led o = .infix r deny rhs ∧ rbp < T.lbp o ∧ deny.contains left.head = false ∧
      rhsOk rhs (x.yield ++ after) = true ∧ ParsesAt T r x after
  | .typed o _ => ∃ deny, T.led o = .typed deny ∧ rbp < T.lbp o ∧ deny.contains left.head = false
  | .post o c e => ∃ eo deny, T.led o = .bracket c eo deny ∧ rbp < T.lbp o ∧ deny.contains left.head = false ∧
      BodyOK T eo e c after
  | .arrow o s a => ∃ sr ar start g, T.led o = .arrow sr ar start g ∧ rbp < T.lbp o ∧
      rhsOk start (s.yield ++ (a.yield ++ after)) = true ∧ ParsesAt T sr s (a.yield ++ after) ∧ ParsesAt T ar a after ∧
      a.head = 2 * g + 1

def FramesOK (T : Tbl) (rbp : Nat) : Tree → List Frame → List Tok → Prop
  | _, [], rest => headLe T (some rbp) rest
  | left, fr :: frs, rest => StepOK T rbp left fr (ctxToks frs ++ rest) ∧ FramesOK T rbp (fr.apply left) frs rest

theorem loop_stop (T : Tbl) (f rbp : Nat) (left : Tree) (rest : List Tok) (h : headLe T (some rbp) rest) :
    loop T (f + 1) rbp left rest = .ok (left, rest) := by
  cases rest with
  | nil => simp [loop]
  | cons t tl =>
    cases t with
    | op o =>
      simp only [headLe, leO] at h
      simp only [loop]
      rw [if_neg (by omega)]
    | atom => simp [loop]
    | ty => simp [loop]
    | close => simp [loop]

theorem loop_complete (T : Tbl) (rbp : Nat) : ∀ (frs : List Frame) (left : Tree) (rest : List Tok),
    FramesOK T rbp left frs rest → ∀ f, 2 * needs frs + 1 ≤ f →
    loop T f rbp left (ctxToks frs ++ rest) = .ok (plug left frs, rest) := by
  intro frs
  induction frs with
  | nil =>
    intro left rest h f hf
    obtain ⟨f', rfl⟩ : ∃ f', f = f' + 1 := ⟨f - 1, by omega⟩
    simpa [ctxToks, plug] using loop_stop T f' rbp left rest h
  | cons fr frs ih =>
    intro left rest h f hf
    obtain ⟨hstep, hrest⟩ := h
    obtain ⟨f', rfl⟩ : ∃ f', f = f' + 1 := ⟨f - 1, by omega⟩
    have hf' : 2 * needs frs + 1 ≤ f' := by simp only [needs] at hf; cases fr <;> simp [Frame.need] at hf <;> omega
    have ih' := ih (fr.apply left) rest hrest f' hf'
    cases fr with
    | bin o x =>
      obtain ⟨r, deny, rhs, hled, hlt, hdeny, hrhs, hx⟩ := hstep
      have hx' := hx f' (by simp only [needs, Frame.need] at hf; omega)
      simp only [ctxToks, Frame.toks, List.cons_append, loop, if_pos hlt, hled, hdeny, List.append_assoc]
      simp [hrhs, hx']
      exact ih'
    | typed o n =>
      obtain ⟨deny, hled, hlt, hdeny⟩ := hstep
      simp only [ctxToks, Frame.toks, List.cons_append, List.nil_append, loop, if_pos hlt, hled, hdeny]
      exact ih'
    | post o c e =>
      obtain ⟨eo, deny, hled, hlt, hdeny, hbody⟩ := hstep
      rcases hbody with ⟨rfl, heo⟩ | ⟨hopen, he⟩
      · simp only [ctxToks, Frame.toks, Tree.yield, List.nil_append, List.cons_append, loop, if_pos hlt, hled, hdeny, heo]
        simp only [Bool.false_eq_true, if_false, Bool.true_and, beq_self_eq_true, if_true]
        exact ih'
      · have he' := he f' (by simp only [needs, Frame.need] at hf; omega)
        simp only [ctxToks, Frame.toks, List.cons_append, List.append_assoc, loop, if_pos hlt, hled, hdeny]
        simp only [List.nil_append] at he' ⊢
        -- the content does not start with a closer, so the "empty" branch is not taken
        simp only [Bool.false_eq_true, if_false]
        cases hy : e.yield with
        | nil => simp [hy, startsOpen] at hopen
        | cons t tl =>
          rw [hy] at he' hopen
          cases t with
          | close => simp [startsOpen] at hopen
          | atom k n => simp only [List.cons_append] at he' ⊢; simp [he']; exact ih'
          | ty n => simp only [List.cons_append] at he' ⊢; simp [he']; exact ih'
          | op o' => simp only [List.cons_append] at he' ⊢; simp [he']; exact ih'
    | arrow o s a =>
      obtain ⟨sr, ar, start, g, hled, hlt, hstart, hs, ha, hhead⟩ := hstep
      have hs' := hs f' (by simp only [needs, Frame.need] at hf; omega)
      have ha' := ha f' (by simp only [needs, Frame.need] at hf; omega)
      simp only [ctxToks, Frame.toks, List.cons_append, loop, if_pos hlt, hled, List.append_assoc]
      simp [hstart, hs', ha', hhead]
      exact ih'

/-- what the `nud` of the leftmost unit needs -/
def HeadOK (T : Tbl) (h : Tree) (after : List Tok) : Prop :=
  match h with
  | .atom _ _ => True
  | .pre p x => ∃ r rhs, T.nud p = .prefix r rhs ∧ rhsOk rhs (x.yield ++ after) = true ∧ ParsesAt T r x after
  | .group g c e => ∃ eo, T.nud g = .group c eo ∧ BodyOK T eo e c after
  | _ => False

theorem expr_complete (T : Tbl) (rbp : Nat) (h : Tree) (frs : List Frame) (rest : List Tok)
    (hh : HeadOK T h (ctxToks frs ++ rest)) (hf : FramesOK T rbp h frs rest) :
    ∀ f, 2 * (need h + needs frs) ≤ f →
      expr T f rbp (h.yield ++ (ctxToks frs ++ rest)) = .ok (plug h frs, rest) := by
  intro f hfuel
  cases h with
  | nil => simp [HeadOK] at hh
  | bin => simp [HeadOK] at hh
  | typed => simp [HeadOK] at hh
  | post => simp [HeadOK] at hh
  | arrow => simp [HeadOK] at hh
  | atom k n =>
    obtain ⟨f', rfl⟩ : ∃ f', f = f' + 1 := ⟨f - 1, by simp [need] at hfuel; omega⟩
    simp only [Tree.yield, List.cons_append, List.nil_append, expr]
    exact loop_complete T rbp frs _ rest hf f' (by simp [need] at hfuel; omega)
  | pre p x =>
    obtain ⟨r, rhs, hnud, hrhs, hx⟩ := hh
    obtain ⟨f', rfl⟩ : ∃ f', f = f' + 1 := ⟨f - 1, by simp [need] at hfuel; omega⟩
    have hx' := hx f' (by simp [need] at hfuel; omega)
    simp only [Tree.yield, List.cons_append, expr, hnud, hrhs, hx', Bool.not_true, Bool.false_eq_true, if_false]
    exact loop_complete T rbp frs _ rest hf f' (by simp [need] at hfuel; omega)
  | group g c e =>
    obtain ⟨eo, hnud, hbody⟩ := hh
    obtain ⟨f', rfl⟩ : ∃ f', f = f' + 1 := ⟨f - 1, by simp [need] at hfuel; omega⟩
    have hl := loop_complete T rbp frs (.group g c e) rest hf f' (by simp [need] at hfuel; omega)
    rcases hbody with ⟨rfl, heo⟩ | ⟨hopen, he⟩
    · simp only [Tree.yield, List.nil_append, List.cons_append, expr, hnud, heo]
      simpa using hl
    · have he' := he f' (by simp [need] at hfuel; omega)
      simp only [Tree.yield, List.cons_append, List.append_assoc, expr, hnud]
      simp only [List.nil_append] at he' ⊢
      cases hy : e.yield with
      | nil => simp [hy, startsOpen] at hopen
      | cons t tl =>
        rw [hy] at he' hopen
        cases t with
        | close => simp [startsOpen] at hopen
        | atom k n => simp only [List.cons_append] at he' ⊢; simp [he']; exact hl
        | ty n => simp only [List.cons_append] at he' ⊢; simp [he']; exact hl
        | op o' => simp only [List.cons_append] at he' ⊢; simp [he']; exact hl

end EPV.Pratt

/-
C02: the explicit-stack loop (EPV/Model/BuilderLoop.lean) constructs exactly the nodes of the
recursive builder (EPV/Model/Builder.lean), with the same positions and parents, in the same order.
-/
import EPV.Model.BuilderLoop
import EPV.Lemmas.Builder
namespace EPV.Builder

/-! ### what the loop is expected to construct (pure recursion) -/

def tailEvs (a p : Nat) (o : Option String) : List Ev × Nat :=
  match o with
  | some s => ([textEv a p s], p + 1)
  | none => ([], p)

mutual
/-- nodes constructed for `t` (its tail excluded) as a child of `a`, from position `p`; next position -/
def evsOne (c : Cfg) (a p : Nat) : XTree → List Ev × Nat
  | .elem name nsmap attrib text kids tail =>
      let ac := afterCreate c p (.elem name nsmap attrib text kids tail)
      let ks := evsKids c p ac.2 kids
      (evOf a p (.elem name nsmap attrib text kids tail) :: ac.1 ++ ks.1, ks.2)
  | .comment s tail => ([evOf a p (.comment s tail)], p + 1)
  | .pi t s tail => ([evOf a p (.pi t s tail)], p + 1)
def evsKids (c : Cfg) (a p : Nat) : List XTree → List Ev × Nat
  | [] => ([], p)
  | t :: ts =>
      let n := evsOne c a p t
      let tl := tailEvs a n.2 t.tail
      let rest := evsKids c a tl.2 ts
      (n.1 ++ tl.1 ++ rest.1, rest.2)
end

mutual
def stepsOne : XTree → Nat
  | .elem _ _ _ _ kids _ => if kids.isEmpty then 1 else 1 + stepsKids kids + 1
  | .comment .. => 1
  | .pi .. => 1
def stepsKids : List XTree → Nat
  | [] => 0
  | t :: ts => stepsOne t + stepsKids ts
end

theorem afterCreate_lt (c : Cfg) (p : Nat) (t : XTree) : p < (afterCreate c p t).2 := by
  cases t with
  | elem name nsmap attrib text kids tail =>
    have : 1 ≤ nsOffset (c.nsmapOf nsmap) := by unfold nsOffset; omega
    cases text <;> simp [afterCreate] <;> omega
  | comment s tl => simp [afterCreate]
  | pi t s tl => simp [afterCreate]

theorem afterCreate_parent (c : Cfg) (p : Nat) (t : XTree) :
    ∀ ev ∈ (afterCreate c p t).1, ev.node.parent = some p := by
  cases t with
  | elem name nsmap attrib text kids tail => cases text <;> simp [afterCreate, textEv]
  | comment s tl => simp [afterCreate]
  | pi t s tl => simp [afterCreate]

theorem evOf_parent (a p : Nat) (t : XTree) : (evOf a p t).node.parent = some a := by
  cases t <;> rfl

theorem evOf_srcTail (a p : Nat) (t : XTree) : (evOf a p t).srcTail = t.tail := by
  cases t <;> rfl

mutual
/-- positions only grow, and every node constructed below `a` from `p` on has parent `a` or a
parent created at `p` or later -/
theorem evsOne_facts (c : Cfg) : ∀ (t : XTree) (a p : Nat),
    p < (evsOne c a p t).2 ∧ ∀ ev ∈ (evsOne c a p t).1, ev.node.parent = some a ∨ ∃ q, ev.node.parent = some q ∧ p ≤ q
  | .elem name nsmap attrib text kids tail, a, p => by
    have hac := afterCreate_lt c p (.elem name nsmap attrib text kids tail)
    have hap := afterCreate_parent c p (.elem name nsmap attrib text kids tail)
    have ih := evsKids_facts c kids p (afterCreate c p (.elem name nsmap attrib text kids tail)).2
    simp only [evsOne]
    refine ⟨by omega, ?_⟩
    intro ev hev
    rcases List.mem_cons.1 hev with rfl | hev
    · exact Or.inl (evOf_parent _ _ _)
    · rcases List.mem_append.1 hev with hev | hev
      · exact Or.inr ⟨p, hap ev hev, Nat.le_refl _⟩
      · rcases ih.2 ev hev with h | ⟨q, hq, hle⟩
        · exact Or.inr ⟨p, h, Nat.le_refl _⟩
        · exact Or.inr ⟨q, hq, by omega⟩
  | .comment s tl, a, p => by simp [evsOne, evOf]
  | .pi t s tl, a, p => by simp [evsOne, evOf]
theorem evsKids_facts (c : Cfg) : ∀ (ts : List XTree) (a p : Nat),
    p ≤ (evsKids c a p ts).2 ∧ ∀ ev ∈ (evsKids c a p ts).1, ev.node.parent = some a ∨ ∃ q, ev.node.parent = some q ∧ p ≤ q
  | [], a, p => by simp [evsKids]
  | t :: ts, a, p => by
    have h1 := evsOne_facts c t a p
    have h2 : (evsOne c a p t).2 ≤ (tailEvs a (evsOne c a p t).2 t.tail).2 ∧
        ∀ ev ∈ (tailEvs a (evsOne c a p t).2 t.tail).1, ev.node.parent = some a := by
      cases t.tail <;> simp [tailEvs, textEv]
    have h3 := evsKids_facts c ts a (tailEvs a (evsOne c a p t).2 t.tail).2
    simp only [evsKids]
    refine ⟨by omega, ?_⟩
    intro ev hev
    rcases List.mem_append.1 hev with hev | hev
    · rcases List.mem_append.1 hev with hev | hev
      · exact h1.2 ev hev
      · exact Or.inl (h2.2 ev hev)
    · rcases h3.2 ev hev with h | ⟨q, hq, hle⟩
      · exact Or.inl h
      · exact Or.inr ⟨q, hq, by omega⟩
end

/-! ### `parent.children[-1]` -/

theorem lastChildOf_spec (a : Nat) (O : List Ev) (child : Ev) (R : List Ev)
    (hc : child.node.parent = some a) (hR : ∀ ev ∈ R, ev.node.parent ≠ some a) :
    lastChildOf a (O ++ child :: R) = some child := by
  unfold lastChildOf
  rw [List.reverse_append, List.reverse_cons, List.append_assoc, List.find?_append]
  have hnone : List.find? (fun ev => ev.node.parent == some a) R.reverse = none := by
    rw [List.find?_eq_none]
    intro ev hev
    have := hR ev (List.mem_reverse.1 hev)
    simpa using this
  rw [hnone]
  simp [hc]

/-! ### the loop follows the recursion -/

theorem run_succ (c : Cfg) (f : Nat) (s : Loop) :
    run c (f + 1) s = match step c s with
      | .next s' => run c f s'
      | .done out => some out
      | .crash => none := rfl

mutual
theorem run_one (c : Cfg) : ∀ (t : XTree) (rest : List XTree) (p a : Nat) (I : List (List XTree)) (A : List Nat)
    (O : List Ev) (f : Nat), a < p →
    run c (stepsOne t + f) ⟨p, t :: rest, a, I, A, O⟩ =
      run c f ⟨(tailEvs a (evsOne c a p t).2 t.tail).2, rest, a, I, A,
               O ++ (evsOne c a p t).1 ++ (tailEvs a (evsOne c a p t).2 t.tail).1⟩
  | .elem name nsmap attrib text kids tail, rest, p, a, I, A, O, f, hap => by
    cases hk : kids with
    | nil =>
      have hs : stepsOne (.elem name nsmap attrib text [] tail) + f = f + 1 := by simp [stepsOne]; omega
      rw [hs, run_succ]
      cases tail <;> simp [step, XTree.kids, XTree.tail, evsOne, evsKids, tailEvs, List.append_assoc]
    | cons k ks =>
      have hs : stepsOne (.elem name nsmap attrib text (k :: ks) tail) + f
          = (stepsKids (k :: ks) + (f + 1)) + 1 := by simp [stepsOne]; omega
      rw [hs, run_succ]
      have hlt := afterCreate_lt c p (.elem name nsmap attrib text (k :: ks) tail)
      have ih := run_kids c (k :: ks) (afterCreate c p (.elem name nsmap attrib text (k :: ks) tail)).2 p
        (rest :: I) (a :: A)
        (O ++ evOf a p (.elem name nsmap attrib text (k :: ks) tail) ::
          (afterCreate c p (.elem name nsmap attrib text (k :: ks) tail)).1) (f + 1) hlt
      simp only [step, XTree.kids, List.isEmpty_cons, Bool.not_false, if_true]
      rw [ih, run_succ]
      -- the pop step: the last child of `a` is the element just closed
      have hfacts := evsKids_facts c (k :: ks) p (afterCreate c p (.elem name nsmap attrib text (k :: ks) tail)).2
      have hap' := afterCreate_parent c p (.elem name nsmap attrib text (k :: ks) tail)
      have hlast : lastChildOf a
          (O ++ evOf a p (.elem name nsmap attrib text (k :: ks) tail) ::
            (afterCreate c p (.elem name nsmap attrib text (k :: ks) tail)).1 ++
            (evsKids c p (afterCreate c p (.elem name nsmap attrib text (k :: ks) tail)).2 (k :: ks)).1)
          = some (evOf a p (.elem name nsmap attrib text (k :: ks) tail)) := by
        rw [List.append_assoc, List.cons_append]
        refine lastChildOf_spec a O _ _ (evOf_parent _ _ _) ?_
        intro ev hev
        rcases List.mem_append.1 hev with hev | hev
        · rw [hap' ev hev]; intro h; injection h; omega
        · rcases hfacts.2 ev hev with h | ⟨q, hq, hle⟩
          · rw [h]; intro h; injection h; omega
          · rw [hq]; intro h; injection h; omega
      simp only [step, hlast, evOf_srcTail, XTree.tail]
      cases tail <;> simp [evsOne, tailEvs, List.append_assoc]
  | .comment s tl, rest, p, a, I, A, O, f, _ => by
    have hs : stepsOne (.comment s tl) + f = f + 1 := by simp [stepsOne]; omega
    rw [hs, run_succ]
    cases tl <;> simp [step, XTree.kids, XTree.tail, afterCreate, evsOne, tailEvs, List.append_assoc]
  | .pi t s tl, rest, p, a, I, A, O, f, _ => by
    have hs : stepsOne (.pi t s tl) + f = f + 1 := by simp [stepsOne]; omega
    rw [hs, run_succ]
    cases tl <;> simp [step, XTree.kids, XTree.tail, afterCreate, evsOne, tailEvs, List.append_assoc]
theorem run_kids (c : Cfg) : ∀ (ts : List XTree) (p a : Nat) (I : List (List XTree)) (A : List Nat)
    (O : List Ev) (f : Nat), a < p →
    run c (stepsKids ts + f) ⟨p, ts, a, I, A, O⟩ =
      run c f ⟨(evsKids c a p ts).2, [], a, I, A, O ++ (evsKids c a p ts).1⟩
  | [], p, a, I, A, O, f, _ => by simp [stepsKids, evsKids]
  | t :: ts, p, a, I, A, O, f, hap => by
    have hs : stepsKids (t :: ts) + f = stepsOne t + (stepsKids ts + f) := by simp [stepsKids]; omega
    rw [hs, run_one c t ts p a I A O _ hap]
    have h1 := (evsOne_facts c t a p).1
    have h2 : (evsOne c a p t).2 ≤ (tailEvs a (evsOne c a p t).2 t.tail).2 := by
      cases t.tail <;> simp [tailEvs]
    rw [run_kids c ts _ a I A _ f (by omega)]
    simp [evsKids, List.append_assoc]
end

/-! ### the expected nodes are the eagerly built nodes of the recursive builder -/

/-- nodes that exist right after building (namespace and attribute nodes are created lazily later) -/
def eager (r : Rec) : Bool := r.kind != .namespace && r.kind != .attribute

theorem filter_eager_ns (p : Nat) (m : NsMap) : (namespaceNodes p m).filter eager = [] := by
  rw [List.filter_eq_nil_iff]
  intro r hr
  unfold namespaceNodes at hr
  rcases List.mem_cons.1 hr with rfl | hr
  · simp [eager]
  · have : ∀ (q : Nat) (l : NsMap) (r : Rec), r ∈ enumFrom (fun q (kv : Option String × String) =>
        ({ kind := .namespace, name := kv.1, pos := q, parent := some p, sv := kv.2 } : Rec)) q l →
        r.kind = .namespace := by
      intro q l
      induction l generalizing q with
      | nil => intro r hr; cases hr
      | cons kv l ih =>
        intro r hr
        rcases List.mem_cons.1 hr with rfl | hr
        · rfl
        · exact ih _ r hr
    simp [eager, this _ _ r hr]

theorem filter_eager_attr (p : Nat) (m : NsMap) (a : Attrib) : (attributeNodes p m a).filter eager = [] := by
  rw [List.filter_eq_nil_iff]
  intro r hr
  unfold attributeNodes at hr
  have : ∀ (q : Nat) (l : Attrib) (r : Rec), r ∈ enumFrom (fun q (kv : String × String) =>
      ({ kind := .attribute, name := some kv.1, pos := q, parent := some p, sv := kv.2 } : Rec)) q l →
      r.kind = .attribute := by
    intro q l
    induction l generalizing q with
    | nil => intro r hr; cases hr
    | cons kv l ih =>
      intro r hr
      rcases List.mem_cons.1 hr with rfl | hr
      · rfl
      · exact ih _ r hr
  simp [eager, this _ _ r hr]

theorem afterCreate_textNode (c : Cfg) (p : Nat) (name : String) (nsmap : NsMap) (attrib : Attrib)
    (text : Option String) (kids : List XTree) (tail : Option String) :
    (afterCreate c p (.elem name nsmap attrib text kids tail)).1.map (·.node)
      = iterKids (some p) (textNode (p + nsOffset (c.nsmapOf nsmap) + attrib.length) text).1 ∧
    (afterCreate c p (.elem name nsmap attrib text kids tail)).2
      = (textNode (p + nsOffset (c.nsmapOf nsmap) + attrib.length) text).2 := by
  cases text <;> simp [afterCreate, textNode, iterKids, iterNode, textEv]

theorem filter_eager_text (par : Option Nat) (p : Nat) (o : Option String) :
    (iterKids par (textNode p o).1).filter eager = iterKids par (textNode p o).1 := by
  cases o <;> simp [textNode, iterKids, iterNode, eager, List.filter_cons]

mutual
theorem evsOne_build (c : Cfg) : ∀ (t : XTree) (a p : Nat),
    (evsOne c a p t).1.map (·.node) = (iterNode (some a) (buildOne c p t).1).filter eager ∧
    (evsOne c a p t).2 = (buildOne c p t).2
  | .elem name nsmap attrib text kids tail, a, p => by
    have hac := afterCreate_textNode c p name nsmap attrib text kids tail
    have ih := evsKids_build c kids p (afterCreate c p (.elem name nsmap attrib text kids tail)).2
    simp only [evsOne, buildOne, iterNode, List.map_cons, List.map_append, iterKids_append]
    rw [List.filter_cons_of_pos (by simp [eager])]
    simp only [List.filter_append, filter_eager_ns, filter_eager_attr, List.nil_append, filter_eager_text]
    rw [hac.1, ih.1, ih.2, hac.2]
    exact ⟨rfl, rfl⟩
  | .comment s tl, a, p => by simp [evsOne, buildOne, iterNode, evOf, eager, List.filter_cons]
  | .pi t s tl, a, p => by simp [evsOne, buildOne, iterNode, evOf, eager, List.filter_cons]
theorem evsKids_build (c : Cfg) : ∀ (ts : List XTree) (a p : Nat),
    (evsKids c a p ts).1.map (·.node) = (iterKids (some a) (buildKids c p ts).1).filter eager ∧
    (evsKids c a p ts).2 = (buildKids c p ts).2
  | [], a, p => by simp [evsKids, buildKids, iterKids]
  | t :: ts, a, p => by
    have h1 := evsOne_build c t a p
    have h2 : (tailEvs a (evsOne c a p t).2 t.tail).1.map (·.node)
          = (iterKids (some a) (textNode (buildOne c p t).2 t.tail).1).filter eager ∧
        (tailEvs a (evsOne c a p t).2 t.tail).2 = (textNode (buildOne c p t).2 t.tail).2 := by
      rw [h1.2]
      cases t.tail <;> simp [tailEvs, textNode, iterKids, iterNode, textEv, eager, List.filter_cons]
    have h3 := evsKids_build c ts a (tailEvs a (evsOne c a p t).2 t.tail).2
    simp only [evsKids, buildKids, iterKids_cons, iterKids_append, List.map_append, List.filter_append]
    rw [h1.1, h2.1, h3.1, h3.2, h2.2, List.append_assoc]
    exact ⟨rfl, rfl⟩
end

/-- LOOP = RECURSION.  Entered for the root element `e` created at `p` (under `par`), the explicit-stack
loop terminates within `stepsKids e.kids + 1` passes, does not crash, and has constructed exactly the
eagerly built nodes of the recursive `buildOne` — same order, positions, parents, contents. -/
theorem run_enterLoop (c : Cfg) (par : Option Nat) (p : Nat) (e : XTree) (he : e.isElem = true) :
    ∃ out, run c (stepsKids e.kids + 1) (enterLoop c par p e) = some out ∧
      out.map (·.node) = (iterNode par (buildOne c p e).1).filter eager := by
  cases e with
  | comment s tl => simp [XTree.isElem] at he
  | pi t s tl => simp [XTree.isElem] at he
  | elem name nsmap attrib text kids tail =>
    have hlt := afterCreate_lt c p (.elem name nsmap attrib text kids tail)
    have hrun := run_kids c kids (afterCreate c p (.elem name nsmap attrib text kids tail)).2 p [] []
      (rootEv par p (.elem name nsmap attrib text kids tail) ::
        (afterCreate c p (.elem name nsmap attrib text kids tail)).1) 1 hlt
    refine ⟨rootEv par p (.elem name nsmap attrib text kids tail) ::
        (afterCreate c p (.elem name nsmap attrib text kids tail)).1 ++
        (evsKids c p (afterCreate c p (.elem name nsmap attrib text kids tail)).2 kids).1, ?_, ?_⟩
    · simp only [enterLoop, XTree.kids]
      rw [hrun, run_succ]
      simp only [step]
    · have hac := afterCreate_textNode c p name nsmap attrib text kids tail
      have hk := evsKids_build c kids p (afterCreate c p (.elem name nsmap attrib text kids tail)).2
      simp only [List.map_cons, List.map_append, buildOne, iterNode, iterKids_append, List.cons_append]
      rw [List.filter_cons_of_pos (by simp [eager])]
      simp only [List.filter_append, filter_eager_ns, filter_eager_attr, List.nil_append, filter_eager_text]
      rw [hac.1, hk.1, hac.2]
      simp [rootEv, evOf]

/-! ### `tree.elements`: wrapped objects ↦ nodes

Object identity of the wrapped etree objects is their pre-order index in the input; every
`EtreeElementNode` / `CommentNode` / `ProcessingInstructionNode` constructor executes
`tree.elements[elem] = self`, text nodes wrap nothing.  The registry is therefore the list of the
non-text nodes in construction order, the k-th entry belonging to the k-th wrapped object. -/

/-- the node wraps an etree object -/
def wrapped (ev : Ev) : Bool := ev.node.kind != .text

mutual
/-- the etree objects of a subtree in pre-order (`elem.iter()`), as (kind, name) -/
def srcsOne : XTree → List (Kind × Option String)
  | .elem name _ _ _ kids _ => (.element, some name) :: srcsKids kids
  | .comment _ _ => [(.comment, none)]
  | .pi t _ _ => [(.pi, some t)]
def srcsKids : List XTree → List (Kind × Option String)
  | [] => []
  | t :: ts => srcsOne t ++ srcsKids ts
end

def tagOf (ev : Ev) : Kind × Option String := (ev.node.kind, ev.node.name)

theorem afterCreate_unwrapped (c : Cfg) (p : Nat) (t : XTree) : (afterCreate c p t).1.filter wrapped = [] := by
  cases t with
  | elem name nsmap attrib text kids tail => cases text <;> simp [afterCreate, textEv, wrapped]
  | comment s tl => simp [afterCreate]
  | pi t s tl => simp [afterCreate]

theorem tailEvs_unwrapped (a p : Nat) (o : Option String) : (tailEvs a p o).1.filter wrapped = [] := by
  cases o <;> simp [tailEvs, textEv, wrapped]

theorem wrapped_evOf (a p : Nat) (t : XTree) : wrapped (evOf a p t) = true := by
  cases t <;> simp [wrapped, evOf]

theorem wrapped_rootEv (par : Option Nat) (p : Nat) (t : XTree) : wrapped (rootEv par p t) = true := by
  cases t <;> simp [wrapped, rootEv, evOf]

mutual
theorem evsOne_srcs (c : Cfg) : ∀ (t : XTree) (a p : Nat),
    ((evsOne c a p t).1.filter wrapped).map tagOf = srcsOne t
  | .elem name nsmap attrib text kids tail, a, p => by
    have ih := evsKids_srcs c kids p (afterCreate c p (.elem name nsmap attrib text kids tail)).2
    simp only [evsOne, srcsOne, List.cons_append, List.filter_cons, wrapped_evOf, if_true, List.filter_append,
      afterCreate_unwrapped, List.nil_append, List.map_cons, ih]
    simp [tagOf, evOf]
  | .comment s tl, a, p => by simp [evsOne, srcsOne, wrapped, evOf, tagOf, List.filter_cons]
  | .pi t s tl, a, p => by simp [evsOne, srcsOne, wrapped, evOf, tagOf, List.filter_cons]
theorem evsKids_srcs (c : Cfg) : ∀ (ts : List XTree) (a p : Nat),
    ((evsKids c a p ts).1.filter wrapped).map tagOf = srcsKids ts
  | [], a, p => by simp [evsKids, srcsKids]
  | t :: ts, a, p => by
    simp only [evsKids, srcsKids, List.filter_append, tailEvs_unwrapped, List.append_nil, List.map_append]
    rw [evsOne_srcs c t a p, evsKids_srcs c ts a]
end

/-- the registry after the loop: one entry per wrapped object of the input, in pre-order, each with the
kind and name of its object -/
theorem run_registry (c : Cfg) (par : Option Nat) (p : Nat) (e : XTree) (he : e.isElem = true) :
    ∃ out, run c (stepsKids e.kids + 1) (enterLoop c par p e) = some out ∧
      (out.filter wrapped).map tagOf = srcsOne e ∧
      (out.filter wrapped).map (·.node.pos) = ((iterNode par (buildOne c p e).1).filter
        fun r => eager r && r.kind != .text).map (·.pos) := by
  cases e with
  | comment s tl => simp [XTree.isElem] at he
  | pi t s tl => simp [XTree.isElem] at he
  | elem name nsmap attrib text kids tail =>
    obtain ⟨out, hrun, hout⟩ := run_enterLoop c par p (.elem name nsmap attrib text kids tail) rfl
    refine ⟨out, hrun, ?_, ?_⟩
    · -- recompute `out` from the run
      have hlt := afterCreate_lt c p (.elem name nsmap attrib text kids tail)
      have hrun' := run_kids c kids (afterCreate c p (.elem name nsmap attrib text kids tail)).2 p [] []
        (rootEv par p (.elem name nsmap attrib text kids tail) ::
          (afterCreate c p (.elem name nsmap attrib text kids tail)).1) 1 hlt
      simp only [enterLoop, XTree.kids] at hrun
      rw [hrun', run_succ] at hrun
      simp only [step, Option.some.injEq] at hrun
      subst hrun
      simp only [List.cons_append, List.filter_cons, wrapped_rootEv, if_true, List.filter_append,
        afterCreate_unwrapped, List.nil_append, List.map_cons, evsKids_srcs c kids p]
      simp [tagOf, rootEv, evOf, srcsOne]
    · have : (out.filter wrapped).map (·.node.pos) = ((out.map (·.node)).filter (fun r => r.kind != .text)).map (·.pos) := by
        simp [List.filter_map, List.map_map, Function.comp_def]; rfl
      rw [this, hout, List.filter_filter]
      congr 1
      apply List.filter_congr
      intro r _
      exact Bool.and_comm _ _

end EPV.Builder

import EPV.Lemmas.USetOps
namespace EPV.USet

/-- entry emitted by the merge loop for the pending interval `[s, e)` -/
theorem emit_mem {s e : Nat} (h : s < e) (x : Nat) :
    CP.mem x (if e > s + 1 then CP.rng s e else CP.one s) ↔ (s ≤ x ∧ x < e) := by
  split
  · simp only [CP.mem, CP.lo_rng, CP.hi_rng]
  · simp only [CP.mem, CP.lo_one, CP.hi_one]; omega

/-- forward merge loop: input sorted by first code point -/
theorem icpLoop_fwd_mem : ∀ (l : List CP) (s e : Nat), s < e →
    l.Pairwise (fun a b => a.lo ≤ b.lo) → (∀ c ∈ l, s ≤ c.lo ∧ c.lo < c.hi) →
    ∀ x, memL x (icpLoop false (some (s, e)) l) ↔ ((s ≤ x ∧ x < e) ∨ memL x l) := by
  intro l
  induction l with
  | nil => intro s e hse _ _ x; simp only [icpLoop, memL, emit_mem hse, or_false]
  | cons c rest ih =>
    intro s e hse hp hall x
    obtain ⟨hc1, hc2⟩ := hall c (List.mem_cons_self ..)
    obtain ⟨hpc, hpr⟩ := List.pairwise_cons.mp hp
    simp only [icpLoop, Bool.false_eq_true, if_false]
    split
    · rename_i h1
      have hall' : ∀ d ∈ rest, s ≤ d.lo ∧ d.lo < d.hi := fun d hd => hall d (List.mem_cons_of_mem _ hd)
      rw [ih s (if e < c.hi then c.hi else e) (by split <;> omega) hpr hall' x]
      simp only [memL, CP.mem]
      split <;> grind
    · rename_i h1
      have hall' : ∀ d ∈ rest, c.lo ≤ d.lo ∧ d.lo < d.hi :=
        fun d hd => ⟨hpc d hd, (hall d (List.mem_cons_of_mem _ hd)).2⟩
      rw [memL, emit_mem hse, ih c.lo c.hi hc2 hpr hall' x]
      simp only [memL, CP.mem]

/-- reverse merge loop: input sorted by last code point, descending -/
theorem icpLoop_rev_mem : ∀ (l : List CP) (s e : Nat), s < e →
    l.Pairwise (fun a b => a.hi ≥ b.hi) → (∀ c ∈ l, c.hi ≤ e ∧ c.lo < c.hi) →
    ∀ x, memL x (icpLoop true (some (s, e)) l) ↔ ((s ≤ x ∧ x < e) ∨ memL x l) := by
  intro l
  induction l with
  | nil => intro s e hse _ _ x; simp only [icpLoop, memL, emit_mem hse, or_false]
  | cons c rest ih =>
    intro s e hse hp hall x
    obtain ⟨hc1, hc2⟩ := hall c (List.mem_cons_self ..)
    obtain ⟨hpc, hpr⟩ := List.pairwise_cons.mp hp
    simp only [icpLoop, if_true]
    split
    · rename_i h1
      have hall' : ∀ d ∈ rest, d.hi ≤ e ∧ d.lo < d.hi := fun d hd => hall d (List.mem_cons_of_mem _ hd)
      rw [ih (if s > c.lo then c.lo else s) e (by split <;> omega) hpr hall' x]
      simp only [memL, CP.mem]
      split <;> grind
    · rename_i h1
      have hall' : ∀ d ∈ rest, d.hi ≤ c.hi ∧ d.lo < d.hi :=
        fun d hd => ⟨hpc d hd, (hall d (List.mem_cons_of_mem _ hd)).2⟩
      rw [memL, emit_mem hse, ih c.lo c.hi hc2 hpr hall' x]
      simp only [memL, CP.mem]

theorem memL_perm {l l' : List CP} (h : l.Perm l') (x : Nat) : memL x l ↔ memL x l' := by
  rw [memL_iff_exists, memL_iff_exists]
  constructor
  · rintro ⟨v, hv, hx⟩; exact ⟨v, h.mem_iff.mp hv, hx⟩
  · rintro ⟨v, hv, hx⟩; exact ⟨v, h.mem_iff.mpr hv, hx⟩

/-- `iter_code_points` (either direction) denotes the union of its (valid) input entries -/
theorem iterCodePoints_mem (reverse : Bool) (l : List CP) (hv : AllValid l) (x : Nat) :
    memL x (iterCodePoints reverse l) ↔ memL x l := by
  unfold iterCodePoints
  cases reverse with
  | true =>
    simp only [if_true]
    have hperm := List.mergeSort_perm l (fun a b => decide (a.hi ≥ b.hi))
    have hsorted := List.pairwise_mergeSort (le := fun (a b : CP) => decide (a.hi ≥ b.hi))
      (by intro a b c h1 h2; simp only [decide_eq_true_eq] at *; omega)
      (by intro a b; simp only [Bool.or_eq_true, decide_eq_true_eq]; omega) l
    rw [← memL_perm hperm x]
    generalize l.mergeSort (fun a b => decide (a.hi ≥ b.hi)) = m at hperm hsorted
    have hvm : AllValid m := fun v hv' => hv v (hperm.mem_iff.mp hv')
    cases m with
    | nil => simp [icpLoop]
    | cons c rest =>
      have hp : (c :: rest).Pairwise (fun a b => a.hi ≥ b.hi) := hsorted.imp (by simp)
      obtain ⟨hpc, hpr⟩ := List.pairwise_cons.mp hp
      simp only [icpLoop]
      rw [icpLoop_rev_mem rest c.lo c.hi (hvm c (List.mem_cons_self ..)) hpr
        (fun d hd => ⟨hpc d hd, hvm d (List.mem_cons_of_mem _ hd)⟩) x]
      simp only [memL, CP.mem]
  | false =>
    simp only [Bool.false_eq_true, if_false]
    have hperm := List.mergeSort_perm l (fun a b => decide (a.lo ≤ b.lo))
    have hsorted := List.pairwise_mergeSort (le := fun (a b : CP) => decide (a.lo ≤ b.lo))
      (by intro a b c h1 h2; simp only [decide_eq_true_eq] at *; omega)
      (by intro a b; simp only [Bool.or_eq_true, decide_eq_true_eq]; omega) l
    rw [← memL_perm hperm x]
    generalize l.mergeSort (fun a b => decide (a.lo ≤ b.lo)) = m at hperm hsorted
    have hvm : AllValid m := fun v hv' => hv v (hperm.mem_iff.mp hv')
    cases m with
    | nil => simp [icpLoop]
    | cons c rest =>
      have hp : (c :: rest).Pairwise (fun a b => a.lo ≤ b.lo) := hsorted.imp (by simp)
      obtain ⟨hpc, hpr⟩ := List.pairwise_cons.mp hp
      simp only [icpLoop]
      rw [icpLoop_fwd_mem rest c.lo c.hi (hvm c (List.mem_cons_self ..)) hpr
        (fun d hd => ⟨hpc d hd, hvm d (List.mem_cons_of_mem _ hd)⟩) x]
      simp only [memL, CP.mem]

end EPV.USet

namespace EPV.USet

theorem emit_valid {s e : Nat} (h : s < e) :
    (if e > s + 1 then CP.rng s e else CP.one s).lo < (if e > s + 1 then CP.rng s e else CP.one s).hi := by
  split
  · simpa using h
  · simp

theorem icpLoop_allValid (r : Bool) : ∀ (l : List CP) (s e : Nat), s < e → AllValid l →
    AllValid (icpLoop r (some (s, e)) l) := by
  intro l
  induction l with
  | nil =>
    intro s e hse _ v hv
    simp only [icpLoop, List.mem_singleton] at hv
    subst hv; exact emit_valid hse
  | cons c rest ih =>
    intro s e hse hall
    have hc := hall c (List.mem_cons_self ..)
    have hr : AllValid rest := fun d hd => hall d (List.mem_cons_of_mem _ hd)
    simp only [icpLoop]
    cases r with
    | true =>
      simp only [if_true]
      split
      · exact ih _ _ (by split <;> omega) hr
      · intro v hv
        rcases List.mem_cons.mp hv with rfl | hv'
        · exact emit_valid hse
        · exact ih c.lo c.hi hc hr v hv'
    | false =>
      simp only [Bool.false_eq_true, if_false]
      split
      · exact ih _ _ (by split <;> omega) hr
      · intro v hv
        rcases List.mem_cons.mp hv with rfl | hv'
        · exact emit_valid hse
        · exact ih c.lo c.hi hc hr v hv'

theorem iterCodePoints_allValid (r : Bool) (l : List CP) (hv : AllValid l) :
    AllValid (iterCodePoints r l) := by
  unfold iterCodePoints
  have key : ∀ m : List CP, AllValid m → AllValid (icpLoop r none m) := by
    intro m hm
    cases m with
    | nil => intro v hv'; simp [icpLoop] at hv'
    | cons c rest =>
      simp only [icpLoop]
      exact icpLoop_allValid r rest c.lo c.hi (hm c (List.mem_cons_self ..))
        (fun d hd => hm d (List.mem_cons_of_mem _ hd))
  split
  · exact key _ (fun v hv' => hv v (List.mem_mergeSort.mp hv'))
  · exact key _ (fun v hv' => hv v (List.mem_mergeSort.mp hv'))

end EPV.USet

/-
C15 — map:merge of the model (Python loop: dict fast path for "safe" key types, `same_key` scan for
the others, final `XPathMap(items)`) equals the F&O merge of EPV/Spec/FOMaps.lean whenever the
code's key relations agree with `op:same-key` on the keys of the operand maps (`Agree`, implied by
the decidable `noClash`).
-/
import EPV.Lemmas.MapArrayMerge
namespace EPV.MapArray
open Spec


/-- the code's relations agree with `op:same-key` on all pairs from `K` -/
def Agree (K : List Key) : Prop :=
  ∀ a ∈ K, ∀ b ∈ K, dictEq a b = sameKey a b ∧ scanEq a b = sameKey a b

theorem Agree_of_noClash {K : List Key} (h : noClash K = true) : Agree K :=
  fun _ ha _ hb => noClash_spec h ha hb

theorem Agree_mono {K K' : List Key} (h : Agree K) (hs : ∀ k ∈ K', k ∈ K) : Agree K' :=
  fun a ha b hb => h a (hs a ha) b (hs b hb)

theorem WF_cons {e : Key × α} {rest : Entries α} :
    WF (e :: rest) ↔ (∀ x ∈ rest, dictEq e.1 x.1 = false) ∧ WF rest := by
  simp [WF, List.pairwise_cons]

theorem WF_unique {es : Entries α} (h : WF es) {a b : Key × α} (ha : a ∈ es) (hb : b ∈ es)
    (hab : dictEq a.1 b.1 = true) : a = b := by
  induction es with
  | nil => simp at ha
  | cons e rest ih =>
    obtain ⟨h1, h2⟩ := WF_cons.1 h
    rcases List.mem_cons.1 ha with rfl | ha'
    · rcases List.mem_cons.1 hb with rfl | hb'
      · rfl
      · rw [h1 b hb'] at hab; exact absurd hab (by simp)
    · rcases List.mem_cons.1 hb with rfl | hb'
      · rw [dictEq_symm, h1 a ha'] at hab; exact absurd hab (by simp)
      · exact ih h2 ha' hb'

theorem dictSet_of_has {es : Entries α} (h : WF es) {k : Key} (w : α) (hk : dictHas es k = true) :
    dictSet es k w = es.map fun a => if dictEq a.1 k then (a.1, w) else a := by
  induction es with
  | nil => simp [dictHas] at hk
  | cons e rest ih =>
    obtain ⟨k', v'⟩ := e
    obtain ⟨h1, h2⟩ := WF_cons.1 h
    simp only [dictSet, List.map_cons]
    by_cases hd : dictEq k' k = true
    · simp only [hd, ↓reduceIte, List.cons.injEq, true_and]
      symm
      rw [← List.map_id rest]
      conv => rhs; rw [List.map_id]
      rw [List.map_map]
      conv => rhs; rw [← List.map_id rest]
      apply List.map_congr_left
      intro x hx
      have : dictEq x.1 k = false := by
        cases hx' : dictEq x.1 k with
        | false => rfl
        | true =>
          have : dictEq k' x.1 = true := dictEq_trans hd (by rw [dictEq_symm]; exact hx')
          rw [h1 x hx] at this; exact absurd this (by simp)
      simp [this]
    · have hd' : dictEq k' k = false := by simpa using hd
      simp only [hd', Bool.false_eq_true, ↓reduceIte, List.cons.injEq, true_and]
      apply ih h2
      simpa [dictHas, hd'] using hk

theorem mapGet_of_mem {es : Entries (List β)} (h : WF es) {a : Key × List β} (ha : a ∈ es) {k : Key}
    (hk : dictEq a.1 k = true) : mapGet es k = a.2 := by
  unfold mapGet dictGet
  have hsome : (es.find? fun e => dictEq e.1 k).isSome := List.find?_isSome.2 ⟨a, ha, hk⟩
  obtain ⟨b, hb⟩ := Option.isSome_iff_exists.1 hsome
  have hbm : b ∈ es := List.mem_of_find?_eq_some hb
  have hbk : dictEq b.1 k = true := by simpa using List.find?_some hb
  have : a = b := WF_unique h ha hbm (dictEq_trans hk (by rw [dictEq_symm]; exact hbk))
  simp [hb, this]


theorem dictHas_eq_contains {items : Entries α} {k : Key}
    (h : ∀ x ∈ items, dictEq x.1 k = sameKey x.1 k) : dictHas items k = Spec.contains items k := by
  unfold dictHas Spec.contains
  induction items with
  | nil => rfl
  | cons e rest ih =>
    simp only [List.any_cons, h e (by simp)]
    rw [ih fun x hx => h x (List.mem_cons_of_mem _ hx)]

theorem dictPop_eq_filter {items : Entries α} {k k1 : Key}
    (h : ∀ x ∈ items, dictEq x.1 k = sameKey x.1 k1) :
    dictPop items k = items.filter fun e => !sameKey e.1 k1 := by
  unfold dictPop
  apply List.filter_congr
  intro x hx; rw [h x hx]

theorem dictHas_filter_false (items : Entries α) (k1 : Key)
    (h : ∀ x ∈ items, dictEq x.1 k1 = sameKey x.1 k1) :
    dictHas (items.filter fun e => !sameKey e.1 k1) k1 = false := by
  rw [dictHas_eq_false_iff]
  intro e he
  simp only [List.mem_filter, Bool.not_eq_eq_eq_not, Bool.not_true] at he
  rw [h e he.1]; exact he.2

/-- one entry of the merge loop: the Python code and the F&O rule do the same thing when the keys
involved do not clash and the accumulated dict is well-formed -/
theorem mergeStep_eq_spec (pol : Policy) (items : Entries (List β)) (k1 : Key) (v : List β)
    (hWF : WF items)
    (hk : ∀ x ∈ items, dictEq x.1 k1 = sameKey x.1 k1 ∧ scanEq x.1 k1 = sameKey x.1 k1)
    (hitems : ∀ x ∈ items, ∀ y ∈ items, dictEq x.1 y.1 = sameKey x.1 y.1) :
    MapArray.mergeStep pol items (k1, v) = Spec.mergeStep pol items (k1, v) := by
  have hhas : dictHas items k1 = Spec.contains items k1 := dictHas_eq_contains fun x hx => (hk x hx).1
  have hcomb : ∀ (kk : Key) (w : List β), (∀ x ∈ items, dictEq x.1 kk = sameKey x.1 k1) →
      dictHas items kk = true → (∀ a ∈ items, dictEq a.1 kk = true → w = a.2 ++ v) →
      dictSet items kk w = items.map fun a => if sameKey a.1 k1 then (a.1, a.2 ++ v) else a := by
    intro kk w hkk hh hw
    rw [dictSet_of_has hWF w hh]
    apply List.map_congr_left
    intro a ha
    rw [hkk a ha]
    cases hs : sameKey a.1 k1 with
    | false => simp
    | true => simp only [↓reduceIte]; rw [hw a ha (by rw [hkk a ha]; exact hs)]
  by_cases hc : Spec.contains items k1 = true
  · -- the key is already there
    have hspec := mergeStep_dup pol items (k1, v) hc
    rw [hspec]
    unfold MapArray.mergeStep
    by_cases hsafe : isSafeKey k1 = true
    · simp only [hsafe, ↓reduceIte, hhas, hc, Bool.not_true, Bool.false_eq_true]
      cases pol with
      | reject => rfl
      | useFirst => rfl
      | useAny => rfl
      | useLast =>
        simp only [Spec.put]
        rw [dictPop_eq_filter fun x hx => (hk x hx).1,
          dictSet_of_not_has v (dictHas_filter_false items k1 fun x hx => (hk x hx).1)]
      | combine =>
        simp only
        rw [hcomb k1 _ (fun x hx => (hk x hx).1) (by rw [hhas]; exact hc)
          (fun a ha hak => by rw [mapGet_of_mem hWF ha hak])]
    · have hsafe' : isSafeKey k1 = false := by simpa using hsafe
      simp only [hsafe', Bool.false_eq_true, ↓reduceIte]
      -- the scan finds the entry with the same key
      have hpy : ∀ x : Key × List β, x ∈ items → sameKeyPy k1 x.1 = sameKey x.1 k1 := by
        intro x hx; rw [sameKeyPy_eq_scanEq, scanEq_symm, (hk x hx).2]
      have hsome : (items.find? fun e2 => sameKeyPy k1 e2.1).isSome := by
        obtain ⟨x, hx, hxk⟩ := List.any_eq_true.1 (by unfold Spec.contains at hc; exact hc)
        exact List.find?_isSome.2 ⟨x, hx, by rw [hpy x hx]; exact hxk⟩
      obtain ⟨⟨k2, v2⟩, hf⟩ := Option.isSome_iff_exists.1 hsome
      have hm : (k2, v2) ∈ items := List.mem_of_find?_eq_some hf
      have h21 : sameKey k2 k1 = true := by
        have := List.find?_some hf
        simp only at this
        rw [hpy (k2, v2) hm] at this; exact this
      have hk2 : ∀ x ∈ items, dictEq x.1 k2 = sameKey x.1 k1 := by
        intro x hx; rw [hitems x hx (k2, v2) hm]; exact sameKey_congr_right h21 x.1
      rw [hf]
      cases pol with
      | reject => rfl
      | useFirst => rfl
      | useAny => rfl
      | useLast =>
        simp only [Spec.put]
        rw [dictPop_eq_filter hk2,
          dictSet_of_not_has v (dictHas_filter_false items k1 fun x hx => (hk x hx).1)]
      | combine =>
        simp only
        have hh : dictHas items k2 = true := by
          unfold dictHas; exact List.any_eq_true.2 ⟨(k2, v2), hm, dictEq_refl k2⟩
        rw [hcomb k2 _ hk2 hh (fun a ha hak => by
          have : a = (k2, v2) := WF_unique hWF ha hm hak
          rw [this])]
  · -- a new key: appended
    have hc' : Spec.contains items k1 = false := by simpa using hc
    rw [mergeStep_new pol items (k1, v) hc']
    have hnot : dictHas items k1 = false := by rw [hhas]; exact hc'
    unfold MapArray.mergeStep
    by_cases hsafe : isSafeKey k1 = true
    · simp only [hsafe, ↓reduceIte, hnot, Bool.not_false, dictSet_of_not_has v hnot]
    · have hsafe' : isSafeKey k1 = false := by simpa using hsafe
      simp only [hsafe', Bool.false_eq_true, ↓reduceIte]
      have hnone : (items.find? fun e2 => sameKeyPy k1 e2.1) = none := by
        rw [List.find?_eq_none]
        intro x hx hxk
        rw [sameKeyPy_eq_scanEq, scanEq_symm, (hk x hx).2] at hxk
        have : Spec.contains items k1 = true := List.any_eq_true.2 ⟨x, hx, hxk⟩
        rw [hc'] at this; exact absurd this (by simp)
      rw [hnone]
      simp only [dictSet_of_not_has v hnot]


def keysOf (es : Entries α) : List Key := es.map (·.1)

theorem mem_keysOf {es : Entries α} {x : Key × α} (h : x ∈ es) : x.1 ∈ keysOf es :=
  List.mem_map.2 ⟨x, h, rfl⟩

theorem spec_mergeStep_keys (pol : Policy) (acc acc' : Entries (List β)) (e : Key × List β)
    (h : Spec.mergeStep pol acc e = .ok acc') : ∀ x ∈ acc', x.1 ∈ keysOf acc ∨ x.1 = e.1 := by
  by_cases hc : Spec.contains acc e.1 = true
  · rw [mergeStep_dup pol acc e hc] at h
    cases pol with
    | reject => simp at h
    | useFirst => injection h with h; subst h; exact fun x hx => Or.inl (mem_keysOf hx)
    | useAny => injection h with h; subst h; exact fun x hx => Or.inl (mem_keysOf hx)
    | useLast =>
      injection h with h; subst h
      intro x hx
      simp only [Spec.put, List.mem_append, List.mem_filter, List.mem_singleton] at hx
      rcases hx with ⟨hx, _⟩ | rfl
      · exact Or.inl (mem_keysOf hx)
      · exact Or.inr rfl
    | combine =>
      injection h with h; subst h
      intro x hx
      obtain ⟨a, ha, rfl⟩ := List.mem_map.1 hx
      left
      have : (if sameKey a.1 e.1 then (a.1, a.2 ++ e.2) else a).1 = a.1 := by split <;> rfl
      rw [this]; exact mem_keysOf ha
  · have hc' : Spec.contains acc e.1 = false := by simpa using hc
    rw [mergeStep_new pol acc e hc'] at h
    injection h with h; subst h
    intro x hx
    rcases List.mem_append.1 hx with hx | hx
    · exact Or.inl (mem_keysOf hx)
    · exact Or.inr (by simp at hx; rw [hx])

theorem spec_mergeStep_WF (pol : Policy) (acc acc' : Entries (List β)) (e : Key × List β)
    (hWF : WF acc) (hk : ∀ x ∈ acc, dictEq x.1 e.1 = sameKey x.1 e.1)
    (h : Spec.mergeStep pol acc e = .ok acc') : WF acc' := by
  by_cases hc : Spec.contains acc e.1 = true
  · rw [mergeStep_dup pol acc e hc] at h
    cases pol with
    | reject => simp at h
    | useFirst => injection h with h; subst h; exact hWF
    | useAny => injection h with h; subst h; exact hWF
    | useLast =>
      injection h with h; subst h
      exact WF_append_singleton.2 ⟨WF_filter _ hWF, dictHas_filter_false acc e.1 hk⟩
    | combine =>
      injection h with h; subst h
      unfold WF
      rw [List.pairwise_map]
      refine hWF.imp fun {a b} hab => ?_
      have h1 : (if sameKey a.1 e.1 then (a.1, a.2 ++ e.2) else a).1 = a.1 := by split <;> rfl
      have h2 : (if sameKey b.1 e.1 then (b.1, b.2 ++ e.2) else b).1 = b.1 := by split <;> rfl
      rw [h1, h2]; exact hab
  · have hc' : Spec.contains acc e.1 = false := by simpa using hc
    rw [mergeStep_new pol acc e hc'] at h
    injection h with h; subst h
    exact WF_append_singleton.2 ⟨hWF, by rw [dictHas_eq_contains hk]; exact hc'⟩

theorem mergeLoop_eq_spec (pol : Policy) (acc : Entries (List β)) (l : List (Key × List β))
    (hWF : WF acc) (hA : Agree (keysOf acc ++ keysOf l)) :
    MapArray.mergeLoop pol acc l = Spec.mergeLoop pol acc l ∧
      ∀ m, Spec.mergeLoop pol acc l = .ok m → WF m := by
  induction l generalizing acc with
  | nil => exact ⟨rfl, fun m hm => by simp only [Spec.mergeLoop] at hm; injection hm with hm; subst hm; exact hWF⟩
  | cons e rest ih =>
    obtain ⟨k1, v⟩ := e
    have hk1 : k1 ∈ keysOf acc ++ keysOf ((k1, v) :: rest) := by simp [keysOf]
    have hacc : ∀ x ∈ acc, x.1 ∈ keysOf acc ++ keysOf ((k1, v) :: rest) :=
      fun x hx => List.mem_append_left _ (mem_keysOf hx)
    have hstep := mergeStep_eq_spec pol acc k1 v hWF
      (fun x hx => hA x.1 (hacc x hx) k1 hk1)
      (fun x hx y hy => (hA x.1 (hacc x hx) y.1 (hacc y hy)).1)
    simp only [MapArray.mergeLoop, Spec.mergeLoop, hstep]
    cases hs : Spec.mergeStep pol acc (k1, v) with
    | error x => exact ⟨rfl, fun m hm => by simp at hm⟩
    | ok acc' =>
      have hWF' : WF acc' := spec_mergeStep_WF pol acc acc' (k1, v) hWF
        (fun x hx => (hA x.1 (hacc x hx) k1 hk1).1) hs
      have hA' : Agree (keysOf acc' ++ keysOf rest) := by
        apply Agree_mono hA
        intro k hk
        rcases List.mem_append.1 hk with hk | hk
        · obtain ⟨x, hx, rfl⟩ := List.mem_map.1 hk
          rcases spec_mergeStep_keys pol acc acc' (k1, v) hs x hx with h | h
          · exact List.mem_append_left _ h
          · rw [h]; exact hk1
        · exact List.mem_append_right _ (by simp only [keysOf, List.map_cons, List.mem_cons]; exact Or.inr hk)
      exact ih acc' hWF' hA'

/-- map:merge: the Python loop (dict fast path, `same_key` scan, final constructor) is the F&O
merge whenever the keys of the operand maps do not clash. -/
theorem mapMerge_eq_spec (maps : List (Entries (List β))) (pol : Policy)
    (hA : Agree (keysOf maps.flatten)) : mapMerge maps pol = Spec.merge maps pol := by
  have h := mergeLoop_eq_spec pol [] maps.flatten (by simp [WF]) (by simpa [keysOf] using hA)
  unfold mapMerge Spec.merge
  rw [h.1]
  cases hs : Spec.mergeLoop pol [] maps.flatten with
  | error x => rfl
  | ok items => exact mapCtor_of_WF (h.2 items hs)

end EPV.MapArray

/-
C10 helper lemmas: decimal and double recognisers of the model = lexical spaces of the spec.
-/
import EPV.Lemmas.LexicalDec
namespace EPV.LexLemmas
open EPV

theorem signed_or (p q : List Char → Bool) (s : List Char) :
    XSD.signed (fun u => p u || q u) s = (XSD.signed p s || XSD.signed q s) := by
  unfold XSD.signed; split <;> rfl

theorem mantSplit_of_valid (t : List Char) (h : validMant t = true) : mantSplit t = some (t, []) := by
  have := mantSplit_complete t [] h (Or.inl rfl)
  simpa using this

theorem not_mem_of_append_right {c : Char} {m r t : List Char} (ht : t = m ++ r) (h : c ∉ t) : c ∉ r :=
  fun hm => h (by rw [ht]; exact List.mem_append_right _ hm)

/-- `(?:[0-9]+(?:\.[0-9]*)?|\.[0-9]+)$` on a newline-free string = [46] | [48] -/
theorem scanDec_atEnd (t : List Char) (h : '\n' ∉ t) : Lex.scanDecBody Lex.atEnd t = validMant t := by
  rw [scanDecBody_eq]
  cases hms : mantSplit t with
  | none =>
    simp only
    cases hv : validMant t with
    | false => rfl
    | true => rw [mantSplit_of_valid t hv] at hms; cases hms
  | some mr =>
    obtain ⟨m, r⟩ := mr
    obtain ⟨ht, hv⟩ := mantSplit_sound t m r hms
    simp only
    rw [atEnd_of_no_nl r (not_mem_of_append_right ht h)]
    cases r with
    | nil => simp at ht; subst ht; simp [hv]
    | cons c x =>
      simp only [List.isEmpty_cons]
      cases hv2 : validMant t with
      | false => rfl
      | true => rw [mantSplit_of_valid t hv2] at hms; cases hms

/-- the decimal pattern recognises exactly the XSD lexical space of xs:decimal (newline-free strings) -/
theorem matchDecimal_eq (s : List Char) (h : '\n' ∉ s) : Lex.matchDecimal s = XSD.decimalLex s := by
  unfold Lex.matchDecimal XSD.decimalLex XSD.decimalPtNumeral XSD.noDecimalPtNumeral
  rw [scanDec_atEnd _ (optSign_nl h), ← signed_or, signed_eq]
  unfold validMant
  rw [Bool.or_comm]

/-! ### exponent part -/

def isE (c : Char) : Bool := c == 'e' || c == 'E'

theorem isE_not_digit_dot (c : Char) (h : isE c = true) : Lex.isDigit c = false ∧ c ≠ '.' := by
  simp only [isE, Bool.or_eq_true, beq_iff_eq] at h
  rcases h with h | h <;> subst h <;> exact ⟨by decide, by decide⟩

theorem scanExpEnd_E (c : Char) (x : List Char) (h : isE c = true) (hnl : '\n' ∉ x) :
    Lex.scanExpEnd (c :: x) = XSD.noDecimalPtNumeral x := by
  have : Lex.scanExpEnd (c :: x) = Lex.digits1End (Lex.optSign x) := by
    simp only [isE, Bool.or_eq_true, beq_iff_eq] at h
    rcases h with h | h <;> subst h <;> rfl
  rw [this, digits1End_eq _ (optSign_nl hnl)]
  unfold XSD.noDecimalPtNumeral
  rw [signed_eq]

theorem scanExpEnd_other (r : List Char) (h : ∀ c x, r = c :: x → isE c = false) (hnl : '\n' ∉ r) :
    Lex.scanExpEnd r = r.isEmpty := by
  unfold Lex.scanExpEnd
  split
  · exact absurd (h _ _ rfl) (by decide)
  · exact absurd (h _ _ rfl) (by decide)
  · exact atEnd_of_no_nl r hnl

theorem validMant_no_E (m : List Char) (h : validMant m = true) : ∀ c ∈ m, isE c = false := by
  intro c hc
  rcases validMant_chars m h c hc with h | h
  · cases he : isE c with
    | false => rfl
    | true => rw [(isE_not_digit_dot c he).1] at h; cases h
  · subst h; decide

/-- `mantissa (?:[Ee][+-]?[0-9]+)?$` on a newline-free string = [46] | [48] | [50] -/
theorem scanDec_exp (t : List Char) (h : '\n' ∉ t) :
    Lex.scanDecBody Lex.scanExpEnd t = (validMant t || XSD.unsignedSci t) := by
  rw [scanDecBody_eq]
  unfold XSD.unsignedSci
  cases hsp : XSD.splitAt (fun c => c == 'e' || c == 'E') t with
  | mk a ox =>
  cases ox with
  | none =>
    -- no exponent mark in t
    obtain ⟨_, hno⟩ := splitAt_eq_none _ _ _ hsp
    have hnoE : ∀ c ∈ t, isE c = false := hno
    simp only [Bool.or_false]
    cases hms : mantSplit t with
    | none =>
      simp only
      cases hv : validMant t with
      | false => rfl
      | true => rw [mantSplit_of_valid t hv] at hms; cases hms
    | some mr =>
      obtain ⟨m, r⟩ := mr
      obtain ⟨ht, hv⟩ := mantSplit_sound t m r hms
      simp only
      have hr : ∀ c x, r = c :: x → isE c = false := by
        intro c x hcx; apply hnoE; rw [ht, hcx]; simp
      rw [scanExpEnd_other r hr (not_mem_of_append_right ht h)]
      cases r with
      | nil => simp at ht; subst ht; simp [hv]
      | cons c x =>
        simp only [List.isEmpty_cons]
        cases hv2 : validMant t with
        | false => rfl
        | true => rw [mantSplit_of_valid t hv2] at hms; cases hms
  | some x =>
    obtain ⟨e, he, ht, hnoE⟩ := splitAt_eq_some _ _ _ _ hsp
    have heE : isE e = true := he
    have hx : '\n' ∉ x := fun hm => h (by rw [ht]; simp [hm])
    -- t contains an exponent mark: it is not a plain mantissa
    have hvt : validMant t = false := by
      cases hv : validMant t with
      | false => rfl
      | true =>
        have := validMant_no_E t hv e (by rw [ht]; simp)
        rw [heE] at this; cases this
    simp only [hvt, Bool.false_or]
    change _ = (validMant a && XSD.noDecimalPtNumeral x)
    cases hva : validMant a with
    | true =>
      have hc := mantSplit_complete a (e :: x) hva
        (Or.inr ⟨e, x, rfl, (isE_not_digit_dot e heE).1, (isE_not_digit_dot e heE).2⟩)
      rw [ht, hc]
      simp only [Bool.true_and]
      exact scanExpEnd_E e x heE hx
    | false =>
      simp only [Bool.false_and]
      cases hms : mantSplit t with
      | none => rfl
      | some mr =>
        obtain ⟨m, r⟩ := mr
        obtain ⟨htm, hv⟩ := mantSplit_sound t m r hms
        simp only
        have hmE := validMant_no_E m hv
        cases r with
        | nil =>
          simp at htm; subst htm; rw [hv] at hvt; cases hvt
        | cons c y =>
          cases hce : isE c with
          | false =>
            rw [scanExpEnd_other (c :: y) (by intro c' x' hh; cases hh; exact hce)
              (not_mem_of_append_right htm h)]
            rfl
          | true =>
            -- then m is the part before the first exponent mark, i.e. m = a: contradiction
            exfalso
            have h1 := splitAt_some (fun c => c == 'e' || c == 'E') m c y hmE hce
            rw [← htm, hsp] at h1
            simp only [Prod.mk.injEq, Option.some.injEq] at h1
            rw [h1.1, hv] at hva; cases hva

/-- the numeric-literal pattern (newline-free strings) -/
theorem matchNumericLiteral_eq (s : List Char) (h : '\n' ∉ s) :
    Lex.matchNumericLiteral s =
      (XSD.noDecimalPtNumeral s || XSD.decimalPtNumeral s || XSD.sciNumeral s) := by
  unfold Lex.matchNumericLiteral XSD.noDecimalPtNumeral XSD.decimalPtNumeral XSD.sciNumeral
  rw [scanDec_exp _ (optSign_nl h), ← signed_or, ← signed_or, signed_eq]
  rfl

end EPV.LexLemmas

namespace EPV.LexLemmas
open EPV

/-! ### values of decimal literals -/

/-- the number denoted by a Python Decimal built from a literal: (±int(ip ++ fp)) / 10^len(fp) -/
def pyDecVal (d : Lex.PyDec) : XSD.DecVal :=
  ⟨if d.neg then -(d.coef : Int) else (d.coef : Int), d.scale⟩

theorem validMant_of_digits (a : List Char) (hne : a ≠ []) (h : ∀ c ∈ a, Lex.isDigit c = true) :
    validMant a = true := by
  simp [validMant, unsignedNoDecimalPt_of a hne h]

theorem validMant_of_point (a f : List Char) (ha : ∀ c ∈ a, Lex.isDigit c = true)
    (hf : ∀ c ∈ f, Lex.isDigit c = true) (hne : a ≠ [] ∨ f ≠ []) :
    validMant (a ++ '.' :: f) = true := by
  unfold validMant XSD.unsignedDecimalPt
  rw [splitAt_some (· == '.') a '.' f (digits_no_dot a ha) (by decide)]
  by_cases hae : a = []
  · subst hae
    have hfne : f ≠ [] := by rcases hne with h | h; exact absurd rfl h; exact h
    have : XSD.fracFrag f = true := by
      unfold XSD.fracFrag; rw [(allDigits_iff f).mpr hf]; cases f <;> simp_all
    simp [this]
  · simp [unsignedNoDecimalPt_of a hae ha, fracOk_of f hf]

/-- `Decimal(body)` and the XSD decimalLexicalMap read the same digits (unsigned part) -/
theorem decParts_eq (body : List Char) (h : validMant body = true) :
    Lex.decParts body = XSD.decimalParts body := by
  unfold Lex.decParts XSD.decimalParts
  rcases validMant_shape body h with ⟨_, hd⟩ | ⟨a, f, hb, ha, hf, _⟩
  · have h1 := takeWhile_digits_append body [] hd (Or.inl rfl)
    simp only [List.append_nil] at h1
    rw [h1.1, h1.2, splitAt_none _ body (digits_no_dot body hd)]
  · subst hb
    have h1 := takeWhile_digits_append a ('.' :: f) ha (Or.inr ⟨'.', f, rfl, by decide⟩)
    have h2 := takeWhile_digits_append f [] hf (Or.inl rfl)
    simp only [List.append_nil] at h2
    rw [h1.1, h1.2, splitAt_some _ a '.' f (digits_no_dot a ha) (by decide)]
    simp only [h2.1]

theorem signSplit_eq (t : List Char) :
    Lex.signSplit t = (XSD.isNegative t, XSD.unsignedPart t) ∧ XSD.unsignedPart t = Lex.optSign t := by
  unfold Lex.signSplit XSD.isNegative XSD.unsignedPart Lex.optSign
  split <;> simp_all

/-- the value of the Decimal the constructor builds is the XSD value of the literal
(same numerator, same scale — not only the same number) -/
theorem decOfLex_val (t : List Char) (h : XSD.decimalLex t = true) :
    pyDecVal (Lex.decOfLex t) = XSD.decimalVal t := by
  have hv : validMant (Lex.optSign t) = true := by
    have := h
    unfold XSD.decimalLex XSD.decimalPtNumeral XSD.noDecimalPtNumeral at this
    rw [← signed_or, signed_eq] at this
    unfold validMant; rw [Bool.or_comm]; exact this
  obtain ⟨hs, hu⟩ := signSplit_eq t
  unfold Lex.decOfLex XSD.decimalVal pyDecVal Lex.PyDec.coef Lex.PyDec.scale Lex.digitsVal
  simp only [hs, decParts_eq _ (hu ▸ hv), digitSeqVal_eq]

end EPV.LexLemmas

/-
C10 helper lemmas: xs:time and the year-free gregorian types — the implementation's `[0-9]{2}` fields with the
range checks of `datetime.datetime` against the character-class productions of XSD.
-/
import EPV.Lemmas.LexicalTz
namespace EPV.LexLemmas
open EPV

theorem isDigit_iff (c : Char) : Lex.isDigit c = true ↔ 48 ≤ c.toNat ∧ c.toNat ≤ 57 := by
  constructor
  · exact digit_bounds c
  · intro h
    simp only [Lex.isDigit, Char.isDigit, Bool.and_eq_true, decide_eq_true_eq]
    exact ⟨h.1, h.2⟩

theorem xisDigit_iff (c : Char) : XSD.isDigit c = true ↔ 48 ≤ c.toNat ∧ c.toNat ≤ 57 := by
  rw [← isDigit_eq]; exact isDigit_iff c

theorem eq_lit_iff (c d : Char) : (c == d) = true ↔ c.toNat = d.toNat := by
  rw [beq_iff_eq]
  exact ⟨fun h => by rw [h], char_eq_of_toNat c d⟩

theorem le_iff (a b : Char) : a ≤ b ↔ a.toNat ≤ b.toNat := by
  simp only [Char.le_def, UInt32.le_iff_toNat_le]; rfl

theorem range_iff (c lo hi : Char) : (lo ≤ c && c ≤ hi) = true ↔ lo.toNat ≤ c.toNat ∧ c.toNat ≤ hi.toNat := by
  simp only [Bool.and_eq_true, decide_eq_true_eq, Char.le_def, UInt32.le_iff_toNat_le]
  rfl

theorem twoVal_eq (a b : Char) :
    Lex.twoVal a b = if Lex.isDigit a && Lex.isDigit b then some (XSD.fragVal a b) else none := by
  unfold Lex.twoVal XSD.fragVal Lex.digitsVal
  split
  · simp only [Nat.ofDigitChars_cons, Nat.ofDigitChars_nil, Char.reduceToNat]
    congr 1; omega
  · rfl

/-- both digits and the value in `lo..hi` -/
def inRange (a b : Char) (lo hi : Nat) : Bool :=
  Lex.isDigit a && Lex.isDigit b && decide (lo ≤ XSD.fragVal a b) && decide (XSD.fragVal a b ≤ hi)

theorem day_ok (a b : Char) : inRange a b 1 31 = XSD.dayFragOk a b := by
  rw [Bool.eq_iff_iff]
  simp only [inRange, XSD.dayFragOk, Bool.and_eq_true, Bool.or_eq_true, decide_eq_true_eq,
    isDigit_iff, xisDigit_iff, eq_lit_iff, le_iff, Char.reduceToNat]
  simp only [XSD.fragVal]
  omega

theorem month_ok (a b : Char) : inRange a b 1 12 = XSD.monthFragOk a b := by
  rw [Bool.eq_iff_iff]
  simp only [inRange, XSD.monthFragOk, Bool.and_eq_true, Bool.or_eq_true, decide_eq_true_eq,
    isDigit_iff, xisDigit_iff, eq_lit_iff, le_iff, Char.reduceToNat]
  simp only [XSD.fragVal]
  omega

theorem hour_ok (a b : Char) : inRange a b 0 23 = XSD.hourFragOk a b := by
  rw [Bool.eq_iff_iff]
  simp only [inRange, XSD.hourFragOk, Bool.and_eq_true, Bool.or_eq_true, decide_eq_true_eq,
    isDigit_iff, xisDigit_iff, eq_lit_iff, le_iff, Char.reduceToNat]
  simp only [XSD.fragVal]
  omega

theorem minute_ok (a b : Char) : inRange a b 0 59 = XSD.minuteFragOk a b := by
  rw [Bool.eq_iff_iff]
  simp only [inRange, XSD.minuteFragOk, Bool.and_eq_true, Bool.or_eq_true, decide_eq_true_eq,
    isDigit_iff, xisDigit_iff, eq_lit_iff, le_iff, Char.reduceToNat]
  simp only [XSD.fragVal]
  omega

theorem val_eq_iff (a b x y : Char) (hx : 48 ≤ x.toNat ∧ x.toNat ≤ 57) (hy : 48 ≤ y.toNat ∧ y.toNat ≤ 57) :
    (Lex.isDigit a && Lex.isDigit b && decide (XSD.fragVal a b = XSD.fragVal x y)) = (a == x && b == y) := by
  rw [Bool.eq_iff_iff]
  simp only [Bool.and_eq_true, decide_eq_true_eq, isDigit_iff, eq_lit_iff]
  simp only [XSD.fragVal]
  omega

theorem days_eq (m : Nat) (h1 : 1 ≤ m) (h2 : m ≤ 12) : Lex.daysIn2000 m = XSD.maxDay m := by
  have : m = 1 ∨ m = 2 ∨ m = 3 ∨ m = 4 ∨ m = 5 ∨ m = 6 ∨ m = 7 ∨ m = 8 ∨ m = 9 ∨ m = 10 ∨ m = 11 ∨ m = 12 := by omega
  rcases this with h | h | h | h | h | h | h | h | h | h | h | h <;> subst h <;> rfl

theorem tzOpt_eq (r : List Char) : Lex.tzOpt r = XSD.tzSuffix? r := by
  cases r with
  | nil => rfl
  | cons c t => simp only [Lex.tzOpt, XSD.tzSuffix?, tzParse_eq_lookup]

theorem readFraction_eq (r : List Char) : Lex.readFraction r = XSD.fraction? r := by
  have : Lex.isDigit = XSD.isDigit := funext isDigit_eq
  unfold Lex.readFraction XSD.fraction?
  split <;> simp [this]

/-- spec value ↦ model value: the fraction is cut / padded to microseconds -/
def toDT (g : XSD.GVal) : Lex.DTVal :=
  { month := g.month, day := g.day, hour := g.hour, minute := g.minute, second := g.second,
    micro := Lex.microOf g.frac, tz := g.tz }

theorem microOf_nil : Lex.microOf [] = 0 := by decide

theorem twoVal_cases (a b : Char) :
    (Lex.twoVal a b = none ∧ ∀ lo hi, inRange a b lo hi = false) ∨
    (Lex.twoVal a b = some (XSD.fragVal a b) ∧
      ∀ lo hi, inRange a b lo hi = (decide (lo ≤ XSD.fragVal a b) && decide (XSD.fragVal a b ≤ hi))) := by
  rw [twoVal_eq]
  unfold inRange
  cases Lex.isDigit a <;> cases Lex.isDigit b <;> simp

theorem gDay_eq (s : List Char) : Lex.parseGDay s = (XSD.gDayLex s).map toDT := by
  by_cases hsh : ∃ a b r, s = '-' :: '-' :: '-' :: a :: b :: r
  · obtain ⟨a, b, r, rfl⟩ := hsh
    rw [Lex.parseGDay.eq_1, XSD.gDayLex.eq_1]
    rw [← day_ok, tzOpt_eq]
    rcases twoVal_cases a b with ⟨h1, h2⟩ | ⟨h1, h2⟩
    · simp [h1, h2]
    · rw [h1, h2]
      cases XSD.tzSuffix? r with
      | none => simp
      | some tz =>
        by_cases hc : 1 ≤ XSD.fragVal a b ∧ XSD.fragVal a b ≤ 31
        · simp [hc, toDT, microOf_nil]
        · have : (decide (1 ≤ XSD.fragVal a b) && decide (XSD.fragVal a b ≤ 31)) = false := by
            simp only [Bool.and_eq_false_iff, decide_eq_false_iff_not]; omega
          simp [hc, this]
  · have hno : ∀ a b r, s = '-' :: '-' :: '-' :: a :: b :: r → False := fun a b r e => hsh ⟨a, b, r, e⟩
    rw [Lex.parseGDay.eq_2 s hno, XSD.gDayLex.eq_2 s hno]; rfl

theorem gMonth_eq (s : List Char) : Lex.parseGMonth s = (XSD.gMonthLex s).map toDT := by
  by_cases hsh : ∃ a b r, s = '-' :: '-' :: a :: b :: r
  · obtain ⟨a, b, r, rfl⟩ := hsh
    rw [Lex.parseGMonth.eq_1, XSD.gMonthLex.eq_1]
    rw [← month_ok, tzOpt_eq]
    rcases twoVal_cases a b with ⟨h1, h2⟩ | ⟨h1, h2⟩
    · simp [h1, h2]
    · rw [h1, h2]
      cases XSD.tzSuffix? r with
      | none => simp
      | some tz =>
        by_cases hc : 1 ≤ XSD.fragVal a b ∧ XSD.fragVal a b ≤ 12
        · simp [hc, toDT, microOf_nil]
        · have : (decide (1 ≤ XSD.fragVal a b) && decide (XSD.fragVal a b ≤ 12)) = false := by
            simp only [Bool.and_eq_false_iff, decide_eq_false_iff_not]; omega
          simp [hc, this]
  · have hno : ∀ a b r, s = '-' :: '-' :: a :: b :: r → False := fun a b r e => hsh ⟨a, b, r, e⟩
    rw [Lex.parseGMonth.eq_2 s hno, XSD.gMonthLex.eq_2 s hno]; rfl

theorem gMonthDay_eq (s : List Char) : Lex.parseGMonthDay s = (XSD.gMonthDayLex s).map toDT := by
  by_cases hsh : ∃ a b c d r, s = '-' :: '-' :: a :: b :: '-' :: c :: d :: r
  · obtain ⟨a, b, c, d, r, rfl⟩ := hsh
    rw [Lex.parseGMonthDay.eq_1, XSD.gMonthDayLex.eq_1]
    rw [← month_ok, ← day_ok, tzOpt_eq]
    rcases twoVal_cases a b with ⟨h1, h2⟩ | ⟨h1, h2⟩
    · simp [h1, h2]
    · rcases twoVal_cases c d with ⟨h3, h4⟩ | ⟨h3, h4⟩
      · simp [h1, h3, h4]
      · rw [h1, h2, h3, h4]
        cases XSD.tzSuffix? r with
        | none => simp
        | some tz =>
          by_cases hm : 1 ≤ XSD.fragVal a b ∧ XSD.fragVal a b ≤ 12
          · have hdm := days_eq _ hm.1 hm.2
            have hmax : XSD.maxDay (XSD.fragVal a b) ≤ 31 := by
              unfold XSD.maxDay; split <;> (try split) <;> omega
            by_cases hd : 1 ≤ XSD.fragVal c d ∧ XSD.fragVal c d ≤ XSD.maxDay (XSD.fragVal a b)
            · have h31 : XSD.fragVal c d ≤ 31 := by omega
              simp [hm, hd, hdm, h31, toDT, microOf_nil]
            · have : ¬ (1 ≤ XSD.fragVal a b ∧ XSD.fragVal a b ≤ 12 ∧ 1 ≤ XSD.fragVal c d ∧
                  XSD.fragVal c d ≤ Lex.daysIn2000 (XSD.fragVal a b)) := by rw [hdm]; omega
              simp only [this, ↓reduceIte]
              by_cases h1' : 1 ≤ XSD.fragVal c d
              · have : ¬ XSD.fragVal c d ≤ XSD.maxDay (XSD.fragVal a b) := by omega
                simp [this]
              · simp [h1']
          · have : ¬ (1 ≤ XSD.fragVal a b ∧ XSD.fragVal a b ≤ 12 ∧ 1 ≤ XSD.fragVal c d ∧
                XSD.fragVal c d ≤ Lex.daysIn2000 (XSD.fragVal a b)) := by omega
            have h2' : (decide (1 ≤ XSD.fragVal a b) && decide (XSD.fragVal a b ≤ 12)) = false := by
              simp only [Bool.and_eq_false_iff, decide_eq_false_iff_not]; omega
            simp [this, h2']
  · have hno : ∀ a b c d r, s = '-' :: '-' :: a :: b :: '-' :: c :: d :: r → False :=
      fun a b c d r e => hsh ⟨a, b, c, d, r, e⟩
    rw [Lex.parseGMonthDay.eq_2 s hno, XSD.gMonthDayLex.eq_2 s hno]; rfl

theorem frag24 : XSD.fragVal '2' '4' = 24 := by decide
theorem frag00 : XSD.fragVal '0' '0' = 0 := by decide

theorem is24 (a b : Char) :
    (a == '2' && b == '4') = (Lex.isDigit a && Lex.isDigit b && decide (XSD.fragVal a b = 24)) := by
  have := val_eq_iff a b '2' '4' (by decide) (by decide)
  rw [frag24] at this; exact this.symm

theorem is00 (a b : Char) :
    (a == '0' && b == '0') = (Lex.isDigit a && Lex.isDigit b && decide (XSD.fragVal a b = 0)) := by
  have := val_eq_iff a b '0' '0' (by decide) (by decide)
  rw [frag00] at this; exact this.symm

theorem time_eq (s : List Char) : Lex.parseTime s = (XSD.timeLex s).map toDT := by
  by_cases hsh : ∃ a b c d e f r, s = a :: b :: ':' :: c :: d :: ':' :: e :: f :: r
  · obtain ⟨a, b, c, d, e, f, r, rfl⟩ := hsh
    rw [Lex.parseTime.eq_1, XSD.timeLex.eq_1, readFraction_eq]
    cases hfr : XSD.fraction? r with
    | none =>
      cases Lex.twoVal a b <;> cases Lex.twoVal c d <;> cases Lex.twoVal e f <;> rfl
    | some p =>
      obtain ⟨fs, r'⟩ := p
      simp only [tzOpt_eq]
      have e00 : (c == '0' && d == '0' && e == '0' && f == '0') = ((c == '0' && d == '0') && (e == '0' && f == '0')) := by
        simp [Bool.and_assoc]
      rw [Bool.and_assoc (c == '0' && d == '0' && e == '0'), ]
      rw [show (c == '0' && d == '0' && e == '0' && (f == '0' && fs.all (· == '0'))) =
            ((c == '0' && d == '0') && (e == '0' && f == '0') && fs.all (· == '0')) by simp [Bool.and_assoc]]
      rw [is24 a b, is00 c d, is00 e f, ← hour_ok, ← minute_ok, ← minute_ok]
      rcases twoVal_cases a b with ⟨h1, h2⟩ | ⟨h1, h2⟩
      · -- hour field not two digits
        rw [twoVal_eq] at h1
        have hd : (Lex.isDigit a && Lex.isDigit b) = false := by
          cases hh : (Lex.isDigit a && Lex.isDigit b) with
          | false => rfl
          | true => rw [hh] at h1; simp at h1
        rw [twoVal_eq, hd]
        simp [hd, h2]
      · rcases twoVal_cases c d with ⟨h3, h4⟩ | ⟨h3, h4⟩
        · rw [twoVal_eq] at h3
          have hd : (Lex.isDigit c && Lex.isDigit d) = false := by
            cases hh : (Lex.isDigit c && Lex.isDigit d) with
            | false => rfl
            | true => rw [hh] at h3; simp at h3
          rw [h1, twoVal_eq (a := c), hd]
          simp [hd, h4]
        · rcases twoVal_cases e f with ⟨h5, h6⟩ | ⟨h5, h6⟩
          · rw [twoVal_eq] at h5
            have hd : (Lex.isDigit e && Lex.isDigit f) = false := by
              cases hh : (Lex.isDigit e && Lex.isDigit f) with
              | false => rfl
              | true => rw [hh] at h5; simp at h5
            rw [h1, h3, twoVal_eq (a := e), hd]
            simp [hd, h6]
          · -- all three fields are two digits
            have dab : (Lex.isDigit a && Lex.isDigit b) = true := by
              rw [twoVal_eq] at h1; cases hh : (Lex.isDigit a && Lex.isDigit b) <;> simp_all
            have dcd : (Lex.isDigit c && Lex.isDigit d) = true := by
              rw [twoVal_eq] at h3; cases hh : (Lex.isDigit c && Lex.isDigit d) <;> simp_all
            have def' : (Lex.isDigit e && Lex.isDigit f) = true := by
              rw [twoVal_eq] at h5; cases hh : (Lex.isDigit e && Lex.isDigit f) <;> simp_all
            rw [h1, h3, h5, h2, h4, h6, dab, dcd, def']
            simp only [Bool.true_and, Nat.zero_le, decide_true]
            cases htz : XSD.tzSuffix? r' with
            | none =>
              by_cases h24 : XSD.fragVal a b = 24
              · simp [h24]
              · simp [h24]
            | some tz =>
              by_cases h24 : XSD.fragVal a b = 24
              · simp only [h24, beq_self_eq_true, ↓reduceIte, decide_true, Bool.true_and]
                by_cases hz : XSD.fragVal c d = 0 ∧ XSD.fragVal e f = 0 ∧ fs.all (· == '0') = true
                · simp [hz.1, hz.2.1, hz.2.2, toDT, microOf_nil]
                · have : (XSD.fragVal c d == 0 && XSD.fragVal e f == 0 && fs.all (· == '0')) = false := by
                    simp only [Bool.and_eq_false_iff, beq_eq_false_iff_ne]
                    by_cases x1 : XSD.fragVal c d = 0
                    · by_cases x2 : XSD.fragVal e f = 0
                      · right; cases hx : fs.all (· == '0') with
                        | false => rfl
                        | true => exact absurd ⟨x1, x2, hx⟩ hz
                      · left; right; exact x2
                    · left; left; exact x1
                  have this2 : (decide (XSD.fragVal c d = 0) && decide (XSD.fragVal e f = 0) && fs.all (· == '0')) = false := by
                    simpa [beq_iff_eq] using this
                  simp [this, this2]
              · have hne : (XSD.fragVal a b == 24) = false := by simpa using h24
                simp only [hne, Bool.false_eq_true, ↓reduceIte, h24, decide_false, Bool.false_and]
                by_cases hr : XSD.fragVal a b ≤ 23 ∧ XSD.fragVal c d ≤ 59 ∧ XSD.fragVal e f ≤ 59
                · simp [hr, toDT]
                · have : (decide (XSD.fragVal a b ≤ 23) && decide (XSD.fragVal c d ≤ 59) && decide (XSD.fragVal e f ≤ 59)) = false := by
                    simp only [Bool.and_eq_false_iff, decide_eq_false_iff_not]; omega
                  simp [hr, this]
  · have hno : ∀ a b c d e f r, s = a :: b :: ':' :: c :: d :: ':' :: e :: f :: r → False :=
      fun a b c d e f r e' => hsh ⟨a, b, c, d, e, f, r, e'⟩
    rw [Lex.parseTime.eq_2 s hno, XSD.timeLex.eq_2 s hno]; rfl

/-- the four kinds together -/
def specOf : Lex.GKind → List Char → Option XSD.GVal
  | .gDay => XSD.gDayLex
  | .gMonth => XSD.gMonthLex
  | .gMonthDay => XSD.gMonthDayLex
  | .time => XSD.timeLex

theorem gParse_eq (k : Lex.GKind) (s : List Char) : Lex.gParse k s = (specOf k s).map toDT := by
  cases k
  · exact gDay_eq s
  · exact gMonth_eq s
  · exact gMonthDay_eq s
  · exact time_eq s

end EPV.LexLemmas

/-
C10 helper lemmas: xs:time and the year-free gregorian types — the implementation's `[0-9]{2}` fields with the
range checks of `datetime.datetime` against the character-class productions of XSD.
-/
import EPV.Lemmas.LexicalTz
namespace EPV.LexLemmas
open EPV

theorem isDigit_iff (c : Char) : Lex.isDigit c = true ↔ 48 ≤ c.toNat ∧ c.toNat ≤ 57 := by
  constructor
  · exact digit_bounds c
  · intro h
    simp only [Lex.isDigit, Char.isDigit, Bool.and_eq_true, decide_eq_true_eq]
    exact ⟨h.1, h.2⟩

theorem xisDigit_iff (c : Char) : XSD.isDigit c = true ↔ 48 ≤ c.toNat ∧ c.toNat ≤ 57 := by
  rw [← isDigit_eq]; exact isDigit_iff c

theorem eq_lit_iff (c d : Char) : (c == d) = true ↔ c.toNat = d.toNat := by
  rw [beq_iff_eq]
  exact ⟨fun h => by rw [h], char_eq_of_toNat c d⟩

theorem le_iff (a b : Char) : a ≤ b ↔ a.toNat ≤ b.toNat := by
  simp only [Char.le_def, UInt32.le_iff_toNat_le]; rfl

theorem range_iff (c lo hi : Char) : (lo ≤ c && c ≤ hi) = true ↔ lo.toNat ≤ c.toNat ∧ c.toNat ≤ hi.toNat := by
  simp only [Bool.and_eq_true, decide_eq_true_eq, Char.le_def, UInt32.le_iff_toNat_le]
  rfl

theorem twoVal_eq (a b : Char) :
    Lex.twoVal a b = if Lex.isDigit a && Lex.isDigit b then some (XSD.fragVal a b) else none := by
  unfold Lex.twoVal XSD.fragVal Lex.digitsVal
  split
  · simp only [Nat.ofDigitChars_cons, Nat.ofDigitChars_nil, Char.reduceToNat]
    congr 1; omega
  · rfl

/-- both digits and the value in `lo..hi` -/
def inRange (a b : Char) (lo hi : Nat) : Bool :=
  Lex.isDigit a && Lex.isDigit b && decide (lo ≤ XSD.fragVal a b) && decide (XSD.fragVal a b ≤ hi)

theorem day_ok (a b : Char) : inRange a b 1 31 = XSD.dayFragOk a b := by
  rw [Bool.eq_iff_iff]
  simp only [inRange, XSD.dayFragOk, Bool.and_eq_true, Bool.or_eq_true, decide_eq_true_eq,
    isDigit_iff, xisDigit_iff, eq_lit_iff, le_iff, Char.reduceToNat]
  simp only [XSD.fragVal]
  omega

theorem month_ok (a b : Char) : inRange a b 1 12 = XSD.monthFragOk a b := by
  rw [Bool.eq_iff_iff]
  simp only [inRange, XSD.monthFragOk, Bool.and_eq_true, Bool.or_eq_true, decide_eq_true_eq,
    isDigit_iff, xisDigit_iff, eq_lit_iff, le_iff, Char.reduceToNat]
  simp only [XSD.fragVal]
  omega

theorem hour_ok (a b : Char) : inRange a b 0 23 = XSD.hourFragOk a b := by
  rw [Bool.eq_iff_iff]
  simp only [inRange, XSD.hourFragOk, Bool.and_eq_true, Bool.or_eq_true, decide_eq_true_eq,
    isDigit_iff, xisDigit_iff, eq_lit_iff, le_iff, Char.reduceToNat]
  simp only [XSD.fragVal]
  omega

theorem minute_ok (a b : Char) : inRange a b 0 59 = XSD.minuteFragOk a b := by
  rw [Bool.eq_iff_iff]
  simp only [inRange, XSD.minuteFragOk, Bool.and_eq_true, Bool.or_eq_true, decide_eq_true_eq,
    isDigit_iff, xisDigit_iff, eq_lit_iff, le_iff, Char.reduceToNat]
  simp only [XSD.fragVal]
  omega

theorem val_eq_iff (a b x y : Char) (hx : 48 ≤ x.toNat ∧ x.toNat ≤ 57) (hy : 48 ≤ y.toNat ∧ y.toNat ≤ 57) :
    (Lex.isDigit a && Lex.isDigit b && decide (XSD.fragVal a b = XSD.fragVal x y)) = (a == x && b == y) := by
  rw [Bool.eq_iff_iff]
  simp only [Bool.and_eq_true, decide_eq_true_eq, isDigit_iff, eq_lit_iff]
  simp only [XSD.fragVal]
  omega

theorem days_eq (m : Nat) (h1 : 1 ≤ m) (h2 : m ≤ 12) : Lex.daysIn2000 m = XSD.maxDay m := by
  have : m = 1 ∨ m = 2 ∨ m = 3 ∨ m = 4 ∨ m = 5 ∨ m = 6 ∨ m = 7 ∨ m = 8 ∨ m = 9 ∨ m = 10 ∨ m = 11 ∨ m = 12 := by omega
  rcases this with h | h | h | h | h | h | h | h | h | h | h | h <;> subst h <;> rfl

theorem tzOpt_eq (r : List Char) : Lex.tzOpt r = XSD.tzSuffix? r := by
  cases r with
  | nil => rfl
  | cons c t => simp only [Lex.tzOpt, XSD.tzSuffix?, tzParse_eq_lookup]

theorem readFraction_eq (r : List Char) : Lex.readFraction r = XSD.fraction? r := by
  have : Lex.isDigit = XSD.isDigit := funext isDigit_eq
  unfold Lex.readFraction XSD.fraction?
  split <;> simp [this]

/-- spec value ↦ model value: the fraction is cut / padded to microseconds -/
def toDT (g : XSD.GVal) : Lex.DTVal :=
  { month := g.month, day := g.day, hour := g.hour, minute := g.minute, second := g.second,
    micro := Lex.microOf g.frac, tz := g.tz }

end EPV.LexLemmas

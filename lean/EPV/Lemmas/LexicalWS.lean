/-
C10 helper lemmas: white-space collapse of the model (`Lex.collapse`, Python regex + strip) versus the
XSD definition (`XSD.wsCollapse`: replace, squeeze, trim).
-/
import EPV.Model.Lexical
import EPV.Spec.XSDLexical
namespace EPV.LexLemmas
open EPV

/-- XSD white space is white space for the implementation -/
theorem xsdWhite_pyWhite (c : Char) (h : XSD.isXsdWhite c = true) : Lex.isPyWhite c = true := by
  simp only [XSD.isXsdWhite, Bool.or_eq_true, beq_iff_eq] at h
  rcases h with ((h | h) | h) | h <;> subst h <;> decide

theorem squeeze_cons_ne (c : Char) (t : List Char) (h : c ≠ ' ') :
    XSD.squeeze (c :: t) = c :: XSD.squeeze t := by
  cases t with
  | nil => simp [XSD.squeeze]
  | cons d r => simp [XSD.squeeze, h]

theorem squeeze_sp_sp (t : List Char) : XSD.squeeze (' ' :: ' ' :: t) = XSD.squeeze (' ' :: t) := by
  simp [XSD.squeeze]

/-- the hypothesis of the partial theorems: no character of `s` is white for Python but not for XSD
(decidable: `noPyOnlyWhite s`) -/
def noPyOnlyWhite (s : List Char) : Bool := s.all fun c => !Lex.isPyWhite c || XSD.isXsdWhite c

theorem subWhite_eq_squeeze (s : List Char) (h : noPyOnlyWhite s = true) :
    Lex.subWhite false s = XSD.squeeze (XSD.wsReplace s) ∧
    ' ' :: Lex.subWhite true s = XSD.squeeze (' ' :: XSD.wsReplace s) := by
  induction s with
  | nil => simp [Lex.subWhite, XSD.wsReplace, XSD.squeeze]
  | cons c cs ih =>
    have hc : (!Lex.isPyWhite c || XSD.isXsdWhite c) = true := by
      simp only [noPyOnlyWhite, List.all_cons, Bool.and_eq_true] at h; exact h.1
    have hcs : noPyOnlyWhite cs = true := by
      simp only [noPyOnlyWhite, List.all_cons, Bool.and_eq_true] at h; exact h.2
    obtain ⟨ihA, ihB⟩ := ih hcs
    by_cases hw : XSD.isXsdWhite c = true
    · have hp := xsdWhite_pyWhite c hw
      have hr : XSD.wsReplace (c :: cs) = ' ' :: XSD.wsReplace cs := by simp [XSD.wsReplace, hw]
      constructor
      · rw [hr, ← ihB]; simp [Lex.subWhite, hp]
      · rw [hr, squeeze_sp_sp, ← ihB]; simp [Lex.subWhite, hp]
    · have hp : Lex.isPyWhite c = false := by
        cases hpw : Lex.isPyWhite c with
        | false => rfl
        | true => simp [hpw] at hc; exact absurd hc hw
      have hne : c ≠ ' ' := by
        intro e; subst e; exact hw (by decide)
      have hr : XSD.wsReplace (c :: cs) = c :: XSD.wsReplace cs := by simp [XSD.wsReplace, hw]
      constructor
      · rw [hr, squeeze_cons_ne c _ hne, ← ihA]; simp [Lex.subWhite, hp]
      · rw [hr]
        have : XSD.squeeze (' ' :: c :: XSD.wsReplace cs) = ' ' :: XSD.squeeze (c :: XSD.wsReplace cs) := by
          simp [XSD.squeeze, hne]
        rw [this, squeeze_cons_ne c _ hne, ← ihA]; simp [Lex.subWhite, hp]

/-- On strings whose only white characters are XSD white space the implementation's
`collapse_white_spaces` is the XSD whiteSpace=collapse normalisation. -/
theorem collapse_eq_wsCollapse (s : List Char) (h : noPyOnlyWhite s = true) :
    Lex.collapse s = XSD.wsCollapse s := by
  unfold Lex.collapse XSD.wsCollapse
  rw [(subWhite_eq_squeeze s h).1]
  rfl

/-- every character of `subWhite` output is a space or a non-white character of the input -/
theorem mem_subWhite (b : Bool) (s : List Char) (c : Char) (h : c ∈ Lex.subWhite b s) :
    c = ' ' ∨ (c ∈ s ∧ Lex.isPyWhite c = false) := by
  induction s generalizing b with
  | nil => simp [Lex.subWhite] at h
  | cons d ds ih =>
    unfold Lex.subWhite at h
    split at h
    · split at h
      · rcases ih _ h with h | h
        · exact Or.inl h
        · exact Or.inr ⟨List.mem_cons_of_mem _ h.1, h.2⟩
      · rcases List.mem_cons.mp h with h | h
        · exact Or.inl h
        · rcases ih _ h with h | h
          · exact Or.inl h
          · exact Or.inr ⟨List.mem_cons_of_mem _ h.1, h.2⟩
    · rename_i hd
      rcases List.mem_cons.mp h with h | h
      · subst h; exact Or.inr ⟨List.mem_cons_self, by simpa using hd⟩
      · rcases ih _ h with h | h
        · exact Or.inl h
        · exact Or.inr ⟨List.mem_cons_of_mem _ h.1, h.2⟩

theorem mem_stripSp (s : List Char) (c : Char) (h : c ∈ Lex.stripSp s) : c ∈ s := by
  unfold Lex.stripSp at h
  have h1 := List.mem_reverse.mp h
  have h2 := (List.dropWhile_sublist _).mem h1
  have h3 := List.mem_reverse.mp h2
  exact (List.dropWhile_sublist _).mem h3

/-- the collapsed string contains no white character other than the space — in particular no '\n',
so Python's `$` (which also matches before a final newline) behaves like end-of-string on it -/
theorem collapse_no_white (s : List Char) (c : Char) (h : c ∈ Lex.collapse s) :
    c = ' ' ∨ Lex.isPyWhite c = false := by
  rcases mem_subWhite _ _ _ (mem_stripSp _ _ h) with h | h
  · exact Or.inl h
  · exact Or.inr h.2

theorem collapse_no_nl (s : List Char) : '\n' ∉ Lex.collapse s := by
  intro h
  rcases collapse_no_white s _ h with h | h
  · exact absurd h (by decide)
  · exact absurd h (by decide)

theorem subWhite_of_no_white (b : Bool) (s : List Char) (h : ∀ c ∈ s, Lex.isPyWhite c = false) :
    Lex.subWhite b s = s := by
  induction s generalizing b with
  | nil => rfl
  | cons c cs ih =>
    have hc := h c List.mem_cons_self
    simp only [Lex.subWhite, hc, Bool.false_eq_true, ↓reduceIte]
    rw [ih false (fun x hx => h x (List.mem_cons_of_mem _ hx))]

theorem dropWhile_sp_of_no_sp (s : List Char) (h : ' ' ∉ s) : s.dropWhile (· == ' ') = s := by
  cases s with
  | nil => rfl
  | cons c cs =>
    have : c ≠ ' ' := fun e => h (by simp [e])
    simp [List.dropWhile_cons, this]

theorem stripSp_of_no_sp (s : List Char) (h : ' ' ∉ s) : Lex.stripSp s = s := by
  unfold Lex.stripSp
  rw [dropWhile_sp_of_no_sp s h, dropWhile_sp_of_no_sp s.reverse (by simpa using h)]
  simp

/-- a string without white characters is its own collapse -/
theorem collapse_of_no_white (s : List Char) (h : ∀ c ∈ s, Lex.isPyWhite c = false) :
    Lex.collapse s = s := by
  unfold Lex.collapse
  rw [subWhite_of_no_white false s h]
  exact stripSp_of_no_sp s (fun hm => by have := h _ hm; exact absurd this (by decide))

end EPV.LexLemmas

/-
C10 helper lemmas: white-space collapse of the model (`Lex.collapse`, Python regex + strip) versus the
XSD definition (`XSD.wsCollapse`: replace, squeeze, trim).
-/
import EPV.Model.Lexical
import EPV.Spec.XSDLexical
namespace EPV.LexLemmas
open EPV

/-- XSD white space is white space for the implementation -/
theorem xsdWhite_pyWhite (c : Char) (h : XSD.isXsdWhite c = true) : Lex.isPyWhite c = true := by
  simp only [XSD.isXsdWhite, Bool.or_eq_true, beq_iff_eq] at h
  rcases h with ((h | h) | h) | h <;> subst h <;> decide

theorem squeeze_cons_ne (c : Char) (t : List Char) (h : c ≠ ' ') :
    XSD.squeeze (c :: t) = c :: XSD.squeeze t := by
  cases t with
  | nil => simp [XSD.squeeze]
  | cons d r => simp [XSD.squeeze, h]

theorem squeeze_sp_sp (t : List Char) : XSD.squeeze (' ' :: ' ' :: t) = XSD.squeeze (' ' :: t) := by
  simp [XSD.squeeze]

/-- the hypothesis of the partial theorems: no character of `s` is white for Python but not for XSD
(decidable: `noPyOnlyWhite s`) -/
def noPyOnlyWhite (s : List Char) : Bool := s.all fun c => !Lex.isPyWhite c || XSD.isXsdWhite c

theorem subWhite_eq_squeeze (s : List Char) (h : noPyOnlyWhite s = true) :
    Lex.subWhite false s = XSD.squeeze (XSD.wsReplace s) ∧
    ' ' :: Lex.subWhite true s = XSD.squeeze (' ' :: XSD.wsReplace s) := by
  induction s with
  | nil => simp [Lex.subWhite, XSD.wsReplace, XSD.squeeze]
  | cons c cs ih =>
    have hc : (!Lex.isPyWhite c || XSD.isXsdWhite c) = true := by
      simp only [noPyOnlyWhite, List.all_cons, Bool.and_eq_true] at h; exact h.1
    have hcs : noPyOnlyWhite cs = true := by
      simp only [noPyOnlyWhite, List.all_cons, Bool.and_eq_true] at h; exact h.2
    obtain ⟨ihA, ihB⟩ := ih hcs
    by_cases hw : XSD.isXsdWhite c = true
    · have hp := xsdWhite_pyWhite c hw
      have hr : XSD.wsReplace (c :: cs) = ' ' :: XSD.wsReplace cs := by simp [XSD.wsReplace, hw]
      constructor
      · rw [hr, ← ihB]; simp [Lex.subWhite, hp]
      · rw [hr, squeeze_sp_sp, ← ihB]; simp [Lex.subWhite, hp]
    · have hp : Lex.isPyWhite c = false := by
        cases hpw : Lex.isPyWhite c with
        | false => rfl
        | true => simp [hpw] at hc; exact absurd hc hw
      have hne : c ≠ ' ' := by
        intro e; subst e; exact hw (by decide)
      have hr : XSD.wsReplace (c :: cs) = c :: XSD.wsReplace cs := by simp [XSD.wsReplace, hw]
      constructor
      · rw [hr, squeeze_cons_ne c _ hne, ← ihA]; simp [Lex.subWhite, hp]
      · rw [hr]
        have : XSD.squeeze (' ' :: c :: XSD.wsReplace cs) = ' ' :: XSD.squeeze (c :: XSD.wsReplace cs) := by
          simp [XSD.squeeze, hne]
        rw [this, squeeze_cons_ne c _ hne, ← ihA]; simp [Lex.subWhite, hp]

/-- On strings whose only white characters are XSD white space the implementation's
`collapse_white_spaces` is the XSD whiteSpace=collapse normalisation. -/
theorem collapse_eq_wsCollapse (s : List Char) (h : noPyOnlyWhite s = true) :
    Lex.collapse s = XSD.wsCollapse s := by
  unfold Lex.collapse XSD.wsCollapse
  rw [(subWhite_eq_squeeze s h).1]
  rfl

/-- every character of `subWhite` output is a space or a non-white character of the input -/
theorem mem_subWhite (b : Bool) (s : List Char) (c : Char) (h : c ∈ Lex.subWhite b s) :
    c = ' ' ∨ (c ∈ s ∧ Lex.isPyWhite c = false) := by
  induction s generalizing b with
  | nil => simp [Lex.subWhite] at h
  | cons d ds ih =>
    unfold Lex.subWhite at h
    split at h
    · split at h
      · rcases ih _ h with h | h
        · exact Or.inl h
        · exact Or.inr ⟨List.mem_cons_of_mem _ h.1, h.2⟩
      · rcases List.mem_cons.mp h with h | h
        · exact Or.inl h
        · rcases ih _ h with h | h
          · exact Or.inl h
          · exact Or.inr ⟨List.mem_cons_of_mem _ h.1, h.2⟩
    · rename_i hd
      rcases List.mem_cons.mp h with h | h
      · subst h; exact Or.inr ⟨List.mem_cons_self, by simpa using hd⟩
      · rcases ih _ h with h | h
        · exact Or.inl h
        · exact Or.inr ⟨List.mem_cons_of_mem _ h.1, h.2⟩

theorem mem_stripSp (s : List Char) (c : Char) (h : c ∈ Lex.stripSp s) : c ∈ s := by
  unfold Lex.stripSp at h
  have h1 := List.mem_reverse.mp h
  have h2 := (List.dropWhile_sublist _).mem h1
  have h3 := List.mem_reverse.mp h2
  exact (List.dropWhile_sublist _).mem h3

/-- the collapsed string contains no white character other than the space — in particular no '\n',
so Python's `$` (which also matches before a final newline) behaves like end-of-string on it -/
theorem collapse_no_white (s : List Char) (c : Char) (h : c ∈ Lex.collapse s) :
    c = ' ' ∨ Lex.isPyWhite c = false := by
  rcases mem_subWhite _ _ _ (mem_stripSp _ _ h) with h | h
  · exact Or.inl h
  · exact Or.inr h.2

theorem collapse_no_nl (s : List Char) : '\n' ∉ Lex.collapse s := by
  intro h
  rcases collapse_no_white s _ h with h | h
  · exact absurd h (by decide)
  · exact absurd h (by decide)

theorem subWhite_of_no_white (b : Bool) (s : List Char) (h : ∀ c ∈ s, Lex.isPyWhite c = false) :
    Lex.subWhite b s = s := by
  induction s generalizing b with
  | nil => rfl
  | cons c cs ih =>
    have hc := h c List.mem_cons_self
    simp only [Lex.subWhite, hc, Bool.false_eq_true, ↓reduceIte]
    rw [ih false (fun x hx => h x (List.mem_cons_of_mem _ hx))]

theorem dropWhile_sp_of_no_sp (s : List Char) (h : ' ' ∉ s) : s.dropWhile (· == ' ') = s := by
  cases s with
  | nil => rfl
  | cons c cs =>
    have : c ≠ ' ' := fun e => h (by simp [e])
    simp [List.dropWhile_cons, this]

theorem stripSp_of_no_sp (s : List Char) (h : ' ' ∉ s) : Lex.stripSp s = s := by
  unfold Lex.stripSp
  rw [dropWhile_sp_of_no_sp s h, dropWhile_sp_of_no_sp s.reverse (by simpa using h)]
  simp

/-- a string without white characters is its own collapse -/
theorem collapse_of_no_white (s : List Char) (h : ∀ c ∈ s, Lex.isPyWhite c = false) :
    Lex.collapse s = s := by
  unfold Lex.collapse
  rw [subWhite_of_no_white false s h]
  exact stripSp_of_no_sp s (fun hm => by have := h _ hm; exact absurd this (by decide))

/-! ### after fix-c10-2 the implementation's white space *is* XML white space -/

theorem char_eq_of_toNat (c d : Char) (h : c.toNat = d.toNat) : c = d :=
  Char.ext (UInt32.toNat_inj.mp h)

theorem pyWhite_eq_xsd (c : Char) : Lex.isPyWhite c = XSD.isXsdWhite c := by
  rw [Bool.eq_iff_iff]
  simp only [Lex.isPyWhite, Lex.pyWhiteCPs, List.contains_cons, List.contains_nil, Bool.or_false,
    Bool.or_eq_true, beq_iff_eq, XSD.isXsdWhite]
  constructor
  · rintro (h | h | h | h)
    · exact Or.inl (Or.inl (Or.inr (char_eq_of_toNat c '\t' h)))
    · exact Or.inl (Or.inr (char_eq_of_toNat c '\n' h))
    · exact Or.inr (char_eq_of_toNat c '\r' h)
    · exact Or.inl (Or.inl (Or.inl (char_eq_of_toNat c ' ' h)))
  · rintro (((h | h) | h) | h) <;> subst h <;> decide

theorem noPyOnlyWhite_all (s : List Char) : noPyOnlyWhite s = true := by
  unfold noPyOnlyWhite
  rw [List.all_eq_true]
  intro c _
  rw [pyWhite_eq_xsd]
  cases XSD.isXsdWhite c <;> rfl

/-- **the implementation's `collapse_white_spaces` is the XSD whiteSpace=collapse normalisation** — every string -/
theorem collapse_eq_wsCollapse_all (s : List Char) : Lex.collapse s = XSD.wsCollapse s :=
  collapse_eq_wsCollapse s (noPyOnlyWhite_all s)

theorem filter_dropWhile_sp (l : List Char) :
    (l.dropWhile (· == ' ')).filter (· != ' ') = l.filter (· != ' ') := by
  induction l with
  | nil => rfl
  | cons a t ih =>
    by_cases h : (a == ' ') = true
    · have : (a != ' ') = false := by simpa [bne] using h
      simp only [List.dropWhile_cons, h, ↓reduceIte, ih, List.filter_cons, this, Bool.false_eq_true]
    · simp only [List.dropWhile_cons, h, Bool.false_eq_true, ↓reduceIte]

theorem filter_stripSp (l : List Char) : (Lex.stripSp l).filter (· != ' ') = l.filter (· != ' ') := by
  unfold Lex.stripSp
  rw [List.filter_reverse, filter_dropWhile_sp, ← List.filter_reverse, List.reverse_reverse,
    filter_dropWhile_sp]

theorem filter_subWhite (b : Bool) (s : List Char) :
    (Lex.subWhite b s).filter (· != ' ') = s.filter (fun c => !Lex.isPyWhite c) := by
  induction s generalizing b with
  | nil => rfl
  | cons c cs ih =>
    unfold Lex.subWhite
    by_cases hw : Lex.isPyWhite c = true
    · simp only [hw, ↓reduceIte]
      cases b <;> simp [List.filter_cons, hw, ih]
    · have hw' : Lex.isPyWhite c = false := by simpa using hw
      have hne : (c != ' ') = true := by
        rw [bne_iff_ne]; intro e; subst e; exact absurd hw' (by decide)
      simp [hw', List.filter_cons, hne, ih]

/-- removing the spaces of the collapsed string = removing every white character of the string -/
theorem filter_collapse (s : List Char) :
    (Lex.collapse s).filter (· != ' ') = s.filter (fun c => !Lex.isPyWhite c) := by
  unfold Lex.collapse
  rw [filter_stripSp, filter_subWhite]

theorem filter_collapse_collapse (s : List Char) :
    (Lex.collapse (Lex.collapse s)).filter (· != ' ') = (Lex.collapse s).filter (· != ' ') := by
  rw [filter_collapse (Lex.collapse s)]
  apply List.filter_congr
  intro c hc
  rcases collapse_no_white s c hc with h | h
  · subst h; decide
  · rw [h]
    have : c ≠ ' ' := by intro e; subst e; exact absurd h (by decide)
    simpa using this

end EPV.LexLemmas

/-
C08 helper lemmas for the permitted-outcome specification (EPV/Spec/FOSeqLazy.lean):
when the strict semantics yields a value the lazy evaluation yields the same value, and every
error of the strict semantics is among the reachable error codes.
-/
import EPV.Spec.FOSeqLazy
namespace EPV.Seq.Spec
open EPV.Seq

theorem ofR_ok (v : Seq) : LSeq.ofR (.ok v) = ⟨v, none⟩ := rfl
theorem force_mk (v : Seq) : (LSeq.mk v none).force = .ok v := rfl

theorem append_ok (a b : Seq) : (LSeq.mk a none).append ⟨b, none⟩ = ⟨a ++ b, none⟩ := rfl

theorem bind_ok_inv {α β : Type} {r : Except Err α} {f : α → Except Err β} {w : β}
    (h : r.bind f = .ok w) : ∃ v, r = .ok v ∧ f v = .ok w := by
  cases r with
  | error e => simp [Except.bind] at h
  | ok v => exact ⟨v, rfl, h⟩

theorem do_ok_inv {α β : Type} {r : Except Err α} {f : α → Except Err β} {w : β}
    (h : (do let v ← r; f v) = .ok w) : ∃ v, r = .ok v ∧ f v = .ok w := bind_ok_inv h

theorem collectL_ok {β : Type} (f : β → R) (g : β → LSeq) (l : List β) (v : Seq)
    (hfg : ∀ b ∈ l, ∀ r, f b = .ok r → g b = ⟨r, none⟩) (h : collect f l = .ok v) :
    collectL g l = ⟨v, none⟩ := by
  induction l generalizing v with
  | nil => simp [collect] at h; subst h; rfl
  | cons b bs ih =>
    simp only [collect] at h
    obtain ⟨x, hx, h⟩ := do_ok_inv h
    obtain ⟨rest, hr, h⟩ := do_ok_inv h
    simp only [pure, Except.pure, Except.ok.injEq] at h
    subst h
    simp only [collectL, hfg b List.mem_cons_self x hx,
      ih rest (fun b' hb' => hfg b' (List.mem_cons_of_mem _ hb')) hr]
    rfl

theorem keepWhereL_ok {β : Type} (t1 t2 : β → Except Err Bool) (item : β → Atom) (l : List β) (v : List β)
    (ht : ∀ b ∈ l, ∀ k, t1 b = .ok k → t2 b = .ok k) (h : keepWhere t1 l = .ok v) :
    keepWhereL t2 item l = ⟨v.map item, none⟩ := by
  induction l generalizing v with
  | nil => simp [keepWhere] at h; subst h; rfl
  | cons b bs ih =>
    simp only [keepWhere] at h
    obtain ⟨k, hk, h⟩ := do_ok_inv h
    obtain ⟨rest, hr, h⟩ := do_ok_inv h
    simp only [pure, Except.pure, Except.ok.injEq] at h
    subst h
    simp only [keepWhereL, ht b List.mem_cons_self k hk,
      ih rest (fun b' hb' => ht b' (List.mem_cons_of_mem _ hb')) hr]
    cases k <;> rfl

theorem existsL_ok {β : Type} (t1 t2 : β → Except Err Bool) (l : List β) (w : Bool)
    (ht : ∀ b ∈ l, ∀ k, t1 b = .ok k → t2 b = .ok k) (h : existsM t1 l = .ok w) :
    existsL t2 l none = .ok w := by
  induction l with
  | nil => simpa [existsM, existsL] using h
  | cons b bs ih =>
    simp only [existsM] at h
    obtain ⟨k, hk, h⟩ := do_ok_inv h
    simp only [existsL, ht b List.mem_cons_self k hk]
    cases k with
    | true => simp only [if_true, pure, Except.pure] at h; exact h
    | false => exact ih (fun b' hb' => ht b' (List.mem_cons_of_mem _ hb')) (by simpa using h)

theorem forallL_ok {β : Type} (t1 t2 : β → Except Err Bool) (l : List β) (w : Bool)
    (ht : ∀ b ∈ l, ∀ k, t1 b = .ok k → t2 b = .ok k) (h : forallM t1 l = .ok w) :
    forallL t2 l none = .ok w := by
  induction l with
  | nil => simpa [forallM, forallL] using h
  | cons b bs ih =>
    simp only [forallM] at h
    obtain ⟨k, hk, h⟩ := do_ok_inv h
    simp only [forallL, ht b List.mem_cons_self k hk]
    cases k with
    | false => simp only [Bool.false_eq_true, if_false, pure, Except.pure] at h; exact h
    | true => exact ih (fun b' hb' => ht b' (List.mem_cons_of_mem _ hb')) (by simpa using h)

theorem ebvL_ok (v : Seq) : ebvL ⟨v, none⟩ = ebv v := by
  match v with
  | [] => rfl
  | .node _ :: _ => simp [ebvL, ebv]
  | .int _ :: _ => simp [ebvL]
  | .dec _ _ :: _ => simp [ebvL]
  | .dbl _ :: _ => simp [ebvL]
  | .str _ :: _ => simp [ebvL]
  | .bool _ :: _ => simp [ebvL]
  | .untyped _ :: _ => simp [ebvL]

theorem applyFn1L_ok (sm : Summation) (cl : Coll) (doc : List String) (f : Fn1) (v : Seq) :
    applyFn1L sm cl doc f ⟨v, none⟩ = LSeq.ofR (applyFn1 sm cl doc f v) := by
  cases f <;> simp only [applyFn1L, applyFn1, LSeq.force, LSeq.stream, ebvL_ok, Except.bind]
  case head => cases v <;> rfl
  case exists_ => cases v <;> rfl
  case empty => cases v <;> rfl
  case tail => rfl
  case distinct => rfl
  case oneOrMore => cases v <;> rfl

theorem insertBeforeL_ok (va : Seq) (p : Int) (vd : Seq) :
    insertBeforeL ⟨va, none⟩ p ⟨vd, none⟩ = ⟨insertBefore va p vd, none⟩ := by
  simp only [insertBeforeL, LSeq.ofR, LSeq.append, insertBefore]
  congr 1
  by_cases h1 : p < 1
  · have : (max 1 p).toNat - 1 = 0 := by omega
    simp [h1, this]
  · by_cases h2 : p > (va.length : Int)
    · have hge : va.length ≤ (max 1 p).toNat - 1 := by omega
      simp [h1, h2, List.take_of_length_le hge, List.drop_eq_nil_of_le hge]
    · have : (max 1 p).toNat - 1 = p.toNat - 1 := by omega
      simp [h1, h2, this]

mutual
/-- when the strict semantics yields a value, the lazy evaluation delivers exactly that value -/
theorem lz_of_sem (sm : Summation) : ∀ (e : Expr) (c : Ctx) (v : Seq), sem sm e c = .ok v → lz sm e c = ⟨v, none⟩
  | .lit a, c, v, h => by simp [sem] at h; subst h; rfl
  | .empty, c, v, h => by simp [sem] at h; subst h; rfl
  | .var x, c, v, h => by
    simp only [sem] at h; simp only [lz]
    cases hl : lookupVar x c.vars with
    | none => rw [hl] at h; simp at h
    | some w => rw [hl] at h; simp at h; subst h; rfl
  | .dot, c, v, h => by
    simp only [sem] at h; simp only [lz]
    cases hi : c.item with
    | none => rw [hi] at h; simp at h
    | some a => rw [hi] at h; simp at h; subst h; rfl
  | .position, c, v, h => by simp [sem] at h; subst h; rfl
  | .last, c, v, h => by simp [sem] at h; subst h; rfl
  | .comma a b, c, v, h => by
    simp only [sem] at h
    obtain ⟨va, ha, h⟩ := do_ok_inv h
    obtain ⟨vb, hb, h⟩ := do_ok_inv h
    simp only [pure, Except.pure, Except.ok.injEq] at h
    subst h
    simp only [lz, lz_of_sem sm a c va ha, lz_of_sem sm b c vb hb, append_ok]
  | .range a b, c, v, h => by
    simp only [sem] at h
    simp only [lz]
    cases ha : sem sm a c with
    | error x => rw [ha] at h; simp [Except.bind, bind] at h
    | ok va =>
      rw [ha] at h
      rw [lz_of_sem sm a c va ha]
      simp only [force_mk]
      cases hb : sem sm b c with
      | error x =>
        rw [hb] at h
        cases hia : atMostInt va with
        | error y => simp [Except.bind, bind, hia] at h
        | ok oa =>
          cases oa with
          | none => simp [Except.bind, bind, hia, pure, Except.pure] at h ⊢; subst h; rfl
          | some lo => simp [Except.bind, bind, hia] at h
      | ok vb =>
        rw [hb] at h
        cases hia : atMostInt va with
        | error y => simp [Except.bind, bind, hia] at h
        | ok oa =>
          cases oa with
          | none => simp [Except.bind, bind, hia, pure, Except.pure] at h ⊢; subst h; rfl
          | some lo =>
            have hlb : (if True then lz sm b c else lz sm b c) = ⟨vb, none⟩ := by simp [lz_of_sem sm b c vb hb]
            simp only [if_true] at hlb
            rw [hlb]
            simp only [Except.bind, bind, hia, force_mk] at h ⊢
            cases hib : atMostInt vb with
            | error y => simp [hib] at h
            | ok ob =>
              cases ob <;> (simp only [hib, pure, Except.pure, Except.ok.injEq] at h; subst h; rfl)
  | .filter e p, c, v, h => by
    simp only [sem] at h
    obtain ⟨s, hs, h⟩ := do_ok_inv h
    obtain ⟨kept, hk, h⟩ := do_ok_inv h
    simp only [pure, Except.pure, Except.ok.injEq] at h
    subst h
    simp only [lz, lz_of_sem sm e c s hs, force_mk]
    apply keepWhereL_ok _ _ Prod.fst (positions s) kept _ hk
    intro t _ k htk
    obtain ⟨pv, hp, htk⟩ := do_ok_inv htk
    rw [lz_of_sem sm p _ pv hp]
    exact htk
  | .map a b, c, v, h => by
    simp only [sem] at h
    obtain ⟨s, hs, h⟩ := do_ok_inv h
    simp only [lz, lz_of_sem sm a c s hs, force_mk]
    exact collectL_ok _ _ (positions s) v (fun t _ r hr => lz_of_sem sm b _ r hr) h
  | .forE bs r, c, v, h => by
    simp only [sem] at h
    simp only [lz]
    exact lzFor_of_sem sm bs c (fun c' => sem sm r c') (fun c' => lz sm r c')
      (fun c' w hw => lz_of_sem sm r c' w hw) v h
  | .someE bs t, c, v, h => by
    simp only [sem] at h
    obtain ⟨w, hw, h⟩ := do_ok_inv h
    simp only [pure, Except.pure, Except.ok.injEq] at h
    subst h
    simp only [lz]
    rw [lzSome_of_sem sm bs c (fun c' => (sem sm t c').bind ebv) (fun c' => ebvL (lz sm t c')) _ w hw]
    · rfl
    · intro c' k hk
      obtain ⟨tv, ht, hk⟩ := bind_ok_inv hk
      rw [lz_of_sem sm t c' tv ht, ebvL_ok]; exact hk
  | .everyE bs t, c, v, h => by
    simp only [sem] at h
    obtain ⟨w, hw, h⟩ := do_ok_inv h
    simp only [pure, Except.pure, Except.ok.injEq] at h
    subst h
    simp only [lz]
    rw [lzEvery_of_sem sm bs c (fun c' => (sem sm t c').bind ebv) (fun c' => ebvL (lz sm t c')) _ w hw]
    · rfl
    · intro c' k hk
      obtain ⟨tv, ht, hk⟩ := bind_ok_inv hk
      rw [lz_of_sem sm t c' tv ht, ebvL_ok]; exact hk
  | .fn1 f a, c, v, h => by
    simp only [sem] at h
    obtain ⟨va, ha, h⟩ := bind_ok_inv h
    simp only [lz, lz_of_sem sm a c va ha, applyFn1L_ok, h, ofR_ok]
  | .fn2 f a b, c, v, h => by
    cases f
    case stringJoin =>
      simp only [sem] at h
      obtain ⟨va, ha, h⟩ := do_ok_inv h
      obtain ⟨vb, hb, h⟩ := do_ok_inv h
      simp only [lz, lz_of_sem sm a c va ha, lz_of_sem sm b c vb hb, force_mk, bind, Except.bind, h, ofR_ok]
    case sum =>
      simp only [sem] at h
      obtain ⟨va, ha, h⟩ := do_ok_inv h
      simp only [lz, lz_of_sem sm a c va ha, force_mk, bind, Except.bind]
      by_cases hl : va.length = 0
      · simp only [hl, if_true] at h ⊢
        obtain ⟨vb, hb, h⟩ := do_ok_inv h
        simp only [lz_of_sem sm b c vb hb, force_mk, h, ofR_ok]
      · simp only [hl, if_false] at h ⊢
        simp only [h, ofR_ok]
    case remove =>
      simp only [sem] at h
      obtain ⟨vb, hb, h⟩ := do_ok_inv h
      obtain ⟨va, ha, h⟩ := do_ok_inv h
      simp only [applyFn2] at h
      cases hp : asInteger vb with
      | error x => simp [hp, Except.map] at h
      | ok p =>
        simp only [hp, Except.map, Except.ok.injEq] at h
        subst h
        simp only [lz, lz_of_sem sm a c va ha, lz_of_sem sm b c vb hb, force_mk, Except.bind, hp, LSeq.stream]
    case indexOf =>
      simp only [sem] at h
      obtain ⟨vb, hb, h⟩ := do_ok_inv h
      obtain ⟨va, ha, h⟩ := do_ok_inv h
      simp only [applyFn2] at h
      match vb, hb, h with
      | [x], hb, h =>
        simp only [Except.ok.injEq] at h
        subst h
        simp only [lz, lz_of_sem sm a c va ha, lz_of_sem sm b c [x] hb, force_mk, LSeq.stream]
      | [], hb, h => simp at h
      | _ :: _ :: _, hb, h => simp at h
    case subseq =>
      simp only [sem] at h
      obtain ⟨vb, hb, h⟩ := do_ok_inv h
      obtain ⟨va, ha, h⟩ := do_ok_inv h
      simp only [applyFn2] at h
      cases hp : asRoundedDouble vb with
      | error x => simp [hp, Except.map] at h
      | ok p =>
        simp only [hp, Except.map, Except.ok.injEq] at h
        subst h
        simp only [lz, lz_of_sem sm a c va ha, lz_of_sem sm b c vb hb, force_mk, Except.bind, hp, LSeq.stream]
  | .fn3 f a b d, c, v, h => by
    cases f
    case insertBefore =>
      simp only [sem] at h
      obtain ⟨vb, hb, h⟩ := do_ok_inv h
      obtain ⟨va, ha, h⟩ := do_ok_inv h
      obtain ⟨vd, hd, h⟩ := do_ok_inv h
      simp only [applyFn3] at h
      cases hp : asInteger vb with
      | error x => simp [hp, Except.map] at h
      | ok p =>
        simp only [hp, Except.map, Except.ok.injEq] at h
        subst h
        simp only [lz, lz_of_sem sm a c va ha, lz_of_sem sm b c vb hb, lz_of_sem sm d c vd hd, force_mk,
          Except.bind, hp, insertBeforeL_ok]
    case subseq =>
      simp only [sem] at h
      obtain ⟨vb, hb, h⟩ := do_ok_inv h
      obtain ⟨vd, hd, h⟩ := do_ok_inv h
      obtain ⟨va, ha, h⟩ := do_ok_inv h
      simp only [applyFn3] at h
      cases hp : asRoundedDouble vb with
      | error x => simp [hp, Except.map, Except.bind] at h
      | ok p =>
        cases hq : asRoundedDouble vd with
        | error x => simp [hp, hq, Except.map, Except.bind] at h
        | ok q =>
          simp only [hp, hq, Except.map, Except.bind, Except.ok.injEq] at h
          subst h
          simp only [lz, lz_of_sem sm a c va ha, lz_of_sem sm b c vb hb, lz_of_sem sm d c vd hd, force_mk,
            Except.bind, hp, hq, LSeq.stream]
  | .cmp op a b, c, v, h => by
    simp only [sem] at h
    obtain ⟨x, hx, h⟩ := do_ok_inv h
    obtain ⟨va, ha, hx⟩ := bind_ok_inv hx
    obtain ⟨y, hy, h⟩ := do_ok_inv h
    obtain ⟨vb, hb, hy⟩ := bind_ok_inv hy
    simp only [lz, lz_of_sem sm a c va ha, lz_of_sem sm b c vb hb, force_mk, bind, Except.bind, hx, hy] at h ⊢
    cases x with
    | none => simp only [pure, Except.pure, Except.ok.injEq] at h; subst h; rfl
    | some x' =>
      cases y with
      | none => simp only [pure, Except.pure, Except.ok.injEq] at h; subst h; rfl
      | some y' =>
        simp only [] at h ⊢
        cases hc : compareAtoms op x' y' with
        | error z => simp [hc] at h
        | ok r => simp only [hc, pure, Except.pure, Except.ok.injEq] at h; subst h; rfl
  | .andE a b, c, v, h => by
    simp only [sem] at h
    obtain ⟨ba, hba, h⟩ := do_ok_inv h
    obtain ⟨va, ha, hba⟩ := bind_ok_inv hba
    simp only [lz, lz_of_sem sm a c va ha, ebvL_ok, hba, bind, Except.bind]
    cases ba with
    | false => simp only [Bool.false_eq_true, if_false] at h ⊢; rw [h]; rfl
    | true =>
      simp only [if_true] at h ⊢
      obtain ⟨bb, hbb, h⟩ := do_ok_inv h
      obtain ⟨vb, hb, hbb⟩ := bind_ok_inv hbb
      simp only [lz_of_sem sm b c vb hb, ebvL_ok, hbb]
      rw [h]; rfl
  | .orE a b, c, v, h => by
    simp only [sem] at h
    obtain ⟨ba, hba, h⟩ := do_ok_inv h
    obtain ⟨va, ha, hba⟩ := bind_ok_inv hba
    simp only [lz, lz_of_sem sm a c va ha, ebvL_ok, hba, bind, Except.bind]
    cases ba with
    | true => simp only [if_true] at h ⊢; rw [h]; rfl
    | false =>
      simp only [Bool.false_eq_true, if_false] at h ⊢
      obtain ⟨bb, hbb, h⟩ := do_ok_inv h
      obtain ⟨vb, hb, hbb⟩ := bind_ok_inv hbb
      simp only [lz_of_sem sm b c vb hb, ebvL_ok, hbb]
      rw [h]; rfl
  | .arith op a b, c, v, h => by
    simp only [sem] at h
    obtain ⟨ox, hox, h⟩ := do_ok_inv h
    obtain ⟨va, ha, hox⟩ := bind_ok_inv hox
    simp only [lz, lz_of_sem sm a c va ha, force_mk, bind, Except.bind, hox]
    cases ox with
    | none => simp only [pure, Except.pure] at h ⊢; rw [h]; rfl
    | some x =>
      simp only [] at h ⊢
      obtain ⟨oy, hoy, h⟩ := do_ok_inv h
      obtain ⟨vb, hb, hoy⟩ := bind_ok_inv hoy
      simp only [lz_of_sem sm b c vb hb, force_mk, hoy]
      cases oy <;> (simp only [pure, Except.pure] at h ⊢; rw [h]; rfl)
  | .ifE t a b, c, v, h => by
    simp only [sem] at h
    obtain ⟨bt, hbt, h⟩ := do_ok_inv h
    obtain ⟨vt, ht, hbt⟩ := bind_ok_inv hbt
    simp only [lz, lz_of_sem sm t c vt ht, ebvL_ok, hbt]
    cases bt with
    | true => simp only [if_true] at h; exact lz_of_sem sm a c v h
    | false => simp only [Bool.false_eq_true, if_false] at h; exact lz_of_sem sm b c v h

theorem lzFor_of_sem (sm : Summation) : ∀ (bs : Binds) (c : Ctx) (body : Ctx → R) (bodyL : Ctx → LSeq),
    (∀ c' w, body c' = .ok w → bodyL c' = ⟨w, none⟩) →
    ∀ v, semFor sm bs c body = .ok v → lzFor sm bs c bodyL = ⟨v, none⟩
  | .one x e, c, body, bodyL, hb, v, h => by
    simp only [semFor] at h
    obtain ⟨s, hs, h⟩ := do_ok_inv h
    simp only [lzFor, lz_of_sem sm e c s hs]
    rw [collectL_ok _ _ s v (fun w _ r hr => hb _ r hr) h]
    simp [LSeq.append]
  | .cons x e rest, c, body, bodyL, hb, v, h => by
    simp only [semFor] at h
    obtain ⟨s, hs, h⟩ := do_ok_inv h
    simp only [lzFor, lz_of_sem sm e c s hs]
    rw [collectL_ok _ _ s v (fun w _ r hr => lzFor_of_sem sm rest _ body bodyL hb r hr) h]
    simp [LSeq.append]

theorem lzSome_of_sem (sm : Summation) : ∀ (bs : Binds) (c : Ctx) (test testL : Ctx → Except Err Bool),
    (∀ c' k, test c' = .ok k → testL c' = .ok k) →
    ∀ w, semSome sm bs c test = .ok w → lzSome sm bs c testL = .ok w
  | .one x e, c, test, testL, ht, w, h => by
    simp only [semSome] at h
    obtain ⟨s, hs, h⟩ := do_ok_inv h
    simp only [lzSome, lz_of_sem sm e c s hs]
    exact existsL_ok _ _ s w (fun v _ k hk => ht _ k hk) h
  | .cons x e rest, c, test, testL, ht, w, h => by
    simp only [semSome] at h
    obtain ⟨s, hs, h⟩ := do_ok_inv h
    simp only [lzSome, lz_of_sem sm e c s hs]
    exact existsL_ok _ _ s w (fun v _ k hk => lzSome_of_sem sm rest _ test testL ht k hk) h

theorem lzEvery_of_sem (sm : Summation) : ∀ (bs : Binds) (c : Ctx) (test testL : Ctx → Except Err Bool),
    (∀ c' k, test c' = .ok k → testL c' = .ok k) →
    ∀ w, semEvery sm bs c test = .ok w → lzEvery sm bs c testL = .ok w
  | .one x e, c, test, testL, ht, w, h => by
    simp only [semEvery] at h
    obtain ⟨s, hs, h⟩ := do_ok_inv h
    simp only [lzEvery, lz_of_sem sm e c s hs]
    exact forallL_ok _ _ s w (fun v _ k hk => ht _ k hk) h
  | .cons x e rest, c, test, testL, ht, w, h => by
    simp only [semEvery] at h
    obtain ⟨s, hs, h⟩ := do_ok_inv h
    simp only [lzEvery, lz_of_sem sm e c s hs]
    exact forallL_ok _ _ s w (fun v _ k hk => lzEvery_of_sem sm rest _ test testL ht k hk) h
end

/-- every error of the strict semantics is a reachable code -/
theorem sem_error_mem_codes (sm : Summation) (e : Expr) (c : Ctx) (x : Err) (h : sem sm e c = .error x) :
    x ∈ codes sm e c := by
  cases e <;> simp only [codes, strictErr, h, List.mem_append, List.mem_cons, true_or, or_true] <;>
    simp [sem] at h

end EPV.Seq.Spec

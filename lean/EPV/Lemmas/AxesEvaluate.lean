/-
C01 — `select` and `evaluate` agree as sequences; the 3.0 / 3.1 `(`…`)` yields its operand's sequence.
-/
import EPV.Model.AxesEvaluate
namespace EPV.XP

variable {m : Mode} {a : Arr}

theorem ofPy_toPy (v : Val) : ofPy (toPy v) = v := by cases v <;> rfl

theorem ofPy_unwrap1 (p : PyVal) : ofPy (unwrap1 p) = ofPy p := by
  cases p with
  | seq l =>
    match l with
    | [] => rfl
    | [n] => rfl
    | _ :: _ :: _ => rfl
  | _ => rfl

theorem iterParent_short (n : Nat) : iterParent m a n = [] ∨ ∃ p, iterParent m a n = [p] := by
  unfold iterParent
  split
  · split
    · exact Or.inr ⟨_, rfl⟩
    · exact Or.inl rfl
  · exact Or.inl rfl

/-- **select = evaluate as sequences**: expanding what `token.evaluate(context)` returns gives exactly
what `token.select(context)` yields — every token of the fragment, 1.0/2.0 and 3.0/3.1 classes -/
theorem ofPy_evaluate (v3 : Bool) : ∀ (e : Expr) (f : Focus), ofPy (evaluate v3 m a e f) = eval m a e f := by
  intro e
  induction e with
  | ctxItem => intro f; rfl
  | parentAbbr =>
    intro f
    simp only [evaluate, eval]
    rcases iterParent_short (m := m) (a := a) f.item with h | ⟨p, h⟩ <;> rw [h] <;> rfl
  | paren e ih =>
    intro f
    simp only [evaluate, eval]
    cases v3 with
    | false => simpa using ih f
    | true => simp only [if_true, ofPy_unwrap1]; exact ih f
  | step ax t ab => intro f; exact ofPy_toPy _
  | pred e p _ _ => intro f; exact ofPy_toPy _
  | slash l r _ _ => intro f; exact ofPy_toPy _
  | dslash l r _ _ => intro f; exact ofPy_toPy _
  | rootOnly => intro f; exact ofPy_toPy _
  | root e _ => intro f; exact ofPy_toPy _
  | droot e _ => intro f; exact ofPy_toPy _
  | union l r _ _ => intro f; exact ofPy_toPy _
  | count e _ => intro f; exact ofPy_toPy _
  | num k => intro f; exact ofPy_toPy _
  | lit ng k => intro f; exact ofPy_toPy _
  | position => intro f; exact ofPy_toPy _
  | last => intro f; exact ofPy_toPy _
  | cmp op l r _ _ => intro f; exact ofPy_toPy _
  | and l r _ _ => intro f; exact ofPy_toPy _
  | or l r _ _ => intro f; exact ofPy_toPy _
  | not e _ => intro f; exact ofPy_toPy _

/-- the 3.0 / 3.1 parenthesised expression selects what its operand selects -/
theorem selectParen30_eq (e : Expr) (f : Focus) : selectParen30 m a e f = eval m a (.paren e) f :=
  ofPy_evaluate true (.paren e) f

end EPV.XP

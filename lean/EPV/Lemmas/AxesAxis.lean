/-
C01 — every axis iterator of the model equals "all nodes of the document, in document order,
filtered by the axis predicate of the specification".
Method: the model list is strictly increasing (it is built from filters of sub-ranges, takeWhile /
dropWhile, a reversed decreasing chain) and has the same members as the filtered range; two
strictly increasing lists with the same members are equal (`sorted_ext`).
-/
import EPV.Lemmas.AxesWF
namespace EPV.XP
open Spec

variable {m : Mode} {a : Arr}

@[simp] theorem isAttrOrNs_eq (i : Nat) : Spec.isAttrOrNs a i = isAN a i := rfl
@[simp] theorem isV_eq (n : Nat) : Spec.isV m n = isDummyDoc m n := rfl

/-- equality with a filtered full range from sortedness + membership -/
theorem eq_range_filter {l : List Nat} {L : Nat} {p : Nat → Bool} (hs : l.Pairwise (· < ·))
    (hm : ∀ x, x ∈ l ↔ x < L ∧ p x = true) : l = (List.range L).filter p := by
  apply sorted_ext hs (range_filter_sorted _ _)
  intro x
  rw [hm x, List.mem_filter, List.mem_range]

/-! ### stored lists -/

theorem mem_descRange (n x : Nat) :
    x ∈ descRange a n ↔ n < x ∧ x ≤ n + sz a n ∧ isAN a x = false := by
  unfold descRange
  simp only [List.mem_filter, List.mem_range'_1, Bool.not_eq_true']
  constructor
  · rintro ⟨⟨h1, h2⟩, h3⟩; exact ⟨by omega, by omega, h3⟩
  · rintro ⟨h1, h2, h3⟩; exact ⟨⟨by omega, by omega⟩, h3⟩

theorem descRange_sorted (n : Nat) : (descRange a n).Pairwise (· < ·) :=
  List.Pairwise.sublist List.filter_sublist (range'_sorted _ _)

theorem mem_childrenOf (n x : Nat) :
    x ∈ childrenOf a n ↔ n < x ∧ x ≤ n + sz a n ∧ isAN a x = false ∧ par a x = some n := by
  unfold childrenOf
  simp only [List.mem_filter, mem_descRange, beq_iff_eq]
  constructor
  · rintro ⟨⟨h1, h2, h3⟩, h4⟩; exact ⟨h1, h2, h3, h4⟩
  · rintro ⟨h1, h2, h3, h4⟩; exact ⟨⟨h1, h2, h3⟩, h4⟩

theorem childrenOf_sorted (n : Nat) : (childrenOf a n).Pairwise (· < ·) :=
  List.Pairwise.sublist List.filter_sublist (descRange_sorted n)

theorem cons_sorted {x : Nat} {l : List Nat} (hs : l.Pairwise (· < ·)) (h : ∀ y ∈ l, x < y) :
    (x :: l).Pairwise (· < ·) := List.pairwise_cons.2 ⟨h, hs⟩

/-! ### facts about kinds under `WF` -/

theorem WF.v_is_doc (w : WF m a) {n : Nat} (h : isDummyDoc m n = true) :
    m = .dummy ∧ n = 0 ∧ kd a 0 = .doc ∧ sz a 0 = 0 ∧ 2 ≤ a.length ∧ kd a 1 = .elem ∧
      sz a 1 + 2 = a.length := by
  unfold isDummyDoc at h
  simp only [Bool.and_eq_true, beq_iff_eq] at h
  obtain ⟨rfl, rfl⟩ := h
  have := w.shape
  exact ⟨rfl, rfl, this⟩

theorem WF.no_par_zero_dummy (w : WF .dummy a) {i : Nat} (hi : i < a.length) : par a i ≠ some 0 := by
  intro hp
  have := w.parLt i 0 hi hp
  have hs := w.shape
  simp only at hs
  omega

theorem WF.leaf_no_child (w : WF m a) {n i : Nat} (hi : i < a.length)
    (hn : isED a n = false) (hlen : n < a.length) : par a i ≠ some n := by
  intro hp
  have := w.parLt i n hi hp
  have := w.leaf n hlen hn
  omega

theorem isED_of_elem {n : Nat} (h : kd a n = .elem) : isED a n = true := by simp [isED, h]
theorem isED_of_doc {n : Nat} (h : kd a n = .doc) : isED a n = true := by simp [isED, h]

theorem isAN_false_of_elem {n : Nat} (h : kd a n = .elem) : isAN a n = false := by simp [isAN, h]
theorem isAN_false_of_doc {n : Nat} (h : kd a n = .doc) : isAN a n = false := by simp [isAN, h]

theorem isED_false_of_AN {n : Nat} (h : isAN a n = true) : isED a n = false := by
  unfold isAN at h; unfold isED
  simp only [Bool.or_eq_true, beq_iff_eq] at h
  rcases h with h | h <;> simp [h]

/-- a node whose `par` is `none` is a root -/
theorem WF.root_of_none (w : WF m a) {i : Nat} (hi : i < a.length) (h : par a i = none) :
    isRoot m i = true := by
  cases hr : isRoot m i with
  | true => rfl
  | false => obtain ⟨p, hp⟩ := w.parSome i hi hr; rw [h] at hp; cases hp

/-- the last element of the parent chain is a parentless node enclosing `i` -/
theorem ancUp_last (w : WF m a) : ∀ (fuel i : Nat), i ≤ fuel → i < a.length →
    par a ((ancUp a fuel i).getLast?.getD i) = none ∧
    ((ancUp a fuel i).getLast?.getD i = i ∨
      ((ancUp a fuel i).getLast?.getD i < i ∧ i ≤ (ancUp a fuel i).getLast?.getD i + sz a ((ancUp a fuel i).getLast?.getD i)))
  | 0, i, h, hi => by
    have : i = 0 := by omega
    subst this
    simp only [ancUp, List.getLast?_nil, Option.getD_none]
    exact ⟨w.rootNone 0 hi (by simp [isRoot]), by simp⟩
  | fuel + 1, i, h, hi => by
    unfold ancUp
    cases hp : par a i with
    | none => simp only [List.getLast?_nil, Option.getD_none]; exact ⟨hp, by simp⟩
    | some p =>
      have ⟨hpi, hip⟩ := w.parLt i p hi hp
      have hpl : p < a.length := by omega
      have ih := ancUp_last w fuel p (by omega) hpl
      simp only [List.getLast?_cons, Option.getD_some]
      refine ⟨ih.1, Or.inr ?_⟩
      rcases ih.2 with e | ⟨e1, e2⟩
      · rw [e]; exact ⟨hpi, hip⟩
      · have := w.nest p _ hpl e1 e2
        exact ⟨by omega, by omega⟩

/-- for every real node the top of the parent chain is `context.root` (doc: the document,
dummy: the root element, frag: the root element) and its interval reaches the end of the array -/
theorem top_eq_root (w : WF m a) {fuel i : Nat} (hf : i ≤ fuel) (hi : i < a.length)
    (hv : isDummyDoc m i = false) :
    (ancUp a fuel i).getLast?.getD i = rootIdx m ∧ rootIdx m + sz a (rootIdx m) + 1 = a.length ∧
      rootIdx m ≤ i := by
  have ⟨h1, h2⟩ := ancUp_last w fuel i hf hi
  generalize (ancUp a fuel i).getLast?.getD i = t at h1 h2
  have htl : t < a.length := by rcases h2 with e | e <;> omega
  have hr := w.root_of_none htl h1
  unfold isRoot at hr
  simp only [Bool.or_eq_true, beq_iff_eq, Bool.and_eq_true] at hr
  have hs := w.shape
  cases m with
  | doc =>
    simp only at hs
    rcases hr with rfl | ⟨h, _⟩
    · exact ⟨rfl, by simp [rootIdx]; omega, by simp [rootIdx]⟩
    · cases h
  | frag =>
    simp only at hs
    rcases hr with rfl | ⟨h, _⟩
    · exact ⟨rfl, by simp [rootIdx]; omega, by simp [rootIdx]⟩
    · cases h
  | dummy =>
    simp only at hs
    have hi0 : i ≠ 0 := by intro e; subst e; simp [isDummyDoc] at hv
    rcases hr with rfl | ⟨_, rfl⟩
    · exfalso; rcases h2 with e | e <;> omega
    · refine ⟨rfl, by simp [rootIdx]; omega, ?_⟩
      simp only [rootIdx]; omega

theorem topOf_eq (w : WF m a) {n : Nat} (hn : n < a.length) (hv : isDummyDoc m n = false) :
    topOf m a n = rootIdx m := by
  unfold topOf
  rw [ancChain_eq w n n hn]
  exact (top_eq_root w (Nat.le_refl _) hn hv).1

/-- one step of the chain, as intervals -/
theorem anc_step (w : WF m a) {n r0 x : Nat} (hn : n < a.length) (hp : par a n = some r0) :
    (x < n ∧ n ≤ x + sz a x) ↔ (x = r0 ∨ (x < r0 ∧ r0 ≤ x + sz a x)) := by
  have ⟨hpi, hip⟩ := w.parLt n r0 hn hp
  have hpl : r0 < a.length := by omega
  constructor
  · rintro ⟨h1, h2⟩
    by_cases hq : x = r0
    · exact Or.inl hq
    · right
      by_cases hlt : x < r0
      · exact ⟨hlt, by omega⟩
      · have := w.nearest n r0 x hn hp (by omega) h1
        omega
  · rintro (rfl | ⟨h1, h2⟩)
    · exact ⟨hpi, hip⟩
    · have := w.nest r0 x hpl h1 h2
      exact ⟨by omega, by omega⟩

/-! ### the axes -/

theorem self_eq (hn : n < a.length) :
    iterAxis m a .self n = (allNodes a).filter (onAxis m a .self n) := by
  apply eq_range_filter
  · simp [iterAxis, iterSelf]
  · intro x
    simp only [iterAxis, iterSelf, List.mem_singleton, onAxis, beq_iff_eq]
    constructor
    · rintro rfl; exact ⟨hn, rfl⟩
    · exact fun h => h.2

theorem child_eq (w : WF m a) (hn : n < a.length) :
    iterAxis m a .child n = (allNodes a).filter (onAxis m a .child n) := by
  apply eq_range_filter
  · simp only [iterAxis, iterChildren]
    split
    · split
      · simp
      · exact childrenOf_sorted n
    · simp
  · intro x
    simp only [iterAxis, iterChildren, onAxis, isAttrOrNs_eq, isV_eq]
    cases hed : isED a n with
    | false =>
      simp only [Bool.false_eq_true, if_false, List.not_mem_nil, false_iff, not_and]
      intro hx
      have hv : isDummyDoc m n = false := by
        cases hv : isDummyDoc m n with
        | false => rfl
        | true => have := w.v_is_doc hv; rw [this.2.1, isED_of_doc this.2.2.1] at hed; cases hed
      have := w.leaf_no_child hx hed hn
      simp [hv, this]
    | true =>
      simp only [if_true]
      cases hv : isDummyDoc m n with
      | true =>
        obtain ⟨rfl, rfl, h0, hs0, hl, h1, hs1⟩ := w.v_is_doc hv
        simp only [if_true, rootIdx, List.mem_singleton, Bool.true_and]
        constructor
        · rintro rfl
          refine ⟨by omega, ?_⟩
          simp [isAN_false_of_elem h1]
        · rintro ⟨hx, h⟩
          simp only [Bool.and_eq_true, Bool.not_eq_true', Bool.or_eq_true, beq_iff_eq] at h
          rcases h.2 with e | e
          · exact absurd e (w.no_par_zero_dummy hx)
          · exact e
      | false =>
        simp only [Bool.false_eq_true, if_false, mem_childrenOf, Bool.false_and, Bool.or_false,
          Bool.and_eq_true, Bool.not_eq_true', beq_iff_eq]
        constructor
        · rintro ⟨h1, h2, h3, h4⟩
          have := w.bound n hn
          exact ⟨by omega, h3, h4⟩
        · rintro ⟨hx, h3, h4⟩
          have := w.parLt x n hx h4
          exact ⟨this.1, this.2, h3, h4⟩

/-- `iter_descendants` (either flavour) -/
theorem descendants_mem (w : WF m a) (hn : n < a.length) (ws : Bool) (x : Nat) :
    x ∈ iterDescendants m a ws n ↔
      x < a.length ∧ ((ws = true ∧ x = n) ∨
        (isAN a x = false ∧ (isAnc a n x = true ∨ (isDummyDoc m n = true ∧ 1 ≤ x)))) := by
  unfold iterDescendants
  have hself : ∀ x, x ∈ (if ws = true then [n] else []) ↔ (ws = true ∧ x = n) := by
    intro x; cases ws <;> simp
  cases hed : isED a n with
  | false =>
    have hv : isDummyDoc m n = false := by
      cases hv : isDummyDoc m n with
      | false => rfl
      | true => have := w.v_is_doc hv; rw [this.2.1, isED_of_doc this.2.2.1] at hed; cases hed
    simp only [Bool.false_eq_true, if_false, hself, hv, false_and, or_false]
    constructor
    · rintro ⟨h1, rfl⟩; exact ⟨hn, Or.inl ⟨h1, rfl⟩⟩
    · rintro ⟨hx, h | ⟨_, h⟩⟩
      · exact h
      · rw [isAnc_iff w hx] at h
        have := w.leaf n hn hed
        omega
  | true =>
    simp only [if_true, List.mem_append, hself]
    unfold descBelow
    cases hv : isDummyDoc m n with
    | true =>
      obtain ⟨rfl, rfl, h0, hs0, hl, h1, hs1⟩ := w.v_is_doc hv
      simp only [if_true, List.mem_cons, mem_descRange, true_and]
      constructor
      · rintro (⟨h, rfl⟩ | rfl | ⟨h1', h2, h3⟩)
        · exact ⟨hn, Or.inl ⟨h, rfl⟩⟩
        · exact ⟨by omega, Or.inr ⟨isAN_false_of_elem h1, Or.inr (Nat.le_refl _)⟩⟩
        · exact ⟨by omega, Or.inr ⟨h3, Or.inr (by omega)⟩⟩
      · rintro ⟨hx, h | ⟨h3, h | h⟩⟩
        · exact Or.inl h
        · rw [isAnc_iff w hx] at h; omega
        · by_cases hx1 : x = 1
          · exact Or.inr (Or.inl hx1)
          · exact Or.inr (Or.inr ⟨by omega, by omega, h3⟩)
    | false =>
      simp only [Bool.false_eq_true, if_false, mem_descRange, false_and, or_false]
      have hb := w.bound n hn
      constructor
      · rintro (⟨h, rfl⟩ | ⟨h1, h2, h3⟩)
        · exact ⟨hn, Or.inl ⟨h, rfl⟩⟩
        · have hx : x < a.length := by omega
          exact ⟨hx, Or.inr ⟨h3, (isAnc_iff w hx).2 ⟨h1, h2⟩⟩⟩
      · rintro ⟨hx, h | ⟨h3, h⟩⟩
        · exact Or.inl h
        · have := (isAnc_iff w hx).1 h
          exact Or.inr ⟨this.1, this.2, h3⟩

theorem descendants_sorted (ws : Bool) : (iterDescendants m a ws n).Pairwise (· < ·) := by
  unfold iterDescendants descBelow
  cases hv : isDummyDoc m n with
  | true =>
    have hn0 : n = 0 := by
      unfold isDummyDoc at hv
      simp only [Bool.and_eq_true, beq_iff_eq] at hv
      exact hv.2
    subst hn0
    have h1 : (1 :: descRange a 1).Pairwise (· < ·) :=
      cons_sorted (descRange_sorted 1) (fun y hy => ((mem_descRange 1 y).1 hy).1)
    simp only [if_true]
    split
    · cases ws with
      | false => simpa using h1
      | true =>
        simp only [if_true, List.singleton_append]
        apply cons_sorted h1
        intro y hy
        rw [List.mem_cons, mem_descRange] at hy
        rcases hy with rfl | hy <;> omega
    · cases ws <;> simp
  | false =>
    simp only [Bool.false_eq_true, if_false]
    split
    · cases ws with
      | false => simpa using descRange_sorted n
      | true =>
        simp only [if_true, List.singleton_append]
        exact cons_sorted (descRange_sorted n) (fun y hy => ((mem_descRange n y).1 hy).1)
    · cases ws <;> simp

theorem descendant_eq (w : WF m a) (hn : n < a.length) :
    iterAxis m a .descendant n = (allNodes a).filter (onAxis m a .descendant n) := by
  apply eq_range_filter (descendants_sorted false)
  intro x
  rw [descendants_mem w hn]
  simp only [onAxis, isAttrOrNs_eq, isV_eq, Bool.false_eq_true, false_and, false_or,
    Bool.and_eq_true, Bool.not_eq_true', Bool.or_eq_true, decide_eq_true_eq]

theorem descendantOrSelf_eq (w : WF m a) (hn : n < a.length) :
    iterAxis m a .descendantOrSelf n = (allNodes a).filter (onAxis m a .descendantOrSelf n) := by
  apply eq_range_filter (descendants_sorted true)
  intro x
  rw [descendants_mem w hn]
  simp only [onAxis, isAttrOrNs_eq, isV_eq, true_and,
    Bool.and_eq_true, Bool.not_eq_true', Bool.or_eq_true, decide_eq_true_eq, beq_iff_eq]

theorem parent_eq (w : WF m a) (hn : n < a.length) :
    iterAxis m a .parent n = (allNodes a).filter (onAxis m a .parent n) := by
  have key : iterParent m a n = match par a n with | some p => [p] | none => [] := by
    unfold iterParent
    split
    · rfl
    · rename_i h
      simp only [Bool.or_eq_true, bne_iff_ne, ne_eq, not_or, Bool.not_eq_true, Decidable.not_not] at h
      have hm : m = .frag := by cases m <;> simp [hasDoc] at h ⊢
      subst hm
      have : n = 0 := by simpa [rootIdx] using h.2
      subst this
      rw [w.rootNone 0 hn (by simp [isRoot])]
  apply eq_range_filter
  · simp only [iterAxis, key]; split <;> simp
  · intro x
    simp only [iterAxis, key, onAxis, beq_iff_eq]
    cases hp : par a n with
    | none => simp
    | some p =>
      simp only [List.mem_singleton, Option.some.injEq]
      constructor
      · rintro rfl; exact ⟨w.par_lt_len hn hp, rfl⟩
      · rintro ⟨_, h⟩; exact h.symm

/-- the chain used by `iter_ancestors`, with or without its guard, is the spec's chain -/
theorem ancestors_chain (w : WF m a) (hn : n < a.length) :
    (if (hasDoc m || n != rootIdx m) = true then ancChain m a n n else []) = ancOf a n := by
  unfold ancOf
  split
  · exact ancChain_eq w n n hn
  · rename_i h
    simp only [Bool.or_eq_true, bne_iff_ne, ne_eq, not_or, Bool.not_eq_true, Decidable.not_not] at h
    have hm : m = .frag := by cases m <;> simp [hasDoc] at h ⊢
    subst hm
    have : n = 0 := by simpa [rootIdx] using h.2
    subst this
    rfl

theorem ancestors_eq (w : WF m a) (hn : n < a.length) (os : Bool) :
    iterAncestors m a os n =
      (allNodes a).filter (fun i => (os && i == n) || isAnc a i n) := by
  have hch := ancestors_chain w hn
  have ⟨hs1, hs2⟩ := ancUp_sorted w n n hn
  apply eq_range_filter
  · unfold iterAncestors
    simp only [Bool.or_eq_true] at hch
    simp only [Bool.or_eq_true, hch]
    rw [List.pairwise_reverse]
    cases os with
    | false => simpa [ancOf] using hs1
    | true =>
      simp only [if_true, List.singleton_append, List.pairwise_cons]
      exact ⟨fun y hy => hs2 y hy, hs1⟩
  · intro x
    unfold iterAncestors
    simp only [Bool.or_eq_true] at hch
    simp only [Bool.or_eq_true, hch, List.mem_reverse, List.mem_append, isAnc, List.contains_iff_mem,
      Bool.and_eq_true, beq_iff_eq]
    constructor
    · rintro (h | h)
      · cases os with
        | false => simp at h
        | true => simp only [if_true, List.mem_singleton] at h; subst h; exact ⟨hn, Or.inl ⟨rfl, rfl⟩⟩
      · have := hs2 x h
        exact ⟨by omega, Or.inr h⟩
    · rintro ⟨_, ⟨h1, rfl⟩ | h⟩
      · left; simp [h1]
      · exact Or.inr h

theorem ancestor_eq (w : WF m a) (hn : n < a.length) :
    iterAxis m a .ancestor n = (allNodes a).filter (onAxis m a .ancestor n) := by
  simp only [iterAxis]
  rw [ancestors_eq w hn false]
  apply range_filter_congr; intro i _; simp [onAxis]

theorem ancestorOrSelf_eq (w : WF m a) (hn : n < a.length) :
    iterAxis m a .ancestorOrSelf n = (allNodes a).filter (onAxis m a .ancestorOrSelf n) := by
  simp only [iterAxis]
  rw [ancestors_eq w hn true]
  apply range_filter_congr; intro i _; simp [onAxis]

/-- the guard `document is not None or item is not root` never changes the result: the root of a
fragment has no parent anyway -/
theorem guard_irrel (w : WF m a) (hn : n < a.length) {β : Type} (f : Option Nat → List β) (hf : f none = []) :
    (if (hasDoc m || n != rootIdx m) = true then f (par a n) else []) = f (par a n) := by
  split
  · rfl
  · rename_i h
    simp only [Bool.or_eq_true, bne_iff_ne, ne_eq, not_or, Bool.not_eq_true, Decidable.not_not] at h
    have hm : m = .frag := by cases m <;> simp [hasDoc] at h ⊢
    subst hm
    have : n = 0 := by simpa [rootIdx] using h.2
    subst this
    rw [w.rootNone 0 hn (by simp [isRoot]), hf]

theorem mem_children_self (w : WF m a) {n p : Nat} (hn : n < a.length) (hp : par a n = some p)
    (han : isAN a n = false) : n ∈ childrenOf a p := by
  rw [mem_childrenOf]
  have := w.parLt n p hn hp
  exact ⟨this.1, this.2, han, hp⟩

theorem followingSibling_eq (w : WF m a) (hn : n < a.length) :
    iterAxis m a .followingSibling n = (allNodes a).filter (onAxis m a .followingSibling n) := by
  have key : iterFollowingSiblings m a n =
      match par a n with
      | some p => if isAN a n then [] else ((childrenOf a p).dropWhile (· != n)).drop 1
      | none => [] := by
    unfold iterFollowingSiblings
    exact guard_irrel w hn (fun o => match o with
      | some p => if isAN a n then [] else ((childrenOf a p).dropWhile (· != n)).drop 1
      | none => []) rfl
  simp only [iterAxis, key]
  cases hp : par a n with
  | none =>
    simp only
    symm
    rw [List.filter_eq_nil_iff]
    intro i _
    simp [onAxis, hp]
  | some p =>
    simp only
    cases han : isAN a n with
    | true =>
      simp only [if_true]
      symm
      rw [List.filter_eq_nil_iff]
      intro i _
      simp [onAxis, han]
    | false =>
      simp only [Bool.false_eq_true, if_false]
      rw [sorted_dropWhile_ne (childrenOf_sorted p) (mem_children_self w hn hp han)]
      apply eq_range_filter (List.Pairwise.sublist List.filter_sublist (childrenOf_sorted p))
      intro x
      simp only [List.mem_filter, mem_childrenOf, decide_eq_true_eq, onAxis, isAttrOrNs_eq, hp,
        Option.isSome_some, Bool.and_true, han, Bool.not_false, Bool.true_and, Bool.and_eq_true,
        Bool.not_eq_true', beq_iff_eq]
      constructor
      · rintro ⟨⟨h1, h2, h3, h4⟩, h5⟩
        have := w.bound p (w.par_lt_len hn hp)
        exact ⟨by omega, ⟨h3, h4⟩, h5⟩
      · rintro ⟨hx, ⟨h3, h4⟩, h5⟩
        have := w.parLt x p hx h4
        exact ⟨⟨this.1, this.2, h3, h4⟩, h5⟩

theorem precedingSibling_eq (w : WF m a) (hn : n < a.length) :
    iterAxis m a .precedingSibling n = (allNodes a).filter (onAxis m a .precedingSibling n) := by
  have key : iterPrecedingSiblings m a n =
      match par a n with
      | some p => if isAN a n then [] else (childrenOf a p).takeWhile (· != n)
      | none => [] := by
    unfold iterPrecedingSiblings
    exact guard_irrel w hn (fun o => match o with
      | some p => if isAN a n then [] else (childrenOf a p).takeWhile (· != n)
      | none => []) rfl
  simp only [iterAxis, key]
  cases hp : par a n with
  | none =>
    simp only
    symm
    rw [List.filter_eq_nil_iff]
    intro i _
    simp [onAxis, hp]
  | some p =>
    simp only
    cases han : isAN a n with
    | true =>
      simp only [if_true]
      symm
      rw [List.filter_eq_nil_iff]
      intro i _
      simp [onAxis, han]
    | false =>
      simp only [Bool.false_eq_true, if_false]
      rw [sorted_takeWhile_ne (childrenOf_sorted p) (mem_children_self w hn hp han)]
      apply eq_range_filter (List.Pairwise.sublist List.filter_sublist (childrenOf_sorted p))
      intro x
      simp only [List.mem_filter, mem_childrenOf, decide_eq_true_eq, onAxis, isAttrOrNs_eq, hp,
        Option.isSome_some, Bool.and_true, han, Bool.not_false, Bool.true_and, Bool.and_eq_true,
        Bool.not_eq_true', beq_iff_eq]
      constructor
      · rintro ⟨⟨h1, h2, h3, h4⟩, h5⟩
        exact ⟨by omega, ⟨h3, h4⟩, h5⟩
      · rintro ⟨hx, ⟨h3, h4⟩, h5⟩
        have := w.parLt x p hx h4
        exact ⟨⟨this.1, this.2, h3, h4⟩, h5⟩

/-! ### attribute and namespace -/

theorem attrs_or_nss_eq (w : WF m a) (hn : n < a.length) (k : Kind) (hk : k = .attr ∨ k = .ns) :
    (if kd a n == .elem then (List.range' (n + 1) (sz a n)).filter (fun i => par a i == some n && kd a i == k) else [])
      = (allNodes a).filter (fun i => kd a i == k && par a i == some n) := by
  apply eq_range_filter
  · split
    · exact List.Pairwise.sublist List.filter_sublist (range'_sorted _ _)
    · simp
  · intro x
    cases he : kd a n == .elem with
    | true =>
      simp only [if_true, List.mem_filter, List.mem_range'_1, Bool.and_eq_true, beq_iff_eq]
      have hb := w.bound n hn
      constructor
      · rintro ⟨⟨h1, h2⟩, h3, h4⟩; exact ⟨by omega, h4, h3⟩
      · rintro ⟨hx, h4, h3⟩
        have := w.parLt x n hx h3
        exact ⟨⟨by omega, by omega⟩, h3, h4⟩
    | false =>
      simp only [Bool.false_eq_true, if_false, List.not_mem_nil, false_iff, not_and, Bool.and_eq_true,
        beq_iff_eq]
      intro hx hkx hp
      have han : isAN a x = true := by
        unfold isAN; rcases hk with rfl | rfl <;> simp [hkx]
      have := w.owner x n hx hp han
      simp [this] at he

theorem attribute_eq (w : WF m a) (hn : n < a.length) :
    iterAxis m a .attribute n = (allNodes a).filter (onAxis m a .attribute n) := by
  simp only [iterAxis, attributeAxis]
  cases hk : kd a n == .attr with
  | true =>
    -- an attribute node has no attributes: `select__attribute_reference_or_axis` returns at once
    simp only [if_true]
    symm
    rw [List.filter_eq_nil_iff]
    intro i hi
    have hi' : i < a.length := List.mem_range.1 hi
    have hed : isED a n = false := by
      have : kd a n = .attr := by simpa using hk
      simp [isED, this]
    have := w.leaf_no_child hi' hed hn
    simp [onAxis, this]
  | false =>
    simp only [Bool.false_eq_true, if_false, iterAttributes, hk]
    have := attrs_or_nss_eq w hn .attr (Or.inl rfl)
    unfold attrsOf
    rw [show (if (kd a n == Kind.elem) = true then
          List.filter (fun i => par a i == some n && kd a i == Kind.attr) (List.range' (n + 1) (sz a n)) else [])
        = _ from this]
    rfl

theorem namespace_eq (w : WF m a) (hn : n < a.length) :
    iterAxis m a .namespace n = (allNodes a).filter (onAxis m a .namespace n) := by
  simp only [iterAxis, iterNamespaces]
  have := attrs_or_nss_eq w hn .ns (Or.inr rfl)
  unfold nssOf
  rw [show (if (kd a n == Kind.elem) = true then
        List.filter (fun i => par a i == some n && kd a i == Kind.ns) (List.range' (n + 1) (sz a n)) else [])
      = _ from this]
  rfl

/-! ### following -/

theorem WF.root_kind (w : WF m a) : isAN a (rootIdx m) = false := by
  have hs := w.shape
  cases m <;> simp only [rootIdx] at hs ⊢
  · exact isAN_false_of_doc hs.1
  · exact isAN_false_of_elem hs.2.2.2.1
  · exact isAN_false_of_elem hs.1

theorem not_v_of_pos {x : Nat} (h : 0 < x) : isDummyDoc m x = false := by
  unfold isDummyDoc
  have : (x == 0) = false := by simp; omega
  simp [this]

/-- the pinned helper `iter_followings`, for the context kinds it serves -/
theorem iterFollowings_eq (w : WF m a) (hn : n < a.length) (han : isAN a n = false) :
    iterFollowings m a n = (allNodes a).filter (onAxis m a .following n) := by
  simp only [iterFollowings, han, Bool.false_or]
  cases hd : kd a n == .doc with
  | true =>
    simp only [if_true]
    symm
    rw [List.filter_eq_nil_iff]
    intro i hi
    have hi' : i < a.length := List.mem_range.1 hi
    have hn0 := w.docZero n hn (by simpa using hd)
    subst hn0
    have hs := w.shape
    simp only [onAxis, isAttrOrNs_eq, isV_eq, Bool.not_eq_true, Bool.and_eq_false_iff,
      Bool.not_eq_false', decide_eq_false_iff_not]
    cases m with
    | doc =>
      simp only at hs
      by_cases h0 : 0 < i
      · have : isAnc a 0 i = true := (isAnc_iff w hi').2 ⟨h0, by omega⟩
        simp [this]
      · simp [h0]
    | dummy => simp [isDummyDoc]
    | frag =>
      simp only at hs
      rw [hs.1] at hd; cases hd
  | false =>
    simp only [Bool.false_eq_true, if_false]
    have hv : isDummyDoc m n = false := by
      cases hv : isDummyDoc m n with
      | false => rfl
      | true => have := w.v_is_doc hv; rw [this.2.1, this.2.2.1] at hd; cases hd
    rw [topOf_eq w hn hv]
    have ⟨_, hcov, hle⟩ := top_eq_root w (Nat.le_refl n) hn hv
    apply eq_range_filter (List.Pairwise.sublist List.filter_sublist (descRange_sorted _))
    intro x
    simp only [List.mem_filter, mem_descRange, Bool.and_eq_true, decide_eq_true_eq, Bool.not_eq_true',
      onAxis, isAttrOrNs_eq, isV_eq, hv, Bool.not_false, Bool.true_and]
    have hdesc : ∀ x, n < x → x < a.length → isAN a x = false →
        ((if kd a n == Kind.elem then n :: descRange a n else []).contains x = isAnc a n x) := by
      intro x hnx hx hax
      cases hisanc : isAnc a n x with
      | true =>
        have := (isAnc_iff w hx).1 hisanc
        cases he : kd a n == .elem with
        | true =>
          simp only [if_true, List.contains_iff_mem, List.mem_cons, mem_descRange]
          exact Or.inr ⟨this.1, this.2, hax⟩
        | false =>
          have hed : isED a n = false := by simp [isED, he, hd]
          have := w.leaf n hn hed
          omega
      | false =>
        have hnot : ¬ (n < x ∧ x ≤ n + sz a n) := by
          intro h; rw [(isAnc_iff w hx).2 h] at hisanc; cases hisanc
        cases he : kd a n == .elem with
        | true =>
          simp only [if_true]
          rw [Bool.eq_false_iff]
          intro hc
          rw [List.contains_iff_mem, List.mem_cons, mem_descRange] at hc
          rcases hc with rfl | hc
          · omega
          · exact hnot ⟨hc.1, hc.2.1⟩
        | false => simp
    constructor
    · rintro ⟨⟨h1, h2, h3⟩, h4, h5⟩
      have hx : x < a.length := by omega
      rw [hdesc x h4 hx h3] at h5
      refine ⟨hx, ⟨⟨⟨?_, h4⟩, h5⟩, h3⟩⟩
      exact not_v_of_pos (by omega)
    · rintro ⟨hx, ⟨⟨⟨_, h4⟩, h5⟩, h3⟩⟩
      rw [← hdesc x h4 hx h3] at h5
      exact ⟨⟨by omega, by omega, h3⟩, h4, h5⟩

/-! ### preceding -/

theorem preceding_eq (w : WF m a) (hn : n < a.length) :
    iterAxis m a .preceding n = (allNodes a).filter (onAxis m a .preceding n) := by
  have key : iterPreceding m a n =
      match par a n with
      | none => []
      | some r0 =>
        ((((r0 :: ancChain m a r0 r0).getLast?.getD r0) ::
            descRange a ((r0 :: ancChain m a r0 r0).getLast?.getD r0)).takeWhile
              (· != (if isAN a n then r0 else n))).filter
          (fun i => !(r0 :: ancChain m a r0 r0).contains i) := by
    unfold iterPreceding
    exact guard_irrel w hn (fun o => match o with
      | none => []
      | some r0 =>
        ((((r0 :: ancChain m a r0 r0).getLast?.getD r0) ::
            descRange a ((r0 :: ancChain m a r0 r0).getLast?.getD r0)).takeWhile
              (· != (if isAN a n then r0 else n))).filter
          (fun i => !(r0 :: ancChain m a r0 r0).contains i)) rfl
  simp only [iterAxis, key]
  cases hp : par a n with
  | none =>
    simp only
    symm
    rw [List.filter_eq_nil_iff]
    intro i hi
    have hi' : i < a.length := List.mem_range.1 hi
    -- n is a root: nothing precedes it except (dummy mode) the virtual document
    have hr := w.root_of_none hn hp
    unfold isRoot at hr
    simp only [Bool.or_eq_true, beq_iff_eq, Bool.and_eq_true] at hr
    simp only [onAxis, isAttrOrNs_eq, isV_eq, Bool.not_eq_true, Bool.and_eq_false_iff,
      Bool.not_eq_false', decide_eq_false_iff_not]
    rcases hr with rfl | ⟨rfl, rfl⟩
    · simp
    · by_cases h0 : i = 0
      · subst h0; simp [isDummyDoc]
      · have : ¬ i < 1 := by omega
        simp [this]
  | some r0 =>
    simp only
    have ⟨hr0n, hnr0⟩ := w.parLt n r0 hn hp
    have hr0l : r0 < a.length := by omega
    have hvn : isDummyDoc m n = false := by
      cases hv : isDummyDoc m n with
      | false => rfl
      | true =>
        have := w.v_is_doc hv
        have hnone := w.rootNone n hn (by rw [this.2.1]; simp [isRoot])
        rw [hp] at hnone; cases hnone
    have hvr0 : isDummyDoc m r0 = false := by
      cases hv : isDummyDoc m r0 with
      | false => rfl
      | true =>
        obtain ⟨rfl, rfl, _⟩ := w.v_is_doc hv
        exact absurd hp (w.no_par_zero_dummy hn)
    rw [ancChain_eq w r0 r0 hr0l, List.getLast?_cons, Option.getD_some]
    have ⟨htop, hcov, hle⟩ := top_eq_root w (Nat.le_refl r0) hr0l hvr0
    rw [htop]
    -- chain membership = ancestor of n
    have hchain : ∀ x, (r0 :: ancUp a r0 r0).contains x = isAnc a x n := by
      intro x
      rw [Bool.eq_iff_iff, List.contains_iff_mem, List.mem_cons, mem_ancUp w r0 r0 x (Nat.le_refl _) hr0l,
        isAnc_iff w hn]
      exact (anc_step w hn hp).symm
    -- the stop node
    have hkr0 : isAN a n = true → isAN a r0 = false := fun h =>
      isAN_false_of_elem (w.owner n r0 hn hp h)
    generalize hstop : (if isAN a n = true then r0 else n) = stop
    have hstop_an : isAN a stop = false := by
      rw [← hstop]; split
      · rename_i h; exact hkr0 h
      · rename_i h; simpa using h
    have hstop_rng : rootIdx m ≤ stop ∧ stop ≤ n ∧ r0 ≤ stop := by
      rw [← hstop]; split <;> omega
    have hsorted : (rootIdx m :: descRange a (rootIdx m)).Pairwise (· < ·) :=
      cons_sorted (descRange_sorted _) (fun y hy => ((mem_descRange _ y).1 hy).1)
    have hmem : stop ∈ rootIdx m :: descRange a (rootIdx m) := by
      rw [List.mem_cons, mem_descRange]
      by_cases h : stop = rootIdx m
      · exact Or.inl h
      · exact Or.inr ⟨by omega, by omega, hstop_an⟩
    rw [sorted_takeWhile_ne hsorted hmem]
    apply eq_range_filter
      (List.Pairwise.sublist List.filter_sublist (List.Pairwise.sublist List.filter_sublist hsorted))
    intro x
    simp only [List.mem_filter, List.mem_cons, mem_descRange, decide_eq_true_eq, Bool.not_eq_true',
      hchain, onAxis, isAttrOrNs_eq, isV_eq, hvn, Bool.not_false, Bool.true_and, Bool.and_eq_true]
    constructor
    · rintro ⟨⟨hx, hlt⟩, hanc⟩
      have hxn : x < n := by omega
      have hax : isAN a x = false := by
        rcases hx with rfl | hx
        · exact w.root_kind
        · exact hx.2.2
      have hvx : isDummyDoc m x = false := by
        cases hm : m with
        | dummy =>
          have : 1 ≤ x := by
            rcases hx with rfl | hx
            · rw [hm]; simp [rootIdx]
            · rw [hm] at hx; simp [rootIdx] at hx; omega
          exact not_v_of_pos (by omega)
        | doc => simp [isDummyDoc]
        | frag => simp [isDummyDoc]
      exact ⟨by omega, ⟨⟨⟨hvx, hxn⟩, hanc⟩, hax⟩⟩
    · rintro ⟨hx, ⟨⟨⟨hvx, hxn⟩, hanc⟩, hax⟩⟩
      refine ⟨⟨?_, ?_⟩, hanc⟩
      · by_cases h : x = rootIdx m
        · exact Or.inl h
        · right
          refine ⟨?_, by omega, hax⟩
          cases hm : m with
          | dummy =>
            rw [hm] at h hvx
            simp only [rootIdx] at h ⊢
            have : x ≠ 0 := by intro e; subst e; simp [isDummyDoc] at hvx
            omega
          | doc => rw [hm] at h; simp only [rootIdx] at h ⊢; omega
          | frag => rw [hm] at h; simp only [rootIdx] at h ⊢; omega
      · -- x < stop
        rw [← hstop]
        split
        · rename_i hann
          -- n is an attribute / namespace record: everything between its owner and n is one too
          by_cases hlt : x < r0
          · exact hlt
          · exfalso
            by_cases he : x = r0
            · subst he
              have : isAnc a x n = true := (isAnc_iff w hn).2 ⟨hr0n, hnr0⟩
              rw [this] at hanc; cases hanc
            · have := w.anFirst n r0 x hn hp hann (by omega) hxn
              rw [this] at hax; cases hax
        · exact hxn

/-- the following axis, every context kind: for an attribute / namespace node the axis method walks
the owner's descendants, then the owner's following nodes -/
theorem following_eq (w : WF m a) (hn : n < a.length) :
    iterAxis m a .following n = (allNodes a).filter (onAxis m a .following n) := by
  simp only [iterAxis, followingAxis]
  cases han : isAN a n with
  | false => simp only [Bool.false_eq_true, if_false]; exact iterFollowings_eq w hn han
  | true =>
    simp only [if_true]
    have hleaf := w.leaf n hn (isED_false_of_AN han)
    have hvn : isDummyDoc m n = false := by
      cases hv : isDummyDoc m n with
      | false => rfl
      | true =>
        obtain ⟨_, rfl, h0, _⟩ := w.v_is_doc hv
        rw [isAN_false_of_doc h0] at han; cases han
    have hspec : ∀ x, x < a.length → (onAxis m a .following n x = true ↔ (n < x ∧ isAN a x = false)) := by
      intro x hx
      have hanc : isAnc a n x = false := by
        cases h : isAnc a n x with
        | false => rfl
        | true => have := (isAnc_iff w hx).1 h; omega
      simp only [onAxis, isV_eq, isAttrOrNs_eq, hvn, hanc, Bool.not_false, Bool.true_and, Bool.and_true,
        Bool.and_eq_true, Bool.not_eq_true', decide_eq_true_eq]
      constructor
      · rintro ⟨⟨_, h1⟩, h2⟩; exact ⟨h1, h2⟩
      · rintro ⟨h1, h2⟩; exact ⟨⟨not_v_of_pos (by omega), h1⟩, h2⟩
    cases hp : par a n with
    | none =>
      -- no owner: impossible for an attribute / namespace record of a well-formed array
      exfalso
      have hr := w.root_of_none hn hp
      unfold isRoot at hr
      simp only [Bool.or_eq_true, beq_iff_eq, Bool.and_eq_true] at hr
      have hs := w.shape
      rcases hr with rfl | ⟨rfl, rfl⟩
      · cases m <;> simp only at hs
        · rw [isAN_false_of_doc hs.1] at han; cases han
        · rw [isAN_false_of_doc hs.1] at han; cases han
        · rw [isAN_false_of_elem hs.1] at han; cases han
      · simp only at hs; rw [isAN_false_of_elem hs.2.2.2.1] at han; cases han
    | some p =>
      simp only
      have ⟨hpn, hnp⟩ := w.parLt n p hn hp
      have hpl : p < a.length := by omega
      have hpe : kd a p = .elem := w.owner n p hn hp han
      have hpan : isAN a p = false := isAN_false_of_elem hpe
      rw [iterFollowings_eq w hpl hpan]
      have hvp : isDummyDoc m p = false := by
        cases hv : isDummyDoc m p with
        | false => rfl
        | true => obtain ⟨_, rfl, h0, _⟩ := w.v_is_doc hv; rw [h0] at hpe; cases hpe
      -- membership of the second part
      have hfol : ∀ x, x ∈ (allNodes a).filter (onAxis m a .following p) ↔
          x < a.length ∧ p + sz a p < x ∧ isAN a x = false := by
        intro x
        simp only [allNodes, List.mem_filter, List.mem_range, onAxis, isV_eq, isAttrOrNs_eq, hvp,
          Bool.not_false, Bool.true_and, Bool.and_eq_true, Bool.not_eq_true', decide_eq_true_eq]
        constructor
        · rintro ⟨hx, ⟨⟨⟨_, h1⟩, h2⟩, h3⟩⟩
          refine ⟨hx, ?_, h3⟩
          by_cases hle : x ≤ p + sz a p
          · have := (isAnc_iff w hx).2 ⟨h1, hle⟩; rw [this] at h2; cases h2
          · omega
        · rintro ⟨hx, h1, h3⟩
          refine ⟨hx, ⟨⟨⟨not_v_of_pos (by omega), by omega⟩, ?_⟩, h3⟩⟩
          cases h : isAnc a p x with
          | false => rfl
          | true => have := (isAnc_iff w hx).1 h; omega
      apply eq_range_filter
      · rw [List.pairwise_append]
        refine ⟨descRange_sorted p, range_filter_sorted _ _, ?_⟩
        intro x hx y hy
        have h1 := (mem_descRange p x).1 hx
        have h2 := (hfol y).1 hy
        omega
      · intro x
        rw [List.mem_append, mem_descRange, hfol]
        have hb := w.bound p hpl
        constructor
        · rintro (⟨h1, h2, h3⟩ | ⟨hx, h1, h3⟩)
          · have hx : x < a.length := by omega
            refine ⟨hx, (hspec x hx).2 ⟨?_, h3⟩⟩
            -- between the owner and the attribute there are only attribute / namespace records
            by_cases hlt : n < x
            · exact hlt
            · exfalso
              by_cases he : x = n
              · subst he; rw [han] at h3; cases h3
              · have := w.anFirst n p x hn hp han h1 (by omega)
                rw [this] at h3; cases h3
          · exact ⟨hx, (hspec x hx).2 ⟨by omega, h3⟩⟩
        · rintro ⟨hx, hon⟩
          have ⟨h1, h3⟩ := (hspec x hx).1 hon
          by_cases hle : x ≤ p + sz a p
          · exact Or.inl ⟨by omega, hle, h3⟩
          · exact Or.inr ⟨hx, by omega, h3⟩

/-! ### all thirteen -/

theorem axis_eq (w : WF m a) (hn : n < a.length) (ax : Axis) :
    iterAxis m a ax n = (allNodes a).filter (onAxis m a ax n) := by
  cases ax with
  | self => exact self_eq hn
  | child => exact child_eq w hn
  | descendant => exact descendant_eq w hn
  | descendantOrSelf => exact descendantOrSelf_eq w hn
  | parent => exact parent_eq w hn
  | ancestor => exact ancestor_eq w hn
  | ancestorOrSelf => exact ancestorOrSelf_eq w hn
  | followingSibling => exact followingSibling_eq w hn
  | precedingSibling => exact precedingSibling_eq w hn
  | following => exact following_eq w hn
  | preceding => exact preceding_eq w hn
  | «attribute» => exact attribute_eq w hn
  | «namespace» => exact namespace_eq w hn

end EPV.XP

/-
C06: the decimal context.  Python's `decimal` rounds every result to 28 significant digits, ties to even;
the lemmas show that the modelled `Decimal.__truediv__` and the context rounding `ctx28` are exactly
`FOArith.round28` of the exact rational result, for all operands.
-/
import EPV.Lemmas.ArithOps
open EPV.FOArith
namespace EPV.Arith

theorem numDigits10_eq_if (n : Nat) : numDigits10 n = if n < 10 then 1 else numDigits10 (n / 10) + 1 := by
  unfold numDigits10
  rw [Nat.toDigits_eq_if (by norm_num : 1 < 10)]
  split <;> simp

theorem numDigits10_pos (n : Nat) : 1 ≤ numDigits10 n := by
  rw [numDigits10_eq_if]; split <;> omega

theorem lt_pow_numDigits10 (n : Nat) : n < 10 ^ numDigits10 n := by
  induction n using Nat.strong_induction_on with
  | _ n ih =>
    rw [numDigits10_eq_if]
    split
    · omega
    · rename_i h
      have := ih (n / 10) (by omega)
      rw [pow_succ]
      omega

theorem pow_numDigits10_le (n : Nat) (hn : 0 < n) : 10 ^ (numDigits10 n - 1) ≤ n := by
  induction n using Nat.strong_induction_on with
  | _ n ih =>
    rw [numDigits10_eq_if]
    split
    · simp; omega
    · rename_i h
      have := ih (n / 10) (by omega) (by omega)
      have hp := numDigits10_pos (n / 10)
      have e : numDigits10 (n / 10) + 1 - 1 = (numDigits10 (n / 10) - 1) + 1 := by omega
      rw [e, pow_succ]
      omega


theorem ilog10_bounds_raw (a : Rat) (ha : 0 < a) :
    (10 : Rat) ^ ((numDigits10 a.num.natAbs : Int) - (numDigits10 a.den : Int) - 1) < a ∧
    a < (10 : Rat) ^ ((numDigits10 a.num.natAbs : Int) - (numDigits10 a.den : Int) + 1) := by
  have hnum : 0 < a.num := Rat.num_pos.2 ha
  set N := a.num.natAbs with hN
  have hNpos : 0 < N := by omega
  set dn := numDigits10 N
  set dd := numDigits10 a.den
  have h1 := pow_numDigits10_le N hNpos
  have h2 := lt_pow_numDigits10 N
  have h3 := pow_numDigits10_le a.den a.den_pos
  have h4 := lt_pow_numDigits10 a.den
  have hdn := numDigits10_pos N
  have hdd := numDigits10_pos a.den
  have hA : a = (N : Rat) / (a.den : Rat) := (absq_num_div a ha.le).symm
  have q1 : ((10 : Rat) ^ (dn - 1 : Nat)) ≤ (N : Rat) := by exact_mod_cast h1
  have q2 : (N : Rat) < (10 : Rat) ^ (dn : Nat) := by exact_mod_cast h2
  have q3 : ((10 : Rat) ^ (dd - 1 : Nat)) ≤ (a.den : Rat) := by exact_mod_cast h3
  have q4 : (a.den : Rat) < (10 : Rat) ^ (dd : Nat) := by exact_mod_cast h4
  have hDpos : (0 : Rat) < (a.den : Rat) := by exact_mod_cast a.den_pos
  have hNq : (0 : Rat) < (N : Rat) := by exact_mod_cast hNpos
  have p1 : (0 : Rat) < (10 : Rat) ^ (dd : Nat) := by positivity
  have p2 : (0 : Rat) < (10 : Rat) ^ (dd - 1 : Nat) := by positivity
  constructor
  · have e : ((dn : Int) - (dd : Int) - 1) = (((dn - 1 : Nat) : Int)) - ((dd : Nat) : Int) := by omega
    rw [e, zpow_sub₀ (by norm_num : (10 : Rat) ≠ 0), zpow_natCast, zpow_natCast, hA]
    calc (10 : Rat) ^ (dn - 1) / 10 ^ dd ≤ (N : Rat) / 10 ^ dd := by
            apply div_le_div_of_nonneg_right q1 p1.le
      _ < (N : Rat) / (a.den : Rat) := by
            apply div_lt_div_of_pos_left hNq hDpos q4
  · have e : ((dn : Int) - (dd : Int) + 1) = ((dn : Nat) : Int) - (((dd - 1 : Nat)) : Int) := by omega
    rw [e, zpow_sub₀ (by norm_num : (10 : Rat) ≠ 0), zpow_natCast, zpow_natCast, hA]
    calc (N : Rat) / (a.den : Rat) < (10 : Rat) ^ dn / (a.den : Rat) := by
            apply div_lt_div_of_pos_right q2 hDpos
      _ ≤ (10 : Rat) ^ dn / 10 ^ (dd - 1) := by
            apply div_le_div_of_nonneg_left (by positivity) p2 q3


theorem zpow10_lt_succ (e : Int) : (10 : Rat) ^ e < (10 : Rat) ^ (e + 1) :=
  zpow_lt_zpow_right₀ (by norm_num) (by omega)

/-- `ilog10 a` is the decimal exponent of a positive rational: 10^e ≤ a < 10^(e+1) -/
theorem ilog10_spec (a : Rat) (ha : 0 < a) :
    (10 : Rat) ^ (ilog10 a) ≤ a ∧ a < (10 : Rat) ^ (ilog10 a + 1) := by
  obtain ⟨lo, hi⟩ := ilog10_bounds_raw a ha
  unfold ilog10
  simp only []
  generalize ((numDigits10 a.num.natAbs : Int) - (numDigits10 a.den : Int)) = e at *
  by_cases h1 : (10 : Rat) ^ e ≤ a
  · by_cases h2 : (10 : Rat) ^ (e + 1) ≤ a
    · exact absurd hi (not_lt.2 h2)
    · rw [if_pos h1, if_neg h2]
      exact ⟨h1, hi⟩
  · rw [if_neg h1]
    refine ⟨lo.le, ?_⟩
    have : e - 1 + 1 = e := by omega
    rw [this]; exact not_le.1 h1

/-- the exponent is unique -/
theorem ilog10_unique (a : Rat) (ha : 0 < a) (e : Int) (h1 : (10 : Rat) ^ e ≤ a) (h2 : a < (10 : Rat) ^ (e + 1)) :
    ilog10 a = e := by
  obtain ⟨l, u⟩ := ilog10_spec a ha
  have hmono : ∀ x y : Int, (10 : Rat) ^ x < (10 : Rat) ^ y → x < y := by
    intro x y h
    exact (zpow_lt_zpow_iff_right₀ (by norm_num : (1 : Rat) < 10)).1 h
  have a1 : ilog10 a < e + 1 := hmono _ _ (lt_of_le_of_lt l h2)
  have a2 : e < ilog10 a + 1 := hmono _ _ (lt_of_le_of_lt h1 u)
  omega


/-- the rational the two decimals' quotient denotes -/
theorem decQuot_rat (a : Int) (sa : Nat) (b : Int) (sb : Nat) (hb : b ≠ 0) :
    (((a * (p10 sb : Nat) : Int)) : Rat) / (((b * (p10 sa : Nat) : Int)) : Rat) = decVal a sa / decVal b sb := by
  unfold decVal
  have h1 := p10_castR_pos sa
  have h2 := p10_castR_pos sb
  have hb' : (b : Rat) ≠ 0 := by exact_mod_cast hb
  push_cast
  field_simp

/-- value of `sgn * c` at scale `k` (any integer k), as the model's `decDiv` builds it -/
theorem decDiv_value (c : Nat) (neg : Bool) (k : Int) :
    decVal (if 0 ≤ k then ((if neg then -1 else 1 : Int) * c, k.toNat)
            else ((if neg then -1 else 1 : Int) * c * (p10 (-k).toNat : Nat), 0)).1
           (if 0 ≤ k then ((if neg then -1 else 1 : Int) * c, k.toNat)
            else ((if neg then -1 else 1 : Int) * c * (p10 (-k).toNat : Nat), 0)).2
      = (if neg then -(c : Rat) else c) / pow10 k := by
  by_cases hk : 0 ≤ k
  · simp only [hk, if_true, decVal]
    rw [pow10_nonneg_eq k hk]
    cases neg <;> simp
  · simp only [hk, if_false, decVal]
    rw [pow10_neg_eq k (by omega)]
    cases neg <;> simp [p10]

/-- `Decimal.__truediv__` (as modelled) is the exact quotient rounded half-even to 28 significant digits -/
theorem decDiv_eq_round28 (a : Int) (sa : Nat) (b : Int) (sb : Nat) (hb : b ≠ 0) :
    decVal (decDiv a sa b sb).1 (decDiv a sa b sb).2 = round28 (decVal a sa / decVal b sb) := by
  rw [← decQuot_rat a sa b sb hb]
  unfold decDiv round28
  simp only []
  generalize (((a * (p10 sb : Nat) : Int)) : Rat) / (((b * (p10 sa : Nat) : Int)) : Rat) = q
  by_cases hq : q = 0
  · simp [hq, decVal]
  · simp only [hq, if_false]
    set m := (if q < 0 then -q else q) with hm
    have hmpos : 0 ≤ m := by rw [hm]; split <;> linarith
    set k : Int := 27 - ilog10 m with hk
    have hsc : 0 ≤ m * (10 : Rat) ^ k := mul_nonneg hmpos (le_of_lt (pow10_pos k))
    have hc := roundMag_halfEven (m * (10 : Rat) ^ k).num.natAbs (m * (10 : Rat) ^ k).den (Rat.den_pos _)
    rw [absq_num_div _ hsc] at hc
    have hv := decDiv_value (roundMag .halfEven (m * (10 : Rat) ^ k).num.natAbs (m * (10 : Rat) ^ k).den)
      (decide (q < 0)) k
    by_cases hn : q < 0
    · simp only [hn, if_true, decide_true] at hv hm ⊢
      rw [hv]
      have : q * pow10 k = -(m * (10 : Rat) ^ k) := by rw [hm]; unfold pow10; ring
      rw [this, nearestEven_neg, ← hc]; push_cast; rfl
    · simp only [hn, if_false, decide_false] at hv hm ⊢
      have hv' := hv
      simp only [Bool.false_eq_true, if_false] at hv'
      rw [hv']
      have : q * pow10 k = m * (10 : Rat) ^ k := by rw [hm]; rfl
      rw [this, ← hc]; push_cast; rfl


theorem nearestEven_intCast' (m : Int) : nearestEven (m : Rat) = m :=
  nearestEven_lo (m : Rat) m (Rat.floor_intCast m) (by simp)

theorem abs_decVal (n : Int) (s : Nat) :
    (if decVal n s < 0 then -decVal n s else decVal n s) = ((n.natAbs : Nat) : Rat) / ((p10 s : Nat) : Rat) := by
  have hp := p10_castR_pos s
  by_cases hn : n < 0
  · have : decVal n s < 0 := (decVal_neg_iff n s).2 hn
    rw [if_pos this]; unfold decVal
    have : ((n.natAbs : Nat) : Rat) = -(n : Rat) := by
      obtain ⟨k, hk⟩ := Int.eq_ofNat_of_zero_le (by omega : 0 ≤ -n)
      have e : n.natAbs = k := by omega
      have e2 : (n : Rat) = -((k : Nat) : Rat) := by
        have : n = -(k : Int) := by omega
        rw [this]; push_cast; rfl
      rw [e, e2]; ring
    rw [this]; ring
  · have : ¬ decVal n s < 0 := fun h => hn ((decVal_neg_iff n s).1 h)
    rw [if_neg this]; unfold decVal
    have : ((n.natAbs : Nat) : Rat) = (n : Rat) := by
      obtain ⟨k, hk⟩ := Int.eq_ofNat_of_zero_le (by omega : 0 ≤ n)
      have e : n.natAbs = k := by omega
      rw [e, hk]; simp
    rw [this]

/-- decimal exponent of a non-zero decimal: (digits of the coefficient) − 1 − scale -/
theorem ilog10_decVal (n : Int) (s : Nat) (hn : n ≠ 0) :
    ilog10 (if decVal n s < 0 then -decVal n s else decVal n s) = (numDigits10 n.natAbs : Int) - 1 - s := by
  rw [abs_decVal]
  have hc : 0 < n.natAbs := by omega
  have h1 := pow_numDigits10_le n.natAbs hc
  have h2 := lt_pow_numDigits10 n.natAbs
  have hd := numDigits10_pos n.natAbs
  set c := n.natAbs
  set d := numDigits10 c
  have hp := p10_castR_pos s
  have hcq : (0 : Rat) < (c : Rat) := by exact_mod_cast hc
  have q1 : ((10 : Rat) ^ (d - 1 : Nat)) ≤ (c : Rat) := by exact_mod_cast h1
  have q2 : (c : Rat) < (10 : Rat) ^ (d : Nat) := by exact_mod_cast h2
  apply ilog10_unique _ (div_pos hcq hp)
  · have e : ((d : Int) - 1 - (s : Int)) = (((d - 1 : Nat) : Int)) - ((s : Nat) : Int) := by omega
    rw [e, zpow_sub₀ (by norm_num : (10 : Rat) ≠ 0), zpow_natCast, zpow_natCast, p10_cast]
    exact div_le_div_of_nonneg_right q1 (by positivity)
  · have e : ((d : Int) - 1 - (s : Int) + 1) = ((d : Nat) : Int) - ((s : Nat) : Int) := by omega
    rw [e, zpow_sub₀ (by norm_num : (10 : Rat) ≠ 0), zpow_natCast, zpow_natCast, p10_cast]
    exact div_lt_div_of_pos_right q2 (by positivity)


theorem pow10_sub_nat (a b : Nat) : pow10 ((a : Int) - (b : Int)) = ((p10 a : Nat) : Rat) / ((p10 b : Nat) : Rat) := by
  unfold pow10
  rw [zpow_sub₀ (by norm_num : (10 : Rat) ≠ 0), zpow_natCast, zpow_natCast, p10_cast, p10_cast]

/-- the context rounding of a Decimal result is `round28` of its value, whatever its size -/
theorem ctx28_eq_round28 (n : Int) (s : Nat) :
    decVal (ctx28 n s).1 (ctx28 n s).2 = round28 (decVal n s) := by
  by_cases hn : n = 0
  · subst hn
    have : numDigits (0 : Int).natAbs ≤ 28 := by decide
    rw [ctx28_of_fits _ _ this]; simp [decVal, round28]
  have hv0 : decVal n s ≠ 0 := fun h => hn ((decVal_eq_zero_iff n s).1 h)
  have hps := p10_castR_pos s
  unfold round28
  simp only [hv0, if_false]
  rw [ilog10_decVal n s hn]
  set c := n.natAbs with hc
  set d := numDigits10 c with hd
  have hdpos := numDigits10_pos c
  by_cases hfit : d ≤ 28
  · -- at most 28 digits: nothing is rounded
    rw [ctx28_of_fits n s hfit]
    have hk : (27 : Int) - ((d : Int) - 1 - (s : Int)) = (((28 - d) + s : Nat) : Int) := by omega
    rw [hk]
    have e1 : pow10 (((28 - d) + s : Nat) : Int) = ((p10 (28 - d) : Nat) : Rat) * ((p10 s : Nat) : Rat) := by
      unfold pow10; rw [zpow_natCast, pow_add, p10_cast, p10_cast]
    rw [e1]
    have hp2 := p10_castR_pos (28 - d)
    have e2 : decVal n s * (((p10 (28 - d) : Nat) : Rat) * ((p10 s : Nat) : Rat)) =
        ((n * (p10 (28 - d) : Nat) : Int) : Rat) := by
      unfold decVal; push_cast; field_simp
    rw [e2, nearestEven_intCast']
    unfold decVal; push_cast; field_simp
  · -- more than 28 digits
    have hgt : 28 < d := by omega
    set k := d - 28 with hk
    have hctx : ctx28 n s =
        (if (0 : Int) ≤ (s : Int) - (k : Int) then
          ((if decide (n < 0) then -1 else 1 : Int) * (roundMag .halfEven c (p10 k) : Nat), ((s : Int) - (k : Int)).toNat)
         else ((if decide (n < 0) then -1 else 1 : Int) * (roundMag .halfEven c (p10 k) : Nat) *
                (p10 (-((s : Int) - (k : Int))).toNat : Nat), 0)) := by
      unfold ctx28
      simp only []
      have : ¬ numDigits n.natAbs ≤ 28 := by show ¬ d ≤ 28; omega
      rw [if_neg this]
      show (if d - 28 ≤ s then _ else _) = _
      by_cases hks : k ≤ s
      · have h0 : (0 : Int) ≤ (s : Int) - (k : Int) := by omega
        rw [if_pos hks, if_pos h0]
        have : ((s : Int) - (k : Int)).toNat = s - k := by omega
        rw [this]
        by_cases hneg : n < 0 <;> simp [hneg] <;> (first | rfl | exact ⟨rfl, rfl⟩ | trace_state)
      · have h0 : ¬ (0 : Int) ≤ (s : Int) - (k : Int) := by omega
        rw [if_neg hks, if_neg h0]
        have : (-((s : Int) - (k : Int))).toNat = k - s := by omega
        rw [this]
        by_cases hneg : n < 0 <;> simp [hneg] <;> (first | rfl | exact ⟨rfl, rfl⟩ | trace_state)
    rw [hctx, decDiv_value]
    have hkk : (27 : Int) - ((d : Int) - 1 - (s : Int)) = (s : Int) - (k : Int) := by omega
    rw [hkk]
    congr 1
    -- the scaled value is n / 10^k
    have hpk := p10_castR_pos k
    have e3 : decVal n s * pow10 ((s : Int) - (k : Int)) = (n : Rat) / ((p10 k : Nat) : Rat) := by
      rw [pow10_sub_nat]; unfold decVal; field_simp
    rw [e3]
    have hc' := roundMag_halfEven c (p10 k) (p10_pos k)
    by_cases hneg : n < 0
    · have : (n : Rat) / ((p10 k : Nat) : Rat) = -(((c : Nat) : Rat) / ((p10 k : Nat) : Rat)) := by
        have : (n : Rat) = -((c : Nat) : Rat) := by
          obtain ⟨m, hm⟩ := Int.eq_ofNat_of_zero_le (by omega : 0 ≤ -n)
          have e : c = m := by omega
          have : n = -(m : Int) := by omega
          rw [e, this]; push_cast; rfl
        rw [this]; ring
      rw [this, nearestEven_neg, ← hc']
      simp [hneg]
    · have : (n : Rat) = ((c : Nat) : Rat) := by
        obtain ⟨m, hm⟩ := Int.eq_ofNat_of_zero_le (by omega : 0 ≤ n)
        have e : c = m := by omega
        rw [e, hm]; simp
      rw [this, ← hc']
      simp [hneg]

theorem decAdd_round28 (a : Int) (sa : Nat) (b : Int) (sb : Nat) :
    decVal (decAdd a sa b sb).1 (decAdd a sa b sb).2 = round28 (decVal a sa + decVal b sb) := by
  unfold decAdd
  simp only []
  rw [ctx28_eq_round28, decVal_add, decVal_align a sa _ (by omega), decVal_align b sb _ (by omega)]

theorem decMul_round28 (a : Int) (sa : Nat) (b : Int) (sb : Nat) :
    decVal (decMul a sa b sb).1 (decMul a sa b sb).2 = round28 (decVal a sa * decVal b sb) := by
  unfold decMul
  rw [ctx28_eq_round28, decVal_mul]

/-- `+ - * div` on xs:integer / xs:decimal operands, ALL operands (no digit bound): the result is the
exact F&O result with the decimal context (28 significant digits, half-even) applied to an xs:decimal
result; integer results are exact and unbounded. -/
theorem addsubmuldiv_exact_ctx (R : Rounding) (v : Ver) (hv : v ≠ .v10) (a b : Num) (x : Int) (sx : Nat) (y : Int) (sy : Nat)
    (ha : asDec a = some (x, sx)) (hb : asDec b = some (y, sy)) :
    (opAdd R a b).map absNum = (specBin R .add (absNum a) (absNum b)).map ctxDec ∧
    (opSub R a b).map absNum = (specBin R .sub (absNum a) (absNum b)).map ctxDec ∧
    (opMul R a b).map absNum = (specBin R .mul (absNum a) (absNum b)).map ctxDec ∧
    (opDiv R v a b).map absNum = (specBin R .div (absNum a) (absNum b)).map ctxDec := by
  have hA := decAdd_round28 x sx y sy
  have hS := decAdd_round28 x sx (-y) sy
  rw [decVal_neg] at hS
  have hM := decMul_round28 x sx y sy
  have hD := fun hy : y ≠ 0 => decDiv_eq_round28 x sx y sy hy
  have hz := decVal_eq_zero_iff y sy
  simp only [decVal] at hA hS hM hD hz
  cases a <;> cases b <;> simp [asDec] at ha hb
  all_goals (obtain ⟨h1, h2⟩ := ha; obtain ⟨h3, h4⟩ := hb; have h1 := h1.symm; have h2 := h2.symm
             have h3 := h3.symm; have h4 := h4.symm; subst h1 h2 h3 h4)
  · -- int, int: integer results are exact; div goes through Decimal
    refine ⟨?_, ?_, ?_, ?_⟩
    · simp [opAdd, coerce, mixedOverflow, intOvf, isFloat, promF, isFlt, isDbl, absNum, specBin, promote, XVal.ty, Ty.rank, XVal.toRat?, exactBin, Except.map, pure,
        Except.pure, ctxDec]
      rw [← Int.cast_add, floor_intCast']
    · simp [opSub, coerce, mixedOverflow, intOvf, isFloat, promF, isFlt, isDbl, absNum, specBin, promote, XVal.ty, Ty.rank, XVal.toRat?, exactBin, Except.map, pure,
        Except.pure, ctxDec]
      rw [← Int.cast_sub, floor_intCast']
    · simp [opMul, coerce, mixedOverflow, intOvf, isFloat, promF, isFlt, isDbl, absNum, specBin, promote, XVal.ty, Ty.rank, XVal.toRat?, exactBin, Except.map, pure,
        Except.pure, ctxDec]
      rw [← Int.cast_mul, floor_intCast']
    · by_cases hy : y = 0
      · cases v <;> simp_all [opDiv, coerce, mixedOverflow, intOvf, isFloat, promF, isFlt, isDbl, isZero, isFloat, absNum, specBin, XVal.toRat?, exactBin, Except.map,
          throw, throwThe, MonadExceptOf.throw]
      · have hyq : (y : Rat) ≠ 0 := by exact_mod_cast hy
        have := hD hy
        simp [opDiv, coerce, mixedOverflow, intOvf, isFloat, promF, isFlt, isDbl, isZero, hy, hyq, asDec, mkDec, absNum, specBin, promote, XVal.ty, Ty.rank, XVal.toRat?,
          exactBin, Except.map, pure, Except.pure, ctxDec]
        simpa [p10] using this
  all_goals
    refine ⟨?_, ?_, ?_, ?_⟩
    · simp [opAdd, coerce, mixedOverflow, intOvf, isFloat, promF, isFlt, isDbl, asDec, mkDec, absNum, specBin, promote, XVal.ty, Ty.rank, XVal.toRat?, exactBin,
        Except.map, pure, Except.pure, ctxDec]
      simpa [p10] using hA
    · simp [opSub, coerce, mixedOverflow, intOvf, isFloat, promF, isFlt, isDbl, asDec, mkDec, absNum, specBin, promote, XVal.ty, Ty.rank, XVal.toRat?, exactBin,
        Except.map, pure, Except.pure, ctxDec]
      simpa [p10, sub_eq_add_neg] using hS
    · simp [opMul, coerce, mixedOverflow, intOvf, isFloat, promF, isFlt, isDbl, asDec, mkDec, absNum, specBin, promote, XVal.ty, Ty.rank, XVal.toRat?, exactBin,
        Except.map, pure, Except.pure, ctxDec]
      simpa [p10] using hM
    · by_cases hy : y = 0
      · cases v <;> simp_all [opDiv, coerce, mixedOverflow, intOvf, isFloat, promF, isFlt, isDbl, isZero, isFloat, absNum, specBin, XVal.toRat?, exactBin, Except.map,
          throw, throwThe, MonadExceptOf.throw, p10]
      · have hyq : (y : Rat) ≠ 0 := by exact_mod_cast hy
        have := hD hy
        simp [opDiv, coerce, mixedOverflow, intOvf, isFloat, promF, isFlt, isDbl, isZero, hy, hyq, asDec, mkDec, absNum, specBin, promote, XVal.ty, Ty.rank, XVal.toRat?,
          exactBin, Except.map, pure, Except.pure, ctxDec, p10_castR_pos]
        simpa [p10] using this


/-- `Decimal.__mod__`: remainder of the truncating division, then the context rounding -/
theorem decMod_eq_round28 (a : Int) (sa : Nat) (b : Int) (sb : Nat) (hb : b ≠ 0) (r : Int × Nat)
    (h : decMod a sa b sb = some r) :
    decVal r.1 r.2 = round28 (decVal a sa - decVal b sb * ((trunc (decVal a sa / decVal b sb) : Int) : Rat)) := by
  have hA := decVal_align a sa (max sa sb) (by omega)
  have hB := decVal_align b sb (max sa sb) (by omega)
  rw [← hA, ← hB, decVal_div_aligned _ _ _ (mul_p10_ne_zero b _ hb),
      trunc_div_int _ _ (mul_p10_ne_zero b _ hb), ← decVal_sub_mul]
  have hm := Int.mul_tdiv_add_tmod (a * (p10 (max sa sb - sa) : Nat)) (b * (p10 (max sa sb - sb) : Nat))
  have : a * (p10 (max sa sb - sa) : Nat) - b * (p10 (max sa sb - sb) : Nat) *
      (a * (p10 (max sa sb - sa) : Nat)).tdiv (b * (p10 (max sa sb - sb) : Nat)) =
      (a * (p10 (max sa sb - sa) : Nat)).tmod (b * (p10 (max sa sb - sb) : Nat)) := by omega
  rw [this, tmod_sign_mag]
  simp only [natAbs_mul_p10, mul_p10_neg_iff]
  by_cases hq : numDigits (decQuotMag a sa b sb) > 28
  · simp [decMod, hq] at h
  · simp only [decMod, hq, if_false, Option.some.injEq] at h
    rw [← h, ctx28_eq_round28]

/-- `mod` on xs:integer / xs:decimal operands (quotient of at most 28 digits, else the code raises):
the exact remainder with the decimal context applied -/
theorem mod_exact_ctx (R : Rounding) (v : Ver) (a b : Num) (x : Int) (sx : Nat) (y : Int) (sy : Nat)
    (ha : asDec a = some (x, sx)) (hb : asDec b = some (y, sy))
    (hq : numDigits (decQuotMag x sx y sy) ≤ 28) :
    (opMod R v a b).map absNum = (specBin R .mod (absNum a) (absNum b)).map ctxDec := by
  have hM := fun (hy : y ≠ 0) r hr => decMod_eq_round28 x sx y sy hy r hr
  obtain ⟨r, hr⟩ := decMod_of_fits x sx y sy hq
  simp only [decVal] at hM
  cases a <;> cases b <;> simp [asDec] at ha hb
  all_goals (obtain ⟨h1, h2⟩ := ha; obtain ⟨h3, h4⟩ := hb; have h1 := h1.symm; have h2 := h2.symm
             have h3 := h3.symm; have h4 := h4.symm; subst h1 h2 h3 h4)
  · have := mod_int_int_eq_spec R v x y
    rw [this]
    by_cases hy : y = 0
    · simp [hy, absNum, specBin, XVal.toRat?, exactBin, Except.map, throw, throwThe, MonadExceptOf.throw]
    · have hyq : (y : Rat) ≠ 0 := by exact_mod_cast hy
      simp [hyq, absNum, specBin, XVal.toRat?, exactBin, promote, XVal.ty, Ty.rank, Except.map, pure, Except.pure, ctxDec]
  all_goals
    by_cases hy : y = 0
    · simp [opMod, coerce, mixedOverflow, intOvf, isFloat, promF, isFlt, isDbl, numIsInf, isZero, isFloat, hy, absNum, specBin, XVal.toRat?, exactBin, asDec,
        Except.map, throw, throwThe, MonadExceptOf.throw, p10]
    · have hyq : (y : Rat) ≠ 0 := by exact_mod_cast hy
      have := hM hy r hr
      simp [opMod, coerce, mixedOverflow, intOvf, isFloat, promF, isFlt, isDbl, numIsInf, isZero, isFloat, hy, hyq, absNum, specBin, XVal.toRat?, exactBin, promote,
        XVal.ty, Ty.rank, Except.map, pure, Except.pure, asDec, hr, mkDec, p10_castR_pos, ctxDec]
      simpa [p10] using this

/-- unary minus, unary plus and fn:abs on an xs:decimal: exact, then the decimal context -/
theorem neg_pos_abs_dec_ctx (R : Rounding) (n : Int) (s : Nat) :
    absNum (opNeg (.dec n s)) = ctxDec (specUn R .neg (.decimal (decVal n s))) ∧
    absNum (opPos (.dec n s)) = ctxDec (specUn R .pos (.decimal (decVal n s))) ∧
    absNum (fnAbs (.dec n s)) = ctxDec (specUn R .abs (.decimal (decVal n s))) := by
  have h1 := ctx28_eq_round28 (-n) s
  have h2 := ctx28_eq_round28 n s
  have h3 := ctx28_eq_round28 (n.natAbs : Int) s
  rw [decVal_neg] at h1
  have habs : decVal (n.natAbs : Int) s = if decVal n s < 0 then -decVal n s else decVal n s := by
    by_cases hn : n < 0
    · have : decVal n s < 0 := (decVal_neg_iff n s).2 hn
      rw [if_pos this, ← decVal_neg]; congr 1; omega
    · have : ¬ decVal n s < 0 := fun h => hn ((decVal_neg_iff n s).1 h)
      rw [if_neg this]; congr 1; omega
  rw [habs] at h3
  refine ⟨?_, ?_, ?_⟩
  · simp only [opNeg, mkDec, absNum, specUn, exactUn, ctxDec]; exact congrArg _ h1
  · simp only [opPos, mkDec, absNum, specUn, exactUn, ctxDec]; exact congrArg _ h2
  · simp only [fnAbs, mkDec, absNum, specUn, exactUn, ctxDec]; exact congrArg _ h3


end EPV.Arith

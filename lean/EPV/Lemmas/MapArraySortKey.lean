/-
C15 (phase 5) — the comparator of array:sort with special values (`XKey.lt`, `xLe`) is a strict total
order / total preorder; straight insertion returns the sorted, stable permutation; the comparator is
the complement of F&O's deep-less-than.
-/
import EPV.Spec.FOSort
import EPV.Lemmas.MapArraySort
namespace EPV.MapArray

theorem XKey.lt_irrefl (a : XKey) : a.lt a = false := by
  cases a <;> simp [XKey.lt, XKey.rank, Rat.lt_irrefl, lexLtNat_irrefl]

theorem ratLt_trans {x y z : Rat} (h1 : x < y) (h2 : y < z) : x < z := by
  have hxy := Rat.lt_iff_le_and_ne.1 h1
  have hyz := Rat.lt_iff_le_and_ne.1 h2
  refine Rat.lt_iff_le_and_ne.2 ⟨Rat.le_trans hxy.1 hyz.1, fun he => ?_⟩
  subst he
  exact hxy.2 (Rat.le_antisymm hxy.1 hyz.1)

theorem XKey.lt_trans {a b c : XKey} (h1 : a.lt b = true) (h2 : b.lt c = true) : a.lt c = true := by
  cases a <;> cases b <;> cases c <;> simp_all [XKey.lt, XKey.rank]
  · exact ratLt_trans h1 h2
  · exact lexLtNat_trans h1 h2

theorem XKey.lt_total (a b : XKey) : a.lt b = true ∨ b.lt a = true ∨ a = b := by
  cases a <;> cases b <;> simp [XKey.lt, XKey.rank]
  · rename_i x y
    rcases Rat.le_total (a := x) (b := y) with h | h
    · by_cases he : x = y
      · right; right; exact he
      · left; exact Rat.lt_iff_le_and_ne.2 ⟨h, he⟩
    · by_cases he : y = x
      · right; right; exact he.symm
      · right; left; exact Rat.lt_iff_le_and_ne.2 ⟨h, he⟩
  · exact lexLtNat_total _ _
  · rename_i x y; cases x <;> cases y <;> simp

theorem XKey.lt_asymm {a b : XKey} (h : a.lt b = true) : b.lt a = false := by
  cases hb : b.lt a with
  | false => rfl
  | true => have := XKey.lt_trans h hb; rw [XKey.lt_irrefl] at this; cases this

theorem xLe_total (a b : List XKey) : (xLe a b || xLe b a) = true := by
  induction a generalizing b with
  | nil => simp [xLe]
  | cons x xs ih =>
    cases b with
    | nil => simp [xLe]
    | cons y ys =>
      simp only [xLe]
      rcases XKey.lt_total x y with h | h | h
      · simp [h]
      · simp [h, XKey.lt_asymm h]
      · subst h; simp only [XKey.lt_irrefl, Bool.false_eq_true, ↓reduceIte]; exact ih ys

theorem xLe_trans {a b c : List XKey} (h1 : xLe a b = true) (h2 : xLe b c = true) : xLe a c = true := by
  induction a generalizing b c with
  | nil => simp [xLe]
  | cons x xs ih =>
    cases b with
    | nil => simp [xLe] at h1
    | cons y ys =>
      cases c with
      | nil => simp [xLe] at h2
      | cons z zs =>
        simp only [xLe] at h1 h2 ⊢
        rcases XKey.lt_total x y with hxy | hyx | hxy
        · rcases XKey.lt_total y z with hyz | hzy | hyz
          · simp [XKey.lt_trans hxy hyz]
          · simp [hzy, XKey.lt_asymm hzy] at h2
          · subst hyz; simp [hxy]
        · simp [hyx, XKey.lt_asymm hyx] at h1
        · subst hxy
          simp only [XKey.lt_irrefl, Bool.false_eq_true, ↓reduceIte] at h1
          rcases XKey.lt_total x z with hxz | hzx | hxz
          · simp [hxz]
          · simp [hzx, XKey.lt_asymm hzx] at h2
          · subst hxz
            simp only [XKey.lt_irrefl, Bool.false_eq_true, ↓reduceIte] at h2 ⊢
            exact ih h1 h2

/-! ### straight insertion: permutation, sorted, stable (for any total preorder) -/
section isort
variable {α : Type} (le : α → α → Bool)

theorem insertBy_perm (x : α) (l : List α) : (insertBy le x l).Perm (x :: l) := by
  induction l with
  | nil => exact List.Perm.refl _
  | cons y ys ih =>
    simp only [insertBy]; split
    · exact List.Perm.refl _
    · exact (List.Perm.cons y ih).trans (List.Perm.swap x y ys)

theorem isortBy_perm (l : List α) : (isortBy le l).Perm l := by
  induction l with
  | nil => exact List.Perm.refl _
  | cons x xs ih => exact (insertBy_perm le x _).trans (List.Perm.cons x ih)

theorem insertBy_pairwise (htot : ∀ a b, (le a b || le b a) = true)
    (htr : ∀ a b c, le a b = true → le b c = true → le a c = true) (x : α) (l : List α)
    (h : l.Pairwise (fun a b => le a b = true)) : (insertBy le x l).Pairwise (fun a b => le a b = true) := by
  induction l with
  | nil => simp [insertBy]
  | cons y ys ih =>
    rw [List.pairwise_cons] at h
    simp only [insertBy]; split
    · rename_i hxy
      refine List.pairwise_cons.2 ⟨?_, List.pairwise_cons.2 h⟩
      intro z hz
      rcases List.mem_cons.1 hz with rfl | hz
      · exact hxy
      · exact htr _ _ _ hxy (h.1 z hz)
    · rename_i hxy
      refine List.pairwise_cons.2 ⟨?_, ih h.2⟩
      intro z hz
      rcases List.mem_cons.1 ((insertBy_perm le x ys).mem_iff.1 hz) with rfl | hz
      · have := htot z y
        simp only [Bool.or_eq_true] at this
        rcases this with h' | h'
        · exact absurd h' hxy
        · exact h'
      · exact h.1 z hz

theorem isortBy_pairwise (htot : ∀ a b, (le a b || le b a) = true)
    (htr : ∀ a b c, le a b = true → le b c = true → le a c = true) (l : List α) :
    (isortBy le l).Pairwise (fun a b => le a b = true) := by
  induction l with
  | nil => simp [isortBy]
  | cons x xs ih => exact insertBy_pairwise le htot htr x _ ih

theorem sublist_insertBy (x : α) (l : List α) : l.Sublist (insertBy le x l) := by
  induction l with
  | nil => simp
  | cons y ys ih =>
    simp only [insertBy]; split
    · exact List.Sublist.cons x (List.Sublist.refl _)
    · exact List.Sublist.cons_cons y ih

theorem pair_insertBy (x b : α) (l : List α) (hb : b ∈ l) (hle : le x b = true) :
    [x, b].Sublist (insertBy le x l) := by
  induction l with
  | nil => cases hb
  | cons y ys ih =>
    simp only [insertBy]; split
    · exact List.Sublist.cons_cons x (List.singleton_sublist.2 hb)
    · rename_i hxy
      rcases List.mem_cons.1 hb with rfl | hb'
      · exact absurd hle hxy
      · exact List.Sublist.cons y (ih hb')

/-- stability: two elements in order by `le` that were in this order in the input stay in this order -/
theorem pair_sublist_isortBy (a b : α) (hab : le a b = true) (l : List α) (h : [a, b].Sublist l) :
    [a, b].Sublist (isortBy le l) := by
  induction l with
  | nil => cases h
  | cons x xs ih =>
    simp only [isortBy]
    cases h with
    | cons _ h' => exact (ih h').trans (sublist_insertBy le x _)
    | cons_cons _ h' =>
      have hb : b ∈ isortBy le xs := (isortBy_perm le xs).mem_iff.2 (List.singleton_sublist.1 h')
      exact pair_insertBy le a b _ hb hab

end isort

/-! ### the model's comparator is the complement of F&O's deep-less-than -/

theorem specLt_atom (x y : XKey) (h : x ≠ y) (hc : x.cls = y.cls) :
    (if x = .nan then true else Spec.opLt x y) = x.lt y := by
  cases x <;> cases y <;> simp_all [Spec.opLt, XKey.lt, XKey.rank, XKey.cls]

/-- on key sequences whose items agree in class position by position (the only ones a successful sort
compares) `deep_compare ≤ 0` of the code is "not deep-less-than" of F&O with the operands swapped -/
theorem deepLt_eq_not_xLe (a b : List XKey) (hc : clsCompat a b = true) : Spec.deepLt a b = !xLe b a := by
  induction a generalizing b with
  | nil => cases b <;> simp [Spec.deepLt, xLe]
  | cons x xs ih =>
    cases b with
    | nil => simp [Spec.deepLt, xLe]
    | cons y ys =>
      simp only [clsCompat, Bool.and_eq_true, beq_iff_eq] at hc
      simp only [Spec.deepLt, xLe]
      by_cases hxy : x = y
      · subst hxy; simp only [XKey.lt_irrefl, Bool.false_eq_true, ↓reduceIte]; exact ih ys hc.2
      · simp only [hxy, ↓reduceIte]
        rw [specLt_atom x y hxy hc.1]
        rcases XKey.lt_total x y with h | h | h
        · simp [h, XKey.lt_asymm h]
        · simp [h, XKey.lt_asymm h]
        · exact absurd h hxy

theorem deepLt_false_iff (a b : List XKey) (hc : clsCompat b a = true) :
    Spec.deepLt b a = false ↔ xLe a b = true := by
  rw [deepLt_eq_not_xLe b a hc]; cases xLe a b <;> simp

/-- what `sortKeyed` returns: the sorted, stable permutation by the key sequences -/
theorem sortKeyed_spec {α : Type} (ms : List (α × List XKey)) (r : List α) (h : sortKeyed ms = .ok r) :
    ∃ sorted : List (α × List XKey), r = sorted.map (·.1) ∧ sorted.Perm ms ∧
      sorted.Pairwise (fun a b => xLe a.2 b.2 = true) ∧
      (∀ a b, xLe a.2 b.2 = true → [a, b].Sublist ms → [a, b].Sublist sorted) := by
  simp only [sortKeyed] at h
  split at h
  · rename_i hlen
    injection h with h
    refine ⟨ms, h.symm, List.Perm.refl _, ?_, fun _ _ _ hs => hs⟩
    match ms, hlen with
    | [], _ => exact List.Pairwise.nil
    | [x], _ => exact List.pairwise_singleton _ _
    | _ :: _ :: _, hl => simp at hl
  · split at h
    · injection h with h
      refine ⟨isortBy (fun a b => xLe a.2 b.2) ms, h.symm, isortBy_perm _ _, ?_, ?_⟩
      · exact isortBy_pairwise (fun a b : α × List XKey => xLe a.2 b.2)
          (fun a b => xLe_total a.2 b.2) (fun a b c => xLe_trans) ms
      · intro a b hab hsub
        exact pair_sublist_isortBy (fun a b : α × List XKey => xLe a.2 b.2) a b hab ms hsub
    · cases h

/-- `sortKeysOf` pairs every member, in order, with the key sequence the key function returns for it -/
theorem sortKeysOf_spec (kf : KFn) (ms : List (List Key)) (keyed : List (List Key × List XKey))
    (h : sortKeysOf kf ms = some keyed) :
    keyed.map (·.1) = ms ∧ ∀ p ∈ keyed, (kf.apply p.1).mapM Key.xkey? = some p.2 := by
  induction ms generalizing keyed with
  | nil => simp [sortKeysOf] at h; subst h; simp
  | cons m ms ih =>
    simp only [sortKeysOf, List.mapM_cons] at h
    cases hk : (kf.apply m).mapM Key.xkey? with
    | none => simp [hk] at h
    | some k =>
      cases hr : sortKeysOf kf ms with
      | none => simp only [sortKeysOf] at hr; simp [hk, hr] at h
      | some rest =>
        have hr' := hr
        simp only [sortKeysOf] at hr'
        simp [hk, hr'] at h
        subst h
        have := ih rest hr
        refine ⟨by simp [this.1], ?_⟩
        intro p hp
        rcases List.mem_cons.1 hp with rfl | hp
        · exact hk
        · exact this.2 p hp

/-- `sortKeyed` in the words of the specification: sorted and stable w.r.t. F&O's deep-less-than -/
theorem sortKeyed_spec_deepLt {α : Type} (ms : List (α × List XKey)) (r : List α) (h : sortKeyed ms = .ok r) :
    ∃ sorted : List (α × List XKey), r = sorted.map (·.1) ∧ sorted.Perm ms ∧
      sorted.Pairwise (fun a b => Spec.deepLt b.2 a.2 = false) ∧
      (∀ a b, Spec.deepLt b.2 a.2 = false → [a, b].Sublist ms → [a, b].Sublist sorted) := by
  simp only [sortKeyed] at h
  split at h
  · rename_i hlen
    injection h with h
    refine ⟨ms, h.symm, List.Perm.refl _, ?_, fun _ _ _ hs => hs⟩
    match ms, hlen with
    | [], _ => exact List.Pairwise.nil
    | [x], _ => exact List.pairwise_singleton _ _
    | _ :: _ :: _, hl => simp at hl
  · split at h
    · rename_i hs
      have hcc : ∀ a ∈ ms, ∀ b ∈ ms, clsCompat a.2 b.2 = true := by
        intro a ha b hb
        simp only [sameClass, List.all_eq_true] at hs
        exact hs a.2 (List.mem_map_of_mem ha) b.2 (List.mem_map_of_mem hb)
      injection h with h
      have hp := isortBy_perm (fun a b : α × List XKey => xLe a.2 b.2) ms
      refine ⟨isortBy (fun a b => xLe a.2 b.2) ms, h.symm, hp, ?_, ?_⟩
      · refine List.Pairwise.imp_of_mem ?_ (isortBy_pairwise (fun a b : α × List XKey => xLe a.2 b.2)
          (fun a b => xLe_total a.2 b.2) (fun a b c => xLe_trans) ms)
        intro a b ha hb hab
        exact (deepLt_false_iff a.2 b.2 (hcc b (hp.mem_iff.1 hb) a (hp.mem_iff.1 ha))).2 hab
      · intro a b hab hsub
        have ha : a ∈ ms := hsub.subset (by simp)
        have hb : b ∈ ms := hsub.subset (by simp)
        exact pair_sublist_isortBy (fun a b : α × List XKey => xLe a.2 b.2) a b
          ((deepLt_false_iff a.2 b.2 (hcc b hb a ha)).1 hab) ms hsub
    · cases h

end EPV.MapArray

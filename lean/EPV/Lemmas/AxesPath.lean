/-
C01 — the path evaluator of the model equals the specification (`eval = sem`) on the typed
fragment, for every well-formed array.
-/
import EPV.Lemmas.AxesAxis
namespace EPV.XP
open Spec

variable {m : Mode} {a : Arr}

/-! ### the two sides use the same auxiliary functions under different names -/

theorem ebv_eq_boolOf : ebv = boolOf := by funext v; cases v <;> rfl
theorem keep_eq_predTruth : keep = predTruth := by
  funext v f; cases v <;> simp [keep, predTruth, ebv_eq_boolOf]
theorem cmpNat_eq_compare : cmpNat = compare := by funext op x y; cases op <;> rfl
theorem principal_eq (ax : Axis) : principal ax = principalKind ax := by cases ax <;> rfl

theorem filterFlags_eq_selectBy : ∀ (cs : List Focus) (fl : List (Option Bool)),
    filterFlags cs fl = selectBy cs fl
  | [], [] => rfl
  | [], _ :: _ => rfl
  | _ :: _, [] => rfl
  | c :: cs, none :: fl => rfl
  | c :: cs, some b :: fl => by
    simp only [filterFlags, selectBy, filterFlags_eq_selectBy cs fl]

/-! ### inversion of the typing function -/

theorem ty_pred {e p : Expr} {t : Ty} (h : ty (.pred e p) = some t) :
    ty e = some .path ∧ (∃ tp, ty p = some tp) ∧ t = .path := by
  simp only [ty] at h
  split at h
  · rename_i h1 h2; simp only [Option.some.injEq] at h; exact ⟨h1, ⟨_, h2⟩, h.symm⟩
  · cases h

theorem ty_slash {l r : Expr} {t : Ty} (h : ty (.slash l r) = some t) :
    ty l = some .path ∧ ty r = some .path ∧ t = .path := by
  simp only [ty] at h
  split at h
  · rename_i h1 h2; simp only [Option.some.injEq] at h; exact ⟨h1, h2, h.symm⟩
  · cases h

theorem ty_dslash {l r : Expr} {t : Ty} (h : ty (.dslash l r) = some t) :
    ty l = some .path ∧ ty r = some .path ∧ t = .path := by
  simp only [ty] at h
  split at h
  · rename_i h1 h2; simp only [Option.some.injEq] at h; exact ⟨h1, h2, h.symm⟩
  · cases h

theorem ty_root {e : Expr} {t : Ty} (h : ty (.root e) = some t) : ty e = some .path ∧ t = .path := by
  simp only [ty] at h
  split at h
  · rename_i h1; simp only [Option.some.injEq] at h; exact ⟨h1, h.symm⟩
  · cases h

theorem ty_droot {e : Expr} {t : Ty} (h : ty (.droot e) = some t) : ty e = some .path ∧ t = .path := by
  simp only [ty] at h
  split at h
  · rename_i h1; simp only [Option.some.injEq] at h; exact ⟨h1, h.symm⟩
  · cases h

theorem ty_union {l r : Expr} {t : Ty} (h : ty (.union l r) = some t) :
    ty l = some .path ∧ ty r = some .path ∧ t = .path := by
  simp only [ty] at h
  split at h
  · rename_i h1 h2; simp only [Option.some.injEq] at h; exact ⟨h1, h2, h.symm⟩
  · cases h

theorem ty_count {e : Expr} {t : Ty} (h : ty (.count e) = some t) : ty e = some .path ∧ t = .num := by
  simp only [ty] at h
  split at h
  · rename_i h1; simp only [Option.some.injEq] at h; exact ⟨h1, h.symm⟩
  · cases h

theorem ty_cmp {op : Cmp} {l r : Expr} {t : Ty} (h : ty (.cmp op l r) = some t) :
    ty l = some .num ∧ ty r = some .num ∧ t = .bool := by
  simp only [ty] at h
  split at h
  · rename_i h1 h2; simp only [Option.some.injEq] at h; exact ⟨h1, h2, h.symm⟩
  · cases h

theorem ty_and {l r : Expr} {t : Ty} (h : ty (.and l r) = some t) :
    (∃ tl, ty l = some tl) ∧ (∃ tr, ty r = some tr) ∧ t = .bool := by
  simp only [ty] at h
  split at h
  · rename_i h1 h2; simp only [Option.some.injEq] at h; exact ⟨⟨_, h1⟩, ⟨_, h2⟩, h.symm⟩
  · cases h

theorem ty_or {l r : Expr} {t : Ty} (h : ty (.or l r) = some t) :
    (∃ tl, ty l = some tl) ∧ (∃ tr, ty r = some tr) ∧ t = .bool := by
  simp only [ty] at h
  split at h
  · rename_i h1 h2; simp only [Option.some.injEq] at h; exact ⟨⟨_, h1⟩, ⟨_, h2⟩, h.symm⟩
  · cases h

theorem ty_not {e : Expr} {t : Ty} (h : ty (.not e) = some t) : (∃ te, ty e = some te) ∧ t = .bool := by
  simp only [ty] at h
  split at h
  · rename_i h1; simp only [Option.some.injEq] at h; exact ⟨⟨_, h1⟩, h.symm⟩
  · cases h

/-! ### values of typed expressions -/

/-- shape of a value of type `t` -/
def Val.hasTy : Val → Ty → Prop
  | .nodes _, .path => True
  | .num _, .num => True
  | .dec _ _, .dec => True
  | .bool _, .bool => True
  | _, _ => False

theorem hasTy_path {v : Val} (h : v.hasTy .path) : ∃ l, v = .nodes l := by
  cases v <;> simp [Val.hasTy] at h; exact ⟨_, rfl⟩
theorem hasTy_num {v : Val} (h : v.hasTy .num) : ∃ k, v = .num k := by
  cases v <;> simp [Val.hasTy] at h; exact ⟨_, rfl⟩
theorem hasTy_bool {v : Val} (h : v.hasTy .bool) : ∃ b, v = .bool b := by
  cases v <;> simp [Val.hasTy] at h; exact ⟨_, rfl⟩

theorem boolOf_typed {v : Val} {t : Ty} (h : v.hasTy t) : ∃ b, boolOf v = some b := by
  cases v <;> cases t <;> simp [Val.hasTy] at h <;> exact ⟨_, rfl⟩

theorem predTruth_typed {v : Val} {t : Ty} (h : v.hasTy t) (c : Focus) : ∃ b, predTruth v c = some b := by
  cases v <;> cases t <;> simp [Val.hasTy] at h <;> exact ⟨_, rfl⟩

theorem selectBy_some : ∀ (cs : List Focus) (g : Focus → Option Bool),
    (∀ c ∈ cs, ∃ b, g c = some b) → ∃ r, selectBy cs (cs.map g) = some r
  | [], _, _ => ⟨[], rfl⟩
  | c :: cs, g, h => by
    obtain ⟨b, hb⟩ := h c (by simp)
    obtain ⟨r, hr⟩ := selectBy_some cs g (fun c' hc' => h c' (List.mem_cons_of_mem _ hc'))
    simp only [List.map_cons, hb, selectBy, hr, Option.map_some]
    exact ⟨_, rfl⟩

theorem nodeSets_of_nodes : ∀ (vs : List Val), (∀ v ∈ vs, ∃ l, v = .nodes l) →
    nodeSets vs = some (vs.map nodesOf)
  | [], _ => rfl
  | v :: vs, h => by
    obtain ⟨l, rfl⟩ := h v (by simp)
    simp only [nodeSets, nodeSets_of_nodes vs (fun v' hv' => h v' (List.mem_cons_of_mem _ hv')),
      Option.map_some, List.map_cons, nodesOf]

theorem collect_of_nodes : ∀ (vs : List Val), (∀ v ∈ vs, ∃ l, v = .nodes l) →
    collect vs = some (vs.flatMap nodesOf)
  | [], _ => rfl
  | v :: vs, h => by
    obtain ⟨l, rfl⟩ := h v (by simp)
    simp only [collect, collect_of_nodes vs (fun v' hv' => h v' (List.mem_cons_of_mem _ hv')),
      Option.map_some, List.flatMap_cons, nodesOf]

/-- every typed expression has a value of its type (no `err`) in the specification -/
theorem sem_typed : ∀ (e : Expr) (t : Ty) (f : Focus), ty e = some t → (sem m a e f).hasTy t := by
  intro e
  induction e with
  | step ax t' ab => intro t f h; simp only [ty, Option.some.injEq] at h; subst h; simp [sem, Val.hasTy]
  | ctxItem => intro t f h; simp only [ty, Option.some.injEq] at h; subst h; simp [sem, Val.hasTy]
  | parentAbbr => intro t f h; simp only [ty, Option.some.injEq] at h; subst h; simp [sem, Val.hasTy]
  | rootOnly => intro t f h; simp only [ty, Option.some.injEq] at h; subst h; simp [sem, Val.hasTy]
  | num k => intro t f h; simp only [ty, Option.some.injEq] at h; subst h; simp [sem, Val.hasTy]
  | lit ng k => intro t f h; simp only [ty, Option.some.injEq] at h; subst h; simp [sem, Val.hasTy]
  | position => intro t f h; simp only [ty, Option.some.injEq] at h; subst h; simp [sem, Val.hasTy]
  | last => intro t f h; simp only [ty, Option.some.injEq] at h; subst h; simp [sem, Val.hasTy]
  | paren e ih => intro t f h; simp only [ty] at h; simpa [sem] using ih t f h
  | root e ih =>
    intro t f h
    obtain ⟨h1, rfl⟩ := ty_root h
    simpa [sem] using ih .path _ h1
  | pred e p ihe ihp =>
    intro t f h
    obtain ⟨h1, ⟨tp, h2⟩, rfl⟩ := ty_pred h
    obtain ⟨l, hl⟩ := hasTy_path (ihe .path f h1)
    simp only [sem, hl]
    obtain ⟨r, hr⟩ := selectBy_some (predContexts (predAxisReverse e) l)
      (fun c => predTruth (sem m a p c) c) (fun c _ => predTruth_typed (ihp tp c h2) c)
    rw [hr]; simp [Val.hasTy]
  | slash l r ihl ihr =>
    intro t f h
    obtain ⟨h1, h2, rfl⟩ := ty_slash h
    obtain ⟨ls, hl⟩ := hasTy_path (ihl .path f h1)
    simp only [sem, hl]
    rw [nodeSets_of_nodes]
    · simp [ofSets, Val.hasTy]
    · intro v hv
      rw [List.mem_map] at hv
      obtain ⟨n, _, rfl⟩ := hv
      exact hasTy_path (ihr .path _ h2)
  | dslash l r ihl ihr =>
    intro t f h
    obtain ⟨h1, h2, rfl⟩ := ty_dslash h
    obtain ⟨ls, hl⟩ := hasTy_path (ihl .path f h1)
    simp only [sem, hl]
    rw [nodeSets_of_nodes]
    · simp [ofSets, Val.hasTy]
    · intro v hv
      rw [List.mem_map] at hv
      obtain ⟨n, _, rfl⟩ := hv
      exact hasTy_path (ihr .path _ h2)
  | droot e ih =>
    intro t f h
    obtain ⟨h1, rfl⟩ := ty_droot h
    simp only [sem]
    rw [nodeSets_of_nodes]
    · simp [ofSets, Val.hasTy]
    · intro v hv
      rw [List.mem_map] at hv
      obtain ⟨n, _, rfl⟩ := hv
      exact hasTy_path (ih .path _ h1)
  | union l r ihl ihr =>
    intro t f h
    obtain ⟨h1, h2, rfl⟩ := ty_union h
    obtain ⟨x, hx⟩ := hasTy_path (ihl .path f h1)
    obtain ⟨y, hy⟩ := hasTy_path (ihr .path f h2)
    simp [sem, hx, hy, Val.hasTy]
  | count e ih =>
    intro t f h
    obtain ⟨h1, rfl⟩ := ty_count h
    obtain ⟨x, hx⟩ := hasTy_path (ih .path f h1)
    simp [sem, hx, Val.hasTy]
  | cmp op l r ihl ihr =>
    intro t f h
    obtain ⟨h1, h2, rfl⟩ := ty_cmp h
    obtain ⟨x, hx⟩ := hasTy_num (ihl .num f h1)
    obtain ⟨y, hy⟩ := hasTy_num (ihr .num f h2)
    simp [sem, hx, hy, Val.hasTy]
  | and l r ihl ihr =>
    intro t f h
    obtain ⟨⟨tl, h1⟩, ⟨tr, h2⟩, rfl⟩ := ty_and h
    obtain ⟨b1, hb1⟩ := boolOf_typed (ihl tl f h1)
    obtain ⟨b2, hb2⟩ := boolOf_typed (ihr tr f h2)
    cases b1 <;> simp [sem, hb1, hb2, Val.hasTy]
  | or l r ihl ihr =>
    intro t f h
    obtain ⟨⟨tl, h1⟩, ⟨tr, h2⟩, rfl⟩ := ty_or h
    obtain ⟨b1, hb1⟩ := boolOf_typed (ihl tl f h1)
    obtain ⟨b2, hb2⟩ := boolOf_typed (ihr tr f h2)
    cases b1 <;> simp [sem, hb1, hb2, Val.hasTy]
  | not e ih =>
    intro t f h
    obtain ⟨⟨te, h1⟩, rfl⟩ := ty_not h
    obtain ⟨b, hb⟩ := boolOf_typed (ih te f h1)
    simp [sem, hb, Val.hasTy]

/-- a path-valued expression depends on the context node only (not on position / size) -/
theorem sem_irrel : ∀ (e : Expr) (f f' : Focus), ty e = some .path → f.item = f'.item →
    sem m a e f = sem m a e f' := by
  intro e
  induction e with
  | step ax t' ab => intro f f' _ hi; simp only [sem, hi]
  | ctxItem => intro f f' _ hi; simp only [sem, hi]
  | parentAbbr => intro f f' _ hi; simp only [sem, hi]
  | rootOnly => intro f f' _ _; rfl
  | num k => intro f f' h; simp [ty] at h
  | lit ng k => intro f f' h; simp [ty] at h
  | position => intro f f' h; simp [ty] at h
  | last => intro f f' h; simp [ty] at h
  | paren e ih => intro f f' h hi; simp only [ty] at h; simp only [sem]; exact ih f f' h hi
  | root e ih =>
    intro f f' h hi
    obtain ⟨h1, _⟩ := ty_root h
    simp only [sem]; exact ih _ _ h1 rfl
  | pred e p ihe _ =>
    intro f f' h hi
    obtain ⟨h1, _, _⟩ := ty_pred h
    simp only [sem, ihe f f' h1 hi]
  | slash l r ihl _ =>
    intro f f' h hi
    obtain ⟨h1, _, _⟩ := ty_slash h
    simp only [sem, ihl f f' h1 hi]
  | dslash l r ihl _ =>
    intro f f' h hi
    obtain ⟨h1, _, _⟩ := ty_dslash h
    simp only [sem, ihl f f' h1 hi]
  | droot e ih =>
    intro f f' h _
    obtain ⟨h1, _⟩ := ty_droot h
    simp only [sem]
    congr 2
    apply List.map_congr_left
    intro d _
    exact ih _ _ h1 rfl
  | union l r ihl ihr =>
    intro f f' h hi
    obtain ⟨h1, h2, _⟩ := ty_union h
    simp only [sem, ihl f f' h1 hi, ihr f f' h2 hi]
  | count e _ => intro f f' h; obtain ⟨_, h3⟩ := ty_count h; cases h3
  | cmp op l r _ _ => intro f f' h; obtain ⟨_, _, h3⟩ := ty_cmp h; cases h3
  | and l r _ _ => intro f f' h; obtain ⟨_, _, h3⟩ := ty_and h; cases h3
  | or l r _ _ => intro f f' h; obtain ⟨_, _, h3⟩ := ty_or h; cases h3
  | not e _ => intro f f' h; obtain ⟨_, h3⟩ := ty_not h; cases h3

/-! ### results of the specification are strictly increasing index lists -/

theorem selectBy_sublist : ∀ (cs : List Focus) (fl : List (Option Bool)) (r : List Nat),
    selectBy cs fl = some r → r.Sublist (cs.map (·.item))
  | [], [], r, h => by simp only [selectBy, Option.some.injEq] at h; subst h; simp
  | [], _ :: _, r, h => by simp [selectBy] at h
  | _ :: _, [], r, h => by simp [selectBy] at h
  | c :: cs, none :: fl, r, h => by simp [selectBy] at h
  | c :: cs, some b :: fl, r, h => by
    simp only [selectBy] at h
    cases hr : selectBy cs fl with
    | none => rw [hr] at h; cases h
    | some r' =>
      rw [hr] at h
      simp only [Option.map_some, Option.some.injEq] at h
      have ih := selectBy_sublist cs fl r' hr
      subst h
      cases b with
      | true => simpa using ih
      | false => simpa using List.Sublist.cons _ ih

theorem predContexts_items (rev : Bool) (l : List Nat) : (predContexts rev l).map (·.item) = l := by
  unfold predContexts
  rw [List.map_map]
  exact List.map_id' l

/-- strictly increasing, all indices valid -/
def Good (a : Arr) (l : List Nat) : Prop := l.Pairwise (· < ·) ∧ ∀ x ∈ l, x < a.length

theorem good_filter (p : Nat → Bool) : Good a ((allNodes a).filter p) :=
  ⟨range_filter_sorted _ _, fun x hx => List.mem_range.1 (List.mem_filter.1 hx).1⟩

theorem good_sublist {l r : List Nat} (h : Good a l) (hs : r.Sublist l) : Good a r :=
  ⟨List.Pairwise.sublist hs h.1, fun x hx => h.2 x (hs.subset hx)⟩

theorem sem_good : ∀ (e : Expr) (f : Focus) (l : List Nat), f.item < a.length →
    sem m a e f = .nodes l → Good a l := by
  intro e
  induction e with
  | step ax t' ab =>
    intro f l _ h; simp only [sem, Val.nodes.injEq] at h; subst h; exact good_filter _
  | ctxItem =>
    intro f l hf h; simp only [sem, Val.nodes.injEq] at h; subst h
    exact ⟨by simp, by simpa using hf⟩
  | parentAbbr =>
    intro f l _ h; simp only [sem, Val.nodes.injEq] at h; subst h; exact good_filter _
  | rootOnly =>
    intro f l hf h; simp only [sem, Val.nodes.injEq] at h; subst h
    split
    · exact ⟨by simp, by simp; omega⟩
    · exact ⟨by simp, by simp⟩
  | num k => intro f l _ h; simp [sem] at h
  | lit ng k => intro f l _ h; simp [sem] at h
  | position => intro f l _ h; simp [sem] at h
  | last => intro f l _ h; simp [sem] at h
  | paren e ih => intro f l hf h; simp only [sem] at h; exact ih f l hf h
  | root e ih =>
    intro f l hf h; simp only [sem] at h
    exact ih _ l (by simp; omega) h
  | pred e p ihe _ =>
    intro f l hf h
    simp only [sem] at h
    split at h
    · rename_i l0 hl0
      split at h
      · rename_i r hr
        simp only [Val.nodes.injEq] at h; subst h
        have := selectBy_sublist _ _ _ hr
        rw [predContexts_items] at this
        exact good_sublist (ihe f l0 hf hl0) this
      · cases h
    · cases h
  | slash l' r _ _ =>
    intro f l _ h
    simp only [sem] at h
    split at h
    · unfold ofSets at h
      split at h
      · simp only [Val.nodes.injEq] at h; subst h; exact good_filter _
      · cases h
    · cases h
  | dslash l' r _ _ =>
    intro f l _ h
    simp only [sem] at h
    split at h
    · unfold ofSets at h
      split at h
      · simp only [Val.nodes.injEq] at h; subst h; exact good_filter _
      · cases h
    · cases h
  | droot e _ =>
    intro f l _ h
    simp only [sem] at h
    unfold ofSets at h
    split at h
    · simp only [Val.nodes.injEq] at h; subst h; exact good_filter _
    · cases h
  | union l' r _ _ =>
    intro f l _ h; simp only [sem] at h
    split at h
    · simp only [Val.nodes.injEq] at h; subst h; exact good_filter _
    · cases h
  | count e _ =>
    intro f l _ h; simp only [sem] at h; split at h <;> cases h
  | cmp op l' r _ _ =>
    intro f l _ h; simp only [sem] at h; split at h <;> cases h
  | and l' r _ _ =>
    intro f l _ h; simp only [sem] at h
    split at h
    · split at h <;> cases h
    · cases h
    · cases h
  | or l' r _ _ =>
    intro f l _ h; simp only [sem] at h
    split at h
    · split at h <;> cases h
    · cases h
    · cases h
  | not e _ =>
    intro f l _ h; simp only [sem] at h; split at h <;> cases h

/-! ### inner focus: the model's numbering is the proximity position of the specification -/

theorem numberFrom_items (size : Nat) : ∀ (l : List Nat) (k : Nat),
    (numberFrom size k l).map (·.item) = l
  | [], _ => rfl
  | x :: xs, k => by simp [numberFrom, numberFrom_items size xs (k + 1)]

theorem countDown_items (size : Nat) : ∀ (l : List Nat) (k : Nat),
    (countDown size k l).map (·.item) = l
  | [], _ => rfl
  | x :: xs, k => by simp [countDown, countDown_items size xs (k - 1)]

theorem selectWithFocus_items (e : Expr) (l : List Nat) : (selectWithFocus e l).map (·.item) = l := by
  unfold selectWithFocus focusRev focusFwd
  split
  · exact countDown_items _ _ _
  · exact numberFrom_items _ _ _

theorem focusFwd_eq {l : List Nat} (h : l.Nodup) : focusFwd l = predContexts false l := by
  unfold focusFwd predContexts proximity
  rw [numberFrom_eq _ l 1 h]
  rfl

theorem focusRev_eq {l : List Nat} (h : l.Nodup) : focusRev l = predContexts true l := by
  unfold focusRev predContexts proximity
  rw [countDown_eq _ l l.length h]
  apply List.map_congr_left
  intro n hn
  simp only [if_true]
  rw [idxOf_reverse l n h hn]

theorem flip_focusFwd {l : List Nat} (h : l.Nodup) : (focusFwd l).map flipPos = predContexts true l := by
  rw [← focusRev_eq h]
  unfold focusFwd focusRev
  rw [numberFrom_eq _ l 1 h, countDown_eq _ l l.length h, List.map_map]
  apply List.map_congr_left
  intro n hn
  have := List.idxOf_lt_length_of_mem hn
  simp only [Function.comp, flipPos, Focus.mk.injEq, true_and, and_true]
  omega

theorem swfRev_innerStep : ∀ (e : Expr), swfRev (innerStep e) = predAxisReverse e
  | .pred e _ => by simp only [innerStep, predAxisReverse]; exact swfRev_innerStep e
  | .step ax t ab => rfl
  | .ctxItem | .parentAbbr | .rootOnly | .num _ | .lit _ _ | .position | .last => rfl
  | .slash _ _ | .dslash _ _ | .root _ | .droot _ | .paren _ | .union _ _ | .count _ => rfl
  | .cmp _ _ _ | .and _ _ | .or _ _ | .not _ => rfl

theorem predFocus_eq (e : Expr) {l : List Nat} (h : l.Nodup) :
    predFocus e l = predContexts (predAxisReverse e) l := by
  unfold predFocus
  cases e with
  | step ax t ab =>
    have h1 : nestedRev (.step ax t ab) = false := rfl
    have h2 : swfRev (.step ax t ab) = ax.isReverse := rfl
    have h3 : predAxisReverse (.step ax t ab) = ax.isReverse := rfl
    rw [h1, h3]
    simp only [Bool.false_eq_true, if_false]
    unfold selectWithFocus
    rw [h2]
    by_cases hr : ax.isReverse = true
    · rw [if_pos hr, hr]; exact focusRev_eq h
    · rw [if_neg hr]
      have : ax.isReverse = false := by simpa using hr
      rw [this]; exact focusFwd_eq h
  | pred e' p =>
    have h1 : nestedRev (.pred e' p) = predAxisReverse e' := by
      simp only [nestedRev]; exact swfRev_innerStep e'
    have h2 : selectWithFocus (.pred e' p) l = focusFwd l := by simp [selectWithFocus, swfRev]
    rw [h1, h2]
    simp only [predAxisReverse]
    by_cases hr : predAxisReverse e' = true
    · rw [if_pos hr, hr]; exact flip_focusFwd h
    · rw [if_neg hr]
      have : predAxisReverse e' = false := by simpa using hr
      rw [this]; exact focusFwd_eq h
  | ctxItem | parentAbbr | rootOnly | num _ | lit _ _ | position | last | slash _ _ | dslash _ _ | root _
  | droot _ | paren _ | union _ _ | count _ | cmp _ _ _ | and _ _ | or _ _ | not _ =>
    simp only [nestedRev, Bool.false_eq_true, if_false, selectWithFocus, swfRev, predAxisReverse]
    exact focusFwd_eq h

theorem nodup_of_sorted {l : List Nat} (h : l.Pairwise (· < ·)) : l.Nodup :=
  List.Pairwise.imp (fun h => Nat.ne_of_lt h) h

/-! ### one step -/

theorem matchTest_eq_testOK (w : WF m a) (ax : Axis) (t : Test) (i : Nat) :
    matchTest m a (principal ax) t i = testOK m a ax t i := by
  rw [principal_eq]
  unfold testOK
  rw [isV_eq]
  cases hv : isDummyDoc m i with
  | false => cases t with
    | pi tg => cases tg <;> simp [matchTest, hv]
    | _ => simp [matchTest, hv]
  | true =>
    obtain ⟨_, rfl, h0, _⟩ := w.v_is_doc hv
    cases t with
    | pi tg => cases tg <;> simp [matchTest, h0]
    | node => simp [matchTest, hv]
    | text => simp [matchTest, h0]
    | comment => simp [matchTest, h0]
    | any => cases ax <;> simp [matchTest, h0, principalKind]
    | name u l => cases ax <;> simp [matchTest, h0, principalKind]
    | nsAny u => cases ax <;> simp [matchTest, h0, principalKind]

/-- one step = the specified step -/
theorem evalStep_eq (w : WF m a) {n : Nat} (hn : n < a.length) (ax : Axis) (t : Test) (ab : Bool) :
    evalStep m a ax t ab n = stepSet m a ax t n := by
  unfold evalStep stepSet
  rw [axis_eq w hn ax]
  simp only [List.filter_filter]
  apply List.filter_congr
  intro i _
  rw [matchTest_eq_testOK w, Bool.and_comm]

theorem iterParent_eq (w : WF m a) {n : Nat} (hn : n < a.length) :
    iterParent m a n = stepSet m a .parent .node n := by
  have := parent_eq w hn
  simp only [iterAxis] at this
  rw [this]
  unfold stepSet
  apply List.filter_congr
  intro i hi
  have hi' : i < a.length := List.mem_range.1 hi
  cases hp : onAxis m a .parent n i with
  | false => simp
  | true =>
    simp only [onAxis, beq_iff_eq] at hp
    simp only [testOK, isV_eq, Bool.and_true, Bool.true_and]
    cases hv : isDummyDoc m i with
    | false => rfl
    | true =>
      obtain ⟨rfl, rfl, _⟩ := w.v_is_doc hv
      exact absurd hp (w.no_par_zero_dummy hn)

/-! ### `/`, `//`: seen-set + sort = union of node-sets in document order -/

theorem union_lemma (C1 : List Focus) (C2 : List Nat) (g : Focus → Val) (h : Nat → Val)
    (h1 : ∀ c ∈ C1, ∃ l, g c = .nodes l ∧ ∀ x ∈ l, x < a.length)
    (h2 : ∀ d ∈ C2, ∃ l, h d = .nodes l)
    (hset : ∀ x, (∃ c ∈ C1, x ∈ nodesOf (g c)) ↔ (∃ d ∈ C2, x ∈ nodesOf (h d))) :
    (match collect (C1.map g) with
      | some rs => Val.nodes (docOrder rs)
      | none => Val.err) = ofSets a (nodeSets (C2.map h)) := by
  rw [collect_of_nodes, nodeSets_of_nodes]
  · simp only [ofSets, Val.nodes.injEq]
    rw [docOrder_eq _ a.length]
    · unfold unionSets allNodes
      apply List.filter_congr
      intro x _
      rw [Bool.eq_iff_iff, List.contains_iff_mem, List.any_eq_true]
      simp only [List.mem_flatMap, List.mem_map, List.contains_iff_mem]
      constructor
      · rintro ⟨v, ⟨c, hc, rfl⟩, hx⟩
        obtain ⟨d, hd, hx'⟩ := (hset x).1 ⟨c, hc, hx⟩
        exact ⟨_, ⟨_, ⟨d, hd, rfl⟩, rfl⟩, hx'⟩
      · rintro ⟨_, ⟨_, ⟨d, hd, rfl⟩, rfl⟩, hx⟩
        obtain ⟨c, hc, hx'⟩ := (hset x).2 ⟨d, hd, hx⟩
        exact ⟨_, ⟨c, hc, rfl⟩, hx'⟩
    · intro x hx
      simp only [List.mem_flatMap, List.mem_map] at hx
      obtain ⟨v, ⟨c, hc, rfl⟩, hx⟩ := hx
      obtain ⟨l, hl, hb⟩ := h1 c hc
      rw [hl] at hx
      exact hb x hx
  · intro v hv
    rw [List.mem_map] at hv
    obtain ⟨d, hd, rfl⟩ := hv
    exact h2 d hd
  · intro v hv
    rw [List.mem_map] at hv
    obtain ⟨c, hc, rfl⟩ := hv
    obtain ⟨l, hl, _⟩ := h1 c hc
    exact ⟨l, hl⟩

/-! ### the contexts of `//` -/

/-- the context nodes of the right operand of `//`: `descendant-or-self::node()` of `n`, plus the
virtual document itself when `n` is the virtual document -/
def dosCtx (m : Mode) (a : Arr) (n : Nat) : List Nat :=
  stepSet m a .descendantOrSelf .node n ++ (if isV m n then [n] else [])

theorem mem_dosCtx (w : WF m a) {n : Nat} (hn : n < a.length) (d : Nat) :
    d ∈ iterDescendants m a true n ↔ d ∈ dosCtx m a n := by
  have := descendantOrSelf_eq w hn
  simp only [iterAxis] at this
  rw [this]
  unfold dosCtx stepSet allNodes
  simp only [List.mem_filter, List.mem_range, List.mem_append, Bool.and_eq_true, testOK,
    Bool.and_true, Bool.not_eq_true']
  constructor
  · rintro ⟨hd, hax⟩
    cases hv : isV m d with
    | false => exact Or.inl ⟨hd, hax, rfl⟩
    | true =>
      right
      obtain ⟨rfl, rfl, _⟩ := w.v_is_doc (show isDummyDoc m d = true from hv)
      simp only [onAxis, isAttrOrNs_eq, Bool.or_eq_true, beq_iff_eq, Bool.and_eq_true,
        Bool.not_eq_true', decide_eq_true_eq] at hax
      have hn0 : n = 0 := by
        rcases hax with e | ⟨_, e | ⟨_, e⟩⟩
        · exact e.symm
        · have := (isAnc_iff w hd).1 e; omega
        · omega
      subst hn0
      rw [if_pos hv]; simp
  · rintro (⟨hd, hax, _⟩ | h)
    · exact ⟨hd, hax⟩
    · by_cases hv : isV m n = true
      · rw [if_pos hv, List.mem_singleton] at h
        subst h
        exact ⟨hn, by simp [onAxis]⟩
      · rw [if_neg hv] at h; simp at h

theorem mem_unionSets (ls : List (List Nat)) (x : Nat) :
    x ∈ unionSets a ls ↔ x < a.length ∧ ∃ l ∈ ls, x ∈ l := by
  unfold unionSets allNodes
  simp only [List.mem_filter, List.mem_range, List.any_eq_true, List.contains_iff_mem]

/-! ### the main theorem -/

theorem mem_items {C : List Focus} {c : Focus} (h : c ∈ C) : c.item ∈ C.map (·.item) :=
  List.mem_map_of_mem h

theorem eval_eq_sem_aux (w : WF m a) : ∀ (e : Expr) (t : Ty) (f : Focus), ty e = some t →
    f.item < a.length → eval m a e f = sem m a e f := by
  intro e
  induction e with
  | step ax t' ab =>
    intro t f _ hf
    simp only [eval, sem]
    rw [evalStep_eq w hf ax t' ab]
  | ctxItem => intro t f _ _; rfl
  | parentAbbr => intro t f _ hf; simp only [eval, sem]; rw [iterParent_eq w hf]
  | rootOnly => intro t f _ _; rfl
  | num k => intro t f _ _; rfl
  | lit ng k => intro t f _ _; rfl
  | position => intro t f _ _; rfl
  | last => intro t f _ _; rfl
  | paren e ih =>
    intro t f h hf
    simp only [ty] at h
    simp only [eval, sem]
    exact ih t f h hf
  | root e ih =>
    intro t f h hf
    obtain ⟨h1, _⟩ := ty_root h
    simp only [eval, sem]
    exact ih .path _ h1 w.pos
  | pred e p ihe ihp =>
    intro t f h hf
    obtain ⟨h1, ⟨tp, h2⟩, _⟩ := ty_pred h
    have he := ihe .path f h1 hf
    obtain ⟨l, hl⟩ := hasTy_path (sem_typed (m := m) (a := a) e .path f h1)
    have hgood := sem_good e f l hf hl
    simp only [eval, sem, he, hl]
    rw [predFocus_eq e (nodup_of_sorted hgood.1)]
    have hmap : ((predContexts (predAxisReverse e) l).map fun f' => keep (eval m a p f') f') =
        (predContexts (predAxisReverse e) l).map fun c => predTruth (sem m a p c) c := by
      apply List.map_congr_left
      intro c hc
      have hci : c.item < a.length := by
        have := mem_items hc
        rw [predContexts_items] at this
        exact hgood.2 _ this
      rw [keep_eq_predTruth, ihp tp c h2 hci]
    rw [hmap, filterFlags_eq_selectBy]
    cases selectBy (predContexts (predAxisReverse e) l)
        ((predContexts (predAxisReverse e) l).map fun c => predTruth (sem m a p c) c) <;> rfl
  | slash l r ihl ihr =>
    intro t f h hf
    obtain ⟨h1, h2, _⟩ := ty_slash h
    have hl := ihl .path f h1 hf
    obtain ⟨ls, hls⟩ := hasTy_path (sem_typed (m := m) (a := a) l .path f h1)
    have hgood := sem_good l f ls hf hls
    simp only [eval, sem, hl, hls]
    have hitems := selectWithFocus_items l ls
    have hb : ∀ c ∈ selectWithFocus l ls, c.item < a.length := by
      intro c hc
      have := mem_items hc
      rw [hitems] at this
      exact hgood.2 _ this
    have hmap : ((selectWithFocus l ls).map fun f' => eval m a r f') =
        (selectWithFocus l ls).map (sem m a r) := by
      apply List.map_congr_left
      intro c hc
      exact ihr .path c h2 (hb c hc)
    rw [hmap]
    apply union_lemma
    · intro c hc
      obtain ⟨l', hl'⟩ := hasTy_path (sem_typed (m := m) (a := a) r .path c h2)
      exact ⟨l', hl', (sem_good r c l' (hb c hc) hl').2⟩
    · intro d _
      exact hasTy_path (sem_typed r .path _ h2)
    · intro x
      constructor
      · rintro ⟨c, hc, hx⟩
        have hci := mem_items hc
        rw [hitems] at hci
        refine ⟨c.item, hci, ?_⟩
        rwa [sem_irrel r ⟨c.item, 1, 1⟩ c h2 rfl]
      · rintro ⟨d, hd, hx⟩
        rw [← hitems, List.mem_map] at hd
        obtain ⟨c, hc, rfl⟩ := hd
        refine ⟨c, hc, ?_⟩
        rwa [sem_irrel r c ⟨c.item, 1, 1⟩ h2 rfl]
  | dslash l r ihl ihr =>
    intro t f h hf
    obtain ⟨h1, h2, _⟩ := ty_dslash h
    have hl := ihl .path f h1 hf
    obtain ⟨ls, hls⟩ := hasTy_path (sem_typed (m := m) (a := a) l .path f h1)
    have hgood := sem_good l f ls hf hls
    simp only [eval, sem, hl, hls]
    have hitems := selectWithFocus_items l ls
    have hb : ∀ c ∈ selectWithFocus l ls, c.item < a.length := by
      intro c hc
      have := mem_items hc
      rw [hitems] at this
      exact hgood.2 _ this
    -- the expanded contexts
    have hb2 : ∀ c ∈ (selectWithFocus l ls).flatMap (fun f' =>
        (iterDescendants m a true f'.item).map fun d => ({ f' with item := d } : Focus)),
        c.item < a.length ∧
          ∃ f' ∈ selectWithFocus l ls, c.item ∈ iterDescendants m a true f'.item := by
      intro c hc
      rw [List.mem_flatMap] at hc
      obtain ⟨f', hf', hc⟩ := hc
      rw [List.mem_map] at hc
      obtain ⟨d, hd, rfl⟩ := hc
      exact ⟨((descendants_mem w (hb f' hf') true d).1 hd).1, f', hf', hd⟩
    have hmap : (((selectWithFocus l ls).flatMap fun f' =>
          (iterDescendants m a true f'.item).map fun d => ({ f' with item := d } : Focus)).map
            fun f' => eval m a r f') =
        ((selectWithFocus l ls).flatMap fun f' =>
          (iterDescendants m a true f'.item).map fun d => ({ f' with item := d } : Focus)).map
            (sem m a r) := by
      apply List.map_congr_left
      intro c hc
      exact ihr .path c h2 (hb2 c hc).1
    rw [hmap]
    apply union_lemma
    · intro c hc
      obtain ⟨l', hl'⟩ := hasTy_path (sem_typed (m := m) (a := a) r .path c h2)
      exact ⟨l', hl', (sem_good r c l' (hb2 c hc).1 hl').2⟩
    · intro d _
      exact hasTy_path (sem_typed r .path _ h2)
    · intro x
      constructor
      · rintro ⟨c, hc, hx⟩
        obtain ⟨hci, f', hf', hd⟩ := hb2 c hc
        refine ⟨c.item, ?_, ?_⟩
        · rw [mem_unionSets]
          refine ⟨hci, _, List.mem_map.2 ⟨f'.item, ?_, rfl⟩, ?_⟩
          · have := mem_items hf'; rwa [hitems] at this
          · exact (mem_dosCtx w (hb f' hf') _).1 hd
        · rwa [sem_irrel r ⟨c.item, 1, 1⟩ c h2 rfl]
      · rintro ⟨d, hd, hx⟩
        rw [mem_unionSets] at hd
        obtain ⟨_, l', hl', hdl⟩ := hd
        rw [List.mem_map] at hl'
        obtain ⟨n, hn, rfl⟩ := hl'
        rw [← hitems, List.mem_map] at hn
        obtain ⟨f', hf', rfl⟩ := hn
        have hd' := (mem_dosCtx w (hb f' hf') d).2 hdl
        refine ⟨{ f' with item := d }, ?_, ?_⟩
        · rw [List.mem_flatMap]
          exact ⟨f', hf', List.mem_map.2 ⟨d, hd', rfl⟩⟩
        · rwa [sem_irrel r { f' with item := d } ⟨d, 1, 1⟩ h2 rfl]
  | droot e ih =>
    intro t f h hf
    obtain ⟨h1, _⟩ := ty_droot h
    simp only [eval, sem]
    have hds : (allNodes a).filter (fun i => onAxis m a .descendantOrSelf 0 i) =
        iterDescendants m a true 0 := (descendantOrSelf_eq w w.pos).symm
    rw [hds]
    have hb : ∀ d ∈ iterDescendants m a true 0, d < a.length :=
      fun d hd => ((descendants_mem w w.pos true d).1 hd).1
    have hmap : (((iterDescendants m a true 0).map fun d => ({ f with item := d } : Focus)).map
          fun f' => eval m a e f') =
        ((iterDescendants m a true 0).map fun d => ({ f with item := d } : Focus)).map (sem m a e) := by
      apply List.map_congr_left
      intro c hc
      rw [List.mem_map] at hc
      obtain ⟨d, hd, rfl⟩ := hc
      exact ih .path _ h1 (hb d hd)
    rw [hmap]
    apply union_lemma
    · intro c hc
      rw [List.mem_map] at hc
      obtain ⟨d, hd, rfl⟩ := hc
      obtain ⟨l', hl'⟩ := hasTy_path (sem_typed (m := m) (a := a) e .path { f with item := d } h1)
      exact ⟨l', hl', (sem_good e _ l' (hb d hd) hl').2⟩
    · intro d _
      exact hasTy_path (sem_typed e .path _ h1)
    · intro x
      constructor
      · rintro ⟨c, hc, hx⟩
        rw [List.mem_map] at hc
        obtain ⟨d, hd, rfl⟩ := hc
        exact ⟨d, hd, hx⟩
      · rintro ⟨d, hd, hx⟩
        exact ⟨_, List.mem_map.2 ⟨d, hd, rfl⟩, hx⟩
  | union l r ihl ihr =>
    intro t f h hf
    obtain ⟨h1, h2, _⟩ := ty_union h
    obtain ⟨x, hx⟩ := hasTy_path (sem_typed (m := m) (a := a) l .path f h1)
    obtain ⟨y, hy⟩ := hasTy_path (sem_typed (m := m) (a := a) r .path f h2)
    have gx := sem_good l f x hf hx
    have gy := sem_good r f y hf hy
    simp only [eval, sem, ihl .path f h1 hf, ihr .path f h2 hf, hx, hy, Val.nodes.injEq]
    rw [docOrder_eq _ a.length]
    · unfold unionSets allNodes
      apply List.filter_congr
      intro i _
      simp [List.contains_iff_mem, Bool.eq_iff_iff]
    · intro i hi
      rw [List.mem_append] at hi
      rcases hi with hi | hi
      · exact gx.2 i hi
      · exact gy.2 i hi
  | count e ih =>
    intro t f h hf
    obtain ⟨h1, _⟩ := ty_count h
    simp only [eval, sem, ih .path f h1 hf]
    cases sem m a e f <;> rfl
  | cmp op l r ihl ihr =>
    intro t f h hf
    obtain ⟨h1, h2, _⟩ := ty_cmp h
    simp only [eval, sem, ihl .num f h1 hf, ihr .num f h2 hf, cmpNat_eq_compare]
    cases sem m a l f <;> cases sem m a r f <;> rfl
  | and l r ihl ihr =>
    intro t f h hf
    obtain ⟨⟨tl, h1⟩, ⟨tr, h2⟩, _⟩ := ty_and h
    simp only [eval, sem, ihl tl f h1 hf, ihr tr f h2 hf, ebv_eq_boolOf]
    generalize boolOf (sem m a l f) = x
    generalize boolOf (sem m a r f) = y
    rcases x with _ | (_ | _) <;> rcases y with _ | (_ | _) <;> rfl
  | or l r ihl ihr =>
    intro t f h hf
    obtain ⟨⟨tl, h1⟩, ⟨tr, h2⟩, _⟩ := ty_or h
    simp only [eval, sem, ihl tl f h1 hf, ihr tr f h2 hf, ebv_eq_boolOf]
    generalize boolOf (sem m a l f) = x
    generalize boolOf (sem m a r f) = y
    rcases x with _ | (_ | _) <;> rcases y with _ | (_ | _) <;> rfl
  | not e ih =>
    intro t f h hf
    obtain ⟨⟨te, h1⟩, _⟩ := ty_not h
    simp only [eval, sem, ih te f h1 hf, ebv_eq_boolOf]
    generalize boolOf (sem m a e f) = x
    rcases x with _ | (_ | _) <;> rfl

end EPV.XP

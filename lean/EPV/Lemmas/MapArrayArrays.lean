/-
C15 — each array function of the model (Python list operations: item assignment, `insert`, slices,
`enumerate` filter, …) equals its F&O §17.3 definition (EPV/Spec/FOMaps.lean: take / drop / ++ /
positions), for every list and every integer argument, errors included.
-/
import EPV.Spec.FOMaps
namespace EPV.MapArray
open Spec

theorem arrAppend_eq (ms : List α) (v : α) : arrAppend ms v = aappend ms v := rfl
theorem arrReverse_eq (ms : List α) : arrReverse ms = areverse ms := rfl

theorem arrGet_eq (ms : List α) (p : Int) : arrGet ms p = aget ms p := by
  unfold arrGet aget inBounds
  have hnone : ¬ p ≤ (ms.length : Int) → 0 < p → ms[(p - 1).toNat]? = none := by
    intro h1 h2; apply List.getElem?_eq_none; omega
  generalize (p - 1).toNat = i at *
  by_cases h0 : p ≤ 0
  · have : ¬ (1 ≤ p) := by omega
    simp [h0, this]
  · by_cases hn : p ≤ (ms.length : Int)
    · have : 1 ≤ p := by omega
      simp only [h0, hn, this, ↓reduceIte, decide_true, Bool.and_self]
      cases ms[i]? <;> rfl
    · simp [h0, hn, hnone hn (by omega)]

theorem arrGet_bounds (ms : List α) (p : Int) :
    (1 ≤ p ∧ p ≤ (ms.length : Int) → ∃ x, arrGet ms p = .ok x ∧ ms[(p - 1).toNat]? = some x) ∧
    (¬ (1 ≤ p ∧ p ≤ (ms.length : Int)) → arrGet ms p = .error .FOAY0001) := by
  rw [arrGet_eq]; unfold aget inBounds
  constructor
  · rintro ⟨h1, h2⟩
    have hlt : (p - 1).toNat < ms.length := by omega
    generalize (p - 1).toNat = i at *
    refine ⟨ms[i], ?_, by simp [hlt]⟩
    simp [h1, h2, hlt]
  · intro h
    have : ¬ (1 ≤ p ∧ p ≤ (ms.length : Int)) := h
    generalize (p - 1).toNat = i at *
    simp only [Bool.and_eq_true, decide_eq_true_eq, this, ↓reduceIte]

theorem set_eq_take_cons_drop (ms : List α) (i : Nat) (v : α) (h : i < ms.length) :
    ms.set i v = ms.take i ++ [v] ++ ms.drop (i + 1) := by
  induction ms generalizing i with
  | nil => simp at h
  | cons x xs ih =>
    cases i with
    | zero => simp
    | succ j =>
      simp only [List.length_cons, Nat.add_lt_add_iff_right] at h
      simp [ih j h]

theorem arrPut_eq (ms : List α) (p : Int) (v : α) : arrPut ms p v = aput ms p v := by
  unfold arrPut aput inBounds
  by_cases h0 : p ≤ 0
  · have : ¬ (1 ≤ p) := by omega
    simp [h0, this]
  · by_cases hn : p ≤ (ms.length : Int)
    · have h1 : 1 ≤ p := by omega
      have hlt : (p - 1).toNat < ms.length := by omega
      have hp : p.toNat = (p - 1).toNat + 1 := by omega
      rw [hp]
      generalize (p - 1).toNat = i at *
      simp only [h0, hn, h1, hlt, ↓reduceIte, decide_true, Bool.and_self, set_eq_take_cons_drop ms _ v hlt]
    · have hlt : ¬ (p - 1).toNat < ms.length := by omega
      generalize (p - 1).toNat = i at *
      simp [h0, hn, hlt]

theorem insertIdx_eq_take_cons_drop (ms : List α) (i : Nat) (v : α) (h : i ≤ ms.length) :
    ms.insertIdx i v = ms.take i ++ [v] ++ ms.drop i := by
  induction ms generalizing i with
  | nil =>
    have : i = 0 := by simpa using h
    subst this; simp
  | cons x xs ih =>
    cases i with
    | zero => simp
    | succ j =>
      simp only [List.length_cons, Nat.add_le_add_iff_right] at h
      simp [ih j h]

theorem arrInsertBefore_eq (ms : List α) (p : Int) (v : α) :
    arrInsertBefore ms p v = ainsertBefore ms p v := by
  unfold arrInsertBefore ainsertBefore
  by_cases h : 1 ≤ p ∧ p ≤ (ms.length : Int) + 1
  · have h' : ¬ (p ≤ 0 ∨ p > (ms.length : Int) + 1) := by omega
    have hle : (p - 1).toNat ≤ ms.length := by omega
    generalize (p - 1).toNat = i at *
    simp only [h, h', and_self, ↓reduceIte, insertIdx_eq_take_cons_drop ms _ v hle]
  · have h' : p ≤ 0 ∨ p > (ms.length : Int) + 1 := by omega
    simp only [h, h', ↓reduceIte]

theorem arrHead_eq (ms : List α) : arrHead ms = ahead ms := by
  cases ms with
  | nil => simp [arrHead, ahead, aget, inBounds]
  | cons x xs =>
    have : (1 : Int) ≤ (xs.length : Int) + 1 := by omega
    simp [arrHead, ahead, aget, inBounds, this]

theorem arrTail_eq (ms : List α) : arrTail ms = atail ms := by
  cases ms <;> simp [arrTail, atail]

theorem arrSubarray_eq (ms : List α) (start : Int) (len : Option Int) :
    arrSubarray ms start len = asubarray ms start len := by
  unfold arrSubarray asubarray
  generalize (start - 1).toNat = i
  cases len with
  | none => simp
  | some l =>
    by_cases hl : l < 0
    · simp [hl]
    · by_cases hs : start < 1 ∨ start > (ms.length : Int) + 1
      · have : start < 1 ∨ start + l > (ms.length : Int) + 1 := by omega
        simp [hl, hs, this]
      · simp only [hl, hs, decide_false, Bool.false_eq_true, ↓reduceIte]
        by_cases h2 : start + l > (ms.length : Int) + 1
        · rw [if_pos h2, if_pos (Or.inr h2)]
        · rw [if_neg h2, if_neg (by omega)]

theorem remove_aux (ms : List α) (ps : List Int) (b : Nat) :
    (ms.zipIdx (b + 1)).filterMap (fun (v, k) => if ps.contains (k : Int) then none else some v) =
    ((List.range ms.length).filter fun (i : Nat) => !ps.contains ((i : Int) + b + 1)).filterMap fun i => ms[i]? := by
  induction ms generalizing b with
  | nil => simp
  | cons x xs ih =>
    have hrange : List.range (xs.length + 1) = 0 :: (List.range xs.length).map Nat.succ := by
      rw [List.range_succ_eq_map]
    have ih' := ih (b + 1)
    have hrest : (((List.range xs.length).map Nat.succ).filter
          fun (i : Nat) => !ps.contains ((i : Int) + b + 1)).filterMap (fun i => (x :: xs)[i]?) =
        ((List.range xs.length).filter fun (i : Nat) => !ps.contains ((i : Int) + (b + 1 : Nat) + 1)).filterMap
          fun i => xs[i]? := by
      rw [List.filter_map, List.filterMap_map]
      congr 1
      congr 1
      funext i
      simp only [Function.comp, Nat.succ_eq_add_one]
      congr 2
      push_cast
      omega
    simp only [List.zipIdx_cons, List.length_cons, hrange, List.filter_cons, List.filterMap_cons]
    rw [ih']
    by_cases hc : ps.contains ((b : Int) + 1) = true
    · have hc' : ps.contains (((b + 1 : Nat)) : Int) = true := by push_cast; exact hc
      simp only [hc', ↓reduceIte, Int.natCast_zero, Int.zero_add, hc, Bool.not_true, Bool.false_eq_true]
      exact hrest.symm
    · have hc0 : ps.contains ((b : Int) + 1) = false := by simpa using hc
      have hc' : ps.contains (((b + 1 : Nat)) : Int) = false := by push_cast; exact hc0
      simp only [hc', Bool.false_eq_true, ↓reduceIte, Int.natCast_zero, Int.zero_add, hc0, Bool.not_false,
        List.filterMap_cons, List.getElem?_cons_zero]
      rw [hrest]

theorem arrRemove_eq (ms : List α) (ps : List Int) : arrRemove ms ps = aremove ms ps := by
  unfold arrRemove aremove
  have hb : (ps.all fun p => decide (0 < p) && decide (p ≤ (ms.length : Int))) = ps.all (inBounds ms.length) := by
    congr 1
  rw [hb]
  split
  · have := remove_aux ms ps 0
    simp only [Nat.zero_add, Int.natCast_zero, Int.add_zero] at this
    rw [this]
  · rfl

end EPV.MapArray

/-
Lemmas for C20, part 5: on a text that is one token with optional surrounding white space (the
shape of every valid literal of a non-string atomic type) Python's `strip` and XSD's
whiteSpace=collapse agree; hence the decoder's constructors agree with the lexical mappings.
-/
import EPV.Spec.XsdTyping
namespace EPV.Xsd
open EPV.Xsd.Spec

def stripL (cs : List Char) : List Char := ((cs.dropWhile isWs).reverse.dropWhile isWs).reverse

theorem strip_eq (s : String) : strip s = String.ofList (stripL s.toList) := rfl

theorem dropWhile_all {p : Char → Bool} : ∀ (l : List Char), (∀ c ∈ l, p c = true) → l.dropWhile p = []
  | [], _ => rfl
  | c :: cs, h => by
    simp only [List.dropWhile_cons, h c List.mem_cons_self, if_true]
    exact dropWhile_all cs (fun d hd => h d (List.mem_cons_of_mem _ hd))

theorem dropWhile_pre {p : Char → Bool} (pre rest : List Char) (h : ∀ c ∈ pre, p c = true) :
    (pre ++ rest).dropWhile p = rest.dropWhile p := by
  induction pre with
  | nil => rfl
  | cons c cs ih =>
    simp only [List.cons_append, List.dropWhile_cons, h c List.mem_cons_self, if_true]
    exact ih (fun d hd => h d (List.mem_cons_of_mem _ hd))

theorem dropWhile_head {p : Char → Bool} (c : Char) (cs : List Char) (h : p c = false) :
    (c :: cs).dropWhile p = c :: cs := by simp [List.dropWhile_cons, h]

/-- `lead ++ w ++ post` with white-space `lead`, `post` and a non-empty `w` without leading/trailing
white space strips to `w` -/
theorem stripL_sandwich (lead w post : List Char) (hl : ∀ c ∈ lead, isWs c = true)
    (hp : ∀ c ∈ post, isWs c = true) (hw : ∀ c ∈ w, isWs c = false) :
    stripL (lead ++ w ++ post) = w := by
  unfold stripL
  rw [List.append_assoc, dropWhile_pre lead _ hl]
  cases w with
  | nil =>
    simp only [List.nil_append]
    rw [dropWhile_all post hp]; rfl
  | cons c cs =>
    rw [List.cons_append, dropWhile_head c _ (hw c List.mem_cons_self)]
    have hrev : ((c :: (cs ++ post)).reverse) = post.reverse ++ (c :: cs).reverse := by simp
    rw [hrev, dropWhile_pre post.reverse _ (fun d hd => hp d (List.mem_reverse.mp hd))]
    -- the reversed word starts with a non-space character
    have hne : (c :: cs).reverse ≠ [] := by simp
    cases hr : (c :: cs).reverse with
    | nil => exact absurd hr hne
    | cons d ds =>
      have hd : d ∈ c :: cs := List.mem_reverse.mp (by rw [hr]; exact List.mem_cons_self)
      rw [dropWhile_head d ds (hw d hd), ← hr, List.reverse_reverse]

/-- tokens of `cs` continuing a current (reversed, white-space-free) token `cur`: when there is at
most one token, the input is `[lead] w post` -/
theorem splitWsAux_shape : ∀ (cs cur : List Char), (∀ c ∈ cur, isWs c = false) →
    (splitWsAux cs cur).length ≤ 1 →
    (cur ≠ [] → ∃ pre post, cs = pre ++ post ∧ (∀ c ∈ pre, isWs c = false) ∧
        (∀ c ∈ post, isWs c = true) ∧ splitWsAux cs cur = [cur.reverse ++ pre]) ∧
    (cur = [] → ((∀ c ∈ cs, isWs c = true) ∧ splitWsAux cs cur = []) ∨
        ∃ lead pre post, cs = lead ++ pre ++ post ∧ (∀ c ∈ lead, isWs c = true) ∧ pre ≠ [] ∧
          (∀ c ∈ pre, isWs c = false) ∧ (∀ c ∈ post, isWs c = true) ∧ splitWsAux cs cur = [pre])
  | [], cur, _, _ => by
    constructor
    · intro hne
      refine ⟨[], [], rfl, by simp, by simp, ?_⟩
      simp [splitWsAux, hne]
    · intro he; subst he
      left; exact ⟨by simp, by simp [splitWsAux]⟩
  | c :: cs, cur, hcur, hlen => by
    by_cases hc : isWs c = true
    · -- white space: closes the current token (if any)
      by_cases he : cur = []
      · subst he
        have hstep : splitWsAux (c :: cs) [] = splitWsAux cs [] := by simp [splitWsAux, hc]
        rw [hstep] at hlen
        have ih := (splitWsAux_shape cs [] (by simp) hlen).2 rfl
        refine ⟨fun h => absurd rfl h, fun _ => ?_⟩
        rcases ih with ⟨hall, hnil⟩ | ⟨lead, pre, post, rfl, hl, hne, hpre, hpost, hres⟩
        · left
          refine ⟨?_, by rw [hstep]; exact hnil⟩
          intro d hd
          cases hd with
          | head => exact hc
          | tail _ hd => exact hall d hd
        · right
          refine ⟨c :: lead, pre, post, by simp, ?_, hne, hpre, hpost, by rw [hstep]; exact hres⟩
          intro d hd
          cases hd with
          | head => exact hc
          | tail _ hd => exact hl d hd
      · have hstep : splitWsAux (c :: cs) cur = cur.reverse :: splitWsAux cs [] := by
          simp [splitWsAux, hc, he]
        rw [hstep] at hlen
        have hnil : splitWsAux cs [] = [] := by
          cases h : splitWsAux cs [] with
          | nil => rfl
          | cons x xs => rw [h] at hlen; simp at hlen
        have ih := (splitWsAux_shape cs [] (by simp) (by rw [hnil]; simp)).2 rfl
        refine ⟨fun _ => ?_, fun h => absurd h he⟩
        rcases ih with ⟨hall, _⟩ | ⟨lead, pre, post, _, _, hne, _, _, hres⟩
        · refine ⟨[], c :: cs, rfl, by simp, ?_, by rw [hstep, hnil]; simp⟩
          intro d hd
          cases hd with
          | head => exact hc
          | tail _ hd => exact hall d hd
        · rw [hnil] at hres; cases hres
    · -- a non-space character extends the current token
      have hc' : isWs c = false := by simpa using hc
      have hstep : splitWsAux (c :: cs) cur = splitWsAux cs (c :: cur) := by simp [splitWsAux, hc']
      rw [hstep] at hlen
      have hcur' : ∀ d ∈ c :: cur, isWs d = false := by
        intro d hd
        cases hd with
        | head => exact hc'
        | tail _ hd => exact hcur d hd
      obtain ⟨pre, post, rfl, hpre, hpost, hres⟩ := (splitWsAux_shape cs (c :: cur) hcur' hlen).1 (by simp)
      have hpre' : ∀ d ∈ c :: pre, isWs d = false := by
        intro d hd
        cases hd with
        | head => exact hc'
        | tail _ hd => exact hpre d hd
      constructor
      · intro _
        refine ⟨c :: pre, post, rfl, hpre', hpost, ?_⟩
        rw [hstep, hres]; simp
      · intro he; subst he
        right
        refine ⟨[], c :: pre, post, rfl, by simp, by simp, hpre', hpost, ?_⟩
        rw [hstep, hres]; simp

/-- **one token (or none) with surrounding white space: `collapse` = `strip`** -/
theorem collapse_eq_strip (s : String) (h : (splitWs s).length ≤ 1) : collapse s = strip s := by
  have hlen : (splitWsAux s.toList []).length ≤ 1 := by simpa [splitWs] using h
  have sh := (splitWsAux_shape s.toList [] (by simp) hlen).2 rfl
  rw [strip_eq]
  unfold collapse splitWs
  rcases sh with ⟨hall, hnil⟩ | ⟨lead, pre, post, hcs, hl, _, hpre, hpost, hres⟩
  · rw [hnil]
    have : stripL s.toList = [] := by
      have := stripL_sandwich s.toList [] [] hall (by simp) (by simp)
      simpa using this
    rw [this]; rfl
  · rw [hres, hcs, stripL_sandwich lead pre post hl hpost hpre]
    rfl

/-- the tokens produced by `split()` are non-empty and free of white space -/
theorem splitWsAux_tokens : ∀ (cs cur : List Char), (∀ c ∈ cur, isWs c = false) →
    ∀ w ∈ splitWsAux cs cur, w ≠ [] ∧ ∀ c ∈ w, isWs c = false
  | [], cur, hcur, w, hw => by
    simp only [splitWsAux] at hw
    split at hw
    · cases hw
    · rename_i hne
      simp only [List.mem_singleton] at hw
      subst hw
      refine ⟨by simpa using hne, fun c hc => hcur c (List.mem_reverse.mp hc)⟩
  | c :: cs, cur, hcur, w, hw => by
    simp only [splitWsAux] at hw
    split at hw
    · split at hw
      · exact splitWsAux_tokens cs [] (by simp) w hw
      · rename_i hne
        simp only [List.mem_cons] at hw
        rcases hw with rfl | hw
        · refine ⟨by simpa using hne, fun d hd => hcur d (List.mem_reverse.mp hd)⟩
        · exact splitWsAux_tokens cs [] (by simp) w hw
    · rename_i hc
      refine splitWsAux_tokens cs (c :: cur) ?_ w hw
      intro d hd
      cases hd with
      | head => simpa using hc
      | tail _ hd => exact hcur d hd

/-- a white-space-free word is its own single token -/
theorem splitWsAux_word : ∀ (l cur : List Char), (∀ c ∈ l, isWs c = false) → (cur ≠ [] ∨ l ≠ []) →
    splitWsAux l cur = [cur.reverse ++ l]
  | [], cur, _, h => by
    rcases h with h | h
    · simp [splitWsAux, h]
    · exact absurd rfl h
  | c :: cs, cur, hl, _ => by
    have hc : isWs c = false := hl c List.mem_cons_self
    simp only [splitWsAux, hc, Bool.false_eq_true, if_false]
    rw [splitWsAux_word cs (c :: cur) (fun d hd => hl d (List.mem_cons_of_mem _ hd)) (Or.inl (by simp))]
    simp

/-- every item of a list literal is a single token -/
theorem token_single (s w : String) (hw : w ∈ splitWs s) : (splitWs w).length ≤ 1 := by
  simp only [splitWs, List.mem_map] at hw
  obtain ⟨l, hl, rfl⟩ := hw
  obtain ⟨hne, hnows⟩ := splitWsAux_tokens s.toList [] (by simp) l hl
  simp only [splitWs, String.toList_ofList, List.length_map]
  rw [splitWsAux_word l [] hnows (Or.inr hne)]
  simp

/-- **the decoder's constructors ARE the XSD lexical mappings** on every builtin and every text that
is at most one token with surrounding white space (since fixes F20a and F20i): `value.__class__(s)` /
`BooleanProxy` / `DecimalProxy` / `DoubleProxy` succeed exactly on the valid literals, with the
same value -/
theorem pyDecode_eq_xsdLex (b : B) (s : String) (h1 : (splitWs s).length ≤ 1) :
    pyDecode b s = xsdLex b (normalize b s) := by
  have hcs := collapse_eq_strip s h1
  cases b <;> simp only [normalize, wsOf, xsdLex, pyDecode, hcs] <;>
    (try (cases hi : intOfLex? (strip s) <;> with_reducible rfl))

theorem pyDecode_of_xsdLex (b : B) (s : String) (h1 : (splitWs s).length ≤ 1) (a : Atom)
    (h : xsdLex b (normalize b s) = some a) : pyDecode b s = some a := by
  rw [pyDecode_eq_xsdLex b s h1]; exact h

end EPV.Xsd
